import Logrange.Proofs.TagsNecessityN
/-!
# Towards necessity of `safeW` without `rawInert` (stage 2)

`TagsNecessityN.safeW_necessary_inert` needs every raw value to be inert. Here: what happens at the FIRST raw value that is not.
* `unquote_DQ_keeps_comma` / `unquote_BQ_keeps_comma` / `decode_keeps_comma`: a comma in a piece survives `ToMap`'s decoding.
* `diverged_piece_ne` (S2a): the piece that starts at a raw value and swallows the joiner behind it is never read as that value.
* `split_lockstep`, `split_diverge`: the splitter follows the printed pairs while they are inert, then swallows the joiner.
* `last_raw_not_inert` (S2b): if the offending raw value is the last value, the line does not read back.
* `safeW_necessary_initInert`: hence `safeW` is necessary as soon as all raw values but the last are inert.
* `diverged_core` / `later_pair` (reduction): otherwise a pair of the set standing at or before the offending one must be
  produced again by the pieces cut AFTER the diverged piece. OPEN: refuting that (`not_rawInert_no_roundtrip` in general).
-/
namespace Logrange.Proofs.TagsNecessityS2
open Go Logrange.Quote Logrange.KV Logrange.Tags Logrange.Proofs.KV Logrange.Proofs.Tags Logrange.Proofs.ParsedKeys
  Logrange.Proofs.UnquoteFix Logrange.Proofs.TagsNecessity Logrange.Proofs.TagsNecessityN Logrange.Proofs.Quote

/-! ### a comma inside a quoted text survives `Unquote` -/

theorem unhex_CM : unhex CM = none := by decide

theorem foldlM_unhex_noCM : ∀ (l : Bytes) (acc v : Nat),
    l.foldlM (fun acc c => (unhex c).map (fun x => acc * 16 + x)) acc = some v → CM ∉ l := by
  intro l
  induction l with
  | nil => intro _ _ _ h; cases h
  | cons a l ih =>
    intro acc v h hm
    rw [List.foldlM_cons] at h
    cases hu : unhex a with
    | none => rw [hu] at h; simp at h
    | some x =>
      rw [hu] at h
      simp only [Option.map_some, Option.bind_eq_bind, Option.bind_some] at h
      rcases List.mem_cons.mp hm with e | e
      · rw [← e, unhex_CM] at hu; cases hu
      · exact ih _ _ h e

theorem readHex_noCM (s : Bytes) (n v : Nat) (h : readHex s n = some v) : CM ∉ s.take n := by
  unfold readHex at h
  split at h
  · cases h
  · exact foldlM_unhex_noCM _ _ _ h

theorem mem_drop_of_not_take (s : Bytes) (n : Nat) (x : UInt8) (h : x ∈ s) (hn : x ∉ s.take n) : x ∈ s.drop n := by
  rw [← List.take_append_drop n s] at h
  rcases List.mem_append.mp h with h | h
  · exact absurd h hn
  · exact h

/-- after a backslash no comma is swallowed: the escape letter is no comma, and neither are the hex/octal digits -/
theorem unquoteChar_BS_comma (c1 : UInt8) (s2 : Bytes) (r : Nat) (mb : Bool) (t : Bytes)
    (hu : unquoteChar (BS :: c1 :: s2) DQ = some (r, mb, t)) (hm : CM ∈ c1 :: s2) : CM ∈ t := by
  have hs2 : ∀ k : UInt8, (c1 == k) = true → k ≠ CM → CM ∈ s2 := by
    intro k hk hne
    rcases List.mem_cons.mp hm with e | e
    · exfalso; apply hne; rw [e]; exact (beq_iff_eq.mp hk).symm
    · exact e
  unfold unquoteChar at hu
  simp only [] at hu
  rw [if_neg (by decide), if_neg (by decide), if_neg (by decide)] at hu
  by_cases h97 : (c1 == 97) = true
  · rw [if_pos h97] at hu; cases hu; exact hs2 _ h97 (by decide)
  rw [if_neg h97] at hu
  by_cases h98 : (c1 == 98) = true
  · rw [if_pos h98] at hu; cases hu; exact hs2 _ h98 (by decide)
  rw [if_neg h98] at hu
  by_cases h102 : (c1 == 102) = true
  · rw [if_pos h102] at hu; cases hu; exact hs2 _ h102 (by decide)
  rw [if_neg h102] at hu
  by_cases h110 : (c1 == 110) = true
  · rw [if_pos h110] at hu; cases hu; exact hs2 _ h110 (by decide)
  rw [if_neg h110] at hu
  by_cases h114 : (c1 == 114) = true
  · rw [if_pos h114] at hu; cases hu; exact hs2 _ h114 (by decide)
  rw [if_neg h114] at hu
  by_cases h116 : (c1 == 116) = true
  · rw [if_pos h116] at hu; cases hu; exact hs2 _ h116 (by decide)
  rw [if_neg h116] at hu
  by_cases h118 : (c1 == 118) = true
  · rw [if_pos h118] at hu; cases hu; exact hs2 _ h118 (by decide)
  rw [if_neg h118] at hu
  by_cases h120 : (c1 == 120) = true
  · rw [if_pos h120] at hu
    simp only [Option.map_eq_some_iff, Prod.mk.injEq] at hu
    obtain ⟨v, hv, _, _, rfl⟩ := hu
    exact mem_drop_of_not_take _ _ _ (hs2 _ h120 (by decide)) (readHex_noCM _ _ _ hv)
  rw [if_neg h120] at hu
  by_cases h117 : (c1 == 117) = true
  · rw [if_pos h117] at hu
    simp only [Option.bind_eq_some_iff] at hu
    obtain ⟨v, hv, hu⟩ := hu
    split at hu
    · cases hu; exact mem_drop_of_not_take _ _ _ (hs2 _ h117 (by decide)) (readHex_noCM _ _ _ hv)
    · cases hu
  rw [if_neg h117] at hu
  by_cases h85 : (c1 == 85) = true
  · rw [if_pos h85] at hu
    simp only [Option.bind_eq_some_iff] at hu
    obtain ⟨v, hv, hu⟩ := hu
    split at hu
    · cases hu; exact mem_drop_of_not_take _ _ _ (hs2 _ h85 (by decide)) (readHex_noCM _ _ _ hv)
    · cases hu
  rw [if_neg h85] at hu
  by_cases hoct : (decide (48 ≤ c1.toNat) && decide (c1.toNat ≤ 55)) = true
  · rw [if_pos hoct] at hu
    have hc1 : c1 ≠ CM := by
      intro e; subst e; revert hoct; decide
    have hin : CM ∈ s2 := by
      rcases List.mem_cons.mp hm with e | e
      · exact absurd e.symm hc1
      · exact e
    match s2, hu, hin with
    | d1 :: d2 :: s3, hu, hin =>
      simp only [] at hu
      split at hu
      · rename_i hd
        split at hu
        · cases hu
        · cases hu
          simp only [Bool.and_eq_true, decide_eq_true_eq] at hd
          rcases List.mem_cons.mp hin with e | e
          · exfalso; rw [← e] at hd
            have h44 : CM.toNat = 44 := by decide
            omega
          · rcases List.mem_cons.mp e with e | e
            · exfalso; rw [← e] at hd
              have h44 : CM.toNat = 44 := by decide
              omega
            · exact e
      · cases hu
    | [], hu, _ => cases hu
    | [_], hu, _ => cases hu
  rw [if_neg hoct] at hu
  by_cases hbs : (c1 == BS) = true
  · rw [if_pos hbs] at hu; cases hu; exact hs2 _ hbs (by decide)
  rw [if_neg hbs] at hu
  by_cases hq : (c1 == 39 || c1 == 34) = true
  · rw [if_pos hq] at hu
    split at hu
    · cases hu
    · cases hu
      rcases List.mem_cons.mp hm with e | e
      · exfalso; rw [← e] at hq; revert hq; decide
      · exact e
  rw [if_neg hq] at hu
  cases hu

/-- one step of `UnquoteChar` inside double quotes: a comma among the bytes it looks at is appended or still to come -/
theorem step_comma (c : UInt8) (rest : Bytes) (r : Nat) (mb : Bool) (t : Bytes) (hc : c ≠ DQ)
    (hu : unquoteChar (c :: rest) DQ = some (r, mb, t)) (hm : CM ∈ c :: rest) :
    CM ∈ outBytes r mb ∨ CM ∈ t := by
  by_cases hbs : c = BS
  · subst hbs
    cases rest with
    | nil =>
      unfold unquoteChar at hu
      simp only [] at hu
      rw [if_neg (by decide), if_neg (by decide), if_neg (by decide)] at hu
      cases hu
    | cons c1 s2 =>
      right
      refine unquoteChar_BS_comma c1 s2 r mb t hu ?_
      rcases List.mem_cons.mp hm with e | e
      · exact absurd e (by decide)
      · exact e
  · by_cases hge : c.toNat ≥ 0x80
    · unfold unquoteChar at hu
      simp only [] at hu
      rw [if_neg (by simp [hc]), if_pos hge] at hu
      cases hd : decodeRune (c :: rest) with
      | mk r' w =>
        rw [hd] at hu
        simp only [Option.some.injEq, Prod.mk.injEq] at hu
        obtain ⟨rfl, rfl, rfl⟩ := hu
        by_cases hne : (w = 1 ∧ r' = runeError)
        · right
          rw [hne.1]
          rcases List.mem_cons.mp hm with e | e
          · exfalso; rw [← e] at hge; revert hge; decide
          · simpa using e
        · obtain ⟨h80, _, henc, _, _⟩ := decode_valid c rest hge r' w hd hne
          have ho : outBytes r' true = encodeRune r' := by
            unfold outBytes
            rw [if_neg (by simp; omega)]
          rw [ho, henc]
          rw [← List.take_append_drop w (c :: rest)] at hm
          exact List.mem_append.mp hm
    · unfold unquoteChar at hu
      simp only [] at hu
      rw [if_neg (by simp [hc]), if_neg hge, if_pos (by simpa using hbs)] at hu
      simp only [Option.some.injEq, Prod.mk.injEq] at hu
      obtain ⟨rfl, rfl, rfl⟩ := hu
      have : outBytes c.toNat false = [c] := by simp [outBytes, b_toNat]
      rw [this]
      rcases List.mem_cons.mp hm with e | e
      · left; simp [e]
      · right; exact e

theorem loop_comma : ∀ (fuel : Nat) (s acc out rem : Bytes),
    unquote.loop DQ fuel s acc = some (out, rem) → (CM ∈ acc ∨ CM ∈ s) → (CM ∈ out ∨ CM ∈ rem) := by
  intro fuel
  induction fuel with
  | zero => intro s acc out rem h; simp [unquote.loop] at h
  | succ k ih =>
    intro s acc out rem h hm
    cases s with
    | nil => simp [unquote.loop] at h
    | cons c tl =>
      by_cases hc : c = DQ
      · subst hc
        rw [unquote.loop.eq_3, if_pos (by simp)] at h
        simp only [Option.some.injEq, Prod.mk.injEq, List.drop_succ_cons, List.drop_zero] at h
        obtain ⟨rfl, rfl⟩ := h
        rcases hm with hm | hm
        · exact Or.inl hm
        · rcases List.mem_cons.mp hm with e | e
          · exact absurd e (by decide)
          · exact Or.inr e
      · cases hu : unquoteChar (c :: tl) DQ with
        | none => rw [unquote.loop.eq_3, if_neg (by simpa using hc), hu] at h; cases h
        | some x =>
          obtain ⟨r, mb, t⟩ := x
          by_cases h10 : c = 10
          · rw [unquote.loop.eq_3, if_neg (by simpa using hc), hu] at h
            simp only [] at h
            rw [if_pos (by simpa using h10)] at h; cases h
          · rw [loop_step k c tl t acc r mb hc h10 hu] at h
            refine ih t (acc ++ outBytes r mb) out rem h ?_
            rcases hm with hm | hm
            · exact Or.inl (List.mem_append_left _ hm)
            · rcases step_comma c tl r mb t hc hu hm with h1 | h1
              · exact Or.inl (List.mem_append_right _ h1)
              · exact Or.inr h1

theorem mem_take_of_drop_head (s : Bytes) (e : Nat) (c : UInt8) (tl : Bytes) (x : UInt8) (hd : s.drop e = c :: tl)
    (hlen : e + 1 = s.length) (hx : x ∈ s) (hne : x ≠ c) : x ∈ s.take e := by
  have htl : tl = [] := by
    have := congrArg List.length hd
    simp only [List.length_drop, List.length_cons] at this
    exact List.eq_nil_of_length_eq_zero (by omega)
  subst htl
  rw [← List.take_append_drop e s, hd] at hx
  rcases List.mem_append.mp hx with h | h
  · exact h
  · exact absurd (List.mem_singleton.mp h) hne

/-- **a comma inside a double-quoted text survives `Unquote`** (it is never part of an escape sequence) -/
theorem unquote_DQ_keeps_comma (rest1 out : Bytes) (h : unquote (DQ :: rest1) = some out) (hm : CM ∈ rest1) :
    CM ∈ out := by
  unfold unquote at h
  simp only [] at h
  rcases ite_some _ _ _ _ h with h | h
  · cases h
  · cases hi : indexOf rest1 DQ with
    | none => rw [hi] at h; cases h
    | some e =>
      rw [hi] at h
      simp only [] at h
      rw [if_neg (by decide), if_pos (by decide)] at h
      obtain ⟨tl, htl⟩ := indexOf_drop rest1 DQ e hi
      rcases ite_some _ _ _ _ h with h | h
      · -- fast path
        split at h
        · rename_i hlen
          cases h
          simp only [List.drop_succ_cons, List.drop_zero, Nat.add_sub_cancel]
          simp only [List.length_cons, beq_iff_eq] at hlen
          exact mem_take_of_drop_head rest1 e DQ tl CM htl (by omega) hm (by decide)
        · cases h
      · -- slow path
        simp only [List.drop_succ_cons, List.drop_zero] at h
        cases hl : unquote.loop DQ ((DQ :: rest1).length + 1) rest1 [] with
        | none => rw [hl] at h; cases h
        | some x =>
          obtain ⟨o, rem⟩ := x
          rw [hl] at h
          simp only [] at h
          split at h
          · rename_i hre
            cases h
            rcases loop_comma _ _ _ _ _ hl (Or.inr hm) with h1 | h1
            · exact h1
            · have : rem = [] := by simpa using hre
              rw [this] at h1; cases h1
          · cases h

theorem unquote_BQ_keeps_comma (rest1 out : Bytes) (h : unquote (BQ :: rest1) = some out) (hm : CM ∈ rest1) :
    CM ∈ out := by
  unfold unquote at h
  simp only [] at h
  rcases ite_some _ _ _ _ h with h | h
  · cases h
  · cases hi : indexOf rest1 BQ with
    | none => rw [hi] at h; cases h
    | some e =>
      rw [hi] at h
      simp only [] at h
      rw [if_pos (by decide)] at h
      obtain ⟨tl, htl⟩ := indexOf_drop rest1 BQ e hi
      split at h
      · cases h
      · rename_i hlen
        cases h
        simp only [List.drop_succ_cons, List.drop_zero, Nat.add_sub_cancel]
        simp only [List.length_cons, bne_iff_ne, ne_eq, Decidable.not_not] at hlen
        have := mem_take_of_drop_head rest1 e BQ tl CM htl (by omega) hm (by decide)
        exact List.mem_filter.mpr ⟨this, by decide⟩

/-! ### the piece that starts at a non-inert raw value -/

theorem mem_dropWhile_SP (x : UInt8) (hx : x ≠ SP) : ∀ l : Bytes, x ∈ l → x ∈ l.dropWhile (· == SP) := by
  intro l
  induction l with
  | nil => intro h; cases h
  | cons c r ih =>
    intro h
    by_cases hc : c = SP
    · subst hc
      rcases List.mem_cons.mp h with e | e
      · exact absurd e hx
      · simpa using ih e
    · simpa [hc] using h

theorem mem_trimSpaces (x : UInt8) (hx : x ≠ SP) (w : Bytes) (h : x ∈ w) : x ∈ trimSpaces w := by
  unfold trimSpaces
  rw [List.mem_reverse]
  apply mem_dropWhile_SP x hx
  rw [List.mem_reverse]
  exact mem_dropWhile_SP x hx w h

/-- what `ToMap` reads from a piece that holds a comma holds a comma -/
theorem decode_keeps_comma (w x : Bytes) (hd : decodeValue (trimSpaces w) = some x) (hm : CM ∈ w) : CM ∈ x := by
  have hm' := mem_trimSpaces CM (by decide) w hm
  generalize trimSpaces w = t at hd hm'
  cases t with
  | nil => cases hm'
  | cons c r =>
    unfold decodeValue at hd
    simp only [] at hd
    split at hd
    · rename_i hq
      simp only [Bool.or_eq_true, beq_iff_eq] at hq
      rcases hq with hq | hq
      · subst hq
        rcases List.mem_cons.mp hm' with e | e
        · exact absurd e (by decide)
        · exact unquote_DQ_keeps_comma r x hd e
      · subst hq
        rcases List.mem_cons.mp hm' with e | e
        · exact absurd e (by decide)
        · exact unquote_BQ_keeps_comma r x hd e
    · simp only [Option.some.injEq] at hd
      rw [← hd]; exact hm'

/-- **S2a**: the piece that starts at a raw value `v` and runs past the joiner that follows it is never read as `v` -/
theorem diverged_piece_ne (v z x : Bytes) (hv : CM ∉ v) (hd : decodeValue (trimSpaces (v ++ CM :: z)) = some x) :
    x ≠ v := by
  intro e
  subst e
  exact hv (decode_keeps_comma _ _ hd (by simp))

/-! ### the splitter is in lockstep with the printed pairs as long as they are inert -/

/-- what follows a printed value: nothing, or the joiner and the remaining printed pairs -/
def tailOf : List (Bytes × Bytes) → Bytes
  | [] => []
  | q :: R => CM :: joinItems ((q :: R).map (item id))

theorem join_head (k w : Bytes) (E2 : List (Bytes × Bytes)) :
    joinItems (((k, w) :: E2).map (item id)) = k ++ EQ :: (w ++ tailOf E2) := by
  cases E2 <;> simp [joinItems, item, tailOf]

theorem split_lockstep : ∀ (E1 : List (Bytes × Bytes)) (o : List Bytes) (k w : Bytes) (E2 : List (Bytes × Bytes)),
    (∀ p ∈ E1, scan p.1 false = some false ∧ scan p.2 false = some false) → scan k false = some false →
    splitGo (joinItems ((E1 ++ (k, w) :: E2).map (item id))) { inStr := false, expKV := true, cur := [], out := o } =
      splitGo (w ++ tailOf E2)
        { inStr := false, expKV := false, cur := [], out := k :: ((E1.flatMap (fun p => [p.1, p.2])).reverse ++ o) } := by
  intro E1
  induction E1 with
  | nil =>
    intro o k w E2 _ hk
    rw [List.nil_append, join_head, split_key _ _ _ hk]
    simp
  | cons p E1 ih =>
    intro o k w E2 hin hk
    obtain ⟨hpk, hpv⟩ := hin p List.mem_cons_self
    have e : joinItems ((p :: E1 ++ (k, w) :: E2).map (item id)) =
        p.1 ++ EQ :: (p.2 ++ CM :: joinItems ((E1 ++ (k, w) :: E2).map (item id))) := by
      rw [List.cons_append, List.map_cons, joinItems_cons_ne _ _ (by simp)]
      simp [item]
    rw [e, split_key _ _ _ hpk, split_val _ _ _ hpv,
      ih _ k w E2 (fun x hx => hin x (List.mem_cons_of_mem _ hx)) hk]
    simp

theorem split_bad_end (w : Bytes) (ex : Bool) (o : List Bytes) (hns : ∀ x ∈ w, x ≠ EQ ∧ x ≠ CM)
    (hb : scan w false ≠ some false) :
    splitGo w { inStr := false, expKV := ex, cur := [], out := o } = none := by
  cases hs : scan w false with
  | none =>
    exact split_scan_none w.length w (Nat.le_refl _) false { inStr := false, expKV := ex, cur := [], out := o } hns hs
  | some b =>
    cases b with
    | false => exact absurd hs hb
    | true =>
      have := split_inert w false true [] { inStr := false, expKV := ex, cur := [], out := o } hs
      simp only [List.append_nil] at this
      rw [this, splitGo.eq_def]
      simp

/-- a raw value on which the automaton does not come back outside a string swallows the joiner that follows it -/
theorem split_diverge : ∀ (n : Nat) (w : Bytes), w.length ≤ n → ∀ (b ex : Bool) (cur : Bytes) (o : List Bytes)
    (T : Bytes) (parts : List Bytes), (∀ x ∈ w, x ≠ EQ ∧ x ≠ CM) → scan w b ≠ some false →
    splitGo (w ++ CM :: T) ⟨b, ex, cur, o⟩ = some parts →
    ∃ z more, parts = o.reverse ++ (cur.reverse ++ w ++ CM :: z) :: more := by
  intro n
  induction n with
  | zero =>
    intro w hl b ex cur o T parts _ hb h
    have : w = [] := List.eq_nil_of_length_eq_zero (by omega)
    subst this
    have hbt : b = true := by
      cases b with
      | true => rfl
      | false => exact absurd rfl hb
    subst hbt
    rw [List.nil_append, splitGo.eq_def] at h
    simp only [CM_ne_DQ, CM_ne_BS, Bool.false_eq_true, if_false, Bool.false_and, Bool.not_true, Bool.and_false] at h
    obtain ⟨z, more, hp, _⟩ := splitGo_cur_prefix _ T (Nat.le_refl _) _ parts h
    exact ⟨z, more, by simpa using hp⟩
  | succ n ih =>
    intro w hl b ex cur o T parts hns hb h
    match w, hl, hns, hb, h with
    | [], _, _, hb, h =>
      have hbt : b = true := by
        cases b with
        | true => rfl
        | false => exact absurd rfl hb
      subst hbt
      rw [List.nil_append, splitGo.eq_def] at h
      simp only [CM_ne_DQ, CM_ne_BS, Bool.false_eq_true, if_false, Bool.false_and, Bool.not_true, Bool.and_false] at h
      obtain ⟨z, more, hp, _⟩ := splitGo_cur_prefix _ T (Nat.le_refl _) _ parts h
      exact ⟨z, more, by simpa using hp⟩
    | c :: w', hl, hns, hb, h =>
      simp only [List.length_cons] at hl
      have hc := hns c List.mem_cons_self
      have hns' : ∀ x ∈ w', x ≠ EQ ∧ x ≠ CM := fun x hx => hns x (List.mem_cons_of_mem _ hx)
      unfold scan at hb
      rw [List.cons_append, splitGo.eq_def] at h
      simp only [] at h
      by_cases hq : (c == DQ) = true
      · simp only [hq, if_true] at h hb
        obtain ⟨z, more, hp⟩ := ih w' (by omega) (!b) ex (c :: cur) o T parts hns' hb h
        exact ⟨z, more, by simpa using hp⟩
      · simp only [hq, Bool.false_eq_true, if_false] at h hb
        by_cases hbs : (c == BS && b) = true
        · simp only [hbs, if_true] at h hb
          have hbt : b = true := by simp at hbs; exact hbs.2
          subst hbt
          match w', hl, hns', hb, h with
          | [], _, _, _, h =>
            simp only [List.nil_append] at h
            obtain ⟨z, more, hp, _⟩ := splitGo_cur_prefix _ T (Nat.le_refl _) _ parts h
            exact ⟨z, more, by simpa using hp⟩
          | d :: w'', hl, hns', hb, h =>
            simp only [List.length_cons] at hl
            simp only [List.cons_append] at h
            simp only [] at hb
            obtain ⟨z, more, hp⟩ := ih w'' (by omega) true ex (d :: c :: cur) o T parts
              (fun x hx => hns' x (List.mem_cons_of_mem _ hx)) hb h
            exact ⟨z, more, by simpa using hp⟩
        · simp only [hbs, Bool.false_eq_true, if_false] at h hb
          have hsep : ((c == EQ || c == CM) && !b) = false := by
            have h1 : (c == EQ) = false := by simpa using hc.1
            have h2 : (c == CM) = false := by simpa using hc.2
            simp [h1, h2]
          simp only [hsep, Bool.false_eq_true, if_false] at h hb
          obtain ⟨z, more, hp⟩ := ih w' (by omega) b ex (c :: cur) o T parts hns' hb h
          exact ⟨z, more, by simpa using hp⟩

/-! ### from `parse (line m) = some m` to the split of the brace-stripped text -/

/-- the steps of `tag.Parse` on the line of a non-empty set that reads back: `RemoveCurlyBraces` cuts `pre` off the first
name and `suf` off the last printed value, the rest is split, paired and folded into the set -/
theorem parse_shape (k1 v1 : Bytes) (r : Map) (hwf : Map.WF ((k1, v1) :: r))
    (h : parse (line ((k1, v1) :: r)) = some ((k1, v1) :: r)) :
    ∃ pre suf k1' en' q parts ps, k1 = pre ++ k1' ∧ (∀ x ∈ pre, x = SP ∨ x = LB) ∧ (∀ x ∈ suf, x = SP ∨ x = RB) ∧
      ((k1', encTag v1) :: r.map encP).getLast? = some q ∧ q.2 = en' ++ suf ∧
      splitString (joinItems ((setLastVal en' ((k1', encTag v1) :: r.map encP)).map (item id))) = some parts ∧
      toPairs parts = some ps ∧ Map.ofPairs ps = (k1, v1) :: r ∧
      removeCurlyBraces (line ((k1, v1) :: r)) =
        some (joinItems ((setLastVal en' ((k1', encTag v1) :: r.map encP)).map (item id))) := by
  rw [line_of_WF _ hwf] at h ⊢
  generalize hL : joinItems (((k1, v1) :: r).map (item encTag)) = L at h
  unfold parse at h
  split at h
  · cases h
  unfold toMap at h
  cases hr : removeCurlyBraces L with
  | none => rw [hr] at h; cases h
  | some fine =>
    rw [hr] at h
    simp only [] at h
    split at h
    · cases h
    rename_i hfe
    have hfne : fine ≠ [] := by intro e; rw [e] at hfe; simp at hfe
    cases hs : splitString fine with
    | none => rw [hs] at h; cases h
    | some parts =>
      rw [hs] at h
      simp only [] at h
      cases hp : toPairs parts with
      | none => rw [hp] at h; cases h
      | some ps =>
        rw [hp] at h
        simp only [Option.some.injEq] at h
        obtain ⟨pre, suf, hdec, hpre, hsuf, _, _⟩ := rcb_decomp _ _ hr hfne
        obtain ⟨Y, hY⟩ := head_shape (encTag v1) (r.map encP)
        have hL1 : L = k1 ++ EQ :: Y := by
          rw [← hL, ← map_encP_item]; exact hY k1
        have hpreEQ : ∀ x ∈ pre, x ≠ EQ := by
          intro x hx e
          rcases hpre x hx with h' | h' <;> (rw [h'] at e; exact absurd e (by decide))
        have hsufEQ : ∀ x ∈ suf, x ≠ EQ := by
          intro x hx e
          rcases hsuf x hx with h' | h' <;> (rw [h'] at e; exact absurd e (by decide))
        obtain ⟨k1', hk1, hX⟩ := prefix_split pre (fine ++ suf) k1 Y hpreEQ (by rw [← hL1, hdec]; simp)
        obtain ⟨Z, q, hq, hZ, hZe⟩ := last_shape ((k1', encTag v1) :: r.map encP) (by simp)
        have hfs : fine ++ suf = Z ++ EQ :: q.2 := by rw [hX, ← hY k1', hZ]
        obtain ⟨en', hen, hfine⟩ := suffix_split suf fine Z q.2 hsufEQ hfs
        have hfineJ : fine = joinItems ((setLastVal en' ((k1', encTag v1) :: r.map encP)).map (item id)) := by
          rw [hZe en']; exact hfine
        exact ⟨pre, suf, k1', en', q, parts, ps, hk1, hpre, hsuf, hq, hen, by rw [← hfineJ]; exact hs, hp, h,
          congrArg some hfineJ⟩

theorem setLastVal_append (e : Bytes) : ∀ (X : List (Bytes × Bytes)) (y : Bytes × Bytes) (Y : List (Bytes × Bytes)),
    setLastVal e (X ++ y :: Y) = X ++ setLastVal e (y :: Y) := by
  intro X
  induction X with
  | nil => intro y Y; rfl
  | cons a X ih =>
    intro y Y
    cases X with
    | nil => rw [List.cons_append, List.nil_append, setLastVal_cons2]; rfl
    | cons b X' =>
      rw [List.cons_append, List.cons_append, setLastVal_cons2, ← List.cons_append, ih y Y]
      rfl

theorem scan_neutral_suffix : ∀ (suf : Bytes), (∀ x ∈ suf, x = SP ∨ x = RB) → ∀ b : Bool, scan suf b = some b := by
  intro suf
  induction suf with
  | nil => intro _ b; rfl
  | cons a s ih =>
    intro h b
    have ih' := ih (fun x hx => h x (List.mem_cons_of_mem _ hx)) b
    rcases h a List.mem_cons_self with e | e
    · subst e
      rw [scan_cons_neutral _ _ _ (by decide) (by decide) (by decide) (by decide)]; exact ih'
    · subst e
      rw [scan_cons_neutral _ _ _ (by decide) (by decide) (by decide) (by decide)]; exact ih'

/-- cutting blanks and `}` off the end of a text the automaton does not leave outside a string does not repair it -/
theorem cut_not_inert (v en' suf : Bytes) (hv : v = en' ++ suf) (hsuf : ∀ x ∈ suf, x = SP ∨ x = RB)
    (hb : scan v false ≠ some false) : scan en' false ≠ some false := by
  intro h
  apply hb
  rw [hv, scan_append en' suf false false h]
  exact scan_neutral_suffix suf hsuf false

/-- the split fails when the last printed value, cut, holds no separator and is not inert while everything before it is -/
theorem split_last_bad (E1 : List (Bytes × Bytes)) (k' e en' : Bytes)
    (hE1 : ∀ p ∈ E1, scan p.1 false = some false ∧ scan p.2 false = some false) (hk : scan k' false = some false)
    (hns : ∀ x ∈ en', x ≠ EQ ∧ x ≠ CM) (hb : scan en' false ≠ some false) :
    splitString (joinItems ((setLastVal en' (E1 ++ [(k', e)])).map (item id))) = none := by
  rw [setLastVal_append]
  have e1 : setLastVal en' [(k', e)] = [(k', en')] := rfl
  rw [e1]
  unfold splitString
  have e0 : ({} : SS) = { inStr := false, expKV := true, cur := [], out := [] } := rfl
  rw [e0, split_lockstep E1 [] k' en' [] hE1 hk]
  have e2 : en' ++ tailOf [] = en' := by simp [tailOf]
  rw [e2]
  exact split_bad_end en' false _ hns hb

theorem rawInert_enc (A : Map) (hA : rawInert A = true) : ∀ x ∈ A, scan (encTag x.2) false = some false := by
  intro x hx
  unfold encTag
  by_cases hn : needsQuote x.2 = true
  · rw [if_pos hn]
    have := inert_quote Logrange.Proofs.Quote.quoteContract x.2
    simpa [inert] using this
  · rw [if_neg hn]
    have := List.all_eq_true.mp hA x hx
    simpa [hn, inert] using this

/-- **S2b**: when the only raw value that is not inert is the last value of the set, the line does not read back (the split
fails: the text ends inside a string) -/
theorem last_raw_not_inert (A : Map) (k v : Bytes) (hwf : Map.WF (A ++ [(k, v)])) (hA : rawInert A = true)
    (hn : needsQuote v = false) (hv : inert v = false) :
    parse (line (A ++ [(k, v)])) ≠ some (A ++ [(k, v)]) := by
  intro h
  have hkey : ∀ x ∈ A ++ [(k, v)], scan x.1 false = some false := by
    intro x hx
    obtain ⟨_, _, c⟩ := parsed_names_readable _ _ h x hx
    simpa [inert] using c
  have hencA := rawInert_enc A hA
  obtain ⟨_, hns⟩ := needsQuote_false v hn
  have hev : encTag v = v := by unfold encTag; simp [hn]
  have hvb : scan v false ≠ some false := by
    intro e; simp [inert, e] at hv
  cases A with
  | nil =>
    simp only [List.nil_append] at h hwf hkey
    obtain ⟨pre, suf, k1', en', q, parts, ps, hk1, hpre, hsuf, hq, hq2, hs, _, _, _⟩ := parse_shape k v [] hwf h
    simp only [List.map_nil, List.getLast?_singleton, Option.some.injEq] at hq
    subst hq
    simp only [hev] at hq2
    have hk1' : scan k1' false = some false := by
      have := hkey (k, v) List.mem_cons_self
      simp only [] at this
      rw [hk1, scan_neutral_prefix pre k1' false hpre] at this
      exact this
    have := split_last_bad [] k1' (encTag v) en' (by intro p hp; cases hp) hk1'
      (fun x hx => hns x (by rw [hq2]; exact List.mem_append_left _ hx)) (cut_not_inert v en' suf hq2 hsuf hvb)
    simp only [List.nil_append, List.map_nil] at this hs
    rw [this] at hs; cases hs
  | cons a A2 =>
    obtain ⟨ka, va⟩ := a
    simp only [List.cons_append] at h hwf hkey
    obtain ⟨pre, suf, k1', en', q, parts, ps, hk1, hpre, hsuf, hq, hq2, hs, _, _, _⟩ :=
      parse_shape ka va (A2 ++ [(k, v)]) hwf h
    have eE : (k1', encTag va) :: (A2 ++ [(k, v)]).map encP = ((k1', encTag va) :: A2.map encP) ++ [(k, encTag v)] := by
      simp [encP]
    rw [eE] at hq hs
    rw [List.getLast?_concat] at hq
    simp only [Option.some.injEq] at hq
    subst hq
    simp only [hev] at hq2
    have hk1' : scan k1' false = some false := by
      have := hkey (ka, va) List.mem_cons_self
      simp only [] at this
      rw [hk1, scan_neutral_prefix pre k1' false hpre] at this
      exact this
    have hE1 : ∀ p ∈ (k1', encTag va) :: A2.map encP, scan p.1 false = some false ∧ scan p.2 false = some false := by
      intro p hp
      rcases List.mem_cons.mp hp with hp | hp
      · rw [hp]; exact ⟨hk1', hencA (ka, va) List.mem_cons_self⟩
      · obtain ⟨x, hx, hxe⟩ := List.mem_map.mp hp
        rw [← hxe]
        exact ⟨hkey x (List.mem_cons_of_mem _ (List.mem_append_left _ hx)), hencA x (List.mem_cons_of_mem _ hx)⟩
    have := split_last_bad ((k1', encTag va) :: A2.map encP) k (encTag v) en' hE1
      (hkey (k, v) (List.mem_cons_of_mem _ (List.mem_append_right _ List.mem_cons_self)))
      (fun x hx => hns x (by rw [hq2]; exact List.mem_append_left _ hx)) (cut_not_inert v en' suf hq2 hsuf hvb)
    rw [this] at hs; cases hs

/-! ### the general case, reduced to the pieces after the diverged piece -/

theorem toPairs_lockstep : ∀ (E1 : List (Bytes × Bytes)) (k' W : Bytes) (more : List Bytes) (ps : List (Bytes × Bytes)),
    toPairs (E1.flatMap (fun p => [p.1, p.2]) ++ k' :: W :: more) = some ps →
    ∃ x ps2, decodeValue (trimSpaces W) = some x ∧ toPairs more = some ps2 ∧
      ∀ q ∈ ps, (∃ p ∈ E1, decP p = some q) ∨ q = (trimSpaces k', x) ∨ q ∈ ps2 := by
  intro E1
  induction E1 with
  | nil =>
    intro k' W more ps h
    simp only [List.flatMap_nil, List.nil_append, toPairs] at h
    split at h
    · cases h
    · cases hd : decodeValue (trimSpaces W) with
      | none => rw [hd] at h; cases h
      | some x =>
        rw [hd] at h
        simp only [] at h
        cases hr : toPairs more with
        | none => rw [hr] at h; cases h
        | some ps2 =>
          rw [hr] at h
          simp only [Option.some.injEq] at h
          subst h
          refine ⟨x, ps2, rfl, rfl, ?_⟩
          intro q hq
          rcases List.mem_cons.mp hq with e | e
          · exact Or.inr (Or.inl e)
          · exact Or.inr (Or.inr e)
  | cons p E1 ih =>
    intro k' W more ps h
    simp only [List.flatMap_cons, List.cons_append, List.nil_append, toPairs] at h
    split at h
    · cases h
    · cases hd : decodeValue (trimSpaces p.2) with
      | none => rw [hd] at h; cases h
      | some y =>
        rw [hd] at h
        simp only [] at h
        cases hr : toPairs (E1.flatMap (fun p => [p.1, p.2]) ++ k' :: W :: more) with
        | none => rw [hr] at h; cases h
        | some r' =>
          rw [hr] at h
          simp only [Option.some.injEq] at h
          subst h
          obtain ⟨x, ps2, h1, h2, h3⟩ := ih k' W more r' hr
          refine ⟨x, ps2, h1, h2, ?_⟩
          intro q hq
          rcases List.mem_cons.mp hq with e | e
          · left
            exact ⟨p, List.mem_cons_self, by simp [decP, hd, e]⟩
          · rcases h3 q e with ⟨p', hp', hdp⟩ | h4
            · exact Or.inl ⟨p', List.mem_cons_of_mem _ hp', hdp⟩
            · exact Or.inr h4

/-- **the diverged piece**: the printed pairs `E1` are inert, then comes a name `k'` and a raw value `w` that the automaton
does not leave outside a string, then more pairs. If the split succeeds, its pieces are those of `E1`, `k'`, ONE piece
`w ++ , ++ z` that `ToMap` never reads as `w`, and further pieces `more`; every pair read comes from `E1`, is
`(k', x)` with `x ≠ w`, or is read from `more` -/
theorem diverged_core (E1 E2 : List (Bytes × Bytes)) (k' w : Bytes) (parts : List Bytes) (ps : List (Bytes × Bytes))
    (hE1 : ∀ p ∈ E1, scan p.1 false = some false ∧ scan p.2 false = some false) (hk : scan k' false = some false)
    (hns : ∀ x ∈ w, x ≠ EQ ∧ x ≠ CM) (hb : scan w false ≠ some false) (hE2 : E2 ≠ [])
    (hs : splitString (joinItems ((E1 ++ (k', w) :: E2).map (item id))) = some parts) (hp : toPairs parts = some ps) :
    ∃ z more x ps2, parts = E1.flatMap (fun p => [p.1, p.2]) ++ k' :: (w ++ CM :: z) :: more ∧
      decodeValue (trimSpaces (w ++ CM :: z)) = some x ∧ x ≠ w ∧ toPairs more = some ps2 ∧
      ∀ q ∈ ps, (∃ p ∈ E1, decP p = some q) ∨ q = (trimSpaces k', x) ∨ q ∈ ps2 := by
  unfold splitString at hs
  have e0 : ({} : SS) = { inStr := false, expKV := true, cur := [], out := [] } := rfl
  rw [e0, split_lockstep E1 [] k' w E2 hE1 hk] at hs
  obtain ⟨T, hT⟩ : ∃ T, tailOf E2 = CM :: T := by
    cases E2 with
    | nil => exact absurd rfl hE2
    | cons q R => exact ⟨_, rfl⟩
  rw [hT] at hs
  obtain ⟨z, more, hparts⟩ := split_diverge w.length w (Nat.le_refl _) false false [] _ T parts hns hb hs
  have hparts' : parts = E1.flatMap (fun p => [p.1, p.2]) ++ k' :: (w ++ CM :: z) :: more := by
    rw [hparts]; simp
  rw [hparts'] at hp
  obtain ⟨x, ps2, h1, h2, h3⟩ := toPairs_lockstep E1 k' (w ++ CM :: z) more ps hp
  exact ⟨z, more, x, ps2, hparts', h1, diverged_piece_ne w z x (fun hm => (hns CM hm).2 rfl) h1, h2, h3⟩

theorem decP_fst (p q : Bytes × Bytes) (h : decP p = some q) : q.1 = trimSpaces p.1 := by
  unfold decP at h
  cases hd : decodeValue (trimSpaces p.2) with
  | none => rw [hd] at h; cases h
  | some y =>
    rw [hd] at h
    simp only [Option.map_some, Option.some.injEq] at h
    rw [← h]

theorem length_flat (E : List (Bytes × Bytes)) : (E.flatMap (fun p => [p.1, p.2])).length = 2 * E.length := by
  induction E with
  | nil => rfl
  | cons p E ih => simp only [List.flatMap_cons, List.length_append, List.length_cons, List.length_nil, ih]; omega

/-- **Reduction of the general case**: let `(k, v)` be the first pair whose raw value is not inert, with pairs `B ≠ []` behind
it. If the line reads back as the set, then the brace-stripped line `fine` splits into the pieces of the pairs before, the
name, ONE piece `v ++ , ++ z`, and pieces `more`; and `ToMap`'s loop over `more` alone yields a pair of the set that stands at
or before `(k, v)`. What is left for `rawInert`-free necessity is to refute this: no pair cut out of the text behind a diverged
value is `(k, v)` (nor the first pair of the set). -/
theorem later_pair (A B : Map) (k v : Bytes) (hB : B ≠ []) (hwf : Map.WF (A ++ (k, v) :: B)) (hA : rawInert A = true)
    (hn : needsQuote v = false) (hv : inert v = false)
    (h : parse (line (A ++ (k, v) :: B)) = some (A ++ (k, v) :: B)) :
    ∃ (fine : Bytes) (parts : List Bytes) (z : Bytes) (more : List Bytes) (ps2 : List (Bytes × Bytes)),
      removeCurlyBraces (line (A ++ (k, v) :: B)) = some fine ∧ splitString fine = some parts ∧
      parts.drop (2 * A.length + 1) = (v ++ CM :: z) :: more ∧ toPairs more = some ps2 ∧
      ∃ p ∈ A ++ [(k, v)], p ∈ ps2 := by
  have hkey : ∀ x ∈ A ++ (k, v) :: B, trimSpaces x.1 = x.1 ∧ scan x.1 false = some false := by
    intro x hx
    obtain ⟨_, b, c⟩ := parsed_names_readable _ _ h x hx
    exact ⟨trimSpaces_of_trimmed _ b, by simpa [inert] using c⟩
  have hencA := rawInert_enc A hA
  obtain ⟨_, hns⟩ := needsQuote_false v hn
  have hev : encTag v = v := by unfold encTag; simp [hn]
  have hvb : scan v false ≠ some false := by
    intro e; simp [inert, e] at hv
  obtain ⟨b0, B', rfl⟩ : ∃ b0 B', B = b0 :: B' := by
    cases B with
    | nil => exact absurd rfl hB
    | cons b0 B' => exact ⟨b0, B', rfl⟩
  have hneA : ∀ x ∈ A, x.1 ≠ k := by
    intro x hx
    exact bytesLt_ne ((List.pairwise_append.mp hwf).2.2 x hx (k, v) List.mem_cons_self)
  cases A with
  | nil =>
    simp only [List.nil_append] at h hwf hkey ⊢
    obtain ⟨pre, suf, k1', en', q, parts, ps, hk1, hpre, hsuf, _, _, hs, hp, hof, hrcb⟩ := parse_shape k v _ hwf h
    have hk1' : scan k1' false = some false := by
      have := (hkey (k, v) List.mem_cons_self).2
      simp only [] at this
      rw [hk1, scan_neutral_prefix pre k1' false hpre] at this
      exact this
    have eE : setLastVal en' ((k1', encTag v) :: (b0 :: B').map encP) =
        [] ++ (k1', v) :: setLastVal en' ((b0 :: B').map encP) := by
      rw [List.map_cons, setLastVal_cons2, hev]; rfl
    rw [eE] at hs hrcb
    obtain ⟨z, more, x, ps2, hparts, _, hx, hp2, hall⟩ := diverged_core [] _ k1' v parts ps
      (by intro p hp; cases hp) hk1' hns hvb (setLastVal_ne _ _ (by simp)) hs hp
    refine ⟨_, parts, z, more, ps2, hrcb, hs, by rw [hparts]; simp, hp2, (k, v), List.mem_cons_self, ?_⟩
    have hmem : (k, v) ∈ ps := mem_ofPairs ps _ (by rw [hof]; exact List.mem_cons_self)
    rcases hall _ hmem with ⟨p, hp', _⟩ | e | e
    · cases hp'
    · simp only [Prod.mk.injEq] at e
      exact absurd e.2.symm hx
    · exact e
  | cons a A2 =>
    obtain ⟨ka, va⟩ := a
    simp only [List.cons_append] at h hwf hkey ⊢
    obtain ⟨pre, suf, k1', en', q, parts, ps, hk1, hpre, hsuf, _, _, hs, hp, hof, hrcb⟩ := parse_shape ka va _ hwf h
    have hk1' : scan k1' false = some false := by
      have := (hkey (ka, va) List.mem_cons_self).2
      simp only [] at this
      rw [hk1, scan_neutral_prefix pre k1' false hpre] at this
      exact this
    have eE : setLastVal en' ((k1', encTag va) :: (A2 ++ (k, v) :: b0 :: B').map encP) =
        ((k1', encTag va) :: A2.map encP) ++ (k, v) :: setLastVal en' ((b0 :: B').map encP) := by
      have e1 : (k1', encTag va) :: (A2 ++ (k, v) :: b0 :: B').map encP =
          ((k1', encTag va) :: A2.map encP) ++ (k, encTag v) :: (encP b0 :: B'.map encP) := by simp [encP]
      rw [e1, setLastVal_append, setLastVal_cons2, hev]; rfl
    rw [eE] at hs hrcb
    have hE1 : ∀ p ∈ (k1', encTag va) :: A2.map encP, scan p.1 false = some false ∧ scan p.2 false = some false := by
      intro p hp
      rcases List.mem_cons.mp hp with hp | hp
      · rw [hp]; exact ⟨hk1', hencA (ka, va) List.mem_cons_self⟩
      · obtain ⟨y, hy, hye⟩ := List.mem_map.mp hp
        rw [← hye]
        exact ⟨(hkey y (List.mem_cons_of_mem _ (List.mem_append_left _ hy))).2, hencA y (List.mem_cons_of_mem _ hy)⟩
    have hkk := hkey (k, v) (List.mem_cons_of_mem _ (List.mem_append_right _ List.mem_cons_self))
    simp only [] at hkk
    obtain ⟨z, more, x, ps2, hparts, _, hx, hp2, hall⟩ := diverged_core _ _ k v parts ps
      hE1 hkk.2 hns hvb (setLastVal_ne _ _ (by simp)) hs hp
    have hdrop : parts.drop (2 * (A2.length + 1) + 1) = (v ++ CM :: z) :: more := by
      have hl := length_flat ((k1', encTag va) :: A2.map encP)
      simp only [List.length_cons, List.length_map] at hl
      have e2 : parts = (((k1', encTag va) :: A2.map encP).flatMap (fun p => [p.1, p.2]) ++ [k]) ++
          (v ++ CM :: z) :: more := by rw [hparts]; simp
      rw [e2]
      exact List.drop_left' (by rw [List.length_append, hl]; simp)
    have hka_ne : ka ≠ k := hneA (ka, va) List.mem_cons_self
    -- names of the pairs read from the pieces before the diverged one
    have hfromE1 : ∀ q : Bytes × Bytes, (∃ p ∈ (k1', encTag va) :: A2.map encP, decP p = some q) →
        q.1 = trimSpaces k1' ∨ ∃ y ∈ A2, q.1 = y.1 := by
      intro q ⟨p, hp', hd⟩
      have h1 := decP_fst p q hd
      rcases List.mem_cons.mp hp' with e | e
      · left; rw [h1, e]
      · right
        obtain ⟨y, hy, hye⟩ := List.mem_map.mp e
        refine ⟨y, hy, ?_⟩
        rw [h1, ← hye]
        exact (hkey y (List.mem_cons_of_mem _ (List.mem_append_left _ hy))).1
    have hmemk : (k, v) ∈ ps :=
      mem_ofPairs ps _ (by rw [hof]; exact List.mem_cons_of_mem _ (List.mem_append_right _ List.mem_cons_self))
    have hmema : (ka, va) ∈ ps := mem_ofPairs ps _ (by rw [hof]; exact List.mem_cons_self)
    have hA2ka : ∀ y ∈ A2, y.1 ≠ ka := by
      intro y hy e
      exact bytesLt_ne ((List.pairwise_cons.mp hwf).1 y (List.mem_append_left _ hy)) e.symm
    refine ⟨_, parts, z, more, ps2, hrcb, hs, hdrop, hp2, ?_⟩
    rcases hall _ hmemk with hE | e | e
    · rcases hfromE1 _ hE with e1 | ⟨y, hy, e1⟩
      · -- the first name, cut, reads as `k`: then the first pair of the set comes from `more`
        rcases hall _ hmema with hE' | e' | e'
        · rcases hfromE1 _ hE' with e2 | ⟨y, hy, e2⟩
          · exfalso; apply hka_ne
            simp only [] at e1 e2
            rw [e1, e2]
          · exact absurd e2.symm (hA2ka y hy)
        · simp only [Prod.mk.injEq] at e'
          exfalso; apply hka_ne; rw [e'.1, hkk.1]
        · exact ⟨(ka, va), List.mem_cons_self, e'⟩
      · exact absurd e1.symm (hneA y (List.mem_cons_of_mem _ hy))
    · simp only [Prod.mk.injEq] at e
      exact absurd e.2.symm hx
    · exact ⟨(k, v), List.mem_cons_of_mem _ (List.mem_append_right _ List.mem_cons_self), e⟩

/-- **Necessity of `safeW` when at most the LAST raw value is not inert** (`rawInert` asked of all pairs but the last) -/
theorem safeW_necessary_initInert (A : Map) (k v : Bytes) (hwf : Map.WF (A ++ [(k, v)])) (hA : rawInert A = true)
    (h : parse (line (A ++ [(k, v)])) = some (A ++ [(k, v)])) : safeW (A ++ [(k, v)]) = true := by
  by_cases hi : rawInert (A ++ [(k, v)]) = true
  · exact safeW_necessary_inert _ hwf hi h
  · exfalso
    have hl : (needsQuote v || inert v) = false := by
      unfold rawInert at hi hA
      rw [List.all_append, hA] at hi
      simpa using hi
    simp only [Bool.or_eq_false_iff] at hl
    exact last_raw_not_inert A k v hwf hA hl.1 hl.2 h

end Logrange.Proofs.TagsNecessityS2
