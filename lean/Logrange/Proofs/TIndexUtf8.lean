import Logrange.Model.TIndexUtf8
import Logrange.Proofs.TIndexRun
import Logrange.Proofs.TIndexGet
/-!
# The tag index with the UTF-8 guard on creation (fix a7918dd): everything proved about `getOrCreate` carries over
-/
namespace Logrange.Proofs.TIndexUtf8
open Go Logrange.KV Logrange.Tags Logrange.TIndexId Logrange.TIndexUtf8 Logrange.Proofs.KV Logrange.Proofs.Tags
  Logrange.Proofs.TIndexId Logrange.Proofs.TIndexRun

/-- a step either refuses and changes nothing, or is the step of the unguarded model -/
theorem stepU_cases (u g : Bool) (s : St) (raw : Bytes) (create : Bool) :
    ((getOrCreateU u g s raw create).1 = s ∧ ∀ r, (getOrCreateU u g s raw create).2 ≠ .res (.ok r)) ∨
    getOrCreateU u g s raw create = ((getOrCreate s raw create).1, .res (getOrCreate s raw create).2) := by
  unfold getOrCreateU
  by_cases h1 : (u && utf8Rejects s raw create) = true
  · left; simp [h1]
  · by_cases h2 : (g && Logrange.TIndexGuard.guardRejects s raw) = true
    · left; simp [h1, h2]
    · right; simp [h1, h2]

theorem tinv_stepU (u g : Bool) (s : St) (raw : Bytes) (create : Bool) (h : TInv s) :
    TInv (getOrCreateU u g s raw create).1 := by
  rcases stepU_cases u g s raw create with ⟨e, _⟩ | e
  · rw [e]; exact h
  · rw [e]; exact tinv_step s raw create h

theorem tinv_runU (u g : Bool) (s : St) (ops : List (Bytes × Bool)) (h : TInv s) : TInv (runU u g s ops) := by
  induction ops generalizing s with
  | nil => exact h
  | cons op ops ih =>
    obtain ⟨raw, create⟩ := op
    simp only [runU]
    exact ih _ (tinv_stepU u g s raw create h)

/-- a text whose set has a valid UTF-8 line is never refused by the UTF-8 guard -/
theorem utf8Rejects_valid (s : St) (raw : Bytes) (create : Bool) (m : Map) (hp : parse raw = some m)
    (hv : validLine (line m) = true) : utf8Rejects s raw create = false := by
  unfold utf8Rejects
  simp [hp, hv]

/-- the raw-text fast path is not touched by the guard: an existing partition addressed by its stored line is found -/
theorem utf8Rejects_fast (s : St) (raw : Bytes) (create : Bool) (td : Desc) (h : lookup s.tmap raw = some td) :
    utf8Rejects s raw create = false := by
  unfold utf8Rejects
  simp [h]

/-- the keys created under the guard are valid UTF-8 -/
def KInv (s : St) : Prop := ∀ e ∈ s.tmap, validLine e.1 = true

theorem kinv_stepU (g : Bool) (s : St) (raw : Bytes) (create : Bool) (h : KInv s) :
    KInv (getOrCreateU true g s raw create).1 := by
  rcases stepU_cases true g s raw create with ⟨e, _⟩ | e
  · rw [e]; exact h
  · rw [e]
    rcases getOrCreate_cases s raw create with e2 | ⟨tgs, hp, hne, hl1, hl2, e2⟩
    · simp only; rw [e2]; exact h
    · simp only; rw [e2]
      intro x hx
      rcases List.mem_cons.mp hx with hx | hx
      · subst hx
        simp only
        -- the guard did not fire although this call creates: the line is valid
        have hnf : utf8Rejects s raw create = false := by
          unfold getOrCreateU at e
          by_cases hr : utf8Rejects s raw create = true
          · simp [hr] at e
          · simpa using hr
        have hc : create = true := by
          cases create with
          | true => rfl
          | false =>
            have := Logrange.Proofs.TIndexGet.get_no_change s raw
            rw [e2] at this
            have hl := congrArg (fun st => st.tmap.length) this
            simp at hl
        subst hc
        unfold utf8Rejects at hnf
        have hne' : tgs.isEmpty = false := by
          cases tgs with
          | nil => exact absurd rfl hne
          | cons _ _ => rfl
        simpa [hl1, hp, hne'] using hnf
      · exact h x hx

theorem kinv_runU (g : Bool) (s : St) (ops : List (Bytes × Bool)) (h : KInv s) : KInv (runU true g s ops) := by
  induction ops generalizing s with
  | nil => exact h
  | cons op ops ih =>
    obtain ⟨raw, create⟩ := op
    simp only [runU]
    exact ih _ (kinv_stepU g s raw create h)

end Logrange.Proofs.TIndexUtf8
