import Logrange.Proofs.LqlEngineStmt
/-!
# C12: engine = direct parser, statement `SELECT`

`tail_step` is the generic step "one guarded optional clause `("KW" @…)?` in front of a list of such clauses" against
`dKwClause`; the typed conversion of the captures is carried along (`good`), so that the failure classes of the engine
("reached the end of input, but a capture does not convert") and of the direct parser coincide.
-/
namespace Logrange.Lql
open Logrange.Generated.C12

/-! ## generic pieces -/

/-- what `parseSeq` returns at the end of the element list -/
def finR (vals : List Val) (caps : Caps) (cur : Nat) : Res := if vals.isEmpty then .noMatch else .ok vals caps cur

def clauseList (l : List (Bytes × String × Node)) : List Node := l.map (fun x => optG (kwSeq x.1 x.2.1 x.2.2))

def selKws : List Bytes := [kwFROM, kwRANGE, kwWHERE, kwPOSITION, kwOFFSET, kwLIMIT]

/-- a token is there and it is none of the clause keywords of `Select` -/
def StuckAt (c : Ctx) (cur : Nat) : Prop := ∃ q, c.toks[cur]? = some q ∧ ∀ kw ∈ selKws, litMatch q kw = false

/-- "skip the rest": clauses whose keyword is not at the cursor leave everything unchanged -/
theorem skip_rest (c : Ctx) (cur : Nat) :
    ∀ (l : List (Bytes × String × Node)) (f : Nat), l.length + 6 ≤ f →
      (∀ q, c.toks[cur]? = some q → ∀ x ∈ l, litMatch q x.1 = false) →
      ∀ (first : Bool) (vals : List Val) (caps : Caps), parseSeq c f (clauseList l) cur first vals caps = finR vals caps cur
  | [], f, hf, _, first, vals, caps => by
    obtain ⟨g, rfl⟩ : ∃ g, f = g + 1 := ⟨f - 1, by omega⟩
    simp [clauseList, parseSeq_nil, finR]
  | x :: l, f, hf, hq, first, vals, caps => by
    obtain ⟨g, rfl⟩ : ∃ g, f = g + 6 := ⟨f - 6, by simp at hf; omega⟩
    have ih := skip_rest c cur l (g+5) (by simp at hf; omega) (fun q h y hy => hq q h y (List.mem_cons_of_mem _ hy))
    have e : parse c (g+5) (optG (kwSeq x.1 x.2.1 x.2.2)) cur = .ok [] [] cur := by
      cases hn : c.toks[cur]? with
      | none => exact clause_none c _ _ _ g cur hn
      | some q => exact clause_nolit c _ _ _ g cur q hn (hq q hn x (List.mem_cons_self))
    simp only [clauseList, List.map_cons] at ih ⊢
    rw [parseSeq_cons, e]
    simp only [List.append_nil]
    exact ih false vals caps

/-- the body of a clause at `cur1` against the direct body parser, with the conversion `cv` of the captured value -/
def BodySim {α : Type} (c : Ctx) (cur1 : Nat) (rb : Res) (d : Option (α × List Tok)) (cv : Val → Option α) : Prop :=
  match d with
  | some (a, rest) => ∃ v cur', rb = .ok [v] [] cur' ∧ cv v = some a ∧ rest = c.toks.drop cur' ∧ cur1 ≤ cur' ∧ cur' ≤ c.toks.length
  | none => rb = .noMatch ∨ (∃ k hv, rb = .err k hv ∧ cur1 ≤ k) ∨ (∃ v cur', rb = .ok [v] [] cur' ∧ cur1 ≤ cur' ∧ StuckAt c cur')
      ∨ (∃ v cur', rb = .ok [v] [] cur' ∧ cur1 ≤ cur' ∧ cur' ≤ c.toks.length ∧ cv v = none)

/-- the rest of the clause list from `cur` on, against the direct chain `D`; `good` converts the new captures -/
def TailSim {β : Type} (c : Ctx) (cur : Nat) (vals : List Val) (caps : Caps) (R : Res) (D : Option β)
    (good : Caps → Option β) (names : List String) (em : β → Bool) : Prop :=
  (∃ nv nc, R = finR (vals ++ nv) (caps ++ nc) c.toks.length ∧ (∀ p ∈ nc, p.1 ∈ names) ∧ good nc = D
      ∧ (nv = [] → cur = c.toks.length) ∧ (∀ x, D = some x → (em x = true ↔ nv = [])))
  ∨ (D = none ∧ ((∃ k hv, R = .err k hv ∧ cur + 2 ≤ k)
      ∨ (∃ vals' caps' cur', R = finR vals' caps' cur' ∧ cur ≤ cur' ∧ cur' < c.toks.length)))

def chain {α β : Type} (kw : Bytes) (b : List Tok → Option (α × List Tok)) (next : List Tok → Option β) (toks : List Tok) :
    Option (Option α × β) :=
  match dKwClause kw b toks with
  | none => none
  | some (o, t) => (next t).map (fun x => (o, x))

def goodC {α β : Type} (field : Caps → Option (Option α)) (goodN : Caps → Option β) (nc : Caps) : Option (Option α × β) :=
  (field nc).bind (fun a => (goodN nc).map (fun x => (a, x)))

def emC {α β : Type} (em : β → Bool) (x : Option α × β) : Bool := x.1.isNone && em x.2

theorem fieldVals_notin (f : String) : ∀ (nc : Caps), (∀ p ∈ nc, p.1 ≠ f) → fieldVals nc f = []
  | [], _ => rfl
  | p :: nc, h => by
    have h1 : (p.1 == f) = false := by simpa using h p (List.mem_cons_self)
    have h2 := fieldVals_notin f nc (fun q hq => h q (List.mem_cons_of_mem _ hq))
    obtain ⟨g, vs⟩ := p
    rw [fieldVals_cons_ne _ _ _ _ h1, h2]

theorem fieldVals_names (f : String) (names : List String) (hf : f ∉ names) (nc : Caps) (h : ∀ p ∈ nc, p.1 ∈ names) :
    fieldVals nc f = [] :=
  fieldVals_notin f nc (fun p hp e => hf (e ▸ h p hp))

/-- **one guarded optional clause in front of a list of such clauses** -/
theorem tail_step {α β : Type} (c : Ctx) (kw : Bytes) (fl : String) (n : Node) (l : List (Bytes × String × Node))
    (b : List Tok → Option (α × List Tok)) (cv : Val → Option α) (field : Caps → Option (Option α))
    (next : List Tok → Option β) (goodN : Caps → Option β) (names : List String) (em : β → Bool)
    (hl : ∀ x ∈ l, x.1 ∈ selKws)
    (hexcl : ∀ q, litMatch q kw = true → ∀ x ∈ l, litMatch q x.1 = false)
    (hfl : fl ∉ names)
    (hf_nil : ∀ nc, fieldVals nc fl = [] → field nc = some none)
    (hf_hit : ∀ v nc, fieldVals nc fl = [] → field ((fl, [v]) :: nc) = (cv v).map some)
    (hg_skip : ∀ v nc, goodN ((fl, v) :: nc) = goodN nc)
    (f cur : Nat) (hcl : cur ≤ c.toks.length) (hlf : l.length + 6 ≤ f)
    (hbody : cur < c.toks.length → BodySim c (cur+1) (parse c (f+1) n (cur+1)) (b (c.toks.drop (cur+1))) cv)
    (hnext : ∀ cur' vals' caps', cur ≤ cur' → cur' ≤ c.toks.length →
        TailSim c cur' vals' caps' (parseSeq c (f+7) (clauseList l) cur' false vals' caps') (next (c.toks.drop cur')) goodN names em)
    (first : Bool) (vals : List Val) (caps : Caps) :
    TailSim c cur vals caps (parseSeq c (f+8) (optG (kwSeq kw fl n) :: clauseList l) cur first vals caps)
      (chain kw b next (c.toks.drop cur)) (goodC field goodN) (fl :: names) (emC em) := by
  -- the clause is skipped: same as the rest
  have hskip : ∀ (D0 : Option β), parse c (f+7) (optG (kwSeq kw fl n)) cur = .ok [] [] cur →
      chain kw b next (c.toks.drop cur) = (next (c.toks.drop cur)).map (fun x => (none, x)) →
      TailSim c cur vals caps (parseSeq c (f+8) (optG (kwSeq kw fl n) :: clauseList l) cur first vals caps)
        (chain kw b next (c.toks.drop cur)) (goodC field goodN) (fl :: names) (emC em) := by
    intro _ he hch
    rw [parseSeq_cons, he, hch]
    simp only [List.append_nil]
    rcases hnext cur vals caps (Nat.le_refl _) hcl with ⟨nv, nc, hR, hnm, hgd, hnv, hem⟩ | ⟨hD, hbad⟩
    · left
      refine ⟨nv, nc, hR, fun p hp => List.mem_cons_of_mem _ (hnm p hp), ?_, hnv, ?_⟩
      · simp only [goodC, hf_nil nc (fieldVals_names fl names hfl nc hnm), Option.bind_some, hgd]
      · intro x hx
        cases hN : next (c.toks.drop cur) with
        | none => rw [hN] at hx; simp at hx
        | some y =>
          rw [hN] at hx
          simp only [Option.map_some, Option.some.injEq] at hx
          subst hx
          simpa [emC] using hem y hN
    · right
      exact ⟨by rw [hD]; rfl, hbad⟩
  cases hn : c.toks[cur]? with
  | none =>
    refine hskip none ?_ ?_
    · exact clause_none c kw fl n (f+2) cur hn
    · rw [drop_of_none hn]; simp [chain, dKwClause]
  | some t =>
    have hlt := lt_of_get hn
    cases hc : litMatch t kw with
    | false =>
      refine hskip none ?_ ?_
      · exact clause_nolit c kw fl n (f+2) cur t hn hc
      · rw [drop_of_get hn]; simp [chain, dKwClause, hc]
    | true =>
      have hb := hbody hlt
      have hsk : ∀ (q : Tok) (cur' : Nat), c.toks[cur']? = some q → (∀ x ∈ l, litMatch q x.1 = false) → ∀ vals' caps',
          parseSeq c (f+7) (clauseList l) cur' false vals' caps' = finR vals' caps' cur' := by
        intro q cur' hq hqx vals' caps'
        exact skip_rest c cur' l (f+7) (by omega) (fun q' h' => by rw [hq] at h'; cases h'; exact hqx) false vals' caps'
      have hch : chain kw b next (c.toks.drop cur) =
          (match b (c.toks.drop (cur+1)) with
           | some (a, r') => (next r').map (fun x => (some a, x))
           | none => none) := by
        rw [drop_of_get hn]
        simp only [chain, dKwClause, hc, if_true]
        cases b (c.toks.drop (cur+1)) with
        | none => rfl
        | some pr => obtain ⟨a, r'⟩ := pr; rfl
      rw [parseSeq_cons, clause_lit c kw fl n f cur t hn hc, hch]
      generalize parse c (f+1) n (cur+1) = rb at hb
      cases hd : b (c.toks.drop (cur+1)) with
      | some pr =>
        obtain ⟨a, rest⟩ := pr
        rw [hd] at hb
        obtain ⟨v, cur', rfl, hcv, rfl, h1, h2⟩ := hb
        simp only []
        rcases hnext cur' (vals ++ [.str t.v, .str []]) (caps ++ ([] ++ [(fl, [v])])) (by omega) h2 with
          ⟨nv, nc, hR, hnm, hgd, hnv, hem⟩ | ⟨hD, hbad⟩
        · left
          refine ⟨[.str t.v, .str []] ++ nv, (fl, [v]) :: nc, by rw [hR]; simp, ?_, ?_, by simp, ?_⟩
          · intro p hp
            rcases List.mem_cons.mp hp with rfl | hp
            · exact List.mem_cons_self
            · exact List.mem_cons_of_mem _ (hnm p hp)
          · simp only [goodC, hf_hit v nc (fieldVals_names fl names hfl nc hnm), hcv, Option.map_some, Option.bind_some,
              hg_skip, hgd]
          · intro x hx
            cases hN : next (c.toks.drop cur') with
            | none => rw [hN] at hx; simp at hx
            | some y =>
              rw [hN] at hx
              simp only [Option.map_some, Option.some.injEq] at hx
              subst hx
              simp [emC]
        · right
          refine ⟨by rw [hD]; rfl, ?_⟩
          rcases hbad with ⟨k, hv, hR, hk⟩ | ⟨vals', caps', cur2, hR, h3, h4⟩
          · left; exact ⟨k, hv, hR, by omega⟩
          · right; exact ⟨vals', caps', cur2, hR, by omega, h4⟩
      | none =>
        rw [hd] at hb
        simp only []
        have hsoft : parseSeq c (f+7) (clauseList l) cur false (vals ++ [.str []]) (caps ++ []) = finR (vals ++ [.str []]) (caps ++ []) cur :=
          hsk t cur hn (hexcl t hc) _ _
        rcases hb with rfl | ⟨k, hv, rfl, hk⟩ | ⟨v, cur', rfl, h1, q, hq, hqs⟩ | ⟨v, cur', rfl, h1, h2, hcv⟩
        · right; refine ⟨rfl, ?_⟩; right
          exact ⟨vals ++ [.str []], caps ++ [], cur, hsoft, Nat.le_refl _, hlt⟩
        · right; refine ⟨rfl, ?_⟩
          by_cases hgt : k > cur + lookahead
          · left
            refine ⟨k, true || !vals.isEmpty, ?_, ?_⟩
            · simp only [hgt, if_true]
            · simp only [lookahead] at hgt; omega
          · right
            refine ⟨vals ++ [.str []], caps ++ [], cur, ?_, Nat.le_refl _, hlt⟩
            simp only [hgt, if_false]
            exact hsoft
        · right; refine ⟨rfl, ?_⟩; right
          refine ⟨vals ++ [.str t.v, .str []], caps ++ ([] ++ [(fl, [v])]), cur', ?_, by omega, lt_of_get hq⟩
          exact hsk q cur' hq (fun x hx => hqs _ (hl x hx)) _ _
        · -- the capture does not convert: whatever the rest does, the conversion of the whole fails
          rcases hnext cur' (vals ++ [.str t.v, .str []]) (caps ++ ([] ++ [(fl, [v])])) (by omega) h2 with
            ⟨nv, nc, hR, hnm, hgd, hnv, hem⟩ | ⟨hD, hbad⟩
          · left
            refine ⟨[.str t.v, .str []] ++ nv, (fl, [v]) :: nc, by simp only []; rw [hR]; simp, ?_, ?_, by simp, by simp⟩
            · intro p hp
              rcases List.mem_cons.mp hp with rfl | hp
              · exact List.mem_cons_self
              · exact List.mem_cons_of_mem _ (hnm p hp)
            · simp only [goodC, hf_hit v nc (fieldVals_names fl names hfl nc hnm), hcv, Option.map_none, Option.bind_none]
          · right
            refine ⟨rfl, ?_⟩
            rcases hbad with ⟨k, hv, hR, hk⟩ | ⟨vals', caps', cur2, hR, h3, h4⟩
            · left; exact ⟨k, hv, hR, by omega⟩
            · right; exact ⟨vals', caps', cur2, hR, by omega, h4⟩

/-! ## the clause bodies -/

theorem stuck_of_lit (c : Ctx) (cur : Nat) (s : Bytes) (h : litAt c cur s)
    (hs : ∀ kw ∈ selKws, (s == kw) = false ∧ eqFold s kw = false) : StuckAt c cur := by
  obtain ⟨q, hq, hm⟩ := h
  exact ⟨q, hq, fun kw hkw => litMatch_excl q s kw (hs kw hkw).1 (hs kw hkw).2 hm⟩

theorem stuck_AND (c : Ctx) (cur : Nat) (h : litAt c cur kwAND) : StuckAt c cur :=
  stuck_of_lit c cur _ h (by decide)
theorem stuck_OR (c : Ctx) (cur : Nat) (h : litAt c cur kwOR) : StuckAt c cur :=
  stuck_of_lit c cur _ h (by decide)

def cvNum (v : Val) : Option Int := parseInt0 (strs [v])

theorem body_num (c : Ctx) (f cur1 : Nat) :
    BodySim c cur1 (parse c (f+1) (.ref .number) cur1) (dIntTok (c.toks.drop cur1)) cvNum := by
  rw [parse_ref]
  simp only [peek]
  cases hn : c.toks[cur1]? with
  | none => rw [drop_of_none hn]; simp [dIntTok, BodySim]
  | some t =>
    have hlt := lt_of_get hn
    rw [drop_of_get hn]
    by_cases ht : t.t = TT.number
    · cases hp : parseInt0 t.v with
      | none =>
        simp only [dIntTok, ht, beq_self_eq_true, if_true, hp, BodySim]
        right; right; right
        exact ⟨.str t.v, cur1+1, rfl, by omega, by omega, by simp [cvNum, strs, hp]⟩
      | some i =>
        simp only [dIntTok, ht, beq_self_eq_true, if_true, hp, BodySim]
        exact ⟨.str t.v, cur1+1, rfl, by simp [cvNum, strs, hp], rfl, by omega, by omega⟩
    · have ht' : (t.t == TT.number) = false := by simpa using ht
      simp [dIntTok, ht', BodySim]

def positionBody : Node := .group (.disj [(.capture "PosId" (.lit kwTAIL)), (.capture "PosId" (.lit kwHEAD)), (.capture "PosId" (.ref .string)), (.capture "PosId" (.ref .ident))]) .once
theorem g_position : grammar "Position" = some positionBody := rfl

def cvPos (p : Val) : Option Bytes := some (strs (fv p "PosId"))

theorem body_position (c : Ctx) (hg : c.grammar = grammar) (f cur1 : Nat) :
    BodySim c cur1 (parse c (f+10) (.strct "Position") cur1) (dPosTok (c.toks.drop cur1)) cvPos := by
  rw [parse_strct c _ "Position" positionBody cur1 (by rw [hg]; rfl)]
  simp only [positionBody, parse_once, parse_disj, parseDisj_cons, parseDisj_nil, parse_capture, parse_lit, parse_ref, peek]
  cases hn : c.toks[cur1]? with
  | none => rw [drop_of_none hn]; simp [dPosTok, BodySim]
  | some t =>
    have hlt := lt_of_get hn
    rw [drop_of_get hn]
    have hok : cvPos (.node "Position" [("PosId", [.str t.v])]) = some t.v := by simp [cvPos, fv, fieldVals, strs]
    simp only [dPosTok]
    by_cases h1 : litMatch t kwTAIL = true
    · simp only [h1, Bool.true_or, if_true, BodySim]
      exact ⟨_, cur1+1, by simp, hok, rfl, by omega, by omega⟩
    · by_cases h2 : litMatch t kwHEAD = true
      · simp only [h1, h2, Bool.true_or, Bool.or_true, if_true, BodySim]
        exact ⟨_, cur1+1, by simp, hok, rfl, by omega, by omega⟩
      · by_cases h3 : t.t = TT.string
        · simp only [h1, h2, h3, beq_self_eq_true, Bool.true_or, Bool.or_true, if_true, BodySim]
          exact ⟨_, cur1+1, by simp, hok, rfl, by omega, by omega⟩
        · by_cases h4 : t.t = TT.ident
          · simp only [h1, h2, h4, beq_self_eq_true, Bool.or_true, if_true, BodySim]
            exact ⟨_, cur1+1, by simp, hok, rfl, by omega, by omega⟩
          · simp [h1, h2, h3, h4, BodySim]

theorem body_expr (c : Ctx) (hg : c.grammar = grammar) (hH : OperandNotParen c.toks) (ft : Nat) (hft : 8 * c.toks.length + 8 ≤ ft)
    (cur1 : Nat) (hcl : cur1 ≤ c.toks.length) (fe fd : Nat) (hfe : 60 * (c.toks.length - cur1) + 58 ≤ fe)
    (hfd : 4 * (c.toks.length - cur1) + 5 ≤ fd) :
    BodySim c cur1 (parse c fe (.strct "Expression") cur1) (dExpr fd (c.toks.drop cur1)) (toExpr ft) := by
  have he := simExpr c hg hH _ cur1 (Nat.le_refl _) hcl fe fd hfe hfd
  generalize parse c fe (.strct "Expression") cur1 = r at he ⊢
  cases hd : dExpr fd (c.toks.drop cur1) with
  | none =>
    rw [hd] at he
    simp only [SimExpr] at he
    simp only [BodySim]
    rcases he with ⟨k, h, hk⟩ | ⟨v, cur', h, hlt, hst⟩
    · right; left; exact ⟨k, true, h, hk⟩
    · right; right; left
      exact ⟨v, cur', h, by omega, hst.elim (stuck_AND c cur') (stuck_OR c cur')⟩
  | some res =>
    obtain ⟨e, rest⟩ := res
    rw [hd] at he
    obtain ⟨v, cur', h, hrel, hrest, h1, h2⟩ := he
    have hcv := dExpr_cv hd
    simp only [List.length_drop] at hcv
    simp only [BodySim]
    exact ⟨v, cur', h, convExpr e v ft hrel (by omega), hrest, by omega, h2⟩

theorem dSource_cv {f : Nat} {toks : List Tok} {s : Source} {r : List Tok} (h : dSource f toks = some (s, r)) :
    cvSource s ≤ 8 * toks.length + 8 := by
  cases toks with
  | nil => simp [dSource] at h
  | cons t rr =>
    by_cases ht : (t.t == TT.tags) = true
    · simp only [dSource, ht, if_true] at h
      cases hm : KV.tagParse t.v with
      | none => simp [hm] at h
      | some m =>
        simp [hm] at h
        obtain ⟨rfl, _⟩ := h
        simp [cvSource]
    · simp only [dSource, ht] at h
      cases h2 : dExpr f (t :: rr) with
      | none => simp [h2] at h
      | some pr =>
        obtain ⟨e, r1⟩ := pr
        simp [h2] at h
        obtain ⟨rfl, rfl⟩ := h
        have a := dExpr_cv h2
        simp only [cvSource]
        omega

theorem body_source (c : Ctx) (hg : c.grammar = grammar) (hH : OperandNotParen c.toks) (ft : Nat) (hft : 8 * c.toks.length + 8 ≤ ft)
    (cur1 : Nat) (hcl : cur1 ≤ c.toks.length) (fe fd : Nat) (hfe : 60 * (c.toks.length - cur1) + 63 ≤ fe)
    (hfd : 4 * (c.toks.length - cur1) + 5 ≤ fd) :
    BodySim c cur1 (parse c fe (.strct "Source") cur1) (dSource fd (c.toks.drop cur1)) (toSource ft) := by
  have he := simSource c hg hH cur1 hcl fe fd hfe hfd
  generalize parse c fe (.strct "Source") cur1 = r at he ⊢
  cases hd : dSource fd (c.toks.drop cur1) with
  | none =>
    rw [hd] at he
    simp only [SimSource] at he
    simp only [BodySim]
    rcases he with ⟨k, h, hk⟩ | ⟨v, cur', h, hlt, hst⟩ | ⟨v, h, hlt, hno⟩
    · right; left; exact ⟨k, true, h, hk⟩
    · right; right; left
      exact ⟨v, cur', h, by omega, hst.elim (stuck_AND c cur') (stuck_OR c cur')⟩
    · right; right; right
      exact ⟨v, cur1+1, h, by omega, by omega, hno ft⟩
  | some res =>
    obtain ⟨e, rest⟩ := res
    rw [hd] at he
    obtain ⟨v, cur', h, hrel, hrest, h1, h2⟩ := he
    have hcv := dSource_cv hd
    simp only [List.length_drop] at hcv
    simp only [BodySim]
    exact ⟨v, cur', h, convSource e v ft hrel (by omega), hrest, by omega, h2⟩

/-! ## struct `Range` -/
def rangeTailNode : Node := .seq [(.lit kwCOLON), (.capture "TmPoint2" (.ref .string)), (.lit kwRBR)]
def rangeBody : Node := .seq [optG (.lit kwLBR), optG (.capture "TmPoint1" (.ref .string)), optG rangeTailNode]
theorem g_range : grammar "Range" = some rangeBody := rfl

/-- `(@String)?` -/
theorem optcap_eq (c : Ctx) (fl : String) (fe cur : Nat) (hfe : 4 ≤ fe) :
    parse c fe (optG (.capture fl (.ref .string))) cur =
      (match c.toks[cur]? with
       | some s => if s.t == .string then .ok [.str []] [(fl, [.str s.v])] (cur+1) else .ok [] [] cur
       | none => .ok [] [] cur) := by
  obtain ⟨f, rfl⟩ : ∃ f, fe = f + 4 := ⟨fe - 4, by omega⟩
  simp only [parse_optG, parse_capture, parse_ref, peek]
  cases c.toks[cur]? with
  | none => rfl
  | some s => by_cases h : (s.t == TT.string) = true <;> simp [h]

theorem range_e1 (c : Ctx) (fe cur : Nat) (hfe : 3 ≤ fe) (hcl : cur ≤ c.toks.length) :
    ∃ v1 cur1, parse c fe (optG (.lit kwLBR)) cur = .ok v1 [] cur1 ∧ (dOptLit kwLBR (c.toks.drop cur)).2 = c.toks.drop cur1
      ∧ v1.isEmpty = !(dOptLit kwLBR (c.toks.drop cur)).1 ∧ cur ≤ cur1 ∧ cur1 ≤ c.toks.length ∧ (v1 = [] → cur1 = cur) := by
  obtain ⟨f, rfl⟩ : ∃ f, fe = f + 3 := ⟨fe - 3, by omega⟩
  simp only [parse_optG, parse_lit, peek]
  cases hn : c.toks[cur]? with
  | none =>
    rw [drop_of_none hn]
    exact ⟨[], cur, rfl, by simp [dOptLit, drop_of_none hn], by simp [dOptLit], Nat.le_refl _, hcl, fun _ => rfl⟩
  | some q =>
    have hlt := lt_of_get hn
    rw [drop_of_get hn]
    by_cases h : litMatch q kwLBR = true
    · exact ⟨[.str q.v], cur+1, by simp [h], by simp [dOptLit, h], by simp [dOptLit, h], by omega, by omega, by simp⟩
    · exact ⟨[], cur, by simp [h], by simp [dOptLit, h, drop_of_get hn], by simp [dOptLit, h], Nat.le_refl _, hcl, fun _ => rfl⟩

theorem range_e2 (c : Ctx) (dp : Bytes → Option Int) (fe cur : Nat) (hfe : 4 ≤ fe) :
    (parse c fe (optG (.capture "TmPoint1" (.ref .string))) cur = .ok [] [] cur ∧ dOptDate dp (c.toks.drop cur) = some (none, c.toks.drop cur))
    ∨ (∃ s, parse c fe (optG (.capture "TmPoint1" (.ref .string))) cur = .ok [.str []] [("TmPoint1", [.str s])] (cur+1) ∧ cur < c.toks.length
        ∧ dOptDate dp (c.toks.drop cur) = (match dp s with | some v => some (some v, c.toks.drop (cur+1)) | none => none)) := by
  rw [optcap_eq c _ fe cur hfe]
  cases hn : c.toks[cur]? with
  | none => left; rw [drop_of_none hn]; simp [dOptDate]
  | some q =>
    rw [drop_of_get hn]
    by_cases h : (q.t == TT.string) = true
    · right
      refine ⟨q.v, by simp [h], lt_of_get hn, ?_⟩
      simp only [dOptDate, h, if_true]
      cases dp q.v <;> rfl
    · left; simp [dOptDate, h]

theorem range_e3 (c : Ctx) (dp : Bytes → Option Int) (fe cur : Nat) (hfe : 8 ≤ fe) :
    (parse c fe (optG rangeTailNode) cur = .ok [] [] cur ∧ dRangeTail dp (c.toks.drop cur) = some (none, c.toks.drop cur))
    ∨ (parse c fe (optG rangeTailNode) cur = .ok [.str []] [] cur ∧ dRangeTail dp (c.toks.drop cur) = none ∧ litAt c cur kwCOLON)
    ∨ (parse c fe (optG rangeTailNode) cur = .err (cur+2) true ∧ dRangeTail dp (c.toks.drop cur) = none)
    ∨ (∃ v3 s, parse c fe (optG rangeTailNode) cur = .ok v3 [("TmPoint2", [.str s])] (cur+3) ∧ v3 ≠ [] ∧ cur + 3 ≤ c.toks.length
        ∧ dRangeTail dp (c.toks.drop cur) = (match dp s with | some v => some (some v, c.toks.drop (cur+3)) | none => none)) := by
  obtain ⟨f, rfl⟩ : ∃ f, fe = f + 8 := ⟨fe - 8, by omega⟩
  simp only [rangeTailNode, parse_optG, parse_seq, parseSeq_cons, parse_lit, parse_capture, parse_ref, peek]
  cases hn : c.toks[cur]? with
  | none => left; rw [drop_of_none hn]; simp [dRangeTail]
  | some q =>
    rw [drop_of_get hn]
    by_cases hc : litMatch q kwCOLON = true
    · right
      cases hn1 : c.toks[cur+1]? with
      | none =>
        left
        rw [drop_of_none hn1]
        exact ⟨by simp [hc, hn1, lookahead], by simp [dRangeTail, hc], q, hn, hc⟩
      | some s =>
        rw [drop_of_get hn1]
        by_cases hs : (s.t == TT.string) = true
        · right
          cases hn2 : c.toks[cur+1+1]? with
          | none =>
            left
            rw [drop_of_none hn2]
            exact ⟨by simp [hc, hn1, hs, hn2, lookahead], by simp [dRangeTail, hc]⟩
          | some z =>
            rw [drop_of_get hn2]
            have hlt := lt_of_get hn2
            by_cases hz : litMatch z kwRBR = true
            · right
              refine ⟨[.str q.v, .str [], .str z.v], s.v, by simp [hc, hn1, hs, hn2, hz, parseSeq_nil], by simp, by omega, ?_⟩
              simp only [dRangeTail, hc, hs, hz, if_true, Bool.and_self]
              cases dp s.v <;> rfl
            · left
              exact ⟨by simp [hc, hn1, hs, hn2, hz, lookahead], by simp [dRangeTail, hc, hs, hz]⟩
        · left
          refine ⟨by simp [hc, hn1, hs, lookahead], ?_, q, hn, hc⟩
          cases hd : c.toks.drop (cur+1+1) with
          | nil => simp [dRangeTail, hc]
          | cons z r' => simp [dRangeTail, hc, hs]
    · left; simp [hc, dRangeTail, drop_of_get hn]

end Logrange.Lql
