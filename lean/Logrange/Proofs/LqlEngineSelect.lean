import Logrange.Proofs.LqlEngineStmt
/-!
# C12: engine = direct parser, statement `SELECT`

`tail_step` is the generic step "one guarded optional clause `("KW" @…)?` in front of a list of such clauses" against
`dKwClause`; the typed conversion of the captures is carried along (`good`), so that the failure classes of the engine
("reached the end of input, but a capture does not convert") and of the direct parser coincide.
-/
namespace Logrange.Lql
open Logrange.Generated.C12

/-! ## generic pieces -/

/-- what `parseSeq` returns at the end of the element list -/
def finR (vals : List Val) (caps : Caps) (cur : Nat) : Res := if vals.isEmpty then .noMatch else .ok vals caps cur

def clauseList (l : List (Bytes × String × Node)) : List Node := l.map (fun x => optG (kwSeq x.1 x.2.1 x.2.2))

def selKws : List Bytes := [kwFROM, kwRANGE, kwWHERE, kwPOSITION, kwOFFSET, kwLIMIT]

/-- a token is there and it is none of the clause keywords of `Select` -/
def StuckAt (c : Ctx) (cur : Nat) : Prop := ∃ q, c.toks[cur]? = some q ∧ ∀ kw ∈ selKws, litMatch q kw = false

/-- "skip the rest": clauses whose keyword is not at the cursor leave everything unchanged -/
theorem skip_rest (c : Ctx) (cur : Nat) :
    ∀ (l : List (Bytes × String × Node)) (f : Nat), l.length + 6 ≤ f →
      (∀ q, c.toks[cur]? = some q → ∀ x ∈ l, litMatch q x.1 = false) →
      ∀ (first : Bool) (vals : List Val) (caps : Caps), parseSeq c f (clauseList l) cur first vals caps = finR vals caps cur
  | [], f, hf, _, first, vals, caps => by
    obtain ⟨g, rfl⟩ : ∃ g, f = g + 1 := ⟨f - 1, by omega⟩
    simp [clauseList, parseSeq_nil, finR]
  | x :: l, f, hf, hq, first, vals, caps => by
    obtain ⟨g, rfl⟩ : ∃ g, f = g + 6 := ⟨f - 6, by simp at hf; omega⟩
    have ih := skip_rest c cur l (g+5) (by simp at hf; omega) (fun q h y hy => hq q h y (List.mem_cons_of_mem _ hy))
    have e : parse c (g+5) (optG (kwSeq x.1 x.2.1 x.2.2)) cur = .ok [] [] cur := by
      cases hn : c.toks[cur]? with
      | none => exact clause_none c _ _ _ g cur hn
      | some q => exact clause_nolit c _ _ _ g cur q hn (hq q hn x (List.mem_cons_self))
    simp only [clauseList, List.map_cons] at ih ⊢
    rw [parseSeq_cons, e]
    simp only [List.append_nil]
    exact ih false vals caps

/-- the body of a clause at `cur1` against the direct body parser, with the conversion `cv` of the captured value -/
def BodySim {α : Type} (c : Ctx) (cur1 : Nat) (rb : Res) (d : Option (α × List Tok)) (cv : Val → Option α) : Prop :=
  match d with
  | some (a, rest) => ∃ v cur', rb = .ok [v] [] cur' ∧ cv v = some a ∧ rest = c.toks.drop cur' ∧ cur1 ≤ cur' ∧ cur' ≤ c.toks.length
  | none => rb = .noMatch ∨ (∃ k hv, rb = .err k hv ∧ cur1 ≤ k) ∨ (∃ v cur', rb = .ok [v] [] cur' ∧ cur1 ≤ cur' ∧ StuckAt c cur')
      ∨ (∃ v cur', rb = .ok [v] [] cur' ∧ cur1 ≤ cur' ∧ cur' ≤ c.toks.length ∧ cv v = none)

/-- the rest of the clause list from `cur` on, against the direct chain `D`; `good` converts the new captures -/
def TailSim {β : Type} (c : Ctx) (cur : Nat) (vals : List Val) (caps : Caps) (R : Res) (D : Option β)
    (good : Caps → Option β) (names : List String) (em : β → Bool) : Prop :=
  (∃ nv nc, R = finR (vals ++ nv) (caps ++ nc) c.toks.length ∧ (∀ p ∈ nc, p.1 ∈ names) ∧ good nc = D
      ∧ (nv = [] → cur = c.toks.length) ∧ (∀ x, D = some x → (em x = true ↔ nv = [])))
  ∨ (D = none ∧ ((∃ k hv, R = .err k hv ∧ cur + 2 ≤ k)
      ∨ (∃ vals' caps' cur', R = finR vals' caps' cur' ∧ cur ≤ cur' ∧ cur' < c.toks.length)))

def chain {α β : Type} (kw : Bytes) (b : List Tok → Option (α × List Tok)) (next : List Tok → Option β) (toks : List Tok) :
    Option (Option α × β) :=
  match dKwClause kw b toks with
  | none => none
  | some (o, t) => (next t).map (fun x => (o, x))

def goodC {α β : Type} (field : Caps → Option (Option α)) (goodN : Caps → Option β) (nc : Caps) : Option (Option α × β) :=
  (field nc).bind (fun a => (goodN nc).map (fun x => (a, x)))

def emC {α β : Type} (em : β → Bool) (x : Option α × β) : Bool := x.1.isNone && em x.2

theorem fieldVals_notin (f : String) : ∀ (nc : Caps), (∀ p ∈ nc, p.1 ≠ f) → fieldVals nc f = []
  | [], _ => rfl
  | p :: nc, h => by
    have h1 : (p.1 == f) = false := by simpa using h p (List.mem_cons_self)
    have h2 := fieldVals_notin f nc (fun q hq => h q (List.mem_cons_of_mem _ hq))
    obtain ⟨g, vs⟩ := p
    rw [fieldVals_cons_ne _ _ _ _ h1, h2]

theorem fieldVals_names (f : String) (names : List String) (hf : f ∉ names) (nc : Caps) (h : ∀ p ∈ nc, p.1 ∈ names) :
    fieldVals nc f = [] :=
  fieldVals_notin f nc (fun p hp e => hf (e ▸ h p hp))

/-- **one guarded optional clause in front of a list of such clauses** -/
theorem tail_step {α β : Type} (c : Ctx) (kw : Bytes) (fl : String) (n : Node) (l : List (Bytes × String × Node))
    (b : List Tok → Option (α × List Tok)) (cv : Val → Option α) (field : Caps → Option (Option α))
    (next : List Tok → Option β) (goodN : Caps → Option β) (names : List String) (em : β → Bool)
    (hl : ∀ x ∈ l, x.1 ∈ selKws)
    (hexcl : ∀ q, litMatch q kw = true → ∀ x ∈ l, litMatch q x.1 = false)
    (hfl : fl ∉ names)
    (hf_nil : ∀ nc, fieldVals nc fl = [] → field nc = some none)
    (hf_hit : ∀ v nc, fieldVals nc fl = [] → field ((fl, [v]) :: nc) = (cv v).map some)
    (hg_skip : ∀ v nc, goodN ((fl, v) :: nc) = goodN nc)
    (f cur : Nat) (hcl : cur ≤ c.toks.length) (hlf : l.length + 6 ≤ f)
    (hbody : cur < c.toks.length → BodySim c (cur+1) (parse c (f+1) n (cur+1)) (b (c.toks.drop (cur+1))) cv)
    (hnext : ∀ cur' vals' caps', cur ≤ cur' → cur' ≤ c.toks.length →
        TailSim c cur' vals' caps' (parseSeq c (f+7) (clauseList l) cur' false vals' caps') (next (c.toks.drop cur')) goodN names em)
    (first : Bool) (vals : List Val) (caps : Caps) :
    TailSim c cur vals caps (parseSeq c (f+8) (optG (kwSeq kw fl n) :: clauseList l) cur first vals caps)
      (chain kw b next (c.toks.drop cur)) (goodC field goodN) (fl :: names) (emC em) := by
  -- the clause is skipped: same as the rest
  have hskip : ∀ (D0 : Option β), parse c (f+7) (optG (kwSeq kw fl n)) cur = .ok [] [] cur →
      chain kw b next (c.toks.drop cur) = (next (c.toks.drop cur)).map (fun x => (none, x)) →
      TailSim c cur vals caps (parseSeq c (f+8) (optG (kwSeq kw fl n) :: clauseList l) cur first vals caps)
        (chain kw b next (c.toks.drop cur)) (goodC field goodN) (fl :: names) (emC em) := by
    intro _ he hch
    rw [parseSeq_cons, he, hch]
    simp only [List.append_nil]
    rcases hnext cur vals caps (Nat.le_refl _) hcl with ⟨nv, nc, hR, hnm, hgd, hnv, hem⟩ | ⟨hD, hbad⟩
    · left
      refine ⟨nv, nc, hR, fun p hp => List.mem_cons_of_mem _ (hnm p hp), ?_, hnv, ?_⟩
      · simp only [goodC, hf_nil nc (fieldVals_names fl names hfl nc hnm), Option.bind_some, hgd]
      · intro x hx
        cases hN : next (c.toks.drop cur) with
        | none => rw [hN] at hx; simp at hx
        | some y =>
          rw [hN] at hx
          simp only [Option.map_some, Option.some.injEq] at hx
          subst hx
          simpa [emC] using hem y hN
    · right
      exact ⟨by rw [hD]; rfl, hbad⟩
  cases hn : c.toks[cur]? with
  | none =>
    refine hskip none ?_ ?_
    · exact clause_none c kw fl n (f+2) cur hn
    · rw [drop_of_none hn]; simp [chain, dKwClause]
  | some t =>
    have hlt := lt_of_get hn
    cases hc : litMatch t kw with
    | false =>
      refine hskip none ?_ ?_
      · exact clause_nolit c kw fl n (f+2) cur t hn hc
      · rw [drop_of_get hn]; simp [chain, dKwClause, hc]
    | true =>
      have hb := hbody hlt
      have hsk : ∀ (q : Tok) (cur' : Nat), c.toks[cur']? = some q → (∀ x ∈ l, litMatch q x.1 = false) → ∀ vals' caps',
          parseSeq c (f+7) (clauseList l) cur' false vals' caps' = finR vals' caps' cur' := by
        intro q cur' hq hqx vals' caps'
        exact skip_rest c cur' l (f+7) (by omega) (fun q' h' => by rw [hq] at h'; cases h'; exact hqx) false vals' caps'
      have hch : chain kw b next (c.toks.drop cur) =
          (match b (c.toks.drop (cur+1)) with
           | some (a, r') => (next r').map (fun x => (some a, x))
           | none => none) := by
        rw [drop_of_get hn]
        simp only [chain, dKwClause, hc, if_true]
        cases b (c.toks.drop (cur+1)) with
        | none => rfl
        | some pr => obtain ⟨a, r'⟩ := pr; rfl
      rw [parseSeq_cons, clause_lit c kw fl n f cur t hn hc, hch]
      generalize parse c (f+1) n (cur+1) = rb at hb
      cases hd : b (c.toks.drop (cur+1)) with
      | some pr =>
        obtain ⟨a, rest⟩ := pr
        rw [hd] at hb
        obtain ⟨v, cur', rfl, hcv, rfl, h1, h2⟩ := hb
        simp only []
        rcases hnext cur' (vals ++ [.str t.v, .str []]) (caps ++ ([] ++ [(fl, [v])])) (by omega) h2 with
          ⟨nv, nc, hR, hnm, hgd, hnv, hem⟩ | ⟨hD, hbad⟩
        · left
          refine ⟨[.str t.v, .str []] ++ nv, (fl, [v]) :: nc, by rw [hR]; simp, ?_, ?_, by simp, ?_⟩
          · intro p hp
            rcases List.mem_cons.mp hp with rfl | hp
            · exact List.mem_cons_self
            · exact List.mem_cons_of_mem _ (hnm p hp)
          · simp only [goodC, hf_hit v nc (fieldVals_names fl names hfl nc hnm), hcv, Option.map_some, Option.bind_some,
              hg_skip, hgd]
          · intro x hx
            cases hN : next (c.toks.drop cur') with
            | none => rw [hN] at hx; simp at hx
            | some y =>
              rw [hN] at hx
              simp only [Option.map_some, Option.some.injEq] at hx
              subst hx
              simp [emC]
        · right
          refine ⟨by rw [hD]; rfl, ?_⟩
          rcases hbad with ⟨k, hv, hR, hk⟩ | ⟨vals', caps', cur2, hR, h3, h4⟩
          · left; exact ⟨k, hv, hR, by omega⟩
          · right; exact ⟨vals', caps', cur2, hR, by omega, h4⟩
      | none =>
        rw [hd] at hb
        simp only []
        have hsoft : parseSeq c (f+7) (clauseList l) cur false (vals ++ [.str []]) (caps ++ []) = finR (vals ++ [.str []]) (caps ++ []) cur :=
          hsk t cur hn (hexcl t hc) _ _
        rcases hb with rfl | ⟨k, hv, rfl, hk⟩ | ⟨v, cur', rfl, h1, q, hq, hqs⟩ | ⟨v, cur', rfl, h1, h2, hcv⟩
        · right; refine ⟨rfl, ?_⟩; right
          exact ⟨vals ++ [.str []], caps ++ [], cur, hsoft, Nat.le_refl _, hlt⟩
        · right; refine ⟨rfl, ?_⟩
          by_cases hgt : k > cur + lookahead
          · left
            refine ⟨k, true || !vals.isEmpty, ?_, ?_⟩
            · simp only [hgt, if_true]
            · simp only [lookahead] at hgt; omega
          · right
            refine ⟨vals ++ [.str []], caps ++ [], cur, ?_, Nat.le_refl _, hlt⟩
            simp only [hgt, if_false]
            exact hsoft
        · right; refine ⟨rfl, ?_⟩; right
          refine ⟨vals ++ [.str t.v, .str []], caps ++ ([] ++ [(fl, [v])]), cur', ?_, by omega, lt_of_get hq⟩
          exact hsk q cur' hq (fun x hx => hqs _ (hl x hx)) _ _
        · -- the capture does not convert: whatever the rest does, the conversion of the whole fails
          rcases hnext cur' (vals ++ [.str t.v, .str []]) (caps ++ ([] ++ [(fl, [v])])) (by omega) h2 with
            ⟨nv, nc, hR, hnm, hgd, hnv, hem⟩ | ⟨hD, hbad⟩
          · left
            refine ⟨[.str t.v, .str []] ++ nv, (fl, [v]) :: nc, by simp only []; rw [hR]; simp, ?_, ?_, by simp, by simp⟩
            · intro p hp
              rcases List.mem_cons.mp hp with rfl | hp
              · exact List.mem_cons_self
              · exact List.mem_cons_of_mem _ (hnm p hp)
            · simp only [goodC, hf_hit v nc (fieldVals_names fl names hfl nc hnm), hcv, Option.map_none, Option.bind_none]
          · right
            refine ⟨rfl, ?_⟩
            rcases hbad with ⟨k, hv, hR, hk⟩ | ⟨vals', caps', cur2, hR, h3, h4⟩
            · left; exact ⟨k, hv, hR, by omega⟩
            · right; exact ⟨vals', caps', cur2, hR, by omega, h4⟩

/-! ## the clause bodies -/

theorem stuck_of_lit (c : Ctx) (cur : Nat) (s : Bytes) (h : litAt c cur s)
    (hs : ∀ kw ∈ selKws, (s == kw) = false ∧ eqFold s kw = false) : StuckAt c cur := by
  obtain ⟨q, hq, hm⟩ := h
  exact ⟨q, hq, fun kw hkw => litMatch_excl q s kw (hs kw hkw).1 (hs kw hkw).2 hm⟩

theorem stuck_AND (c : Ctx) (cur : Nat) (h : litAt c cur kwAND) : StuckAt c cur :=
  stuck_of_lit c cur _ h (by decide)
theorem stuck_OR (c : Ctx) (cur : Nat) (h : litAt c cur kwOR) : StuckAt c cur :=
  stuck_of_lit c cur _ h (by decide)

def cvNum (v : Val) : Option Int := parseInt0 (strs [v])

theorem body_num (c : Ctx) (f cur1 : Nat) :
    BodySim c cur1 (parse c (f+1) (.ref .number) cur1) (dIntTok (c.toks.drop cur1)) cvNum := by
  rw [parse_ref]
  simp only [peek]
  cases hn : c.toks[cur1]? with
  | none => rw [drop_of_none hn]; simp [dIntTok, BodySim]
  | some t =>
    have hlt := lt_of_get hn
    rw [drop_of_get hn]
    by_cases ht : t.t = TT.number
    · cases hp : parseInt0 t.v with
      | none =>
        simp only [dIntTok, ht, beq_self_eq_true, if_true, hp, BodySim]
        right; right; right
        exact ⟨.str t.v, cur1+1, rfl, by omega, by omega, by simp [cvNum, strs, hp]⟩
      | some i =>
        simp only [dIntTok, ht, beq_self_eq_true, if_true, hp, BodySim]
        exact ⟨.str t.v, cur1+1, rfl, by simp [cvNum, strs, hp], rfl, by omega, by omega⟩
    · have ht' : (t.t == TT.number) = false := by simpa using ht
      simp [dIntTok, ht', BodySim]

def positionBody : Node := .group (.disj [(.capture "PosId" (.lit kwTAIL)), (.capture "PosId" (.lit kwHEAD)), (.capture "PosId" (.ref .string)), (.capture "PosId" (.ref .ident))]) .once
theorem g_position : grammar "Position" = some positionBody := rfl

def cvPos (p : Val) : Option Bytes := some (strs (fv p "PosId"))

theorem body_position (c : Ctx) (hg : c.grammar = grammar) (f cur1 : Nat) :
    BodySim c cur1 (parse c (f+10) (.strct "Position") cur1) (dPosTok (c.toks.drop cur1)) cvPos := by
  rw [parse_strct c _ "Position" positionBody cur1 (by rw [hg]; rfl)]
  simp only [positionBody, parse_once, parse_disj, parseDisj_cons, parseDisj_nil, parse_capture, parse_lit, parse_ref, peek]
  cases hn : c.toks[cur1]? with
  | none => rw [drop_of_none hn]; simp [dPosTok, BodySim]
  | some t =>
    have hlt := lt_of_get hn
    rw [drop_of_get hn]
    have hok : cvPos (.node "Position" [("PosId", [.str t.v])]) = some t.v := by simp [cvPos, fv, fieldVals, strs]
    simp only [dPosTok]
    by_cases h1 : litMatch t kwTAIL = true
    · simp only [h1, Bool.true_or, if_true, BodySim]
      exact ⟨_, cur1+1, by simp, hok, rfl, by omega, by omega⟩
    · by_cases h2 : litMatch t kwHEAD = true
      · simp only [h1, h2, Bool.true_or, Bool.or_true, if_true, BodySim]
        exact ⟨_, cur1+1, by simp, hok, rfl, by omega, by omega⟩
      · by_cases h3 : t.t = TT.string
        · simp only [h1, h2, h3, beq_self_eq_true, Bool.true_or, Bool.or_true, if_true, BodySim]
          exact ⟨_, cur1+1, by simp, hok, rfl, by omega, by omega⟩
        · by_cases h4 : t.t = TT.ident
          · simp only [h1, h2, h4, beq_self_eq_true, Bool.or_true, if_true, BodySim]
            exact ⟨_, cur1+1, by simp, hok, rfl, by omega, by omega⟩
          · simp [h1, h2, h3, h4, BodySim]

theorem body_expr (c : Ctx) (hg : c.grammar = grammar) (hH : OperandNotParen c.toks) (ft : Nat) (hft : 8 * c.toks.length + 8 ≤ ft)
    (cur1 : Nat) (hcl : cur1 ≤ c.toks.length) (fe fd : Nat) (hfe : 60 * (c.toks.length - cur1) + 58 ≤ fe)
    (hfd : 4 * (c.toks.length - cur1) + 5 ≤ fd) :
    BodySim c cur1 (parse c fe (.strct "Expression") cur1) (dExpr fd (c.toks.drop cur1)) (toExpr ft) := by
  have he := simExpr c hg hH _ cur1 (Nat.le_refl _) hcl fe fd hfe hfd
  generalize parse c fe (.strct "Expression") cur1 = r at he ⊢
  cases hd : dExpr fd (c.toks.drop cur1) with
  | none =>
    rw [hd] at he
    simp only [SimExpr] at he
    simp only [BodySim]
    rcases he with ⟨k, h, hk⟩ | ⟨v, cur', h, hlt, hst⟩
    · right; left; exact ⟨k, true, h, hk⟩
    · right; right; left
      exact ⟨v, cur', h, by omega, hst.elim (stuck_AND c cur') (stuck_OR c cur')⟩
  | some res =>
    obtain ⟨e, rest⟩ := res
    rw [hd] at he
    obtain ⟨v, cur', h, hrel, hrest, h1, h2⟩ := he
    have hcv := dExpr_cv hd
    simp only [List.length_drop] at hcv
    simp only [BodySim]
    exact ⟨v, cur', h, convExpr e v ft hrel (by omega), hrest, by omega, h2⟩

theorem dSource_cv {f : Nat} {toks : List Tok} {s : Source} {r : List Tok} (h : dSource f toks = some (s, r)) :
    cvSource s ≤ 8 * toks.length + 8 := by
  cases toks with
  | nil => simp [dSource] at h
  | cons t rr =>
    by_cases ht : (t.t == TT.tags) = true
    · simp only [dSource, ht, if_true] at h
      cases hm : KV.tagParse t.v with
      | none => simp [hm] at h
      | some m =>
        simp [hm] at h
        obtain ⟨rfl, _⟩ := h
        simp [cvSource]
    · simp only [dSource, ht] at h
      cases h2 : dExpr f (t :: rr) with
      | none => simp [h2] at h
      | some pr =>
        obtain ⟨e, r1⟩ := pr
        simp [h2] at h
        obtain ⟨rfl, rfl⟩ := h
        have a := dExpr_cv h2
        simp only [cvSource]
        omega

theorem body_source (c : Ctx) (hg : c.grammar = grammar) (hH : OperandNotParen c.toks) (ft : Nat) (hft : 8 * c.toks.length + 8 ≤ ft)
    (cur1 : Nat) (hcl : cur1 ≤ c.toks.length) (fe fd : Nat) (hfe : 60 * (c.toks.length - cur1) + 63 ≤ fe)
    (hfd : 4 * (c.toks.length - cur1) + 5 ≤ fd) :
    BodySim c cur1 (parse c fe (.strct "Source") cur1) (dSource fd (c.toks.drop cur1)) (toSource ft) := by
  have he := simSource c hg hH cur1 hcl fe fd hfe hfd
  generalize parse c fe (.strct "Source") cur1 = r at he ⊢
  cases hd : dSource fd (c.toks.drop cur1) with
  | none =>
    rw [hd] at he
    simp only [SimSource] at he
    simp only [BodySim]
    rcases he with ⟨k, h, hk⟩ | ⟨v, cur', h, hlt, hst⟩ | ⟨v, h, hlt, hno⟩
    · right; left; exact ⟨k, true, h, hk⟩
    · right; right; left
      exact ⟨v, cur', h, by omega, hst.elim (stuck_AND c cur') (stuck_OR c cur')⟩
    · right; right; right
      exact ⟨v, cur1+1, h, by omega, by omega, hno ft⟩
  | some res =>
    obtain ⟨e, rest⟩ := res
    rw [hd] at he
    obtain ⟨v, cur', h, hrel, hrest, h1, h2⟩ := he
    have hcv := dSource_cv hd
    simp only [List.length_drop] at hcv
    simp only [BodySim]
    exact ⟨v, cur', h, convSource e v ft hrel (by omega), hrest, by omega, h2⟩

/-! ## struct `Range` -/
def rangeTailNode : Node := .seq [(.lit kwCOLON), (.capture "TmPoint2" (.ref .string)), (.lit kwRBR)]
def rangeBody : Node := .seq [optG (.lit kwLBR), optG (.capture "TmPoint1" (.ref .string)), optG rangeTailNode]
theorem g_range : grammar "Range" = some rangeBody := rfl

/-- `(@String)?` -/
theorem optcap_eq (c : Ctx) (fl : String) (fe cur : Nat) (hfe : 4 ≤ fe) :
    parse c fe (optG (.capture fl (.ref .string))) cur =
      (match c.toks[cur]? with
       | some s => if s.t == .string then .ok [.str []] [(fl, [.str s.v])] (cur+1) else .ok [] [] cur
       | none => .ok [] [] cur) := by
  obtain ⟨f, rfl⟩ : ∃ f, fe = f + 4 := ⟨fe - 4, by omega⟩
  simp only [parse_optG, parse_capture, parse_ref, peek]
  cases c.toks[cur]? with
  | none => rfl
  | some s => by_cases h : (s.t == TT.string) = true <;> simp [h]

theorem range_e1 (c : Ctx) (fe cur : Nat) (hfe : 3 ≤ fe) (hcl : cur ≤ c.toks.length) :
    ∃ v1 cur1, parse c fe (optG (.lit kwLBR)) cur = .ok v1 [] cur1 ∧ (dOptLit kwLBR (c.toks.drop cur)).2 = c.toks.drop cur1
      ∧ v1.isEmpty = !(dOptLit kwLBR (c.toks.drop cur)).1 ∧ cur ≤ cur1 ∧ cur1 ≤ c.toks.length ∧ (v1 = [] → cur1 = cur) := by
  obtain ⟨f, rfl⟩ : ∃ f, fe = f + 3 := ⟨fe - 3, by omega⟩
  simp only [parse_optG, parse_lit, peek]
  cases hn : c.toks[cur]? with
  | none =>
    rw [drop_of_none hn]
    exact ⟨[], cur, rfl, by simp [dOptLit, drop_of_none hn], by simp [dOptLit], Nat.le_refl _, hcl, fun _ => rfl⟩
  | some q =>
    have hlt := lt_of_get hn
    rw [drop_of_get hn]
    by_cases h : litMatch q kwLBR = true
    · exact ⟨[.str q.v], cur+1, by simp [h], by simp [dOptLit, h], by simp [dOptLit, h], by omega, by omega, by simp⟩
    · exact ⟨[], cur, by simp [h], by simp [dOptLit, h, drop_of_get hn], by simp [dOptLit, h], Nat.le_refl _, hcl, fun _ => rfl⟩

theorem range_e2 (c : Ctx) (dp : Bytes → Option Int) (fe cur : Nat) (hfe : 4 ≤ fe) :
    (parse c fe (optG (.capture "TmPoint1" (.ref .string))) cur = .ok [] [] cur ∧ dOptDate dp (c.toks.drop cur) = some (none, c.toks.drop cur))
    ∨ (∃ s, parse c fe (optG (.capture "TmPoint1" (.ref .string))) cur = .ok [.str []] [("TmPoint1", [.str s])] (cur+1) ∧ cur < c.toks.length
        ∧ dOptDate dp (c.toks.drop cur) = (match dp s with | some v => some (some v, c.toks.drop (cur+1)) | none => none)) := by
  rw [optcap_eq c _ fe cur hfe]
  cases hn : c.toks[cur]? with
  | none => left; rw [drop_of_none hn]; simp [dOptDate]
  | some q =>
    rw [drop_of_get hn]
    by_cases h : (q.t == TT.string) = true
    · right
      refine ⟨q.v, by simp [h], lt_of_get hn, ?_⟩
      simp only [dOptDate, h, if_true]
      cases dp q.v <;> rfl
    · left; simp [dOptDate, h]

theorem range_e3 (c : Ctx) (dp : Bytes → Option Int) (fe cur : Nat) (hfe : 8 ≤ fe) :
    (parse c fe (optG rangeTailNode) cur = .ok [] [] cur ∧ dRangeTail dp (c.toks.drop cur) = some (none, c.toks.drop cur))
    ∨ (parse c fe (optG rangeTailNode) cur = .ok [.str []] [] cur ∧ dRangeTail dp (c.toks.drop cur) = none ∧ litAt c cur kwCOLON)
    ∨ (parse c fe (optG rangeTailNode) cur = .err (cur+2) true ∧ dRangeTail dp (c.toks.drop cur) = none)
    ∨ (∃ v3 s, parse c fe (optG rangeTailNode) cur = .ok v3 [("TmPoint2", [.str s])] (cur+3) ∧ v3 ≠ [] ∧ cur + 3 ≤ c.toks.length
        ∧ dRangeTail dp (c.toks.drop cur) = (match dp s with | some v => some (some v, c.toks.drop (cur+3)) | none => none)) := by
  obtain ⟨f, rfl⟩ : ∃ f, fe = f + 8 := ⟨fe - 8, by omega⟩
  simp only [rangeTailNode, parse_optG, parse_seq, parseSeq_cons, parse_lit, parse_capture, parse_ref, peek]
  cases hn : c.toks[cur]? with
  | none => left; rw [drop_of_none hn]; simp [dRangeTail]
  | some q =>
    rw [drop_of_get hn]
    by_cases hc : litMatch q kwCOLON = true
    · right
      cases hn1 : c.toks[cur+1]? with
      | none =>
        left
        rw [drop_of_none hn1]
        exact ⟨by simp [hc, hn1, lookahead], by simp [dRangeTail, hc], q, hn, hc⟩
      | some s =>
        rw [drop_of_get hn1]
        by_cases hs : (s.t == TT.string) = true
        · right
          cases hn2 : c.toks[cur+1+1]? with
          | none =>
            left
            rw [drop_of_none hn2]
            exact ⟨by simp [hc, hn1, hs, hn2, lookahead], by simp [dRangeTail, hc]⟩
          | some z =>
            rw [drop_of_get hn2]
            have hlt := lt_of_get hn2
            by_cases hz : litMatch z kwRBR = true
            · right
              refine ⟨[.str q.v, .str [], .str z.v], s.v, by simp [hc, hn1, hs, hn2, hz, parseSeq_nil], by simp, by omega, ?_⟩
              simp only [dRangeTail, hc, hs, hz, if_true, Bool.and_self]
              cases dp s.v <;> rfl
            · left
              exact ⟨by simp [hc, hn1, hs, hn2, hz, lookahead], by simp [dRangeTail, hc, hs, hz]⟩
        · left
          refine ⟨by simp [hc, hn1, hs, lookahead], ?_, q, hn, hc⟩
          cases hd : c.toks.drop (cur+1+1) with
          | nil => simp [dRangeTail, hc]
          | cons z r' => simp [dRangeTail, hc, hs]
    · left; simp [hc, dRangeTail]

def convR0 (dp : Bytes → Option Int) (r : Val) : Option Range := do
  let p1 ← optConv r "TmPoint1" dp
  let p2 ← optConv r "TmPoint2" dp
  pure (⟨p1, p2⟩ : Range)
def chkR (r : Range) : Option Range := if parseLqlRejectsEmptyRange && r.p1.isNone && r.p2.isNone then none else some r
def cvRange (dp : Bytes → Option Int) (v : Val) : Option Range := (convR0 dp v).bind chkR

theorem stuck_COLON (c : Ctx) (cur : Nat) (h : litAt c cur kwCOLON) : StuckAt c cur :=
  stuck_of_lit c cur _ h (by decide)

theorem body_range (c : Ctx) (hg : c.grammar = grammar) (dp : Bytes → Option Int) (f cur1 : Nat) (hcl : cur1 ≤ c.toks.length) :
    BodySim c cur1 (parse c (f+13) (.strct "Range") cur1) (dRangeBody dp (c.toks.drop cur1)) (cvRange dp) := by
  rw [parse_strct c _ "Range" rangeBody cur1 (by rw [hg]; rfl)]
  simp only [rangeBody, parse_seq, parseSeq_cons]
  obtain ⟨v1, cu1, h1, hd1, hv1, hle1, hle1', hz1⟩ := range_e1 c (f+10) cur1 (by omega) hcl
  rw [h1]
  simp only [dRangeBody, hd1]
  generalize (dOptLit kwLBR (c.toks.drop cur1)).1 = lb at hv1 ⊢
  rcases range_e2 c dp (f+9) cu1 (by omega) with ⟨h2, hd2⟩ | ⟨s1, h2, hlt2, hd2⟩
  · rw [h2]
    simp only [hd2]
    rcases range_e3 c dp (f+8) cu1 (by omega) with ⟨h3, hd3⟩ | ⟨h3, hd3, hst⟩ | ⟨h3, hd3⟩ | ⟨v3, s2, h3, hne3, hle3, hd3⟩
    · rw [h3]
      simp only [hd3, parseSeq_nil]
      cases lb with
      | false =>
        have : v1 = [] := by simpa using hv1
        subst this
        simp [BodySim]
      | true =>
        have hne : v1.isEmpty = false := by simpa using hv1
        cases hrj : parseLqlRejectsEmptyRange with
        | true =>
          simp only [BodySim, List.nil_append, List.append_nil, hne, Bool.false_eq_true, if_false, Bool.not_true, Bool.false_and,
            Option.isNone_none, Bool.and_self, if_true]
          right; right; right
          exact ⟨.node "Range" [], cu1, rfl, hle1, hle1', by simp [cvRange, convR0, optConv, fv, fieldVals, chkR, hrj]⟩
        | false =>
          simp only [BodySim, List.nil_append, List.append_nil, hne, Bool.false_eq_true, if_false, Bool.not_true, Bool.false_and]
          exact ⟨.node "Range" [], cu1, rfl, by simp [cvRange, convR0, optConv, fv, fieldVals, chkR, hrj], rfl, hle1, hle1'⟩
    · rw [h3]
      simp only [hd3, parseSeq_nil, BodySim]
      right; right; left
      exact ⟨.node "Range" [], cu1, by simp, hle1, stuck_COLON c cu1 hst⟩
    · rw [h3]
      simp only [hd3, BodySim]
      right; left
      exact ⟨cu1+2, true, by simp, by omega⟩
    · rw [h3]
      simp only [hd3, parseSeq_nil]
      have hne : (([] ++ v1 ++ []) ++ v3).isEmpty = false := by cases v3 with
        | nil => exact absurd rfl hne3
        | cons a b => simp
      cases hdp : dp s2 with
      | none =>
        simp only [BodySim, hne, Bool.false_eq_true, if_false]
        right; right; right
        exact ⟨.node "Range" [("TmPoint2", [.str s2])], cu1+3, by simp, by omega, hle3,
          by simp [cvRange, convR0, optConv, fv, fieldVals, strs, hdp]⟩
      | some p2 =>
        simp only [BodySim, hne, Bool.false_eq_true, if_false, Option.isNone_some, Bool.and_false]
        exact ⟨.node "Range" [("TmPoint2", [.str s2])], cu1+3, by simp,
          by simp [cvRange, convR0, optConv, fv, fieldVals, strs, hdp, chkR], rfl, by omega, hle3⟩
  · rw [h2]
    simp only [hd2]
    have hcv1 : dp s1 = none → cvRange dp (.node "Range" [("TmPoint1", [.str s1])]) = none := by
      intro h
      simp [cvRange, convR0, optConv, fv, fieldVals, strs, h]
    have hcv2 : ∀ s2, dp s1 = none → cvRange dp (.node "Range" [("TmPoint1", [.str s1]), ("TmPoint2", [.str s2])]) = none := by
      intro s2 h
      simp [cvRange, convR0, optConv, fv, fieldVals, strs, h]
    rcases range_e3 c dp (f+8) (cu1+1) (by omega) with ⟨h3, hd3⟩ | ⟨h3, hd3, hst⟩ | ⟨h3, hd3⟩ | ⟨v3, s2, h3, hne3, hle3, hd3⟩
    · rw [h3]
      simp only [parseSeq_nil]
      cases hdp : dp s1 with
      | none =>
        simp only [BodySim]
        right; right; right
        exact ⟨.node "Range" [("TmPoint1", [.str s1])], cu1+1, by simp, by omega, by omega, hcv1 hdp⟩
      | some p1 =>
        simp only [hd3, BodySim, Option.isNone_some, Bool.and_false, Bool.false_and, Bool.false_eq_true, if_false]
        exact ⟨.node "Range" [("TmPoint1", [.str s1])], cu1+1, by simp,
          by simp [cvRange, convR0, optConv, fv, fieldVals, strs, hdp, chkR], rfl, by omega, by omega⟩
    · rw [h3]
      simp only [parseSeq_nil]
      cases hdp : dp s1 <;> simp only [hd3, BodySim] <;>
        exact Or.inr (Or.inr (Or.inl ⟨.node "Range" [("TmPoint1", [.str s1])], cu1+1, by simp, by omega, stuck_COLON c _ hst⟩))
    · rw [h3]
      cases hdp : dp s1 <;> simp only [hd3, BodySim] <;>
        exact Or.inr (Or.inl ⟨cu1+1+2, true, by simp, by omega⟩)
    · rw [h3]
      simp only [parseSeq_nil]
      cases hdp : dp s1 with
      | none =>
        simp only [BodySim]
        right; right; right
        exact ⟨.node "Range" [("TmPoint1", [.str s1]), ("TmPoint2", [.str s2])], cu1+1+3, by simp, by omega, hle3, hcv2 s2 hdp⟩
      | some p1 =>
        simp only [hd3]
        cases hdp2 : dp s2 with
        | none =>
          simp only [BodySim]
          right; right; right
          exact ⟨.node "Range" [("TmPoint1", [.str s1]), ("TmPoint2", [.str s2])], cu1+1+3, by simp, by omega, hle3,
            by simp [cvRange, convR0, optConv, fv, fieldVals, strs, hdp, hdp2]⟩
        | some p2 =>
          simp only [BodySim, Option.isNone_some, Bool.and_false, Bool.false_eq_true, if_false]
          exact ⟨.node "Range" [("TmPoint1", [.str s1]), ("TmPoint2", [.str s2])], cu1+1+3, by simp,
            by simp [cvRange, convR0, optConv, fv, fieldVals, strs, hdp, hdp2, chkR], rfl, by omega, hle3⟩

/-! ## the clause list of `Select`, from the last clause backwards -/
def dEnd : List Tok → Option Unit
  | [] => some ()
  | _ :: _ => none
def goodEnd (_ : Caps) : Option Unit := some ()
def emEnd (_ : Unit) : Bool := true

theorem sim_end (c : Ctx) (f cur : Nat) (hcl : cur ≤ c.toks.length) (first : Bool) (vals : List Val) (caps : Caps) :
    TailSim c cur vals caps (parseSeq c (f+1) (clauseList []) cur first vals caps) (dEnd (c.toks.drop cur)) goodEnd [] emEnd := by
  simp only [clauseList, List.map_nil, parseSeq_nil]
  by_cases h : cur = c.toks.length
  · left
    refine ⟨[], [], by simp [finR, h], by simp, ?_, fun _ => h, ?_⟩
    · subst h; simp [goodEnd, dEnd]
    · intro x _; simp [emEnd]
  · right
    have hlt : cur < c.toks.length := by omega
    refine ⟨?_, Or.inr ⟨vals, caps, cur, rfl, Nat.le_refl _, hlt⟩⟩
    cases hn : c.toks[cur]? with
    | none => simp at hn; omega
    | some q => rw [drop_of_get hn]; rfl

theorem excl_list (kw : Bytes) (l : List (Bytes × String × Node))
    (h : ∀ x ∈ l, (kw == x.1) = false ∧ eqFold kw x.1 = false) :
    ∀ q, litMatch q kw = true → ∀ x ∈ l, litMatch q x.1 = false :=
  fun q hq x hx => litMatch_excl q kw x.1 (h x hx).1 (h x hx).2 hq

def sv (nc : Caps) : Val := .node "Select" nc
def fLim (nc : Caps) : Option (Option Int) := optConv (sv nc) "Limit" parseInt0
def fOff (nc : Caps) : Option (Option Int) := optConv (sv nc) "Offset" parseInt0
def fPos (nc : Caps) : Option (Option Bytes) := optNode (sv nc) "Position" cvPos
def fWh (ft : Nat) (nc : Caps) : Option (Option Expr) := optExpr ft (sv nc) "Where"
def fRng (dp : Bytes → Option Int) (nc : Caps) : Option (Option Range) :=
  (optNode (sv nc) "Range" (convR0 dp)).bind (fun o => match o with | some r => (chkR r).map some | none => some none)
def fSrc (ft : Nat) (nc : Caps) : Option (Option Source) := optSource ft (sv nc) "Source"

theorem fLim_skip (g : String) (v : List Val) (nc : Caps) (h : (g == "Limit") = false) : fLim ((g, v) :: nc) = fLim nc := by
  simp [fLim, optConv, sv, fv, fieldVals_cons_ne _ _ _ _ h]
theorem fOff_skip (g : String) (v : List Val) (nc : Caps) (h : (g == "Offset") = false) : fOff ((g, v) :: nc) = fOff nc := by
  simp [fOff, optConv, sv, fv, fieldVals_cons_ne _ _ _ _ h]
theorem fPos_skip (g : String) (v : List Val) (nc : Caps) (h : (g == "Position") = false) : fPos ((g, v) :: nc) = fPos nc := by
  simp [fPos, optNode, sv, fv, fieldVals_cons_ne _ _ _ _ h]
theorem fWh_skip (ft : Nat) (g : String) (v : List Val) (nc : Caps) (h : (g == "Where") = false) : fWh ft ((g, v) :: nc) = fWh ft nc := by
  simp [fWh, optExpr, sv, fv, fieldVals_cons_ne _ _ _ _ h]
theorem fRng_skip (dp : Bytes → Option Int) (g : String) (v : List Val) (nc : Caps) (h : (g == "Range") = false) :
    fRng dp ((g, v) :: nc) = fRng dp nc := by
  simp [fRng, optNode, sv, fv, fieldVals_cons_ne _ _ _ _ h]
theorem fSrc_skip (ft : Nat) (g : String) (v : List Val) (nc : Caps) (h : (g == "Source") = false) : fSrc ft ((g, v) :: nc) = fSrc ft nc := by
  simp [fSrc, optSource, sv, fv, fieldVals_cons_ne _ _ _ _ h]

def cLim : Bytes × String × Node := (kwLIMIT, "Limit", .ref .number)
def cOff : Bytes × String × Node := (kwOFFSET, "Offset", .ref .number)
def cPos : Bytes × String × Node := (kwPOSITION, "Position", .strct "Position")
def cWh : Bytes × String × Node := (kwWHERE, "Where", .strct "Expression")
def cRng : Bytes × String × Node := (kwRANGE, "Range", .strct "Range")
def cSrc : Bytes × String × Node := (kwFROM, "Source", .strct "Source")

def D7 : List Tok → Option (Option Int × Unit) := chain kwLIMIT dIntTok dEnd
def G7 : Caps → Option (Option Int × Unit) := goodC fLim goodEnd
theorem G7_skip (g : String) (v : List Val) (nc : Caps) (h7 : (g == "Limit") = false) : G7 ((g, v) :: nc) = G7 nc := by
  simp only [G7, goodC, fLim_skip g v nc h7, goodEnd]

theorem sim_l7 (c : Ctx) (fe cur : Nat) (hcl : cur ≤ c.toks.length) (hfe : 20 ≤ fe) (first : Bool) (vals : List Val) (caps : Caps) :
    TailSim c cur vals caps (parseSeq c fe (clauseList [cLim]) cur first vals caps) (D7 (c.toks.drop cur)) G7 ["Limit"] (emC emEnd) := by
  obtain ⟨f, rfl⟩ : ∃ f, fe = f + 8 := ⟨fe - 8, by omega⟩
  exact tail_step c kwLIMIT "Limit" (.ref .number) [] dIntTok cvNum fLim dEnd goodEnd [] emEnd
    (by decide) (excl_list _ _ (by decide)) (by decide)
    (fun nc h => by simp [fLim, optConv, sv, fv, h])
    (fun v nc h => by simp [fLim, optConv, sv, fv, fieldVals_cons_eq, h, cvNum])
    (fun v nc => rfl)
    f cur hcl (by simp; omega) (fun _ => body_num c f (cur+1))
    (fun cur' vals' caps' _ h2 => sim_end c (f+6) cur' h2 false vals' caps') first vals caps

def D6 : List Tok → Option (Option Int × Option Int × Unit) := chain kwOFFSET dIntTok D7
def G6 : Caps → Option (Option Int × Option Int × Unit) := goodC fOff G7

theorem sim_l6 (c : Ctx) (fe cur : Nat) (hcl : cur ≤ c.toks.length) (hfe : 30 ≤ fe) (first : Bool) (vals : List Val) (caps : Caps) :
    TailSim c cur vals caps (parseSeq c fe (clauseList [cOff, cLim]) cur first vals caps) (D6 (c.toks.drop cur)) G6 ["Offset", "Limit"]
      (emC (emC emEnd)) := by
  obtain ⟨f, rfl⟩ : ∃ f, fe = f + 8 := ⟨fe - 8, by omega⟩
  exact tail_step c kwOFFSET "Offset" (.ref .number) [cLim] dIntTok cvNum fOff D7 G7 ["Limit"] (emC emEnd)
    (by decide) (excl_list _ _ (by decide)) (by decide)
    (fun nc h => by simp [fOff, optConv, sv, fv, h])
    (fun v nc h => by simp [fOff, optConv, sv, fv, fieldVals_cons_eq, h, cvNum])
    (fun v nc => G7_skip _ v nc (by decide))
    f cur hcl (by simp; omega) (fun _ => body_num c f (cur+1))
    (fun cur' vals' caps' _ h2 => sim_l7 c (f+7) cur' h2 (by omega) false vals' caps') first vals caps

theorem G6_skip (g : String) (v : List Val) (nc : Caps) (h6 : (g == "Offset") = false) (h7 : (g == "Limit") = false) :
    G6 ((g, v) :: nc) = G6 nc := by
  simp only [G6, goodC, fOff_skip g v nc h6, G7_skip g v nc h7]

def D5 : List Tok → Option (Option Bytes × Option Int × Option Int × Unit) := chain kwPOSITION dPosTok D6
def G5 : Caps → Option (Option Bytes × Option Int × Option Int × Unit) := goodC fPos G6

theorem sim_l5 (c : Ctx) (hg : c.grammar = grammar) (fe cur : Nat) (hcl : cur ≤ c.toks.length) (hfe : 40 ≤ fe)
    (first : Bool) (vals : List Val) (caps : Caps) :
    TailSim c cur vals caps (parseSeq c fe (clauseList [cPos, cOff, cLim]) cur first vals caps) (D5 (c.toks.drop cur)) G5
      ["Position", "Offset", "Limit"] (emC (emC (emC emEnd))) := by
  obtain ⟨f, rfl⟩ : ∃ f, fe = f + 19 := ⟨fe - 19, by omega⟩
  exact tail_step c kwPOSITION "Position" (.strct "Position") [cOff, cLim] dPosTok cvPos fPos D6 G6 ["Offset", "Limit"] (emC (emC emEnd))
    (by decide) (excl_list _ _ (by decide)) (by decide)
    (fun nc h => by simp [fPos, optNode, sv, fv, h])
    (fun v nc h => by simp [fPos, optNode, sv, fv, fieldVals_cons_eq, h])
    (fun v nc => G6_skip _ v nc (by decide) (by decide))
    (f+11) cur hcl (by simp) (fun _ => body_position c hg (f+2) (cur+1))
    (fun cur' vals' caps' _ h2 => sim_l6 c (f+18) cur' h2 (by omega) false vals' caps') first vals caps

theorem G5_skip (g : String) (v : List Val) (nc : Caps) (h5 : (g == "Position") = false) (h6 : (g == "Offset") = false)
    (h7 : (g == "Limit") = false) : G5 ((g, v) :: nc) = G5 nc := by
  simp only [G5, goodC, fPos_skip g v nc h5, G6_skip g v nc h6 h7]

def D4 (fd : Nat) : List Tok → Option (Option Expr × Option Bytes × Option Int × Option Int × Unit) := chain kwWHERE (dExpr fd) D5
def G4 (ft : Nat) : Caps → Option (Option Expr × Option Bytes × Option Int × Option Int × Unit) := goodC (fWh ft) G5

theorem sim_l4 (c : Ctx) (hg : c.grammar = grammar) (hH : OperandNotParen c.toks) (ft : Nat) (hft : 8 * c.toks.length + 8 ≤ ft)
    (fd : Nat) (hfd : 4 * c.toks.length + 5 ≤ fd) (fe cur : Nat) (hcl : cur ≤ c.toks.length)
    (hfe : 60 * (c.toks.length - cur) + 50 ≤ fe) (first : Bool) (vals : List Val) (caps : Caps) :
    TailSim c cur vals caps (parseSeq c fe (clauseList [cWh, cPos, cOff, cLim]) cur first vals caps) (D4 fd (c.toks.drop cur)) (G4 ft)
      ["Where", "Position", "Offset", "Limit"] (emC (emC (emC (emC emEnd)))) := by
  obtain ⟨f, rfl⟩ : ∃ f, fe = f + 8 := ⟨fe - 8, by omega⟩
  exact tail_step c kwWHERE "Where" (.strct "Expression") [cPos, cOff, cLim] (dExpr fd) (toExpr ft) (fWh ft) D5 G5
    ["Position", "Offset", "Limit"] (emC (emC (emC emEnd)))
    (by decide) (excl_list _ _ (by decide)) (by decide)
    (fun nc h => by simp [fWh, optExpr, sv, fv, h])
    (fun v nc h => by simp [fWh, optExpr, sv, fv, fieldVals_cons_eq, h])
    (fun v nc => G5_skip _ v nc (by decide) (by decide) (by decide))
    f cur hcl (by simp; omega)
    (fun hlt => body_expr c hg hH ft hft (cur+1) (by omega) (f+1) fd (by omega) (by omega))
    (fun cur' vals' caps' _ h2 => sim_l5 c hg (f+7) cur' h2 (by omega) false vals' caps') first vals caps

theorem G4_skip (ft : Nat) (g : String) (v : List Val) (nc : Caps) (h4 : (g == "Where") = false) (h5 : (g == "Position") = false)
    (h6 : (g == "Offset") = false) (h7 : (g == "Limit") = false) : G4 ft ((g, v) :: nc) = G4 ft nc := by
  simp only [G4, goodC, fWh_skip ft g v nc h4, G5_skip g v nc h5 h6 h7]

def D3 (dp : Bytes → Option Int) (fd : Nat) :
    List Tok → Option (Option Range × Option Expr × Option Bytes × Option Int × Option Int × Unit) := chain kwRANGE (dRangeBody dp) (D4 fd)
def G3 (dp : Bytes → Option Int) (ft : Nat) :
    Caps → Option (Option Range × Option Expr × Option Bytes × Option Int × Option Int × Unit) := goodC (fRng dp) (G4 ft)

theorem sim_l3 (c : Ctx) (hg : c.grammar = grammar) (hH : OperandNotParen c.toks) (dp : Bytes → Option Int) (ft : Nat)
    (hft : 8 * c.toks.length + 8 ≤ ft) (fd : Nat) (hfd : 4 * c.toks.length + 5 ≤ fd) (fe cur : Nat) (hcl : cur ≤ c.toks.length)
    (hfe : 60 * (c.toks.length - cur) + 60 ≤ fe) (first : Bool) (vals : List Val) (caps : Caps) :
    TailSim c cur vals caps (parseSeq c fe (clauseList [cRng, cWh, cPos, cOff, cLim]) cur first vals caps) (D3 dp fd (c.toks.drop cur))
      (G3 dp ft) ["Range", "Where", "Position", "Offset", "Limit"] (emC (emC (emC (emC (emC emEnd))))) := by
  obtain ⟨f, rfl⟩ : ∃ f, fe = f + 20 := ⟨fe - 20, by omega⟩
  exact tail_step c kwRANGE "Range" (.strct "Range") [cWh, cPos, cOff, cLim] (dRangeBody dp) (cvRange dp) (fRng dp) (D4 fd) (G4 ft)
    ["Where", "Position", "Offset", "Limit"] (emC (emC (emC (emC emEnd))))
    (by decide) (excl_list _ _ (by decide)) (by decide)
    (fun nc h => by simp [fRng, optNode, sv, fv, h])
    (fun v nc h => by
      simp only [fRng, optNode, sv, fv, fieldVals_cons_eq, h, List.append_nil, cvRange]
      cases convR0 dp v <;> simp)
    (fun v nc => G4_skip ft _ v nc (by decide) (by decide) (by decide) (by decide))
    (f+12) cur hcl (by simp)
    (fun hlt => body_range c hg dp f (cur+1) (by omega))
    (fun cur' vals' caps' _ h2 => sim_l4 c hg hH ft hft fd hfd (f+19) cur' h2 (by omega) false vals' caps') first vals caps

theorem G3_skip (dp : Bytes → Option Int) (ft : Nat) (g : String) (v : List Val) (nc : Caps) (h3 : (g == "Range") = false)
    (h4 : (g == "Where") = false) (h5 : (g == "Position") = false)
    (h6 : (g == "Offset") = false) (h7 : (g == "Limit") = false) : G3 dp ft ((g, v) :: nc) = G3 dp ft nc := by
  simp only [G3, goodC, fRng_skip dp g v nc h3, G4_skip ft g v nc h4 h5 h6 h7]

def D2 (dp : Bytes → Option Int) (fd : Nat) :
    List Tok → Option (Option Source × Option Range × Option Expr × Option Bytes × Option Int × Option Int × Unit) :=
  chain kwFROM (dSource fd) (D3 dp fd)
def G2 (dp : Bytes → Option Int) (ft : Nat) :
    Caps → Option (Option Source × Option Range × Option Expr × Option Bytes × Option Int × Option Int × Unit) := goodC (fSrc ft) (G3 dp ft)

def selClauses : List (Bytes × String × Node) := [cSrc, cRng, cWh, cPos, cOff, cLim]
def selNames : List String := ["Source", "Range", "Where", "Position", "Offset", "Limit"]

theorem sim_l2 (c : Ctx) (hg : c.grammar = grammar) (hH : OperandNotParen c.toks) (dp : Bytes → Option Int) (ft : Nat)
    (hft : 8 * c.toks.length + 8 ≤ ft) (fd : Nat) (hfd : 4 * c.toks.length + 5 ≤ fd) (fe cur : Nat) (hcl : cur ≤ c.toks.length)
    (hfe : 60 * (c.toks.length - cur) + 70 ≤ fe) (first : Bool) (vals : List Val) (caps : Caps) :
    TailSim c cur vals caps (parseSeq c fe (clauseList selClauses) cur first vals caps) (D2 dp fd (c.toks.drop cur))
      (G2 dp ft) selNames (emC (emC (emC (emC (emC (emC emEnd)))))) := by
  obtain ⟨f, rfl⟩ : ∃ f, fe = f + 8 := ⟨fe - 8, by omega⟩
  exact tail_step c kwFROM "Source" (.strct "Source") [cRng, cWh, cPos, cOff, cLim] (dSource fd) (toSource ft) (fSrc ft) (D3 dp fd) (G3 dp ft)
    ["Range", "Where", "Position", "Offset", "Limit"] (emC (emC (emC (emC (emC emEnd)))))
    (by decide) (excl_list _ _ (by decide)) (by decide)
    (fun nc h => by simp [fSrc, optSource, sv, fv, h])
    (fun v nc h => by simp [fSrc, optSource, sv, fv, fieldVals_cons_eq, h])
    (fun v nc => G3_skip dp ft _ v nc (by decide) (by decide) (by decide) (by decide) (by decide))
    f cur hcl (by simp; omega)
    (fun hlt => body_source c hg hH ft hft (cur+1) (by omega) (f+1) fd (by omega) (by omega))
    (fun cur' vals' caps' _ h2 => sim_l3 c hg hH dp ft hft fd hfd (f+7) cur' h2 (by omega) false vals' caps') first vals caps

/-! ## the direct parser as the chain, and the typed application of the captures -/
abbrev SelTuple := Option Source × Option Range × Option Expr × Option Bytes × Option Int × Option Int × Unit

def buildSel (fmt : Option Bytes) (x : SelTuple) : Select :=
  { format := fmt, source := x.1, range := x.2.1, where_ := x.2.2.1, position := x.2.2.2.1, offset := x.2.2.2.2.1, limit := x.2.2.2.2.2.1 }

theorem dSelectBody_eq (dp : Bytes → Option Int) (fd : Nat) (toks : List Tok) :
    dSelectBody dp fd toks = (D2 dp fd (dOptFormat toks).2).map (buildSel (dOptFormat toks).1) := by
  simp only [dSelectBody, D2, D3, D4, D5, D6, D7, chain]
  cases dKwClause kwFROM (dSource fd) (dOptFormat toks).2 with
  | none => rfl
  | some p1 =>
    obtain ⟨src, t1⟩ := p1
    simp only []
    cases dKwClause kwRANGE (dRangeBody dp) t1 with
    | none => rfl
    | some p2 =>
      obtain ⟨rng, t2⟩ := p2
      simp only []
      cases dKwClause kwWHERE (dExpr fd) t2 with
      | none => rfl
      | some p3 =>
        obtain ⟨wh, t3⟩ := p3
        simp only []
        cases dKwClause kwPOSITION dPosTok t3 with
        | none => rfl
        | some p4 =>
          obtain ⟨pos, t4⟩ := p4
          simp only []
          cases dKwClause kwOFFSET dIntTok t4 with
          | none => rfl
          | some p5 =>
            obtain ⟨off, t5⟩ := p5
            simp only []
            cases dKwClause kwLIMIT dIntTok t5 with
            | none => rfl
            | some p6 =>
              obtain ⟨lim, t6⟩ := p6
              cases t6 with
              | nil => simp [dEnd, buildSel]
              | cons a b => simp [dEnd]

theorem isEmpty_buildSel (fmt : Option Bytes) (x : SelTuple) :
    isEmptySelect (buildSel fmt x) = (fmt.isNone && emC (emC (emC (emC (emC (emC emEnd))))) x) := by
  simp [isEmptySelect, buildSel, emC, emEnd, Bool.and_assoc]

def fRng0 (dp : Bytes → Option Int) (nc : Caps) : Option (Option Range) := optNode (sv nc) "Range" (convR0 dp)

theorem fRng0_skip (dp : Bytes → Option Int) (g : String) (v : List Val) (nc : Caps) (h : (g == "Range") = false) :
    fRng0 dp ((g, v) :: nc) = fRng0 dp nc := by
  simp [fRng0, optNode, sv, fv, fieldVals_cons_ne _ _ _ _ h]

def selConvF (dp : Bytes → Option Int) (ft : Nat) (fmt : Option Bytes) (nc : Caps) : Option Select := do
  let src ← fSrc ft nc
  let rng ← fRng0 dp nc
  let wh ← fWh ft nc
  let pos ← fPos nc
  let off ← fOff nc
  let lim ← fLim nc
  pure ({ format := fmt, source := src, range := rng, where_ := wh, position := pos, offset := off, limit := lim } : Select)

theorem toLql_select (dp : Bytes → Option Int) (ft : Nat) (caps : Caps) :
    toLql dp ft (.node "Lql" [("Select", [.node "Select" caps])]) =
      (selConvF dp ft (optStr (sv caps) "Format") caps).bind (fun x => some ({ select := some x } : Lql)) := by
  simp [toLql, selConvF, fSrc, fRng0, fWh, fPos, fOff, fLim, sv, convR0, cvPos, optNode, fv, fieldVals, Option.bind_assoc,
    Function.comp_def]

theorem selConv_core (dp : Bytes → Option Int) (ft : Nat) (fmt : Option Bytes) (nc : Caps) :
    (selConvF dp ft fmt nc).bind (fun s => postCheck ({ select := some s } : Lql)) =
      (G2 dp ft nc).map (fun x => ({ select := some (buildSel fmt x) } : Lql)) := by
  have hR : fRng dp nc = (fRng0 dp nc).bind (fun o => match o with | some r => (chkR r).map some | none => some none) := rfl
  simp only [selConvF, G2, G3, G4, G5, G6, G7, goodC, goodEnd, hR]
  generalize fSrc ft nc = A
  generalize fRng0 dp nc = B
  generalize fWh ft nc = C
  generalize fPos nc = D
  generalize fOff nc = E
  generalize fLim nc = F
  rcases A with _ | a
  · rfl
  rcases B with _ | _ | r
  · rfl
  · rcases C with _ | c
    · rfl
    rcases D with _ | d
    · rfl
    rcases E with _ | e
    · rfl
    rcases F with _ | f
    · rfl
    simp [postCheck, hasEmptyRange, buildSel]
  · by_cases hk : (parseLqlRejectsEmptyRange && r.p1.isNone && r.p2.isNone) = true
    · have hc : chkR r = none := by simp only [chkR, hk, if_true]
      rcases C with _ | c
      · simp [hc]
      rcases D with _ | d
      · simp [hc]
      rcases E with _ | e
      · simp [hc]
      rcases F with _ | f
      · simp [hc]
      simp [postCheck, hasEmptyRange, hc]
      simpa [and_assoc] using hk
    · have hc : chkR r = some r := by simp only [chkR, hk]; rfl
      rcases C with _ | c
      · simp [hc]
      rcases D with _ | d
      · simp [hc]
      rcases E with _ | e
      · simp [hc]
      rcases F with _ | f
      · simp [hc]
      simp [postCheck, hasEmptyRange, hc, buildSel]
      simpa using hk

theorem selConvF_nil (dp : Bytes → Option Int) (ft : Nat) (nc : Caps) (hF : fieldVals nc "Format" = []) :
    selConvF dp ft (optStr (sv nc) "Format") nc = selConvF dp ft none nc := by
  have : optStr (sv nc) "Format" = none := by simp [optStr, sv, fv, hF]
  rw [this]

theorem selConvF_fmt (dp : Bytes → Option Int) (ft : Nat) (b : Bytes) (nc : Caps) (hF : fieldVals nc "Format" = []) :
    selConvF dp ft (optStr (sv (("Format", [.str b]) :: nc)) "Format") (("Format", [.str b]) :: nc) = selConvF dp ft (some b) nc := by
  have : optStr (sv (("Format", [.str b]) :: nc)) "Format" = some b := by simp [optStr, sv, fv, fieldVals_cons_eq, hF, strs]
  rw [this]
  simp only [selConvF, fSrc_skip ft "Format" [.str b] nc (by decide), fRng0_skip dp "Format" [.str b] nc (by decide),
    fWh_skip ft "Format" [.str b] nc (by decide), fPos_skip "Format" [.str b] nc (by decide), fOff_skip "Format" [.str b] nc (by decide),
    fLim_skip "Format" [.str b] nc (by decide)]

theorem checked_select (dp : Bytes → Option Int) (ft : Nat) (caps : Caps) :
    toLqlChecked dp ft (.node "Lql" [("Select", [.node "Select" caps])]) =
      (selConvF dp ft (optStr (sv caps) "Format") caps).bind (fun s => postCheck ({ select := some s } : Lql)) := by
  rw [toLqlChecked, toLql_select]
  cases selConvF dp ft (optStr (sv caps) "Format") caps <;> rfl

/-! ## struct `Select` -/
def selectBody : Node := .seq [optG (.capture "Format" (.ref .string)), optG (kwSeq kwFROM "Source" (.strct "Source")),
  optG (kwSeq kwRANGE "Range" (.strct "Range")), optG (kwSeq kwWHERE "Where" (.strct "Expression")),
  optG (kwSeq kwPOSITION "Position" (.strct "Position")), optG (kwSeq kwOFFSET "Offset" (.ref .number)), optG (kwSeq kwLIMIT "Limit" (.ref .number))]
theorem g_select : grammar "Select" = some selectBody := rfl
theorem selectBody_eq : selectBody = .seq (optG (.capture "Format" (.ref .string)) :: clauseList selClauses) := rfl

def wrapS (name : String) (R : Res) : Res :=
  match R with
  | .ok _ caps cur' => .ok [.node name caps] [] cur'
  | .noMatch => .noMatch
  | .err k _ => .err k true

/-- the three outcomes of the engine on struct `Select` that matter at the top level -/
def SelOut (c : Ctx) (dp : Bytes → Option Int) (ft : Nat) (cur : Nat) (R : Res) (d : Option Select) : Prop :=
  (R = .noMatch ∧ (cur = c.toks.length ∨ (cur < c.toks.length ∧ d = none)))
  ∨ (∃ caps, R = .ok [.node "Select" caps] [] c.toks.length
      ∧ toLqlChecked dp ft (.node "Lql" [("Select", [.node "Select" caps])]) = d.map (fun s => ({ select := some s } : Lql))
      ∧ ∀ s, d = some s → isEmptySelect s = false)
  ∨ (d = none ∧ ((∃ k, R = .err k true ∧ cur + 2 ≤ k) ∨ (∃ v cur', R = .ok v [] cur' ∧ cur ≤ cur' ∧ cur' < c.toks.length)))

theorem selOut_of_tail (c : Ctx) (dp : Bytes → Option Int) (ft fd : Nat) (cur cur' : Nat) (hcc : cur ≤ cur')
    (v0 : List Val) (c0 : Caps) (fmt : Option Bytes) (Rs : Res)
    (hv0 : (v0 = [] ↔ fmt = none)) (hcur : v0 = [] → cur' = cur)
    (hconv : ∀ nc, fieldVals nc "Format" = [] →
      selConvF dp ft (optStr (sv (c0 ++ nc)) "Format") (c0 ++ nc) = selConvF dp ft fmt nc)
    (ht : TailSim c cur' v0 c0 Rs (D2 dp fd (c.toks.drop cur')) (G2 dp ft) selNames (emC (emC (emC (emC (emC (emC emEnd))))))) :
    SelOut c dp ft cur (wrapS "Select" Rs)
      ((D2 dp fd (c.toks.drop cur')).map (buildSel fmt)) := by
  rcases ht with ⟨nv, nc, hR, hnm, hgd, hnv, hem⟩ | ⟨hD, hbad⟩
  · by_cases he : (v0 ++ nv) = []
    · have h1 : v0 = [] := (List.append_eq_nil_iff.mp he).1
      have h2 : nv = [] := (List.append_eq_nil_iff.mp he).2
      left
      refine ⟨by rw [hR]; simp [finR, he, wrapS], Or.inl ?_⟩
      rw [← hcur h1]; exact hnv h2
    · right; left
      have hne : (v0 ++ nv).isEmpty = false := isEmpty_false_of_ne he
      refine ⟨c0 ++ nc, by rw [hR]; simp [finR, hne, wrapS], ?_, ?_⟩
      · rw [checked_select, hconv nc (fieldVals_names "Format" selNames (by decide) nc hnm), selConv_core, hgd]
        cases D2 dp fd (c.toks.drop cur') <;> rfl
      · intro s hs
        cases hx : D2 dp fd (c.toks.drop cur') with
        | none => rw [hx] at hs; cases hs
        | some x =>
          rw [hx] at hs
          simp only [Option.map_some, Option.some.injEq] at hs
          subst hs
          rw [isEmpty_buildSel]
          cases fmt with
          | some b => rfl
          | none =>
            have h1 : v0 = [] := hv0.mpr rfl
            have h2 : nv ≠ [] := fun h => he (by rw [h1, h]; rfl)
            have := hem x hx
            cases hb : emC (emC (emC (emC (emC (emC emEnd))))) x with
            | false => rfl
            | true => exact absurd (this.mp hb) h2
  · have hd : (D2 dp fd (c.toks.drop cur')).map (buildSel fmt) = none := by rw [hD]; rfl
    rcases hbad with ⟨k, hv, hR, hk⟩ | ⟨vals', caps', cur2, hR, h3, h4⟩
    · right; right; exact ⟨hd, Or.inl ⟨k, by rw [hR]; rfl, by omega⟩⟩
    · by_cases he : vals'.isEmpty = true
      · left; exact ⟨by rw [hR]; simp [finR, he, wrapS], Or.inr ⟨by omega, hd⟩⟩
      · right; right
        exact ⟨hd, Or.inr ⟨[.node "Select" caps'], cur2, by rw [hR]; simp [finR, he, wrapS], by omega, h4⟩⟩

theorem select_struct (c : Ctx) (hg : c.grammar = grammar) (hH : OperandNotParen c.toks) (dp : Bytes → Option Int) (ft : Nat)
    (hft : 8 * c.toks.length + 8 ≤ ft) (fd : Nat) (hfd : 4 * c.toks.length + 5 ≤ fd) (cur : Nat) (hcl : cur ≤ c.toks.length)
    (fe : Nat) (hfe : 60 * (c.toks.length - cur) + 80 ≤ fe) :
    SelOut c dp ft cur (parse c fe (.strct "Select") cur) (dSelectBody dp fd (c.toks.drop cur)) := by
  obtain ⟨f, rfl⟩ : ∃ f, fe = f + 3 := ⟨fe - 3, by omega⟩
  rw [parse_strct c _ "Select" selectBody cur (by rw [hg]; rfl), selectBody_eq, parse_seq, parseSeq_cons,
    optcap_eq c "Format" f cur (by omega), dSelectBody_eq]
  cases hn : c.toks[cur]? with
  | none =>
    have hfmt : dOptFormat (c.toks.drop cur) = (none, c.toks.drop cur) := by rw [drop_of_none hn]; rfl
    rw [hfmt]
    have ht := sim_l2 c hg hH dp ft hft fd hfd f cur hcl (by omega) false [] []
    exact selOut_of_tail c dp ft fd cur cur (Nat.le_refl _) [] [] none _ (by simp) (fun _ => rfl)
      (fun nc h => by simpa using selConvF_nil dp ft nc h) ht
  | some q =>
    have hlt := lt_of_get hn
    by_cases hs : (q.t == TT.string) = true
    · have hfmt : dOptFormat (c.toks.drop cur) = (some q.v, c.toks.drop (cur+1)) := by
        rw [drop_of_get hn]; simp [dOptFormat, hs]
      rw [hfmt]
      simp only [hs, if_true]
      have ht := sim_l2 c hg hH dp ft hft fd hfd f (cur+1) (by omega) (by omega) false [.str []] [("Format", [.str q.v])]
      exact selOut_of_tail c dp ft fd cur (cur+1) (by omega) [.str []] [("Format", [.str q.v])] (some q.v) _ (by simp)
        (fun h => by cases h) (fun nc h => by simpa using selConvF_fmt dp ft q.v nc h) ht
    · have hfmt : dOptFormat (c.toks.drop cur) = (none, c.toks.drop cur) := by
        rw [drop_of_get hn]; simp [dOptFormat, hs]
      rw [hfmt]
      simp only [hs]
      have ht := sim_l2 c hg hH dp ft hft fd hfd f cur hcl (by omega) false [] []
      exact selOut_of_tail c dp ft fd cur cur (Nat.le_refl _) [] [] none _ (by simp) (fun _ => rfl)
        (fun nc h => by simpa using selConvF_nil dp ft nc h) ht

/-! ## top level -/
theorem lql_select_eval (t : Tok) (r : List Tok) (g : Nat) (h1 : litMatch t kwSELECT = true) :
    parse ⟨t :: r, grammar⟩ (g + 30) (.strct "Lql") 0 = altRes "Lql" "Select" 0 (parse ⟨t :: r, grammar⟩ (g+20) (.strct "Select") 1) := by
  have hn : (⟨t :: r, grammar⟩ : Ctx).toks[0]? = some t := rfl
  rw [parse_strct _ _ "Lql" lqlBody 0 rfl]
  simp only [lqlBody, parse_once, parse_disj]
  exact disj_hit _ 0 t hn _ _ _ _ (g+19) h1

/-- **engine = direct parser on `SELECT` statements** -/
theorem engine_direct_select (dp : Bytes → Option Int) (ft : Nat) (t : Tok) (r : List Tok)
    (hH : OperandNotParen (t :: r)) (hft : 8 * (t :: r).length + 50 ≤ ft)
    (h1 : litMatch t kwSELECT = true) :
    (runEngine grammar "Lql" (t :: r)).bind (toLqlChecked dp ft) = dSelectRest dp (directFuel (t :: r)) r := by
  rw [run_lql]
  obtain ⟨g, hg⟩ : ∃ g, 60 * (t :: r).length + 200 = g + 30 := ⟨60 * (t :: r).length + 170, rfl⟩
  rw [hg, lql_select_eval t r g h1]
  have hs := select_struct ⟨t :: r, grammar⟩ rfl hH dp ft (by simp only [List.length_cons] at hft ⊢; omega)
    (directFuel (t :: r)) (by simp only [directFuel, List.length_cons]; omega) 1 (by simp) (g+20)
    (by simp only [List.length_cons] at hg ⊢; omega)
  have hdrop : (⟨t :: r, grammar⟩ : Ctx).toks.drop 1 = r := rfl
  have hlen : (⟨t :: r, grammar⟩ : Ctx).toks.length = r.length + 1 := rfl
  rw [hdrop] at hs
  generalize parse ⟨t :: r, grammar⟩ (g+20) (.strct "Select") 1 = R at hs ⊢
  unfold dSelectRest
  rcases hs with ⟨rfl, hcase⟩ | ⟨caps, rfl, hconv, hne⟩ | ⟨hd, hbad⟩
  · rcases hcase with hl | ⟨hlt, hd⟩
    · have : r = [] := by
        cases r with
        | nil => rfl
        | cons a b => rw [hlen] at hl; simp at hl
      subst this
      simp [altRes, topRes, toLqlChecked, toLql, optNode, fv, fieldVals, postCheck, hasEmptyRange, dSelectBody, dOptFormat,
        dKwClause, isEmptySelect]
    · rw [hd, hlen] at *
      simp [altRes, topRes]
      intro h; subst h; simp at hlt
  · rw [hlen]
    cases hd : dSelectBody dp (directFuel (t :: r)) r with
    | none =>
      rw [hd] at hconv
      simp only [altRes, topRes, List.length_cons, beq_self_eq_true, if_true, Option.bind_some, List.nil_append]
      exact hconv
    | some s =>
      rw [hd] at hconv
      simp only [altRes, topRes, List.length_cons, beq_self_eq_true, if_true, Option.bind_some, List.nil_append, hne s hd]
      exact hconv
  · rw [hd]
    rcases hbad with ⟨k, rfl, hk⟩ | ⟨v, cur', rfl, h2, h3⟩
    · have hgt : k > 0 + 1 + lookahead := by simp only [lookahead]; omega
      simp [altRes, topRes, hgt]
    · rw [hlen] at h3
      simp [altRes, topRes]
      intro h; omega

end Logrange.Lql
