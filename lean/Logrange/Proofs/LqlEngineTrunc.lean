import Logrange.Proofs.LqlEngineStmt
/-!
# C12: engine = direct parser at statement level — TRUNCATE and SHOW

`engine_direct_truncate`, `engine_direct_show`: the participle-engine interpreter on the regenerated grammar (root `Lql`), followed by
the typed application of the captures and the post-check, equals `dTruncateRest` / `dShowRest`.

Pieces: the struct bodies pinned by `rfl` (`g_truncate`, `g_show`, `g_partitions`, `g_pipes`); a generic chain of guarded clauses
`("KW" @Tok)?` (`clause_step`, `chain_skip`, `chain_sim`, `chain_finish`) against a raw (unconverted) reading `rawKw`/`rawChain`;
the unguarded `(@@)?` source followed by such a chain (`src_chain`), with the delicate point that a HARD error of the source attempt
kills the engine's parse while `dOptSource` just returns "no source": `source_shallow` shows that outside the token configurations
`deepStart` (NOT…, `(`…, operand followed by `(` or an operator) the attempt fails within one token, and `deep4`/`deep2` show that on
those configurations the direct clause chain fails too — for `BEFORE` this needs the hypothesis `hdp` (the opaque date parser rejects
the texts `(` and the ten operators; `cex_truncate_dp` shows the statement is false without it); the direct clause readers as raw
reading + conversion (`dSize_raw`, `dDate_raw`, `dInt_raw`, `glue4`, `glue2`); the conversions (`toLql_trunc`, `truncConv_caps`,
`toLql_show_part`, `toLql_show_pipes`, `polConv_caps`).
-/
namespace Logrange.Lql
open Logrange.Generated.C12

def truncateBody : Node := .seq [optG (.capture "DryRun" (.lit kwDRYRUN)), optG (.capture "Source" (.strct "Source")),
  optG (kwSeq kwMINSIZE "MinSize" (.ref .number)), optG (kwSeq kwMAXSIZE "MaxSize" (.ref .number)),
  optG (kwSeq kwBEFORE "Before" (.ref .string)), optG (kwSeq kwMAXDBSIZE "MaxDbSize" (.ref .number))]
def showBody : Node := .group (.disj [kwAlt kwPARTITIONS "Partitions" "Partitions", kwAlt kwPIPES "Pipes" "Pipes"]) .once
def partitionsBody : Node := .seq [optG (.capture "Source" (.strct "Source")), optG (kwSeq kwOFFSET "Offset" (.ref .number)), optG (kwSeq kwLIMIT "Limit" (.ref .number))]
def pipesBody : Node := .seq [optG (.capture "Void" (.strct "Source")), optG (kwSeq kwOFFSET "Offset" (.ref .number)), optG (kwSeq kwLIMIT "Limit" (.ref .number))]
theorem g_truncate : grammar "Truncate" = some truncateBody := rfl
theorem g_show : grammar "Show" = some showBody := rfl
theorem g_partitions : grammar "Partitions" = some partitionsBody := rfl
theorem g_pipes : grammar "Pipes" = some pipesBody := rfl

theorem lql_truncate_eval (t : Tok) (r : List Tok) (g : Nat)
    (h1 : litMatch t kwSELECT = false) (h2 : litMatch t kwDESCRIBE = false) (h3 : litMatch t kwTRUNCATE = true) :
    parse ⟨t :: r, grammar⟩ (g + 30) (.strct "Lql") 0 = altRes "Lql" "Truncate" 0 (parse ⟨t :: r, grammar⟩ (g+18) (.strct "Truncate") 1) := by
  have hn : (⟨t :: r, grammar⟩ : Ctx).toks[0]? = some t := rfl
  rw [parse_strct _ _ "Lql" lqlBody 0 rfl]
  simp only [lqlBody, parse_once, parse_disj]
  rw [disj_skip _ 0 t hn _ _ _ _ (g+23) _ h1, disj_skip _ 0 t hn _ _ _ _ (g+22) _ h2]
  exact disj_hit _ 0 t hn _ _ _ _ (g+17) h3

theorem lql_show_eval (t : Tok) (r : List Tok) (g : Nat)
    (h1 : litMatch t kwSELECT = false) (h2 : litMatch t kwDESCRIBE = false) (h3 : litMatch t kwTRUNCATE = false)
    (h4 : litMatch t kwSHOW = true) :
    parse ⟨t :: r, grammar⟩ (g + 30) (.strct "Lql") 0 = altRes "Lql" "Show" 0 (parse ⟨t :: r, grammar⟩ (g+17) (.strct "Show") 1) := by
  have hn : (⟨t :: r, grammar⟩ : Ctx).toks[0]? = some t := rfl
  rw [parse_strct _ _ "Lql" lqlBody 0 rfl]
  simp only [lqlBody, parse_once, parse_disj]
  rw [disj_skip _ 0 t hn _ _ _ _ (g+23) _ h1, disj_skip _ 0 t hn _ _ _ _ (g+22) _ h2, disj_skip _ 0 t hn _ _ _ _ (g+21) _ h3]
  exact disj_hit _ 0 t hn _ _ _ _ (g+16) h4

/-! ## a chain of guarded optional clauses `("KW" @Tok)?` -/
abbrev Cl := Bytes × String × TT
def clNode (x : Cl) : Node := optG (kwSeq x.1 x.2.1 (.ref x.2.2))

/-- the raw (unconverted) direct reading of one guarded clause -/
def rawKw (kw : Bytes) (ty : TT) : List Tok → Option (Option Bytes × List Tok)
  | [] => some (none, [])
  | t :: rest =>
    if litMatch t kw then
      match rest with
      | n :: rest' => if n.t == ty then some (some n.v, rest') else none
      | [] => none
    else some (none, t :: rest)

def rawChain : List Cl → List Tok → Option (List (Option Bytes) × List Tok)
  | [], toks => some ([], toks)
  | x :: cls, toks =>
    match rawKw x.1 x.2.2 toks with
    | none => none
    | some (ob, rest) => (match rawChain cls rest with | none => none | some (obs, rest') => some (ob :: obs, rest'))

def obCaps (fl : String) : Option Bytes → Caps
  | some b => [(fl, [Val.str b])]
  | none => []

def rawCaps : List Cl → List (Option Bytes) → Caps
  | [], _ => []
  | x :: cls, obs =>
    match obs with
    | [] => []
    | ob :: obs' => obCaps x.2.1 ob ++ rawCaps cls obs'

theorem clause_step (c : Ctx) (kw : Bytes) (fl : String) (ty : TT) (f cur : Nat) (hcl : cur ≤ c.toks.length) :
    ∃ vals cp cur', parse c (f+7) (optG (kwSeq kw fl (.ref ty))) cur = .ok vals cp cur' ∧
      match rawKw kw ty (c.toks.drop cur) with
      | some (ob, rest) => cp = obCaps fl ob ∧ rest = c.toks.drop cur' ∧ cur ≤ cur' ∧ cur' ≤ c.toks.length
      | none => cur' = cur ∧ cp = [] ∧ ∃ t, c.toks[cur]? = some t ∧ litMatch t kw = true := by
  cases hn : c.toks[cur]? with
  | none =>
    rw [drop_of_none hn]
    exact ⟨[], [], cur, clause_none c kw fl _ (f+2) cur hn, by simp [obCaps], by simp [drop_of_none hn], Nat.le_refl _, hcl⟩
  | some t =>
    have hlt := lt_of_get hn
    rw [drop_of_get hn]
    cases hc : litMatch t kw with
    | false =>
      refine ⟨[], [], cur, clause_nolit c kw fl _ (f+2) cur t hn hc, ?_⟩
      simp only [rawKw, hc, Bool.false_eq_true, if_false]
      exact ⟨rfl, (drop_of_get hn).symm, Nat.le_refl _, hcl⟩
    | true =>
      rw [clause_lit c kw fl _ f cur t hn hc, parse_ref]
      simp only [rawKw, hc, if_true, peek]
      cases hn2 : c.toks[cur+1]? with
      | none =>
        rw [drop_of_none hn2]
        exact ⟨_, _, _, rfl, rfl, rfl, t, rfl, hc⟩
      | some n =>
        have hlt2 := lt_of_get hn2
        rw [drop_of_get hn2]
        by_cases hty : n.t = ty
        · simp only [hty, beq_self_eq_true, if_true]
          exact ⟨_, _, _, rfl, by simp [obCaps], rfl, by omega, by omega⟩
        · have hty' : (n.t == ty) = false := by simpa using hty
          simp only [hty', Bool.false_eq_true, if_false]
          exact ⟨_, _, _, rfl, rfl, rfl, t, rfl, hc⟩

theorem isEmpty_app {α : Type} {a : List α} (b : List α) (h : a.isEmpty = false) : (a ++ b).isEmpty = false := by
  cases a with
  | nil => simp at h
  | cons _ _ => rfl

def exclB (a b : Bytes) : Bool := !(a == b) && !(eqFold a b)
theorem litMatch_exclB (tk : Tok) (a b : Bytes) (h : exclB a b = true) (ha : litMatch tk a = true) : litMatch tk b = false := by
  simp only [exclB, Bool.and_eq_true, Bool.not_eq_true'] at h
  exact litMatch_excl tk a b h.1 h.2 ha

def ExclKw : List Cl → Bool
  | [] => true
  | x :: cls => cls.all (fun y => exclB x.1 y.1) && ExclKw cls

theorem chain_skip (c : Ctx) (t : Tok) (cur : Nat) (hn : c.toks[cur]? = some t) :
    ∀ (cls : List Cl), (∀ x ∈ cls, litMatch t x.1 = false) → ∀ (fe : Nat) (first : Bool) (vals : List Val) (caps : Caps),
      cls.length + 6 ≤ fe → vals.isEmpty = false →
      parseSeq c fe (cls.map clNode) cur first vals caps = .ok vals caps cur
  | [], _, fe, first, vals, caps, hfe, hv => by
    obtain ⟨g, rfl⟩ : ∃ g, fe = g + 1 := ⟨fe - 1, by simp at hfe; omega⟩
    simp [parseSeq_nil, hv]
  | x :: cls, hx, fe, first, vals, caps, hfe, hv => by
    obtain ⟨g, rfl⟩ : ∃ g, fe = g + 6 := ⟨fe - 6, by simp at hfe; omega⟩
    have h1 : litMatch t x.1 = false := hx x List.mem_cons_self
    have ih := chain_skip c t cur hn cls (fun y hy => hx y (List.mem_cons_of_mem _ hy)) (g+5) false vals caps (by simp at hfe; omega) hv
    simp only [List.map_cons, parseSeq_cons, clNode]
    rw [clause_nolit c x.1 x.2.1 _ g cur t hn h1]
    simpa using ih

theorem chain_sim (c : Ctx) : ∀ (cls : List Cl), ExclKw cls = true → ∀ (cur fe : Nat) (first : Bool) (vals : List Val) (caps : Caps),
    cur ≤ c.toks.length → cls.length + 8 ≤ fe → vals.isEmpty = false →
    ∃ vals' caps' cur', parseSeq c fe (cls.map clNode) cur first vals caps = .ok vals' caps' cur' ∧ vals'.isEmpty = false ∧
      match rawChain cls (c.toks.drop cur) with
      | some (obs, rest) => caps' = caps ++ rawCaps cls obs ∧ rest = c.toks.drop cur' ∧ cur' ≤ c.toks.length
      | none => cur' < c.toks.length
  | [], _, cur, fe, first, vals, caps, hcl, hfe, hv => by
    obtain ⟨g, rfl⟩ : ∃ g, fe = g + 1 := ⟨fe - 1, by simp at hfe; omega⟩
    exact ⟨vals, caps, cur, by simp [parseSeq_nil, hv], hv, by simp [rawCaps], rfl, hcl⟩
  | x :: cls, hex, cur, fe, first, vals, caps, hcl, hfe, hv => by
    obtain ⟨g, rfl⟩ : ∃ g, fe = g + 8 := ⟨fe - 8, by simp at hfe; omega⟩
    simp only [ExclKw, Bool.and_eq_true, List.all_eq_true] at hex
    obtain ⟨vals1, cp, cur1, heq, hcls⟩ := clause_step c x.1 x.2.1 x.2.2 g cur hcl
    simp only [List.map_cons, parseSeq_cons, clNode]
    rw [heq]
    simp only [rawChain]
    cases hr : rawKw x.1 x.2.2 (c.toks.drop cur) with
    | none =>
      rw [hr] at hcls
      obtain ⟨rfl, rfl, t, hn, hc⟩ := hcls
      have hsk := chain_skip c t cur1 hn cls (fun y hy => litMatch_exclB t x.1 y.1 (hex.1 y hy) hc) (g+7) false (vals ++ vals1) (caps ++ [])
        (by simp at hfe; omega) (isEmpty_app _ hv)
      exact ⟨_, _, _, hsk, isEmpty_app _ hv, lt_of_get hn⟩
    | some p =>
      obtain ⟨ob, rest⟩ := p
      rw [hr] at hcls
      obtain ⟨rfl, rfl, h1, h2⟩ := hcls
      obtain ⟨vals', caps', cur', heq2, hv2, hm⟩ := chain_sim c cls hex.2 cur1 (g+7) false (vals ++ vals1) (caps ++ obCaps x.2.1 ob) h2
        (by simp at hfe; omega) (isEmpty_app _ hv)
      refine ⟨vals', caps', cur', heq2, hv2, ?_⟩
      simp only []
      cases hr2 : rawChain cls (c.toks.drop cur1) with
      | none => rw [hr2] at hm; exact hm
      | some q =>
        obtain ⟨obs, rest'⟩ := q
        rw [hr2] at hm
        obtain ⟨rfl, hrest, hle⟩ := hm
        exact ⟨by simp [rawCaps], hrest, hle⟩

/-! ## the unguarded source: when the attempt fails softly -/

/-- the token configurations in which the `Source` attempt can get further than one token -/
def deepStart : List Tok → Bool
  | [] => false
  | t :: rest => litMatch t kwNOT || litMatch t LP ||
      (isOperandTok t && (match rest with | n :: _ => litMatch n LP || isOpTok n | [] => false))

theorem ident_nonop (c : Ctx) (hg : c.grammar = grammar) (g cur : Nat)
    (h : ∀ tk, c.toks[cur]? = some tk → isOperandTok tk = false) : parse c (g+20) (.strct "Identifier") cur = .noMatch := by
  rw [parse_strct c _ "Identifier" identBody cur (by rw [hg]; rfl)]
  cases hn : c.toks[cur]? with
  | none => simp only [identBody, parse_seq, parseSeq_cons, op_step_none c _ cur hn, if_true]
  | some tk => simp only [identBody, parse_seq, parseSeq_cons, op_step c _ cur tk hn, h tk hn, if_true, Bool.false_eq_true, if_false]

theorem ident_plain (c : Ctx) (hg : c.grammar = grammar) (g cur : Nat) (tk : Tok) (hn : c.toks[cur]? = some tk)
    (hop : isOperandTok tk = true) (hnx : ∀ p, c.toks[cur+1]? = some p → litMatch p LP = false) :
    parse c (g+20) (.strct "Identifier") cur = .ok [.node "Identifier" [("Operand", [.str tk.v])]] [] (cur+1) := by
  rw [parse_strct c _ "Identifier" identBody cur (by rw [hg]; rfl)]
  cases hnext : c.toks[cur+1]? with
  | none =>
    simp [identBody, parse_seq, parseSeq_cons, parseSeq_nil, op_step c _ cur tk hn, hop, parse_opt, parse_once, parse_lit, peek, hnext]
  | some p =>
    have hlp : litMatch p [40] = false := hnx p hnext
    simp [identBody, parse_seq, parseSeq_cons, parseSeq_nil, op_step c _ cur tk hn, hop, parse_opt, parse_once, parse_lit, peek, hnext, hlp]

theorem cond_nonop (c : Ctx) (hg : c.grammar = grammar) (g cur : Nat)
    (h : ∀ tk, c.toks[cur]? = some tk → isOperandTok tk = false) : parse c (g+40) (.strct "Condition") cur = .noMatch := by
  rw [parse_strct c _ "Condition" condBody cur (by rw [hg]; rfl)]
  have hi : parse c (g+36) (.strct "Identifier") cur = .noMatch := ident_nonop c hg (g+16) cur h
  simp only [condBody, parse_seq, parseSeq_cons, parse_capture, hi, if_true]

theorem cond_plain (c : Ctx) (hg : c.grammar = grammar) (g cur : Nat) (tk : Tok) (hn : c.toks[cur]? = some tk)
    (hop : isOperandTok tk = true) (hnx : ∀ p, c.toks[cur+1]? = some p → litMatch p LP = false ∧ isOpTok p = false) :
    parse c (g+40) (.strct "Condition") cur = .err (cur+1) true := by
  rw [parse_strct c _ "Condition" condBody cur (by rw [hg]; rfl)]
  have hi : parse c (g+36) (.strct "Identifier") cur = _ := ident_plain c hg (g+16) cur tk hn hop (fun p hp => (hnx p hp).1)
  cases hnext : c.toks[cur+1]? with
  | none =>
    have ho : parse c (g+36) opGroup (cur+1) = .noMatch := opGroup_none c (g+20) (cur+1) hnext
    simp [condBody, parse_seq, parseSeq_cons, parse_capture, hi, ho]
  | some p =>
    have ho : parse c (g+36) opGroup (cur+1) = .noMatch := by
      have h := opGroup_some c (g+20) (cur+1) p hnext; simp [(hnx p hnext).2] at h; exact h
    simp [condBody, parse_seq, parseSeq_cons, parse_capture, hi, ho]

theorem x_shallow (c : Ctx) (hg : c.grammar = grammar) (g cur : Nat) (hsh : deepStart (c.toks.drop cur) = false) :
    ∃ k, parse c (g+50) (.strct "XCondition") cur = .err k true ∧ k ≤ cur + 1 := by
  rw [parse_strct c _ "XCondition" xBody cur (by rw [hg]; rfl)]
  simp only [xBody, parse_seq, parseSeq_cons, notGroup, parse_opt, parse_capture, parse_lit, peek]
  cases hn : c.toks[cur]? with
  | none =>
    have hc : parse c (g+42) (.strct "Condition") cur = .noMatch := cond_nonop c hg (g+2) cur (fun tk h => by rw [hn] at h; cases h)
    have hp : parse c (g+42) parenSeq cur = .noMatch := paren_none c (g+39) cur hn
    exact ⟨cur, by simp [altGroup, parse_once, parse_disj, parseDisj_cons, parseDisj_nil, parse_capture, hc, hp], by omega⟩
  | some t =>
    rw [drop_of_get hn] at hsh
    simp only [deepStart, Bool.or_eq_false_iff, Bool.and_eq_false_iff] at hsh
    obtain ⟨⟨hnot, hlp⟩, hop⟩ := hsh
    have hnot' : litMatch t [78, 79, 84] = false := hnot
    have hp : parse c (g+42) parenSeq cur = .noMatch := paren_nolit c (g+39) cur t hn hlp
    cases hot : isOperandTok t with
    | false =>
      have hc : parse c (g+42) (.strct "Condition") cur = .noMatch :=
        cond_nonop c hg (g+2) cur (fun tk h => by rw [hn] at h; cases h; exact hot)
      exact ⟨cur, by simp [altGroup, parse_once, parse_disj, parseDisj_cons, parseDisj_nil, parse_capture, hc, hp, hnot'], by omega⟩
    | true =>
      have hnx : ∀ p, c.toks[cur+1]? = some p → litMatch p LP = false ∧ isOpTok p = false := by
        intro p hp
        rw [drop_of_get hp] at hop
        rcases hop with h | h
        · rw [hot] at h; cases h
        · simpa using h
      have hc : parse c (g+42) (.strct "Condition") cur = .err (cur+1) true := cond_plain c hg (g+2) cur t hn hot hnx
      exact ⟨cur+1, by simp [altGroup, parse_once, parse_disj, parseDisj_cons, parseDisj_nil, parse_capture, hc, hp, hnot', lookahead], by omega⟩

theorem source_shallow (c : Ctx) (hg : c.grammar = grammar) (g cur : Nat) (hsh : deepStart (c.toks.drop cur) = false)
    (hnt : ∀ t, c.toks[cur]? = some t → t.t ≠ TT.tags) :
    ∃ k, parse c (g+71) (.strct "Source") cur = .err k true ∧ k ≤ cur + 1 := by
  obtain ⟨k, hx, hk⟩ := x_shallow c hg (g+8) cur hsh
  have hx' : parse c (g+58) (.strct "XCondition") cur = .err k true := hx
  have ho : parse c (g+62) (.strct "OrCondition") cur = .err k true := by
    rw [parse_strct c _ "OrCondition" orBody cur (by rw [hg]; rfl)]
    simp [orBody, parse_seq, parseSeq_cons, parse_capture, hx']
  have he : parse c (g+66) (.strct "Expression") cur = .err k true := by
    rw [parse_strct c _ "Expression" exprBody cur (by rw [hg]; rfl)]
    simp [exprBody, parse_seq, parseSeq_cons, parse_capture, ho]
  refine ⟨k, ?_, hk⟩
  rw [parse_strct c _ "Source" sourceBody cur (by rw [hg]; rfl)]
  have hkk : ¬ (k > cur + lookahead) := by simp only [lookahead]; omega
  cases hn : c.toks[cur]? with
  | none => simp [sourceBody, parse_disj, parseDisj_cons, parseDisj_nil, parse_capture, parse_ref, peek, hn, he, hkk]
  | some t =>
    have ht : (t.t == TT.tags) = false := by simpa using hnt t hn
    simp [sourceBody, parse_disj, parseDisj_cons, parseDisj_nil, parse_capture, parse_ref, peek, hn, he, hkk, ht]

theorem src_step_ok (c : Ctx) (fl : String) (ns : List Node) (g s : Nat) (first : Bool) (vals0 : List Val) (caps0 : Caps)
    (v : Val) (cur' : Nat) (h : parse c g (.strct "Source") s = .ok [v] [] cur') :
    parseSeq c (g+4) (optG (.capture fl (.strct "Source")) :: ns) s first vals0 caps0
      = parseSeq c (g+3) ns cur' false (vals0 ++ [.str []]) (caps0 ++ [(fl, [v])]) := by
  simp [parseSeq_cons, parse_optG, parse_capture, h]
theorem src_step_soft (c : Ctx) (fl : String) (ns : List Node) (g s : Nat) (first : Bool) (vals0 : List Val) (caps0 : Caps)
    (k : Nat) (h : parse c g (.strct "Source") s = .err k true) (hk : k ≤ s + 1) :
    parseSeq c (g+4) (optG (.capture fl (.strct "Source")) :: ns) s first vals0 caps0
      = parseSeq c (g+3) ns s false (vals0 ++ [.str []]) caps0 := by
  have hkk : ¬ (k > s + lookahead) := by simp only [lookahead]; omega
  simp [parseSeq_cons, parse_optG, parse_capture, h, hkk]
theorem src_step_hard (c : Ctx) (fl : String) (ns : List Node) (g s : Nat) (first : Bool) (vals0 : List Val) (caps0 : Caps)
    (k : Nat) (h : parse c g (.strct "Source") s = .err k true) (hk : s + 1 < k) :
    parseSeq c (g+4) (optG (.capture fl (.strct "Source")) :: ns) s first vals0 caps0 = .err k true := by
  have hkk : k > s + lookahead := by simp only [lookahead]; omega
  simp [parseSeq_cons, parse_optG, parse_capture, h, hkk]

/-- the clause chain run to its end: either tokens are left (and the raw direct chain does not consume everything either), or
everything is consumed with exactly the raw chain's captures -/
theorem chain_finish (c : Ctx) (cls : List Cl) (hex : ExclKw cls = true) (cur fe : Nat) (vals : List Val) (caps : Caps)
    (hcl : cur ≤ c.toks.length) (hfe : cls.length + 8 ≤ fe) (hv : vals.isEmpty = false) :
    (∃ vals' caps' cur', parseSeq c fe (cls.map clNode) cur false vals caps = .ok vals' caps' cur' ∧ cur' < c.toks.length ∧
        ∀ obs, rawChain cls (c.toks.drop cur) ≠ some (obs, []))
    ∨ (∃ vals' obs, parseSeq c fe (cls.map clNode) cur false vals caps = .ok vals' (caps ++ rawCaps cls obs) c.toks.length ∧
        vals'.isEmpty = false ∧ rawChain cls (c.toks.drop cur) = some (obs, [])) := by
  obtain ⟨vals', caps', cur', heq, hv', hm⟩ := chain_sim c cls hex cur fe false vals caps hcl hfe hv
  cases hr : rawChain cls (c.toks.drop cur) with
  | none =>
    rw [hr] at hm
    left; exact ⟨vals', caps', cur', heq, hm, fun obs h => by cases h⟩
  | some p =>
    obtain ⟨obs, rest⟩ := p
    rw [hr] at hm
    obtain ⟨rfl, hrest, hle⟩ := hm
    by_cases hc : cur' = c.toks.length
    · subst hc
      right; refine ⟨vals', obs, heq, hv', ?_⟩
      rw [hrest]; simp
    · left; refine ⟨vals', _, cur', heq, by omega, fun obs' h => ?_⟩
      simp only [Option.some.injEq, Prod.mk.injEq] at h
      have : (c.toks.drop cur').length = 0 := by rw [← hrest, h.2]; rfl
      simp only [List.length_drop] at this; omega

def srcCaps (fl : String) : List Val → Caps
  | [] => []
  | v :: vs => [(fl, v :: vs)]
/-- the source field as `optSource` converts it -/
def srcConv (ft : Nat) : List Val → Option (Option Source)
  | [] => some none
  | [v] => (toSource ft v).map some
  | _ => none

/-- the outcome of `(@@)? clauses…` run by the engine vs `dOptSource` and the raw chain -/
def SrcChainRel (c : Ctx) (fl : String) (cls : List Cl) (s fd ft : Nat) (caps0 : Caps) (R : Res) : Prop :=
  (((∃ k hv, R = .err k hv ∧ s + 1 < k) ∨ (∃ vals' caps' cur', R = .ok vals' caps' cur' ∧ cur' < c.toks.length)) ∧
    (dOptSource fd (c.toks.drop s) = none
     ∨ (dOptSource fd (c.toks.drop s) = some (none, c.toks.drop s) ∧ deepStart (c.toks.drop s) = true)
     ∨ (∃ osrc rest, dOptSource fd (c.toks.drop s) = some (osrc, rest) ∧ ∀ obs, rawChain cls rest ≠ some (obs, []))))
  ∨ (∃ vals' sv rest obs, R = .ok vals' (caps0 ++ srcCaps fl sv ++ rawCaps cls obs) c.toks.length ∧ vals'.isEmpty = false ∧
      dOptSource fd (c.toks.drop s) = (srcConv ft sv).map (fun o => (o, rest)) ∧ rawChain cls rest = some (obs, []))

theorem src_chain (c : Ctx) (hg : c.grammar = grammar) (hH : OperandNotParen c.toks) (fl : String) (cls : List Cl)
    (hex : ExclKw cls = true) (hao : ∀ x ∈ cls, exclB kwAND x.1 = true ∧ exclB kwOR x.1 = true)
    (s : Nat) (hs : s ≤ c.toks.length) (first : Bool) (vals0 : List Val) (caps0 : Caps)
    (fe fd ft : Nat) (hfe : 60 * (c.toks.length - s) + cls.length + 90 ≤ fe) (hfd : 4 * (c.toks.length - s) + 5 ≤ fd)
    (hft : 8 * (c.toks.length - s) + 8 ≤ ft) :
    SrcChainRel c fl cls s fd ft caps0 (parseSeq c fe (optG (.capture fl (.strct "Source")) :: cls.map clNode) s first vals0 caps0) := by
  obtain ⟨g, rfl⟩ : ∃ g, fe = g + 75 := ⟨fe - 75, by omega⟩
  have hv1 : (vals0 ++ [Val.str []]).isEmpty = false := by simp
  -- the soft-error continuation, shared
  have soft : ∀ k, parse c (g+71) (.strct "Source") s = .err k true → k ≤ s + 1 →
      dOptSource fd (c.toks.drop s) = some (none, c.toks.drop s) →
      SrcChainRel c fl cls s fd ft caps0 (parseSeq c (g+71+4) (optG (.capture fl (.strct "Source")) :: cls.map clNode) s first vals0 caps0) := by
    intro k hR hk hd
    rw [src_step_soft c fl _ (g+71) s first vals0 caps0 k hR hk]
    rcases chain_finish c cls hex s (g+71+3) (vals0 ++ [.str []]) caps0 hs (by omega) hv1 with
      ⟨vals', caps', cur', heq, hlt, hno⟩ | ⟨vals', obs, heq, hv', hr⟩
    · left; exact ⟨Or.inr ⟨vals', caps', cur', heq, hlt⟩, Or.inr (Or.inr ⟨none, _, hd, hno⟩)⟩
    · right; exact ⟨vals', [], c.toks.drop s, obs, by simpa [srcCaps] using heq, hv', by simp [srcConv, hd], hr⟩
  -- the continuation after a matched source
  have okc : ∀ v cur', parse c (g+71) (.strct "Source") s = .ok [v] [] cur' → cur' ≤ c.toks.length →
      dOptSource fd (c.toks.drop s) = (srcConv ft [v]).map (fun o => (o, c.toks.drop cur')) →
      SrcChainRel c fl cls s fd ft caps0 (parseSeq c (g+71+4) (optG (.capture fl (.strct "Source")) :: cls.map clNode) s first vals0 caps0) := by
    intro v cur' hR hle hd
    rw [src_step_ok c fl _ (g+71) s first vals0 caps0 v cur' hR]
    rcases chain_finish c cls hex cur' (g+71+3) (vals0 ++ [.str []]) (caps0 ++ [(fl, [v])]) hle (by omega) hv1 with
      ⟨vals', caps', cur2, heq, hlt, hno⟩ | ⟨vals', obs, heq, hv', hr⟩
    · left; refine ⟨Or.inr ⟨vals', caps', cur2, heq, hlt⟩, ?_⟩
      cases hsc : srcConv ft [v] with
      | none => left; rw [hd, hsc]; rfl
      | some o => right; right; exact ⟨o, _, by rw [hd, hsc]; rfl, hno⟩
    · right; exact ⟨vals', [v], c.toks.drop cur', obs, by simpa [srcCaps] using heq, hv', hd, hr⟩
  show SrcChainRel c fl cls s fd ft caps0 (parseSeq c (g+71+4) _ s first vals0 caps0)
  cases hn : c.toks[s]? with
  | none =>
    have hdrop := drop_of_none hn
    obtain ⟨k, hR, hk⟩ := source_shallow c hg g s (by rw [hdrop]; rfl) (fun t h => by rw [hn] at h; cases h)
    exact soft k hR hk (by rw [hdrop]; rfl)
  | some t =>
    have hlt := lt_of_get hn
    have hdrop := drop_of_get hn
    by_cases ht : t.t = TT.tags
    · have hR : parse c (g+71) (.strct "Source") s = .ok [.node "Source" [("Tags", [.str t.v])]] [] (s+1) := by
        rw [parse_strct c _ "Source" sourceBody s (by rw [hg]; rfl)]
        simp [sourceBody, parse_disj, parseDisj_cons, parse_capture, parse_ref, peek, hn, ht]
      refine okc _ (s+1) hR (by omega) ?_
      rw [hdrop]
      simp only [dOptSource, ht, beq_self_eq_true, if_true, srcConv]
      cases hp : KV.tagParse t.v <;> simp [toSource, fv, fieldVals, strs, hp]
    · have ht' : (t.t == TT.tags) = false := by simpa using ht
      have he := simExpr c hg hH _ s (Nat.le_refl _) hs (g+66) fd (by omega) hfd
      have hdo : dOptSource fd (c.toks.drop s) = (match dExpr fd (c.toks.drop s) with
          | some (e, r') => some (some (.expr e), r') | none => some (none, c.toks.drop s)) := by
        rw [hdrop]; simp only [dOptSource, ht', Bool.false_eq_true, if_false]
        cases dExpr fd (t :: List.drop (s + 1) c.toks) <;> rfl
      have notdeep : ∀ r, parse c (g+71) (.strct "Source") s = r → (∀ k, r ≠ .err k true) → deepStart (c.toks.drop s) = true := by
        intro r hr hne
        cases hds : deepStart (c.toks.drop s) with
        | true => rfl
        | false =>
          obtain ⟨k', hR', _⟩ := source_shallow c hg g s hds (fun t' h => by rw [hn] at h; cases h; exact ht)
          exact absurd (hr.symm.trans hR') (hne k')
      cases hd : dExpr fd (c.toks.drop s) with
      | some res =>
        obtain ⟨e, rest⟩ := res
        rw [hd] at he hdo
        obtain ⟨v, cur', hRe, hrel, hrest, h1, h2⟩ := he
        have hR : parse c (g+71) (.strct "Source") s = .ok [.node "Source" [("Expr", [v])]] [] cur' := by
          rw [parse_strct c _ "Source" sourceBody s (by rw [hg]; rfl)]
          simp [sourceBody, parse_disj, parseDisj_cons, parse_capture, parse_ref, peek, hn, ht', hRe]
        refine okc _ cur' hR h2 ?_
        have hcv := dExpr_cv hd
        simp only [List.length_drop] at hcv
        have hcs : toSource ft (.node "Source" [("Expr", [v])]) = some (.expr e) :=
          convSource (.expr e) _ ft ⟨v, rfl, hrel⟩ (by simp only [cvSource]; omega)
        simp only [hdo, srcConv, hcs, Option.map_some, hrest]
      | none =>
        rw [hd] at he hdo
        simp only [SimExpr] at he
        rcases he with ⟨k, hRe, hk⟩ | ⟨v, cur', hRe, hlt', hst⟩
        · have hR : parse c (g+71) (.strct "Source") s = .err k true := by
            rw [parse_strct c _ "Source" sourceBody s (by rw [hg]; rfl)]
            by_cases hgt : k > s + lookahead <;>
              simp [sourceBody, parse_disj, parseDisj_cons, parseDisj_nil, parse_capture, parse_ref, peek, hn, ht', hRe, hgt]
          by_cases hks : k ≤ s + 1
          · exact soft k hR hks hdo
          · rw [src_step_hard c fl _ (g+71) s first vals0 caps0 k hR (by omega)]
            left
            refine ⟨Or.inl ⟨k, true, rfl, by omega⟩, Or.inr (Or.inl ⟨hdo, ?_⟩)⟩
            cases hds : deepStart (c.toks.drop s) with
            | true => rfl
            | false =>
              obtain ⟨k', hR', hk'⟩ := source_shallow c hg g s hds (fun t' h => by rw [hn] at h; cases h; exact ht)
              rw [hR] at hR'
              simp only [Res.err.injEq, and_true] at hR'
              omega
        · have hR : parse c (g+71) (.strct "Source") s = .ok [.node "Source" [("Expr", [v])]] [] cur' := by
            rw [parse_strct c _ "Source" sourceBody s (by rw [hg]; rfl)]
            simp [sourceBody, parse_disj, parseDisj_cons, parse_capture, parse_ref, peek, hn, ht', hRe]
          have hdeep := notdeep _ hR (fun k h => by cases h)
          obtain ⟨q, hq, hqm⟩ : ∃ q, c.toks[cur']? = some q ∧ (litMatch q kwAND = true ∨ litMatch q kwOR = true) := by
            rcases hst with ⟨q, hq, h⟩ | ⟨q, hq, h⟩
            · exact ⟨q, hq, Or.inl h⟩
            · exact ⟨q, hq, Or.inr h⟩
          have hsk := chain_skip c q cur' hq cls (fun x hx => by
            rcases hqm with h | h
            · exact litMatch_exclB q _ _ (hao x hx).1 h
            · exact litMatch_exclB q _ _ (hao x hx).2 h) (g+71+3) false (vals0 ++ [.str []]) (caps0 ++ [(fl, [.node "Source" [("Expr", [v])]])])
            (by omega) hv1
          rw [src_step_ok c fl _ (g+71) s first vals0 caps0 _ cur' hR, hsk]
          left
          exact ⟨Or.inr ⟨_, _, cur', rfl, lt_of_get hq⟩, Or.inr (Or.inl ⟨hdo, hdeep⟩)⟩

theorem parseBytes_deep : ∀ b ∈ LP :: condOps, parseBytes b = none := by decide
theorem parseInt0_deep : ∀ b ∈ LP :: condOps, parseInt0 b = none := by decide

theorem deep_val (n : Tok) (hk : n.t ≠ TT.keyword) (h : litMatch n LP = true ∨ isOpTok n = true) : n.v ∈ LP :: condOps := by
  have hk' : (n.t == TT.keyword) = false := by simpa using hk
  rcases h with h | h
  · simp only [litMatch, hk', Bool.false_eq_true, if_false, beq_iff_eq] at h
    rw [h]; exact List.mem_cons_self
  · simp only [isOpTok, List.any_eq_true] at h
    obtain ⟨l, hl, hm⟩ := h
    simp only [litMatch, hk', Bool.false_eq_true, if_false, beq_iff_eq] at hm
    rw [hm]; exact List.mem_cons_of_mem _ hl

/-! ## the direct clause readers as raw reading + conversion -/
def cvo {α : Type} (conv : Bytes → Option α) : Option Bytes → Option (Option α)
  | none => some none
  | some b => (conv b).map some

def convCl {α : Type} (conv : Bytes → Option α) (x : Option (Option Bytes × List Tok)) : Option (Option α × List Tok) :=
  match x with
  | none => none
  | some (ob, r) => (cvo conv ob).map (fun v => (v, r))

theorem dSize_raw (kw : Bytes) (toks : List Tok) : dSizeClause kw toks = convCl parseBytes (rawKw kw .number toks) := by
  cases toks with
  | nil => rfl
  | cons t rest =>
    simp only [dSizeClause, rawKw]
    cases litMatch t kw with
    | false => rfl
    | true =>
      cases rest with
      | nil => rfl
      | cons n r' =>
        by_cases hty : n.t = TT.number
        · simp only [hty, beq_self_eq_true, if_true, convCl, cvo]; cases parseBytes n.v <;> rfl
        · have hty' : (n.t == TT.number) = false := by simpa using hty
          simp [hty', convCl]

theorem dDate_raw (dp : Bytes → Option Int) (kw : Bytes) (toks : List Tok) : dDateClause dp kw toks = convCl dp (rawKw kw .string toks) := by
  cases toks with
  | nil => rfl
  | cons t rest =>
    simp only [dDateClause, rawKw]
    cases litMatch t kw with
    | false => rfl
    | true =>
      cases rest with
      | nil => rfl
      | cons n r' =>
        by_cases hty : n.t = TT.string
        · simp only [hty, beq_self_eq_true, if_true, convCl, cvo]; cases dp n.v <;> rfl
        · have hty' : (n.t == TT.string) = false := by simpa using hty
          simp [hty', convCl]

theorem dInt_raw (kw : Bytes) (toks : List Tok) : dKwClause kw dIntTok toks = convCl parseInt0 (rawKw kw .number toks) := by
  cases toks with
  | nil => rfl
  | cons t rest =>
    simp only [dKwClause, rawKw]
    cases litMatch t kw with
    | false => rfl
    | true =>
      cases rest with
      | nil => rfl
      | cons n r' =>
        simp only [dIntTok, if_true]
        cases hty : n.t == TT.number with
        | false => simp [convCl]
        | true => simp only [if_true, convCl, cvo]; cases parseInt0 n.v <;> rfl

/-! ## TRUNCATE: the four clauses -/
def cls4 : List Cl := [(kwMINSIZE, "MinSize", .number), (kwMAXSIZE, "MaxSize", .number), (kwBEFORE, "Before", .string), (kwMAXDBSIZE, "MaxDbSize", .number)]

def dChain4 (dp : Bytes → Option Int) (t2 : List Tok) : Option (Option Nat × Option Nat × Option Int × Option Nat) :=
  match dSizeClause kwMINSIZE t2 with
  | none => none
  | some (mn, t3) =>
    match dSizeClause kwMAXSIZE t3 with
    | none => none
    | some (mx, t4) =>
      match dDateClause dp kwBEFORE t4 with
      | none => none
      | some (bf, t5) =>
        match dSizeClause kwMAXDBSIZE t5 with
        | none => none
        | some (db, r) => (match r with | [] => some (mn, mx, bf, db) | _ :: _ => none)

def mkTrunc (dry : Bool) (src : Option Source) (q : Option Nat × Option Nat × Option Int × Option Nat) : Truncate :=
  { dryRun := dry, source := src, minSize := q.1, maxSize := q.2.1, before := q.2.2.1, maxDbSize := q.2.2.2 }

theorem dTruncBody_eq (dp : Bytes → Option Int) (f : Nat) (toks : List Tok) :
    dTruncBody dp f toks = (match dOptSource f (dDryRun toks).2 with
      | none => none
      | some (src, t2) => (dChain4 dp t2).map (mkTrunc (dDryRun toks).1 src)) := by
  unfold dTruncBody dChain4
  cases dOptSource f (dDryRun toks).2 with
  | none => rfl
  | some p =>
    obtain ⟨src, t2⟩ := p
    simp only []
    cases dSizeClause kwMINSIZE t2 with
    | none => rfl
    | some p1 =>
      obtain ⟨mn, t3⟩ := p1
      simp only []
      cases dSizeClause kwMAXSIZE t3 with
      | none => rfl
      | some p2 =>
        obtain ⟨mx, t4⟩ := p2
        simp only []
        cases dDateClause dp kwBEFORE t4 with
        | none => rfl
        | some p3 =>
          obtain ⟨bf, t5⟩ := p3
          simp only []
          cases dSizeClause kwMAXDBSIZE t5 with
          | none => rfl
          | some p4 =>
            obtain ⟨db, r⟩ := p4
            cases r <;> rfl

def conv4 (dp : Bytes → Option Int) (o1 o2 o3 o4 : Option Bytes) : Option (Option Nat × Option Nat × Option Int × Option Nat) :=
  (cvo parseBytes o1).bind fun mn => (cvo parseBytes o2).bind fun mx => (cvo dp o3).bind fun bf => (cvo parseBytes o4).bind fun db =>
    some (mn, mx, bf, db)

theorem glue4 (dp : Bytes → Option Int) (t2 : List Tok) :
    (∃ o1 o2 o3 o4, rawChain cls4 t2 = some ([o1, o2, o3, o4], []) ∧ dChain4 dp t2 = conv4 dp o1 o2 o3 o4)
    ∨ ((∀ obs, rawChain cls4 t2 ≠ some (obs, [])) ∧ dChain4 dp t2 = none) := by
  simp only [dChain4, dSize_raw, dDate_raw, rawChain, cls4]
  cases k1 : rawKw kwMINSIZE TT.number t2 with
  | none => right; simp [convCl]
  | some p1 =>
    obtain ⟨o1, r1⟩ := p1
    simp only []
    cases k2 : rawKw kwMAXSIZE TT.number r1 with
    | none => right; cases h : cvo parseBytes o1 <;> simp [convCl, h, k2]
    | some p2 =>
      obtain ⟨o2, r2⟩ := p2
      simp only []
      cases k3 : rawKw kwBEFORE TT.string r2 with
      | none => right; cases h : cvo parseBytes o1 <;> cases h2 : cvo parseBytes o2 <;> simp [convCl, h, h2, k2, k3]
      | some p3 =>
        obtain ⟨o3, r3⟩ := p3
        simp only []
        cases k4 : rawKw kwMAXDBSIZE TT.number r3 with
        | none => right; cases h : cvo parseBytes o1 <;> cases h2 : cvo parseBytes o2 <;> cases h3 : cvo dp o3 <;> simp [convCl, h, h2, h3, k2, k3, k4]
        | some p4 =>
          obtain ⟨o4, r4⟩ := p4
          simp only []
          cases r4 with
          | nil =>
            left; refine ⟨o1, o2, o3, o4, rfl, ?_⟩
            cases h : cvo parseBytes o1 <;> cases h2 : cvo parseBytes o2 <;> cases h3 : cvo dp o3 <;> cases h4 : cvo parseBytes o4 <;>
              simp [convCl, conv4, h, h2, h3, h4, k2, k3, k4]
          | cons q r5 =>
            right
            cases h : cvo parseBytes o1 <;> cases h2 : cvo parseBytes o2 <;> cases h3 : cvo dp o3 <;> cases h4 : cvo parseBytes o4 <;>
              simp [convCl, h, h2, h3, h4, k2, k3, k4]

theorem convCl_deep {α : Type} (conv : Bytes → Option α) (kw : Bytes) (ty : TT) (toks : List Tok) (hd : deepStart toks = true)
    (he1 : exclB kwNOT kw = true) (he2 : exclB LP kw = true) (hty : ty ≠ TT.keyword) (hconv : ∀ b ∈ LP :: condOps, conv b = none) :
    convCl conv (rawKw kw ty toks) = some (none, toks) ∨ convCl conv (rawKw kw ty toks) = none := by
  cases toks with
  | nil => simp [deepStart] at hd
  | cons t rest =>
    cases hm : litMatch t kw with
    | false => left; simp [rawKw, hm, convCl, cvo]
    | true =>
      right
      have h1 : litMatch t kwNOT = false := by
        cases h : litMatch t kwNOT with
        | false => rfl
        | true => rw [litMatch_exclB t _ _ he1 h] at hm; cases hm
      have h2 : litMatch t LP = false := by
        cases h : litMatch t LP with
        | false => rfl
        | true => rw [litMatch_exclB t _ _ he2 h] at hm; cases hm
      cases rest with
      | nil => simp [rawKw, hm, convCl]
      | cons n r' =>
        simp only [deepStart, h1, h2, Bool.false_or, Bool.and_eq_true, Bool.or_eq_true] at hd
        by_cases hnt : n.t = ty
        · have hv := hconv n.v (deep_val n (by rw [hnt]; exact hty) hd.2)
          simp [rawKw, hm, hnt, convCl, cvo, hv]
        · have hnt' : (n.t == ty) = false := by simpa using hnt
          simp [rawKw, hm, hnt', convCl]

theorem deep4 (dp : Bytes → Option Int) (hdp : ∀ b ∈ LP :: condOps, dp b = none) (toks : List Tok) (hd : deepStart toks = true) :
    dChain4 dp toks = none := by
  simp only [dChain4, dSize_raw, dDate_raw]
  rcases convCl_deep parseBytes kwMINSIZE .number toks hd (by decide) (by decide) (by decide) parseBytes_deep with h | h <;> rw [h]
  simp only []
  rcases convCl_deep parseBytes kwMAXSIZE .number toks hd (by decide) (by decide) (by decide) parseBytes_deep with h | h <;> rw [h]
  simp only []
  rcases convCl_deep dp kwBEFORE .string toks hd (by decide) (by decide) (by decide) hdp with h | h <;> rw [h]
  simp only []
  rcases convCl_deep parseBytes kwMAXDBSIZE .number toks hd (by decide) (by decide) (by decide) parseBytes_deep with h | h <;> rw [h]
  cases toks with
  | nil => simp [deepStart] at hd
  | cons _ _ => rfl

/-! ## typed application of the captures -/
theorem fieldVals_append (a b : Caps) (f : String) : fieldVals (a ++ b) f = fieldVals a f ++ fieldVals b f := by
  simp [fieldVals]
def obVals : Option Bytes → List Val
  | some b => [.str b]
  | none => []
theorem fieldVals_obCaps_eq (fl : String) (ob : Option Bytes) : fieldVals (obCaps fl ob) fl = obVals ob := by
  cases ob <;> simp [obCaps, obVals, fieldVals]
theorem fieldVals_obCaps_ne (fl f : String) (ob : Option Bytes) (h : (fl == f) = false) : fieldVals (obCaps fl ob) f = [] := by
  cases ob <;> simp [obCaps, fieldVals, h]
theorem fieldVals_srcCaps_eq (fl : String) (sv : List Val) : fieldVals (srcCaps fl sv) fl = sv := by
  cases sv <;> simp [srcCaps, fieldVals]
theorem fieldVals_srcCaps_ne (fl f : String) (sv : List Val) (h : (fl == f) = false) : fieldVals (srcCaps fl sv) f = [] := by
  cases sv <;> simp [srcCaps, fieldVals, h]
theorem optConv_ob {α : Type} (N : String) (caps : Caps) (f : String) (conv : Bytes → Option α) (ob : Option Bytes)
    (h : fieldVals caps f = obVals ob) : optConv (.node N caps) f conv = cvo conv ob := by
  cases ob <;> simp [optConv, fv, h, obVals, cvo, strs]
theorem optSource_sv (ft : Nat) (N : String) (caps : Caps) (f : String) (sv : List Val)
    (h : fieldVals caps f = sv) : optSource ft (.node N caps) f = srcConv ft sv := by
  subst h
  simp only [optSource, fv]
  cases hh : fieldVals caps f with
  | nil => rfl
  | cons v vs => cases vs <;> rfl

def truncConv (dp : Bytes → Option Int) (ft : Nat) (t : Val) : Option Truncate := do
  let src ← optSource ft t "Source"
  let mn ← optConv t "MinSize" parseBytes
  let mx ← optConv t "MaxSize" parseBytes
  let bf ← optConv t "Before" dp
  let db ← optConv t "MaxDbSize" parseBytes
  pure ({ dryRun := !(fv t "DryRun").isEmpty, source := src, minSize := mn, maxSize := mx, before := bf, maxDbSize := db } : Truncate)

theorem toLql_trunc (dp : Bytes → Option Int) (ft : Nat) (tr : Val) :
    toLqlChecked dp ft (.node "Lql" [("Truncate", [tr])]) = (truncConv dp ft tr).map (fun x => ({ truncate := some x } : Lql)) := by
  have e1 : ∀ {α : Type} (conv : Val → Option α) (f : String), (("Truncate" : String) == f) = false →
      optNode (.node "Lql" [("Truncate", [tr])]) f conv = some none := by
    intro α conv f hf; simp [optNode, fv, fieldVals, hf]
  have e2 : ∀ {α : Type} (conv : Val → Option α), optNode (.node "Lql" [("Truncate", [tr])]) "Truncate" conv = (conv tr).map some := by
    intro α conv; simp [optNode, fv, fieldVals]
  have h : toLql dp ft (.node "Lql" [("Truncate", [tr])]) = (truncConv dp ft tr).map (fun x => ({ truncate := some x } : Lql)) := by
    unfold toLql
    simp only [e2, e1 _ "Select" (by decide), e1 _ "Describe" (by decide), e1 _ "Show" (by decide), e1 _ "Create" (by decide), e1 _ "Delete" (by decide)]
    cases h1 : optSource ft tr "Source" <;> cases h2 : optConv tr "MinSize" parseBytes <;> cases h3 : optConv tr "MaxSize" parseBytes <;>
      cases h4 : optConv tr "Before" dp <;> cases h5 : optConv tr "MaxDbSize" parseBytes <;> simp [truncConv, h1, h2, h3, h4, h5]
  rw [toLqlChecked, h]
  cases truncConv dp ft tr with
  | none => rfl
  | some x => simp [postCheck, hasEmptyRange]

theorem truncConv_caps (dp : Bytes → Option Int) (ft : Nat) (caps0 : Caps) (sv : List Val) (o1 o2 o3 o4 : Option Bytes)
    (h1 : fieldVals caps0 "Source" = []) (h2 : fieldVals caps0 "MinSize" = []) (h3 : fieldVals caps0 "MaxSize" = [])
    (h4 : fieldVals caps0 "Before" = []) (h5 : fieldVals caps0 "MaxDbSize" = []) :
    truncConv dp ft (.node "Truncate" (caps0 ++ srcCaps "Source" sv ++ rawCaps cls4 [o1, o2, o3, o4])) =
      (srcConv ft sv).bind fun src => (conv4 dp o1 o2 o3 o4).map (mkTrunc (!(fieldVals caps0 "DryRun").isEmpty) src) := by
  have hS : fieldVals (caps0 ++ srcCaps "Source" sv ++ rawCaps cls4 [o1, o2, o3, o4]) "Source" = sv := by
    simp [fieldVals_append, h1, fieldVals_srcCaps_eq, rawCaps, cls4, fieldVals_obCaps_ne]
  have hD : fieldVals (caps0 ++ srcCaps "Source" sv ++ rawCaps cls4 [o1, o2, o3, o4]) "DryRun" = fieldVals caps0 "DryRun" := by
    simp [fieldVals_append, fieldVals_srcCaps_ne, rawCaps, cls4, fieldVals_obCaps_ne]
  have hMn : fieldVals (caps0 ++ srcCaps "Source" sv ++ rawCaps cls4 [o1, o2, o3, o4]) "MinSize" = obVals o1 := by
    simp [fieldVals_append, h2, fieldVals_srcCaps_ne, rawCaps, cls4, fieldVals_obCaps_ne, fieldVals_obCaps_eq]
  have hMx : fieldVals (caps0 ++ srcCaps "Source" sv ++ rawCaps cls4 [o1, o2, o3, o4]) "MaxSize" = obVals o2 := by
    simp [fieldVals_append, h3, fieldVals_srcCaps_ne, rawCaps, cls4, fieldVals_obCaps_ne, fieldVals_obCaps_eq]
  have hBf : fieldVals (caps0 ++ srcCaps "Source" sv ++ rawCaps cls4 [o1, o2, o3, o4]) "Before" = obVals o3 := by
    simp [fieldVals_append, h4, fieldVals_srcCaps_ne, rawCaps, cls4, fieldVals_obCaps_ne, fieldVals_obCaps_eq]
  have hDb : fieldVals (caps0 ++ srcCaps "Source" sv ++ rawCaps cls4 [o1, o2, o3, o4]) "MaxDbSize" = obVals o4 := by
    simp [fieldVals_append, h5, fieldVals_srcCaps_ne, rawCaps, cls4, fieldVals_obCaps_ne, fieldVals_obCaps_eq]
  simp only [truncConv, optSource_sv ft _ _ _ sv hS, optConv_ob _ _ _ _ o1 hMn, optConv_ob _ _ _ _ o2 hMx, optConv_ob _ _ _ _ o3 hBf,
    optConv_ob _ _ _ _ o4 hDb, fv, hD, conv4]
  cases srcConv ft sv <;> cases cvo parseBytes o1 <;> cases cvo parseBytes o2 <;> cases cvo dp o3 <;> cases cvo parseBytes o4 <;>
    simp [mkTrunc]

/-- what the struct wrapper makes of the body's result -/
def strctRes (name : String) (r : Res) : Res :=
  match r with
  | .ok _ caps cur' => .ok [.node name caps] [] cur'
  | .noMatch => .noMatch
  | .err k _ => .err k true

theorem trunc_tail (dp : Bytes → Option Int) (hdp : ∀ b ∈ LP :: condOps, dp b = none) (ft : Nat) (c : Ctx) (hg : c.grammar = grammar)
    (hH : OperandNotParen c.toks) (s : Nat) (hs1 : 1 ≤ s) (hs : s ≤ c.toks.length) (first : Bool) (vals0 : List Val) (caps0 : Caps) (dry : Bool)
    (hcaps : (caps0 = [] ∧ dry = false) ∨ ∃ x, caps0 = [("DryRun", [Val.str x])] ∧ dry = true)
    (fe fd : Nat) (hfe : 60 * (c.toks.length - s) + 100 ≤ fe) (hfd : 4 * (c.toks.length - s) + 5 ≤ fd) (hft : 8 * (c.toks.length - s) + 8 ≤ ft) :
    (topRes c.toks (altRes "Lql" "Truncate" 0 (strctRes "Truncate"
        (parseSeq c fe (optG (.capture "Source" (.strct "Source")) :: cls4.map clNode) s first vals0 caps0)))).bind (toLqlChecked dp ft)
      = (match dOptSource fd (c.toks.drop s) with
         | none => none
         | some (src, t2) => (dChain4 dp t2).map (mkTrunc dry src)).map (fun tr => ({ truncate := some tr } : Lql)) := by
  rcases src_chain c hg hH "Source" cls4 (by decide) (by decide) s hs first vals0 caps0 fe fd ft (by simp [cls4]; omega) hfd hft with
    ⟨hE, hD⟩ | ⟨vals', sv, rest, obs, hR, hv, hdo, hrc⟩
  · have hl : (topRes c.toks (altRes "Lql" "Truncate" 0 (strctRes "Truncate"
        (parseSeq c fe (optG (.capture "Source" (.strct "Source")) :: cls4.map clNode) s first vals0 caps0)))) = none := by
      rcases hE with ⟨k, hv, hR, hk⟩ | ⟨vals', caps', cur', hR, hlt⟩
      · have hk2 : k > 0 + 1 + lookahead := by simp only [lookahead]; omega
        rw [hR]; simp [strctRes, altRes, topRes, hk2]
      · have hne : (cur' == c.toks.length) = false := by simp; omega
        rw [hR]; simp [strctRes, altRes, topRes, hne]
    rw [hl]
    rcases hD with h | ⟨h, hdeep⟩ | ⟨osrc, rest, h, hno⟩
    · rw [h]; rfl
    · rw [h]; simp [deep4 dp hdp _ hdeep]
    · rw [h]
      rcases glue4 dp rest with ⟨o1, o2, o3, o4, hrc, _⟩ | ⟨_, hnone⟩
      · exact absurd hrc (hno _)
      · simp [hnone]
  · rcases glue4 dp rest with ⟨o1, o2, o3, o4, hrc', hch⟩ | ⟨hno, _⟩
    · rw [hrc] at hrc'
      simp only [Option.some.injEq, Prod.mk.injEq, and_true] at hrc'
      subst hrc'
      rw [hR]
      simp only [strctRes, altRes, topRes, beq_self_eq_true, if_true, List.nil_append, Option.bind_some, toLql_trunc]
      have hD : dry = !(fieldVals caps0 "DryRun").isEmpty := by
        rcases hcaps with ⟨rfl, rfl⟩ | ⟨x, rfl, rfl⟩ <;> simp [fieldVals]
      rw [truncConv_caps dp ft caps0 sv o1 o2 o3 o4 (by rcases hcaps with ⟨rfl, _⟩ | ⟨x, rfl, _⟩ <;> simp [fieldVals])
        (by rcases hcaps with ⟨rfl, _⟩ | ⟨x, rfl, _⟩ <;> simp [fieldVals]) (by rcases hcaps with ⟨rfl, _⟩ | ⟨x, rfl, _⟩ <;> simp [fieldVals])
        (by rcases hcaps with ⟨rfl, _⟩ | ⟨x, rfl, _⟩ <;> simp [fieldVals]) (by rcases hcaps with ⟨rfl, _⟩ | ⟨x, rfl, _⟩ <;> simp [fieldVals]),
        hdo, ← hD]
      cases srcConv ft sv with
      | none => rfl
      | some o => simp [hch]
    · exact absurd hrc (hno _)

/-- **engine = direct parser on TRUNCATE statements.** Extra hypothesis `hdp` (needed: the statement is false without it, see
`cex_truncate_dp`): the date parser rejects the texts `(` and the ten condition operators. -/
theorem engine_direct_truncate (dp : Bytes → Option Int) (hdp : ∀ b ∈ LP :: condOps, dp b = none) (ft : Nat) (t : Tok) (r : List Tok)
    (hH : OperandNotParen (t :: r)) (hft : 8 * (t :: r).length + 50 ≤ ft)
    (h1 : litMatch t kwSELECT = false) (h2 : litMatch t kwDESCRIBE = false) (h3 : litMatch t kwTRUNCATE = true) :
    (runEngine grammar "Lql" (t :: r)).bind (toLqlChecked dp ft) = dTruncateRest dp (directFuel (t :: r)) r := by
  rw [run_lql]
  obtain ⟨g, hg⟩ : ∃ g, 60 * (t :: r).length + 200 = g + 30 := ⟨60 * (t :: r).length + 170, rfl⟩
  rw [hg, lql_truncate_eval t r g h1 h2 h3]
  rw [show g + 18 = (g + 17) + 1 from rfl, parse_strct _ _ "Truncate" truncateBody 1 rfl]
  have hb : truncateBody = .seq (optG (.capture "DryRun" (.lit kwDRYRUN)) :: optG (.capture "Source" (.strct "Source")) :: cls4.map clNode) := rfl
  have hd : dTruncateRest dp (directFuel (t :: r)) r = (dTruncBody dp (directFuel (t :: r)) r).map (fun tr => ({ truncate := some tr } : Lql)) := by
    unfold dTruncateRest; cases dTruncBody dp (directFuel (t :: r)) r <;> rfl
  rw [hb, parse_seq, hd, dTruncBody_eq]
  have hgl : g = 60 * (r.length + 1) + 170 := by simp only [List.length_cons] at hg; omega
  simp only [List.length_cons] at hft
  cases r with
  | nil =>
    have hn : (⟨[t], grammar⟩ : Ctx).toks[1]? = none := rfl
    have e : parseSeq ⟨[t], grammar⟩ (g+16) (optG (.capture "DryRun" (.lit kwDRYRUN)) :: optG (.capture "Source" (.strct "Source")) :: cls4.map clNode) 1 true [] []
        = parseSeq ⟨[t], grammar⟩ (g+15) (optG (.capture "Source" (.strct "Source")) :: cls4.map clNode) 1 false [] [] := by
      simp [parseSeq_cons, parse_optG, parse_capture, parse_lit, peek]
    rw [e]
    exact trunc_tail dp hdp ft ⟨[t], grammar⟩ rfl hH 1 (Nat.le_refl _) (by simp) false [] [] false (Or.inl ⟨rfl, rfl⟩) (g+15) (directFuel [t])
      (by simp; omega) (by simp [directFuel]) (by simp at hft ⊢; omega)
  | cons p r1 =>
    have hn : (⟨t :: p :: r1, grammar⟩ : Ctx).toks[1]? = some p := rfl
    cases hp : litMatch p kwDRYRUN with
    | false =>
      have e : parseSeq ⟨t :: p :: r1, grammar⟩ (g+16) (optG (.capture "DryRun" (.lit kwDRYRUN)) :: optG (.capture "Source" (.strct "Source")) :: cls4.map clNode) 1 true [] []
          = parseSeq ⟨t :: p :: r1, grammar⟩ (g+15) (optG (.capture "Source" (.strct "Source")) :: cls4.map clNode) 1 false [] [] := by
        simp [parseSeq_cons, parse_optG, parse_capture, parse_lit, peek, hp]
      rw [e]
      have hdd : dDryRun (p :: r1) = (false, p :: r1) := by simp [dDryRun, hp]
      rw [hdd]
      exact trunc_tail dp hdp ft ⟨t :: p :: r1, grammar⟩ rfl hH 1 (Nat.le_refl _) (by simp) false [] [] false (Or.inl ⟨rfl, rfl⟩) (g+15) (directFuel (t :: p :: r1))
        (by simp at hgl ⊢; omega) (by simp [directFuel]; omega) (by simp at hft ⊢; omega)
    | true =>
      have e : parseSeq ⟨t :: p :: r1, grammar⟩ (g+16) (optG (.capture "DryRun" (.lit kwDRYRUN)) :: optG (.capture "Source" (.strct "Source")) :: cls4.map clNode) 1 true [] []
          = parseSeq ⟨t :: p :: r1, grammar⟩ (g+15) (optG (.capture "Source" (.strct "Source")) :: cls4.map clNode) 2 false [.str []] [("DryRun", [.str p.v])] := by
        simp [parseSeq_cons, parse_optG, parse_capture, parse_lit, peek, hp]
      rw [e]
      have hdd : dDryRun (p :: r1) = (true, r1) := by simp [dDryRun, hp]
      rw [hdd]
      exact trunc_tail dp hdp ft ⟨t :: p :: r1, grammar⟩ rfl hH 2 (by omega) (by simp) false [.str []] _ true (Or.inr ⟨p.v, rfl, rfl⟩) (g+15) (directFuel (t :: p :: r1))
        (by simp at hgl ⊢; omega) (by simp [directFuel]; omega) (by simp at hft ⊢; omega)

/-! ## SHOW -/
def cls2 : List Cl := [(kwOFFSET, "Offset", .number), (kwLIMIT, "Limit", .number)]

def dChain2 (t1 : List Tok) : Option (Option Int × Option Int) :=
  match dKwClause kwOFFSET dIntTok t1 with
  | none => none
  | some (off, t2) =>
    match dKwClause kwLIMIT dIntTok t2 with
    | none => none
    | some (lim, r) => (match r with | [] => some (off, lim) | _ :: _ => none)

theorem dSrcOffLim_eq (f : Nat) (toks : List Tok) :
    dSrcOffLim f toks = (match dOptSource f toks with
      | none => none
      | some (src, t1) => (dChain2 t1).map (fun q => (src, q.1, q.2))) := by
  unfold dSrcOffLim dChain2
  cases dOptSource f toks with
  | none => rfl
  | some p =>
    obtain ⟨src, t1⟩ := p
    simp only []
    cases dKwClause kwOFFSET dIntTok t1 with
    | none => rfl
    | some p1 =>
      obtain ⟨off, t2⟩ := p1
      simp only []
      cases dKwClause kwLIMIT dIntTok t2 with
      | none => rfl
      | some p2 =>
        obtain ⟨lim, r⟩ := p2
        cases r <;> rfl

def conv2 (o1 o2 : Option Bytes) : Option (Option Int × Option Int) :=
  (cvo parseInt0 o1).bind fun a => (cvo parseInt0 o2).bind fun b => some (a, b)

theorem glue2 (t1 : List Tok) :
    (∃ o1 o2, rawChain cls2 t1 = some ([o1, o2], []) ∧ dChain2 t1 = conv2 o1 o2)
    ∨ ((∀ obs, rawChain cls2 t1 ≠ some (obs, [])) ∧ dChain2 t1 = none) := by
  simp only [dChain2, dInt_raw, rawChain, cls2]
  cases k1 : rawKw kwOFFSET TT.number t1 with
  | none => right; simp [convCl]
  | some p1 =>
    obtain ⟨o1, r1⟩ := p1
    simp only []
    cases k2 : rawKw kwLIMIT TT.number r1 with
    | none => right; cases h : cvo parseInt0 o1 <;> simp [convCl, h, k2]
    | some p2 =>
      obtain ⟨o2, r2⟩ := p2
      simp only []
      cases r2 with
      | nil =>
        left; refine ⟨o1, o2, rfl, ?_⟩
        cases h : cvo parseInt0 o1 <;> cases h2 : cvo parseInt0 o2 <;> simp [convCl, conv2, h, h2, k2]
      | cons q r3 =>
        right
        cases h : cvo parseInt0 o1 <;> cases h2 : cvo parseInt0 o2 <;> simp [convCl, h, h2, k2]

theorem deep2 (toks : List Tok) (hd : deepStart toks = true) : dChain2 toks = none := by
  simp only [dChain2, dInt_raw]
  rcases convCl_deep parseInt0 kwOFFSET .number toks hd (by decide) (by decide) (by decide) parseInt0_deep with h | h <;> rw [h]
  simp only []
  rcases convCl_deep parseInt0 kwLIMIT .number toks hd (by decide) (by decide) (by decide) parseInt0_deep with h | h <;> rw [h]
  cases toks with
  | nil => simp [deepStart] at hd
  | cons _ _ => rfl

/-- the typed application of the captures of `Partitions` / `Pipes` (source field `fl`) -/
def polConv (fl : String) (ft : Nat) (p : Val) : Option (Option Source × Option Int × Option Int) := do
  let src ← optSource ft p fl
  let off ← optConv p "Offset" parseInt0
  let lim ← optConv p "Limit" parseInt0
  pure (src, off, lim)

theorem polConv_caps (fl : String) (ft : Nat) (N : String) (sv : List Val) (o1 o2 : Option Bytes)
    (e1 : (fl == "Offset") = false) (e2 : (fl == "Limit") = false) (e3 : ("Offset" == fl) = false) (e4 : ("Limit" == fl) = false) :
    polConv fl ft (.node N (srcCaps fl sv ++ rawCaps cls2 [o1, o2])) =
      (srcConv ft sv).bind fun src => (conv2 o1 o2).map (fun q => (src, q.1, q.2)) := by
  have hS : fieldVals (srcCaps fl sv ++ rawCaps cls2 [o1, o2]) fl = sv := by
    simp [fieldVals_append, fieldVals_srcCaps_eq, rawCaps, cls2, fieldVals_obCaps_ne, e3, e4]
  have hO : fieldVals (srcCaps fl sv ++ rawCaps cls2 [o1, o2]) "Offset" = obVals o1 := by
    simp [fieldVals_append, fieldVals_srcCaps_ne, e1, rawCaps, cls2, fieldVals_obCaps_ne, fieldVals_obCaps_eq]
  have hL : fieldVals (srcCaps fl sv ++ rawCaps cls2 [o1, o2]) "Limit" = obVals o2 := by
    simp [fieldVals_append, fieldVals_srcCaps_ne, e2, rawCaps, cls2, fieldVals_obCaps_ne, fieldVals_obCaps_eq]
  simp only [polConv, optSource_sv ft _ _ _ sv hS, optConv_ob _ _ _ _ o1 hO, optConv_ob _ _ _ _ o2 hL, conv2]
  cases srcConv ft sv <;> cases cvo parseInt0 o1 <;> cases cvo parseInt0 o2 <;> simp

theorem optNode_single_ne {α : Type} (N g f : String) (x : Val) (conv : Val → Option α) (h : (g == f) = false) :
    optNode (.node N [(g, [x])]) f conv = some none := by simp [optNode, fv, fieldVals, h]
theorem optNode_single_eq {α : Type} (N f : String) (x : Val) (conv : Val → Option α) :
    optNode (.node N [(f, [x])]) f conv = (conv x).map some := by simp [optNode, fv, fieldVals]

def mkPart (q : Option Source × Option Int × Option Int) : Lql :=
  { show_ := some { partitions := some { source := q.1, offset := q.2.1, limit := q.2.2 } } }
def mkPipes (q : Option Source × Option Int × Option Int) : Lql :=
  { show_ := some { pipes := some { void := q.1, offset := q.2.1, limit := q.2.2 } } }

theorem toLql_show_part (dp : Bytes → Option Int) (ft : Nat) (p : Val) :
    toLqlChecked dp ft (.node "Lql" [("Show", [.node "Show" [("Partitions", [p])]])]) = (polConv "Source" ft p).map mkPart := by
  have h : toLql dp ft (.node "Lql" [("Show", [.node "Show" [("Partitions", [p])]])]) = (polConv "Source" ft p).map mkPart := by
    unfold toLql
    simp only [optNode_single_eq, optNode_single_ne _ "Show" "Select" _ _ (by decide), optNode_single_ne _ "Show" "Describe" _ _ (by decide),
      optNode_single_ne _ "Show" "Truncate" _ _ (by decide), optNode_single_ne _ "Show" "Create" _ _ (by decide),
      optNode_single_ne _ "Show" "Delete" _ _ (by decide), optNode_single_ne _ "Partitions" "Pipes" _ _ (by decide)]
    cases h1 : optSource ft p "Source" <;> cases h2 : optConv p "Offset" parseInt0 <;> cases h3 : optConv p "Limit" parseInt0 <;>
      simp [polConv, mkPart, h1, h2, h3]
  rw [toLqlChecked, h]
  cases polConv "Source" ft p with
  | none => rfl
  | some x => simp [postCheck, hasEmptyRange, mkPart]

theorem toLql_show_pipes (dp : Bytes → Option Int) (ft : Nat) (p : Val) :
    toLqlChecked dp ft (.node "Lql" [("Show", [.node "Show" [("Pipes", [p])]])]) = (polConv "Void" ft p).map mkPipes := by
  have h : toLql dp ft (.node "Lql" [("Show", [.node "Show" [("Pipes", [p])]])]) = (polConv "Void" ft p).map mkPipes := by
    unfold toLql
    simp only [optNode_single_eq, optNode_single_ne _ "Show" "Select" _ _ (by decide), optNode_single_ne _ "Show" "Describe" _ _ (by decide),
      optNode_single_ne _ "Show" "Truncate" _ _ (by decide), optNode_single_ne _ "Show" "Create" _ _ (by decide),
      optNode_single_ne _ "Show" "Delete" _ _ (by decide), optNode_single_ne _ "Pipes" "Partitions" _ _ (by decide)]
    cases h1 : optSource ft p "Void" <;> cases h2 : optConv p "Offset" parseInt0 <;> cases h3 : optConv p "Limit" parseInt0 <;>
      simp [polConv, mkPipes, h1, h2, h3]
  rw [toLqlChecked, h]
  cases polConv "Void" ft p with
  | none => rfl
  | some x => simp [postCheck, hasEmptyRange, mkPipes]

theorem kwAlt_none (c : Ctx) (kw : Bytes) (fl S : String) (f cur : Nat) (hn : c.toks[cur]? = none) :
    parse c (f+3) (kwAlt kw fl S) cur = .noMatch := by
  simp only [kwAlt, parse_seq, parseSeq_cons, parse_lit, peek, hn, if_true]

/-- `disj_hit` for any struct name -/
theorem disj_hit' (name : String) (c : Ctx) (cur : Nat) (t : Tok) (hn : c.toks[cur]? = some t) (kw : Bytes) (fl S : String) (rest : List Node)
    (f : Nat) (hc : litMatch t kw = true) :
    strctRes name (parseDisj c (f+8) (kwAlt kw fl S :: rest) cur none) = altRes name fl cur (parse c (f+1) (.strct S) (cur+1)) := by
  rw [parseDisj_cons, kwAlt_lit c kw fl S f cur t hn hc]
  cases parse c (f+1) (.strct S) (cur+1) with
  | ok v cp cur' => simp [altRes, strctRes]
  | noMatch => simp [altRes, strctRes]
  | err k hv =>
    by_cases hk : k > cur + 1 + lookahead
    · have hk2 : k > cur + lookahead := by omega
      simp [altRes, strctRes, hk, hk2]
    · simp [altRes, strctRes, hk]

theorem parse_strct' (c : Ctx) (f : Nat) (name : String) (body : Node) (cur : Nat) (h : c.grammar name = some body) :
    parse c (f+1) (.strct name) cur = strctRes name (parse c f body cur) := by
  rw [parse_strct c f name body cur h]; rfl

theorem pol_tail (dp : Bytes → Option Int) (ft : Nat) (c : Ctx) (hg : c.grammar = grammar) (hH : OperandNotParen c.toks)
    (hlen : 2 ≤ c.toks.length) (F N fl : String) (mk : Option Source × Option Int × Option Int → Lql)
    (e1 : (fl == "Offset") = false) (e2 : (fl == "Limit") = false) (e3 : ("Offset" == fl) = false) (e4 : ("Limit" == fl) = false)
    (hconv : ∀ p, toLqlChecked dp ft (.node "Lql" [("Show", [.node "Show" [(F, [p])]])]) = (polConv fl ft p).map mk)
    (fe fd : Nat) (hfe : 60 * (c.toks.length - 2) + 100 ≤ fe) (hfd : 4 * (c.toks.length - 2) + 5 ≤ fd) (hft : 8 * (c.toks.length - 2) + 8 ≤ ft) :
    (topRes c.toks (altRes "Lql" "Show" 0 (altRes "Show" F 1 (strctRes N
        (parseSeq c fe (optG (.capture fl (.strct "Source")) :: cls2.map clNode) 2 true [] []))))).bind (toLqlChecked dp ft)
      = (dSrcOffLim fd (c.toks.drop 2)).map mk := by
  rw [dSrcOffLim_eq]
  rcases src_chain c hg hH fl cls2 (by decide) (by decide) 2 hlen true [] [] fe fd ft (by simp [cls2]; omega) hfd hft with
    ⟨hE, hD⟩ | ⟨vals', sv, rest, obs, hR, hv, hdo, hrc⟩
  · have hl : (topRes c.toks (altRes "Lql" "Show" 0 (altRes "Show" F 1 (strctRes N
        (parseSeq c fe (optG (.capture fl (.strct "Source")) :: cls2.map clNode) 2 true [] []))))) = none := by
      rcases hE with ⟨k, hv, hR, hk⟩ | ⟨vals', caps', cur', hR, hlt⟩
      · have hk1 : k > 1 + 1 + lookahead := by simp only [lookahead]; omega
        have hk2 : k > 0 + 1 + lookahead := by simp only [lookahead]; omega
        rw [hR]; simp [strctRes, altRes, topRes, hk1, hk2]
      · have hne : (cur' == c.toks.length) = false := by simp; omega
        rw [hR]; simp [strctRes, altRes, topRes, hne]
    rw [hl]
    rcases hD with h | ⟨h, hdeep⟩ | ⟨osrc, rest, h, hno⟩
    · rw [h]; rfl
    · rw [h]; simp [deep2 _ hdeep]
    · rw [h]
      rcases glue2 rest with ⟨o1, o2, hrc, _⟩ | ⟨_, hnone⟩
      · exact absurd hrc (hno _)
      · simp [hnone]
  · rcases glue2 rest with ⟨o1, o2, hrc', hch⟩ | ⟨hno, _⟩
    · rw [hrc] at hrc'
      simp only [Option.some.injEq, Prod.mk.injEq, and_true] at hrc'
      subst hrc'
      simp only [List.nil_append] at hR
      rw [hR]
      simp only [strctRes, altRes, topRes, beq_self_eq_true, if_true, List.nil_append, Option.bind_some, hconv]
      rw [polConv_caps fl ft N sv o1 o2 e1 e2 e3 e4, hdo]
      cases srcConv ft sv with
      | none => rfl
      | some o => simp [hch]
    · exact absurd hrc (hno _)

/-- **engine = direct parser on SHOW statements** -/
theorem engine_direct_show (dp : Bytes → Option Int) (ft : Nat) (t : Tok) (r : List Tok)
    (hH : OperandNotParen (t :: r)) (hft : 8 * (t :: r).length + 50 ≤ ft)
    (h1 : litMatch t kwSELECT = false) (h2 : litMatch t kwDESCRIBE = false) (h3 : litMatch t kwTRUNCATE = false)
    (h4 : litMatch t kwSHOW = true) :
    (runEngine grammar "Lql" (t :: r)).bind (toLqlChecked dp ft) = dShowRest (directFuel (t :: r)) r := by
  rw [run_lql]
  obtain ⟨g, hg⟩ : ∃ g, 60 * (t :: r).length + 200 = g + 30 := ⟨60 * (t :: r).length + 170, rfl⟩
  rw [hg, lql_show_eval t r g h1 h2 h3 h4]
  rw [show g + 17 = (g + 16) + 1 from rfl, parse_strct' _ _ "Show" showBody 1 rfl]
  simp only [showBody, parse_once, parse_disj]
  have hgl : g = 60 * (r.length + 1) + 170 := by simp only [List.length_cons] at hg; omega
  simp only [List.length_cons] at hft
  cases r with
  | nil =>
    have hn : (⟨[t], grammar⟩ : Ctx).toks[1]? = none := rfl
    rw [parseDisj_cons, kwAlt_none _ _ _ _ (g+10) 1 hn]
    simp only []
    rw [parseDisj_cons, kwAlt_none _ _ _ _ (g+9) 1 hn]
    simp [parseDisj_nil, strctRes, altRes, topRes, dShowRest, toLqlChecked, toLql, optNode, fv, fieldVals, postCheck, hasEmptyRange]
  | cons k r' =>
    have hn : (⟨t :: k :: r', grammar⟩ : Ctx).toks[1]? = some k := rfl
    cases hk : litMatch k kwPARTITIONS with
    | true =>
      rw [disj_hit' "Show" _ 1 k hn _ _ _ _ (g+6) hk]
      rw [parse_strct' _ _ "Partitions" partitionsBody 2 rfl]
      have hb : partitionsBody = .seq (optG (.capture "Source" (.strct "Source")) :: cls2.map clNode) := rfl
      rw [hb, parse_seq]
      have hd : dShowRest (directFuel (t :: k :: r')) (k :: r') = (dSrcOffLim (directFuel (t :: k :: r')) r').map mkPart := by
        simp only [dShowRest, hk, if_true]
        cases dSrcOffLim (directFuel (t :: k :: r')) r' with
        | none => rfl
        | some q => obtain ⟨s, o, l⟩ := q; rfl
      rw [hd]
      exact pol_tail dp ft ⟨t :: k :: r', grammar⟩ rfl hH (by simp) "Partitions" "Partitions" "Source" mkPart (by decide) (by decide) (by decide) (by decide)
        (toLql_show_part dp ft) (g+5) (directFuel (t :: k :: r')) (by simp at hgl ⊢; omega) (by simp [directFuel]; omega) (by simp at hft ⊢; omega)
    | false =>
      rw [show g + 14 = (g + 10) + 4 from rfl, disj_skip _ 1 k hn _ _ _ _ (g+10) _ hk]
      cases hk2 : litMatch k kwPIPES with
      | true =>
        rw [disj_hit' "Show" _ 1 k hn _ _ _ _ (g+5) hk2]
        rw [parse_strct' _ _ "Pipes" pipesBody 2 rfl]
        have hb : pipesBody = .seq (optG (.capture "Void" (.strct "Source")) :: cls2.map clNode) := rfl
        rw [hb, parse_seq]
        have hd : dShowRest (directFuel (t :: k :: r')) (k :: r') = (dSrcOffLim (directFuel (t :: k :: r')) r').map mkPipes := by
          simp only [dShowRest, hk, hk2, if_true, Bool.false_eq_true, if_false]
          cases dSrcOffLim (directFuel (t :: k :: r')) r' with
          | none => rfl
          | some q => obtain ⟨s, o, l⟩ := q; rfl
        rw [hd]
        exact pol_tail dp ft ⟨t :: k :: r', grammar⟩ rfl hH (by simp) "Pipes" "Pipes" "Void" mkPipes (by decide) (by decide) (by decide) (by decide)
          (toLql_show_pipes dp ft) (g+4) (directFuel (t :: k :: r')) (by simp at hgl ⊢; omega) (by simp [directFuel]; omega) (by simp at hft ⊢; omega)
      | false =>
        rw [parseDisj_cons, kwAlt_nolit _ _ _ _ (g+9) 1 k hn hk2]
        simp [parseDisj_nil, strctRes, altRes, topRes, dShowRest, hk, hk2]

/-! ## why `engine_direct_truncate` needs `hdp` -/
/-- the tokens of `TRUNCATE BEFORE "(" MAXDBSIZE 10` (String tokens are unquoted by the lexer) -/
def cexTruncToks : List Tok := [⟨.keyword, kwTRUNCATE⟩, ⟨.keyword, kwBEFORE⟩, ⟨.string, [40]⟩, ⟨.keyword, kwMAXDBSIZE⟩, ⟨.number, [49, 48]⟩]

/-- with a date parser that accepts the text `(` the engine rejects (the unguarded `Source` attempt reads `BEFORE ( MAXDBSIZE` as an
`Identifier` with parameters and fails two tokens in: a hard error) while the direct parser accepts: without `hdp` the statement of
`engine_direct_truncate` is false -/
theorem cex_truncate_dp :
    OperandNotParen cexTruncToks ∧
    ((runEngine grammar "Lql" cexTruncToks).bind (toLqlChecked (fun _ => some 0) 1000)).isSome = false ∧
    (dTruncateRest (fun _ => some 0) (directFuel cexTruncToks) cexTruncToks.tail).isSome = true := by
  refine ⟨?_, ?_, ?_⟩
  · intro t ht; revert t; decide
  · decide +kernel
  · decide +kernel

end Logrange.Lql
