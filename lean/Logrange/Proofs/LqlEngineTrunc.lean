import Logrange.Proofs.LqlEngineStmt
namespace Logrange.Lql
open Logrange.Generated.C12

def truncateBody : Node := .seq [optG (.capture "DryRun" (.lit kwDRYRUN)), optG (.capture "Source" (.strct "Source")),
  optG (kwSeq kwMINSIZE "MinSize" (.ref .number)), optG (kwSeq kwMAXSIZE "MaxSize" (.ref .number)),
  optG (kwSeq kwBEFORE "Before" (.ref .string)), optG (kwSeq kwMAXDBSIZE "MaxDbSize" (.ref .number))]
def showBody : Node := .group (.disj [kwAlt kwPARTITIONS "Partitions" "Partitions", kwAlt kwPIPES "Pipes" "Pipes"]) .once
def partitionsBody : Node := .seq [optG (.capture "Source" (.strct "Source")), optG (kwSeq kwOFFSET "Offset" (.ref .number)), optG (kwSeq kwLIMIT "Limit" (.ref .number))]
def pipesBody : Node := .seq [optG (.capture "Void" (.strct "Source")), optG (kwSeq kwOFFSET "Offset" (.ref .number)), optG (kwSeq kwLIMIT "Limit" (.ref .number))]
theorem g_truncate : grammar "Truncate" = some truncateBody := rfl
theorem g_show : grammar "Show" = some showBody := rfl
theorem g_partitions : grammar "Partitions" = some partitionsBody := rfl
theorem g_pipes : grammar "Pipes" = some pipesBody := rfl

theorem lql_truncate_eval (t : Tok) (r : List Tok) (g : Nat)
    (h1 : litMatch t kwSELECT = false) (h2 : litMatch t kwDESCRIBE = false) (h3 : litMatch t kwTRUNCATE = true) :
    parse ⟨t :: r, grammar⟩ (g + 30) (.strct "Lql") 0 = altRes "Lql" "Truncate" 0 (parse ⟨t :: r, grammar⟩ (g+18) (.strct "Truncate") 1) := by
  have hn : (⟨t :: r, grammar⟩ : Ctx).toks[0]? = some t := rfl
  rw [parse_strct _ _ "Lql" lqlBody 0 rfl]
  simp only [lqlBody, parse_once, parse_disj]
  rw [disj_skip _ 0 t hn _ _ _ _ (g+23) _ h1, disj_skip _ 0 t hn _ _ _ _ (g+22) _ h2]
  exact disj_hit _ 0 t hn _ _ _ _ (g+17) h3

theorem lql_show_eval (t : Tok) (r : List Tok) (g : Nat)
    (h1 : litMatch t kwSELECT = false) (h2 : litMatch t kwDESCRIBE = false) (h3 : litMatch t kwTRUNCATE = false)
    (h4 : litMatch t kwSHOW = true) :
    parse ⟨t :: r, grammar⟩ (g + 30) (.strct "Lql") 0 = altRes "Lql" "Show" 0 (parse ⟨t :: r, grammar⟩ (g+17) (.strct "Show") 1) := by
  have hn : (⟨t :: r, grammar⟩ : Ctx).toks[0]? = some t := rfl
  rw [parse_strct _ _ "Lql" lqlBody 0 rfl]
  simp only [lqlBody, parse_once, parse_disj]
  rw [disj_skip _ 0 t hn _ _ _ _ (g+23) _ h1, disj_skip _ 0 t hn _ _ _ _ (g+22) _ h2, disj_skip _ 0 t hn _ _ _ _ (g+21) _ h3]
  exact disj_hit _ 0 t hn _ _ _ _ (g+16) h4

/-! ## a chain of guarded optional clauses `("KW" @Tok)?` -/
abbrev Cl := Bytes × String × TT
def clNode (x : Cl) : Node := optG (kwSeq x.1 x.2.1 (.ref x.2.2))

/-- the raw (unconverted) direct reading of one guarded clause -/
def rawKw (kw : Bytes) (ty : TT) : List Tok → Option (Option Bytes × List Tok)
  | [] => some (none, [])
  | t :: rest =>
    if litMatch t kw then
      match rest with
      | n :: rest' => if n.t == ty then some (some n.v, rest') else none
      | [] => none
    else some (none, t :: rest)

def rawChain : List Cl → List Tok → Option (List (Option Bytes) × List Tok)
  | [], toks => some ([], toks)
  | x :: cls, toks =>
    match rawKw x.1 x.2.2 toks with
    | none => none
    | some (ob, rest) => (match rawChain cls rest with | none => none | some (obs, rest') => some (ob :: obs, rest'))

def obCaps (fl : String) : Option Bytes → Caps
  | some b => [(fl, [Val.str b])]
  | none => []

def rawCaps : List Cl → List (Option Bytes) → Caps
  | [], _ => []
  | x :: cls, obs =>
    match obs with
    | [] => []
    | ob :: obs' => obCaps x.2.1 ob ++ rawCaps cls obs'

theorem clause_step (c : Ctx) (kw : Bytes) (fl : String) (ty : TT) (f cur : Nat) (hcl : cur ≤ c.toks.length) :
    ∃ vals cp cur', parse c (f+7) (optG (kwSeq kw fl (.ref ty))) cur = .ok vals cp cur' ∧
      match rawKw kw ty (c.toks.drop cur) with
      | some (ob, rest) => cp = obCaps fl ob ∧ rest = c.toks.drop cur' ∧ cur ≤ cur' ∧ cur' ≤ c.toks.length
      | none => cur' = cur ∧ cp = [] ∧ ∃ t, c.toks[cur]? = some t ∧ litMatch t kw = true := by
  cases hn : c.toks[cur]? with
  | none =>
    rw [drop_of_none hn]
    exact ⟨[], [], cur, clause_none c kw fl _ (f+2) cur hn, by simp [obCaps], by simp [drop_of_none hn], Nat.le_refl _, hcl⟩
  | some t =>
    have hlt := lt_of_get hn
    rw [drop_of_get hn]
    cases hc : litMatch t kw with
    | false =>
      refine ⟨[], [], cur, clause_nolit c kw fl _ (f+2) cur t hn hc, ?_⟩
      simp only [rawKw, hc, Bool.false_eq_true, if_false]
      exact ⟨rfl, (drop_of_get hn).symm, Nat.le_refl _, hcl⟩
    | true =>
      rw [clause_lit c kw fl _ f cur t hn hc, parse_ref]
      simp only [rawKw, hc, if_true, peek]
      cases hn2 : c.toks[cur+1]? with
      | none =>
        rw [drop_of_none hn2]
        exact ⟨_, _, _, rfl, rfl, rfl, t, rfl, hc⟩
      | some n =>
        have hlt2 := lt_of_get hn2
        rw [drop_of_get hn2]
        by_cases hty : n.t = ty
        · simp only [hty, beq_self_eq_true, if_true]
          exact ⟨_, _, _, rfl, by simp [obCaps], rfl, by omega, by omega⟩
        · have hty' : (n.t == ty) = false := by simpa using hty
          simp only [hty', Bool.false_eq_true, if_false]
          exact ⟨_, _, _, rfl, rfl, rfl, t, rfl, hc⟩

theorem isEmpty_app {α : Type} {a : List α} (b : List α) (h : a.isEmpty = false) : (a ++ b).isEmpty = false := by
  cases a with
  | nil => simp at h
  | cons _ _ => rfl

def exclB (a b : Bytes) : Bool := !(a == b) && !(eqFold a b)
theorem litMatch_exclB (tk : Tok) (a b : Bytes) (h : exclB a b = true) (ha : litMatch tk a = true) : litMatch tk b = false := by
  simp only [exclB, Bool.and_eq_true, Bool.not_eq_true'] at h
  exact litMatch_excl tk a b h.1 h.2 ha

def ExclKw : List Cl → Bool
  | [] => true
  | x :: cls => cls.all (fun y => exclB x.1 y.1) && ExclKw cls

theorem chain_skip (c : Ctx) (t : Tok) (cur : Nat) (hn : c.toks[cur]? = some t) :
    ∀ (cls : List Cl), (∀ x ∈ cls, litMatch t x.1 = false) → ∀ (fe : Nat) (first : Bool) (vals : List Val) (caps : Caps),
      cls.length + 6 ≤ fe → vals.isEmpty = false →
      parseSeq c fe (cls.map clNode) cur first vals caps = .ok vals caps cur
  | [], _, fe, first, vals, caps, hfe, hv => by
    obtain ⟨g, rfl⟩ : ∃ g, fe = g + 1 := ⟨fe - 1, by simp at hfe; omega⟩
    simp [parseSeq_nil, hv]
  | x :: cls, hx, fe, first, vals, caps, hfe, hv => by
    obtain ⟨g, rfl⟩ : ∃ g, fe = g + 6 := ⟨fe - 6, by simp at hfe; omega⟩
    have h1 : litMatch t x.1 = false := hx x List.mem_cons_self
    have ih := chain_skip c t cur hn cls (fun y hy => hx y (List.mem_cons_of_mem _ hy)) (g+5) false vals caps (by simp at hfe; omega) hv
    simp only [List.map_cons, parseSeq_cons, clNode]
    rw [clause_nolit c x.1 x.2.1 _ g cur t hn h1]
    simpa using ih

theorem chain_sim (c : Ctx) : ∀ (cls : List Cl), ExclKw cls = true → ∀ (cur fe : Nat) (first : Bool) (vals : List Val) (caps : Caps),
    cur ≤ c.toks.length → cls.length + 8 ≤ fe → vals.isEmpty = false →
    ∃ vals' caps' cur', parseSeq c fe (cls.map clNode) cur first vals caps = .ok vals' caps' cur' ∧ vals'.isEmpty = false ∧
      match rawChain cls (c.toks.drop cur) with
      | some (obs, rest) => caps' = caps ++ rawCaps cls obs ∧ rest = c.toks.drop cur' ∧ cur' ≤ c.toks.length
      | none => cur' < c.toks.length
  | [], _, cur, fe, first, vals, caps, hcl, hfe, hv => by
    obtain ⟨g, rfl⟩ : ∃ g, fe = g + 1 := ⟨fe - 1, by simp at hfe; omega⟩
    exact ⟨vals, caps, cur, by simp [parseSeq_nil, hv], hv, by simp [rawCaps], rfl, hcl⟩
  | x :: cls, hex, cur, fe, first, vals, caps, hcl, hfe, hv => by
    obtain ⟨g, rfl⟩ : ∃ g, fe = g + 8 := ⟨fe - 8, by simp at hfe; omega⟩
    simp only [ExclKw, Bool.and_eq_true, List.all_eq_true] at hex
    obtain ⟨vals1, cp, cur1, heq, hcls⟩ := clause_step c x.1 x.2.1 x.2.2 g cur hcl
    simp only [List.map_cons, parseSeq_cons, clNode]
    rw [heq]
    simp only [rawChain]
    cases hr : rawKw x.1 x.2.2 (c.toks.drop cur) with
    | none =>
      rw [hr] at hcls
      obtain ⟨rfl, rfl, t, hn, hc⟩ := hcls
      have hsk := chain_skip c t cur1 hn cls (fun y hy => litMatch_exclB t x.1 y.1 (hex.1 y hy) hc) (g+7) false (vals ++ vals1) (caps ++ [])
        (by simp at hfe; omega) (isEmpty_app _ hv)
      exact ⟨_, _, _, hsk, isEmpty_app _ hv, lt_of_get hn⟩
    | some p =>
      obtain ⟨ob, rest⟩ := p
      rw [hr] at hcls
      obtain ⟨rfl, rfl, h1, h2⟩ := hcls
      obtain ⟨vals', caps', cur', heq2, hv2, hm⟩ := chain_sim c cls hex.2 cur1 (g+7) false (vals ++ vals1) (caps ++ obCaps x.2.1 ob) h2
        (by simp at hfe; omega) (isEmpty_app _ hv)
      refine ⟨vals', caps', cur', heq2, hv2, ?_⟩
      simp only []
      cases hr2 : rawChain cls (c.toks.drop cur1) with
      | none => rw [hr2] at hm; exact hm
      | some q =>
        obtain ⟨obs, rest'⟩ := q
        rw [hr2] at hm
        obtain ⟨rfl, hrest, hle⟩ := hm
        exact ⟨by simp [rawCaps], hrest, hle⟩

/-! ## the unguarded source: when the attempt fails softly -/

/-- the token configurations in which the `Source` attempt can get further than one token -/
def deepStart : List Tok → Bool
  | [] => false
  | t :: rest => litMatch t kwNOT || litMatch t LP ||
      (isOperandTok t && (match rest with | n :: _ => litMatch n LP || isOpTok n | [] => false))

theorem ident_nonop (c : Ctx) (hg : c.grammar = grammar) (g cur : Nat)
    (h : ∀ tk, c.toks[cur]? = some tk → isOperandTok tk = false) : parse c (g+20) (.strct "Identifier") cur = .noMatch := by
  rw [parse_strct c _ "Identifier" identBody cur (by rw [hg]; rfl)]
  cases hn : c.toks[cur]? with
  | none => simp only [identBody, parse_seq, parseSeq_cons, op_step_none c _ cur hn, if_true]
  | some tk => simp only [identBody, parse_seq, parseSeq_cons, op_step c _ cur tk hn, h tk hn, if_true, Bool.false_eq_true, if_false]

theorem ident_plain (c : Ctx) (hg : c.grammar = grammar) (g cur : Nat) (tk : Tok) (hn : c.toks[cur]? = some tk)
    (hop : isOperandTok tk = true) (hnx : ∀ p, c.toks[cur+1]? = some p → litMatch p LP = false) :
    parse c (g+20) (.strct "Identifier") cur = .ok [.node "Identifier" [("Operand", [.str tk.v])]] [] (cur+1) := by
  rw [parse_strct c _ "Identifier" identBody cur (by rw [hg]; rfl)]
  cases hnext : c.toks[cur+1]? with
  | none =>
    simp [identBody, parse_seq, parseSeq_cons, parseSeq_nil, op_step c _ cur tk hn, hop, parse_opt, parse_once, parse_lit, peek, hnext]
  | some p =>
    have hlp : litMatch p [40] = false := hnx p hnext
    simp [identBody, parse_seq, parseSeq_cons, parseSeq_nil, op_step c _ cur tk hn, hop, parse_opt, parse_once, parse_lit, peek, hnext, hlp]

theorem cond_nonop (c : Ctx) (hg : c.grammar = grammar) (g cur : Nat)
    (h : ∀ tk, c.toks[cur]? = some tk → isOperandTok tk = false) : parse c (g+40) (.strct "Condition") cur = .noMatch := by
  rw [parse_strct c _ "Condition" condBody cur (by rw [hg]; rfl)]
  have hi : parse c (g+36) (.strct "Identifier") cur = .noMatch := ident_nonop c hg (g+16) cur h
  simp only [condBody, parse_seq, parseSeq_cons, parse_capture, hi, if_true]

theorem cond_plain (c : Ctx) (hg : c.grammar = grammar) (g cur : Nat) (tk : Tok) (hn : c.toks[cur]? = some tk)
    (hop : isOperandTok tk = true) (hnx : ∀ p, c.toks[cur+1]? = some p → litMatch p LP = false ∧ isOpTok p = false) :
    parse c (g+40) (.strct "Condition") cur = .err (cur+1) true := by
  rw [parse_strct c _ "Condition" condBody cur (by rw [hg]; rfl)]
  have hi : parse c (g+36) (.strct "Identifier") cur = _ := ident_plain c hg (g+16) cur tk hn hop (fun p hp => (hnx p hp).1)
  cases hnext : c.toks[cur+1]? with
  | none =>
    have ho : parse c (g+36) opGroup (cur+1) = .noMatch := opGroup_none c (g+20) (cur+1) hnext
    simp [condBody, parse_seq, parseSeq_cons, parse_capture, hi, ho]
  | some p =>
    have ho : parse c (g+36) opGroup (cur+1) = .noMatch := by
      have h := opGroup_some c (g+20) (cur+1) p hnext; simp [(hnx p hnext).2] at h; exact h
    simp [condBody, parse_seq, parseSeq_cons, parse_capture, hi, ho]

theorem x_shallow (c : Ctx) (hg : c.grammar = grammar) (g cur : Nat) (hsh : deepStart (c.toks.drop cur) = false) :
    ∃ k, parse c (g+50) (.strct "XCondition") cur = .err k true ∧ k ≤ cur + 1 := by
  rw [parse_strct c _ "XCondition" xBody cur (by rw [hg]; rfl)]
  simp only [xBody, parse_seq, parseSeq_cons, notGroup, parse_opt, parse_capture, parse_lit, peek]
  cases hn : c.toks[cur]? with
  | none =>
    have hc : parse c (g+42) (.strct "Condition") cur = .noMatch := cond_nonop c hg (g+2) cur (fun tk h => by rw [hn] at h; cases h)
    have hp : parse c (g+42) parenSeq cur = .noMatch := paren_none c (g+39) cur hn
    exact ⟨cur, by simp [altGroup, parse_once, parse_disj, parseDisj_cons, parseDisj_nil, parse_capture, hc, hp], by omega⟩
  | some t =>
    rw [drop_of_get hn] at hsh
    simp only [deepStart, Bool.or_eq_false_iff, Bool.and_eq_false_iff] at hsh
    obtain ⟨⟨hnot, hlp⟩, hop⟩ := hsh
    have hnot' : litMatch t [78, 79, 84] = false := hnot
    have hp : parse c (g+42) parenSeq cur = .noMatch := paren_nolit c (g+39) cur t hn hlp
    cases hot : isOperandTok t with
    | false =>
      have hc : parse c (g+42) (.strct "Condition") cur = .noMatch :=
        cond_nonop c hg (g+2) cur (fun tk h => by rw [hn] at h; cases h; exact hot)
      exact ⟨cur, by simp [altGroup, parse_once, parse_disj, parseDisj_cons, parseDisj_nil, parse_capture, hc, hp, hnot'], by omega⟩
    | true =>
      have hnx : ∀ p, c.toks[cur+1]? = some p → litMatch p LP = false ∧ isOpTok p = false := by
        intro p hp
        rw [drop_of_get hp] at hop
        rcases hop with h | h
        · rw [hot] at h; cases h
        · simpa using h
      have hc : parse c (g+42) (.strct "Condition") cur = .err (cur+1) true := cond_plain c hg (g+2) cur t hn hot hnx
      exact ⟨cur+1, by simp [altGroup, parse_once, parse_disj, parseDisj_cons, parseDisj_nil, parse_capture, hc, hp, hnot', lookahead], by omega⟩

theorem source_shallow (c : Ctx) (hg : c.grammar = grammar) (g cur : Nat) (hsh : deepStart (c.toks.drop cur) = false)
    (hnt : ∀ t, c.toks[cur]? = some t → t.t ≠ TT.tags) :
    ∃ k, parse c (g+71) (.strct "Source") cur = .err k true ∧ k ≤ cur + 1 := by
  obtain ⟨k, hx, hk⟩ := x_shallow c hg (g+8) cur hsh
  have hx' : parse c (g+58) (.strct "XCondition") cur = .err k true := hx
  have ho : parse c (g+62) (.strct "OrCondition") cur = .err k true := by
    rw [parse_strct c _ "OrCondition" orBody cur (by rw [hg]; rfl)]
    simp [orBody, parse_seq, parseSeq_cons, parse_capture, hx']
  have he : parse c (g+66) (.strct "Expression") cur = .err k true := by
    rw [parse_strct c _ "Expression" exprBody cur (by rw [hg]; rfl)]
    simp [exprBody, parse_seq, parseSeq_cons, parse_capture, ho]
  refine ⟨k, ?_, hk⟩
  rw [parse_strct c _ "Source" sourceBody cur (by rw [hg]; rfl)]
  have hkk : ¬ (k > cur + lookahead) := by simp only [lookahead]; omega
  cases hn : c.toks[cur]? with
  | none => simp [sourceBody, parse_disj, parseDisj_cons, parseDisj_nil, parse_capture, parse_ref, peek, hn, he, hkk]
  | some t =>
    have ht : (t.t == TT.tags) = false := by simpa using hnt t hn
    simp [sourceBody, parse_disj, parseDisj_cons, parseDisj_nil, parse_capture, parse_ref, peek, hn, he, hkk, ht]

theorem src_step_ok (c : Ctx) (fl : String) (ns : List Node) (g s : Nat) (first : Bool) (vals0 : List Val) (caps0 : Caps)
    (v : Val) (cur' : Nat) (h : parse c g (.strct "Source") s = .ok [v] [] cur') :
    parseSeq c (g+4) (optG (.capture fl (.strct "Source")) :: ns) s first vals0 caps0
      = parseSeq c (g+3) ns cur' false (vals0 ++ [.str []]) (caps0 ++ [(fl, [v])]) := by
  simp [parseSeq_cons, parse_optG, parse_capture, h]
theorem src_step_soft (c : Ctx) (fl : String) (ns : List Node) (g s : Nat) (first : Bool) (vals0 : List Val) (caps0 : Caps)
    (k : Nat) (h : parse c g (.strct "Source") s = .err k true) (hk : k ≤ s + 1) :
    parseSeq c (g+4) (optG (.capture fl (.strct "Source")) :: ns) s first vals0 caps0
      = parseSeq c (g+3) ns s false (vals0 ++ [.str []]) caps0 := by
  have hkk : ¬ (k > s + lookahead) := by simp only [lookahead]; omega
  simp [parseSeq_cons, parse_optG, parse_capture, h, hkk]
theorem src_step_hard (c : Ctx) (fl : String) (ns : List Node) (g s : Nat) (first : Bool) (vals0 : List Val) (caps0 : Caps)
    (k : Nat) (h : parse c g (.strct "Source") s = .err k true) (hk : s + 1 < k) :
    parseSeq c (g+4) (optG (.capture fl (.strct "Source")) :: ns) s first vals0 caps0 = .err k true := by
  have hkk : k > s + lookahead := by simp only [lookahead]; omega
  simp [parseSeq_cons, parse_optG, parse_capture, h, hkk]

/-- the clause chain run to its end: either tokens are left (and the raw direct chain does not consume everything either), or
everything is consumed with exactly the raw chain's captures -/
theorem chain_finish (c : Ctx) (cls : List Cl) (hex : ExclKw cls = true) (cur fe : Nat) (vals : List Val) (caps : Caps)
    (hcl : cur ≤ c.toks.length) (hfe : cls.length + 8 ≤ fe) (hv : vals.isEmpty = false) :
    (∃ vals' caps' cur', parseSeq c fe (cls.map clNode) cur false vals caps = .ok vals' caps' cur' ∧ cur' < c.toks.length ∧
        ∀ obs, rawChain cls (c.toks.drop cur) ≠ some (obs, []))
    ∨ (∃ vals' obs, parseSeq c fe (cls.map clNode) cur false vals caps = .ok vals' (caps ++ rawCaps cls obs) c.toks.length ∧
        vals'.isEmpty = false ∧ rawChain cls (c.toks.drop cur) = some (obs, [])) := by
  obtain ⟨vals', caps', cur', heq, hv', hm⟩ := chain_sim c cls hex cur fe false vals caps hcl hfe hv
  cases hr : rawChain cls (c.toks.drop cur) with
  | none =>
    rw [hr] at hm
    left; exact ⟨vals', caps', cur', heq, hm, fun obs h => by cases h⟩
  | some p =>
    obtain ⟨obs, rest⟩ := p
    rw [hr] at hm
    obtain ⟨rfl, hrest, hle⟩ := hm
    by_cases hc : cur' = c.toks.length
    · subst hc
      right; refine ⟨vals', obs, heq, hv', ?_⟩
      rw [hrest]; simp
    · left; refine ⟨vals', _, cur', heq, by omega, fun obs' h => ?_⟩
      simp only [Option.some.injEq, Prod.mk.injEq] at h
      have : (c.toks.drop cur').length = 0 := by rw [← hrest, h.2]; rfl
      simp only [List.length_drop] at this; omega

def srcCaps (fl : String) : List Val → Caps
  | [] => []
  | v :: vs => [(fl, v :: vs)]
/-- the source field as `optSource` converts it -/
def srcConv (ft : Nat) : List Val → Option (Option Source)
  | [] => some none
  | [v] => (toSource ft v).map some
  | _ => none

/-- the outcome of `(@@)? clauses…` run by the engine vs `dOptSource` and the raw chain -/
def SrcChainRel (c : Ctx) (fl : String) (cls : List Cl) (s fd ft : Nat) (caps0 : Caps) (R : Res) : Prop :=
  (((∃ k hv, R = .err k hv ∧ s + 1 < k) ∨ (∃ vals' caps' cur', R = .ok vals' caps' cur' ∧ cur' < c.toks.length)) ∧
    (dOptSource fd (c.toks.drop s) = none
     ∨ (dOptSource fd (c.toks.drop s) = some (none, c.toks.drop s) ∧ deepStart (c.toks.drop s) = true)
     ∨ (∃ osrc rest, dOptSource fd (c.toks.drop s) = some (osrc, rest) ∧ ∀ obs, rawChain cls rest ≠ some (obs, []))))
  ∨ (∃ vals' sv rest obs, R = .ok vals' (caps0 ++ srcCaps fl sv ++ rawCaps cls obs) c.toks.length ∧ vals'.isEmpty = false ∧
      dOptSource fd (c.toks.drop s) = (srcConv ft sv).map (fun o => (o, rest)) ∧ rawChain cls rest = some (obs, []))

theorem src_chain (c : Ctx) (hg : c.grammar = grammar) (hH : OperandNotParen c.toks) (fl : String) (cls : List Cl)
    (hex : ExclKw cls = true) (hao : ∀ x ∈ cls, exclB kwAND x.1 = true ∧ exclB kwOR x.1 = true)
    (s : Nat) (hs : s ≤ c.toks.length) (first : Bool) (vals0 : List Val) (caps0 : Caps)
    (fe fd ft : Nat) (hfe : 60 * (c.toks.length - s) + cls.length + 90 ≤ fe) (hfd : 4 * (c.toks.length - s) + 5 ≤ fd)
    (hft : 8 * (c.toks.length - s) + 8 ≤ ft) :
    SrcChainRel c fl cls s fd ft caps0 (parseSeq c fe (optG (.capture fl (.strct "Source")) :: cls.map clNode) s first vals0 caps0) := by
  obtain ⟨g, rfl⟩ : ∃ g, fe = g + 75 := ⟨fe - 75, by omega⟩
  have hv1 : (vals0 ++ [Val.str []]).isEmpty = false := by simp
  -- the soft-error continuation, shared
  have soft : ∀ k, parse c (g+71) (.strct "Source") s = .err k true → k ≤ s + 1 →
      dOptSource fd (c.toks.drop s) = some (none, c.toks.drop s) →
      SrcChainRel c fl cls s fd ft caps0 (parseSeq c (g+71+4) (optG (.capture fl (.strct "Source")) :: cls.map clNode) s first vals0 caps0) := by
    intro k hR hk hd
    rw [src_step_soft c fl _ (g+71) s first vals0 caps0 k hR hk]
    rcases chain_finish c cls hex s (g+71+3) (vals0 ++ [.str []]) caps0 hs (by omega) hv1 with
      ⟨vals', caps', cur', heq, hlt, hno⟩ | ⟨vals', obs, heq, hv', hr⟩
    · left; exact ⟨Or.inr ⟨vals', caps', cur', heq, hlt⟩, Or.inr (Or.inr ⟨none, _, hd, hno⟩)⟩
    · right; exact ⟨vals', [], c.toks.drop s, obs, by simpa [srcCaps] using heq, hv', by simp [srcConv, hd], hr⟩
  -- the continuation after a matched source
  have okc : ∀ v cur', parse c (g+71) (.strct "Source") s = .ok [v] [] cur' → cur' ≤ c.toks.length →
      dOptSource fd (c.toks.drop s) = (srcConv ft [v]).map (fun o => (o, c.toks.drop cur')) →
      SrcChainRel c fl cls s fd ft caps0 (parseSeq c (g+71+4) (optG (.capture fl (.strct "Source")) :: cls.map clNode) s first vals0 caps0) := by
    intro v cur' hR hle hd
    rw [src_step_ok c fl _ (g+71) s first vals0 caps0 v cur' hR]
    rcases chain_finish c cls hex cur' (g+71+3) (vals0 ++ [.str []]) (caps0 ++ [(fl, [v])]) hle (by omega) hv1 with
      ⟨vals', caps', cur2, heq, hlt, hno⟩ | ⟨vals', obs, heq, hv', hr⟩
    · left; refine ⟨Or.inr ⟨vals', caps', cur2, heq, hlt⟩, ?_⟩
      cases hsc : srcConv ft [v] with
      | none => left; rw [hd, hsc]; rfl
      | some o => right; right; exact ⟨o, _, by rw [hd, hsc]; rfl, hno⟩
    · right; exact ⟨vals', [v], c.toks.drop cur', obs, by simpa [srcCaps] using heq, hv', hd, hr⟩
  show SrcChainRel c fl cls s fd ft caps0 (parseSeq c (g+71+4) _ s first vals0 caps0)
  cases hn : c.toks[s]? with
  | none =>
    have hdrop := drop_of_none hn
    obtain ⟨k, hR, hk⟩ := source_shallow c hg g s (by rw [hdrop]; rfl) (fun t h => by rw [hn] at h; cases h)
    exact soft k hR hk (by rw [hdrop]; rfl)
  | some t =>
    have hlt := lt_of_get hn
    have hdrop := drop_of_get hn
    by_cases ht : t.t = TT.tags
    · have hR : parse c (g+71) (.strct "Source") s = .ok [.node "Source" [("Tags", [.str t.v])]] [] (s+1) := by
        rw [parse_strct c _ "Source" sourceBody s (by rw [hg]; rfl)]
        simp [sourceBody, parse_disj, parseDisj_cons, parse_capture, parse_ref, peek, hn, ht]
      refine okc _ (s+1) hR (by omega) ?_
      rw [hdrop]
      simp only [dOptSource, ht, beq_self_eq_true, if_true, srcConv]
      cases hp : KV.tagParse t.v <;> simp [toSource, fv, fieldVals, strs, hp]
    · have ht' : (t.t == TT.tags) = false := by simpa using ht
      have he := simExpr c hg hH _ s (Nat.le_refl _) hs (g+66) fd (by omega) hfd
      have hdo : dOptSource fd (c.toks.drop s) = (match dExpr fd (c.toks.drop s) with
          | some (e, r') => some (some (.expr e), r') | none => some (none, c.toks.drop s)) := by
        rw [hdrop]; simp only [dOptSource, ht', Bool.false_eq_true, if_false]
        cases dExpr fd (t :: List.drop (s + 1) c.toks) <;> rfl
      have notdeep : ∀ r, parse c (g+71) (.strct "Source") s = r → (∀ k, r ≠ .err k true) → deepStart (c.toks.drop s) = true := by
        intro r hr hne
        cases hds : deepStart (c.toks.drop s) with
        | true => rfl
        | false =>
          obtain ⟨k', hR', _⟩ := source_shallow c hg g s hds (fun t' h => by rw [hn] at h; cases h; exact ht)
          exact absurd (hr.symm.trans hR') (hne k')
      cases hd : dExpr fd (c.toks.drop s) with
      | some res =>
        obtain ⟨e, rest⟩ := res
        rw [hd] at he hdo
        obtain ⟨v, cur', hRe, hrel, hrest, h1, h2⟩ := he
        have hR : parse c (g+71) (.strct "Source") s = .ok [.node "Source" [("Expr", [v])]] [] cur' := by
          rw [parse_strct c _ "Source" sourceBody s (by rw [hg]; rfl)]
          simp [sourceBody, parse_disj, parseDisj_cons, parse_capture, parse_ref, peek, hn, ht', hRe]
        refine okc _ cur' hR h2 ?_
        have hcv := dExpr_cv hd
        simp only [List.length_drop] at hcv
        have hcs : toSource ft (.node "Source" [("Expr", [v])]) = some (.expr e) :=
          convSource (.expr e) _ ft ⟨v, rfl, hrel⟩ (by simp only [cvSource]; omega)
        simp only [hdo, srcConv, hcs, Option.map_some, hrest]
      | none =>
        rw [hd] at he hdo
        simp only [SimExpr] at he
        rcases he with ⟨k, hRe, hk⟩ | ⟨v, cur', hRe, hlt', hst⟩
        · have hR : parse c (g+71) (.strct "Source") s = .err k true := by
            rw [parse_strct c _ "Source" sourceBody s (by rw [hg]; rfl)]
            by_cases hgt : k > s + lookahead <;>
              simp [sourceBody, parse_disj, parseDisj_cons, parseDisj_nil, parse_capture, parse_ref, peek, hn, ht', hRe, hgt]
          by_cases hks : k ≤ s + 1
          · exact soft k hR hks hdo
          · rw [src_step_hard c fl _ (g+71) s first vals0 caps0 k hR (by omega)]
            left
            refine ⟨Or.inl ⟨k, true, rfl, by omega⟩, Or.inr (Or.inl ⟨hdo, ?_⟩)⟩
            cases hds : deepStart (c.toks.drop s) with
            | true => rfl
            | false =>
              obtain ⟨k', hR', hk'⟩ := source_shallow c hg g s hds (fun t' h => by rw [hn] at h; cases h; exact ht)
              rw [hR] at hR'
              simp only [Res.err.injEq, and_true] at hR'
              omega
        · have hR : parse c (g+71) (.strct "Source") s = .ok [.node "Source" [("Expr", [v])]] [] cur' := by
            rw [parse_strct c _ "Source" sourceBody s (by rw [hg]; rfl)]
            simp [sourceBody, parse_disj, parseDisj_cons, parse_capture, parse_ref, peek, hn, ht', hRe]
          have hdeep := notdeep _ hR (fun k h => by cases h)
          obtain ⟨q, hq, hqm⟩ : ∃ q, c.toks[cur']? = some q ∧ (litMatch q kwAND = true ∨ litMatch q kwOR = true) := by
            rcases hst with ⟨q, hq, h⟩ | ⟨q, hq, h⟩
            · exact ⟨q, hq, Or.inl h⟩
            · exact ⟨q, hq, Or.inr h⟩
          have hsk := chain_skip c q cur' hq cls (fun x hx => by
            rcases hqm with h | h
            · exact litMatch_exclB q _ _ (hao x hx).1 h
            · exact litMatch_exclB q _ _ (hao x hx).2 h) (g+71+3) false (vals0 ++ [.str []]) (caps0 ++ [(fl, [.node "Source" [("Expr", [v])]])])
            (by omega) hv1
          rw [src_step_ok c fl _ (g+71) s first vals0 caps0 _ cur' hR, hsk]
          left
          exact ⟨Or.inr ⟨_, _, cur', rfl, lt_of_get hq⟩, Or.inr (Or.inl ⟨hdo, hdeep⟩)⟩

end Logrange.Lql
