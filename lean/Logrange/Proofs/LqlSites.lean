import Logrange.Model.LqlSites
/-! Lemmas for `Props/C13Sites.lean`. -/
namespace Logrange.LqlSites
open Go Logrange Outcome

theorem index_ok {α : Type} (l : List α) (i : Nat) (h : i < l.length) : Go.index l i = .ok l[i] := by
  unfold Go.index
  have : l[i]? = some l[i] := by simp [h]
  rw [this]

theorem index_noPanic_of_len {α : Type} (l : List α) (need i : Nat) (h : need ≤ l.length) (hi : i + 1 ≤ need) :
    (Go.index l i).isPanic = false := by
  rw [index_ok l i (by omega)]; rfl

theorem sliceFrom_noPanic_of_len (b : Bytes) (need k : Nat) (h : need ≤ b.length) (hk : k ≤ need) :
    (Go.sliceFrom b k).isPanic = false := by
  rw [sliceFrom_ok_of (by omega)]; rfl

theorem sliceFromL_noPanic_of_len {α : Type} (l : List α) (need k : Nat) (h : need ≤ l.length) (hk : k ≤ need) :
    (sliceFromL l k).isPanic = false := by
  unfold sliceFromL
  rw [if_pos (by omega)]; rfl

theorem slice_noPanic_of_len (b : Bytes) (need a c : Nat) (h : need ≤ b.length) (hk : a + c ≤ need) :
    (Go.slice b a ((b.length : Int) - c)).isPanic = false := by
  have hb : (0 : Int) ≤ (a : Int) ∧ (a : Int) ≤ (b.length : Int) - c ∧ (b.length : Int) - c ≤ (b.length : Int) := by omega
  rw [slice_ok_of hb]; rfl

theorem deref_noPanic {α : Type} (p : Option α) (h : p ≠ none) : (deref p).isPanic = false := by
  cases p with
  | none => exact absurd rfl h
  | some a => rfl

theorem relDateTime_noPanic (first : UInt8) (dims : List UInt8) (hfd : dims.contains first = false) (dt : Bytes) :
    (relDateTime first dims dt).isPanic = false := by
  unfold relDateTime
  split
  · rfl
  · rename_i hlen
    rw [index_ok dt 0 (by omega), bind_ok]
    split
    · rfl
    · rename_i hc0
      rw [index_ok dt (dt.length - 1) (by omega), bind_ok]
      split
      · rename_i hdim
        -- the last byte is among dims, the first one is not: they are different bytes, so there are at least two
        have h2 : 2 ≤ dt.length := by
          rcases Nat.lt_or_ge dt.length 2 with hlt | hge
          · exfalso
            have h1 : dt.length = 1 := by omega
            have hsame : dt[dt.length - 1]'(by omega) = dt[0]'(by omega) := by
              congr 1; omega
            have hf : dt[0]'(by omega) = first := Decidable.byContradiction (fun hne => hc0 hne)
            rw [hsame, hf, hfd] at hdim
            exact Bool.false_ne_true hdim
          · exact hge
        have hb : (0 : Int) ≤ 1 ∧ (1 : Int) ≤ (dt.length : Int) - 1 ∧ (dt.length : Int) - 1 ≤ (dt.length : Int) := by omega
        rw [slice_ok_of hb]; rfl
      · rfl

theorem fldCut_noPanic (lower : Bytes → Bytes) (hl : ∀ s, (lower s).length = s.length) (fldName : Bytes) :
    (fldCut lower fldName).isPanic = false := by
  unfold fldCut
  simp only []
  split
  · rfl
  · rename_i h
    have h8 : 8 ≤ (lower fldName).length := by
      rcases Nat.lt_or_ge (lower fldName).length 8 with hlt | hge
      · exact absurd (Or.inr hlt) h
      · exact hge
    rw [hl] at h8
    rw [sliceFrom_ok_of (by omega)]; rfl

theorem walkConds_noPanic {α : Type} : ∀ (fuel : Nat) (l : List α), (walkConds fuel l).isPanic = false
  | 0, _ => rfl
  | fuel + 1, l => by
    unfold walkConds
    split
    · rfl
    · rename_i h0
      rw [index_ok l 0 (by omega), bind_ok]
      split
      · rfl
      · have : sliceFromL l 1 = .ok (l.drop 1) := by unfold sliceFromL; rw [if_pos (by omega)]
        rw [this, bind_ok]
        exact bind_isPanic_false (walkConds_noPanic fuel _) (fun _ _ => rfl)

theorem walkConds_fuel {α : Type} : ∀ (fuel : Nat) (l : List α), l.length < fuel → (walkConds fuel l).isOutOfFuel = false
  | 0, _, h => by omega
  | fuel + 1, l, h => by
    unfold walkConds
    split
    · rfl
    · rename_i h0
      rw [index_ok l 0 (by omega), bind_ok]
      split
      · rfl
      · have : sliceFromL l 1 = .ok (l.drop 1) := by unfold sliceFromL; rw [if_pos (by omega)]
        rw [this, bind_ok]
        have ih := walkConds_fuel fuel (l.drop 1) (by simp; omega)
        cases hw : walkConds fuel (l.drop 1) with
        | ok n => rfl
        | err => rfl
        | panic w => rfl
        | outOfFuel => rw [hw] at ih; simp [isOutOfFuel] at ih

end Logrange.LqlSites
