import Logrange.Proofs.RdRngFwd
/-!
The window contract (C03/C16 with RANGE): when every record a filter `f` accepts lies inside its chunk's window
(`WinSoundF`; for `f` = "timestamp in the range (and WHERE)" this is `WinSound`, C02's statement about the time index),
filtering the ADMITTED records is filtering the STORED records — as a whole and from any position.
-/
set_option linter.unusedVariables false
namespace Logrange.Rd

def WinSoundF (j : Journal) (f : Rec → Bool) : Prop :=
  ∀ c ∈ j, ∀ (k : Nat) (r : Rec), c.recs[k]? = some r → f r = true → c.minPos ≤ k ∧ k ≤ c.maxPos

theorem WinSound.toF {j : Journal} {lo hi : Option Int} (h : WinSound j lo hi) {f : Rec → Bool}
    (hf : ∀ r, f r = true → inRange lo hi r = true) : WinSoundF j f :=
  fun c hc k r hr hfr => h c hc k r hr (hf r hfr)

theorem rwn_skip {α : Type} (f : α → Bool) (l : List α) : ∀ (d x : Nat),
    (∀ i, x ≤ i → i < x + d → ∀ e, l[i]? = some e → f e = false) →
    (l.drop x).filter f = (l.drop (x + d)).filter f := by
  intro d
  induction d with
  | zero => intro x _; rfl
  | succ d ih =>
    intro x h
    cases hx : l[x]? with
    | none =>
      have hlen : l.length ≤ x := List.getElem?_eq_none_iff.mp hx
      rw [List.drop_eq_nil_of_le hlen, List.drop_eq_nil_of_le (by omega)]
    | some e =>
      have hlt : x < l.length := (List.getElem?_eq_some_iff.mp hx).1
      have he : l[x] = e := (List.getElem?_eq_some_iff.mp hx).2
      rw [List.drop_eq_getElem_cons hlt, he, List.filter_cons, h x (Nat.le_refl _) (by omega) e hx]
      simp only [Bool.false_eq_true, if_false]
      have := ih (x + 1) (fun i h1 h2 e' he' => h i (by omega) (by omega) e' he')
      rw [this]; congr 2; omega

theorem rwn_take {α : Type} (f : α → Bool) : ∀ (l : List α) (n m : Nat),
    (∀ i, n ≤ i → ∀ e, l[i]? = some e → f e = false) →
    ((l.take n).drop m).filter f = (l.drop m).filter f := by
  intro l
  induction l with
  | nil => intro n m _; simp
  | cons e t ih =>
    intro n m h
    cases n with
    | zero =>
      have : ((e :: t).drop m).filter f = [] := by
        rw [List.filter_eq_nil_iff]
        intro a ha
        obtain ⟨i, hi⟩ := List.getElem?_of_mem ha
        rw [List.getElem?_drop] at hi
        simp [h (m + i) (Nat.zero_le _) a hi]
      rw [this]; simp
    | succ n =>
      have ht : ∀ i, n ≤ i → ∀ e', t[i]? = some e' → f e' = false :=
        fun i hi e' he' => h (i + 1) (by omega) e' (by simpa using he')
      cases m with
      | zero =>
        have := ih n 0 ht
        simp only [List.drop_zero] at this
        simp only [List.take_succ_cons, List.drop_zero, List.filter_cons, this]
      | succ m =>
        simp only [List.take_succ_cons, List.drop_succ_cons]
        exact ih n m ht

/-- one chunk: the admitted records from `wBefore k` on, filtered = the stored records from `k` on, filtered -/
theorem rwn_chunk (c : Chunk) (f : Rec → Bool)
    (hw : ∀ (k : Nat) (r : Rec), c.recs[k]? = some r → f r = true → c.minPos ≤ k ∧ k ≤ c.maxPos) (k : Nat) :
    (c.wrecs.drop (c.wBefore k)).filter f = (c.recs.drop k).filter f := by
  have hout : ∀ i e, c.recs[i]? = some e → (i < c.minPos ∨ c.maxPos < i) → f e = false := by
    intro i e he hi
    cases hf : f e with
    | false => rfl
    | true => have := hw i e he hf; omega
  unfold Chunk.wrecs
  rw [List.drop_drop]
  have hm : ∃ m, c.minPos + c.wBefore k = m ∧ m = max c.minPos (min k c.hi) := ⟨_, rfl, by unfold Chunk.wBefore; omega⟩
  obtain ⟨m, hm1, hm2⟩ := hm
  have hm1' : c.wBefore k + c.minPos = m := by omega
  first
    | rw [hm1]
    | rw [hm1']
  rw [rwn_take f c.recs (c.maxPos + 1) m (fun i hi e he => hout i e he (Or.inr (by omega)))]
  rcases Nat.le_total k m with hkm | hmk
  · obtain ⟨d, rfl⟩ : ∃ d, m = k + d := ⟨m - k, by omega⟩
    rw [← rwn_skip f c.recs d k]
    intro i h1 h2 e he
    exact hout i e he (Or.inl (by omega))
  · obtain ⟨d, rfl⟩ : ∃ d, k = m + d := ⟨k - m, by omega⟩
    rw [rwn_skip f c.recs d m]
    intro i h1 h2 e he
    have hlt : i < c.recs.length := (List.getElem?_eq_some_iff.mp he).1
    refine hout i e he (Or.inr ?_)
    unfold Chunk.hi Chunk.cnt at hm2
    by_cases hd : d = 0
    · omega
    · omega

theorem rwn_chunk_all (c : Chunk) (f : Rec → Bool)
    (hw : ∀ (k : Nat) (r : Rec), c.recs[k]? = some r → f r = true → c.minPos ≤ k ∧ k ≤ c.maxPos) :
    c.wrecs.filter f = c.recs.filter f := by
  have := rwn_chunk c f hw 0
  simpa [Chunk.wBefore] using this

/-- **the admitted records filtered = the stored records filtered** -/
theorem rwn_filter_wflat {j : Journal} {f : Rec → Bool} (hw : WinSoundF j f) :
    (wflat j).filter f = (flat j).filter f := by
  induction j with
  | nil => rfl
  | cons c r ih =>
    rw [rw_wflat_cons, flat_cons, List.filter_append, List.filter_append,
      rwn_chunk_all c f (hw c (List.mem_cons_self ..)), ih (fun x hx => hw x (List.mem_cons_of_mem _ hx))]

/-- … and from any position -/
theorem rwn_filter_from {j : Journal} {f : Rec → Bool} (hs : Sorted j) (hw : WinSoundF j f) (p : Pos) :
    ((wflat j).drop (wflatIdx j p)).filter f = ((flat j).drop (flatIdx j p)).filter f := by
  induction j with
  | nil => rfl
  | cons c r ih =>
    have hwr : WinSoundF r f := fun x hx => hw x (List.mem_cons_of_mem _ hx)
    rw [rw_wflat_cons, flat_cons, wflatIdx_cons, flatIdx_cons]
    by_cases h1 : c.id < p.cid
    · have e1 : wfiTerm c p = c.wrecs.length := by simp only [wfiTerm, h1, if_true, rw_wrecs_length]
      have e2 : fiTerm c p = c.recs.length := by simp only [fiTerm, h1, if_true, Chunk.cnt]
      have d1 : (c.wrecs ++ wflat r).drop (c.wrecs.length + wflatIdx r p) = (wflat r).drop (wflatIdx r p) := by
        rw [List.drop_append, List.drop_eq_nil_of_le (Nat.le_add_right _ _), Nat.add_sub_cancel_left, List.nil_append]
      have d2 : (c.recs ++ flat r).drop (c.recs.length + flatIdx r p) = (flat r).drop (flatIdx r p) := by
        rw [List.drop_append, List.drop_eq_nil_of_le (Nat.le_add_right _ _), Nat.add_sub_cancel_left, List.nil_append]
      rw [e1, e2, d1, d2]
      exact ih hs.tail hwr
    · have hlt := hs.head_lt
      have z1 : wflatIdx r p = 0 := wflatIdx_eq_zero (fun x hx => by
        have := hlt x hx; simp only [wfiTerm]; rw [if_neg (by omega), if_neg (by omega)])
      have z2 : flatIdx r p = 0 := flatIdx_eq_zero (fun x hx => by
        have := hlt x hx; simp only [fiTerm]; rw [if_neg (by omega), if_neg (by omega)])
      rw [z1, z2, Nat.add_zero, Nat.add_zero]
      have hk : ∃ k, wfiTerm c p = c.wBefore k ∧ fiTerm c p = min k c.cnt := by
        by_cases h2 : c.id = p.cid
        · exact ⟨p.idx, by simp [wfiTerm, h2], by simp [fiTerm, h2]⟩
        · exact ⟨0, by simp [wfiTerm, h1, h2, Chunk.wBefore], by simp [fiTerm, h1, h2]⟩
      obtain ⟨k, k1, k2⟩ := hk
      rw [k1, k2]
      have l1 : c.wBefore k ≤ c.wrecs.length := by rw [rw_wrecs_length]; exact rw_wBefore_le c k
      have l2 : min k c.cnt ≤ c.recs.length := by unfold Chunk.cnt; omega
      rw [List.drop_append_of_le_length l1, List.drop_append_of_le_length l2, List.filter_append, List.filter_append,
        rwn_chunk c f (hw c (List.mem_cons_self ..)) k, rwn_filter_wflat hwr]
      congr 2
      have hcnt : c.cnt = c.recs.length := rfl
      by_cases hkc : k ≤ c.cnt
      · rw [Nat.min_eq_left hkc]
      · rw [Nat.min_eq_right (by omega), List.drop_eq_nil_of_le (by omega), List.drop_eq_nil_of_le (by omega)]

/-- … and BEFORE any position (the backward walks) -/
theorem rwn_filter_upto {j : Journal} {f : Rec → Bool} (hs : Sorted j) (hw : WinSoundF j f) (p : Pos) :
    ((wflat j).take (wflatIdx j p)).filter f = ((flat j).take (flatIdx j p)).filter f := by
  have h1 := rwn_filter_wflat hw
  have h2 := rwn_filter_from hs hw p
  rw [← List.take_append_drop (wflatIdx j p) (wflat j), ← List.take_append_drop (flatIdx j p) (flat j),
    List.filter_append, List.filter_append, h2] at h1
  exact List.append_cancel_right h1

end Logrange.Rd
