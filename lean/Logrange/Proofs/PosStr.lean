import Logrange.Model.PosStr
/-! Lemmas about position strings (C13): `ParsePos` and `applyStatePos` pass every bounds check, for all strings. -/
namespace Logrange.PosStr
open Go Logrange Outcome

theorem parsePos_noPanic (s : Bytes) : (parsePos s).isPanic = false := by
  unfold parsePos
  split
  · rfl
  · split
    · rfl
    · rename_i h0 h24
      have hl : s.length = 24 := by omega
      have hb : (0 : Int) ≤ 0 ∧ (0 : Int) ≤ 16 ∧ (16 : Int) ≤ (s.length : Int) := by omega
      rw [slice_ok_of hb, bind_ok]
      split
      · rfl
      · rw [sliceFrom_ok_of (by omega), bind_ok]
        split <;> rfl

/-- `strings.Split` never returns an empty list -/
theorem splitByte_ne_nil (sep : UInt8) : ∀ s : Bytes, splitByte sep s ≠ []
  | [] => by simp [splitByte]
  | c :: r => by
    unfold splitByte
    split
    · simp
    · split <;> simp

theorem applyParts_noPanic : ∀ (vs : List Bytes) (m : List (Bytes × (Nat × Nat))), (applyParts vs m).isPanic = false
  | [], _ => rfl
  | v :: vs, m => by
    unfold applyParts
    simp only []
    generalize splitByte Generated.C13.posJrnlVal v = kv
    split
    · rfl
    · rename_i hlen
      match kv, hlen with
      | [a, b], _ =>
        have h0 : Go.index [a, b] 0 = .ok a := rfl
        have h1 : Go.index [a, b] 1 = .ok b := rfl
        rw [h0, bind_ok, h1, bind_ok]
        refine bind_isPanic_false (parsePos_noPanic b) ?_
        intro p _
        exact applyParts_noPanic vs _
      | [], h => simp at h
      | [_], h => simp at h
      | _ :: _ :: _ :: _, h => simp at h

end Logrange.PosStr
