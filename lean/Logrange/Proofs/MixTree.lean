import Logrange.Model.MixTree
/-!
# Proofs about `Logrange.Model.MixTree`

* the in-place pairwise reduction of `newCursor` (`pairLoop`/`round`/`reduce`/`build`) is the obvious pure pairing and
  keeps the leaves in order;
* `getJournals` with its limit: failing run gives back the readers it was given, run under the limit acquires every
  matching partition once.
-/
namespace Logrange.MixTree
open Logrange.Mixer

variable {σ : Type} [Source σ] [Inhabited σ]

-- the statements below are kept under the `variable` line of the model (the instances are auto-included)
set_option linter.unusedSectionVars false

/-- the obvious pure pairing -/
def pairs : List (It σ) → List (It σ)
  | a :: b :: r => It.init a b :: pairs r
  | l => l        -- [] and [a]

/-- the mixers of the complete pairs -/
def pairsHead : List (It σ) → List (It σ)
  | a :: b :: r => It.init a b :: pairsHead r
  | _ => []

/-- the left-over element, if any -/
def tailOdd : List (It σ) → List (It σ)
  | _ :: _ :: r => tailOdd r
  | l => l

theorem pairs_eq_head_tail : ∀ (l : List (It σ)), pairs l = pairsHead l ++ tailOdd l
  | [] => by simp [pairs, pairsHead, tailOdd]
  | [a] => by simp [pairs, pairsHead, tailOdd]
  | a :: b :: r => by simp [pairs, pairsHead, tailOdd, pairs_eq_head_tail r]

theorem length_head_tail : ∀ (l : List (It σ)), l.length = 2 * (pairsHead l).length + (tailOdd l).length
  | [] => by simp [pairsHead, tailOdd]
  | [a] => by simp [pairsHead, tailOdd]
  | a :: b :: r => by simp [pairsHead, tailOdd, length_head_tail r]; omega

theorem tailOdd_length_le : ∀ (l : List (It σ)), (tailOdd l).length ≤ 1
  | [] => by simp [tailOdd]
  | [a] => by simp [tailOdd]
  | a :: b :: r => by simp [tailOdd, tailOdd_length_le r]

/-- the invariant of the inner loop at `i = 2*k`: `pre` (`k` mixers built), `mid` (`k` stale entries), `rest` (unread) -/
theorem pairLoop_inv (fuel : Nat) : ∀ (pre mid rest : List (It σ)), pre.length = mid.length → rest.length ≤ fuel →
    ∃ mid', mid'.length = mid.length + (pairsHead rest).length ∧
      pairLoop fuel (2 * pre.length) (pre ++ mid ++ rest) = pre ++ pairsHead rest ++ mid' ++ tailOdd rest := by
  induction fuel with
  | zero =>
    intro pre mid rest h hr
    have : rest = [] := List.eq_nil_of_length_eq_zero (by omega)
    subst this
    exact ⟨mid, by simp [pairsHead], by simp [pairLoop, pairsHead, tailOdd]⟩
  | succ f ih =>
    intro pre mid rest h hr
    match rest, hr with
    | [], _ =>
      refine ⟨mid, by simp [pairsHead], ?_⟩
      rw [pairLoop, if_neg (by simp; omega)]
      simp [pairsHead, tailOdd]
    | [x], _ =>
      refine ⟨mid, by simp [pairsHead], ?_⟩
      rw [pairLoop, if_neg (by simp; omega)]
      simp [pairsHead, tailOdd]
    | r0 :: r1 :: rest', hr =>
      have hlt : 2 * pre.length + 1 < (pre ++ mid ++ r0 :: r1 :: rest').length := by simp; omega
      have hg0 : (pre ++ mid ++ r0 :: r1 :: rest').getD (2 * pre.length) default = r0 := by
        rw [List.getD_eq_getElem?_getD, List.getElem?_append_right (by simp; omega)]
        simp [h, show 2 * mid.length - (mid.length + mid.length) = 0 by omega]
      have hg1 : (pre ++ mid ++ r0 :: r1 :: rest').getD (2 * pre.length + 1) default = r1 := by
        rw [List.getD_eq_getElem?_getD, List.getElem?_append_right (by simp; omega)]
        simp [h, show 2 * mid.length + 1 - (mid.length + mid.length) = 1 by omega]
      rw [pairLoop, if_pos hlt, hg0, hg1]
      have hdiv : 2 * pre.length / 2 = pre.length := by omega
      rw [hdiv]
      cases mid with
      | nil =>
        have hp : pre = [] := List.eq_nil_of_length_eq_zero (by simpa using h)
        subst hp
        obtain ⟨m3, hl3, he3⟩ := ih [It.init r0 r1] [r1] rest' (by simp) (by simp at hr; omega)
        refine ⟨m3, by simp [pairsHead] at hl3 ⊢; omega, ?_⟩
        simp only [List.length_cons, List.length_nil] at he3
        simp only [List.nil_append, List.length_nil, List.set_cons_zero, pairsHead, tailOdd]
        simpa using he3
      | cons m0 mid' =>
        obtain ⟨m3, hl3, he3⟩ := ih (pre ++ [It.init r0 r1]) (mid' ++ [r0, r1]) rest'
          (by simp at h ⊢; omega) (by simp at hr; omega)
        refine ⟨m3, by simp [pairsHead] at hl3 ⊢; omega, ?_⟩
        have e1 : (pre ++ m0 :: mid' ++ r0 :: r1 :: rest').set pre.length (It.init r0 r1)
            = pre ++ [It.init r0 r1] ++ (mid' ++ [r0, r1]) ++ rest' := by
          simp
        have e2 : 2 * (pre ++ [It.init r0 r1]).length = 2 * pre.length + 2 := by simp; omega
        rw [e1, ← e2, he3]
        simp [pairsHead, tailOdd]

theorem round_eq_pairs (mxs : List (It σ)) : round mxs = pairs mxs := by
  obtain ⟨mid, hl, he⟩ := pairLoop_inv mxs.length [] [] mxs rfl (Nat.le_refl _)
  simp only [List.length_nil, Nat.mul_zero, List.nil_append] at he hl
  have htl := tailOdd_length_le mxs
  rw [pairs_eq_head_tail]
  unfold round
  simp only [he]
  match hto : tailOdd mxs, htl with
  | [], _ =>
    have hn : (pairsHead mxs ++ mid ++ []).length = 2 * (pairsHead mxs).length := by simp; omega
    rw [hn, if_neg (by omega)]
    have : 2 * (pairsHead mxs).length / 2 = (pairsHead mxs).length := by omega
    rw [this]
    simp
  | [x], _ =>
    have hn : (pairsHead mxs ++ mid ++ [x]).length = 2 * (pairsHead mxs).length + 1 := by simp; omega
    rw [hn, if_pos (by omega)]
    have h1 : (2 * (pairsHead mxs).length + 1) / 2 = (pairsHead mxs).length := by omega
    have h2 : 2 * (pairsHead mxs).length + 1 - 1 = (pairsHead mxs ++ mid).length := by simp; omega
    rw [h1, h2]
    have hg : (pairsHead mxs ++ mid ++ [x]).getD (pairsHead mxs ++ mid).length default = x := by
      rw [List.getD_eq_getElem?_getD, List.getElem?_append_right (Nat.le_refl _)]
      simp
    rw [hg]
    cases mid with
    | nil =>
      have hp : pairsHead mxs = [] := List.eq_nil_of_length_eq_zero (by simpa using hl.symm)
      simp [hp]
    | cons m0 mid' =>
      simp [List.take_append]
      exact List.take_of_length_le (by omega)

theorem pairs_leaves (l : List (It σ)) : (pairs l).flatMap It.leaves = l.flatMap It.leaves := by
  match l with
  | [] => simp [pairs]
  | [a] => simp [pairs]
  | a :: b :: r => simp [pairs, It.init, It.leaves, pairs_leaves r]

theorem pairs_length (l : List (It σ)) : (pairs l).length = (l.length + 1) / 2 := by
  match l with
  | [] => simp [pairs]
  | [a] => simp [pairs]
  | a :: b :: r => simp [pairs, pairs_length r]; omega

/-- the reduction ends with exactly one tree whose leaves, left to right, are the leaves of the input in order -/
theorem reduce_spec (mxs : List (It σ)) (fuel : Nat) (hne : mxs ≠ []) (hf : mxs.length ≤ fuel) :
    ∃ t, reduce fuel mxs = [t] ∧ t.leaves = mxs.flatMap It.leaves := by
  induction fuel generalizing mxs with
  | zero =>
    exact absurd (List.eq_nil_of_length_eq_zero (by omega)) hne
  | succ f ih =>
    rw [reduce]
    by_cases h : mxs.length > 1
    · rw [if_pos h, round_eq_pairs]
      have hl := pairs_length mxs
      obtain ⟨t, ht, hlv⟩ := ih (pairs mxs)
        (by intro e; rw [e] at hl; simp at hl; omega) (by omega)
      exact ⟨t, ht, by rw [hlv, pairs_leaves]⟩
    · rw [if_neg h]
      match mxs, hne, h with
      | [t], _, _ => exact ⟨t, rfl, by simp⟩
      | _ :: _ :: _, _, h => simp at h

theorem map_leaf_leaves (srcs : List σ) : (srcs.map It.leaf).flatMap It.leaves = srcs := by
  induction srcs with
  | nil => rfl
  | cons a r ih => simp [It.leaves, ih]

theorem build_leaves (srcs : List σ) (hne : srcs ≠ []) : ∃ t, build srcs = some t ∧ t.leaves = srcs := by
  match srcs, hne with
  | [s], _ => exact ⟨.leaf s, rfl, rfl⟩
  | a :: b :: r, _ =>
    obtain ⟨t, ht, hlv⟩ := reduce_spec ((a :: b :: r).map It.leaf) (a :: b :: r).length (by simp) (by simp)
    refine ⟨t, ?_, by rw [hlv, map_leaf_leaves]⟩
    simp only [build, ht, List.head?_cons]

theorem build_none : build ([] : List σ) = none := rfl

/-! ## GetJournals -/

/-- a fresh key is appended to the result map -/
theorem mapPut_fresh (res : List Part) (p : Part) (h : p.line ∉ res.map (·.line)) : mapPut res p = res ++ [p] := by
  unfold mapPut
  rw [if_neg]
  intro hany
  rw [List.any_eq_true] at hany
  obtain ⟨q, hq, he⟩ := hany
  exact h (List.mem_map.mpr ⟨q, hq, by simpa using he⟩)

theorem foldl_acquire_apply (l : List Part) (rd : Readers) (x : Nat) :
    (l.foldl (fun r p => acquire r p.src) rd) x = rd x + l.countP (fun p => p.src = x) := by
  induction l generalizing rd with
  | nil => simp
  | cons p l ih =>
    simp only [List.foldl_cons, ih, List.countP_cons, acquire]
    by_cases h : x = p.src
    · simp [h]; omega
    · have h' : ¬ p.src = x := fun e => h e.symm
      simp [h, h']

theorem foldl_release_apply (l : List Part) (rd : Readers) (x : Nat) :
    (l.foldl (fun r p => releaseOne r p.src) rd) x = rd x - l.countP (fun p => p.src = x) := by
  induction l generalizing rd with
  | nil => simp
  | cons p l ih =>
    simp only [List.foldl_cons, ih, List.countP_cons, releaseOne]
    by_cases h : x = p.src
    · simp [h]; omega
    · have h' : ¬ p.src = x := fun e => h e.symm
      simp [h, h']

/-- releasing what was acquired gives back the readers -/
theorem release_acquire (l : List Part) (rd : Readers) :
    l.foldl (fun r p => releaseOne r p.src) (l.foldl (fun r p => acquire r p.src) rd) = rd := by
  funext x
  rw [foldl_release_apply, foldl_acquire_apply]
  omega

theorem visitLoop_fails (maxLimit : Nat) (ps : List Part) : ∀ (res : List Part) (rd : Readers),
    ((res ++ ps).map (·.line)).Nodup → res.length < maxLimit → maxLimit ≤ res.length + ps.length →
    ∃ l, visitLoop maxLimit ps ⟨rd, res, false⟩ = ⟨l.foldl (fun r p => acquire r p.src) rd, res ++ l, true⟩ := by
  induction ps with
  | nil => intro res rd _ h1 h2; simp at h2; omega
  | cons p ps ih =>
    intro res rd hnd h1 h2
    have hfresh : p.line ∉ res.map (·.line) := by
      intro hm
      simp only [List.map_append, List.map_cons, List.nodup_append] at hnd
      exact hnd.2.2 _ hm _ (List.mem_cons_self ..) rfl
    simp only [visitLoop, mapPut_fresh res p hfresh]
    by_cases hl : (res ++ [p]).length = maxLimit
    · rw [if_pos hl]
      exact ⟨[p], rfl⟩
    · rw [if_neg hl]
      simp only [List.length_append, List.length_cons, List.length_nil] at hl h2
      obtain ⟨l, he⟩ := ih (res ++ [p]) (acquire rd p.src) (by simpa using hnd) (by simp; omega) (by simp; omega)
      exact ⟨p :: l, by rw [he]; simp⟩

theorem visitLoop_under (maxLimit : Nat) (ps : List Part) : ∀ (res : List Part) (rd : Readers),
    ((res ++ ps).map (·.line)).Nodup → res.length + ps.length < maxLimit →
    visitLoop maxLimit ps ⟨rd, res, false⟩ = ⟨ps.foldl (fun r p => acquire r p.src) rd, res ++ ps, false⟩ := by
  induction ps with
  | nil => intro res rd _ _; simp [visitLoop]
  | cons p ps ih =>
    intro res rd hnd h1
    have hfresh : p.line ∉ res.map (·.line) := by
      intro hm
      simp only [List.map_append, List.map_cons, List.nodup_append] at hnd
      exact hnd.2.2 _ hm _ (List.mem_cons_self ..) rfl
    simp only [visitLoop, mapPut_fresh res p hfresh]
    simp only [List.length_cons] at h1
    rw [if_neg (by simp; omega)]
    rw [ih (res ++ [p]) (acquire rd p.src) (by simpa using hnd) (by simp; omega)]
    simp

/-- number of acquisitions is undone by the same number of releases -/
theorem getJournals_limit_fails (maxLimit : Nat) (matching : List Part) (rd : Readers)
    (hpos : 1 ≤ maxLimit) (hnd : (matching.map (·.line)).Nodup) (hlim : maxLimit ≤ matching.length) :
    getJournals maxLimit matching rd = (rd, none) := by
  obtain ⟨l, he⟩ := visitLoop_fails maxLimit matching [] rd (by simpa using hnd) (by simp; omega)
    (by simpa using hlim)
  simp only [getJournals, he, List.nil_append, if_true, release_acquire]

theorem getJournals_under_limit (maxLimit : Nat) (matching : List Part) (rd : Readers)
    (hnd : (matching.map (·.line)).Nodup) (hlim : matching.length < maxLimit) :
    getJournals maxLimit matching rd = (matching.foldl (fun r p => acquire r p.src) rd, some matching) := by
  have he := visitLoop_under maxLimit matching [] rd (by simpa using hnd) (by simpa using hlim)
  simp [getJournals, he]

/-! ## a property closed under `Mixer.Init` holds for every tree the reduction builds -/

theorem pairs_all (P : It σ → Prop) (hP : ∀ a b, P a → P b → P (It.init a b)) :
    ∀ l : List (It σ), (∀ x ∈ l, P x) → ∀ x ∈ pairs l, P x
  | [], _ => by simp [pairs]
  | [a], h => by simpa [pairs] using h
  | a :: b :: r, h => by
    intro x hx
    simp only [pairs, List.mem_cons] at hx
    rcases hx with rfl | hx
    · exact hP a b (h a (by simp)) (h b (by simp))
    · exact pairs_all P hP r (fun y hy => h y (by simp [hy])) x hx

theorem reduce_all (P : It σ → Prop) (hP : ∀ a b, P a → P b → P (It.init a b)) (fuel : Nat) :
    ∀ l : List (It σ), (∀ x ∈ l, P x) → ∀ x ∈ reduce fuel l, P x := by
  induction fuel with
  | zero => intro l h; simpa [reduce] using h
  | succ f ih =>
    intro l h
    rw [reduce]
    split
    · rw [round_eq_pairs]; exact ih _ (pairs_all P hP l h)
    · exact h

theorem build_all (P : It σ → Prop) (hP : ∀ a b, P a → P b → P (It.init a b)) (srcs : List σ)
    (h : ∀ s ∈ srcs, P (.leaf s)) (t : It σ) (ht : build srcs = some t) : P t := by
  match srcs, h, ht with
  | [], _, ht => simp [build] at ht
  | [s], h, ht =>
    simp only [build, Option.some.injEq] at ht
    subst ht; exact h s (by simp)
  | s1 :: s2 :: r, h, ht =>
    simp only [build] at ht
    have hall := reduce_all P hP (s1 :: s2 :: r).length ((s1 :: s2 :: r).map It.leaf)
      (by intro x hx; simp only [List.mem_map] at hx; obtain ⟨s, hs, rfl⟩ := hx; exact h s hs)
    exact hall t (List.mem_of_mem_head? ht)

/-! ## sorted sources: the order does not depend on the map iteration order -/

theorem insertLine_perm {α : Type} (x : Bytes × α) (l : List (Bytes × α)) : (insertLine x l).Perm (x :: l) := by
  induction l with
  | nil => simp [insertLine]
  | cons y ys ih =>
    simp only [insertLine]
    split
    · exact List.Perm.refl _
    · exact (List.Perm.cons y ih).trans (List.Perm.swap x y ys)

theorem sortLines_perm {α : Type} (l : List (Bytes × α)) : (sortLines l).Perm l := by
  induction l with
  | nil => simp [sortLines]
  | cons x xs ih =>
    show (insertLine x (sortLines xs)).Perm (x :: xs)
    exact (insertLine_perm x _).trans (List.Perm.cons x ih)

theorem insertLine_sorted {α : Type} (x : Bytes × α) (l : List (Bytes × α))
    (h : l.Pairwise (fun a b => Go.bytesLe a.1 b.1 = true)) :
    (insertLine x l).Pairwise (fun a b => Go.bytesLe a.1 b.1 = true) := by
  induction l with
  | nil => simp [insertLine]
  | cons y ys ih =>
    rw [List.pairwise_cons] at h
    simp only [insertLine]
    split
    · rename_i hle
      refine List.pairwise_cons.mpr ⟨?_, List.pairwise_cons.mpr h⟩
      intro z hz
      rcases List.mem_cons.mp hz with rfl | hz
      · exact hle
      · exact Go.bytesLe_trans _ _ _ hle (h.1 z hz)
    · rename_i hnle
      refine List.pairwise_cons.mpr ⟨?_, ih h.2⟩
      intro z hz
      have hz' := (insertLine_perm x ys).mem_iff.mp hz
      rcases List.mem_cons.mp hz' with rfl | hz'
      · rcases Go.bytesLe_total y.1 z.1 with h1 | h1
        · exact h1
        · exact absurd h1 hnle
      · exact h.1 z hz'

theorem sortLines_sorted {α : Type} (l : List (Bytes × α)) :
    (sortLines l).Pairwise (fun a b => Go.bytesLe a.1 b.1 = true) := by
  induction l with
  | nil => simp [sortLines]
  | cons x xs ih => exact insertLine_sorted x _ ih

theorem eq_of_key_eq {α : Type} {l : List (Bytes × α)} (hn : (l.map (·.1)).Nodup) {a b : Bytes × α}
    (ha : a ∈ l) (hb : b ∈ l) (h : a.1 = b.1) : a = b := by
  induction l with
  | nil => cases ha
  | cons x xs ih =>
    simp only [List.map_cons, List.nodup_cons, List.mem_map, not_exists, not_and] at hn
    rcases List.mem_cons.mp ha with rfl | ha' <;> rcases List.mem_cons.mp hb with rfl | hb'
    · rfl
    · exact absurd h.symm (hn.1 b hb')
    · exact absurd h (hn.1 a ha')
    · exact ih hn.2 ha' hb'

/-- two iteration orders of one map (distinct keys) sort to the same list -/
theorem sortLines_order_independent {α : Type} (o1 o2 : List (Bytes × α)) (hp : o1.Perm o2)
    (hn : (o1.map (·.1)).Nodup) : sortLines o1 = sortLines o2 := by
  have p1 := sortLines_perm o1
  have p2 := sortLines_perm o2
  refine List.Perm.eq_of_pairwise (le := fun a b => Go.bytesLe a.1 b.1 = true) ?_
    (sortLines_sorted o1) (sortLines_sorted o2) ((p1.trans hp).trans p2.symm)
  intro a b ha hb h1 h2
  have ha' : a ∈ o1 := p1.mem_iff.mp ha
  have hb' : b ∈ o1 := hp.mem_iff.mpr (p2.mem_iff.mp hb)
  exact eq_of_key_eq hn ha' hb' (Go.bytesLe_antisymm _ _ h1 h2)

end Logrange.MixTree
