import Logrange.Proofs.RdIterFwd
import Logrange.Proofs.RdIterBwd
import Logrange.Model.RdWindow
/-!
Shared definitions for the proofs about the RANGED journal iterator (`partition.JIterator` + `chkSelector`,
model `Model/RdSelector.lean`), C03/C16.

The selector admits, per chunk `c`, the window of record indices `[c.minPos, min(c.cnt, c.maxPos+1))` (what
`updatePoss` answered for the chunk: an INPUT here; its soundness — every in-range record of the chunk lies inside —
is `WinSound`, which is what C02 proves about the time index). `wflat j` is the list of admitted records in stored
order. The ranged iterator behaves over `wflat j` exactly as the library iterator behaves over `flat j`:
forward it stands at index `wIdx j s` of `wflat j` (`Get` = that element and does not move the index, `Next` = +1),
backward it stands after `wbCount j s` admitted records.
-/
namespace Logrange.Rd

/-- the selector's status cache over a FIXED journal value: never filled, or rebuilt from this journal -/
def RStats (j : Journal) (st : List (Nat × ChkSt)) : Prop := st = [] ∨ st = rebuild j []

/-- well-formed ranged iterator over `j` (either direction): an open chunk iterator stands inside the window of its
chunk or at the chunk's end. Every state reachable from a fresh iterator by `SetPos` (while no chunk is open),
`SetBackward`, `Get`, `Next`, `Release` over the fixed `j` is well-formed. (`SetPos` into the OPEN chunk is not
window-checked by the code: a position before the window makes `Next` leave the chunk — such states are excluded.) -/
def RWF (j : Journal) (s : RIt) : Prop :=
  match s.ci with
  | none => RStats j s.stats
  | some c => s.stats = rebuild j [] ∧ c.chunk = s.cid ∧
      ∃ ch ∈ j, ch.id = c.chunk ∧ ch.minPos < ch.cnt ∧ (ch.minPos : Int) ≤ c.pos ∧ c.pos ≤ (ch.maxPos : Int) ∧
        c.pos ≤ (ch.cnt : Int) ∧ (c.cached = true → c.pos < (ch.cnt : Int))

/-- `pos` reports where the open chunk iterator stands -/
def RSynced (s : RIt) : Prop :=
  match s.ci with
  | none => True
  | some c => 0 ≤ c.pos ∧ s.idx = c.pos.toNat

/-- forward: index into `wflat j` -/
def wIdx (j : Journal) (s : RIt) : Nat := wflatIdx j (rEffPos s)

/-- backward: number of admitted records at or before the iterator's position -/
def wbCount (j : Journal) (s : RIt) : Nat :=
  match s.ci with
  | some c => wflatIdx j ⟨c.chunk, (c.pos + 1).toNat⟩
  | none => wflatIdx j ⟨s.cid, s.idx + 1⟩

/-- the iterator sits on a record -/
def ROnRecord (j : Journal) (s : RIt) : Prop :=
  ∃ c, s.ci = some c ∧ 0 ≤ c.pos ∧ c.pos < (cntOf j c.chunk : Int)

/-- the iterator after `k` rounds of `Get; Next` -/
def rStepK (j : Journal) : Nat → RIt → RIt
  | 0, s => s
  | k + 1, s => rStepK j k (rNext j (rGet j s).1)

/-! ## the time range and the window contract -/

def inRange (lo hi : Option Int) (r : Rec) : Bool :=
  (match lo with | some m => decide (m ≤ r.ts) | none => true) &&
  (match hi with | some m => decide (r.ts ≤ m) | none => true)

/-- **window soundness** (input contract; C02's subject): every record of a chunk whose timestamp is inside the
range lies inside the chunk's window. Windows may be wider than the range. -/
def WinSound (j : Journal) (lo hi : Option Int) : Prop :=
  ∀ c ∈ j, ∀ (k : Nat) (r : Rec), c.recs[k]? = some r → inRange lo hi r = true → c.minPos ≤ k ∧ k ≤ c.maxPos

/-! ## statements -/

def RGetFwdSpec : Prop :=
  ∀ (j : Journal) (s : RIt), Sorted j → RWF j s → s.bkwd = false →
    (rGet j s).2 = (wflat j)[wIdx j s]? ∧
    RWF j (rGet j s).1 ∧ (rGet j s).1.bkwd = false ∧
    wIdx j (rGet j s).1 = wIdx j s ∧
    (RSynced s → RSynced (rGet j s).1) ∧
    ((rGet j s).2.isSome → ROnRecord j (rGet j s).1) ∧
    ((rGet j s).2 = none → (rGet j s).1.ci = none)

def RNextFwdSpec : Prop :=
  ∀ (j : Journal) (s : RIt), Sorted j → RWF j s → s.bkwd = false →
    RWF j (rNext j s) ∧ (rNext j s).bkwd = false ∧ RSynced (rNext j s) ∧
    wIdx j (rNext j s) = min (wIdx j s + 1) (wflat j).length

def RGetBwdSpec : Prop :=
  ∀ (j : Journal) (s : RIt), Sorted j → PosIds j → bw_ChunkBound j → RWF j s → s.bkwd = true →
    (rGet j s).2 = (if wbCount j s = 0 then none else (wflat j)[wbCount j s - 1]?) ∧
    RWF j (rGet j s).1 ∧ (rGet j s).1.bkwd = true ∧
    wbCount j (rGet j s).1 = wbCount j s ∧
    ((rGet j s).2.isSome → ROnRecord j (rGet j s).1) ∧
    ((rGet j s).2 = none → (rGet j s).1.ci = none)

def RNextBwdSpec : Prop :=
  ∀ (j : Journal) (s : RIt), Sorted j → PosIds j → bw_ChunkBound j → RWF j s → s.bkwd = true →
    RWF j (rNext j s) ∧ (rNext j s).bkwd = true ∧
    wbCount j (rNext j s) = wbCount j s - 1

/-! ## basic facts shared by the lemma files -/

theorem rw_wrecs_length (c : Chunk) : c.wrecs.length = c.wlen := by
  simp [Chunk.wrecs, Chunk.wlen, Chunk.hi, Chunk.cnt, Nat.min_comm]

theorem rw_wBefore_le (c : Chunk) (k : Nat) : c.wBefore k ≤ c.wlen := by
  unfold Chunk.wBefore Chunk.wlen; omega

theorem rw_wflat_cons (c : Chunk) (r : Journal) : wflat (c :: r) = c.wrecs ++ wflat r := by
  simp [wflat]

theorem rw_wflatIdx_le (j : Journal) (p : Pos) : wflatIdx j p ≤ (wflat j).length := by
  induction j with
  | nil => simp [wflatIdx, wflat]
  | cons c rest ih =>
    rw [rw_wflat_cons, List.length_append, rw_wrecs_length]
    simp only [wflatIdx]
    have := rw_wBefore_le c p.idx
    split
    · omega
    · split <;> omega

theorem rw_wflatIdx_mono (j : Journal) (c k : Nat) : wflatIdx j ⟨c, k⟩ ≤ wflatIdx j ⟨c, k + 1⟩ := by
  induction j with
  | nil => simp [wflatIdx]
  | cons ch rest ih =>
    simp only [wflatIdx]
    have : (if ch.id < c then ch.wlen else if ch.id = c then ch.wBefore k else 0) ≤
        (if ch.id < c then ch.wlen else if ch.id = c then ch.wBefore (k + 1) else 0) := by
      split
      · exact Nat.le_refl _
      · split
        · unfold Chunk.wBefore; omega
        · exact Nat.le_refl _
    omega

theorem rw_wIdx_le (j : Journal) (s : RIt) : wIdx j s ≤ (wflat j).length := rw_wflatIdx_le _ _

theorem rw_wbCount_le (j : Journal) (s : RIt) : wbCount j s ≤ (wflat j).length := by
  unfold wbCount; split <;> exact rw_wflatIdx_le _ _

/-- position inside chunk `ch` of a sorted journal -/
theorem rw_wflatIdx_in {j : Journal} (hs : Sorted j) {ch : Chunk} (hm : ch ∈ j) (k : Nat) :
    wflatIdx j ⟨ch.id, k⟩ = wflatIdx j ⟨ch.id, 0⟩ + ch.wBefore k := by
  induction j with
  | nil => cases hm
  | cons c rest ih =>
    simp only [wflatIdx]
    rcases List.mem_cons.mp hm with rfl | hm'
    · have hz : ∀ k, wflatIdx rest ⟨ch.id, k⟩ = 0 := by
        intro k
        have hlt := Sorted.head_lt hs
        clear ih hm
        induction rest with
        | nil => rfl
        | cons x xs ih2 =>
          have hx := hlt x (List.mem_cons_self ..)
          simp only [wflatIdx]
          rw [if_neg (by omega), if_neg (by omega), ih2 (Sorted.tail hs |> fun h => by
            unfold Sorted at hs h ⊢
            exact (List.pairwise_cons.mp hs).2 |> fun _ => by
              have := hs
              rw [List.pairwise_cons] at this
              refine List.pairwise_cons.mpr ⟨fun y hy => this.1 y (List.mem_cons_of_mem _ hy), ?_⟩
              exact (List.pairwise_cons.mp this.2).2) (fun y hy => hlt y (List.mem_cons_of_mem _ hy))]
      simp only [Nat.lt_irrefl, if_false, if_true, hz]
      unfold Chunk.wBefore; omega
    · have hlt := Sorted.head_lt hs ch hm'
      rw [if_pos hlt, if_pos hlt, ih (Sorted.tail hs) hm']
      omega

/-- sitting on a record: backward count = forward index + 1 -/
theorem rw_wbCount_on {j : Journal} {s : RIt} (hs : Sorted j) (hwf : RWF j s) (ho : ROnRecord j s) :
    wbCount j s = wIdx j s + 1 ∧ wIdx j s < (wflat j).length := by
  obtain ⟨c, hc, h0, hlt⟩ := ho
  unfold RWF at hwf; rw [hc] at hwf
  obtain ⟨_, _, ch, hm, he, hne, hlo, hhi, hcn, _⟩ := hwf
  have hcnt : cntOf j c.chunk = ch.cnt := by rw [← he]; exact cntOf_mem hs hm
  rw [hcnt] at hlt
  have hb : wbCount j s = wflatIdx j ⟨ch.id, (c.pos + 1).toNat⟩ := by unfold wbCount; rw [hc, he]
  have hf : wIdx j s = wflatIdx j ⟨ch.id, c.pos.toNat⟩ := by unfold wIdx rEffPos; rw [hc, he]
  have hle := rw_wflatIdx_le j ⟨ch.id, (c.pos + 1).toNat⟩
  have e1 : (c.pos + 1).toNat = c.pos.toNat + 1 := by omega
  rw [hb, hf, rw_wflatIdx_in hs hm, rw_wflatIdx_in hs hm (c.pos.toNat), e1]
  rw [rw_wflatIdx_in hs hm, e1] at hle
  have h1 : ch.wBefore (c.pos.toNat + 1) = ch.wBefore c.pos.toNat + 1 := by
    unfold Chunk.wBefore Chunk.hi; omega
  constructor <;> omega

theorem rw_setBackward_facts (j : Journal) (s : RIt) (b : Bool) :
    (RWF j s → RWF j (rSetBackward s b)) ∧ wbCount j (rSetBackward s b) = wbCount j s ∧
    wIdx j (rSetBackward s b) = wIdx j s ∧ (ROnRecord j s → ROnRecord j (rSetBackward s b)) ∧
    (rSetBackward s b).bkwd = b ∧ (rSetBackward s b).ci = s.ci :=
  ⟨fun h => h, rfl, rfl, fun h => h, rfl, rfl⟩

theorem rw_release_facts (j : Journal) (s : RIt) :
    (RWF j s → RWF j (rRelease s)) ∧ rEffPos (rRelease s) = rEffPos s ∧ (rRelease s).bkwd = s.bkwd ∧
    (RSynced s → RSynced (rRelease s)) ∧ (rRelease s).pos = s.pos ∧ wbCount j (rRelease s) = wbCount j s := by
  unfold rRelease
  cases h : s.ci with
  | none => simp
  | some c =>
    refine ⟨?_, ?_, rfl, ?_, rfl, ?_⟩
    · intro hwf; unfold RWF at hwf ⊢; rw [h] at hwf; simp only
      obtain ⟨a, b, ch, hm, c1, c2, c3, c4, c5, _⟩ := hwf
      exact ⟨a, b, ch, hm, c1, c2, c3, c4, c5, by intro hc; cases hc⟩
    · simp [rEffPos, h]
    · intro hsy; unfold RSynced at hsy ⊢; rw [h] at hsy; simpa using hsy
    · simp [wbCount, h]

theorem rw_effPos_eq_pos {j : Journal} {s : RIt} (hwf : RWF j s) (hsy : RSynced s) : rEffPos s = s.pos := by
  unfold rEffPos RIt.pos
  cases h : s.ci with
  | none => rfl
  | some c =>
    unfold RWF at hwf; unfold RSynced at hsy; rw [h] at hwf hsy
    simp only
    rw [hwf.2.1, hsy.2]

/-- a fresh ranged iterator positioned by `SetPos` -/
theorem rw_setPos_fresh (j : Journal) (p : Pos) :
    (rSetPos j {} p).ci = none ∧ (rSetPos j {} p).pos = p ∧ (rSetPos j {} p).bkwd = false ∧
    (rSetPos j {} p).stats = [] := by
  unfold rSetPos
  by_cases h : p.cid = ({} : RIt).cid ∧ p.idx = ({} : RIt).idx
  · rw [if_pos h]
    obtain ⟨h1, h2⟩ := h
    refine ⟨rfl, ?_, rfl, rfl⟩
    cases p; simp only [RIt.pos] at *; simp_all
  · rw [if_neg h]
    by_cases h2 : p.cid ≠ ({} : RIt).cid <;> simp [h2, RIt.pos]

theorem rw_wflatIdx_zero (j : Journal) : wflatIdx j ⟨0, 0⟩ = 0 := by
  induction j with
  | nil => rfl
  | cons c rest ih =>
    simp only [wflatIdx, ih, Nat.not_lt_zero, if_false, Nat.add_zero]
    split <;> simp [Chunk.wBefore]

end Logrange.Rd
