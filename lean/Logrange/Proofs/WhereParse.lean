import Logrange.Proofs.Lql
import Logrange.Proofs.Where
/-!
Lemmas connecting the WHERE evaluator (C05) with the direct recursive-descent parser of the expression
sub-language (C12's `Logrange.Lql.dExpr`, `Model/LqlDirect.lean`, imported read-only): the translation of C12's AST
into the evaluator's AST, the parser's image is `wellFormed`, and the token list of an unparenthesised expression
is read as OR of AND of optionally negated conditions.
-/
namespace Logrange.Where
open Logrange

/-! ## translation of the parser's AST -/

mutual
def trIdent : Lql.Ident → Ident
  | .mk op ps => .mk op (trIdents ps)
def trIdents : Lql.IdentList → IdList
  | .nil => .nil
  | .cons h t => .cons (trIdent h) (trIdents t)
end

def trCond (c : Lql.Cond) : Cond := ⟨trIdent c.ident, c.op, c.value⟩

mutual
def trExpr : Lql.Expr → Expr
  | .mk ors => trOrs ors
def trOrs : Lql.OrList → Expr
  | .nil => .nil
  | .cons h t => .cons (trOr h) (trOrs t)
def trOr : Lql.OrCond → AndL
  | .mk xs => trXs xs
def trXs : Lql.XList → AndL
  | .nil => .nil
  | .cons h t => .cons (trX h) (trXs t)
def trX : Lql.XCond → XCond
  | .cond n c => .cond n (trCond c)
  | .paren n e => .sub n (trExpr e)
end

/-! ## the reference meaning written on the parser's AST, and its preservation by the translation -/

mutual
def evalParsed (env : Env) : Lql.Expr → Event → Bool
  | .mk ors, ev => evalParsedOrs env ors ev
def evalParsedOrs (env : Env) : Lql.OrList → Event → Bool
  | .nil, _ => false
  | .cons h t, ev => evalParsedOr env h ev || evalParsedOrs env t ev
def evalParsedOr (env : Env) : Lql.OrCond → Event → Bool
  | .mk xs, ev => evalParsedXs env xs ev
def evalParsedXs (env : Env) : Lql.XList → Event → Bool
  | .nil, _ => true
  | .cons h t, ev => evalParsedX env h ev && evalParsedXs env t ev
def evalParsedX (env : Env) : Lql.XCond → Event → Bool
  | .cond n c, ev => n != condRef env (trCond c) ev
  | .paren n e, ev => n != evalParsed env e ev
end

mutual
theorem evalParsed_tr (env : Env) (ev : Event) : ∀ e : Lql.Expr, evalParsed env e ev = evalRef env (trExpr e) ev
  | .mk ors => by simp only [evalParsed, trExpr]; exact evalParsedOrs_tr env ev ors
theorem evalParsedOrs_tr (env : Env) (ev : Event) : ∀ o : Lql.OrList, evalParsedOrs env o ev = evalRef env (trOrs o) ev
  | .nil => by simp [evalParsedOrs, trOrs, evalRef]
  | .cons h t => by simp [evalParsedOrs, trOrs, evalRef, evalParsedOr_tr env ev h, evalParsedOrs_tr env ev t]
theorem evalParsedOr_tr (env : Env) (ev : Event) : ∀ o : Lql.OrCond, evalParsedOr env o ev = evalAnd env (trOr o) ev
  | .mk xs => by simp only [evalParsedOr, trOr]; exact evalParsedXs_tr env ev xs
theorem evalParsedXs_tr (env : Env) (ev : Event) : ∀ x : Lql.XList, evalParsedXs env x ev = evalAnd env (trXs x) ev
  | .nil => by simp [evalParsedXs, trXs, evalAnd]
  | .cons h t => by simp [evalParsedXs, trXs, evalAnd, evalParsedX_tr env ev h, evalParsedXs_tr env ev t]
theorem evalParsedX_tr (env : Env) (ev : Event) : ∀ x : Lql.XCond, evalParsedX env x ev = evalX env (trX x) ev
  | .cond n c => by simp [evalParsedX, trX, evalX]
  | .paren n e => by simp [evalParsedX, trX, evalX, evalParsed_tr env ev e]
end

/-! ## the parser's image has no empty OR list -/

mutual
def neExpr : Lql.Expr → Bool
  | .mk .nil => false
  | .mk (.cons h t) => neOr h && neOrs t
def neOrs : Lql.OrList → Bool
  | .nil => true
  | .cons h t => neOr h && neOrs t
def neOr : Lql.OrCond → Bool
  | .mk xs => neXs xs
def neXs : Lql.XList → Bool
  | .nil => true
  | .cons h t => neX h && neXs t
def neX : Lql.XCond → Bool
  | .cond _ _ => true
  | .paren _ e => neExpr e
end

mutual
theorem wf_of_neExpr : ∀ e : Lql.Expr, neExpr e = true → wellFormed (trExpr e) = true
  | .mk .nil, h => by simp [neExpr] at h
  | .mk (.cons a t), h => by
    simp only [neExpr, Bool.and_eq_true] at h
    simp only [trExpr]
    exact wf_of_neOrs (.cons a t) (by simp [neOrs, h.1, h.2]) (by simp)
theorem wf_of_neOrs : ∀ ors : Lql.OrList, neOrs ors = true → ors ≠ .nil → wellFormed (trOrs ors) = true
  | .nil, _, hn => absurd rfl hn
  | .cons a .nil, h, _ => by
    simp only [neOrs, Bool.and_eq_true] at h
    simp [trOrs, wellFormed, wf_of_neOr a h.1]
  | .cons a (.cons b t), h, _ => by
    simp only [neOrs, Bool.and_eq_true] at h
    have h2 := wf_of_neOrs (.cons b t) (by simp [neOrs, h.2.1, h.2.2]) (by simp)
    simp only [trOrs] at h2 ⊢
    simp [wellFormed, wf_of_neOr a h.1, h2]
theorem wf_of_neOr : ∀ o : Lql.OrCond, neOr o = true → wellFormedAnd (trOr o) = true
  | .mk xs, h => by simp only [neOr] at h; simp only [trOr]; exact wf_of_neXs xs h
theorem wf_of_neXs : ∀ xs : Lql.XList, neXs xs = true → wellFormedAnd (trXs xs) = true
  | .nil, _ => by simp [trXs, wellFormedAnd]
  | .cons x t, h => by
    simp only [neXs, Bool.and_eq_true] at h
    simp [trXs, wellFormedAnd, wf_of_neX x h.1, wf_of_neXs t h.2]
theorem wf_of_neX : ∀ x : Lql.XCond, neX x = true → wellFormedX (trX x) = true
  | .cond _ _, _ => by simp [trX, wellFormedX]
  | .paren _ e, h => by simp only [neX] at h; simp [trX, wellFormedX, wf_of_neExpr e h]
end

/-- everything the direct parser returns has non-empty OR lists (all six mutually recursive functions at once) -/
theorem parser_image_ne (f : Nat) :
    (∀ toks e r, Lql.dExpr f toks = some (e, r) → neExpr e = true) ∧
    (∀ toks os r, Lql.dOrTail f toks = some (os, r) → neOrs os = true) ∧
    (∀ toks o r, Lql.dOr f toks = some (o, r) → neOr o = true) ∧
    (∀ toks xs r, Lql.dAndTail f toks = some (xs, r) → neXs xs = true) ∧
    (∀ toks x r, Lql.dX f toks = some (x, r) → neX x = true) ∧
    (∀ neg toks x r, Lql.dXBody f neg toks = some (x, r) → neX x = true) := by
  induction f with
  | zero =>
    refine ⟨?_, ?_, ?_, ?_, ?_, ?_⟩ <;> intros <;> simp_all [Lql.dExpr, Lql.dOrTail, Lql.dOr, Lql.dAndTail, Lql.dX, Lql.dXBody]
  | succ f ih =>
    obtain ⟨hE, hOT, hO, hAT, hX, hXB⟩ := ih
    refine ⟨?_, ?_, ?_, ?_, ?_, ?_⟩
    · intro toks e r h
      simp only [Lql.dExpr] at h
      split at h
      · rename_i o r1 h1
        split at h
        · rename_i os r2 h2
          simp only [Option.some.injEq, Prod.mk.injEq] at h
          obtain ⟨rfl, _⟩ := h
          simp [neExpr, hO _ _ _ h1, hOT _ _ _ h2]
        · cases h
      · cases h
    · intro toks os r h
      cases toks with
      | nil => simp only [Lql.dOrTail, Option.some.injEq, Prod.mk.injEq] at h; obtain ⟨rfl, _⟩ := h; rfl
      | cons t tl =>
        simp only [Lql.dOrTail] at h
        split at h
        · split at h
          · rename_i o r1 h1
            split at h
            · rename_i os' r2 h2
              simp only [Option.some.injEq, Prod.mk.injEq] at h
              obtain ⟨rfl, _⟩ := h
              simp [neOrs, hO _ _ _ h1, hOT _ _ _ h2]
            · cases h
          · cases h
        · simp only [Option.some.injEq, Prod.mk.injEq] at h; obtain ⟨rfl, _⟩ := h; rfl
    · intro toks o r h
      simp only [Lql.dOr] at h
      split at h
      · rename_i x r1 h1
        split at h
        · rename_i xs r2 h2
          simp only [Option.some.injEq, Prod.mk.injEq] at h
          obtain ⟨rfl, _⟩ := h
          simp [neOr, neXs, hX _ _ _ h1, hAT _ _ _ h2]
        · cases h
      · cases h
    · intro toks xs r h
      cases toks with
      | nil => simp only [Lql.dAndTail, Option.some.injEq, Prod.mk.injEq] at h; obtain ⟨rfl, _⟩ := h; rfl
      | cons t tl =>
        simp only [Lql.dAndTail] at h
        split at h
        · split at h
          · rename_i x r1 h1
            split at h
            · rename_i xs' r2 h2
              simp only [Option.some.injEq, Prod.mk.injEq] at h
              obtain ⟨rfl, _⟩ := h
              simp [neXs, hX _ _ _ h1, hAT _ _ _ h2]
            · cases h
          · cases h
        · simp only [Option.some.injEq, Prod.mk.injEq] at h; obtain ⟨rfl, _⟩ := h; rfl
    · intro toks x r h
      cases toks with
      | nil => simp [Lql.dX] at h
      | cons t tl =>
        simp only [Lql.dX] at h
        split at h
        · exact hXB _ _ _ _ h
        · exact hXB _ _ _ _ h
    · intro neg toks x r h
      cases toks with
      | nil => simp [Lql.dXBody] at h
      | cons t tl =>
        simp only [Lql.dXBody] at h
        split at h
        · split at h
          · simp only [Option.some.injEq, Prod.mk.injEq] at h; obtain ⟨rfl, _⟩ := h; rfl
          · cases h
        · split at h
          · split at h
            · rename_i e q r2 h1
              split at h
              · simp only [Option.some.injEq, Prod.mk.injEq] at h
                obtain ⟨rfl, _⟩ := h
                simp [neX, hE _ _ _ h1]
              · cases h
            · cases h
          · cases h

/-- **whatever the parser accepts is `wellFormed`** for the evaluator -/
theorem parsed_wellFormed (f : Nat) (toks : List Lql.Tok) (e : Lql.Expr) (r : List Lql.Tok)
    (h : Lql.dExpr f toks = some (e, r)) : wellFormed (trExpr e) = true :=
  wf_of_neExpr e ((parser_image_ne f).1 toks e r h)

/-! ## unparenthesised token lists: OR of AND of optionally negated conditions -/

/-- an optionally negated condition -/
abbrev Atom := Bool × Lql.Cond
/-- conditions joined by AND (at least one) -/
abbrev Group := Atom × List Atom

def tokAtom (x : Atom) : List Lql.Tok := (if x.1 then [Lql.tNOT] else []) ++ Lql.toksCond x.2
/-- `x1 AND x2 AND …` -/
def tokGroup (g : Group) : List Lql.Tok := tokAtom g.1 ++ g.2.flatMap (fun x => Lql.tAND :: tokAtom x)
/-- `g1 OR g2 OR …`: the token list of an expression without parentheses -/
def tokFlat (g : Group) (gs : List Group) : List Lql.Tok := tokGroup g ++ gs.flatMap (fun g' => Lql.tOR :: tokGroup g')

def xsOf : List Atom → Lql.XList
  | [] => .nil
  | x :: t => .cons (.cond x.1 x.2) (xsOf t)
def orOf (g : Group) : Lql.OrCond := .mk (.cons (.cond g.1.1 g.1.2) (xsOf g.2))
def orsOf : List Group → Lql.OrList
  | [] => .nil
  | g :: t => .cons (orOf g) (orsOf t)
/-- the documented reading: Or [ And [ (NOT)? cond … ] … ] -/
def exprOf (g : Group) (gs : List Group) : Lql.Expr := .mk (.cons (orOf g) (orsOf gs))

/-- the atom can be printed and read back: operator is one of the ten, an un-negated operand is not the word NOT -/
def atomOk (x : Atom) : Bool := Lql.wfX (.cond x.1 x.2)

theorem toksXsTail_xsOf (l : List Atom) :
    Lql.toksXsTail (xsOf l) = l.flatMap (fun x => Lql.tAND :: tokAtom x) := by
  induction l with
  | nil => simp [xsOf, Lql.toksXsTail]
  | cons x t ih => simp [xsOf, Lql.toksXsTail, ih, tokAtom, Lql.toksX]

theorem toksOr_orOf (g : Group) : Lql.toksOr (orOf g) = tokGroup g := by
  simp [orOf, Lql.toksOr, tokGroup, toksXsTail_xsOf, tokAtom, Lql.toksX]

theorem toksOrsTail_orsOf (l : List Group) :
    Lql.toksOrsTail (orsOf l) = l.flatMap (fun g => Lql.tOR :: tokGroup g) := by
  induction l with
  | nil => simp [orsOf, Lql.toksOrsTail]
  | cons g t ih => simp [orsOf, Lql.toksOrsTail, ih, toksOr_orOf]

theorem toksExpr_exprOf (g : Group) (gs : List Group) : Lql.toksExpr (exprOf g gs) = tokFlat g gs := by
  simp [exprOf, Lql.toksExpr, tokFlat, toksOr_orOf, toksOrsTail_orsOf]

theorem wfXs_xsOf (l : List Atom) (h : ∀ x ∈ l, atomOk x = true) : Lql.wfXs (xsOf l) = true := by
  induction l with
  | nil => simp [xsOf, Lql.wfXs]
  | cons x t ih =>
    simp only [xsOf, Lql.wfXs, Bool.and_eq_true]
    exact ⟨h x (by simp), ih (fun y hy => h y (by simp [hy]))⟩

theorem wfOr_orOf (g : Group) (h1 : atomOk g.1 = true) (h2 : ∀ x ∈ g.2, atomOk x = true) : Lql.wfOr (orOf g) = true := by
  simp only [orOf, Lql.wfOr, Bool.and_eq_true]
  exact ⟨h1, wfXs_xsOf g.2 h2⟩

theorem wfOrs_orsOf (l : List Group) (h : ∀ g ∈ l, atomOk g.1 = true ∧ ∀ x ∈ g.2, atomOk x = true) :
    Lql.wfOrs (orsOf l) = true := by
  induction l with
  | nil => simp [orsOf, Lql.wfOrs]
  | cons g t ih =>
    simp only [orsOf, Lql.wfOrs, Bool.and_eq_true]
    exact ⟨wfOr_orOf g (h g (by simp)).1 (h g (by simp)).2, ih (fun y hy => h y (by simp [hy]))⟩

/-- the reference meaning of the flat reading: some group all of whose (optionally negated) conditions hold -/
theorem evalRef_exprOf (env : Env) (ev : Event) (g : Group) (gs : List Group) :
    evalRef env (trExpr (exprOf g gs)) ev =
      (g :: gs).any (fun grp => (grp.1 :: grp.2).all (fun x => x.1 != condRef env (trCond x.2) ev)) := by
  have hxs : ∀ l : List Atom, evalAnd env (trXs (xsOf l)) ev = l.all (fun x => x.1 != condRef env (trCond x.2) ev) := by
    intro l
    induction l with
    | nil => simp [xsOf, trXs, evalAnd]
    | cons x t ih => simp [xsOf, trXs, evalAnd, evalX, trX, ih]
  have hor : ∀ grp : Group, evalAnd env (trOr (orOf grp)) ev = (grp.1 :: grp.2).all (fun x => x.1 != condRef env (trCond x.2) ev) := by
    intro grp
    simp [orOf, trOr, trXs, evalAnd, evalX, trX, hxs]
  have hors : ∀ l : List Group, evalRef env (trOrs (orsOf l)) ev =
      l.any (fun grp => (grp.1 :: grp.2).all (fun x => x.1 != condRef env (trCond x.2) ev)) := by
    intro l
    induction l with
    | nil => simp [orsOf, trOrs, evalRef]
    | cons a t ih => simp only [orsOf, trOrs, evalRef, ih, hor, List.any_cons]
  simp only [exprOf, trExpr, trOrs, evalRef, hor, hors, List.any_cons]

end Logrange.Where
