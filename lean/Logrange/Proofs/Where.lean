import Logrange.Model.Where
import Logrange.Proofs.Fields
/-!
Lemmas for C05: the builder of `whereeval.go` agrees with the reference meaning, level by level
(function wrapper → condition → XCondition / AND list / OR list by mutual structural recursion).
-/
namespace Logrange.Where
open Go

/-! ## the regenerated constants are the documented ones (re-checked against /repo on every run) -/

theorem gen_cmpContains : Generated.C05.cmpContains = sCONTAINS := by decide
theorem gen_cmpHasPrefix : Generated.C05.cmpHasPrefix = sPREFIX := by decide
theorem gen_cmpHasSuffix : Generated.C05.cmpHasSuffix = sSUFFIX := by decide
theorem gen_cmpLike : Generated.C05.cmpLike = sLIKE := by decide
theorem gen_opndTimestamp : Generated.C05.opndTimestamp = sTs := by decide
theorem gen_opndMessage : Generated.C05.opndMessage = sMsg := by decide
theorem gen_fieldsPrefix : Generated.C05.fieldsPrefix = sFieldsColon := by decide
theorem gen_fieldsMinLen : Generated.C05.fieldsMinLen = 8 := by decide
theorem gen_fieldsCut : Generated.C05.fieldsCut = 7 := by decide
theorem gen_likeTestName : Generated.C05.likeTestName = sProbe := by decide

/-! ## the string functions are what their names say -/

theorem contains_iff_infix : ∀ (s sub : Bytes), contains s sub = true ↔ sub <:+: s
  | [], sub => by simp [contains, List.isEmpty_iff]
  | c :: t, sub => by
    simp only [contains, Bool.or_eq_true, List.isPrefixOf_iff_prefix, contains_iff_infix t sub, List.infix_cons_iff]

theorem hasPrefix_iff (s p : Bytes) : hasPrefix s p = true ↔ p <+: s := by simp [hasPrefix]
theorem hasSuffix_iff (s p : Bytes) : hasSuffix s p = true ↔ p <:+ s := by simp [hasSuffix]

/-! ## identifiers -/

theorem getFirstParamName_eq_leaf : ∀ id : Ident, getFirstParamName id = leaf id
  | .mk _ .nil => by simp [getFirstParamName, leaf]
  | .mk _ (.cons p _) => by simp [getFirstParamName, leaf, getFirstParamName_eq_leaf p]

/-- what it means for `buildMsgLeStrFldF`'s result to agree with the reference -/
def StrFAgrees (env : Env) (id : Ident) : Except BuildErr (Bytes → Bytes) → Prop
  | .ok g => fnsOk env id = true ∧ ∀ s, g s = applyFns env id s
  | .error _ => fnsOk env id = false

theorem strF_agrees (env : Env) : ∀ id : Ident, StrFAgrees env id (buildMsgLeStrFldF env id)
  | .mk _ .nil => by simp [buildMsgLeStrFldF, StrFAgrees, fnsOk, applyFns]
  | .mk o (.cons p rest) => by
    have ih := strF_agrees env p
    cases rest with
    | cons q r => simp [buildMsgLeStrFldF, StrFAgrees, fnsOk, IdList.isNil]
    | nil =>
      simp only [buildMsgLeStrFldF, IdList.isNil, Bool.not_true, Bool.false_eq_true, if_false]
      cases h : buildMsgLeStrFldF env p with
      | error e =>
        rw [h] at ih; simp only [StrFAgrees] at ih
        simp [StrFAgrees, fnsOk, ih]
      | ok inf =>
        rw [h] at ih; simp only [StrFAgrees] at ih
        obtain ⟨hok, hap⟩ := ih
        by_cases hu : (env.up o == sUPPER) = true
        · simp [StrFAgrees, fnsOk, applyFns, hu, hok, hap, IdList.isNil]
        · by_cases hl : (env.up o == sLOWER) = true
          · simp [StrFAgrees, fnsOk, applyFns, hu, hl, hok, hap, IdList.isNil]
          · simp [StrFAgrees, fnsOk, hu, hl]

/-! ## conditions -/

/-- what it means for a built condition to agree with the reference -/
def CondAgrees (env : Env) (c : Cond) : Except BuildErr Pred → Prop
  | .ok f => condSupported env c = true ∧ ∀ ev : Event, Fields.WF ev.fields → f ev = condRef env c ev
  | .error _ => condSupported env c = false

theorem likeRes_eq (p s : Bytes) : likeRes p s = (PathMatch.pathMatch p s == some true) := by
  unfold likeRes
  cases PathMatch.pathMatch p s with
  | none => rfl
  | some b => cases b <;> rfl

theorem value_eq_fieldRef (f name : Bytes) (h : Fields.WF f) : Fields.value f name = fieldRef f name := by
  rw [Fields.value_wf f name h]; rfl

theorem buildTsCond_agrees (env : Env) (c : Cond) (hs : subjectOf env c.ident = .ts) :
    CondAgrees env c (buildTsCond env c) := by
  unfold buildTsCond
  cases hp : c.ident.params.isNil with
  | false => simp [CondAgrees, condSupported, hs, hp]
  | true =>
    simp only [Bool.not_true, Bool.false_eq_true, if_false]
    cases hv : env.parseTs c.value with
    | none => simp [CondAgrees, condSupported, hs, hp, hv]
    | some tm =>
      simp only []
      by_cases h1 : (c.op == sLT) = true
      · simp [CondAgrees, condSupported, condRef, hs, hp, hv, tsOpOf, h1, evalTsOp]
      by_cases h2 : (c.op == sGT) = true
      · simp [CondAgrees, condSupported, condRef, hs, hp, hv, tsOpOf, h1, h2, evalTsOp]
      by_cases h3 : (c.op == sLE) = true
      · simp [CondAgrees, condSupported, condRef, hs, hp, hv, tsOpOf, h1, h2, h3, evalTsOp]
      by_cases h4 : (c.op == sGE) = true
      · simp [CondAgrees, condSupported, condRef, hs, hp, hv, tsOpOf, h1, h2, h3, h4, evalTsOp]
      · simp [CondAgrees, condSupported, hs, hp, hv, tsOpOf, h1, h2, h3, h4]

theorem buildMsgCond_agrees (env : Env) (c : Cond) (hs : subjectOf env c.ident = .msg) :
    CondAgrees env c (buildMsgCond env c) := by
  unfold buildMsgCond
  simp only [gen_cmpContains, gen_cmpHasPrefix, gen_cmpHasSuffix, gen_cmpLike, gen_likeTestName]
  have hF := strF_agrees env c.ident
  cases hb : buildMsgLeStrFldF env c.ident with
  | error e =>
    rw [hb] at hF; simp only [StrFAgrees] at hF
    simp [CondAgrees, condSupported, hs, hF]
  | ok lsf =>
    rw [hb] at hF; simp only [StrFAgrees] at hF
    obtain ⟨hok, hap⟩ := hF
    simp only []
    by_cases h1 : (env.up c.op == sCONTAINS) = true
    · simp [CondAgrees, condSupported, condRef, hs, hok, strOpOf, h1, StrOp.forMsg, evalStrOp, hap]
    by_cases h2 : (env.up c.op == sPREFIX) = true
    · simp [CondAgrees, condSupported, condRef, hs, hok, strOpOf, h1, h2, StrOp.forMsg, evalStrOp, hap]
    by_cases h3 : (env.up c.op == sSUFFIX) = true
    · simp [CondAgrees, condSupported, condRef, hs, hok, strOpOf, h1, h2, h3, StrOp.forMsg, evalStrOp, hap]
    by_cases h4 : (env.up c.op == sLIKE) = true
    · simp only [h1, h2, h3, h4, if_true, if_false]
      cases hpm : PathMatch.pathMatch c.value sProbe with
      | none => simp [CondAgrees, condSupported, hs, hok, strOpOf, h1, h2, h3, h4, StrOp.forMsg, patternOk, hpm]
      | some b =>
        simp [CondAgrees, condSupported, condRef, hs, hok, strOpOf, h1, h2, h3, h4, StrOp.forMsg, patternOk, hpm,
          evalStrOp, hap, likeRes_eq]
    by_cases h5 : (env.up c.op == sEQ) = true
    · simp [CondAgrees, condSupported, hs, hok, strOpOf, h1, h2, h3, h4, h5, StrOp.forMsg]
    by_cases h6 : (env.up c.op == sNE) = true
    · simp [CondAgrees, condSupported, hs, hok, strOpOf, h1, h2, h3, h4, h5, h6, StrOp.forMsg]
    by_cases h7 : (env.up c.op == sGT) = true
    · simp [CondAgrees, condSupported, hs, hok, strOpOf, h1, h2, h3, h4, h5, h6, h7, StrOp.forMsg]
    by_cases h8 : (env.up c.op == sLT) = true
    · simp [CondAgrees, condSupported, hs, hok, strOpOf, h1, h2, h3, h4, h5, h6, h7, h8, StrOp.forMsg]
    by_cases h9 : (env.up c.op == sGE) = true
    · simp [CondAgrees, condSupported, hs, hok, strOpOf, h1, h2, h3, h4, h5, h6, h7, h8, h9, StrOp.forMsg]
    by_cases h10 : (env.up c.op == sLE) = true
    · simp [CondAgrees, condSupported, hs, hok, strOpOf, h1, h2, h3, h4, h5, h6, h7, h8, h9, h10, StrOp.forMsg]
    · simp [CondAgrees, condSupported, hs, hok, strOpOf, h1, h2, h3, h4, h5, h6, h7, h8, h9, h10]

theorem buildFldCond_agrees (env : Env) (c : Cond) (name : Bytes)
    (hs : subjectOf env c.ident = .field ((leaf c.ident).drop 7)) :
    CondAgrees env c (buildFldCond env c (leaf c.ident)) := by
  unfold buildFldCond
  simp only [gen_cmpContains, gen_cmpHasPrefix, gen_cmpHasSuffix, gen_cmpLike, gen_likeTestName, gen_fieldsCut]
  have hF := strF_agrees env c.ident
  cases hb : buildMsgLeStrFldF env c.ident with
  | error e =>
    rw [hb] at hF; simp only [StrFAgrees] at hF
    simp [CondAgrees, condSupported, hs, hF]
  | ok lsf =>
    rw [hb] at hF; simp only [StrFAgrees] at hF
    obtain ⟨hok, hap⟩ := hF
    simp only []
    have hv : ∀ ev : Event, Fields.WF ev.fields →
        Fields.value ev.fields ((leaf c.ident).drop 7) = fieldRef ev.fields ((leaf c.ident).drop 7) :=
      fun ev h => value_eq_fieldRef _ _ h
    by_cases h1 : (env.up c.op == sCONTAINS) = true
    · simp +contextual [CondAgrees, condSupported, condRef, hs, hok, strOpOf, h1, evalStrOp, hap, hv]
    by_cases h2 : (env.up c.op == sPREFIX) = true
    · simp +contextual [CondAgrees, condSupported, condRef, hs, hok, strOpOf, h1, h2, evalStrOp, hap, hv]
    by_cases h3 : (env.up c.op == sSUFFIX) = true
    · simp +contextual [CondAgrees, condSupported, condRef, hs, hok, strOpOf, h1, h2, h3, evalStrOp, hap, hv]
    by_cases h4 : (env.up c.op == sLIKE) = true
    · simp only [h1, h2, h3, h4, if_true, if_false]
      cases hpm : PathMatch.pathMatch c.value sProbe with
      | none => simp [CondAgrees, condSupported, hs, hok, strOpOf, h1, h2, h3, h4, patternOk, hpm]
      | some b =>
        simp +contextual [CondAgrees, condSupported, condRef, hs, hok, strOpOf, h1, h2, h3, h4, patternOk, hpm,
          evalStrOp, hap, likeRes_eq, hv]
    by_cases h5 : (env.up c.op == sEQ) = true
    · simp +contextual [CondAgrees, condSupported, condRef, hs, hok, strOpOf, h1, h2, h3, h4, h5, evalStrOp, hap, hv]
    by_cases h6 : (env.up c.op == sNE) = true
    · simp +contextual [CondAgrees, condSupported, condRef, hs, hok, strOpOf, h1, h2, h3, h4, h5, h6, evalStrOp, hap, hv]
    by_cases h7 : (env.up c.op == sGT) = true
    · simp +contextual [CondAgrees, condSupported, condRef, hs, hok, strOpOf, h1, h2, h3, h4, h5, h6, h7, evalStrOp, hap, hv]
    by_cases h8 : (env.up c.op == sLT) = true
    · simp +contextual [CondAgrees, condSupported, condRef, hs, hok, strOpOf, h1, h2, h3, h4, h5, h6, h7, h8, evalStrOp, hap, hv]
    by_cases h9 : (env.up c.op == sGE) = true
    · simp +contextual [CondAgrees, condSupported, condRef, hs, hok, strOpOf, h1, h2, h3, h4, h5, h6, h7, h8, h9, evalStrOp, hap, hv]
    by_cases h10 : (env.up c.op == sLE) = true
    · simp +contextual [CondAgrees, condSupported, condRef, hs, hok, strOpOf, h1, h2, h3, h4, h5, h6, h7, h8, h9, h10, evalStrOp, hap, hv]
    · simp [CondAgrees, condSupported, hs, hok, strOpOf, h1, h2, h3, h4, h5, h6, h7, h8, h9, h10]

theorem buildCond_agrees (env : Env) (c : Cond) : CondAgrees env c (buildCond env c) := by
  unfold buildCond
  simp only [getFirstParamName_eq_leaf, gen_opndTimestamp, gen_opndMessage, gen_fieldsPrefix, gen_fieldsMinLen]
  by_cases hts : (env.lo (leaf c.ident) == sTs) = true
  · simp only [hts, if_true]
    exact buildTsCond_agrees env c (by simp [subjectOf, hts])
  by_cases hmsg : (env.lo (leaf c.ident) == sMsg) = true
  · simp only [hts, hmsg, if_true, if_false]
    exact buildMsgCond_agrees env c (by simp [subjectOf, hts, hmsg])
  simp only [hts, hmsg, if_false]
  by_cases hf : (sFieldsColon.isPrefixOf (env.lo (leaf c.ident)) && decide ((env.lo (leaf c.ident)).length ≥ 8)) = true
  · have hs : subjectOf env c.ident = .field ((leaf c.ident).drop 7) := by
      simp [subjectOf, hts, hmsg, hf]
    have hcond : (!hasPrefix (env.lo (leaf c.ident)) sFieldsColon || decide ((env.lo (leaf c.ident)).length < 8)) = false := by
      simp only [Bool.and_eq_true, decide_eq_true_eq] at hf
      simp [hasPrefix, hf.1]; omega
    simp only [hcond, Bool.false_eq_true, if_false]
    exact buildFldCond_agrees env c ((leaf c.ident).drop 7) hs
  · have hs : subjectOf env c.ident = .unknown := by
      simp [subjectOf, hts, hmsg, hf]
    have hcond : (!hasPrefix (env.lo (leaf c.ident)) sFieldsColon || decide ((env.lo (leaf c.ident)).length < 8)) = true := by
      simp only [Bool.and_eq_true, decide_eq_true_eq, not_and, Nat.not_le] at hf
      simp only [hasPrefix, Bool.or_eq_true, Bool.not_eq_true', decide_eq_true_eq]
      cases hpf : sFieldsColon.isPrefixOf (env.lo (leaf c.ident)) with
      | false => exact Or.inl rfl
      | true => exact Or.inr (hf hpf)
    simp only [hcond, if_true]
    simp [CondAgrees, condSupported, hs]

/-! ## expressions -/

def XAgrees (env : Env) (x : XCond) : Except BuildErr Pred → Prop
  | .ok f => supportedX env x = true ∧
      (wellFormedX x = true → ∀ ev : Event, Fields.WF ev.fields → f ev = evalX env x ev)
  | .error _ => supportedX env x = false

def AndAgrees (env : Env) (a : AndL) : Except BuildErr Pred → Prop
  | .ok f => supportedAnd env a = true ∧
      (wellFormedAnd a = true → ∀ ev : Event, Fields.WF ev.fields → f ev = evalAnd env a ev)
  | .error _ => supportedAnd env a = false

def ExprAgrees (env : Env) (e : Expr) : Except BuildErr Pred → Prop
  | .ok f => supported env e = true ∧
      (wellFormed e = true → ∀ ev : Event, Fields.WF ev.fields → f ev = evalRef env e ev)
  | .error _ => supported env e = false

theorem bne_not (n b : Bool) : (if n then !b else b) = (n != b) := by cases n <;> cases b <;> rfl

mutual
theorem or_agrees (env : Env) : ∀ e : Expr, ExprAgrees env e (buildOrConds env e)
  | .nil => by simp [buildOrConds, ExprAgrees, supported, wellFormed]
  | .cons a .nil => by
    have ha := and_agrees env a
    simp only [buildOrConds]
    cases h : buildXConds env a with
    | error e => rw [h] at ha; simp only [AndAgrees] at ha; simp [ExprAgrees, supported, ha]
    | ok f =>
      rw [h] at ha; simp only [AndAgrees] at ha
      refine ⟨by simp [supported, ha.1], ?_⟩
      intro hw ev hev
      simp only [wellFormed] at hw
      simp [evalRef, ha.2 hw ev hev]
  | .cons a (.cons b r) => by
    have ha := and_agrees env a
    have hr := or_agrees env (.cons b r)
    simp only [buildOrConds]
    cases h : buildXConds env a with
    | error e =>
      rw [h] at ha; simp only [AndAgrees] at ha
      simp only [ExprAgrees]; simp [supported, ha]
    | ok f =>
      rw [h] at ha; simp only [AndAgrees] at ha
      cases h2 : buildOrConds env (.cons b r) with
      | error e =>
        rw [h2] at hr; simp only [ExprAgrees] at hr
        simp only [ExprAgrees]
        rw [supported, hr]; simp
      | ok g =>
        rw [h2] at hr; simp only [ExprAgrees] at hr
        simp only [ExprAgrees]
        refine ⟨by rw [supported, ha.1, hr.1]; rfl, ?_⟩
        intro hw ev hev
        simp only [wellFormed, Bool.and_eq_true] at hw
        rw [evalRef, ha.2 hw.1 ev hev, hr.2 hw.2 ev hev]
theorem and_agrees (env : Env) : ∀ a : AndL, AndAgrees env a (buildXConds env a)
  | .nil => by simp [buildXConds, AndAgrees, supportedAnd, evalAnd, positive]
  | .cons x .nil => by
    have hx := x_agrees env x
    simp only [buildXConds]
    cases h : buildXCond env x with
    | error e => rw [h] at hx; simp only [XAgrees] at hx; simp [AndAgrees, supportedAnd, hx]
    | ok f =>
      rw [h] at hx; simp only [XAgrees] at hx
      refine ⟨by simp [supportedAnd, hx.1], ?_⟩
      intro hw ev hev
      simp only [wellFormedAnd, Bool.and_true] at hw
      simp [evalAnd, hx.2 hw ev hev]
  | .cons x (.cons y r) => by
    have hx := x_agrees env x
    have hr := and_agrees env (.cons y r)
    simp only [buildXConds]
    cases h : buildXCond env x with
    | error e =>
      rw [h] at hx; simp only [XAgrees] at hx
      simp only [AndAgrees]; simp [supportedAnd, hx]
    | ok f =>
      rw [h] at hx; simp only [XAgrees] at hx
      cases h2 : buildXConds env (.cons y r) with
      | error e =>
        rw [h2] at hr; simp only [AndAgrees] at hr
        simp only [AndAgrees]
        rw [supportedAnd, hr]; simp
      | ok g =>
        rw [h2] at hr; simp only [AndAgrees] at hr
        simp only [AndAgrees]
        refine ⟨by rw [supportedAnd, hx.1, hr.1]; rfl, ?_⟩
        intro hw ev hev
        rw [wellFormedAnd] at hw
        simp only [Bool.and_eq_true] at hw
        rw [evalAnd, hx.2 hw.1 ev hev, hr.2 hw.2 ev hev]
theorem x_agrees (env : Env) : ∀ x : XCond, XAgrees env x (buildXCond env x)
  | .cond n c => by
    have hc := buildCond_agrees env c
    simp only [buildXCond]
    cases h : buildCond env c with
    | error e => rw [h] at hc; simp only [CondAgrees] at hc; simp [XAgrees, supportedX, hc]
    | ok f =>
      rw [h] at hc; simp only [CondAgrees] at hc
      cases n with
      | false =>
        simp only [Bool.false_eq_true, if_false, XAgrees, supportedX]
        exact ⟨hc.1, fun _ ev hev => by simp [evalX, hc.2 ev hev]⟩
      | true =>
        simp only [if_true, XAgrees, supportedX]
        exact ⟨hc.1, fun _ ev hev => by simp [evalX, hc.2 ev hev]⟩
  | .sub n e => by
    have he := or_agrees env e
    simp only [buildXCond]
    cases h : buildOrConds env e with
    | error err => rw [h] at he; simp only [ExprAgrees] at he; simp [XAgrees, supportedX, he]
    | ok f =>
      rw [h] at he; simp only [ExprAgrees] at he
      cases n with
      | false =>
        simp only [Bool.false_eq_true, if_false, XAgrees, supportedX]
        exact ⟨he.1, fun hw ev hev => by simp only [wellFormedX] at hw; simp [evalX, he.2 hw ev hev]⟩
      | true =>
        simp only [if_true, XAgrees, supportedX]
        exact ⟨he.1, fun hw ev hev => by simp only [wellFormedX] at hw; simp [evalX, he.2 hw ev hev]⟩
end

end Logrange.Where
