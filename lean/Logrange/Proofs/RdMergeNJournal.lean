import Logrange.Proofs.RdMergeN
import Logrange.Proofs.MixerJournal
import Logrange.Proofs.RdRngSource
import Logrange.Proofs.RdPaging
/-!
Instances of `Proofs/RdMergeN.lean` for the two journal iterators as leaves: the library iterator (`JSrc`, un-ranged queries)
and the ranged iterator (`RSrc`, queries with RANGE). The leaf invariant is "well formed, forward, reported position in sync
with the chunk iterator" (what `St … sy = true` is for one partition in `RdPaging.lean`); a new leaf from an exported position
is a fresh iterator positioned by `SetPos`.
-/
set_option linter.unusedVariables false
namespace Logrange.MergeN
open Logrange.Mixer Logrange.Rd

/-! ## library iterator -/

def PJ (s : JSrc) : Prop := JSrc.wf s ∧ s.it.bkwd = false ∧ Synced s.it
/-- `newCursor` + `applyStatePos` for this partition: a fresh iterator at the exported position -/
def refreshJ (s : JSrc) : JSrc := { s with it := Rd.setPos s.j {} s.it.pos }

theorem pj_get (s : JSrc) (h : PJ s) : PJ (Source.get s).1 := by
  obtain ⟨⟨hs, hp, hb, hw⟩, hd, hsy⟩ := h
  obtain ⟨_, g2, g3, _, g5, _⟩ := getFwd s.j s.it hs hw hd
  exact ⟨⟨hs, hp, hb, g2⟩, g3, g5 hsy⟩

theorem pj_next (s : JSrc) (h : PJ s) : PJ (Source.next s) := by
  obtain ⟨⟨hs, hp, hb, hw⟩, hd, hsy⟩ := h
  obtain ⟨n1, n2, n3, _⟩ := nextFwd s.j s.it hs hw hd
  exact ⟨⟨hs, hp, hb, n1⟩, n2, n3⟩

theorem pj_release (s : JSrc) (h : PJ s) : PJ (Source.release s) := by
  obtain ⟨⟨hs, hp, hb, hw⟩, hd, hsy⟩ := h
  obtain ⟨r1, _, r3, r4, _⟩ := pg_release_facts s.j s.it
  exact ⟨⟨hs, hp, hb, r1 hw⟩, by show (Rd.release s.it).bkwd = false; rw [r3, hd], r4 hsy⟩

theorem pj_refresh (s : JSrc) (h : PJ s) :
    PJ (refreshJ s) ∧ LawfulSource.wf (refreshJ s) ∧ LawfulSource.dir (refreshJ s) = false ∧
    LawfulSource.view (refreshJ s) = LawfulSource.view s := by
  obtain ⟨⟨hs, hp, hb, hw⟩, hd, hsy⟩ := h
  obtain ⟨f1, f2, f3⟩ := setPos_fresh s.j s.it.pos
  have hwf : JSrc.wf (refreshJ s) := ⟨hs, hp, hb, by show WF s.j (Rd.setPos s.j {} s.it.pos); unfold WF; rw [f1]; trivial⟩
  have hsyn : Synced (refreshJ s).it := by show Synced (Rd.setPos s.j {} s.it.pos); unfold Synced; rw [f1]; trivial
  refine ⟨⟨hwf, f3, hsyn⟩, hwf, f3, ?_⟩
  show JSrc.view (refreshJ s) = JSrc.view s
  have e1 : fIdx s.j (Rd.setPos s.j {} s.it.pos) = fIdx s.j s.it := by
    unfold fIdx
    rw [effPos_eq_pos hw hsy]
    unfold effPos; rw [f1]; simp [f2]
  simp only [JSrc.view, refreshJ, f3, hd, Bool.false_eq_true, if_false, e1]
  rfl

/-! ## ranged iterator -/

def PR (s : RSrc) : Prop := RSrc.wf s ∧ s.it.bkwd = false ∧ RSynced s.it
def refreshR (s : RSrc) : RSrc := { s with it := Rd.rSetPos s.j {} s.it.pos }

theorem pr_get (s : RSrc) (h : PR s) : PR (Source.get s).1 := by
  obtain ⟨⟨hs, hp, hb, hw⟩, hd, hsy⟩ := h
  obtain ⟨_, g2, g3, _, g5, _⟩ := rGetFwd s.j s.it hs hw hd
  exact ⟨⟨hs, hp, hb, g2⟩, g3, g5 hsy⟩

theorem pr_next (s : RSrc) (h : PR s) : PR (Source.next s) := by
  obtain ⟨⟨hs, hp, hb, hw⟩, hd, hsy⟩ := h
  obtain ⟨n1, n2, n3, _⟩ := rNextFwd s.j s.it hs hw hd
  exact ⟨⟨hs, hp, hb, n1⟩, n2, n3⟩

theorem pr_release (s : RSrc) (h : PR s) : PR (Source.release s) := by
  obtain ⟨⟨hs, hp, hb, hw⟩, hd, hsy⟩ := h
  obtain ⟨r1, _, r3, r4, _, _⟩ := rw_release_facts s.j s.it
  exact ⟨⟨hs, hp, hb, r1 hw⟩, by show (Rd.rRelease s.it).bkwd = false; rw [r3, hd], r4 hsy⟩

theorem pr_refresh (s : RSrc) (h : PR s) :
    PR (refreshR s) ∧ LawfulSource.wf (refreshR s) ∧ LawfulSource.dir (refreshR s) = false ∧
    LawfulSource.view (refreshR s) = LawfulSource.view s := by
  obtain ⟨⟨hs, hp, hb, hw⟩, hd, hsy⟩ := h
  obtain ⟨f1, f2, f3, f4⟩ := rw_setPos_fresh s.j s.it.pos
  have hwf : RSrc.wf (refreshR s) :=
    ⟨hs, hp, hb, by show RWF s.j (Rd.rSetPos s.j {} s.it.pos); unfold RWF; rw [f1]; exact Or.inl f4⟩
  have hsyn : RSynced (refreshR s).it := by show RSynced (Rd.rSetPos s.j {} s.it.pos); unfold RSynced; rw [f1]; trivial
  refine ⟨⟨hwf, f3, hsyn⟩, hwf, f3, ?_⟩
  show RSrc.view (refreshR s) = RSrc.view s
  have e1 : wIdx s.j (Rd.rSetPos s.j {} s.it.pos) = wIdx s.j s.it := by
    unfold wIdx
    rw [rw_effPos_eq_pos hw hsy]
    unfold rEffPos; rw [f1]; simp [f2]
  simp only [RSrc.view, refreshR, f3, hd, Bool.false_eq_true, if_false, e1]
  rfl

end Logrange.MergeN
