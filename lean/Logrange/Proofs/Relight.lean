import Logrange.Model.Relight
import Logrange.Proofs.RebuildHist
/-! The stale-entry path keeps the chunk index sound on monotone data: `relight_sound`, `lateNotify_sound`. -/
namespace Logrange.RebuildHist
open Logrange.Points Logrange.ChunkHist

/-- after `dropStale` + `lightFill` the entry is sound for all `m` confirmed records — whatever it was before -/
theorem relight_sound {tsOf : Nat → Int} {c : ChunkIdx} (m : Nat) (hs : SoundL tsOf c) (hm : Monotone tsOf m)
    (hlow : ∀ q, q < m → minI64 ≤ tsOf q) : SoundL tsOf (relight tsOf m c) := by
  unfold relight
  by_cases h : m ≤ c.n
  · rw [if_pos h]; exact hs
  · rw [if_neg h]
    have hm0 : 0 < m := by omega
    refine ⟨?_, ?_, ?_, ?_, ?_⟩
    · intro _; simp
    · intro hl hh
      simp only [Option.some.injEq] at hh
      subst hh
      dsimp only
      refine ⟨?_, ?_⟩
      · intro p hp
        have h1 := hm 0 p (Nat.zero_le _) hp
        have h2 := hm p (m - 1) (by omega) (by omega)
        dsimp only
        omega
      · have := hlow 0 hm0
        have := hlow (m - 1) (by omega)
        omega
    · intro _; exact ⟨fun p hp => by simp at hp, fun p hp => by simp at hp⟩
    · intro _ p hp; simp at hp
    · intro _ p hp; simp at hp

theorem relight_n (tsOf : Nat → Int) (m : Nat) (c : ChunkIdx) : (relight tsOf m c).n = max m c.n := by
  unfold relight
  by_cases h : m ≤ c.n
  · rw [if_pos h]; omega
  · rw [if_neg h]; dsimp only; omega

/-- the writer's notification that arrives after the entry was re-derived (or after a rebuild of nothing): the entry has
no tree; the batch `a … a+k-1` with its hull (`RollHull`) leaves a sound entry for the `a + k` records it accounts for -/
theorem lateNotify_sound {tsOf : Nat → Int} {c : ChunkIdx} (bigGap a k : Nat) (mn mx : Int) (hs : SoundL tsOf c)
    (hk : 0 < k) (ha : a ≤ c.n) (hm : Monotone tsOf (max c.n (a + k))) (he : RollHull tsOf a k mn mx) :
    SoundL tsOf (lateNotify bigGap c a k mn mx) := by
  obtain ⟨hb, ⟨qx, hqx1, hqx2, hqx⟩, hmn, hlo⟩ := he
  -- the merged hull covers every position below a + k
  have hull_ok : HullSound (newHull c.hull mn mx) tsOf (a + k) ∧ minI64 ≤ (newHull c.hull mn mx).minTs := by
    cases hh : c.hull with
    | none =>
      have hn0 : c.n = 0 := by
        by_cases h0 : c.n > 0
        · exact absurd hh (hs.hullSome h0)
        · omega
      simp only [newHull]
      refine ⟨?_, hlo⟩
      intro p hp
      exact hb p (by omega) hp
    | some h =>
      obtain ⟨hhs, hhm⟩ := hs.hullOk h hh
      simp only [newHull]
      refine ⟨?_, by omega⟩
      intro p hp
      show min h.minTs mn ≤ tsOf p ∧ tsOf p ≤ max h.maxTs mx
      by_cases hpn : p < c.n
      · have := hhs p hpn; omega
      · by_cases hpa : a ≤ p
        · have := hb p hpa hp; omega
        · omega
  unfold lateNotify
  dsimp only
  by_cases hc : c.corrupted = true
  · rw [if_pos hc]
    refine ⟨fun _ => by simp, ?_, ?_, ?_, ?_⟩
    · intro h hh; simp only [Option.some.injEq] at hh; subst hh; exact hull_ok
    · intro h; simp [hc] at h
    · intro h; simp [hc] at h
    · intro h; simp [hc] at h
  · rw [if_neg hc]
    by_cases hg : a + k - 1 - c.lastRec > bigGap
    · rw [if_pos hg]
      refine ⟨fun _ => by simp, ?_, ?_, ?_, ?_⟩
      · intro h hh; simp only [Option.some.injEq] at hh; subst hh; exact hull_ok
      · intro h; simp at h
      · intro h; simp at h
      · intro h; simp at h
    · rw [if_neg hg]
      have hadd : add [] ⟨⟨mn, a⟩, ⟨mx, a + k - 1⟩⟩ = [⟨mn, a⟩, ⟨mx, a + k - 1⟩] := rfl
      refine ⟨fun _ => by simp, ?_, ?_, ?_, ?_⟩
      · intro h hh; simp only [Option.some.injEq] at hh; subst hh; exact hull_ok
      · intro _
        dsimp only
        rw [hadd]
        constructor
        · intro p hp q hq hqn
          simp at hp
          rcases hp with rfl | rfl
          · -- q < a: needs mn attained (a ≠ 0)
            dsimp only at hq
            have ha : a ≠ 0 := by omega
            rcases hmn with h0 | ⟨qm, hq1, hq2, hqm⟩
            · exact absurd h0 ha
            · have := hm q qm (by omega) (by omega)
              dsimp only; omega
          · dsimp only at hq
            by_cases hqa : a ≤ q
            · have := (hb q hqa (by omega)).2
              dsimp only; exact this
            · have := hm q qx (by omega) (by omega)
              dsimp only; omega
        · intro p hp q hq hqn
          simp at hp
          rcases hp with rfl | rfl
          · dsimp only at hq
            have := (hb q (by omega) hqn).1
            dsimp only; exact this
          · dsimp only at hq; omega
      · intro _ p hp
        dsimp only at hp
        rw [hadd] at hp
        simp at hp
        rcases hp with rfl | rfl
        · exact ⟨a, by dsimp only; omega, (hb a (Nat.le_refl _) (by omega)).1⟩
        · exact ⟨qx, by dsimp only; omega, by dsimp only; omega⟩
      · intro _ p hp
        dsimp only at hp
        rw [hadd] at hp
        simp at hp
        rcases hp with rfl | rfl <;> dsimp only <;> omega

end Logrange.RebuildHist
