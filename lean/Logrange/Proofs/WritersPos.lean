import Logrange.Model.WritersPos
import Logrange.Proofs.WritersLts
/-! # Positions returned to concurrent writers (`Model/WritersPos.lean`) -/
namespace Logrange.WritersLts

/-! ## basics -/

theorem runLog_fst' (maxSize : Nat) : ∀ (sched : List Label) (s : State),
    (runLog maxSize s sched).1 = run maxSize s sched := by
  intro sched
  induction sched with
  | nil => intro s; rfl
  | cons l ls ih => intro s; simp only [runLog, run]; exact ih _

theorem runLog_fst (maxSize : Nat) (s : State) (sched : List Label) :
    (runLog maxSize s sched).1 = run maxSize s sched := runLog_fst' maxSize sched s

theorem taken_le (maxSize : Nat) : ∀ (l : List TRec) (size : Nat), taken maxSize size l ≤ l.length := by
  intro l
  induction l with
  | nil => intro size; simp [taken]
  | cons r rest ih =>
    intro size
    simp only [taken]
    split
    · omega
    · have := ih (size + 4 + r.data.length)
      simp only [List.length_cons]; omega

theorem upd_length : ∀ (cs : List Chunk) (i : Nat) (new : List TRec), (upd cs i new).length = cs.length := by
  intro cs
  induction cs with
  | nil => intro i new; simp [upd]
  | cons c cs ih =>
    intro i new
    cases i with
    | zero => simp [upd]
    | succ i => simp [upd, ih]

theorem upd_get_self : ∀ (cs : List Chunk) (idx : Nat) (c : Chunk) (new : List TRec), cs[idx]? = some c →
    (upd cs idx new)[idx]? = some ⟨c.recs ++ new, c.size + sizeOf new⟩ := by
  intro cs
  induction cs with
  | nil => intro idx c new h; simp at h
  | cons d ds ih =>
    intro idx c new h
    cases idx with
    | zero =>
      have : d = c := by simpa using h
      subst this
      simp [upd]
    | succ i =>
      have h' : ds[i]? = some c := by simpa using h
      simpa [upd] using ih i c new h'

theorem upd_get_ne : ∀ (cs : List Chunk) (idx i : Nat) (new : List TRec), i ≠ idx →
    (upd cs idx new)[i]? = cs[i]? := by
  intro cs
  induction cs with
  | nil => intro idx i new h; simp [upd]
  | cons d ds ih =>
    intro idx i new h
    cases idx with
    | zero =>
      cases i with
      | zero => exact absurd rfl h
      | succ i => simp [upd]
    | succ idx =>
      cases i with
      | zero => simp [upd]
      | succ i => simpa [upd] using ih idx i new (by omega)

/-! ## what a step does to the chunk list -/

theorem step_submit_chunks (maxSize : Nat) (s s' : State) (w : Nat) (b : List Bytes)
    (hs : step maxSize s (.submit w b) = some s') : s'.chunks = s.chunks := by
  simp only [step] at hs
  split at hs
  · simp at hs
  · simp only [Option.some.injEq] at hs
    subst hs; rfl

theorem step_getChunk_chunks (maxSize : Nat) (s s' : State) (w : Nat)
    (hs : step maxSize s (.getChunk w) = some s') :
    s'.chunks = s.chunks ∨ s'.chunks = s.chunks ++ [⟨[], 0⟩] := by
  simp only [step] at hs
  split at hs
  · simp at hs
  · split at hs
    · simp only [Option.some.injEq] at hs
      subst hs; exact Or.inr rfl
    · simp only [Option.some.injEq] at hs
      subst hs; exact Or.inl rfl

theorem step_chunkWrite_chunks (maxSize : Nat) (s s' : State) (w : Nat)
    (hs : step maxSize s (.chunkWrite w) = some s') :
    ∃ idx c, (s.loc w).held = some idx ∧ s.chunks[idx]? = some c ∧
      s'.chunks = upd s.chunks idx ((s.loc w).pending.take (taken maxSize c.size (s.loc w).pending)) := by
  simp only [step] at hs
  split at hs
  · simp at hs
  · rename_i idx hheld
    split at hs
    · simp at hs
    · rename_i c hc
      refine ⟨idx, c, hheld, hc, ?_⟩
      split at hs
      · simp only [Option.some.injEq] at hs
        subst hs; rfl
      · split at hs
        · simp only [Option.some.injEq] at hs
          subst hs; rfl
        · simp only [Option.some.injEq] at hs
          subst hs; rfl

theorem retOf_chunkWrite (maxSize : Nat) (s : State) (w idx : Nat) (c : Chunk)
    (hheld : (s.loc w).held = some idx) (hc : s.chunks[idx]? = some c) :
    retOf maxSize s (.chunkWrite w) =
      if taken maxSize c.size (s.loc w).pending > 0 then
        some ⟨w, idx, c.recs.length, taken maxSize c.size (s.loc w).pending,
          (s.loc w).pending.take (taken maxSize c.size (s.loc w).pending)⟩
      else none := by
  simp only [retOf, hheld, hc]

/-- a return is logged only for an enabled `chunkWrite` step -/
theorem retOf_some (maxSize : Nat) (s : State) (l : Label) (r : Ret) (h : retOf maxSize s l = some r) :
    ∃ c s', (s.loc r.w).held = some r.chunk ∧ s.chunks[r.chunk]? = some c ∧ l = .chunkWrite r.w ∧
      r.first = c.recs.length ∧ r.n = taken maxSize c.size (s.loc r.w).pending ∧ 0 < r.n ∧
      r.recs = (s.loc r.w).pending.take r.n ∧
      step maxSize s l = some s' ∧ s'.chunks = upd s.chunks r.chunk r.recs := by
  cases l with
  | submit w b => simp [retOf] at h
  | getChunk w => simp [retOf] at h
  | chunkWrite w =>
    cases hheld : (s.loc w).held with
    | none => simp [retOf, hheld] at h
    | some idx =>
      cases hc : s.chunks[idx]? with
      | none => simp [retOf, hheld, hc] at h
      | some c =>
        rw [retOf_chunkWrite maxSize s w idx c hheld hc] at h
        split at h
        · rename_i hn
          simp only [Option.some.injEq] at h
          subst h
          cases hst : step maxSize s (.chunkWrite w) with
          | none =>
            simp only [step, hheld, hc] at hst
            split at hst
            · simp at hst
            · omega
          | some s' =>
            obtain ⟨idx', c', h1, h2, h3⟩ := step_chunkWrite_chunks maxSize s s' w hst
            rw [hheld] at h1
            simp only [Option.some.injEq] at h1
            subst h1
            rw [hc] at h2
            simp only [Option.some.injEq] at h2
            subst h2
            exact ⟨c, s', hheld, hc, rfl, rfl, rfl, hn, rfl, rfl, h3⟩
        · simp at h

/-! ## append-only -/

/-- every chunk of `s` is still there in `s'`, with a record list that extends the old one -/
def ChunksPrefix (s s' : State) : Prop :=
  s.chunks.length ≤ s'.chunks.length ∧
    ∀ (i : Nat) (c : Chunk), s.chunks[i]? = some c → ∃ c' : Chunk, s'.chunks[i]? = some c' ∧ c.recs <+: c'.recs

theorem ChunksPrefix.refl (s : State) : ChunksPrefix s s :=
  ⟨Nat.le_refl _, fun _ c h => ⟨c, h, List.prefix_refl _⟩⟩

theorem ChunksPrefix.trans {a b c : State} (h1 : ChunksPrefix a b) (h2 : ChunksPrefix b c) : ChunksPrefix a c := by
  refine ⟨Nat.le_trans h1.1 h2.1, fun i x hx => ?_⟩
  obtain ⟨y, hy, hxy⟩ := h1.2 i x hx
  obtain ⟨z, hz, hyz⟩ := h2.2 i y hy
  exact ⟨z, hz, List.IsPrefix.trans hxy hyz⟩

theorem step_chunks_prefix (maxSize : Nat) (s s' : State) (l : Label) (hs : step maxSize s l = some s') :
    s.chunks.length ≤ s'.chunks.length ∧
      ∀ (i : Nat) (c : Chunk), s.chunks[i]? = some c → ∃ c' : Chunk, s'.chunks[i]? = some c' ∧ c.recs <+: c'.recs := by
  cases l with
  | submit w b =>
    rw [step_submit_chunks maxSize s s' w b hs]
    exact ChunksPrefix.refl s
  | getChunk w =>
    rcases step_getChunk_chunks maxSize s s' w hs with h | h
    · rw [h]; exact ChunksPrefix.refl s
    · rw [h]
      refine ⟨by simp, fun i c hc => ⟨c, ?_, List.prefix_refl _⟩⟩
      have hi : i < s.chunks.length := by
        rcases List.getElem?_eq_some_iff.mp hc with ⟨hi, _⟩; exact hi
      rw [List.getElem?_append_left hi]; exact hc
  | chunkWrite w =>
    obtain ⟨idx, c0, _, hc0, h⟩ := step_chunkWrite_chunks maxSize s s' w hs
    rw [h]
    refine ⟨by rw [upd_length]; exact Nat.le_refl _, fun i c hc => ?_⟩
    by_cases hi : i = idx
    · subst hi
      rw [hc0] at hc
      simp only [Option.some.injEq] at hc
      subst hc
      exact ⟨_, upd_get_self s.chunks i c0 _ hc0, List.prefix_append _ _⟩
    · exact ⟨c, by rw [upd_get_ne s.chunks idx i _ hi]; exact hc, List.prefix_refl _⟩

theorem run_chunks_prefix (maxSize : Nat) : ∀ (sched : List Label) (s : State),
    s.chunks.length ≤ (run maxSize s sched).chunks.length ∧
      ∀ (i : Nat) (c : Chunk), s.chunks[i]? = some c → ∃ c' : Chunk, (run maxSize s sched).chunks[i]? = some c' ∧ c.recs <+: c'.recs := by
  intro sched
  induction sched with
  | nil => intro s; exact ChunksPrefix.refl s
  | cons l ls ih =>
    intro s
    simp only [run]
    cases hs : step maxSize s l with
    | none => simp only [Option.getD_none]; exact ih s
    | some s' =>
      have h1 : ChunksPrefix s s' := step_chunks_prefix maxSize s s' l hs
      have h2 : ChunksPrefix s' (run maxSize s' ls) := ih s'
      simp only [Option.getD_some]
      exact ChunksPrefix.trans h1 h2

/-! ## positions delimit the caller's own records -/

/-- in state `s` the index range `[first, first+n)` of chunk `r.chunk` holds exactly the records call `r` wrote -/
def Delimits (s : State) (r : Ret) : Prop :=
  ∃ c : Chunk, s.chunks[r.chunk]? = some c ∧ (c.recs.drop r.first).take r.n = r.recs ∧ r.recs.length = r.n ∧ 0 < r.n ∧
    (∀ x ∈ r.recs, x.w = r.w)

theorem Delimits.mono {s s' : State} {r : Ret} (h : Delimits s r) (hp : ChunksPrefix s s') : Delimits s' r := by
  obtain ⟨c, hc, hrange, hlen, hpos, hown⟩ := h
  obtain ⟨c', hc', ⟨t, ht⟩⟩ := hp.2 r.chunk c hc
  refine ⟨c', hc', ?_, hlen, hpos, hown⟩
  have hl : r.first + r.n ≤ c.recs.length := by
    have := congrArg List.length hrange
    simp only [List.length_take, List.length_drop, hlen] at this
    omega
  rw [← ht, List.drop_append_of_le_length (by omega), List.take_append_of_le_length (by simp; omega)]
  exact hrange

/-- right after the call, the returned range holds the call's records -/
theorem retOf_delimits (maxSize : Nat) (s s' : State) (l : Label) (r : Ret) (hi : SInv s)
    (h : retOf maxSize s l = some r) (hs : step maxSize s l = some s') : Delimits s' r := by
  obtain ⟨c, s'', hheld, hc, hl, hfirst, hn, hpos, hrecs, hs'', hch⟩ := retOf_some maxSize s l r h
  rw [hs] at hs''
  simp only [Option.some.injEq] at hs''
  subst hs''
  have hle := taken_le maxSize (s.loc r.w).pending c.size
  have hlen : r.recs.length = r.n := by
    rw [hrecs, List.length_take]; omega
  refine ⟨_, by rw [hch]; exact upd_get_self s.chunks r.chunk c r.recs hc, ?_, hlen, hpos, ?_⟩
  · simp only [hfirst, List.drop_left, ← hlen, List.take_length]
  · intro x hx
    rw [hrecs] at hx
    exact (hi r.w).own x (List.mem_of_mem_take hx)

theorem runLog_delimits (maxSize : Nat) : ∀ (sched : List Label) (s : State), SInv s →
    ∀ r ∈ (runLog maxSize s sched).2, Delimits (run maxSize s sched) r := by
  intro sched
  induction sched with
  | nil => intro s _ r hr; simp [runLog] at hr
  | cons l ls ih =>
    intro s hi r hr
    simp only [runLog, List.mem_append, Option.mem_toList] at hr
    simp only [run]
    rcases hr with hr | hr
    · obtain ⟨c, s', _, _, _, _, _, _, _, hs, _⟩ := retOf_some maxSize s l r hr
      rw [hs]
      simp only [Option.getD_some]
      exact (retOf_delimits maxSize s s' l r hi hr hs).mono (run_chunks_prefix maxSize ls s')
    · cases hs : step maxSize s l with
      | none =>
        rw [hs] at hr
        simp only [Option.getD_none] at hr ⊢
        exact ih s hi r hr
      | some s' =>
        rw [hs] at hr
        simp only [Option.getD_some] at hr ⊢
        exact ih s' (step_inv maxSize s s' l hi hs) r hr

theorem positions_delimit_own_records (maxSize : Nat) (sched : List Label) :
    ∀ r ∈ (runLog maxSize {} sched).2, ∃ c : Chunk, (run maxSize {} sched).chunks[r.chunk]? = some c ∧
      (c.recs.drop r.first).take r.n = r.recs ∧ r.recs.length = r.n ∧ 0 < r.n ∧ (∀ x ∈ r.recs, x.w = r.w) :=
  runLog_delimits maxSize sched {} init_inv

/-- … and they keep doing so in every later state, whatever steps follow -/
theorem positions_delimit_in_every_later_state (maxSize : Nat) (sched more : List Label) :
    ∀ r ∈ (runLog maxSize {} sched).2, Delimits (run maxSize (run maxSize {} sched) more) r :=
  fun r hr => (runLog_delimits maxSize sched {} init_inv r hr).mono (run_chunks_prefix maxSize more _)

/-! ## the returns cover each writer's records exactly -/

/-- the records the returns in `log` announce to writer `w`, in call order -/
def announced (w : Nat) (log : List Ret) : List TRec := (log.filter (fun r => r.w == w)).flatMap (·.recs)

theorem announced_append (w : Nat) (a b : List Ret) : announced w (a ++ b) = announced w a ++ announced w b := by
  simp [announced]

theorem step_byWriter (maxSize : Nat) (s s' : State) (l : Label) (w : Nat) (hi : SInv s)
    (hs : step maxSize s l = some s') :
    byWriter w (readAll s'.chunks) = byWriter w (readAll s.chunks) ++ announced w (retOf maxSize s l).toList := by
  cases l with
  | submit v b =>
    rw [step_submit_chunks maxSize s s' v b hs]
    simp [retOf, announced]
  | getChunk v =>
    have e0 := readAll_drop_append_empty s.chunks 0
    simp only [List.drop_zero] at e0
    rcases step_getChunk_chunks maxSize s s' v hs with h | h
    · rw [h]; simp [retOf, announced]
    · rw [h, e0]; simp [retOf, announced]
  | chunkWrite v =>
    obtain ⟨idx, c, hheld, hc, h⟩ := step_chunkWrite_chunks maxSize s s' v hs
    have hv := hi v
    have hnew_own : ∀ r ∈ (s.loc v).pending.take (taken maxSize c.size (s.loc v).pending), r.w = v :=
      fun r hr => hv.own r (List.mem_of_mem_take hr)
    rw [h, retOf_chunkWrite maxSize s v idx c hheld hc]
    by_cases hw : w = v
    · subst hw
      have hself : byWriter w (readAll (upd s.chunks idx ((s.loc w).pending.take (taken maxSize c.size (s.loc w).pending))))
          = byWriter w (readAll s.chunks) ++ (s.loc w).pending.take (taken maxSize c.size (s.loc w).pending) := by
        rw [readAll_upd_self s.chunks idx c _ hc, byWriter_append, byWriter_append, hv.held idx hheld,
          byWriter_self w _ hnew_own, List.append_nil, readAll_take_drop s.chunks (idx + 1), byWriter_append,
          hv.held idx hheld, List.append_nil]
      rw [hself]
      split
      · simp [announced]
      · rename_i hn
        have hn0 : taken maxSize c.size (s.loc w).pending = 0 := by omega
        simp [announced, hn0]
    · have := byWriter_drop_upd_other w _ (byWriter_other w v _ hnew_own hw) s.chunks idx 0
      simp only [List.drop_zero] at this
      rw [this]
      have hvw : ¬ v = w := fun e => hw e.symm
      split <;> simp [announced, hvw]

theorem runLog_covers (maxSize : Nat) (w : Nat) : ∀ (sched : List Label) (s : State), SInv s →
    byWriter w (readAll (run maxSize s sched).chunks) =
      byWriter w (readAll s.chunks) ++ announced w (runLog maxSize s sched).2 := by
  intro sched
  induction sched with
  | nil => intro s _; simp [run, runLog, announced]
  | cons l ls ih =>
    intro s hi
    simp only [run, runLog, announced_append]
    cases hs : step maxSize s l with
    | none =>
      have hr : retOf maxSize s l = none := by
        cases hr : retOf maxSize s l with
        | none => rfl
        | some r =>
          obtain ⟨_, _, _, _, _, _, _, _, _, hs', _⟩ := retOf_some maxSize s l r hr
          rw [hs] at hs'; simp at hs'
      simp only [Option.getD_none, hr, Option.toList_none]
      rw [ih s hi]; simp [announced]
    | some s' =>
      simp only [Option.getD_some]
      rw [ih s' (step_inv maxSize s s' l hi hs), step_byWriter maxSize s s' l w hi hs, List.append_assoc]

theorem returns_cover_exactly (maxSize : Nat) (sched : List Label) (w : Nat) :
    (((runLog maxSize {} sched).2.filter (fun r => r.w == w)).flatMap (·.recs)) =
      byWriter w (readAll (run maxSize {} sched).chunks) := by
  have h := runLog_covers maxSize w sched {} init_inv
  rw [h]
  simp [readAll, byWriter, announced]

/-! ## the late count -/

theorem late_count_exact_when_quiet (maxSize : Nat) (s later : State) (l : Label) (r : Ret)
    (h : retOf maxSize s l = some r)
    (hq : lateCount later r.chunk = lateCount ((step maxSize s l).getD s) r.chunk) :
    lateCount later r.chunk - r.n = r.first := by
  obtain ⟨c, s', _, hc, _, hfirst, _, _, hrecs, hs, hch⟩ := retOf_some maxSize s l r h
  have hle := taken_le maxSize (s.loc r.w).pending c.size
  rw [hq, hs]
  simp only [Option.getD_some, lateCount, hch, upd_get_self s.chunks r.chunk c r.recs hc, Option.map_some,
    List.length_append, hfirst]
  have : r.recs.length = r.n := by rw [hrecs, List.length_take]; omega
  omega

/-! ## the late count under the per-partition write lock -/

theorem run_submits_chunks (maxSize : Nat) : ∀ (more : List Label) (s : State),
    (∀ l ∈ more, ∃ v b, l = .submit v b) → (run maxSize s more).chunks = s.chunks := by
  intro more
  induction more with
  | nil => intro s _; rfl
  | cons l ls ih =>
    intro s h
    obtain ⟨v, b, rfl⟩ := h l (by simp)
    simp only [run]
    rw [ih _ (fun x hx => h x (by simp [hx]))]
    cases hs : step maxSize s (.submit v b) with
    | none => rfl
    | some s' => simpa using step_submit_chunks maxSize s s' v b hs

theorem between_submits (noEv : Nat → Bool) (w : Nat) (more : List Label) (hall : ∀ v, takesLock (noEv v) = true) :
    ∀ l ∈ between noEv w more, ∃ v b, l = .submit v b := by
  intro l hl
  simp only [between, List.mem_filter] at hl
  obtain ⟨_, h⟩ := hl
  cases l with
  | submit v b => exact ⟨v, b, rfl⟩
  | getChunk v => simp [hall] at h
  | chunkWrite v => simp [hall] at h

/-- **with every writer of the partition under the write lock the late count is exact**: whatever the others try between a call's
return and its count read -/
theorem late_count_exact_when_all_lock (maxSize : Nat) (noEv : Nat → Bool) (hall : ∀ v, takesLock (noEv v) = true)
    (s : State) (more : List Label) (l : Label) (r : Ret) (h : retOf maxSize s l = some r) :
    lateCount (run maxSize ((step maxSize s l).getD s) (between noEv r.w more)) r.chunk - r.n = r.first := by
  apply late_count_exact_when_quiet maxSize s _ l r h
  simp only [lateCount]
  rw [run_submits_chunks maxSize _ _ (between_submits noEv r.w more hall)]

/-! ## the late read is not safe -/

/-- writers 1 and 2 both hold chunk 0; writer 1 is about to write -/
def cexBefore : State := run 100 {} [.submit 1 [[1], [2]], .submit 2 [[9]], .getChunk 1, .getChunk 2]
/-- writer 1 has written (and released the chunk writer's lock) -/
def cexS1 : State := run 100 {} [.submit 1 [[1], [2]], .submit 2 [[9]], .getChunk 1, .getChunk 2, .chunkWrite 1]
/-- writer 2's write lands before writer 1 reads the count -/
def cexS2 : State := run 100 cexS1 [.chunkWrite 2]

/-- **Counterexample for the late count read**: writer 1 wrote records 0,1 of chunk 0 (the atomic return says so); writer
2's write lands between writer 1's unlock and its count read; the late count is 3, so writer 1 announces `[1, 2]` — a range
that misses its own first record and contains writer 2's record. -/
theorem cex_late_count_shifts_positions :
    retOf 100 cexBefore (.chunkWrite 1) = some ⟨1, 0, 0, 2, [⟨1, [1]⟩, ⟨1, [2]⟩]⟩ ∧
    lateCount cexS2 0 = 3 ∧ lateCount cexS2 0 - 2 = 1 ∧
    (cexS2.chunks[0]?.map (fun c => (c.recs.drop 1).take 2)) = some [⟨1, [2]⟩, ⟨2, [9]⟩] := by decide

/-- the same schedule under the atomic reading: both returns are exact (`positions_delimit_own_records` instance) -/
example : (runLog 100 {} [.submit 1 [[1], [2]], .submit 2 [[9]], .getChunk 1, .getChunk 2, .chunkWrite 1,
    .chunkWrite 2]).2.map (fun r => (r.w, r.chunk, r.first, r.n)) = [(1, 0, 0, 2), (2, 0, 2, 1)] := by decide

/-- non-vacuity (the schedule of `Props/C01.lean`): writer 1's batch spans a roll-over, writer 2's record lands in between;
one call that hits the full chunk returns nothing (`n = 0`: not logged) -/
example : (runLog 10 {} [.submit 1 [[1], [2], [3]], .submit 2 [[9]], .getChunk 1, .chunkWrite 1, .getChunk 2,
    .chunkWrite 2, .getChunk 2, .chunkWrite 2, .getChunk 1, .chunkWrite 1]).2.map (fun r => (r.w, r.chunk, r.first, r.n))
      = [(1, 0, 0, 2), (2, 1, 0, 1), (1, 1, 1, 1)] := by decide

end Logrange.WritersLts
