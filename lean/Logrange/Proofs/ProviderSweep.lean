import Logrange.Proofs.Provider
/-!
# What one `sweepByTime()` removes, and the halving bound

`e.Next()` returns `cle.prev`, so after unlinking an expired element the loop of `sweepByTime` steps over the
element in front of it. The loop counter is `len(p.curs)` and is decremented once per round, while a removal
consumes two ring elements: the rounds that are left over are spent on a **second (third, …) lap round the ring**
(`Prev()` of the head is the tail), which re-examines the elements skipped before. The exact description is
therefore the cyclic `cwalk` below (not the one-lap `walk`); `walk` is its first lap (`walk_sub_cwalk`).

* `sweepByTime_removes`  — the ring after the sweep is the old ring without `removed s`, the cursors of removed
  idle holders are closed, the other cursors are untouched;
* `sweep_closes_oldest`, `sweep_closes_examined`;
* `sweep_halves`, `Sorted_sweepByTime`, `sweeps_finish`, `sweeps_close` — under `Sorted` the number of expired ring
  elements is at least halved by every sweep, so `k` sweeps clear fewer than `2^k` expired elements.
-/
namespace Logrange.Provider
open Logrange.Ring

/-! ## pure lists -/
section Pure
variable (exp busy : Nat → Bool)

/-- the first lap, in examination order (tail first): an expired element is removed and the next one stepped
    over; a live busy one is passed; a live idle one ends the sweep -/
def walk : List Nat → List Nat
  | [] => []
  | [x] => if exp x then [x] else []
  | x :: y :: rest => if exp x then x :: walk rest else if busy x then walk (y :: rest) else []

/-- the whole loop: `cnt` rounds on the ring in examination order, starting with the element examined next;
    returns (removed, what is left — rotated). An examined element that stays is rotated to the back; after a
    removal the element stepped over is. -/
def cwalk : Nat → List Nat → List Nat × List Nat
  | 0, l => ([], l)
  | _ + 1, [] => ([], [])
  | c + 1, x :: rest =>
    if exp x then (x :: (cwalk c (rest.drop 1 ++ rest.take 1)).1, (cwalk c (rest.drop 1 ++ rest.take 1)).2)
    else if busy x then cwalk c (rest ++ [x])
    else ([], x :: rest)

theorem cwalk_zero (l : List Nat) : cwalk exp busy 0 l = ([], l) := by cases l <;> rfl

theorem cwalk_succ_cons (c x : Nat) (rest : List Nat) : cwalk exp busy (c + 1) (x :: rest) =
    if exp x then (x :: (cwalk exp busy c (rest.drop 1 ++ rest.take 1)).1, (cwalk exp busy c (rest.drop 1 ++ rest.take 1)).2)
    else if busy x then cwalk exp busy c (rest ++ [x])
    else ([], x :: rest) := rfl

theorem rot_perm (rest : List Nat) : (rest.drop 1 ++ rest.take 1).Perm rest := by
  have h := @List.perm_append_comm _ (rest.drop 1) (rest.take 1)
  rwa [List.take_append_drop] at h

theorem cwalk_perm : ∀ (c : Nat) (l : List Nat), l.Perm ((cwalk exp busy c l).1 ++ (cwalk exp busy c l).2) := by
  intro c
  induction c with
  | zero => intro l; simp [cwalk_zero]
  | succ c ih =>
    intro l
    cases l with
    | nil => simp [cwalk]
    | cons x rest =>
      rw [cwalk_succ_cons]
      by_cases hx : exp x = true
      · simp only [hx, if_true, List.cons_append]
        exact ((rot_perm rest).symm.trans (ih _)).cons x
      · simp only [hx, Bool.false_eq_true, if_false]
        by_cases hb : busy x = true
        · simp only [hb, if_true]
          exact (List.perm_append_singleton x rest).symm.trans (ih _)
        · simp [hb]

theorem cwalk_removed_exp : ∀ (c : Nat) (l : List Nat), ∀ y ∈ (cwalk exp busy c l).1, exp y = true := by
  intro c
  induction c with
  | zero => intro l y hy; simp [cwalk_zero] at hy
  | succ c ih =>
    intro l
    cases l with
    | nil => intro y hy; simp [cwalk] at hy
    | cons x rest =>
      rw [cwalk_succ_cons]
      by_cases hx : exp x = true
      · simp only [hx, if_true]
        intro y hy
        rcases List.mem_cons.1 hy with rfl | h
        · exact hx
        · exact ih _ y h
      · simp only [hx, Bool.false_eq_true, if_false]
        by_cases hb : busy x = true
        · simp only [hb, if_true]; exact ih _
        · simp [hb]

/-- expired elements before / after: removed ones are all expired -/
theorem cwalk_count (c : Nat) (l : List Nat) :
    l.countP exp = (cwalk exp busy c l).1.length + (cwalk exp busy c l).2.countP exp := by
  rw [(cwalk_perm exp busy c l).countP_eq exp, List.countP_append]
  congr 1
  exact List.countP_eq_length.2 (cwalk_removed_exp exp busy c l)

/-- nothing expired comes after a live idle element -/
def SortedL (l : List Nat) : Prop := l.Pairwise (fun x y => exp x = false ∧ busy x = false → exp y = false)

theorem countP_zero_of {l : List Nat} (h : ∀ y ∈ l, exp y = false) : l.countP exp = 0 := by
  rw [List.countP_eq_zero]; intro y hy; simp [h y hy]

/-- the expired elements that survive are paid for by removals: `todo` is what the first lap has not reached -/
theorem cwalk_halve_gen : ∀ (c : Nat) (todo done : List Nat), SortedL exp busy todo → todo.length ≤ c →
    (cwalk exp busy c (todo ++ done)).2.countP exp ≤ (cwalk exp busy c (todo ++ done)).1.length + done.countP exp := by
  intro c
  induction c with
  | zero =>
    intro todo done _ hl
    have : todo = [] := List.eq_nil_of_length_eq_zero (by omega)
    subst this; simp [cwalk_zero]
  | succ c ih =>
    intro todo done hs hl
    cases todo with
    | nil =>
      have := cwalk_count exp busy (c + 1) done
      simp only [List.nil_append]; omega
    | cons x t =>
      have hs' := List.pairwise_cons.1 hs
      simp only [List.cons_append]
      rw [cwalk_succ_cons]
      by_cases hx : exp x = true
      · simp only [hx, if_true, List.length_cons]
        cases t with
        | nil =>
          have h1 := cwalk_count exp busy c (done.drop 1 ++ done.take 1)
          have h2 := (rot_perm done).countP_eq exp
          simp only [List.nil_append]; omega
        | cons y t' =>
          have h1 := ih t' (done ++ [y]) (List.pairwise_cons.1 hs'.2).2 (by simp at hl; omega)
          have e1 : (y :: t' ++ done).drop 1 ++ (y :: t' ++ done).take 1 = t' ++ (done ++ [y]) := by simp
          rw [e1]
          have h2 : (done ++ [y]).countP exp ≤ done.countP exp + 1 := by
            simp only [List.countP_append, List.countP_cons, List.countP_nil]; split <;> omega
          omega
      · simp only [hx, Bool.false_eq_true, if_false]
        by_cases hb : busy x = true
        · simp only [hb, if_true]
          have h1 := ih t (done ++ [x]) hs'.2 (by simp at hl; omega)
          have e1 : t ++ done ++ [x] = t ++ (done ++ [x]) := by simp
          rw [e1]
          have h2 : (done ++ [x]).countP exp = done.countP exp := by
            simp [List.countP_append, hx]
          omega
        · simp only [hb, Bool.false_eq_true, if_false]
          have hx' : exp x = false := by simpa using hx
          have hb' : busy x = false := by simpa using hb
          have h0 : t.countP exp = 0 := countP_zero_of exp (fun y hy => hs'.1 y hy ⟨hx', hb'⟩)
          simp [List.countP_append, hx', h0]

/-- **halving** (pure): with enough rounds for one lap, the expired survivors are at most as many as the removed -/
theorem cwalk_halves (l : List Nat) (hs : SortedL exp busy l) (c : Nat) (hc : l.length ≤ c) :
    (cwalk exp busy c l).2.countP exp ≤ l.countP exp / 2 := by
  have h1 := cwalk_halve_gen exp busy c l [] hs hc
  have h2 := cwalk_count exp busy c l
  simp only [List.append_nil, List.countP_nil] at h1
  omega

/-- the first lap is part of what the loop removes -/
theorem walk_sub_cwalk : ∀ (c : Nat) (todo done : List Nat), todo.length ≤ c →
    ∀ y ∈ walk exp busy todo, y ∈ (cwalk exp busy c (todo ++ done)).1 := by
  intro c
  induction c with
  | zero =>
    intro todo done hl
    have : todo = [] := List.eq_nil_of_length_eq_zero (by omega)
    subst this; simp [walk]
  | succ c ih =>
    intro todo done hl
    match todo, hl with
    | [], _ => simp [walk]
    | [x], _ =>
      simp only [walk, List.cons_append, List.nil_append]
      rw [cwalk_succ_cons]
      by_cases hx : exp x = true
      · simp [hx]
      · simp [hx]
    | x :: y :: t', hl =>
      simp only [walk, List.cons_append]
      rw [cwalk_succ_cons]
      by_cases hx : exp x = true
      · simp only [hx, if_true]
        have e1 : (y :: (t' ++ done)).drop 1 ++ (y :: (t' ++ done)).take 1 = t' ++ (done ++ [y]) := by simp
        rw [e1]
        intro z hz
        rcases List.mem_cons.1 hz with rfl | h
        · exact List.mem_cons_self ..
        · exact List.mem_cons_of_mem _ (ih t' (done ++ [y]) (by simp at hl; omega) z h)
      · simp only [hx, Bool.false_eq_true, if_false]
        by_cases hb : busy x = true
        · simp only [hb, if_true]
          have e1 : y :: (t' ++ done) ++ [x] = (y :: t') ++ (done ++ [x]) := by simp
          rw [e1]
          exact ih (y :: t') (done ++ [x]) (by simp at hl ⊢; omega)
        · simp [hb]

end Pure

/-! ## the ring seen from the loop variable -/

/-- `L` is the ring `R` in examination order for the loop variable `e`: `L` starts with `Prev(e)` and ends with `e` -/
def Cyc (R : List Nat) (e : Nat) (L : List Nat) : Prop :=
  ∃ p q, R = q.reverse ++ e :: p.reverse ∧ L = q ++ (p ++ [e])

theorem Cyc_init (h : Nat) (t : List Nat) : Cyc (h :: t) h (h :: t).reverse :=
  ⟨t.reverse, [], by simp, by simp⟩

theorem Cyc_mem {R e L} (h : Cyc R e L) : e ∈ R := by
  obtain ⟨p, q, rfl, _⟩ := h; simp

theorem Cyc_perm {R e L} (h : Cyc R e L) : R.Perm L := by
  obtain ⟨p, q, rfl, rfl⟩ := h
  refine List.Perm.append (List.reverse_perm q) ?_
  exact ((List.reverse_perm p).cons e).trans (List.perm_append_singleton e p).symm

theorem prevAux_app (e : Nat) (b : List Nat) : ∀ (a : List Nat) (l : Nat), e ∉ a →
    prevAux l (a ++ e :: b) e = a.getLastD l := by
  intro a
  induction a with
  | nil => intro l _; simp [prevAux]
  | cons x a ih =>
    intro l hne
    have hx : x ≠ e := fun h => hne (h ▸ List.mem_cons_self ..)
    have ha : e ∉ a := fun h => hne (List.mem_cons_of_mem _ h)
    simp only [List.cons_append, prevAux, hx, if_false, List.getLastD_cons]
    exact ih x ha

theorem prev_of_cyc {R : List Nat} {e x : Nat} {rest : List Nat} (hn : R.Nodup) (h : Cyc R e (x :: rest)) :
    prev R e = x := by
  obtain ⟨p, q, hR, hL⟩ := h
  have heq : e ∉ q.reverse := by
    intro he; rw [hR] at hn
    exact (List.nodup_append.1 hn).2.2 e he e (List.mem_cons_self ..) rfl
  unfold prev
  cases hl : R.getLast? with
  | none => rw [List.getLast?_eq_none_iff] at hl; rw [hl] at hR; simp at hR
  | some l =>
    simp only []
    rw [hR] at hl ⊢
    rw [prevAux_app e _ _ _ heq]
    cases q with
    | cons x' q' =>
      simp at hL
      simp [hL.1]
    | nil =>
      cases p with
      | nil => simp at hL hl ⊢; omega
      | cons y p' =>
        simp at hL hl ⊢
        rw [← List.cons_append, List.getLast?_concat] at hl
        simp at hl; omega

theorem Cyc_rot {R : List Nat} {e x : Nat} {rest : List Nat} (h : Cyc R e (x :: rest)) : Cyc R x (rest ++ [x]) := by
  obtain ⟨p, q, hR, hL⟩ := h
  cases q with
  | cons x' q' =>
    simp at hL
    obtain ⟨rfl, rfl⟩ := hL
    exact ⟨p ++ [e], q', by simp [hR], by simp⟩
  | nil =>
    cases p with
    | nil =>
      simp at hL
      obtain ⟨rfl, rfl⟩ := hL
      exact ⟨[], [], by simp [hR], by simp⟩
    | cons y p' =>
      simp at hL
      obtain ⟨rfl, rfl⟩ := hL
      exact ⟨[], p' ++ [e], by simp [hR], by simp⟩

theorem erase_mid {a b : List Nat} {x : Nat} (h : x ∉ a) : (a ++ x :: b).erase x = a ++ b := by
  rw [List.erase_append_right _ h, List.erase_cons_head]

theorem Cyc_erase {R : List Nat} {e x y : Nat} {rest : List Nat} (hn : R.Nodup) (h : Cyc R e (x :: y :: rest)) :
    Cyc (R.erase x) e (y :: rest) := by
  obtain ⟨p, q, hR, hL⟩ := h
  cases q with
  | cons x' q' =>
    simp at hL
    obtain ⟨rfl, hL⟩ := hL
    have e1 : R = q'.reverse ++ x :: (e :: p.reverse) := by simp [hR]
    have hx : x ∉ q'.reverse := by
      intro hx; rw [e1] at hn
      exact (List.nodup_append.1 hn).2.2 x hx x (List.mem_cons_self ..) rfl
    exact ⟨p, q', by rw [e1, erase_mid hx], hL⟩
  | nil =>
    cases p with
    | nil => simp at hL
    | cons x' p' =>
      simp at hL
      obtain ⟨rfl, hL⟩ := hL
      have e1 : R = (e :: p'.reverse) ++ x :: [] := by simp [hR]
      have hx : x ∉ e :: p'.reverse := by
        intro hx; rw [e1] at hn
        exact (List.nodup_append.1 hn).2.2 x hx x (List.mem_cons_self ..) rfl
      exact ⟨p', [], by rw [e1, erase_mid hx]; simp, by simpa using hL⟩

/-! ## the loop of the model -/

/-- the holder of `e` is expired at the model's clock -/
def expd (s : St) (e : Nat) : Bool := decide ((s.holders e).exp < s.now)
def busyd (s : St) (e : Nat) : Bool := (s.holders e).busy
/-- the cursor object gave back what it took (`close()` sets `closed := acquired`) -/
def Cl (s : St) (c : Nat) : Prop := (s.cursors c).closed = (s.cursors c).acquired

theorem evict_fields {s : St} {x c : Nat} (hc : (s.holders x).cur = some c) (r : Bool) :
    (evict s x r).now = s.now ∧
    (evict s x r).holders = (fun y => if y = x then { s.holders x with cur := none } else s.holders y) ∧
    (evict s x r).cursors = (if (s.holders x).busy = true then s.cursors else (closeCur s c).cursors) := by
  unfold evict
  simp only [hc]
  cases hb : (s.holders x).busy
  · simp only [Bool.not_false, if_true, Bool.false_eq_true, if_false]
    split <;> exact ⟨rfl, rfl, rfl⟩
  · simp only [Bool.not_true, Bool.false_eq_true, if_false, if_true]
    split <;> exact ⟨rfl, rfl, rfl⟩

/-- what a run of removals `rm` changes -/
structure Frame (s s' : St) (rm : List Nat) : Prop where
  now : s'.now = s.now
  hexp : ∀ y, (s'.holders y).exp = (s.holders y).exp
  hbusy : ∀ y, (s'.holders y).busy = (s.holders y).busy
  ring : s'.ring = s.ring.filter (fun y => decide (y ∉ rm))
  hcur : ∀ y, y ∉ rm → (s'.holders y).cur = (s.holders y).cur
  hnone : ∀ y ∈ rm, (s'.holders y).cur = none
  mono : ∀ c, Cl s c → Cl s' c
  closed : ∀ y ∈ rm, (s.holders y).busy = false → ∀ c, (s.holders y).cur = some c → Cl s' c
  same : ∀ c, (∀ y ∈ rm, (s.holders y).cur ≠ some c) → s'.cursors c = s.cursors c
  acq : ∀ c, (s'.cursors c).acquired = (s.cursors c).acquired

theorem Frame_refl (s : St) : Frame s s [] := by
  refine ⟨rfl, fun _ => rfl, fun _ => rfl, (List.filter_eq_self.2 (by simp)).symm, fun _ _ => rfl, by simp, fun _ h => h, by simp, fun _ _ => rfl, fun _ => rfl⟩

theorem Cl_closeCur (s : St) (c c' : Nat) (h : c' = c ∨ Cl s c') : Cl (closeCur s c) c' := by
  by_cases hcc : c' = c
  · subst hcc; simp [Cl, closeCur, setCur]
  · rcases h with h | h
    · exact absurd h hcc
    · simpa [Cl, closeCur, setCur, hcc] using h

theorem Frame_evict {s : St} {x : Nat} (k : K s) (hx : x ∈ s.ring) : Frame s (evict s x true) [x] := by
  obtain ⟨c, hc, _⟩ := k.j.e x hx
  obtain ⟨f1, f2, f3⟩ := evict_fields hc true
  have hring := (Rest_evict x true k.j k.r hx).2
  refine ⟨f1, ?_, ?_, ?_, ?_, ?_, ?_, ?_, ?_, ?_⟩
  · intro y; rw [f2]; by_cases hy : y = x <;> simp [hy]
  · intro y; rw [f2]; by_cases hy : y = x <;> simp [hy]
  · rw [hring, List.Nodup.erase_eq_filter k.j.a]
    apply List.filter_congr; intro y _; by_cases hy : y = x <;> simp [hy]
  · intro y hy; rw [f2]
    have : y ≠ x := by simpa using hy
    simp [this]
  · intro y hy
    have : y = x := by simpa using hy
    rw [f2]; simp [this]
  · intro c' hcl
    unfold Cl; rw [f3]
    split
    · exact hcl
    · exact Cl_closeCur s c c' (Or.inr hcl)
  · intro y hy hb c' hc'
    have : y = x := by simpa using hy
    subst this
    have : c' = c := by rw [hc] at hc'; exact (Option.some.inj hc').symm
    unfold Cl; rw [f3]; simp only [hb, Bool.false_eq_true, if_false]
    exact Cl_closeCur s c c' (Or.inl this)
  · intro c' hne
    have : c' ≠ c := by intro h; subst h; exact hne x (List.mem_cons_self ..) hc
    rw [f3]
    split
    · rfl
    · simp [closeCur, setCur, this]
  · intro c'
    rw [f3]
    split
    · rfl
    · by_cases hcc : c' = c
      · subst hcc; simp [closeCur, setCur]
      · simp [closeCur, setCur, hcc]

theorem Frame_trans {s s1 s2 : St} {r1 r2 : List Nat} (F1 : Frame s s1 r1) (F2 : Frame s1 s2 r2) :
    Frame s s2 (r1 ++ r2) := by
  refine ⟨F2.now.trans F1.now, fun y => (F2.hexp y).trans (F1.hexp y), fun y => (F2.hbusy y).trans (F1.hbusy y),
    ?_, ?_, ?_, fun c h => F2.mono c (F1.mono c h), ?_, ?_, fun c => (F2.acq c).trans (F1.acq c)⟩
  · rw [F2.ring, F1.ring, List.filter_filter]
    apply List.filter_congr; intro y _; simp only [List.mem_append, not_or, Bool.decide_and, decide_not]; exact Bool.and_comm _ _
  · intro y hy
    have h1 : y ∉ r1 := fun h => hy (List.mem_append_left _ h)
    have h2 : y ∉ r2 := fun h => hy (List.mem_append_right _ h)
    exact (F2.hcur y h2).trans (F1.hcur y h1)
  · intro y hy
    by_cases h2 : y ∈ r2
    · exact F2.hnone y h2
    · have h1 : y ∈ r1 := by rcases List.mem_append.1 hy with h | h; exact h; exact absurd h h2
      exact (F2.hcur y h2).trans (F1.hnone y h1)
  · intro y hy hb c hc
    by_cases h1 : y ∈ r1
    · exact F2.mono c (F1.closed y h1 hb c hc)
    · have h2 : y ∈ r2 := by rcases List.mem_append.1 hy with h | h; exact absurd h h1; exact h
      exact F2.closed y h2 ((F1.hbusy y).trans hb) c ((F1.hcur y h1).trans hc)
  · intro c hne
    rw [F2.same c, F1.same c]
    · intro y hy; exact hne y (List.mem_append_left _ hy)
    · intro y hy
      by_cases h1 : y ∈ r1
      · rw [F1.hnone y h1]; simp
      · rw [F1.hcur y h1]; exact hne y (List.mem_append_right _ hy)

theorem Frame_preds {s s' : St} {rm : List Nat} (F : Frame s s' rm) : expd s' = expd s ∧ busyd s' = busyd s := by
  constructor
  · funext y; simp [expd, F.now, F.hexp]
  · funext y; simp [busyd, F.hbusy]

/-- the loop of the model does what `cwalk` says -/
theorem loop_spec (cnt : Nat) : ∀ (s : St) (e : Nat) (L : List Nat), K s → Cyc s.ring e L → cnt ≤ L.length →
    Frame s (sweepByTimeLoop cnt s e) (cwalk (expd s) (busyd s) cnt L).1 ∧
    (sweepByTimeLoop cnt s e).ring.Perm (cwalk (expd s) (busyd s) cnt L).2 := by
  induction cnt with
  | zero =>
    intro s e L _ hc _
    rw [cwalk_zero]
    exact ⟨Frame_refl s, Cyc_perm hc⟩
  | succ cnt ih =>
    intro s e L k hcyc hlen
    cases L with
    | nil => simp at hlen
    | cons x rest =>
      have hpx : prev s.ring e = x := prev_of_cyc k.j.a hcyc
      have hx : x ∈ s.ring := hpx ▸ prev_mem (Cyc_mem hcyc)
      unfold sweepByTimeLoop
      simp only [hpx]
      rw [cwalk_succ_cons]
      by_cases hexp : (s.holders x).exp < s.now
      · have hE : expd s x = true := by simp [expd, hexp]
        simp only [hexp, hE, if_true]
        have hk := K_evict x true k hx
        have hF1 := Frame_evict k hx
        have hring := (Rest_evict x true k.j k.r hx).2
        simp only [hk.r.np, Bool.false_eq_true, if_false]
        cases rest with
        | nil =>
          have h0 : cnt = 0 := by simp at hlen; omega
          subst h0
          have hl1 : s.ring.length = 1 := (Cyc_perm hcyc).length_eq
          have hnil : (evict s x true).ring = [] := by
            apply List.eq_nil_of_length_eq_zero
            rw [hring, List.length_erase_of_mem hx, hl1]
          simp only [sweepByTimeLoop, List.drop_nil, List.take_nil, List.append_nil, cwalk_zero]
          exact ⟨hF1, by rw [hnil]⟩
        | cons y rest2 =>
          have e1 : (y :: rest2).drop 1 ++ (y :: rest2).take 1 = rest2 ++ [y] := by simp
          rw [e1]
          have hn1 : next s.ring x = y := prev_of_cyc k.j.a (Cyc_rot hcyc)
          rw [hn1]
          have hc2 : Cyc (evict s x true).ring y (rest2 ++ [y]) := by
            rw [hring]; exact Cyc_rot (Cyc_erase k.j.a hcyc)
          have h := ih (evict s x true) y (rest2 ++ [y]) hk hc2 (by simp at hlen ⊢; omega)
          rw [(Frame_preds hF1).1, (Frame_preds hF1).2] at h
          exact ⟨Frame_trans hF1 h.1, h.2⟩
      · have hE : expd s x = false := by simp [expd, hexp]
        simp only [hexp, hE, Bool.false_eq_true, if_false]
        by_cases hb : (s.holders x).busy = true
        · have hB : busyd s x = true := hb
          simp only [hb, hB, Bool.not_true, Bool.false_eq_true, if_false, if_true]
          exact ih s x (rest ++ [x]) k (Cyc_rot hcyc) (by simp at hlen ⊢; omega)
        · have hb' : (s.holders x).busy = false := by simpa using hb
          have hB : busyd s x = false := hb'
          simp only [hb', hB, Bool.not_false, Bool.false_eq_true, if_false, if_true]
          exact ⟨Frame_refl s, Cyc_perm hcyc⟩

/-- (removed, what is left) of one `sweepByTime`, computed on the initial state -/
def swept (s : St) : List Nat × List Nat := cwalk (expd s) (busyd s) s.ring.length s.ring.reverse
/-- the ring elements one `sweepByTime` unlinks, in the order of their removal -/
def removed (s : St) : List Nat := (swept s).1

theorem sweepByTime_spec {s : St} (k : K s) :
    Frame s (sweepByTime s) (removed s) ∧ (sweepByTime s).ring.Perm (swept s).2 := by
  unfold removed swept
  cases hr : s.ring with
  | nil => simp only [sweepByTime, hr, List.length_nil, List.reverse_nil, cwalk_zero]; exact ⟨Frame_refl s, List.Perm.refl _⟩
  | cons h t =>
    have hc : Cyc s.ring h (h :: t).reverse := hr ▸ Cyc_init h t
    have := loop_spec s.ring.length s h (h :: t).reverse k hc (by rw [hr]; simp)
    simp only [sweepByTime, hr, k.r.sz]
    rw [hr] at this
    exact this

/-! ## A. what one sweep removes -/

theorem removed_sub {s : St} : ∀ e ∈ removed s, e ∈ s.ring ∧ expd s e = true := by
  intro e he
  refine ⟨?_, cwalk_removed_exp _ _ _ _ e he⟩
  have hp := cwalk_perm (expd s) (busyd s) s.ring.length s.ring.reverse
  have : e ∈ s.ring.reverse := hp.mem_iff.2 (List.mem_append_left _ he)
  simpa using this

/-- **A.** The ring after `sweepByTime` is the old ring (order kept) without `removed s` = the removals of the
    cyclic walk `cwalk` on the initial holders; every removed element was expired; the cursor of a removed idle
    holder has given its partitions back; cursors not cached by a removed holder are untouched. -/
theorem sweepByTime_removes {s : St} (k : K s) :
    (sweepByTime s).ring = s.ring.filter (fun y => decide (y ∉ removed s)) ∧
    (∀ e ∈ removed s, e ∈ s.ring ∧ (s.holders e).exp < s.now) ∧
    (∀ e ∈ removed s, (s.holders e).busy = false → ∀ c, (s.holders e).cur = some c →
        ((sweepByTime s).cursors c).closed = 1 ∧ ((sweepByTime s).cursors c).acquired = 1) ∧
    (∀ c, (∀ e ∈ removed s, (s.holders e).cur ≠ some c) → (sweepByTime s).cursors c = s.cursors c) ∧
    (∀ e, e ∉ removed s → (sweepByTime s).holders e = s.holders e) := by
  have F := (sweepByTime_spec k).1
  refine ⟨F.ring, ?_, ?_, F.same, ?_⟩
  · intro e he
    have := removed_sub e he
    exact ⟨this.1, by simpa [expd] using this.2⟩
  · intro e he hb c hc
    have h1 : Cl (sweepByTime s) c := F.closed e he hb c hc
    have h2 := (J_cached_acq k.j (removed_sub e he).1 hc).2.1
    have h3 := F.acq c
    unfold Cl at h1
    omega
  · intro e he
    have h1 := F.hexp e; have h2 := F.hbusy e; have h3 := F.hcur e he
    cases hh : (sweepByTime s).holders e; cases hh' : s.holders e
    simp_all

/-! ## B. the oldest cursor, the first lap -/

theorem removed_gone {s : St} (k : K s) {e : Nat} (he : e ∈ removed s) : e ∉ (sweepByTime s).ring := by
  rw [(sweepByTime_removes k).1]; simp [he]

/-- **B.** the tail of the ring (the holder touched longest ago), if expired and idle, is unlinked and its cursor closed -/
theorem sweep_closes_oldest {s : St} (k : K s) {e c : Nat} (hl : s.ring.getLast? = some e)
    (hexp : (s.holders e).exp < s.now) (hidle : (s.holders e).busy = false) (hc : (s.holders e).cur = some c) :
    e ∉ (sweepByTime s).ring ∧ ((sweepByTime s).cursors c).closed = 1 ∧ ((sweepByTime s).cursors c).acquired = 1 := by
  have he : e ∈ removed s := by
    unfold removed swept
    have hlen : s.ring.length = s.ring.reverse.length := by simp
    rw [hlen]
    rw [← List.head?_reverse] at hl
    cases hrev : s.ring.reverse with
    | nil => rw [hrev] at hl; simp at hl
    | cons x r =>
      rw [hrev] at hl
      have : x = e := by simpa using hl
      subst this
      have hE : expd s x = true := by simp [expd, hexp]
      simp only [List.length_cons]
      rw [cwalk_succ_cons]
      simp [hE]
  exact ⟨removed_gone k he, (sweepByTime_removes k).2.2.1 e he hidle c hc⟩

/-- everything the one-lap description `walk` removes is removed (the loop's later laps may remove more) -/
theorem walk_sub_removed {s : St} : ∀ e ∈ walk (expd s) (busyd s) s.ring.reverse, e ∈ removed s := by
  intro e he
  have := walk_sub_cwalk (expd s) (busyd s) s.ring.length s.ring.reverse [] (by simp) e he
  simpa [removed, swept] using this

theorem sweep_closes_examined {s : St} (k : K s) {e : Nat} (he : e ∈ walk (expd s) (busyd s) s.ring.reverse) :
    e ∉ (sweepByTime s).ring ∧
    ((s.holders e).busy = false → ∀ c, (s.holders e).cur = some c →
        ((sweepByTime s).cursors c).closed = 1 ∧ ((sweepByTime s).cursors c).acquired = 1) :=
  ⟨removed_gone k (walk_sub_removed e he), (sweepByTime_removes k).2.2.1 e (walk_sub_removed e he)⟩

/-! ## C. halving -/

/-- HYPOTHESIS of the halving bound: in examination order (tail first) nothing expired comes after a live idle
    holder (the ring is ordered by last touch; an idle holder expires `idleTo`, a busy one `busyTo ≥ idleTo` after it) -/
def Sorted (s : St) : Prop := SortedL (expd s) (busyd s) s.ring.reverse

theorem sweep_halves {s : St} (k : K s) (hs : Sorted s) :
    ((sweepByTime s).ring.filter (expd s)).length ≤ (s.ring.filter (expd s)).length / 2 := by
  rw [← List.countP_eq_length_filter, ← List.countP_eq_length_filter]
  rw [(sweepByTime_spec k).2.countP_eq, ← (List.reverse_perm s.ring).countP_eq]
  exact cwalk_halves (expd s) (busyd s) s.ring.reverse hs s.ring.length (by simp)

theorem preds_sweepByTime {s : St} (k : K s) : expd (sweepByTime s) = expd s ∧ busyd (sweepByTime s) = busyd s :=
  Frame_preds (sweepByTime_spec k).1

theorem Sorted_sweepByTime {s : St} (k : K s) (hs : Sorted s) : Sorted (sweepByTime s) := by
  unfold Sorted SortedL at hs ⊢
  rw [(preds_sweepByTime k).1, (preds_sweepByTime k).2, (sweepByTime_removes k).1, ← List.filter_reverse]
  exact hs.filter _

/-- the time of the last touch, recovered from the expiry time (`exp = touch + busyTo` resp. `+ idleTo`) -/
def touch (s : St) (e : Nat) : Int := (s.holders e).exp - (if (s.holders e).busy = true then s.busyTo else s.idleTo)

/-- `Sorted` follows from the ring being ordered by last touch (head = most recent) when `idleTo ≤ busyTo`.
    (That the steps of the provider keep the ring ordered by last touch is NOT proved here.) -/
theorem Sorted_of_touch_order {s : St} (hto : s.idleTo ≤ s.busyTo)
    (hord : s.ring.Pairwise (fun x y => touch s y ≤ touch s x)) : Sorted s := by
  unfold Sorted SortedL
  rw [List.pairwise_reverse]
  refine hord.imp ?_
  intro a b hab ⟨h1, h2⟩
  simp only [expd, busyd, touch, decide_eq_false_iff_not] at h1 h2 hab ⊢
  simp only [h2, Bool.false_eq_true, if_false] at hab
  split at hab <;> omega

/-- `n` sweeps at the same clock -/
def sweepN : Nat → St → St
  | 0, s => s
  | n + 1, s => sweepN n (sweepByTime s)

theorem sweepN_mono (n : Nat) : ∀ (s : St), K s →
    K (sweepN n s) ∧ (∀ c, Cl s c → Cl (sweepN n s) c) ∧ (∀ e, e ∉ s.ring → e ∉ (sweepN n s).ring) := by
  induction n with
  | zero => intro s k; exact ⟨k, fun _ h => h, fun _ h => h⟩
  | succ n ih =>
    intro s k
    have F := (sweepByTime_spec k).1
    obtain ⟨h1, h2, h3⟩ := ih (sweepByTime s) (K_sweepByTime k)
    refine ⟨h1, fun c h => h2 c (F.mono c h), fun e he => h3 e ?_⟩
    rw [F.ring]; intro hm; exact he (List.mem_filter.1 hm).1

/-- **C.** fewer than `2^n` expired holders are all unlinked by `n` sweeps, and the cursors of the idle ones are closed -/
theorem sweeps_close (n : Nat) : ∀ (s : St), K s → Sorted s → (s.ring.filter (expd s)).length < 2 ^ n →
    ∀ e ∈ s.ring, (s.holders e).exp < s.now →
      e ∉ (sweepN n s).ring ∧
      ((s.holders e).busy = false → ∀ c, (s.holders e).cur = some c →
        ((sweepN n s).cursors c).closed = ((sweepN n s).cursors c).acquired) := by
  induction n with
  | zero =>
    intro s _ _ hlt e he hexp
    have : e ∈ s.ring.filter (expd s) := List.mem_filter.2 ⟨he, by simp [expd, hexp]⟩
    have h0 : s.ring.filter (expd s) = [] := List.eq_nil_of_length_eq_zero (by simpa using hlt)
    rw [h0] at this; cases this
  | succ n ih =>
    intro s k hs hlt e he hexp
    have F := (sweepByTime_spec k).1
    have k1 := K_sweepByTime k
    have hh := sweep_halves k hs
    obtain ⟨m1, m2, m3⟩ := sweepN_mono n (sweepByTime s) k1
    by_cases hr : e ∈ removed s
    · refine ⟨m3 e (removed_gone k hr), ?_⟩
      intro hb c hc
      exact m2 c (F.closed e hr hb c hc)
    · have he1 : e ∈ (sweepByTime s).ring := by rw [F.ring]; exact List.mem_filter.2 ⟨he, by simpa using hr⟩
      have hlt1 : ((sweepByTime s).ring.filter (expd (sweepByTime s))).length < 2 ^ n := by
        rw [(preds_sweepByTime k).1]
        have : 2 ^ (n + 1) = 2 * 2 ^ n := by rw [Nat.pow_succ]; omega
        omega
      have hexp1 : ((sweepByTime s).holders e).exp < (sweepByTime s).now := by rw [F.hexp, F.now]; exact hexp
      have := ih (sweepByTime s) k1 (Sorted_sweepByTime k hs) hlt1 e he1 hexp1
      refine ⟨this.1, ?_⟩
      intro hb c hc
      exact this.2 ((F.hbusy e).trans hb) c ((F.hcur e hr).trans hc)

/-- **C.** with fewer than `2^n` expired holders, `n` sweeps leave no expired holder in the ring -/
theorem sweeps_finish (n : Nat) (s : St) (k : K s) (hs : Sorted s) (hlt : (s.ring.filter (expd s)).length < 2 ^ n) :
    (sweepN n s).ring.filter (expd s) = [] := by
  rw [List.filter_eq_nil_iff]
  intro e he hE
  have hin : e ∈ s.ring := Classical.byContradiction (fun h => (sweepN_mono n s k).2.2 e h he)
  exact (sweeps_close n s k hs hlt e hin (by simpa [expd] using hE)).1 he

/-! ## non-vacuity: states built with the model's own steps -/

/-- a request without id: `GetOrCreate` builds cursor object `c` with id `id`, caches it; then `Release` -/
def useOnce (s : St) (c id : Nat) : St :=
  (release false (getOrCreate true s 0 7 0 true .ok true c id).1 c).1

/-- two cursors used at time 0, one at time 50, clock at 70 (`idleTo = 60`): ring (head first) `[2, 1, 0]`,
    holders 0 and 1 expired, 2 live -/
def exA : St := age (useOnce (age (useOnce (useOnce (init 50000 60 300) 1 11) 2 12) 50) 3 13) 20
/-- three cursors used at time 0, clock at 100: all expired -/
def exB : St := age (useOnce (useOnce (useOnce (init 50000 60 300) 1 11) 2 12) 3 13) 100

/-- the oldest holder is unlinked and its cursor closed, the second oldest (expired too) is stepped over, the sweep
    stops at the live idle head; a second sweep gets the one stepped over -/
example : exA.ring = [2, 1, 0] ∧ removed exA = [0] ∧ walk (expd exA) (busyd exA) exA.ring.reverse = [0] ∧
    (sweepByTime exA).ring = [2, 1] ∧ ((sweepByTime exA).cursors 1).closed = 1 ∧
    ((sweepByTime exA).cursors 2).closed = 0 ∧ (sweepN 2 exA).ring = [2] ∧ ((sweepN 2 exA).cursors 2).closed = 1 := by
  decide +kernel

example : Sorted exA := by
  unfold Sorted SortedL; decide +kernel

/-- the one-lap `walk` is NOT the whole story: the rounds left on the counter go round the ring again and get the
    element stepped over (here everything is removed by one sweep, `walk` predicts that holder 1 stays) -/
example : exB.ring = [2, 1, 0] ∧ walk (expd exB) (busyd exB) exB.ring.reverse = [0, 2] ∧
    removed exB = [0, 2, 1] ∧ (sweepByTime exB).ring = [] ∧ ((sweepByTime exB).cursors 2).closed = 1 := by
  decide +kernel

end Logrange.Provider
