import Logrange.Model.PersistCodec
/-! The concrete codec instance of the C07 driver satisfies the codec contract (`stdCodecs_laws`). -/
namespace Logrange.Persist

def SerOk {α : Type} (ser : α → Bytes) (pa : P α) : Prop := ∀ a r, pa (ser a ++ r) = some (a, r)

theorem parseNat_ser : SerOk serNat parseNat := by
  intro n r
  induction n with
  | zero => simp [serNat, parseNat]
  | succ n ih =>
    have e : serNat (n + 1) ++ r = 1 :: (serNat n ++ r) := by simp [serNat, List.replicate_succ]
    rw [e, parseNat]; simp [ih]

theorem parseNat_ones : ∀ m : Nat, parseNat (List.replicate m 1) = none
  | 0 => by simp [parseNat]
  | m + 1 => by simp [List.replicate_succ, parseNat, parseNat_ones m]

theorem parseInt_ser : SerOk serInt parseInt := by
  intro i r
  simp only [serInt, List.cons_append, parseInt, parseNat_ser _ r]
  by_cases h : i < 0
  · simp [h]; omega
  · simp [h]; omega

theorem parseBytes_ser : SerOk serBytes parseBytes := by
  intro b r
  simp only [serBytes, parseBytes, List.append_assoc, parseNat_ser _ (b ++ r)]
  simp

theorem parseN_ser {α : Type} (sa : α → Bytes) (pa : P α) (h : SerOk sa pa) :
    ∀ (l : List α) (r : Bytes), parseN pa l.length (l.flatMap sa ++ r) = some (l, r)
  | [], r => by simp [parseN]
  | a :: l, r => by
    have e : (a :: l).flatMap sa ++ r = sa a ++ (l.flatMap sa ++ r) := by simp [List.flatMap_cons, List.append_assoc]
    rw [e]
    simp only [List.length_cons, parseN, h a _, parseN_ser sa pa h l r]

theorem parseList_ser {α : Type} (sa : α → Bytes) (pa : P α) (h : SerOk sa pa) : SerOk (serList sa) (parseList pa) := by
  intro l r
  simp only [serList, parseList, List.append_assoc, parseNat_ser _ _, parseN_ser sa pa h l r]

theorem parsePair_ser {α β : Type} (sa : α → Bytes) (pa : P α) (sb : β → Bytes) (pb : P β) (ha : SerOk sa pa) (hb : SerOk sb pb) :
    SerOk (serPair sa sb) (parsePair pa pb) := by
  intro x r
  simp only [serPair, parsePair, List.append_assoc, ha _ _, hb _ _]

theorem parseChk_ser : SerOk serChk parseChk := by
  intro c r
  simp only [serChk, parseChk, List.append_assoc, parseNat_ser _ _, parseInt_ser _ _]

theorem parsePipe_ser : SerOk serPipe parsePipe := by
  intro p r
  simp only [serPipe, parsePipe, List.append_assoc, parseBytes_ser _ _]

theorem parsePos_ser : SerOk serPos parsePos := by
  intro p r
  simp only [serPos, parsePos, List.append_assoc, parseNat_ser _ _]

/-! ## the frame -/

theorem frame_rt {α : Type} (tag : UInt8) (ser : α → Bytes) (pa : P α) (h : SerOk ser pa) (a : α) :
    frameDec tag pa (frameEnc tag ser a) = some a := by
  have h1 := h a []
  rw [List.append_nil] at h1
  simp [frameDec, frameEnc, parseNat_ser _ _, h1]

theorem frame_torn {α : Type} (tag : UInt8) (ser : α → Bytes) (pa : P α) (a : α) (n : Nat)
    (hn : n < (frameEnc tag ser a).length) : frameDec tag pa ((frameEnc tag ser a).take n) = none := by
  simp only [frameEnc] at hn ⊢
  generalize ser a = payload at hn ⊢
  cases n with
  | zero => simp [frameDec]
  | succ m =>
    simp only [List.take_succ_cons, frameDec, if_true]
    simp only [List.length_cons, List.length_append, serNat, List.length_replicate, List.length_nil] at hn
    by_cases hm : m ≤ payload.length
    · have e : (serNat payload.length ++ payload).take m = List.replicate m 1 := by
        simp only [serNat, List.append_assoc, List.take_append, List.length_replicate, List.take_replicate]
        have : m - payload.length = 0 := by omega
        simp [this, Nat.min_eq_left hm]
      rw [e, parseNat_ones]
    · have e : (serNat payload.length ++ payload).take m = serNat payload.length ++ payload.take (m - (payload.length + 1)) := by
        rw [List.take_append]
        have hl : (serNat payload.length).length = payload.length + 1 := by simp [serNat]
        rw [hl, List.take_of_length_le (by omega)]
      rw [e, parseNat_ser _ _]
      have : ¬ (payload.take (m - (payload.length + 1))).length = payload.length := by
        simp only [List.length_take]; omega
      simp only [this, if_false]

theorem frame_laws {α : Type} (tag : UInt8) (ser : α → Bytes) (pa : P α) (h : SerOk ser pa) : (frameCodec tag ser pa).Laws :=
  ⟨fun a => frame_rt tag ser pa h a, fun a n hn => frame_torn tag ser pa a n hn⟩

theorem frame_cross {α β : Type} (t1 t2 : UInt8) (ht : t1 ≠ t2) (ser : α → Bytes) (pb : P β) (a : α) :
    frameDec t2 pb (frameEnc t1 ser a) = none := by
  simp [frameDec, frameEnc, ht]

/-- **The concrete codec instance of the driver satisfies the codec contract**: the contract is satisfiable, and every
theorem of C07 (all generic in the codecs under `Codecs.Laws`) applies to the instance the differential harness runs. -/
theorem stdCodecs_laws : stdCodecs.Laws where
  tidx := frame_laws 1 serTMap parseTMap (parseList_ser _ _ (parsePair_ser _ _ _ _ parseBytes_ser parseBytes_ser))
  cidx := frame_laws 2 serCMap parseCMap (parseList_ser _ _ (parsePair_ser _ _ _ _ parseBytes_ser (parseList_ser _ _ parseChk_ser)))
  pipes := frame_laws 3 serPipes parsePipes (parseList_ser _ _ parsePipe_ser)
  pinfo := frame_laws 4 serPosMap parsePosMap (parseList_ser _ _ (parsePair_ser _ _ _ _ parseBytes_ser parsePos_ser))
  crossPipes := fun pm => frame_cross 4 3 (by decide) serPosMap parsePipes pm
  crossPinfo := fun ps => frame_cross 3 4 (by decide) serPipes parsePosMap ps

end Logrange.Persist
