import Logrange.Model.Truncate
/-! Lemmas behind the C09 property theorems. -/
namespace Logrange.Truncate
variable {acct : Bool}

theorem psize_nil : psize [] = 0 := rfl
theorem psize_cons (c : Chunk) (cs : List Chunk) : psize (c :: cs) = c.size + psize cs := by
  simp [psize]

theorem psize_append (a b : List Chunk) : psize (a ++ b) = psize a + psize b := by
  induction a with
  | nil => simp [psize]
  | cons c cs ih => simp [psize_cons, ih]; omega

theorem psize_take_add_drop (cks : List Chunk) (n : Nat) : psize (cks.take n) + psize (cks.drop n) = psize cks := by
  rw [← psize_append, List.take_append_drop]

theorem sub64_of_le {a b : Nat} (h : b ≤ a) : sub64 a b = a - b := by simp [sub64, h]

/-! ### the loops -/

/-- the number of chunks a loop takes never exceeds the chunks it is given (no hypothesis on sizes) -/
theorem takeLoop_le (cond : Chunk → Nat → Bool) (mn : Nat) :
    ∀ (cks : List Chunk) (size : Nat), (takeLoop cond mn cks size).1 ≤ cks.length := by
  intro cks
  induction cks with
  | nil => intro size; simp [takeLoop]
  | cons c cs ih =>
    intro size
    unfold takeLoop
    by_cases h : cond c size = true ∧ mn ≤ sub64 size c.size
    · simp only [h, and_self, if_true, List.length_cons]
      have := ih (sub64 size c.size); omega
    · simp [h]

/-- Loop invariant of both loops on a consistent snapshot (`size` covers the chunks still to come): the loop
takes a prefix; `size` decreases by exactly the bytes of that prefix; every chunk was taken with the loop's
condition true on the size before it; after every single removal the size is still at least `mn`. -/
theorem takeLoop_spec (cond : Chunk → Nat → Bool) (mn : Nat) :
    ∀ (cks : List Chunk) (size : Nat), psize cks ≤ size →
      (takeLoop cond mn cks size).2 + psize (cks.take (takeLoop cond mn cks size).1) = size ∧
      (∀ i, i < (takeLoop cond mn cks size).1 →
        cond (cks.getD i default) (size - psize (cks.take i)) = true ∧ mn ≤ size - psize (cks.take (i + 1))) := by
  intro cks
  induction cks with
  | nil => intro size _; simp [takeLoop, psize]
  | cons c cs ih =>
    intro size hsz
    rw [psize_cons] at hsz
    have hc : c.size ≤ size := by omega
    unfold takeLoop
    by_cases h : cond c size = true ∧ mn ≤ sub64 size c.size
    · simp only [h, and_self, if_true]
      rw [sub64_of_le hc] at h ⊢
      obtain ⟨ih1, ih2⟩ := ih (size - c.size) (by omega)
      refine ⟨?_, ?_⟩
      · simp only [List.take_succ_cons, psize_cons]; omega
      · intro i hi
        cases i with
        | zero =>
          simp only [List.take_zero, psize_nil, Nat.sub_zero, List.getD_cons_zero, Nat.zero_add,
            List.take_succ_cons, List.take_zero, psize_cons]
          exact ⟨h.1, by omega⟩
        | succ j =>
          obtain ⟨a, b⟩ := ih2 j (by omega)
          simp only [List.getD_cons_succ, List.take_succ_cons, psize_cons]
          refine ⟨?_, ?_⟩
          · have e : size - (c.size + psize (List.take j cs)) = size - c.size - psize (List.take j cs) := by omega
            rw [e]; exact a
          · have e : size - (c.size + psize (List.take (j + 1) cs)) = size - c.size - psize (List.take (j + 1) cs) := by omega
            rw [e]; exact b
    · simp [h, psize]

/-! ### the chooser on a consistent snapshot -/

theorem sizePhase_le (p : Params) (cks : List Chunk) (jsize : Nat) : (sizePhase p cks jsize).1 ≤ cks.length := by
  unfold sizePhase
  split
  · exact takeLoop_le _ _ _ _
  · simp

theorem timePhase_le (strict : Bool) (p : Params) (cks : List Chunk) (k1 s1 : Nat) :
    (timePhase strict p cks k1 s1).1 ≤ cks.length - k1 := by
  unfold timePhase
  split
  · have := takeLoop_le (fun c _ => older strict c.maxTs p.oldestTs) p.minSrc (cks.drop k1) s1
    simpa [timeLoop] using this
  · simp

theorem chooseAt_n_le (strict : Bool) (p : Params) (cks : List Chunk) (jsize : Nat) :
    (chooseAt strict p cks jsize).n ≤ cks.length := by
  have h1 := sizePhase_le p cks jsize
  have h2 := timePhase_le strict p cks (sizePhase p cks jsize).1 (sizePhase p cks jsize).2
  simp only [chooseAt, Choice.n]; omega

theorem choose_n_le (strict : Bool) (p : Params) (cks : List Chunk) :
    (choose strict p cks).n ≤ cks.length := chooseAt_n_le strict p cks (psize cks)

/-- size phase on a consistent snapshot -/
theorem sizePhase_spec (p : Params) (cks : List Chunk) :
    (sizePhase p cks (psize cks)).2 + psize (cks.take (sizePhase p cks (psize cks)).1) = psize cks ∧
    (∀ i, i < (sizePhase p cks (psize cks)).1 →
      0 < p.maxSrc ∧ p.maxSrc < psize cks - psize (cks.take i) ∧ p.minSrc ≤ psize cks - psize (cks.take (i + 1))) := by
  unfold sizePhase
  by_cases g : 0 < p.maxSrc ∧ p.minSrc < p.maxSrc
  · rw [if_pos g]
    obtain ⟨a, b⟩ := takeLoop_spec (fun _ size => decide (p.maxSrc < size)) p.minSrc cks (psize cks) (Nat.le_refl _)
    refine ⟨a, ?_⟩
    intro i hi
    obtain ⟨b1, b2⟩ := b i hi
    exact ⟨g.1, by simpa [sizeLoop] using b1, b2⟩
  · simp [g, psize]

theorem psize_drop_eq (cks : List Chunk) (k : Nat) : psize (cks.drop k) = psize cks - psize (cks.take k) := by
  have := psize_take_add_drop cks k; omega

theorem take_drop_psize (cks : List Chunk) (k i : Nat) :
    psize (cks.take (k + i)) = psize (cks.take k) + psize ((cks.drop k).take i) := by
  rw [← psize_append, ← List.take_add]

/-- the whole chooser on a consistent snapshot -/
theorem choose_spec (strict : Bool) (p : Params) (cks : List Chunk) :
    let ch := choose strict p cks
    ch.size + psize (cks.take ch.n) = psize cks ∧
    (∀ i, i < ch.bySize →
      0 < p.maxSrc ∧ p.maxSrc < psize cks - psize (cks.take i) ∧ p.minSrc ≤ psize cks - psize (cks.take (i + 1))) ∧
    (∀ i, ch.bySize ≤ i → i < ch.n →
      older strict (cks.getD i default).maxTs p.oldestTs = true ∧ p.minSrc ≤ psize cks - psize (cks.take (i + 1))) := by
  intro ch
  obtain ⟨s1, s2⟩ := sizePhase_spec p cks
  have hk1 := sizePhase_le p cks (psize cks)
  refine ⟨?_, s2, ?_⟩
  · -- sizes
    show (timePhase strict p cks (sizePhase p cks (psize cks)).1 (sizePhase p cks (psize cks)).2).2 +
      psize (cks.take ((sizePhase p cks (psize cks)).1 + (timePhase strict p cks (sizePhase p cks (psize cks)).1 (sizePhase p cks (psize cks)).2).1)) = psize cks
    unfold timePhase
    by_cases g : 0 < p.oldestTs ∧ (sizePhase p cks (psize cks)).1 < cks.length
    · simp only [g, and_self, if_true]
      have hd : psize (cks.drop (sizePhase p cks (psize cks)).1) ≤ (sizePhase p cks (psize cks)).2 := by
        rw [psize_drop_eq]; omega
      obtain ⟨a, _⟩ := takeLoop_spec (fun c _ => older strict c.maxTs p.oldestTs) p.minSrc _ _ hd
      rw [take_drop_psize]
      simp only [timeLoop]
      omega
    · simp only [g, if_false, Nat.add_zero]; exact s1
  · intro i hlo hhi
    have hhi' : i < (sizePhase p cks (psize cks)).1 + (timePhase strict p cks (sizePhase p cks (psize cks)).1 (sizePhase p cks (psize cks)).2).1 := hhi
    have hlo' : (sizePhase p cks (psize cks)).1 ≤ i := hlo
    unfold timePhase at hhi'
    by_cases g : 0 < p.oldestTs ∧ (sizePhase p cks (psize cks)).1 < cks.length
    · simp only [g, and_self, if_true] at hhi'
      have hd : psize (cks.drop (sizePhase p cks (psize cks)).1) ≤ (sizePhase p cks (psize cks)).2 := by
        rw [psize_drop_eq]; omega
      obtain ⟨_, b⟩ := takeLoop_spec (fun c _ => older strict c.maxTs p.oldestTs) p.minSrc _ _ hd
      obtain ⟨j, rfl⟩ : ∃ j, i = (sizePhase p cks (psize cks)).1 + j := ⟨i - (sizePhase p cks (psize cks)).1, by omega⟩
      obtain ⟨b1, b2⟩ := b j (by simp only [timeLoop] at hhi'; omega)
      refine ⟨?_, ?_⟩
      · simpa [List.getD_eq_getElem?_getD, List.getElem?_drop] using b1
      · have e := take_drop_psize cks (sizePhase p cks (psize cks)).1 (j + 1)
        rw [Nat.add_assoc, e]
        omega
    · simp only [g, if_false, Nat.add_zero] at hhi'; omega

/-! ### DeleteChunks on ascending ids removes exactly a prefix -/

def Ascending (cks : List Chunk) : Prop := cks.Pairwise (fun a b => a.id < b.id)

theorem deleteUpTo_sorted : ∀ (cks : List Chunk) (n : Nat), Ascending cks → 0 < n → n ≤ cks.length →
    deleteUpTo (cks.getD (n - 1) default).id cks = cks.drop n := by
  intro cks
  induction cks with
  | nil => intro n _ h1 h2; simp at h2; omega
  | cons c cs ih =>
    intro n hs h1 h2
    have hs' : Ascending cs := (List.pairwise_cons.mp hs).2
    have hc : ∀ b ∈ cs, c.id < b.id := (List.pairwise_cons.mp hs).1
    cases n with
    | zero => omega
    | succ k =>
      cases k with
      | zero =>
        simp only [Nat.zero_add, Nat.sub_self, List.getD_cons_zero, List.drop_succ_cons, List.drop_zero, deleteUpTo]
        rw [List.filter_cons_of_neg (by simp)]
        exact List.filter_eq_self.mpr (by intro b hb; simpa using hc b hb)
      | succ j =>
        have hj : j < cs.length := by simp at h2; omega
        simp only [Nat.add_sub_cancel, List.getD_cons_succ, List.drop_succ_cons, deleteUpTo]
        have hlt : c.id < (cs.getD j default).id := by
          have := hc _ (List.getElem_mem hj)
          simpa [List.getD_eq_getElem?_getD, List.getElem?_eq_getElem hj] using this
        have hneg : ¬ (decide ((cs.getD j default).id < c.id) = true) := by
          simp only [decide_eq_true_eq]; omega
        have := ih (j + 1) hs' (by omega) (by omega)
        simp only [Nat.add_sub_cancel, deleteUpTo] at this
        simp only [List.filter_cons, hneg, if_false, Bool.false_eq_true]
        exact this

theorem truncate_chunks (strict : Bool) (p : Params) (cks : List Chunk) (hs : Ascending cks) :
    (truncate strict p cks).chunks =
      if p.dryRun = true then cks else cks.drop (choose strict p cks).n := by
  unfold truncate
  by_cases h : (choose strict p cks).n = 0 ∨ p.dryRun = true
  · simp only [h, if_true]
    by_cases hd : p.dryRun = true
    · simp [hd]
    · rcases h with h | h
      · simp [hd, h]
      · exact absurd h hd
  · simp only [h, if_false]
    have hn : 0 < (choose strict p cks).n := by omega
    have hd : ¬ p.dryRun = true := fun e => h (Or.inr e)
    simp only [hd, if_false]
    exact deleteUpTo_sorted cks _ hs hn (choose_n_le strict p cks)

theorem truncate_n (strict : Bool) (p : Params) (cks : List Chunk) (hs : Ascending cks) :
    (truncate strict p cks).n = (choose strict p cks).n := by
  unfold truncate
  by_cases h : (choose strict p cks).n = 0 ∨ p.dryRun = true
  · simp [h]
  · simp only [h, if_false]
    have hn : 0 < (choose strict p cks).n := by omega
    rw [deleteUpTo_sorted cks _ hs hn (choose_n_le strict p cks), List.length_drop]
    have := choose_n_le strict p cks
    omega

theorem truncate_removed (strict : Bool) (p : Params) (cks : List Chunk) :
    (truncate strict p cks).removed = psize (cks.take (choose strict p cks).n) := by
  have h := (choose_spec strict p cks).1
  have e : (truncate strict p cks).removed = sub64 (psize cks) (choose strict p cks).size := by
    unfold truncate
    by_cases hh : (choose strict p cks).n = 0 ∨ p.dryRun = true
    · simp [hh]
    · simp [hh]
  rw [e, sub64_of_le (by omega)]; omega

theorem psize_filter_le (f : Chunk → Bool) (l : List Chunk) : psize (l.filter f) ≤ psize l := by
  induction l with
  | nil => simp [psize]
  | cons c cs ih =>
    simp only [List.filter_cons]
    split
    · simp only [psize_cons]; omega
    · simp only [psize_cons]; omega

theorem truncate_psize_le (strict : Bool) (p : Params) (cks : List Chunk) :
    psize (truncate strict p cks).chunks ≤ psize cks := by
  unfold truncate
  by_cases hh : (choose strict p cks).n = 0 ∨ p.dryRun = true
  · simp [hh]
  · simp only [hh, if_false, deleteUpTo]
    exact psize_filter_le _ _

/-! ### the MAXDBSIZE loop -/

inductive Forall2 {α β : Type} (R : α → β → Prop) : List α → List β → Prop
  | nil : Forall2 R [] []
  | cons {a b l₁ l₂} : R a b → Forall2 R l₁ l₂ → Forall2 R (a :: l₁) (b :: l₂)

/-- what the global pass may do to one entry of `sortedInfos`: nothing, or take the whole partition -/
def Taken (ti ti' : Info) : Prop :=
  ti' = ti ∨ (ti'.after = 0 ∧ ti'.src = ti.src ∧ ti'.before = ti.before ∧ ti'.latestTs = ti.latestTs)

theorem globalLoop_shape (strict : Bool) (gMin gMax : Nat) (p : Params) :
    ∀ (infos : List Info) (ts : Nat) (db : List Part),
      Forall2 Taken infos (globalLoop acct strict gMin gMax p infos ts db).1 := by
  intro infos
  induction infos with
  | nil => intro ts db; simp only [globalLoop]; exact Forall2.nil
  | cons ti rest ih =>
    intro ts db
    have refl : ∀ l : List Info, Forall2 Taken l l := by
      intro l; induction l with
      | nil => exact Forall2.nil
      | cons a l ih => exact Forall2.cons (Or.inl rfl) ih
    unfold globalLoop
    by_cases h1 : p.maxDB < ts
    · simp only [h1, if_true]
      by_cases h2 : 0 < ti.after
      · simp only [h2, if_true]
        cases hf : dbFind db ti.src with
        | none => exact Forall2.cons (Or.inl rfl) (ih _ _)
        | some part =>
          simp only []
          split
          · exact Forall2.cons (Or.inr ⟨rfl, rfl, rfl, rfl⟩) (ih _ _)
          · split
            · exact Forall2.cons (Or.inr ⟨rfl, rfl, rfl, rfl⟩) (ih _ _)
            · exact Forall2.cons (Or.inl rfl) (ih _ _)
      · simp only [h2, if_false]
        exact Forall2.cons (Or.inl rfl) (ih _ _)
    · simp only [h1, if_false]
      exact refl _

/-- the pass does nothing at all when the total is within MAXDBSIZE -/
theorem globalLoop_idle (strict : Bool) (gMin gMax : Nat) (p : Params) (infos : List Info) (ts : Nat) (db : List Part)
    (h : ts ≤ p.maxDB) : globalLoop acct strict gMin gMax p infos ts db = (infos, db) := by
  cases infos with
  | nil => simp [globalLoop]
  | cons ti rest =>
    unfold globalLoop
    have : ¬ p.maxDB < ts := by omega
    simp [this]

/-- in a dry run the loop never changes the partitions -/
theorem globalLoop_dry_db (strict : Bool) (gMin gMax : Nat) (p : Params) (hd : p.dryRun = true) :
    ∀ (infos : List Info) (ts : Nat) (db : List Part), (globalLoop acct strict gMin gMax p infos ts db).2 = db := by
  intro infos
  induction infos with
  | nil => intro ts db; simp [globalLoop]
  | cons ti rest ih =>
    intro ts db
    unfold globalLoop
    by_cases h1 : p.maxDB < ts
    · simp only [h1, if_true]
      by_cases h2 : 0 < ti.after
      · simp only [h2, if_true]
        cases hf : dbFind db ti.src with
        | none => simp only []; exact ih _ _
        | some part =>
          simp only [hd, if_true, Bool.true_or]
          exact ih _ _
      · simp only [h2, if_false]; exact ih _ _
    · simp [h1]

/-! ### the MAXDBSIZE pass: a dry step announces what the real step does -/

/-- the loop with `Max = 1, Min = 0` takes every chunk when no chunk is smaller than 2 bytes -/
theorem takeLoop_all : ∀ (cks : List Chunk) (size : Nat), psize cks ≤ size → (∀ c ∈ cks, 2 ≤ c.size) →
    (takeLoop (fun _ s => decide (1 < s)) 0 cks size).1 = cks.length := by
  intro cks
  induction cks with
  | nil => intro size _ _; simp [takeLoop]
  | cons c cs ih =>
    intro size hsz hall
    rw [psize_cons] at hsz
    have hc : 2 ≤ c.size := hall c (by simp)
    unfold takeLoop
    have hcond : (decide (1 < size) = true ∧ 0 ≤ sub64 size c.size) := ⟨by simp; omega, Nat.zero_le _⟩
    simp only [hcond, and_self, if_true, List.length_cons]
    rw [sub64_of_le (by omega)]
    rw [ih (size - c.size) (by omega) (fun d hd => hall d (by simp [hd]))]

/-- **the inner call of the MAXDBSIZE pass (`MinSrcSize 0, MaxSrcSize 1`) empties the partition** -/
theorem global_truncate_empties (strict : Bool) (cks : List Chunk) (hs : Ascending cks) (hall : ∀ c ∈ cks, 2 ≤ c.size) :
    (truncate strict { dryRun := false, minSrc := 0, maxSrc := 1 } cks).chunks = [] := by
  rw [truncate_chunks _ _ _ hs]
  have hn : (choose strict { dryRun := false, minSrc := 0, maxSrc := 1 } cks).n = cks.length := by
    have h1 : (sizePhase { dryRun := false, minSrc := 0, maxSrc := 1 } cks (psize cks)).1 = cks.length := by
      unfold sizePhase
      simp only [Nat.lt_irrefl, Nat.zero_lt_one, and_self, if_true, sizeLoop]
      exact takeLoop_all cks (psize cks) (Nat.le_refl _) hall
    have hle := choose_n_le strict { dryRun := false, minSrc := 0, maxSrc := 1 } cks
    have : (choose strict { dryRun := false, minSrc := 0, maxSrc := 1 } cks).bySize = cks.length := h1
    simp only [Choice.n] at hle ⊢
    omega
  simp [hn]

/-- **chunk count of a taken partition: dry = real.** The dry step sees the unreduced list and subtracts what phase I
already counted; the real step sees the list phase I left. -/
theorem takenInfo_dry_eq_run (ti : Info) (cks : List Chunk) (h : ti.chunksDeleted ≤ cks.length) :
    takenInfo true ti cks = takenInfo false ti (cks.drop ti.chunksDeleted) := by
  simp [takenInfo, List.length_drop]

/-! ### phase I -/

theorem phase1Part_dry (strict : Bool) (p : Params) (hd : p.dryRun = true) (part : Part) :
    (phase1Part strict p part).part = some part := by
  unfold phase1Part
  by_cases hsel : part.sel = false
  · simp [hsel]
  · simp only [hsel, if_false]
    by_cases hz : psize part.chunks = 0
    · simp [hz, hd]
    · simp only [hz, if_false, hd]
      have : (truncate strict p part.chunks).chunks = part.chunks := by
        unfold truncate; simp [hd]
      simp only [this]
      cases part; simp_all

theorem phase1_foldl_db_dry (strict : Bool) (p : Params) (hd : p.dryRun = true) :
    ∀ (order : List Part) (st : St), (order.foldl (phase1Step strict p) st).db = st.db ++ order := by
  intro order
  induction order with
  | nil => intro st; simp
  | cons part rest ih =>
    intro st
    simp only [List.foldl_cons]
    rw [ih]
    simp [phase1Step, phase1Part_dry strict p hd part]

end Logrange.Truncate

namespace Logrange.Truncate
variable {acct : Bool}

/-! ### the chunk's time hull covers every write notification (two independent `if`s in `chkInfo.update`) -/

theorem hullUpdate_covers (h r : Hull) :
    (hullUpdate true h r).minTs ≤ h.minTs ∧ h.maxTs ≤ (hullUpdate true h r).maxTs ∧
    (hullUpdate true h r).minTs ≤ r.minTs ∧ r.maxTs ≤ (hullUpdate true h r).maxTs := by
  unfold hullUpdate
  simp only [if_true]
  by_cases h1 : h.minTs > r.minTs <;> by_cases h2 : h.maxTs < r.maxTs <;> simp [h1, h2] <;> omega

theorem foldl_hull_covers : ∀ (rs : List Hull) (h : Hull),
    (rs.foldl (hullUpdate true) h).minTs ≤ h.minTs ∧ h.maxTs ≤ (rs.foldl (hullUpdate true) h).maxTs ∧
    ∀ r ∈ rs, (rs.foldl (hullUpdate true) h).minTs ≤ r.minTs ∧ r.maxTs ≤ (rs.foldl (hullUpdate true) h).maxTs := by
  intro rs
  induction rs with
  | nil => intro h; simp
  | cons r rest ih =>
    intro h
    simp only [List.foldl_cons]
    obtain ⟨a1, a2, a3⟩ := ih (hullUpdate true h r)
    obtain ⟨b1, b2, b3, b4⟩ := hullUpdate_covers h r
    refine ⟨by omega, by omega, ?_⟩
    intro x hx
    rcases List.mem_cons.mp hx with rfl | hx
    · exact ⟨by omega, by omega⟩
    · exact a3 x hx

theorem chunkHull_covers (rs : List Hull) (h : Hull) (hh : chunkHull true rs = some h) :
    ∀ r ∈ rs, h.minTs ≤ r.minTs ∧ r.maxTs ≤ h.maxTs := by
  cases rs with
  | nil => simp [chunkHull] at hh
  | cons r0 rest =>
    simp only [chunkHull, Option.some.injEq] at hh
    subst hh
    obtain ⟨a1, a2, a3⟩ := foldl_hull_covers rest r0
    intro r hr
    rcases List.mem_cons.mp hr with rfl | hr
    · exact ⟨a1, a2⟩
    · exact a3 r hr

end Logrange.Truncate
