import Logrange.Model.TruncateHolders
import Logrange.Proofs.TIndexLts
/-! TRUNCATE's drop step among holders, writers and readers: every recorded drop happened with the dropper's own
acquisition as the only one outstanding and (re-check + Sync) with no acknowledged byte in the partition. -/
namespace Logrange.TruncHolders
open Logrange.TIndexLts

/-! ### the index protocol: facts about an exclusively locked source -/

/-- the labels other actors may perform never touch the ghost `locker` -/
theorem step_locker (t t' : TIndexLts.St) (l : TIndexLts.Lbl) (hx : isExclLbl l = false)
    (hs : TIndexLts.step t l = some t') : t'.c.locker = t.c.locker := by
  cases l with
  | lockX a s => simp [isExclLbl] at hx
  | unlockX a s => simp [isExclLbl] at hx
  | delete a s => simp [isExclLbl] at hx
  | getOrCreate a tags create =>
    simp only [TIndexLts.step] at hs
    repeat' (split at hs)
    all_goals (first | (simp at hs; done) | (simp at hs; subst hs; rfl))
  | getTags a s lock =>
    simp only [TIndexLts.step] at hs
    repeat' (split at hs)
    all_goals (first | (simp at hs; done) | (simp at hs; subst hs; rfl))
  | release a s =>
    simp only [TIndexLts.step] at hs
    repeat' (split at hs)
    all_goals (first | (simp at hs; done) | (simp at hs; subst hs; rfl))
  | visitBegin a sel skipping noRelease =>
    simp only [TIndexLts.step] at hs
    repeat' (split at hs)
    all_goals (first | (simp at hs; done) | (simp at hs; subst hs; rfl))
  | visitTry a s =>
    simp only [TIndexLts.step] at hs
    repeat' (split at hs)
    all_goals (first | (simp at hs; done) | (simp at hs; subst hs; rfl))
  | visitCb a s cont =>
    simp only [TIndexLts.step] at hs
    repeat' (split at hs)
    all_goals (first | (simp at hs; done) | (simp at hs; subst hs; rfl))
  | visitEnd a =>
    simp only [TIndexLts.step] at hs
    repeat' (split at hs)
    all_goals (first | (simp at hs; done) | (simp at hs; subst hs; rfl))
  | shutdown =>
    simp only [TIndexLts.step] at hs
    simp at hs; subst hs; rfl

/-- an exclusively locked source is live, has exactly one outstanding acquisition, and it is the locker's -/
theorem excl_facts (c : Core) (h : CoreInv c) (s a : Nat) (hl : c.locker s = some a) :
    ∃ p au, c.parts s = some p ∧ p.exclusive = true ∧ p.readers = 1 ∧ (⟨a, s, au⟩ : Tok) ∈ c.holds ∧
      nTok s c.holds = 1 := by
  obtain ⟨p, hp, hx⟩ := h.lck s a hl
  obtain ⟨hr, a', au, hl', hm⟩ := h.excl s p hp hx
  rw [hl] at hl'
  cases hl'
  have := h.cnt s p hp
  exact ⟨p, au, hp, hx, hr, hm, by omega⟩

/-- nobody but the locker holds an exclusively locked source -/
theorem only_holder (c : Core) (h : CoreInv c) (s a b : Nat) (hl : c.locker s = some a)
    (hb : holdsAny c.holds b s = true) : b = a := by
  obtain ⟨p, au, _, _, _, hm, hn⟩ := excl_facts c h s a hl
  obtain ⟨bu, hbm⟩ := holdsAny_mem _ _ _ hb
  apply Classical.byContradiction
  intro hne
  have := nTok_two s ⟨a, s, au⟩ ⟨b, s, bu⟩ c.holds hm hbm (by simp; intro e; exact absurd e.symm hne) rfl rfl
  omega

/-! ### the invariant of the product system -/

structure Inv (recheck synced : Bool) (st : St) : Prop where
  idx : StInv st.t
  /-- an actor inside `deleteJournal(s)` before its `Delete` is the exclusive locker of `s` -/
  lockd : ∀ a s stg, st.pc a = some (s, stg) → stg ≠ Stage.deleted → st.t.c.locker s = some a
  /-- after a passed re-check with Sync the partition holds no acknowledged byte -/
  emp : ∀ a s, st.pc a = some (s, Stage.empty) → recheck = true → synced = true →
    (st.data s).conf = 0 ∧ (st.data s).unfl = 0
  drp : ∀ d ∈ st.drops, d.toks = 1 ∧ (recheck = true → synced = true → d.conf = 0 ∧ d.unfl = 0)

theorem inv_init' (recheck synced : Bool) : Inv recheck synced init := by
  refine ⟨inv_init, ?_, ?_, ?_⟩
  · intro a s stg h; simp [init] at h
  · intro a s h; simp [init] at h
  · intro d h; simp [init] at h


/-- one actor `a` moves; everybody else's program counter stays, and what the invariant says about the others is
about parts of the state the move leaves alone -/
theorem inv_of (recheck synced : Bool) (st st' : St) (hi : Inv recheck synced st) (a : Nat)
    (hidx' : StInv st'.t)
    (hpc : ∀ b, b ≠ a → st'.pc b = st.pc b)
    (hlock : ∀ b s stg, b ≠ a → st.pc b = some (s, stg) → stg ≠ Stage.deleted →
      st'.t.c.locker s = st.t.c.locker s)
    (hdata : ∀ b s, b ≠ a → st.pc b = some (s, Stage.empty) → st'.data s = st.data s)
    (ha1 : ∀ s stg, st'.pc a = some (s, stg) → stg ≠ Stage.deleted → st'.t.c.locker s = some a)
    (ha2 : ∀ s, st'.pc a = some (s, Stage.empty) → recheck = true → synced = true →
      (st'.data s).conf = 0 ∧ (st'.data s).unfl = 0)
    (hd : ∀ d ∈ st'.drops, d.toks = 1 ∧ (recheck = true → synced = true → d.conf = 0 ∧ d.unfl = 0)) :
    Inv recheck synced st' := by
  refine ⟨hidx', ?_, ?_, hd⟩
  · intro b s stg hp hne
    by_cases e : b = a
    · subst e; exact ha1 s stg hp hne
    · rw [hpc b e] at hp
      rw [hlock b s stg e hp hne]; exact hi.lockd b s stg hp hne
  · intro b s hp hr hsy
    by_cases e : b = a
    · subst e; exact ha2 s hp hr hsy
    · rw [hpc b e] at hp
      rw [hdata b s e hp]; exact hi.emp b s hp hr hsy

/-- two actors inside `deleteJournal`, both before their `Delete`, work on different sources -/
theorem other_src (recheck synced : Bool) (st : St) (hi : Inv recheck synced st) (a b s s' : Nat) (stg : Stage)
    (hla : st.t.c.locker s = some a) (hb : b ≠ a) (hpb : st.pc b = some (s', stg)) (hne : stg ≠ Stage.deleted) :
    s' ≠ s := by
  intro e; subst e
  have := hi.lockd b s' stg hpb hne
  rw [hla] at this; cases this; exact hb rfl

theorem step_inv' (recheck synced : Bool) (st st' : St) (l : Lbl) (hi : Inv recheck synced st)
    (hs : step recheck synced st l = some st') : Inv recheck synced st' := by
  have hi0 := hi
  obtain ⟨hidx, hlk, hemp, hdrp⟩ := hi
  cases l with
  | idx l =>
    simp only [step] at hs
    cases ht : TIndexLts.step st.t l with
    | none => rw [ht] at hs; repeat' (split at hs); all_goals (simp at hs)
    | some t' =>
      rw [ht] at hs
      cases hx : isExclLbl l with
      | true => simp [hx] at hs
      | false =>
        have e : st' = { st with t := t' } := by
          simp only [hx, Bool.false_eq_true, if_false] at hs
          repeat' (split at hs)
          all_goals (first | (simp at hs; done) | (simp at hs; exact hs.symm))
        subst e
        have hl := step_locker st.t t' l hx ht
        refine ⟨TIndexLts.step_inv st.t t' l hidx ht, ?_, hemp, hdrp⟩
        intro a s stg hp hne
        show t'.c.locker s = some a
        rw [hl]; exact hlk a s stg hp hne
  | write b s n =>
    simp only [step] at hs
    split at hs
    · rename_i hc
      simp only [Bool.and_eq_true] at hc
      obtain ⟨⟨hidle, hh⟩, _⟩ := hc
      simp at hs; subst hs
      refine ⟨hidx, hlk, ?_, hdrp⟩
      intro a s' hp hr hsy
      show (upd st.data s _ s').conf = 0 ∧ (upd st.data s _ s').unfl = 0
      by_cases e : s' = s
      · subst e
        have hl := hlk a s' _ hp (by simp)
        have := only_holder st.t.c hidx.core s' a b hl hh
        subst this
        have hp' : st.pc b = some (s', Stage.empty) := hp
        simp [idle, hp'] at hidle
      · rw [upd_other _ _ _ _ e]; exact hemp a s' hp hr hsy
    · simp at hs
  | flush s =>
    simp only [step] at hs
    simp at hs; subst hs
    refine ⟨hidx, hlk, ?_, hdrp⟩
    intro a s' hp hr hsy
    have := hemp a s' hp hr hsy
    show (upd st.data s _ s').conf = 0 ∧ (upd st.data s _ s').unfl = 0
    by_cases e : s' = s
    · subst e; rw [upd_same]; simp [this]
    · rw [upd_other _ _ _ _ e]; exact this
  | remove b s k1 k2 =>
    simp only [step] at hs
    split at hs
    · simp at hs; subst hs
      refine ⟨hidx, hlk, ?_, hdrp⟩
      intro a s' hp hr hsy
      have := hemp a s' hp hr hsy
      show (upd st.data s _ s').conf = 0 ∧ (upd st.data s _ s').unfl = 0
      by_cases e : s' = s
      · subst e; rw [upd_same]; simp [this]
      · rw [upd_other _ _ _ _ e]; exact this
    · simp at hs
  | djLock a s =>
    simp only [step] at hs
    split at hs
    · rename_i hc
      simp only [Bool.and_eq_true] at hc
      obtain ⟨hidle, hh⟩ := hc
      obtain ⟨au, hm⟩ := holdsAny_mem _ _ _ hh
      split at hs
      · rename_i parts' hlr
        simp at hs; subst hs
        unfold lockRaw at hlr
        cases hp : st.t.c.parts s with
        | none => simp [hp] at hlr
        | some p =>
          simp only [hp] at hlr
          split at hlr
          · rename_i hcnd
            simp only [Bool.and_eq_true, Bool.not_eq_true', beq_iff_eq] at hcnd
            simp only [Prod.mk.injEq, and_true] at hlr; subst hlr
            apply inv_of recheck synced st _ hi0 a
            · exact ⟨inv_lock st.t.c hidx.core a s au p hp hcnd.2 hm, hidx.visTok, hidx.noPanic⟩
            · intro b hb; exact upd_other _ _ _ _ hb
            · intro b s' stg hb hpb hne
              have hl := hlk b s' stg hpb hne
              have e2 : s' ≠ s := by
                intro e2; subst e2
                obtain ⟨p', hp', hx'⟩ := hidx.core.lck s' b hl
                rw [hp] at hp'; cases hp'; simp [hcnd.1] at hx'
              exact upd_other _ _ _ _ e2
            · intro b s' _ _; rfl
            · intro s' stg hpa _
              have : upd st.pc a (some (s, Stage.locked)) a = some (s', stg) := hpa
              rw [upd_same] at this; cases this
              exact upd_same _ _ _
            · intro s' hpa
              have : upd st.pc a (some (s, Stage.locked)) a = some (s', Stage.empty) := hpa
              rw [upd_same] at this; cases this
            · exact hdrp
          · simp at hlr
      · simp at hs; subst hs; exact hi0
    · simp at hs
  | djCheck a =>
    simp only [step] at hs
    split at hs
    · rename_i s hpa
      have hla := hlk a s _ hpa (by simp)
      have key : ∀ (d : Data) (stg : Stage), stg ≠ Stage.deleted →
          (stg = Stage.empty → recheck = true → synced = true → d.conf = 0 ∧ d.unfl = 0) →
          Inv recheck synced { st with data := upd st.data s d, pc := upd st.pc a (some (s, stg)) } := by
        intro d stg hne hd
        apply inv_of recheck synced st _ hi0 a
        · exact hidx
        · intro b hb; exact upd_other _ _ _ _ hb
        · intro b s' stg' _ _ _; rfl
        · intro b s' hb hpb
          exact upd_other _ _ _ _ (other_src recheck synced st hi0 a b s s' _ hla hb hpb (by simp))
        · intro s' stg' hpa' _
          have : upd st.pc a (some (s, stg)) a = some (s', stg') := hpa'
          rw [upd_same] at this; cases this; exact hla
        · intro s' hpa' hr hsy
          have : upd st.pc a (some (s, stg)) a = some (s', Stage.empty) := hpa'
          rw [upd_same] at this; cases this
          show (upd st.data s d s).conf = 0 ∧ (upd st.data s d s).unfl = 0
          rw [upd_same]; exact hd rfl hr hsy
        · exact hdrp
      split at hs
      · split at hs
        · simp at hs; subst hs; exact key _ _ (by simp) (by intro h; cases h)
        · rename_i hcond
          simp at hs; subst hs
          apply key _ _ (by simp)
          intro _ hr _
          simp [hr] at hcond
          show (st.data s).conf + (st.data s).unfl = 0 ∧ 0 = 0
          exact ⟨by omega, rfl⟩
      · rename_i hns
        split at hs
        · simp at hs; subst hs; exact key _ _ (by simp) (by intro h; cases h)
        · simp at hs; subst hs
          apply key _ _ (by simp)
          intro _ _ hsy
          exact absurd hsy hns
    · simp at hs
  | djDelete a =>
    simp only [step] at hs
    split at hs
    · rename_i s hpa
      have hla := hlk a s _ hpa (by simp)
      have hea := hemp a s hpa
      have keyPc : Inv recheck synced { st with pc := upd st.pc a (some (s, Stage.deleted)) } := by
        apply inv_of recheck synced st _ hi0 a
        · exact hidx
        · intro b hb; exact upd_other _ _ _ _ hb
        · intros; rfl
        · intros; rfl
        · intro s' stg' hpa' hne
          have : upd st.pc a (some (s, Stage.deleted)) a = some (s', stg') := hpa'
          rw [upd_same] at this; cases this; exact absurd rfl hne
        · intro s' hpa'
          have : upd st.pc a (some (s, Stage.deleted)) a = some (s', Stage.empty) := hpa'
          rw [upd_same] at this; cases this
        · exact hdrp
      split at hs
      · rename_i p hp
        split at hs
        · simp at hs; subst hs
          obtain ⟨p', au, hp', hx', hr', hm, hn⟩ := excl_facts st.t.c hidx.core s a hla
          have hdel : (deleteRaw st.t.c.parts s).1 = upd st.t.c.parts s none := by simp [deleteRaw, hp', hx']
          apply inv_of recheck synced st _ hi0 a
          · refine ⟨?_, hidx.visTok, hidx.noPanic⟩
            show CoreInv { st.t.c with parts := (deleteRaw st.t.c.parts s).1, locker := upd st.t.c.locker s none }
            rw [hdel]; exact inv_delete st.t.c hidx.core s
          · intro b hb; exact upd_other _ _ _ _ hb
          · intro b s' stg' hb hpb hne
            exact upd_other _ _ _ _ (other_src recheck synced st hi0 a b s s' stg' hla hb hpb hne)
          · intros; rfl
          · intro s' stg' hpa' hne
            have : upd st.pc a (some (s, Stage.deleted)) a = some (s', stg') := hpa'
            rw [upd_same] at this; cases this; exact absurd rfl hne
          · intro s' hpa'
            have : upd st.pc a (some (s, Stage.deleted)) a = some (s', Stage.empty) := hpa'
            rw [upd_same] at this; cases this
          · intro d hd
            have hd' : d ∈ (⟨a, s, (st.data s).conf, (st.data s).unfl, nTok s st.t.c.holds⟩ : Drop) :: st.drops := hd
            rcases List.mem_cons.mp hd' with rfl | h
            · exact ⟨hn, hea⟩
            · exact hdrp d h
        · simp at hs; subst hs; exact keyPc
      · simp at hs; subst hs; exact keyPc
    · simp at hs
  | djUnlock a =>
    simp only [step] at hs
    have keyPc : Inv recheck synced { st with pc := upd st.pc a none } := by
      apply inv_of recheck synced st _ hi0 a
      · exact hidx
      · intro b hb; exact upd_other _ _ _ _ hb
      · intros; rfl
      · intros; rfl
      · intro s' stg' hpa'
        have : upd st.pc a none a = some (s', stg') := hpa'
        rw [upd_same] at this; cases this
      · intro s' hpa'
        have : upd st.pc a none a = some (s', Stage.empty) := hpa'
        rw [upd_same] at this; cases this
      · exact hdrp
    split at hs
    iterate 2
      rename_i s hpa
      split at hs
      · simp at hs; subst hs; exact keyPc
      · split at hs
        · rename_i hl
          have hla : st.t.c.locker s = some a := by simpa using hl
          obtain ⟨p, au, hp, hx, hr, hm, hn⟩ := excl_facts st.t.c hidx.core s a hla
          have hu : unlockRaw st.t.c.parts s = (upd st.t.c.parts s (some { p with exclusive := false }), .ok) := by
            simp [unlockRaw, hp, hx, hr]
          rw [hu] at hs
          simp at hs; subst hs
          apply inv_of recheck synced st _ hi0 a
          · exact ⟨inv_unlock st.t.c hidx.core s p hp, hidx.visTok, hidx.noPanic⟩
          · intro b hb; exact upd_other _ _ _ _ hb
          · intro b s' stg' hb hpb hne
            exact upd_other _ _ _ _ (other_src recheck synced st hi0 a b s s' stg' hla hb hpb hne)
          · intros; rfl
          · intro s' stg' hpa'
            have : upd st.pc a none a = some (s', stg') := hpa'
            rw [upd_same] at this; cases this
          · intro s' hpa'
            have : upd st.pc a none a = some (s', Stage.empty) := hpa'
            rw [upd_same] at this; cases this
          · exact hdrp
        · simp at hs; subst hs; exact keyPc
    · simp at hs

theorem run_inv' (recheck synced : Bool) (ls : List Lbl) :
    ∀ st, Inv recheck synced st → Inv recheck synced (run recheck synced st ls) := by
  induction ls with
  | nil => intro st h; exact h
  | cons l ls ih =>
    intro st h
    simp only [run]
    cases hs : step recheck synced st l with
    | none => exact ih st h
    | some st' => exact ih st' (step_inv' recheck synced st st' l h hs)

/-- every drop recorded along any trace happened with exactly one outstanding acquisition (the dropper's own);
with re-check and Sync no acknowledged byte at all, confirmed or not.

(The re-check alone promises nothing about the confirmed bytes at the moment of the `Delete`: see
`cex_recheck_without_sync`.) -/
theorem drops_inv (recheck synced : Bool) (tr : List Lbl) :
    ∀ d ∈ (run recheck synced init tr).drops,
      d.toks = 1 ∧ (recheck = true → synced = true → d.conf = 0 ∧ d.unfl = 0) :=
  (run_inv' recheck synced tr init (inv_init' recheck synced)).drp

/-- the index part of every reachable state satisfies C14's invariant (in particular: no panic) -/
theorem reach_idx_inv (recheck synced : Bool) (tr : List Lbl) : StInv (run recheck synced init tr).t :=
  (run_inv' recheck synced tr init (inv_init' recheck synced)).idx

/-! ### concrete traces -/

/-- the re-check WITHOUT the Sync before it: the acknowledged 19 bytes are not flushed yet when `Size()` is read, the
flush timer fires between the re-check and the `Delete`, and the partition is dropped with 19 confirmed bytes in it;
with the Sync the drop is refused -/
theorem cex_recheck_without_sync :
    ((run true false init
      [ .idx (.getOrCreate 1 7 true), .write 1 0 19, .idx (.release 1 0), .idx (.getTags 2 0 true),
        .djLock 2 0, .djCheck 2, .flush 0, .djDelete 2, .djUnlock 2 ]).drops.map
        (fun d => (d.src, d.conf, d.unfl, d.toks)) = [(0, 19, 0, 1)]) ∧
    (run true true init
      [ .idx (.getOrCreate 1 7 true), .write 1 0 19, .idx (.release 1 0), .idx (.getTags 2 0 true),
        .djLock 2 0, .djCheck 2, .flush 0, .djDelete 2, .djUnlock 2 ]).drops = [] := by
  decide

def raceTrace : List Lbl :=
  [ .idx (.getOrCreate 1 7 true), .write 1 0 57, .flush 0,          -- a writer creates partition 0 and writes 57 bytes
    .idx (.getTags 2 0 true), .remove 2 0 57 0,                      -- TRUNCATE (actor 2) holds it and removes everything
    .write 1 0 19, .flush 0, .idx (.release 1 0),                    -- the writer appends 19 bytes and lets go
    .djLock 2 0, .djCheck 2, .djDelete 2, .djUnlock 2 ]

/-- without the re-check the partition is dropped with the 19 bytes in it; with it the drop is refused -/
theorem cex_drop_race_without_recheck :
    ((run false true init raceTrace).drops.map (fun d => (d.src, d.conf, d.unfl, d.toks)) = [(0, 19, 0, 1)]) ∧
    (run true true init raceTrace).drops = [] := by
  decide

/-- non-vacuity of `drops_inv`: an emptied, unused partition IS dropped -/
theorem drop_happens :
    (run true true init [ .idx (.getOrCreate 1 7 true), .write 1 0 57, .idx (.release 1 0), .idx (.getTags 2 0 true),
      .remove 2 0 57 57, .djLock 2 0, .djCheck 2, .djDelete 2, .djUnlock 2 ]).drops.map
        (fun d => (d.src, d.conf, d.unfl, d.toks)) = [(0, 0, 0, 1)] := by
  decide

end Logrange.TruncHolders
