import Logrange.Proofs.RdRngPaging
import Logrange.Proofs.RdQueryLift
/-! Lift of the cursor-level RANGED paging theorem (`RdRngPaging.lean`) to `Logrange.Rd.query` / `pages` (request ids, held
cursors, `ApplyState`, limit clamp). Same structure as `RdQueryLift.lean`. -/
set_option linter.unusedSectionVars false
set_option linter.unusedVariables false
namespace Logrange.Rd

/-- a query with a RANGE (and WHERE when `w`) over every partition -/
def qRng (lo hi : Option Int) (w : Bool) : Qry := { text := 1, where_ := w, minTs := lo, maxTs := hi, ranged := true }

theorem rq_newCur (lo hi : Option Int) (j : Journal) (w : Bool) (p : PosText) :
    newCur [(0, j)] (qRng lo hi w) p = some (applyPosText (mkR lo hi 0 j w) p) := by
  simp [newCur, sortSrcs, insertSrc, resolve, qRng, mkR]

/-- the request is ready to be served from flat index `i` -/
def ReadyR (lo hi : Option Int) (j : Journal) (w : Bool) (srv : Server) (req : Req) (i : Nat) : Prop :=
  req.query = some (qRng lo hi w) ∧ req.offset = 0 ∧ srv.store = [(0, j)] ∧
  ((req.pos = .empty ∧ i = 0) ∨ ∃ p, req.pos = .map [(0, p)] ∧ wflatIdx j p = i) ∧
  (∀ h, req.id > 0 → srv.held.find? (·.id == req.id) = some h →
      h.qtext = 1 ∧ h.pos = req.pos ∧ ∃ p, PCR lo hi 0 j w h.cur i p)

section lift
variable (lo hi : Option Int) (HG : RGetFwdSpec) (HN : RNextFwdSpec)
include HG HN

theorem rq_page {j : Journal} {w : Bool} (hs : Sorted j) (M : Nat) (srv : Server) (req : Req) (i : Nat)
    (hr : ReadyR lo hi j w srv req i) :
    ∃ i', (query M srv req).2.events = (FLR lo hi j w i).take (limOf M req) ∧
      FLR lo hi j w i' = (FLR lo hi j w i).drop (limOf M req) ∧
      ReadyR lo hi j w (query M srv req).1 (query M srv req).2.next i' := by
  obtain ⟨hq, hoff, hstore, hpos, hheld⟩ := hr
  have hq1 : (qRng lo hi w).text = 1 := rfl
  by_cases hfound : req.id > 0 ∧ ∃ h0, srv.held.find? (·.id == req.id) = some h0
  · obtain ⟨hid, h0, hf⟩ := hfound
    obtain ⟨e1, e2, p, hpc⟩ := hheld h0 hid hf
    have ha : applyState h0 (qRng lo hi w).text req.pos = some h0 := by
      simp [applyState, hq1, e1, e2]
    rw [ql_query_held M srv req (qRng lo hi w) h0 h0 hq hid hf ha]
    simp only [hoff, hstore]
    have hcur : offset (setJournals h0.cur [(0, j)]) 0 = h0.cur := by
      obtain ⟨it, v, l, m, e, _⟩ := hpc
      rw [e, rp_setJournals]; simp [offset]
    rw [hcur]
    have habs : AbsR lo hi 0 j w true h0.cur i := by
      obtain ⟨it, v, l, m, e, st, _⟩ := hpc; exact ⟨it, v, l, m, e, st⟩
    obtain ⟨ev, i', p', pc', f', pm', fi'⟩ := rp_pageOn_abs lo hi HG HN hs (limOf M req) habs
    refine ⟨i', ev, f', rfl, rfl, rfl, Or.inr ⟨p', by rw [pm'], fi'⟩, ?_⟩
    intro h _ hfind
    simp only [List.find?_cons, beq_self_eq_true] at hfind
    cases hfind
    exact ⟨rfl, rfl, p', pc'⟩
  · have hnf : (if req.id > 0 then srv.held.find? (·.id == req.id) else none) = none := by
      by_cases hid : req.id > 0
      · simp only [hid, if_true]
        cases hfd : srv.held.find? (·.id == req.id) with
        | none => rfl
        | some h0 => exact absurd ⟨hid, h0, hfd⟩ hfound
      · simp [hid]
    have hc : newCur srv.store (qRng lo hi w) req.pos = some (applyPosText (mkR lo hi 0 j w) req.pos) := by
      rw [hstore]; exact rq_newCur lo hi j w req.pos
    have habs : AbsR lo hi 0 j w true (offset (applyPosText (mkR lo hi 0 j w) req.pos) req.offset) i := by
      rw [hoff]
      have : ∀ c, offset c 0 = c := by intro c; simp [offset]
      rw [this]
      rcases hpos with ⟨hp, hix⟩ | ⟨p, hp, hix⟩
      · rw [hp, hix]; exact rp_head_abs lo hi 0 j w
      · rw [hp, ← hix]; exact rp_fresh_abs lo hi 0 j w p
    obtain ⟨ev, i', p', pc', f', pm', fi'⟩ := rp_pageOn_abs lo hi HG HN hs (limOf M req) habs
    have hmain := ql_query_new M srv req (qRng lo hi w) _ hq hnf hc
    simp only at hmain
    rw [hmain]
    by_cases hcache : (req.wait || decide (limOf M req ≠ req.limit)) = true
    · rw [if_pos hcache]
      refine ⟨i', ev, f', rfl, rfl, ?_, Or.inr ⟨p', by rw [pm'], fi'⟩, ?_⟩
      · by_cases h0 : req.id = 0 <;> simp [h0, hstore]
      · intro h _ hfind
        simp only [List.find?_cons, beq_self_eq_true] at hfind
        cases hfind
        exact ⟨rfl, rfl, p', pc'⟩
    · rw [if_neg hcache]
      refine ⟨i', ev, f', rfl, rfl, ?_, Or.inr ⟨p', by rw [pm'], fi'⟩, ?_⟩
      · by_cases h0 : req.id = 0 <;> simp [h0, hstore]
      · intro h hid _; simp at hid

theorem rq_pagesFrom {j : Journal} {w : Bool} (hs : Sorted j) (M : Nat) (orig : Req) (ho : orig.query = some (qRng lo hi w)) :
    ∀ (steps : List Step) (srv : Server) (prev : Page) (i : Nat), ReadyR lo hi j w srv prev.next i →
    (∀ s ∈ steps, s.store' = none) →
    (pagesFrom M orig srv prev steps).flatten = (FLR lo hi j w i).take ((steps.map (fun s => min s.limit M)).sum) := by
  intro steps
  induction steps with
  | nil => intro srv prev i _ _; simp [pagesFrom]
  | cons st rest ih =>
    intro srv prev i hr hall
    have hst := hall st (List.mem_cons_self ..)
    obtain ⟨hq, hoff, hstore, hpos, hheld⟩ := hr
    -- the request the client builds is ready, whatever it chose
    have hready : ReadyR lo hi j w (if st.resume = .evicted then { srv with held := [] } else srv) (nextReq orig prev st) i := by
      cases hres : st.resume with
      | follow =>
        simp only [nextReq, hres]
        refine ⟨hq, hoff, by simpa using hstore, hpos, ?_⟩
        intro h hid hf; exact hheld h hid (by simpa using hf)
      | evicted =>
        simp only [nextReq, hres]
        refine ⟨hq, hoff, by simpa using hstore, hpos, ?_⟩
        intro h _ hf; simp at hf
      | zeroId =>
        simp only [nextReq, hres]
        refine ⟨hq, hoff, by simpa using hstore, hpos, ?_⟩
        intro h hid _; simp at hid
      | posOnly =>
        simp only [nextReq, hres]
        refine ⟨ho, rfl, by simpa using hstore, hpos, ?_⟩
        intro h hid _; simp at hid
    have hlim : (nextReq orig prev st).limit = st.limit := by
      cases hres : st.resume <;> simp [nextReq, hres]
    obtain ⟨i', ev, f', hr'⟩ := rq_page lo hi HG HN hs M _ _ i hready
    rw [pagesFrom]
    simp only [hst]
    rw [List.flatten_cons, ih _ _ i' hr' (fun s hs' => hall s (List.mem_cons_of_mem _ hs')), ev, f',
      ql_limOf, hlim]
    simp only [List.map_cons, List.sum_cons]
    rw [List.take_add]

/-- **paging at the request level** (`Querier.Query` + provider): one partition, every limit list, every resume mode -/
theorem rq_pages {j : Journal} {w : Bool} (hs : Sorted j) (M : Nat) (l0 : Nat) (wait : Bool) (steps : List Step)
    (hall : ∀ s ∈ steps, s.store' = none) :
    (pages M { store := [(0, j)] } { query := some (qRng lo hi w), limit := l0, wait := wait } steps).flatten =
      ((wflat j).filter (passR lo hi w)).take (((l0 :: steps.map (·.limit)).map (fun l => min l M)).sum) := by
  have hr0 : ReadyR lo hi j w ({ store := [(0, j)] } : Server) { query := some (qRng lo hi w), limit := l0, wait := wait } 0 := by
    refine ⟨rfl, rfl, rfl, Or.inl ⟨rfl, rfl⟩, ?_⟩
    intro h hid _; simp at hid
  obtain ⟨i', ev, f', hr'⟩ := rq_page lo hi HG HN hs M _ _ 0 hr0
  rw [pages]
  simp only []
  rw [List.flatten_cons, rq_pagesFrom lo hi HG HN hs M _ rfl steps _ _ i' hr' hall, ev, f', ql_limOf]
  simp only [List.map_cons, List.sum_cons, List.map_map]
  rw [List.take_add]
  simp [FLR, Function.comp_def]

end lift
end Logrange.Rd
