import Logrange.Proofs.RdMergeN
/-!
# `fiterator` as a transformer of lawful sources (C03/C16: WHERE and the range re-check ABOVE a merged cursor)

`FSrc σ` is `cursor.fiterator` over any iterator `σ` (in the code: the mixer tree `newCursor` built, or a single
`LogEventIterator`): `Get` = the skip loop `for !valid { le = it.Get(); if err break; valid = p(le); if !valid { Next() } }`,
`Next` = `it.Next(); valid = false`, `Release` = `it.Release()` (the cached event stays valid), `SetBackward` =
`it.SetBackward(); valid = false` (1a882be). `p` is `fltF(&le) && fitInRange()`. The real loop has no bound; here it runs
for (length of what the iterator below still delivers) + 1 rounds, which `getLoop_spec` shows to be enough.

`instLawfulFSrc`: if `σ` is a lawful source, so is `FSrc σ`, and its stream is the FILTER of the inner stream. `Next` needs
a preceding `Get` (`settled`): without it `fiterator.Next` moves the iterator below by one stored event, not by one
matching event — the rule every caller (`Query` loop, `Offset`) follows.
-/
set_option linter.unusedSectionVars false
set_option linter.unusedVariables false
namespace Logrange.MergeN
open Logrange.Mixer LawfulSource

variable {σ : Type} [Source σ] [LawfulSource σ]

structure FSrc (σ : Type) where
  inner : σ
  p : Ev → Bool
  valid : Bool := false
  le : Option Ev := none

namespace FSrc

def getLoop : Nat → FSrc σ → FSrc σ × Option Ev
  | 0, f => (f, none)
  | n + 1, f =>
    if f.valid then (f, f.le) else
    match Source.get f.inner with
    | (i', none) => ({ f with inner := i' }, none)
    | (i', some e) =>
      if f.p e then ({ f with inner := i', valid := true, le := some e }, some e)
      else getLoop n { f with inner := Source.next i', le := some e }

def get (f : FSrc σ) : FSrc σ × Option Ev := getLoop ((view f.inner).length + 1) f
def next (f : FSrc σ) : FSrc σ := { f with inner := Source.next f.inner, valid := false }
def release (f : FSrc σ) : FSrc σ := { f with inner := Source.release f.inner }
def setBackward (bk : Bool) (f : FSrc σ) : FSrc σ := { f with inner := Source.setBackward bk f.inner, valid := false }

instance : Source (FSrc σ) := ⟨get, next, release, setBackward⟩

def fview (f : FSrc σ) : List Ev := (view f.inner).filter f.p
def fwf (f : FSrc σ) : Prop :=
  wf f.inner ∧ (f.valid = true → ∃ e, f.le = some e ∧ (view f.inner).head? = some e ∧ f.p e = true ∧ settled f.inner)
def fsettled (f : FSrc σ) : Prop := settled f.inner ∧ (f.valid = true ∨ view f.inner = [])

theorem getLoop_spec : ∀ (n : Nat) (f : FSrc σ), fwf f → (view f.inner).length < n →
    (getLoop n f).2 = (fview f).head? ∧ fview (getLoop n f).1 = fview f ∧ fwf (getLoop n f).1 ∧
    dir (getLoop n f).1.inner = dir f.inner ∧ fsettled (getLoop n f).1 ∧ (getLoop n f).1.p = f.p := by
  intro n
  induction n with
  | zero => intro f _ h; omega
  | succ n ih =>
    intro f hw hn
    obtain ⟨inner, p, valid, le⟩ := f
    obtain ⟨hwi, hv⟩ := hw
    simp only at hwi hv hn
    rw [getLoop]
    cases valid with
    | true =>
      simp only [if_true]
      obtain ⟨e, he, hh, hp, hs⟩ := hv rfl
      subst he
      refine ⟨?_, trivial, ⟨hwi, hv⟩, trivial, ⟨hs, Or.inl rfl⟩, trivial⟩
      unfold fview
      simp only
      cases hvi : view inner with
      | nil => rw [hvi] at hh; cases hh
      | cons x xs =>
        rw [hvi] at hh; simp only [List.head?_cons, Option.some.injEq] at hh; subst hh
        simp [List.filter_cons, hp]
    | false =>
      simp only [Bool.false_eq_true, if_false]
      obtain ⟨g1, g2, g3, g4, g5⟩ := LawfulSource.get_spec inner hwi
      generalize Source.get inner = res at g1 g2 g3 g4 g5
      obtain ⟨i', r⟩ := res
      simp only at g1 g2 g3 g4 g5
      cases r with
      | none =>
        simp only
        have hnil : view inner = [] := List.head?_eq_none_iff.mp g1.symm
        refine ⟨by simp [fview, hnil], by simp [fview, g2], ⟨g3, by intro h; cases h⟩, g4,
          ⟨g5, Or.inr (by show view i' = []; rw [g2, hnil])⟩, trivial⟩
      | some e =>
        simp only
        have hcons : view inner = e :: (view inner).tail := by
          cases hvi : view inner with
          | nil => rw [hvi] at g1; cases g1
          | cons x xs => rw [hvi] at g1; simp at g1; simp [g1]
        by_cases hp : p e = true
        · simp only [hp, if_true]
          refine ⟨?_, by simp [fview, g2], ⟨g3, fun _ => ⟨e, rfl, by show (view i').head? = some e; rw [g2, hcons]; simp, hp, g5⟩⟩, g4,
            ⟨g5, Or.inl rfl⟩, trivial⟩
          unfold fview; simp only; rw [hcons]; simp [List.filter_cons, hp]
        · simp only [hp, Bool.false_eq_true, if_false]
          obtain ⟨n1, n2, n3⟩ := LawfulSource.next_spec i' g3 g5
          have hlen : (view (Source.next i')).length < n := by
            rw [n1, g2]
            have : (view inner).length = (view inner).tail.length + 1 := by
              conv => lhs; rw [hcons]
              simp
            omega
          obtain ⟨r1, r2, r3, r4, r5, r6⟩ := ih ⟨Source.next i', p, false, some e⟩
            ⟨n2, by intro h; cases h⟩ hlen
          have hfv : fview (⟨Source.next i', p, false, some e⟩ : FSrc σ) = fview ⟨inner, p, false, le⟩ := by
            unfold fview
            simp only
            rw [n1, g2]
            conv => rhs; rw [hcons]
            simp [List.filter_cons, hp]
          exact ⟨by rw [r1, hfv], by rw [r2, hfv], r3, by rw [r4]; simp only; rw [n3, g4], r5, r6⟩

instance instLawfulFSrc : LawfulSource (FSrc σ) where
  view := fview
  dir f := dir f.inner
  wf := fwf
  settled := fsettled
  get_spec f h := by
    obtain ⟨a, b, c, d, e, _⟩ := getLoop_spec ((view f.inner).length + 1) f h (Nat.lt_succ_self _)
    exact ⟨a, b, c, d, e⟩
  next_spec f h hs := by
    obtain ⟨hwi, hv⟩ := h
    obtain ⟨hsi, hd⟩ := hs
    obtain ⟨n1, n2, n3⟩ := LawfulSource.next_spec f.inner hwi hsi
    refine ⟨?_, ⟨n2, by intro h; cases h⟩, n3⟩
    show (view (Source.next f.inner)).filter f.p = ((view f.inner).filter f.p).tail
    rw [n1]
    rcases hd with hval | hnil
    · obtain ⟨e, _, hh, hp, _⟩ := hv hval
      cases hvi : view f.inner with
      | nil => rw [hvi] at hh; cases hh
      | cons x xs =>
        rw [hvi] at hh; simp only [List.head?_cons, Option.some.injEq] at hh; subst hh
        simp [List.filter_cons, hp]
    · rw [hnil]; rfl
  release_spec f h := by
    obtain ⟨hwi, hv⟩ := h
    obtain ⟨r1, r2, r3, r4⟩ := LawfulSource.release_spec f.inner hwi
    refine ⟨by show (view (Source.release f.inner)).filter f.p = _; rw [r1]; rfl, ⟨r2, ?_⟩, r3, ?_⟩
    · intro hval
      obtain ⟨e, he, hh, hp, hs⟩ := hv hval
      exact ⟨e, he, by show (view (Source.release f.inner)).head? = _; rw [r1]; exact hh, hp, r4 hs⟩
    · intro hs
      exact ⟨r4 hs.1, by
        rcases hs.2 with h | h
        · exact Or.inl h
        · exact Or.inr (by show view (Source.release f.inner) = []; rw [r1]; exact h)⟩
  setBackward_spec bk f h := by
    obtain ⟨s1, s2⟩ := LawfulSource.setBackward_spec bk f.inner h.1
    exact ⟨⟨s1, by intro h; cases h⟩, s2⟩

end FSrc
end Logrange.MergeN
