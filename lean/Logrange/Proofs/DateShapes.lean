import Logrange.Proofs.Date
import Logrange.Model.DateText
/-!
# Shapes: soundness of the two matchers on shapes, and the shapes of rendered texts

* `msS_sound` / `find_none_of_findS`: if the may-matcher finds nothing in a shape, the real search finds nothing in any
  text of that shape.
* `msD_sound` / `find_whole_of_ownMatchD`: where the exact matcher is defined, the real matcher's remainders are, in
  priority order, exactly of the computed shapes; so if the first computed remainder is empty, the unanchored search on a
  text of that shape returns the whole text.
* `renderLayout_shape`: the text of every valid instant in a layout has one of the layout's shapes.
-/
namespace Logrange.Date

/-! ## byte sets -/

theorem inCls_of_within {x rg : BSet} {c : UInt8} (hw : within x rg = true) (hc : inCls x c = true) : inCls rg c = true := by
  simp only [inCls, List.any_eq_true, Bool.and_eq_true, decide_eq_true_eq] at hc ⊢
  simp only [within, List.all_eq_true, List.any_eq_true, Bool.and_eq_true, decide_eq_true_eq] at hw
  obtain ⟨p, hp, h1, h2⟩ := hc
  obtain ⟨q, hq, h3, h4⟩ := hw p hp
  exact ⟨q, hq, UInt8.le_trans h3 h1, UInt8.le_trans h2 h4⟩

theorem meets_of_inCls {x rg : BSet} {c : UInt8} (hx : inCls x c = true) (hr : inCls rg c = true) : meets rg x = true := by
  simp only [inCls, List.any_eq_true, Bool.and_eq_true, decide_eq_true_eq] at hx hr
  simp only [meets, List.any_eq_true, Bool.and_eq_true, decide_eq_true_eq]
  obtain ⟨p, hp, h1, h2⟩ := hx
  obtain ⟨q, hq, h3, h4⟩ := hr
  exact ⟨q, hq, p, hp, UInt8.le_trans h3 h2, UInt8.le_trans h1 h4⟩

theorem decides_sound {rg x : BSet} {c : UInt8} {b : Bool} (hx : inCls x c = true) (hd : decides rg x = some b) :
    inCls rg c = b := by
  simp only [decides] at hd
  split at hd
  · rename_i hw; cases hd; exact inCls_of_within hw hx
  · split at hd
    · rename_i hm; cases hd
      cases h : inCls rg c with
      | false => rfl
      | true => rw [meets_of_inCls hx h] at hm; simp at hm
    · cases hd

theorem inCls_bS (c x : UInt8) : inCls (bS c) x = (x == c) := by
  simp only [inCls, bS, List.any_cons, List.any_nil, Bool.or_false]
  cases h : x == c with
  | true => have : x = c := by simpa using h
            subst this; simp
  | false =>
    have hne : x ≠ c := by simpa using h
    cases h2 : (decide (c ≤ x) && decide (x ≤ c)) with
    | false => rfl
    | true =>
      simp only [Bool.and_eq_true, decide_eq_true_eq] at h2
      exact absurd (UInt8.le_antisymm h2.2 h2.1) hne

theorem inCls_notNL (x : UInt8) : inCls [(0, 9), (11, 255)] x = (x != 10) := by
  have hlt := UInt8.toNat_lt x
  simp only [inCls, List.any_cons, List.any_nil, Bool.or_false, UInt8.le_iff_toNat_le]
  have e0 : (0 : UInt8).toNat = 0 := rfl
  have e9 : (9 : UInt8).toNat = 9 := rfl
  have e11 : (11 : UInt8).toNat = 11 := rfl
  have e255 : (255 : UInt8).toNat = 255 := rfl
  rw [e0, e9, e11, e255]
  cases h : x != 10 with
  | true =>
    have : x ≠ 10 := by simpa using h
    have hn : x.toNat ≠ 10 := fun e => this (UInt8.toNat_inj.mp (by simpa using e))
    simp; omega
  | false =>
    have : x = 10 := by simpa using h
    subst this; decide

/-! ## texts of a shape -/

theorem hasShape_append : ∀ (a : Bytes) (sa : List BSet) {b : Bytes} {sb : List BSet}, hasShape a sa → hasShape b sb →
    hasShape (a ++ b) (sa ++ sb)
  | [], [], _, _, _, h => by simpa using h
  | [], _ :: _, _, _, h, _ => by simp [hasShape] at h
  | _ :: _, [], _, _, h, _ => by simp [hasShape] at h
  | c :: a, x :: sa, b, sb, h, h2 => by
    simp only [hasShape, List.cons_append] at h ⊢
    exact ⟨h.1, hasShape_append a sa h.2 h2⟩

/-- a list of texts has, element by element, the listed shapes -/
def allShapes : List Bytes → List (List BSet) → Prop
  | [], [] => True
  | t :: ts, s :: ss => hasShape t s ∧ allShapes ts ss
  | _, _ => False

theorem allShapes_append : ∀ (a : List Bytes) (sa : List (List BSet)) {b : List Bytes} {sb : List (List BSet)},
    allShapes a sa → allShapes b sb → allShapes (a ++ b) (sa ++ sb)
  | [], [], _, _, _, h => by simpa using h
  | [], _ :: _, _, _, h, _ => by simp [allShapes] at h
  | _ :: _, [], _, _, h, _ => by simp [allShapes] at h
  | c :: a, x :: sa, b, sb, h, h2 => by
    simp only [allShapes, List.cons_append] at h ⊢
    exact ⟨h.1, allShapes_append a sa h.2 h2⟩

theorem allShapes_single {t : Bytes} {s : List BSet} (h : hasShape t s) : allShapes [t] [s] := ⟨h, trivial⟩

theorem hasShape_lit : ∀ (pre : Bytes), hasShape pre (pre.map bS)
  | [] => trivial
  | c :: p => by
    simp only [List.map, hasShape]
    exact ⟨by rw [inCls_bS]; simp, hasShape_lit p⟩

theorem hasShape_length : ∀ {a : Bytes} {sa : List BSet}, hasShape a sa → a.length = sa.length
  | [], [], _ => rfl
  | [], _ :: _, h => by simp [hasShape] at h
  | _ :: _, [], h => by simp [hasShape] at h
  | _ :: a, _ :: sa, h => by simp only [hasShape] at h; simp [hasShape_length h.2]

theorem hasShape_nil_right {a : Bytes} (h : hasShape a []) : a = [] := by
  cases a with
  | nil => rfl
  | cons _ _ => simp [hasShape] at h

/-! ## the may-matcher -/

theorem starRemS_sound (rg : BSet) : ∀ (txt : Bytes) (sh : List BSet), hasShape txt sh →
    ∀ rem ∈ starRem rg txt, ∃ rs ∈ starRemS rg sh, hasShape rem rs
  | [], [], _, rem, hr => by
    simp [starRem] at hr; subst hr; exact ⟨[], by simp [starRemS], trivial⟩
  | [], _ :: _, h, _, _ => by simp [hasShape] at h
  | _ :: _, [], h, _, _ => by simp [hasShape] at h
  | c :: t, x :: bs, h, rem, hr => by
    simp only [hasShape] at h
    simp only [starRem] at hr
    split at hr
    · rename_i hin
      have hm : meets rg x = true := meets_of_inCls h.1 hin
      rcases List.mem_append.mp hr with hr | hr
      · obtain ⟨rs, hrs, hs⟩ := starRemS_sound rg t bs h.2 rem hr
        exact ⟨rs, by simp [starRemS, hm, hrs], hs⟩
      · simp at hr; subst hr
        exact ⟨x :: bs, by simp [starRemS, hm], by simp [hasShape, h]⟩
    · simp at hr; subst hr
      refine ⟨x :: bs, ?_, by simp [hasShape, h]⟩
      simp only [starRemS]; split <;> simp

theorem msS_sound : ∀ (r : Rx) (txt : Bytes) (sh : List BSet), hasShape txt sh →
    ∀ rem ∈ ms r txt, ∃ rs ∈ msS r sh, hasShape rem rs
  | .eps, txt, sh, h, rem, hr => by
    simp [ms] at hr; subst hr; exact ⟨sh, by simp [msS], h⟩
  | .chr c, txt, sh, h, rem, hr => by
    cases txt with
    | nil => simp [ms] at hr
    | cons x t =>
      cases sh with
      | nil => simp [hasShape] at h
      | cons b bs =>
        simp only [hasShape] at h
        simp only [ms] at hr
        split at hr
        · rename_i hxc
          simp at hr; subst hr
          have : inCls (bS c) x = true := by rw [inCls_bS]; exact hxc
          exact ⟨bs, by simp [msS, meets_of_inCls h.1 this], h.2⟩
        · simp at hr
  | .any, txt, sh, h, rem, hr => by
    cases txt with
    | nil => simp [ms] at hr
    | cons x t =>
      cases sh with
      | nil => simp [hasShape] at h
      | cons b bs =>
        simp only [hasShape] at h
        simp only [ms] at hr
        split at hr
        · simp at hr; subst hr; exact ⟨bs, by simp [msS], h.2⟩
        · simp at hr
  | .cls rg, txt, sh, h, rem, hr => by
    cases txt with
    | nil => simp [ms] at hr
    | cons x t =>
      cases sh with
      | nil => simp [hasShape] at h
      | cons b bs =>
        simp only [hasShape] at h
        simp only [ms] at hr
        split at hr
        · rename_i hin
          simp at hr; subst hr
          exact ⟨bs, by simp [msS, meets_of_inCls h.1 hin], h.2⟩
        · simp at hr
  | .seq a b, txt, sh, h, rem, hr => by
    simp only [ms, List.mem_flatMap] at hr
    obtain ⟨m, hm, hr⟩ := hr
    obtain ⟨ms1, hms1, hs1⟩ := msS_sound a txt sh h m hm
    obtain ⟨rs, hrs, hs⟩ := msS_sound b m ms1 hs1 rem hr
    exact ⟨rs, by simp only [msS, List.mem_flatMap]; exact ⟨ms1, hms1, hrs⟩, hs⟩
  | .alt a b, txt, sh, h, rem, hr => by
    simp only [ms, List.mem_append] at hr
    rcases hr with hr | hr
    · obtain ⟨rs, hrs, hs⟩ := msS_sound a txt sh h rem hr
      exact ⟨rs, by simp [msS, hrs], hs⟩
    · obtain ⟨rs, hrs, hs⟩ := msS_sound b txt sh h rem hr
      exact ⟨rs, by simp [msS, hrs], hs⟩
  | .star rg, txt, sh, h, rem, hr => by
    simp only [ms] at hr
    obtain ⟨rs, hrs, hs⟩ := starRemS_sound rg txt sh h rem hr
    exact ⟨rs, by simpa [msS] using hrs, hs⟩

theorem ms_nil_of_msS {r : Rx} {txt : Bytes} {sh : List BSet} (h : hasShape txt sh) (hn : msS r sh = []) : ms r txt = [] := by
  cases hm : ms r txt with
  | nil => rfl
  | cons x xs =>
    obtain ⟨rs, hrs, _⟩ := msS_sound r txt sh h x (by simp [hm])
    simp [hn] at hrs

/-- nothing can match anywhere in a shape ⇒ the search finds nothing in any text of the shape -/
theorem find_none_of_findS (r : Rx) : ∀ (txt : Bytes) (sh : List BSet), hasShape txt sh → findS r sh = false → find r txt = none
  | [], [], h, hf => by
    simp only [findS, Bool.not_eq_false', List.isEmpty_iff] at hf
    simp [find, matchAt, ms_nil_of_msS h hf]
  | [], _ :: _, h, _ => by simp [hasShape] at h
  | _ :: _, [], h, _ => by simp [hasShape] at h
  | c :: t, x :: bs, h, hf => by
    simp only [findS, Bool.or_eq_false_iff, Bool.not_eq_false', List.isEmpty_iff] at hf
    have h' := h
    simp only [hasShape] at h'
    simp [find, matchAt, ms_nil_of_msS h hf.1, find_none_of_findS r t bs h'.2 hf.2]

/-- the may-search under the left guard: a start position is skipped only when the byte before it is certainly a digit -/
def findSG (g : Bool) (r : Rx) : Bool → List BSet → Bool
  | pd, [] => !(g && pd) && !(msS r []).isEmpty
  | pd, x :: s => (!(g && pd) && !(msS r (x :: s)).isEmpty) || findSG g r (within x dS) s

theorem findFrom_none_of_findSG (g : Bool) (r : Rx) : ∀ (txt : Bytes) (sh : List BSet) (pd pd' : Bool), hasShape txt sh →
    (pd' = true → pd = true) → findSG g r pd' sh = false → findFrom g r pd txt = none
  | [], [], pd, pd', h, hpd, hf => by
    simp only [findSG, Bool.and_eq_false_iff, Bool.not_eq_false', Bool.and_eq_true, List.isEmpty_iff] at hf
    simp only [findFrom]
    rcases hf with hf | hf
    · have : (g && pd) = true := by simp [hf.1, hpd hf.2]
      simp [this]
    · split
      · rfl
      · simp [matchAt, ms_nil_of_msS h hf]
  | [], _ :: _, _, _, h, _, _ => by simp [hasShape] at h
  | _ :: _, [], _, _, h, _, _ => by simp [hasShape] at h
  | c :: t, x :: bs, pd, pd', h, hpd, hf => by
    have h' := h
    simp only [hasShape] at h'
    simp only [findSG, Bool.or_eq_false_iff, Bool.and_eq_false_iff, Bool.not_eq_false', Bool.and_eq_true, List.isEmpty_iff] at hf
    have hnext : within x dS = true → (decide (48 ≤ c) && decide (c ≤ 57)) = true := by
      intro hw
      have := inCls_of_within hw h'.1
      simpa [inCls, dS] using this
    have ih := findFrom_none_of_findSG g r t bs (decide (48 ≤ c) && decide (c ≤ 57)) (within x dS) h'.2 hnext hf.2
    simp only [findFrom]
    rcases hf.1 with hf1 | hf1
    · have : (g && pd) = true := by simp [hf1.1, hpd hf1.2]
      simp [this, ih]
    · split
      · rename_i m hm
        split at hm
        · cases hm
        · simp [matchAt, ms_nil_of_msS h hf1] at hm
      · exact ih

/-! ## the exact matcher -/

theorem starRemD_sound (rg : BSet) : ∀ (txt : Bytes) (sh : List BSet) (rs : List (List BSet)), hasShape txt sh →
    starRemD rg sh = some rs → allShapes (starRem rg txt) rs
  | [], [], rs, _, hd => by
    simp [starRemD] at hd; subst hd; simp [starRem, allShapes, hasShape]
  | [], _ :: _, _, h, _ => by simp [hasShape] at h
  | _ :: _, [], _, h, _ => by simp [hasShape] at h
  | c :: t, x :: bs, rs, h, hd => by
    have h' := h
    simp only [hasShape] at h'
    simp only [starRemD] at hd
    split at hd
    · rename_i hdec
      have hin := decides_sound h'.1 hdec
      cases hrs' : starRemD rg bs with
      | none => rw [hrs'] at hd; simp at hd
      | some rs' =>
        rw [hrs'] at hd
        simp at hd; subst hd
        have ih := starRemD_sound rg t bs rs' h'.2 hrs'
        simp only [starRem, hin, if_true]
        exact allShapes_append _ _ ih (allShapes_single h)
    · rename_i hdec
      have hin := decides_sound h'.1 hdec
      cases hd
      simp only [starRem, hin]
      exact allShapes_single h
    · cases hd

theorem flatMapD_sound {b : Rx} (ihb : ∀ (txt : Bytes) (sh : List BSet) (rs : List (List BSet)), hasShape txt sh →
      msD b sh = some rs → allShapes (ms b txt) rs) :
    ∀ (l : List Bytes) (ra rs : List (List BSet)), allShapes l ra → flatMapD (msD b) ra = some rs →
      allShapes (l.flatMap (ms b)) rs
  | [], [], rs, _, hd => by simp [flatMapD] at hd; subst hd; simp [allShapes]
  | [], _ :: _, _, h, _ => by simp [allShapes] at h
  | _ :: _, [], _, h, _ => by simp [allShapes] at h
  | m :: l, sm :: ra, rs, h, hd => by
    simp only [allShapes] at h
    simp only [flatMapD] at hd
    split at hd
    · rename_i x y hx hy
      cases hd
      have h1 := ihb m sm x h.1 hx
      have h2 := flatMapD_sound ihb l ra y h.2 hy
      simp only [List.flatMap_cons]
      exact allShapes_append _ _ h1 h2
    · cases hd

theorem msD_sound : ∀ (r : Rx) (txt : Bytes) (sh : List BSet) (rs : List (List BSet)), hasShape txt sh →
    msD r sh = some rs → allShapes (ms r txt) rs
  | .eps, txt, sh, rs, h, hd => by
    simp [msD] at hd; subst hd; simp [ms, allShapes, h]
  | .chr c, txt, sh, rs, h, hd => by
    cases txt with
    | nil =>
      have := hasShape_length h
      cases sh with
      | nil => simp [msD] at hd; subst hd; simp [ms, allShapes]
      | cons _ _ => simp at this
    | cons x t =>
      cases sh with
      | nil => simp [hasShape] at h
      | cons b bs =>
        simp only [hasShape] at h
        simp only [msD, Option.map_eq_some_iff] at hd
        obtain ⟨bb, hdec, rfl⟩ := hd
        have hin := decides_sound h.1 hdec
        rw [inCls_bS] at hin
        simp only [ms, hin]
        cases bb <;> simp [allShapes, h.2]
  | .any, txt, sh, rs, h, hd => by
    cases txt with
    | nil =>
      have := hasShape_length h
      cases sh with
      | nil => simp [msD] at hd; subst hd; simp [ms, allShapes]
      | cons _ _ => simp at this
    | cons x t =>
      cases sh with
      | nil => simp [hasShape] at h
      | cons b bs =>
        simp only [hasShape] at h
        simp only [msD, Option.map_eq_some_iff] at hd
        obtain ⟨bb, hdec, rfl⟩ := hd
        have hin := decides_sound h.1 hdec
        rw [inCls_notNL] at hin
        simp only [ms, hin]
        cases bb <;> simp [allShapes, h.2]
  | .cls rg, txt, sh, rs, h, hd => by
    cases txt with
    | nil =>
      have := hasShape_length h
      cases sh with
      | nil => simp [msD] at hd; subst hd; simp [ms, allShapes]
      | cons _ _ => simp at this
    | cons x t =>
      cases sh with
      | nil => simp [hasShape] at h
      | cons b bs =>
        simp only [hasShape] at h
        simp only [msD, Option.map_eq_some_iff] at hd
        obtain ⟨bb, hdec, rfl⟩ := hd
        have hin := decides_sound h.1 hdec
        simp only [ms, hin]
        cases bb <;> simp [allShapes, h.2]
  | .seq a b, txt, sh, rs, h, hd => by
    simp only [msD, Option.bind_eq_some_iff] at hd
    obtain ⟨ra, hra, hfm⟩ := hd
    have h1 := msD_sound a txt sh ra h hra
    simp only [ms]
    exact flatMapD_sound (msD_sound b) (ms a txt) ra rs h1 hfm
  | .alt a b, txt, sh, rs, h, hd => by
    simp only [msD] at hd
    split at hd
    · rename_i x y hx hy
      cases hd
      simp only [ms]
      exact allShapes_append _ _ (msD_sound a txt sh x h hx) (msD_sound b txt sh y h hy)
    · cases hd
  | .star rg, txt, sh, rs, h, hd => by
    simp only [msD] at hd
    simp only [ms]
    exact starRemD_sound rg txt sh rs h hd

/-- the first match in priority order at the start of the text consumes the whole text -/
theorem matchAt_whole_of_ownMatchD {r : Rx} {txt : Bytes} {sh : List BSet} (h : hasShape txt sh) (ho : ownMatchD r sh = true) :
    matchAt r txt = some txt := by
  simp only [ownMatchD] at ho
  split at ho
  · rename_i rem rest hd
    have hrem : rem = [] := by simpa using ho
    subst hrem
    have hs := msD_sound r txt sh _ h hd
    cases hm : ms r txt with
    | nil => rw [hm] at hs; simp [allShapes] at hs
    | cons m ms' =>
      rw [hm] at hs
      simp only [allShapes] at hs
      have : m = [] := hasShape_nil_right hs.1
      subst this
      simp [matchAt, hm]
  · cases ho

/-- the first match in priority order consumes the whole text ⇒ the unanchored search returns the whole text -/
theorem find_whole_of_ownMatchD {r : Rx} {txt : Bytes} {sh : List BSet} (h : hasShape txt sh) (ho : ownMatchD r sh = true) :
    find r txt = some txt := by
  simp only [ownMatchD] at ho
  split at ho
  · rename_i rem rest hd
    have hrem : rem = [] := by simpa using ho
    subst hrem
    have hs := msD_sound r txt sh _ h hd
    cases hm : ms r txt with
    | nil => rw [hm] at hs; simp [allShapes] at hs
    | cons m ms' =>
      rw [hm] at hs
      simp only [allShapes] at hs
      have : m = [] := hasShape_nil_right hs.1
      subst this
      cases txt with
      | nil => simp [find, matchAt, hm]
      | cons c t => simp [find, matchAt, hm]
  · cases ho

/-! ## the shapes of rendered texts -/

def hasShapeB : Bytes → List BSet → Bool
  | [], [] => true
  | c :: s, b :: bs => inCls b c && hasShapeB s bs
  | _, _ => false

theorem hasShape_of_B : ∀ {t : Bytes} {sh : List BSet}, hasShapeB t sh = true → hasShape t sh
  | [], [], _ => trivial
  | [], _ :: _, h => by simp [hasShapeB] at h
  | _ :: _, [], h => by simp [hasShapeB] at h
  | c :: t, b :: bs, h => by
    simp only [hasShapeB, Bool.and_eq_true] at h
    exact ⟨h.1, hasShape_of_B h.2⟩

theorem inCls_dS (c : UInt8) : inCls dS c = isDig c := by simp [inCls, dS, isDig]
theorem inCls_uS (c : UInt8) : inCls uS c = isUpperB c := by simp [inCls, uS, isUpperB]

theorem shape_dig (n : Nat) : inCls dS (dig n) = true := by rw [inCls_dS]; exact isDig_dig n

theorem shape_pad2 (n : Nat) : hasShape (pad2 n) [dS, dS] := ⟨shape_dig _, shape_dig _, trivial⟩

theorem shape_padN : ∀ (k n : Nat), hasShape (padN k n) (List.replicate k dS)
  | 0, _ => trivial
  | k + 1, n => by
    rw [padN, List.replicate_succ']
    exact hasShape_append _ _ (shape_padN k (n / 10)) ⟨shape_dig n, trivial⟩

theorem shape_dig_small (n lo hi : Nat) (h1 : lo ≤ n % 10) (h2 : n % 10 ≤ hi) (hhi : hi ≤ 9) :
    inCls [(UInt8.ofNat (48 + lo), UInt8.ofNat (48 + hi))] (dig n) = true := by
  have h := dig_toNat n
  simp only [inCls, List.any_cons, List.any_nil, Bool.or_false, Bool.and_eq_true, decide_eq_true_eq, UInt8.le_iff_toNat_le,
    UInt8.toNat_ofNat']
  omega

theorem names_shapes :
    shortMonths.all (fun t => hasShapeB t [uS, lS, lS]) = true ∧ shortDays.all (fun t => hasShapeB t [uS, lS, lS]) = true ∧
    longMonths.all (fun t => (symStd .longMonth).any (hasShapeB t)) = true ∧
    longDays.all (fun t => (symStd .longWeekDay).any (hasShapeB t)) = true := by decide

theorem mem_of_getElem?' {l : List Bytes} {k : Nat} {t : Bytes} (h : l[k]? = some t) : t ∈ l := List.mem_of_getElem? h

/-- the text of one element has one of the element's shapes -/
theorem renderStd_shape (s : Std) (i : XInst) (hi : ValidX i) (t : Bytes) (ht : renderStd s i = some t) :
    ∃ sh ∈ symStd s, hasShape t sh := by
  obtain ⟨hy1, hy2, hm1, hm12, hd1, hdd, hh, hmi, hse, hwd, hf3, hf9, hns, hnsm, hoff, a, b, c, hz, ha, hb, hc⟩ := hi
  cases s <;> simp only [renderStd, formatStd] at ht <;> try (cases ht)
  case year => exact ⟨_, by simp [symStd], shape_pad2 _⟩
  case longYear =>
    refine ⟨[[(49, 50)], dS, dS, dS], by simp [symStd], ?_⟩
    refine ⟨?_, shape_dig _, shape_dig _, shape_dig _, trivial⟩
    have := shape_dig_small (i.year / 1000) 1 2 (by omega) (by omega) (by omega)
    simpa using this
  case month =>
    have hmem := mem_of_getElem?' ht
    have := List.all_eq_true.mp names_shapes.1 t hmem
    exact ⟨_, by simp [symStd], hasShape_of_B this⟩
  case longMonth =>
    have hmem := mem_of_getElem?' ht
    have := List.all_eq_true.mp names_shapes.2.2.1 t hmem
    obtain ⟨sh, hsh, hb⟩ := List.any_eq_true.mp this
    exact ⟨sh, hsh, hasShape_of_B hb⟩
  case numMonth =>
    simp only [num12]; split
    · exact ⟨[dS], by simp [symStd], ⟨shape_dig _, trivial⟩⟩
    · refine ⟨[[(49, 49)], [(48, 50)]], by simp [symStd], ?_⟩
      have h1 := shape_dig_small (i.month / 10) 1 1 (by omega) (by omega) (by omega)
      have h2 := shape_dig_small i.month 0 2 (by omega) (by omega) (by omega)
      exact ⟨by simpa using h1, by simpa using h2, trivial⟩
  case zeroMonth =>
    refine ⟨[[(48, 49)], dS], by simp [symStd], ?_⟩
    refine ⟨?_, shape_dig _, trivial⟩
    have := shape_dig_small (i.month / 10) 0 1 (by omega) (by omega) (by omega)
    simpa using this
  case weekDay =>
    have hmem := mem_of_getElem?' ht
    have := List.all_eq_true.mp names_shapes.2.1 t hmem
    exact ⟨_, by simp [symStd], hasShape_of_B this⟩
  case longWeekDay =>
    have hmem := mem_of_getElem?' ht
    have := List.all_eq_true.mp names_shapes.2.2.2 t hmem
    obtain ⟨sh, hsh, hb⟩ := List.any_eq_true.mp this
    exact ⟨sh, hsh, hasShape_of_B hb⟩
  case day =>
    have hd31 : i.day ≤ 31 := by
      have : daysIn i.month i.year ≤ 31 := by
        simp only [daysIn]; split
        · split <;> omega
        · split <;> omega
      omega
    simp only [num12]; split
    · exact ⟨[dS], by simp [symStd], ⟨shape_dig _, trivial⟩⟩
    · refine ⟨[[(49, 51)], dS], by simp [symStd], ?_⟩
      have h1 := shape_dig_small (i.day / 10) 1 3 (by omega) (by omega) (by omega)
      exact ⟨by simpa using h1, shape_dig _, trivial⟩
  case underDay =>
    have hd31 : i.day ≤ 31 := by
      have : daysIn i.month i.year ≤ 31 := by
        simp only [daysIn]; split
        · split <;> omega
        · split <;> omega
      omega
    split
    · exact ⟨[bS 32, dS], by simp [symStd], ⟨by rw [inCls_bS]; rfl, shape_dig _, trivial⟩⟩
    · refine ⟨[[(49, 51)], dS], by simp [symStd], ?_⟩
      have h1 := shape_dig_small (i.day / 10) 1 3 (by omega) (by omega) (by omega)
      exact ⟨by simpa using h1, shape_dig _, trivial⟩
  case zeroDay => exact ⟨_, by simp [symStd], shape_pad2 _⟩
  case hour => exact ⟨_, by simp [symStd], shape_pad2 _⟩
  case hour12 =>
    have hh12 : 1 ≤ hour12Of i.hour ∧ hour12Of i.hour ≤ 12 := by
      by_cases h0 : i.hour % 12 = 0 <;> simp [hour12Of, h0] <;> omega
    simp only [num12]; split
    · exact ⟨[dS], by simp [symStd], ⟨shape_dig _, trivial⟩⟩
    · refine ⟨[[(49, 49)], [(48, 50)]], by simp [symStd], ?_⟩
      have h1 := shape_dig_small (hour12Of i.hour / 10) 1 1 (by omega) (by omega) (by omega)
      have h2 := shape_dig_small (hour12Of i.hour) 0 2 (by omega) (by omega) (by omega)
      exact ⟨by simpa using h1, by simpa using h2, trivial⟩
  case zeroHour12 => exact ⟨_, by simp [symStd], shape_pad2 _⟩
  case minute =>
    simp only [num12]; split
    · exact ⟨[dS], by simp [symStd], ⟨shape_dig _, trivial⟩⟩
    · exact ⟨[dS, dS], by simp [symStd], shape_pad2 _⟩
  case second =>
    simp only [num12]; split
    · exact ⟨[dS], by simp [symStd], ⟨shape_dig _, trivial⟩⟩
    · exact ⟨[dS, dS], by simp [symStd], shape_pad2 _⟩
  case pmLower =>
    split
    · exact ⟨[bS 112, bS 109], by simp [symStd], ⟨by rw [inCls_bS]; rfl, by rw [inCls_bS]; rfl, trivial⟩⟩
    · exact ⟨[bS 97, bS 109], by simp [symStd], ⟨by rw [inCls_bS]; rfl, by rw [inCls_bS]; rfl, trivial⟩⟩
  case zeroMinute => exact ⟨_, by simp [symStd], shape_pad2 _⟩
  case zeroSecond => exact ⟨_, by simp [symStd], shape_pad2 _⟩
  case pm =>
    split
    · exact ⟨[bS 80, bS 77], by simp [symStd], ⟨by rw [inCls_bS]; rfl, by rw [inCls_bS]; rfl, trivial⟩⟩
    · exact ⟨[bS 65, bS 77], by simp [symStd], ⟨by rw [inCls_bS]; rfl, by rw [inCls_bS]; rfl, trivial⟩⟩
  case numTZ =>
    split
    · exact ⟨[bS 45, dS, dS, dS, dS], by simp [symStd], ⟨by rw [inCls_bS]; rfl, shape_dig _, shape_dig _, shape_dig _, shape_dig _, trivial⟩⟩
    · exact ⟨[bS 43, dS, dS, dS, dS], by simp [symStd], ⟨by rw [inCls_bS]; rfl, shape_dig _, shape_dig _, shape_dig _, shape_dig _, trivial⟩⟩
  case numColonTZ =>
    split
    · exact ⟨[bS 45, dS, dS, bS 58, dS, dS], by simp [symStd],
        ⟨by rw [inCls_bS]; rfl, shape_dig _, shape_dig _, by rw [inCls_bS]; rfl, shape_dig _, shape_dig _, trivial⟩⟩
    · exact ⟨[bS 43, dS, dS, bS 58, dS, dS], by simp [symStd],
        ⟨by rw [inCls_bS]; rfl, shape_dig _, shape_dig _, by rw [inCls_bS]; rfl, shape_dig _, shape_dig _, trivial⟩⟩
  case tz =>
    refine ⟨[uS, uS, uS], by simp [symStd], ?_⟩
    rw [hz]; exact ⟨by rw [inCls_uS]; exact ha, by rw [inCls_uS]; exact hb, by rw [inCls_uS]; exact hc, trivial⟩
  case frac9 n =>
    refine ⟨bS 46 :: List.replicate i.fracDigits dS, ?_, ⟨by rw [inCls_bS]; rfl, shape_padN _ _⟩⟩
    simp only [symStd, List.mem_map, List.mem_range]
    exact ⟨i.fracDigits - 3, by omega, by congr 2; omega⟩

theorem renderItems_shape (i : XInst) (hi : ValidX i) : ∀ (items : List (Bytes × Std)) (t : Bytes), renderItems items i = some t →
    ∃ sh ∈ symItems items, hasShape t sh
  | [], t, ht => by simp [renderItems] at ht; subst ht; exact ⟨[], by simp [symItems], trivial⟩
  | (pre, s) :: rest, t, ht => by
    simp only [renderItems] at ht
    split at ht
    · rename_i a b ha hb
      cases ht
      obtain ⟨sa, hsa, h1⟩ := renderStd_shape s i hi a ha
      obtain ⟨sb, hsb, h2⟩ := renderItems_shape i hi rest b hb
      refine ⟨pre.map bS ++ sa ++ sb, ?_, hasShape_append _ _ (hasShape_append _ _ (hasShape_lit pre) h1) h2⟩
      simp only [symItems, List.mem_flatMap, List.mem_map]
      exact ⟨sa, hsa, sb, hsb, rfl⟩
    · cases ht

/-- **the text of every valid instant in a layout has one of the layout's shapes** -/
theorem renderLayout_shape (L : Layout) (i : XInst) (hi : ValidX i) (t : Bytes) (ht : renderLayout L i = some t) :
    ∃ sh ∈ symLayout L, hasShape t sh := by
  simp only [renderLayout, Option.map_eq_some_iff] at ht
  obtain ⟨b, hb, rfl⟩ := ht
  obtain ⟨sb, hsb, h⟩ := renderItems_shape i hi L.items b hb
  refine ⟨sb ++ L.tail.map bS, ?_, hasShape_append _ _ h (hasShape_lit _)⟩
  simp only [symLayout, List.mem_map]
  exact ⟨sb, hsb, rfl⟩

end Logrange.Date
