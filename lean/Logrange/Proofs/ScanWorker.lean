import Logrange.Model.ScanWorker
/-! Invariants of the scanner worker LTS. -/
namespace Logrange.ScanWorker
open Logrange.LineReader

@[simp] theorem bytesOf_nil : bytesOf [] = 0 := rfl
@[simp] theorem bytesOf_append (a b : List Bytes) : bytesOf (a ++ b) = bytesOf a + bytesOf b := by
  simp [bytesOf]
@[simp] theorem bytesOf_single (l : Bytes) : bytesOf [l] = l.length := by simp [bytesOf]

/-- is the program counter one of those a worker that dropped a batch can be at? -/
def afterDrop : Pc → Bool
  | .top => true
  | .done => true
  | .tail _ _ _ => true
  | _ => false

/-- The accounting invariant. -/
structure WInv (s : S) : Prop where
  posEq : s.dropped = false → s.pos = confEnd s + (if isSetting s.pc then 0 else bytesOf s.recs)
  logEq : s.dropped = false → s.readLog = s.confirmed ++ (if isSetting s.pc then [] else s.recs)
  offEq : s.offset + (if isSetting s.pc then bytesOf s.recs else 0) = confEnd s
  setMem : isSetting s.pc = true → s.pos ∈ s.ends ∧ s.dropped = false
  offMem : s.offset ∈ s.start :: s.ends
  perMem : s.persisted ∈ s.start :: s.ends
  perLe : s.persisted ≤ s.offset
  endsOk : ∀ e ∈ s.ends, ∃ k, k ≤ s.confirmed.length ∧ e = s.start + bytesOf (s.confirmed.take k)
  pre : s.confirmed <+: s.readLog
  dropOk : s.dropped = true → s.cancelled = true ∧ afterDrop s.pc = true
  noRace : s.persistInWindow = false → s.persisted = s.confAtPersist
  confMono : s.confAtPersist ≤ confEnd s

theorem winv_init (start : Nat) : WInv (init start) := by
  constructor <;> simp [init, confEnd, isSetting]

/-- a step that changes only `pc` (neither from nor to `setting`), `wstate`, `cancelled`, the rotation ghosts -/
theorem winv_frame (s s' : S) (h : WInv s)
    (hs : isSetting s.pc = false) (hs' : isSetting s'.pc = false)
    (hd : s.dropped = true → afterDrop s'.pc = true)
    (hc : s.cancelled = true → s'.cancelled = true)
    (e1 : s'.recs = s.recs) (e2 : s'.pos = s.pos) (e3 : s'.offset = s.offset) (e4 : s'.persisted = s.persisted)
    (e5 : s'.start = s.start) (e6 : s'.confirmed = s.confirmed) (e7 : s'.ends = s.ends)
    (e8 : s'.readLog = s.readLog) (e9 : s'.dropped = s.dropped) (e10 : s'.confAtPersist = s.confAtPersist)
    (e11 : s'.persistInWindow = s.persistInWindow) : WInv s' := by
  obtain ⟨a1, a2, a3, a4, a5, a6, a7, a8, a9, a10, a11, a12⟩ := h
  have ec : confEnd s' = confEnd s := by simp [confEnd, e5, e6]
  constructor
  · intro hdr; rw [e9] at hdr; simp only [hs', e1, e2, ec]; simpa [hs] using a1 hdr
  · intro hdr; rw [e9] at hdr; simp only [hs', e1, e6, e8]; simpa [hs] using a2 hdr
  · simp only [hs', e3, ec]; simpa [hs] using a3
  · intro x; rw [hs'] at x; cases x
  · rw [e3, e5, e7]; exact a5
  · rw [e4, e5, e7]; exact a6
  · rw [e4, e3]; exact a7
  · rw [e7, e5, e6]; exact a8
  · rw [e6, e8]; exact a9
  · intro hdr; rw [e9] at hdr; exact ⟨hc (a10 hdr).1, hd hdr⟩
  · rw [e11, e4, e10]; exact a11
  · rw [e10, ec]; exact a12

theorem afterDrop_false_of_dropOk {s : S} (h : WInv s) (hp : afterDrop s.pc = false) : s.dropped = false := by
  cases hd : s.dropped with
  | false => rfl
  | true => have := (h.dropOk hd).2; rw [hp] at this; cases this

/-- **every step preserves the accounting invariant** (any configuration, any label) -/
theorem winv_step (c : Cfg) (s s' : S) (l : L) (h : WInv s) (hs : step c s l = some s') : WInv s' := by
  cases l with
  | stopOnEOF =>
    simp only [step, Option.some.injEq] at hs
    by_cases hw : s.wstate = .running
    · simp only [hw, if_true] at hs; subst hs
      by_cases hset : isSetting s.pc = true
      · -- wstate/eofSeen are not mentioned by the invariant
        obtain ⟨a1, a2, a3, a4, a5, a6, a7, a8, a9, a10, a11, a12⟩ := h
        exact ⟨a1, a2, a3, a4, a5, a6, a7, a8, a9, a10, a11, a12⟩
      · obtain ⟨a1, a2, a3, a4, a5, a6, a7, a8, a9, a10, a11, a12⟩ := h
        exact ⟨a1, a2, a3, a4, a5, a6, a7, a8, a9, a10, a11, a12⟩
    · simp only [hw, if_false] at hs; subst hs; exact h
  | cancel =>
    simp only [step, Option.some.injEq] at hs; subst hs
    obtain ⟨a1, a2, a3, a4, a5, a6, a7, a8, a9, a10, a11, a12⟩ := h
    exact ⟨a1, a2, a3, a4, a5, a6, a7, a8, a9, fun hd => ⟨rfl, (a10 hd).2⟩, a11, a12⟩
  | persist =>
    simp only [step, Option.some.injEq] at hs; subst hs
    obtain ⟨a1, a2, a3, a4, a5, a6, a7, a8, a9, a10, a11, a12⟩ := h
    refine ⟨a1, a2, a3, a4, a5, a5, Nat.le_refl _, a8, a9, a10, ?_, Nat.le_refl _⟩
    intro hw
    simp only [] at hw
    simp only [hw] at a3
    simpa using a3
  | finalPersist =>
    simp only [step] at hs
    split at hs
    · simp only [Option.some.injEq] at hs; subst hs
      obtain ⟨a1, a2, a3, a4, a5, a6, a7, a8, a9, a10, a11, a12⟩ := h
      refine ⟨a1, a2, a3, a4, a5, a5, Nat.le_refl _, a8, a9, a10, ?_, Nat.le_refl _⟩
      intro hw
      simp only [] at hw
      simp only [hw] at a3
      simpa using a3
    · cases hs
  | step =>
    simp only [step] at hs
    cases hpc : s.pc with
    | top =>
      simp only [hpc] at hs
      by_cases hc : s.cancelled = true
      · rw [if_pos hc] at hs; simp only [Option.some.injEq] at hs; subst hs
        refine winv_frame s _ h ?_ ?_ ?_ (fun x => x) rfl rfl rfl rfl rfl rfl rfl rfl rfl rfl rfl <;> first | rfl | simp [finish, hpc, isSetting, afterDrop]
      · rw [if_neg hc] at hs; simp only [Option.some.injEq] at hs; subst hs
        have hnd : s.dropped = false := by
          cases hd : s.dropped with
          | false => rfl
          | true => exact absurd (h.dropOk hd).1 hc
        refine winv_frame s _ h ?_ ?_ ?_ (fun x => x) rfl rfl rfl rfl rfl rfl rfl rfl rfl rfl rfl <;> first | rfl | simp [hpc, isSetting, afterDrop, hnd]
    | got u eof err =>
      simp only [hpc] at hs
      have hnd : s.dropped = false := afterDrop_false_of_dropOk h (by simp [hpc, afterDrop])
      split at hs
      · split at hs
        · simp only [Option.some.injEq] at hs; subst hs
          refine winv_frame s _ h ?_ ?_ ?_ (fun x => x) rfl rfl rfl rfl rfl rfl rfl rfl rfl rfl rfl <;> first | rfl | simp [hpc, isSetting, afterDrop, hnd]
        · simp only [Option.some.injEq] at hs; subst hs
          refine winv_frame s _ h ?_ ?_ ?_ (fun x => x) rfl rfl rfl rfl rfl rfl rfl rfl rfl rfl rfl <;> first | rfl | simp [hpc, isSetting, afterDrop, hnd]
      · simp only [Option.some.injEq] at hs; subst hs
        refine winv_frame s _ h ?_ ?_ ?_ (fun x => x) rfl rfl rfl rfl rfl rfl rfl rfl rfl rfl rfl <;> first | rfl | simp [hpc, isSetting, afterDrop, hnd]
    | sending u eof =>
      simp only [hpc] at hs
      by_cases hc : s.cancelled = true
      · rw [if_pos hc] at hs; simp only [Option.some.injEq] at hs; subst hs
        obtain ⟨a1, a2, a3, a4, a5, a6, a7, a8, a9, a10, a11, a12⟩ := h
        simp only [hpc, isSetting] at a3
        refine ⟨?_, ?_, ?_, ?_, a5, a6, a7, a8, a9, fun _ => ⟨hc, rfl⟩, a11, a12⟩
        · intro hd; simp at hd
        · intro hd; simp at hd
        · simpa [isSetting, confEnd] using a3
        · intro x; simp [isSetting] at x
      · rw [if_neg hc] at hs; cases hs
    | confirming u eof =>
      simp only [hpc] at hs
      by_cases hc : s.cancelled = true
      · rw [if_pos hc] at hs; simp only [Option.some.injEq] at hs; subst hs
        obtain ⟨a1, a2, a3, a4, a5, a6, a7, a8, a9, a10, a11, a12⟩ := h
        simp only [hpc, isSetting] at a3
        refine ⟨?_, ?_, ?_, ?_, a5, a6, a7, a8, a9, fun _ => ⟨hc, rfl⟩, a11, a12⟩
        · intro hd; simp at hd
        · intro hd; simp at hd
        · simpa [isSetting, confEnd] using a3
        · intro x; simp [isSetting] at x
      · rw [if_neg hc] at hs; cases hs
    | tail u eof errNil =>
      simp only [hpc] at hs
      have hcase : s' = finish s true ∨ s' = finish s false ∨ s' = { s with pc := .top } := by
        repeat' split at hs
        all_goals (obtain rfl := Option.some.inj hs; simp)
      rcases hcase with rfl | rfl | rfl
      · refine winv_frame s _ h ?_ ?_ ?_ (fun x => x) rfl rfl rfl rfl rfl rfl rfl rfl rfl rfl rfl <;> first | rfl | simp [finish, hpc, isSetting, afterDrop]
      · refine winv_frame s _ h ?_ ?_ ?_ (fun x => x) rfl rfl rfl rfl rfl rfl rfl rfl rfl rfl rfl <;> first | rfl | simp [finish, hpc, isSetting, afterDrop]
      · refine winv_frame s _ h ?_ ?_ ?_ (fun x => x) rfl rfl rfl rfl rfl rfl rfl rfl rfl rfl rfl <;> first | rfl | simp [hpc, isSetting, afterDrop]
    | sampled u => simp [hpc] at hs
    | setting u eof => simp [hpc] at hs
    | sleeping u eof => simp [hpc] at hs
    | done => simp [hpc] at hs
  | next r =>
    simp only [step] at hs
    cases hpc : s.pc with
    | sampled u =>
      simp only [hpc] at hs
      have hnd : s.dropped = false := afterDrop_false_of_dropOk h (by simp [hpc, afterDrop])
      cases r with
      | record ln =>
        simp only [Option.some.injEq] at hs; subst hs
        obtain ⟨a1, a2, a3, a4, a5, a6, a7, a8, a9, a10, a11, a12⟩ := h
        simp only [hpc, isSetting] at a1 a2 a3
        have b1 := a1 hnd
        have b2 := a2 hnd
        refine ⟨?_, ?_, ?_, ?_, a5, a6, a7, a8, a9.trans (List.prefix_append _ _), ?_, a11, a12⟩
        · intro _; simp [confEnd, isSetting] at b1 ⊢; omega
        · intro _; simp [isSetting] at b2 ⊢; rw [b2]; simp
        · simpa [isSetting, confEnd] using a3
        · intro x; simp [isSetting] at x
        · intro hd; simp only [] at hd; rw [hnd] at hd; cases hd
      | eof =>
        simp only [Option.some.injEq] at hs; subst hs
        refine winv_frame s _ h ?_ ?_ ?_ (fun x => x) rfl rfl rfl rfl rfl rfl rfl rfl rfl rfl rfl <;> first | rfl | simp [hpc, isSetting, afterDrop, hnd]
      | err =>
        simp only [Option.some.injEq] at hs; subst hs
        refine winv_frame s _ h ?_ ?_ ?_ (fun x => x) rfl rfl rfl rfl rfl rfl rfl rfl rfl rfl rfl <;> first | rfl | simp [hpc, isSetting, afterDrop, hnd]
    | top => simp [hpc] at hs
    | got u eof err => simp [hpc] at hs
    | sending u eof => simp [hpc] at hs
    | confirming u eof => simp [hpc] at hs
    | setting u eof => simp [hpc] at hs
    | sleeping u eof => simp [hpc] at hs
    | tail u eof e => simp [hpc] at hs
    | done => simp [hpc] at hs
  | send =>
    simp only [step] at hs
    cases hpc : s.pc with
    | sending u eof =>
      simp only [hpc, Option.some.injEq] at hs; subst hs
      have hnd : s.dropped = false := afterDrop_false_of_dropOk h (by simp [hpc, afterDrop])
      refine winv_frame s _ h ?_ ?_ ?_ (fun x => x) rfl rfl rfl rfl rfl rfl rfl rfl rfl rfl rfl <;> first | rfl | simp [hpc, isSetting, afterDrop, hnd]
    | top => simp [hpc] at hs
    | got u eof err => simp [hpc] at hs
    | sampled u => simp [hpc] at hs
    | confirming u eof => simp [hpc] at hs
    | setting u eof => simp [hpc] at hs
    | sleeping u eof => simp [hpc] at hs
    | tail u eof e => simp [hpc] at hs
    | done => simp [hpc] at hs
  | confirm =>
    simp only [step] at hs
    cases hpc : s.pc with
    | confirming u eof =>
      simp only [hpc, Option.some.injEq] at hs; subst hs
      have hnd : s.dropped = false := afterDrop_false_of_dropOk h (by simp [hpc, afterDrop])
      obtain ⟨a1, a2, a3, a4, a5, a6, a7, a8, a9, a10, a11, a12⟩ := h
      simp only [hpc, isSetting] at a1 a2 a3
      have b1 := a1 hnd
      have b2 := a2 hnd
      simp [confEnd] at b1 a3 a12
      constructor
      · intro _; simp [isSetting, confEnd]; omega
      · intro _; simp [isSetting]; simpa using b2
      · simp [isSetting, confEnd]; omega
      · intro _; simp [hnd]
      · simp only [List.mem_cons, List.mem_append] at a5 ⊢
        rcases a5 with h | h
        · exact Or.inl h
        · exact Or.inr (Or.inl h)
      · simp only [List.mem_cons, List.mem_append] at a6 ⊢
        rcases a6 with h | h
        · exact Or.inl h
        · exact Or.inr (Or.inl h)
      · exact a7
      · intro e he
        simp only [List.mem_append, List.mem_singleton] at he
        rcases he with he | he
        · obtain ⟨k, hk, hek⟩ := a8 e he
          refine ⟨k, by simp; omega, ?_⟩
          simp only []
          rw [List.take_append_of_le_length hk]; exact hek
        · refine ⟨(s.confirmed ++ s.recs).length, Nat.le_refl _, ?_⟩
          simp only [List.take_length, he, bytesOf_append]; omega
      · simp only []; rw [b2]; exact List.prefix_refl _
      · intro hd; simp only [] at hd; rw [hnd] at hd; cases hd
      · exact a11
      · simp [confEnd]; omega
    | top => simp [hpc] at hs
    | got u eof err => simp [hpc] at hs
    | sampled u => simp [hpc] at hs
    | sending u eof => simp [hpc] at hs
    | setting u eof => simp [hpc] at hs
    | sleeping u eof => simp [hpc] at hs
    | tail u eof e => simp [hpc] at hs
    | done => simp [hpc] at hs
  | setOffset =>
    simp only [step] at hs
    cases hpc : s.pc with
    | setting u eof =>
      simp only [hpc, Option.some.injEq] at hs; subst hs
      obtain ⟨c1, hnd⟩ := h.setMem (by simp [hpc, isSetting])
      obtain ⟨a1, a2, a3, a4, a5, a6, a7, a8, a9, a10, a11, a12⟩ := h
      simp only [hpc, isSetting] at a1 a2 a3
      have b1 := a1 hnd
      have b2 := a2 hnd
      simp [confEnd] at b1 a3
      constructor
      · intro _; simp [isSetting, confEnd]; omega
      · intro _; simp [isSetting]; simpa using b2
      · simp [isSetting, confEnd]; omega
      · intro x; simp [isSetting] at x
      · exact List.mem_cons_of_mem _ c1
      · exact a6
      · simp only []; omega
      · exact a8
      · exact a9
      · intro hd; simp only [] at hd; rw [hnd] at hd; cases hd
      · exact a11
      · exact a12
    | top => simp [hpc] at hs
    | got u eof err => simp [hpc] at hs
    | sampled u => simp [hpc] at hs
    | sending u eof => simp [hpc] at hs
    | confirming u eof => simp [hpc] at hs
    | sleeping u eof => simp [hpc] at hs
    | tail u eof e => simp [hpc] at hs
    | done => simp [hpc] at hs
  | wake =>
    simp only [step] at hs
    cases hpc : s.pc with
    | sleeping u eof =>
      simp only [hpc, Option.some.injEq] at hs; subst hs
      refine winv_frame s _ h ?_ ?_ ?_ (fun x => x) rfl rfl rfl rfl rfl rfl rfl rfl rfl rfl rfl <;> first | rfl | simp [hpc, isSetting, afterDrop]
    | top => simp [hpc] at hs
    | got u eof err => simp [hpc] at hs
    | sampled u => simp [hpc] at hs
    | sending u eof => simp [hpc] at hs
    | confirming u eof => simp [hpc] at hs
    | setting u eof => simp [hpc] at hs
    | tail u eof e => simp [hpc] at hs
    | done => simp [hpc] at hs

theorem winv_run (c : Cfg) : ∀ (tr : List L) (s : S), WInv s → WInv (run c s tr)
  | [], s, h => by simpa [run] using h
  | l :: ls, s, h => by
    simp only [run]
    cases hs : step c s l with
    | none => exact winv_run c ls s h
    | some s' => exact winv_run c ls s' (winv_step c s s' l h hs)

/-! ## rotation: run-until-EOF -/

def pcU : Pc → Bool
  | .sampled u => u
  | .got u _ _ => u
  | .sending u _ => u
  | .confirming u _ => u
  | .setting u _ => u
  | .sleeping u _ => u
  | .tail u _ _ => u
  | _ => false

def pcEof : Pc → Bool
  | .got _ e _ => e
  | .sending _ e => e
  | .confirming _ e => e
  | .setting _ e => e
  | .sleeping _ e => e
  | .tail _ e _ => e
  | _ => false

structure RInv (s : S) : Prop where
  uState : pcU s.pc = true → s.wstate = .untilEof
  uEof : pcU s.pc = true → pcEof s.pc = true → s.eofSeen = true
  stopped : s.stoppedByEof = true → s.eofSeen = true ∧ s.wstate = .stopped

theorem rinv_init (start : Nat) : RInv (init start) := by
  constructor <;> simp [init, pcU, pcEof]

theorem rinv_step (c : Cfg) (hc : c.sampleBefore = true) (s s' : S) (l : L) (h : RInv s)
    (hs : step c s l = some s') : RInv s' := by
  obtain ⟨r1, r2, r3⟩ := h
  cases l with
  | stopOnEOF =>
    simp only [step, Option.some.injEq] at hs
    by_cases hw : s.wstate = .running
    · simp only [hw, if_true] at hs; subst hs
      refine ⟨fun _ => rfl, ?_, ?_⟩
      · intro hu; have := r1 hu; rw [hw] at this; cases this
      · intro hst; have := (r3 hst).2; rw [hw] at this; cases this
    · simp only [hw, if_false] at hs; subst hs; exact ⟨r1, r2, r3⟩
  | cancel => simp only [step, Option.some.injEq] at hs; subst hs; exact ⟨r1, r2, r3⟩
  | persist => simp only [step, Option.some.injEq] at hs; subst hs; exact ⟨r1, r2, r3⟩
  | finalPersist =>
    simp only [step] at hs
    split at hs
    · simp only [Option.some.injEq] at hs; subst hs; exact ⟨r1, r2, r3⟩
    · cases hs
  | step =>
    simp only [step] at hs
    cases hpc : s.pc with
    | top =>
      simp only [hpc] at hs
      split at hs
      · simp only [Option.some.injEq] at hs; subst hs
        refine ⟨by simp [finish, pcU], by simp [finish, pcU], ?_⟩
        intro hst; simp [finish] at hst; simp [finish, (r3 hst).1]
      · simp only [Option.some.injEq] at hs; subst hs
        refine ⟨?_, by simp [pcEof], r3⟩
        simp [pcU, hc]
    | got u eof err =>
      simp only [hpc, pcU, pcEof] at hs r1 r2
      split at hs
      · split at hs <;> (simp only [Option.some.injEq] at hs; subst hs; exact ⟨r1, r2, r3⟩)
      · simp only [Option.some.injEq] at hs; subst hs; exact ⟨r1, r2, r3⟩
    | sending u eof =>
      simp only [hpc, pcU, pcEof] at hs r1 r2
      split at hs
      · simp only [Option.some.injEq] at hs; subst hs; exact ⟨r1, r2, r3⟩
      · cases hs
    | confirming u eof =>
      simp only [hpc, pcU, pcEof] at hs r1 r2
      split at hs
      · simp only [Option.some.injEq] at hs; subst hs; exact ⟨r1, r2, r3⟩
      · cases hs
    | tail u eof errNil =>
      simp only [hpc, pcU, pcEof, hc, if_true] at hs r1 r2
      split at hs
      · rename_i hcond
        simp only [Option.some.injEq] at hs; subst hs
        simp only [Bool.and_eq_true] at hcond
        refine ⟨by simp [finish, pcU], by simp [finish, pcU], ?_⟩
        intro _; simp [finish, r2 hcond.1.2 hcond.1.1]
      · split at hs
        · simp only [Option.some.injEq] at hs; subst hs
          refine ⟨by simp [finish, pcU], by simp [finish, pcU], ?_⟩
          intro hst; simp [finish] at hst; simp [finish, (r3 hst).1]
        · simp only [Option.some.injEq] at hs; subst hs
          exact ⟨by simp [pcU], by simp [pcU], r3⟩
    | sampled u => simp [hpc] at hs
    | setting u eof => simp [hpc] at hs
    | sleeping u eof => simp [hpc] at hs
    | done => simp [hpc] at hs
  | next r =>
    simp only [step] at hs
    cases hpc : s.pc with
    | sampled u =>
      simp only [hpc, pcU, pcEof] at hs r1 r2
      cases r with
      | record ln =>
        simp only [Option.some.injEq] at hs; subst hs
        exact ⟨r1, by simp [pcEof], r3⟩
      | eof =>
        simp only [Option.some.injEq] at hs; subst hs
        refine ⟨r1, ?_, ?_⟩
        · intro hu _; simp [pcU] at hu; simp [r1 hu]
        · intro hst; have := r3 hst; simp [this.1, this.2]
      | err =>
        simp only [Option.some.injEq] at hs; subst hs
        exact ⟨r1, by simp [pcEof], r3⟩
    | top => simp [hpc] at hs
    | got u eof err => simp [hpc] at hs
    | sending u eof => simp [hpc] at hs
    | confirming u eof => simp [hpc] at hs
    | setting u eof => simp [hpc] at hs
    | sleeping u eof => simp [hpc] at hs
    | tail u eof e => simp [hpc] at hs
    | done => simp [hpc] at hs
  | send =>
    simp only [step] at hs
    cases hpc : s.pc with
    | sending u eof =>
      simp only [hpc, pcU, pcEof] at hs r1 r2
      simp only [Option.some.injEq] at hs; subst hs; exact ⟨r1, r2, r3⟩
    | top => simp [hpc] at hs
    | got u eof err => simp [hpc] at hs
    | sampled u => simp [hpc] at hs
    | confirming u eof => simp [hpc] at hs
    | setting u eof => simp [hpc] at hs
    | sleeping u eof => simp [hpc] at hs
    | tail u eof e => simp [hpc] at hs
    | done => simp [hpc] at hs
  | confirm =>
    simp only [step] at hs
    cases hpc : s.pc with
    | confirming u eof =>
      simp only [hpc, pcU, pcEof] at hs r1 r2
      simp only [Option.some.injEq] at hs; subst hs; exact ⟨r1, r2, r3⟩
    | top => simp [hpc] at hs
    | got u eof err => simp [hpc] at hs
    | sampled u => simp [hpc] at hs
    | sending u eof => simp [hpc] at hs
    | setting u eof => simp [hpc] at hs
    | sleeping u eof => simp [hpc] at hs
    | tail u eof e => simp [hpc] at hs
    | done => simp [hpc] at hs
  | setOffset =>
    simp only [step] at hs
    cases hpc : s.pc with
    | setting u eof =>
      simp only [hpc, pcU, pcEof] at hs r1 r2
      simp only [Option.some.injEq] at hs; subst hs; exact ⟨r1, r2, r3⟩
    | top => simp [hpc] at hs
    | got u eof err => simp [hpc] at hs
    | sampled u => simp [hpc] at hs
    | sending u eof => simp [hpc] at hs
    | confirming u eof => simp [hpc] at hs
    | sleeping u eof => simp [hpc] at hs
    | tail u eof e => simp [hpc] at hs
    | done => simp [hpc] at hs
  | wake =>
    simp only [step] at hs
    cases hpc : s.pc with
    | sleeping u eof =>
      simp only [hpc, pcU, pcEof] at hs r1 r2
      simp only [Option.some.injEq] at hs; subst hs; exact ⟨r1, r2, r3⟩
    | top => simp [hpc] at hs
    | got u eof err => simp [hpc] at hs
    | sampled u => simp [hpc] at hs
    | sending u eof => simp [hpc] at hs
    | confirming u eof => simp [hpc] at hs
    | setting u eof => simp [hpc] at hs
    | tail u eof e => simp [hpc] at hs
    | done => simp [hpc] at hs

theorem rinv_run (c : Cfg) (hc : c.sampleBefore = true) : ∀ (tr : List L) (s : S), RInv s → RInv (run c s tr)
  | [], s, h => by simpa [run] using h
  | l :: ls, s, h => by
    simp only [run]
    cases hs : step c s l with
    | none => exact rinv_run c hc ls s h
    | some s' => exact rinv_run c hc ls s' (rinv_step c hc s s' l h hs)

end Logrange.ScanWorker
