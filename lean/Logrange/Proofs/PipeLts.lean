import Logrange.Model.PipeLts
/-! Lemmas behind the C10 property theorems: the copy invariant of the pipe LTS, step by step. -/
namespace Logrange.PipeLts

/-! ### lists -/

theorem slice_append_left {α : Type} (l m : List α) (a b : Nat) (h : b ≤ l.length) :
    slice (l ++ m) a b = slice l a b := by
  unfold slice
  by_cases hab : a ≤ l.length
  · rw [List.drop_append_of_le_length hab, List.take_append_of_le_length (by simp; omega)]
  · have h0 : b - a = 0 := by omega
    simp [h0]

theorem slice_append_slice {α : Type} (l : List α) (a b c : Nat) (h1 : a ≤ b) (h2 : b ≤ c) :
    slice l a b ++ slice l b c = slice l a c := by
  unfold slice
  have e : c - a = (b - a) + (c - b) := by omega
  rw [e, List.take_add]
  congr 1
  rw [List.drop_drop]
  congr 2
  omega

theorem slice_self {α : Type} (l : List α) (a : Nat) : slice l a a = [] := by simp [slice]

theorem sel_append (cfg : Cfg) (f : Ev → Bool) (a b : List Ev) : sel cfg f (a ++ b) = sel cfg f a ++ sel cfg f b := by
  unfold sel; split <;> simp

theorem sel_nil (cfg : Cfg) (f : Ev → Bool) : sel cfg f [] = [] := by unfold sel; split <;> simp

theorem proj_append_map_self (s : Nat) (dest : List (Nat × Ev)) (evs : List Ev) (f : Ev → Ev) :
    proj s (dest ++ evs.map (fun e => (s, f e))) = proj s dest ++ evs.map f := by
  unfold proj
  rw [List.filter_append, List.map_append]
  congr 1
  induction evs with
  | nil => rfl
  | cons e es ih => simp [ih]

theorem proj_append_map_ne (s s' : Nat) (dest : List (Nat × Ev)) (evs : List Ev) (f : Ev → Ev) (h : s' ≠ s) :
    proj s' (dest ++ evs.map (fun e => (s, f e))) = proj s' dest := by
  unfold proj
  rw [List.filter_append, List.map_append]
  have : (evs.map (fun e => (s, f e))).filter (fun x => x.1 == s') = [] := by
    induction evs with
    | nil => rfl
    | cons e es ih =>
      have hn : (s == s') = false := by simpa using (Ne.symm h)
      simp [hn, ih]
  rw [this]; simp

/-! ### the invariant -/

/-- where the worker's cursor stands: after `Journals.Write` returned it is ahead of the saved `Pos` -/
def curOf (σ : SrcSt) (d : Desc) : Nat := match σ.wk with
  | .written c => c
  | _ => d.pos

def DInv (cfg : Cfg) (flt : Ev → Bool) (σ : SrcSt) (d : Desc) (P : List Ev) : Prop :=
  d.start ≤ d.pos ∧ d.pos ≤ curOf σ d ∧ curOf σ d ≤ σ.log.length ∧
  (d.charged = false ↔ σ.wk = .none) ∧
  (∀ c, σ.wk = .opened c → c = d.pos) ∧
  P = (sel cfg flt (slice σ.log d.start (curOf σ d))).map (addProv σ.prov) ∧
  (∀ sv, σ.saved = some sv → sv.pos = d.pos ∧ sv.start = d.start) ∧
  (σ.saved = none → d.pos = d.start)

def SInv (cfg : Cfg) (flt : Ev → Bool) (σ : SrcSt) (P : List Ev) : Prop :=
  (σ.desc = none → P = [] ∧ σ.wk = .none ∧ σ.saved = none) ∧
  (∀ d, σ.desc = some d → DInv cfg flt σ d P)

def WEInv (st : State) (we : WE) : Prop :=
  we.src < st.n ∧ we.startPos ≤ we.endPos ∧ we.endPos ≤ (st.srcs we.src).log.length

/-- the invariant of the pipe LTS -/
def GInv (cfg : Cfg) (st : State) : Prop :=
  (∀ s, SInv cfg st.flt (st.srcs s) (proj s st.dest)) ∧
  (∀ we, we ∈ st.chan ++ st.pend → WEInv st we) ∧
  (∀ s, st.n ≤ s → (st.srcs s).desc = none) ∧
  (st.down = true → ∀ s, (st.srcs s).wk = .none)

/-- `no_stranded_data`: a descriptor with data behind `LastKnwnPos` has a worker (outside shutdown; `stale` marks a
descriptor loaded by a restart from a stop that was not quiescent) -/
def NS (cfg : Cfg) (st : State) : Prop :=
  ∀ s d, (st.srcs s).desc = some d → noStart cfg st = true ∨ d.charged = true ∨ ¬ d.pos < d.lastKnown ∨ d.stale = true

theorem ginv_init (cfg : Cfg) (n : Nat) (l : Nat → Bool) (p : Nat → Bytes) (f : Ev → Bool) (o : Bool) :
    GInv cfg (init n l p f o) := by
  refine ⟨?_, ?_, ?_, ?_⟩
  · intro s; constructor
    · intro _; simp [init, proj]
    · intro d h; simp [init] at h
  · intro we h; simp [init] at h
  · intro s _; simp [init]
  · intro hd; simp [init] at hd

/-- an `SInv` that does not depend on the fields a step changed -/
theorem sinv_congr (cfg : Cfg) (flt : Ev → Bool) (σ σ' : SrcSt) (P : List Ev)
    (h1 : σ'.desc = σ.desc) (h2 : σ'.wk = σ.wk) (h3 : σ'.saved = σ.saved) (h4 : σ'.log = σ.log) (h5 : σ'.prov = σ.prov)
    (h : SInv cfg flt σ P) : SInv cfg flt σ' P := by
  unfold SInv DInv curOf at *
  rw [h1, h2, h3, h4, h5]; exact h

/-! ### `startWorker` / `onWriteEvent` keep the per-source invariant -/

theorem dinv_startWorker (cfg : Cfg) (flt : Ev → Bool) (closed : Bool) (σ : SrcSt) (d : Desc) (P : List Ev)
    (h : DInv cfg flt { σ with desc := some d } d P) :
    SInv cfg flt (startWorker closed σ d) P := by
  unfold startWorker
  split
  · rename_i hc
    simp only [Bool.and_eq_true, Bool.not_eq_true', decide_eq_true_eq] at hc
    obtain ⟨⟨_, hch⟩, _⟩ := hc
    obtain ⟨a1, a2, a3, a4, a5, a6, a7, a8⟩ := h
    have hwk : σ.wk = .none := a4.mp hch
    constructor
    · intro hd; simp at hd
    · intro d' hd'
      simp only [Option.some.injEq] at hd'; subst hd'
      simp only [curOf, hwk] at a2 a3 a6
      refine ⟨a1, by simp [curOf], by simpa [curOf] using a3, by simp, by intro c hc; simp at hc, ?_, a7, a8⟩
      simpa [curOf] using a6
  · constructor
    · intro hd; simp at hd
    · intro d' hd'
      simp only [Option.some.injEq] at hd'; subst hd'
      exact h

theorem sinv_onWriteEvent (cfg : Cfg) (flt : Ev → Bool) (closed : Bool) (σ : SrcSt) (we : WE) (P : List Ev)
    (h : SInv cfg flt σ P) (h1 : we.startPos ≤ we.endPos) (h2 : we.endPos ≤ σ.log.length) :
    SInv cfg flt (onWriteEvent closed σ we) P := by
  unfold onWriteEvent
  cases hd : σ.desc with
  | none =>
    obtain ⟨hP, hwk, hsv⟩ := h.1 hd
    apply dinv_startWorker
    refine ⟨Nat.le_refl _, by simp [curOf, hwk], by simp [curOf, hwk]; omega, by simp [hwk], by simp [hwk], ?_, by simp [hsv], by simp⟩
    simp [curOf, hwk, slice_self, sel_nil, hP]
  | some d =>
    have hD := h.2 d hd
    apply dinv_startWorker
    obtain ⟨a1, a2, a3, a4, a5, a6, a7, a8⟩ := hD
    exact ⟨a1, a2, a3, a4, a5, a6, a7, a8⟩

/-- a step that changes one source (and appends only that source's copies to the pipe partition) -/
theorem ginv_upd (cfg : Cfg) (st : State) (s : Nat) (σ' : SrcSt) (dest' : List (Nat × Ev)) (chan' pend' : List WE)
    (cache' : Nat → Option Bool)
    (h : GInv cfg st)
    (hs : SInv cfg st.flt σ' (proj s dest'))
    (hother : ∀ s', s' ≠ s → proj s' dest' = proj s' st.dest)
    (hlog : (st.srcs s).log.length ≤ σ'.log.length)
    (hwe : ∀ we, we ∈ chan' ++ pend' → we ∈ st.chan ++ st.pend ∨
      (we.src = s ∧ s < st.n ∧ we.startPos ≤ we.endPos ∧ we.endPos ≤ σ'.log.length))
    (hn : st.n ≤ s → σ'.desc = none)
    (hdn : st.down = true → σ'.wk = .none) :
    GInv cfg { st with srcs := upd st.srcs s σ', dest := dest', chan := chan', pend := pend', cache := cache' } := by
  obtain ⟨g1, g2, g3, g4⟩ := h
  refine ⟨?_, ?_, ?_, ?_⟩
  rotate_left 3
  · intro hd s'
    by_cases e : s' = s
    · subst e; simpa using hdn hd
    · simpa [upd_ne _ _ _ _ e] using g4 hd s'
  · intro s'
    by_cases e : s' = s
    · subst e; simpa using hs
    · simp only [upd_ne _ _ _ _ e, hother s' e]; exact g1 s'
  · intro we hw
    rcases hwe we hw with hold | ⟨e1, e2, e3, e4⟩
    · obtain ⟨b1, b2, b3⟩ := g2 we hold
      refine ⟨b1, b2, ?_⟩
      by_cases e : we.src = s
      · simp only [e, upd_self]; rw [e] at b3; omega
      · simpa [upd_ne _ _ _ _ e] using b3
    · refine ⟨by simpa [e1] using e2, e3, ?_⟩
      simp only [e1, upd_self]; exact e4
  · intro s' hs'
    by_cases e : s' = s
    · subst e; simpa using hn hs'
    · simpa [upd_ne _ _ _ _ e] using g3 s' hs'

/-! ### the steps -/

theorem ginv_write (cfg : Cfg) (st st' : State) (s : Nat) (batch : List Ev) (h : GInv cfg st)
    (hs : step cfg st (.write s batch) = some st') : GInv cfg st' := by
  simp only [step] at hs
  split at hs
  · cases hs
  · rename_i hg
    simp only [Bool.or_eq_true, decide_eq_true_eq, not_or, Bool.not_eq_true, Nat.not_le] at hg
    simp only [Option.some.injEq] at hs; subst hs
    have hS := h.1 s
    apply ginv_upd cfg st s _ st.dest st.chan _ st.cache h
    · -- SInv of the grown log
      constructor
      · intro hd; exact hS.1 hd
      · intro d hd
        obtain ⟨a1, a2, a3, a4, a5, a6, a7, a8⟩ := hS.2 d hd
        have hc : curOf { st.srcs s with log := (st.srcs s).log ++ batch } d = curOf (st.srcs s) d := rfl
        refine ⟨a1, by rw [hc]; exact a2, by rw [hc]; simp; omega, a4, a5, ?_, a7, a8⟩
        rw [hc]; simp only []
        rw [slice_append_left _ _ _ _ a3]; exact a6
    · intro s' _; rfl
    · simp
    · intro we hw
      by_cases hb : batch.isEmpty
      · simp only [hb, if_true] at hw; exact Or.inl hw
      · simp only [hb] at hw
        simp only [Bool.false_eq_true, if_false, List.mem_append, List.mem_singleton] at hw
        rcases hw with hw | hw | hw
        · exact Or.inl (by simp [hw])
        · exact Or.inl (by simp [hw])
        · subst hw; refine Or.inr ⟨rfl, hg.2, by simp, by simp⟩
    · intro hn; omega
    · intro hd; exact h.2.2.2 hd s

theorem ginv_enqueue (cfg : Cfg) (st st' : State) (i : Nat) (h : GInv cfg st)
    (hs : step cfg st (.enqueue i) = some st') : GInv cfg st' := by
  simp only [step] at hs
  split at hs
  · cases hs
  · rename_i we hwe
    split at hs
    · cases hs
    · simp only [Option.some.injEq] at hs; subst hs
      obtain ⟨g1, g2, g3, g4⟩ := h
      refine ⟨g1, ?_, g3, g4⟩
      intro w hw
      have hmem : we ∈ st.pend := List.mem_of_getElem? hwe
      apply g2
      simp only [List.mem_append, List.mem_singleton] at hw ⊢
      rcases hw with (hw | hw) | hw
      · exact Or.inl hw
      · subst hw; exact Or.inr hmem
      · exact Or.inr (List.mem_of_mem_eraseIdx hw)

theorem ginv_notify (cfg : Cfg) (st st' : State) (h : GInv cfg st)
    (hs : step cfg st .notify = some st') : GInv cfg st' := by
  simp only [step] at hs
  split at hs
  · cases hs
  · rename_i hg
    simp only [Bool.or_eq_true, not_or, Bool.not_eq_true] at hg
    split at hs
    · cases hs
    · rename_i we rest hch
      have hweI : WEInv st we := h.2.1 we (by simp [hch])
      have hrest : ∀ w, w ∈ rest ++ st.pend → w ∈ st.chan ++ st.pend := by
        intro w hw; simp only [hch, List.mem_append, List.mem_cons] at hw ⊢
        rcases hw with hw | hw
        · exact Or.inl (Or.inr hw)
        · exact Or.inr hw
      split at hs
      · simp only [Option.some.injEq] at hs; subst hs
        apply ginv_upd cfg st we.src _ st.dest rest st.pend _ h
        · exact sinv_onWriteEvent cfg st.flt (noStart cfg st) _ we _ (h.1 we.src) hweI.2.1 hweI.2.2
        · intro s' _; rfl
        · unfold onWriteEvent startWorker
          cases (st.srcs we.src).desc <;> simp only [] <;> split <;> simp
        · intro w hw; exact Or.inl (hrest w hw)
        · intro hn; have := hweI.1; omega
        · intro hd; simp [hg.1] at hd
      · simp only [Option.some.injEq] at hs; subst hs
        obtain ⟨g1, g2, g3, g4⟩ := h
        exact ⟨g1, fun w hw => g2 w (hrest w hw), g3, g4⟩

/-- a step that only moves the worker's program counter of source `s` (descriptor, log, files untouched) -/
theorem ginv_wk (cfg : Cfg) (st : State) (s : Nat) (wk' : Wk) (h : GInv cfg st)
    (hs : SInv cfg st.flt { st.srcs s with wk := wk' } (proj s st.dest))
    (hne : (st.srcs s).wk ≠ .none) :
    GInv cfg { st with srcs := upd st.srcs s { st.srcs s with wk := wk' } } := by
  apply ginv_upd cfg st s _ st.dest st.chan st.pend st.cache h hs
  · intro s' _; rfl
  · simp
  · intro we hw; exact Or.inl hw
  · intro hn; exact h.2.2.1 s hn
  · intro hd; exact absurd (h.2.2.2 hd s) hne

theorem ginv_wopen (cfg : Cfg) (st st' : State) (s : Nat) (h : GInv cfg st)
    (hs : step cfg st (.wopen s) = some st') : GInv cfg st' := by
  simp only [step] at hs
  split at hs
  · rename_i d hwk hd
    simp only [Option.some.injEq] at hs; subst hs
    apply ginv_wk cfg st s _ h _ (by simp [hwk])
    obtain ⟨a1, a2, a3, a4, a5, a6, a7, a8⟩ := (h.1 s).2 d hd
    constructor
    · intro hn; simp [hd] at hn
    · intro d' hd'
      have : d' = d := by simpa [hd] using hd'.symm
      subst this
      simp only [curOf, hwk] at a2 a3 a6
      refine ⟨a1, by simp [curOf], by simpa [curOf] using a3, ?_, by intro c hc; simpa using hc.symm, by simpa [curOf] using a6, a7, a8⟩
      simp only [hwk] at a4; simpa using a4
  · cases hs

theorem ginv_wtimeout (cfg : Cfg) (st st' : State) (s : Nat) (h : GInv cfg st)
    (hs : step cfg st (.wtimeout s) = some st') : GInv cfg st' := by
  simp only [step] at hs
  have key : ∀ (hne : (st.srcs s).wk ≠ .none) (hnw : ∀ c, (st.srcs s).wk ≠ .written c),
      GInv cfg { st with srcs := upd st.srcs s { st.srcs s with wk := .finishing } } := by
    intro hne hnw
    apply ginv_wk cfg st s _ h _ hne
    constructor
    · intro hn; have := ((h.1 s).1 hn).2.1; exact absurd this hne
    · intro d hd
      obtain ⟨a1, a2, a3, a4, a5, a6, a7, a8⟩ := (h.1 s).2 d hd
      have hc : curOf (st.srcs s) d = d.pos := by
        unfold curOf; split
        · rename_i c hw; exact absurd hw (hnw c)
        · rfl
      rw [hc] at a2 a3 a6
      refine ⟨a1, by simp [curOf], by simpa [curOf] using a3, ?_, by intro c hc; simp at hc, by simpa [curOf] using a6, a7, a8⟩
      constructor
      · intro hch; exact absurd (a4.mp hch) hne
      · intro hw; simp at hw
  split at hs
  · rename_i c hwk
    simp only [Option.some.injEq] at hs; subst hs
    exact key (by simp [hwk]) (by simp [hwk])
  · rename_i hwk
    simp only [Option.some.injEq] at hs; subst hs
    exact key (by simp [hwk]) (by simp [hwk])
  · cases hs

theorem ginv_wcopy (cfg : Cfg) (st st' : State) (s k : Nat) (h : GInv cfg st)
    (hs : step cfg st (.wcopy s k) = some st') : GInv cfg st' := by
  simp only [step] at hs
  split at hs
  · rename_i c hwk
    split at hs
    · cases hs
    · simp only [Option.some.injEq] at hs; subst hs
      apply ginv_upd cfg st s _ _ st.chan st.pend st.cache h
      · rw [proj_append_map_self]
        constructor
        · intro hn
          have := ((h.1 s).1 hn).2.1
          simp [hwk] at this
        · intro d hd
          obtain ⟨a1, a2, a3, a4, a5, a6, a7, a8⟩ := (h.1 s).2 d hd
          have hcp : c = d.pos := a5 c hwk
          simp only [curOf, hwk] at a2 a3 a6
          subst hcp
          have hle1 : d.pos ≤ min (d.pos + k) (st.srcs s).log.length := by omega
          have hle2 : min (d.pos + k) (st.srcs s).log.length ≤ (st.srcs s).log.length := by omega
          refine ⟨a1, by simpa [curOf] using hle1, by simpa [curOf] using hle2, ?_, by intro c hc; simp at hc, ?_, a7, a8⟩
          · simp only [hwk] at a4
            constructor
            · intro hch; exact absurd (a4.mp hch) (by simp)
            · intro hw; simp at hw
          · simp only [curOf]
            rw [← slice_append_slice _ _ _ _ a1 hle1, sel_append, List.map_append, a6]
      · intro s' hne; exact proj_append_map_ne s s' _ _ _ hne
      · simp
      · intro we hw; exact Or.inl hw
      · intro hn; exact h.2.2.1 s hn
      · intro hd; have := h.2.2.2 hd s; simp [hwk] at this
  · cases hs

/-- the per-source invariant without the two conjuncts about the positions file -/
def SInvW (cfg : Cfg) (flt : Ev → Bool) (σ : SrcSt) (P : List Ev) : Prop :=
  (σ.desc = none → P = [] ∧ σ.wk = .none) ∧
  (∀ d, σ.desc = some d → d.start ≤ d.pos ∧ d.pos ≤ curOf σ d ∧ curOf σ d ≤ σ.log.length ∧
    (d.charged = false ↔ σ.wk = .none) ∧ (∀ c, σ.wk = .opened c → c = d.pos) ∧
    P = (sel cfg flt (slice σ.log d.start (curOf σ d))).map (addProv σ.prov))

theorem sinvw_of_sinv (cfg : Cfg) (flt : Ev → Bool) (σ : SrcSt) (P : List Ev) (h : SInv cfg flt σ P) : SInvW cfg flt σ P := by
  constructor
  · intro hd; obtain ⟨b1, b2, _⟩ := h.1 hd; exact ⟨b1, b2⟩
  · intro d hd; obtain ⟨a1, a2, a3, a4, a5, a6, _, _⟩ := h.2 d hd; exact ⟨a1, a2, a3, a4, a5, a6⟩

/-- `savePipeInfo` writes the whole map: afterwards the file agrees with the descriptors -/
theorem sinv_resave (cfg : Cfg) (flt : Ev → Bool) (σ : SrcSt) (P : List Ev) (h : SInvW cfg flt σ P) :
    SInv cfg flt { σ with saved := σ.desc } P := by
  constructor
  · intro hd
    obtain ⟨b1, b2⟩ := h.1 hd
    exact ⟨b1, b2, hd⟩
  · intro d hd
    obtain ⟨a1, a2, a3, a4, a5, a6⟩ := h.2 d hd
    refine ⟨a1, a2, a3, a4, a5, a6, ?_, ?_⟩
    · intro sv hsv
      have : sv = d := by
        have h1 : σ.desc = some sv := hsv
        rw [hd] at h1; exact (Option.some.inj h1).symm
      subst this; exact ⟨rfl, rfl⟩
    · intro hn
      have h1 : σ.desc = none := hn
      rw [hd] at h1; cases h1

theorem ginv_wsave (cfg : Cfg) (st st' : State) (s : Nat) (h : GInv cfg st)
    (hs : step cfg st (.wsave s) = some st') : GInv cfg st' := by
  simp only [step] at hs
  split at hs
  · rename_i c d hwk hd
    simp only [Option.some.injEq] at hs; subst hs
    obtain ⟨g1, g2, g3, g4⟩ := h
    obtain ⟨a1, a2, a3, a4, a5, a6, a7, a8⟩ := (g1 s).2 d hd
    simp only [curOf, hwk] at a2 a3 a6
    refine ⟨?_, ?_, ?_, ?_⟩
    · intro s'
      apply sinv_resave
      by_cases e : s' = s
      · subst e
        simp only [upd_self]
        constructor
        · intro hn; simp at hn
        · intro d' hd'
          simp only [Option.some.injEq] at hd'; subst hd'
          refine ⟨by simp; omega, by simp [curOf], by simpa [curOf] using a3, ?_, by intro c' hc'; simpa using hc'.symm,
            by simpa [curOf] using a6⟩
          simp only [hwk] at a4
          constructor
          · intro hch; exact absurd (a4.mp hch) (by simp)
          · intro hw; simp at hw
      · simp only [upd_ne _ _ _ _ e]
        exact sinvw_of_sinv _ _ _ _ (g1 s')
    · intro we hw
      obtain ⟨b1, b2, b3⟩ := g2 we hw
      refine ⟨b1, b2, ?_⟩
      by_cases e : we.src = s
      · simp only [e, upd_self]; rw [e] at b3; exact b3
      · simpa [upd_ne _ _ _ _ e] using b3
    · intro s' hs'
      by_cases e : s' = s
      · subst e; have := g3 s' hs'; rw [hd] at this; cases this
      · simpa [upd_ne _ _ _ _ e] using g3 s' hs'
    · intro hdn; have := g4 hdn s; simp [hwk] at this
  · cases hs

theorem ginv_wdone (cfg : Cfg) (st st' : State) (s : Nat) (h : GInv cfg st)
    (hs : step cfg st (.wdone s) = some st') : GInv cfg st' := by
  simp only [step] at hs
  split at hs
  · rename_i d hwk hd
    simp only [Option.some.injEq] at hs; subst hs
    obtain ⟨a1, a2, a3, a4, a5, a6, a7, a8⟩ := (h.1 s).2 d hd
    simp only [curOf, hwk] at a2 a3 a6
    have hD : DInv cfg st.flt { st.srcs s with wk := .none, desc := some { d with charged := false } }
        { d with charged := false } (proj s st.dest) :=
      ⟨a1, by simp [curOf], by simpa [curOf] using a3, by simp, by intro c hc; simp at hc, by simpa [curOf] using a6, a7, a8⟩
    apply ginv_upd cfg st s _ st.dest st.chan st.pend st.cache h
    · split
      · exact dinv_startWorker cfg st.flt (noStart cfg st) _ _ _ hD
      · constructor
        · intro hn; simp at hn
        · intro d' hd'
          simp only [Option.some.injEq] at hd'; subst hd'
          exact hD
    · intro s' _; rfl
    · split
      · unfold startWorker; split <;> simp
      · simp
    · intro we hw; exact Or.inl hw
    · intro hn; have := h.2.2.1 s hn; rw [hd] at this; cases this
    · intro hdn; have := h.2.2.2 hdn s; simp [hwk] at this
  · cases hs

/-- steps that leave sources, pipe partition and channels alone -/
theorem ginv_frame (cfg : Cfg) (st st' : State) (h : GInv cfg st)
    (e1 : st'.srcs = st.srcs) (e2 : st'.dest = st.dest) (e3 : st'.chan = st.chan) (e4 : st'.pend = st.pend)
    (e5 : st'.n = st.n) (e6 : st'.flt = st.flt) (e7 : st'.down = st.down) : GInv cfg st' := by
  unfold GInv WEInv at *
  rw [e1, e2, e3, e4, e5, e6, e7]; exact h

theorem ginv_create (cfg : Cfg) (st st' : State) (h : GInv cfg st)
    (hs : step cfg st .create = some st') : GInv cfg st' := by
  simp only [step] at hs
  split at hs
  · cases hs
  · simp only [Option.some.injEq] at hs; subst hs
    obtain ⟨g1, g2, g3, g4⟩ := h
    refine ⟨?_, ?_, ?_, ?_⟩
    · intro s; exact sinv_congr cfg st.flt (st.srcs s) _ _ rfl rfl rfl rfl rfl (g1 s)
    · intro we hw; exact g2 we hw
    · intro s hs'; exact g3 s hs'
    · intro hd s; exact g4 hd s

theorem allIdle_spec (st : State) (h : allIdle st = true) (s : Nat) (hs : s < st.n) : (st.srcs s).wk = .none := by
  unfold allIdle at h
  rw [List.all_eq_true] at h
  have := h s (List.mem_range.mpr hs)
  simpa using this

theorem ginv_halt (cfg : Cfg) (st st' : State) (h : GInv cfg st)
    (hs : step cfg st .halt = some st') : GInv cfg st' := by
  simp only [step] at hs
  split at hs
  · rename_i hg
    simp only [Bool.and_eq_true, Bool.not_eq_true'] at hg
    simp only [Option.some.injEq] at hs; subst hs
    obtain ⟨g1, g2, g3, g4⟩ := h
    refine ⟨g1, ?_, g3, ?_⟩
    · intro we hw; simp at hw
    · intro _ s
      by_cases e : s < st.n
      · exact allIdle_spec st hg.2 s e
      · exact ((g1 s).1 (g3 s (by omega))).2.1
  · cases hs

theorem ginv_restart (cfg : Cfg) (st st' : State) (h : GInv cfg st)
    (hs : step cfg st .restart = some st') : GInv cfg st' := by
  simp only [step] at hs
  split at hs
  · rename_i hdn
    simp only [Option.some.injEq] at hs; subst hs
    obtain ⟨g1, g2, g3, g4⟩ := h
    refine ⟨?_, ?_, ?_, ?_⟩
    · intro s
      have hwk := g4 hdn s
      cases hd : (st.srcs s).desc with
      | none =>
        obtain ⟨b1, b2, b3⟩ := (g1 s).1 hd
        constructor
        · intro _; exact ⟨b1, b2, b3⟩
        · intro d' hd'; simp [b3] at hd'
      | some d =>
        obtain ⟨a1, a2, a3, a4, a5, a6, a7, a8⟩ := (g1 s).2 d hd
        simp only [curOf, hwk] at a2 a3 a6
        cases hsv : (st.srcs s).saved with
        | none =>
          have hps := a8 hsv
          constructor
          · intro _
            refine ⟨?_, hwk, hsv⟩
            rw [a6, hps, slice_self, sel_nil]; rfl
          · intro d' hd'; simp [hsv] at hd'
        | some sv =>
          obtain ⟨c1, c2⟩ := a7 sv hsv
          constructor
          · intro hn; simp [hsv] at hn
          · intro d' hd'
            simp only [hsv, Option.map_some, Option.some.injEq] at hd'; subst hd'
            refine ⟨by simp; omega, by simp [curOf, hwk], by simp [curOf, hwk]; omega, by simp [hwk], by simp [hwk], ?_, ?_, ?_⟩
            · simp only [curOf, hwk, c1, c2]; exact a6
            · intro sv' hsv'
              have : sv' = sv := by simpa [hsv] using hsv'.symm
              subst this; exact ⟨rfl, rfl⟩
            · intro hn; simp [hsv] at hn
    · intro we hw; exact g2 we hw
    · intro s hs'
      have hd := g3 s hs'
      have := ((g1 s).1 hd).2.2
      simp [this]
    · intro hd; simp at hd
  · cases hs

theorem step_ginv (cfg : Cfg) (st st' : State) (l : Label) (h : GInv cfg st)
    (hs : step cfg st l = some st') : GInv cfg st' := by
  cases l with
  | write s b => exact ginv_write cfg st st' s b h hs
  | enqueue i => exact ginv_enqueue cfg st st' i h hs
  | notify => exact ginv_notify cfg st st' h hs
  | wopen s => exact ginv_wopen cfg st st' s h hs
  | wcopy s k => exact ginv_wcopy cfg st st' s k h hs
  | wsave s => exact ginv_wsave cfg st st' s h hs
  | wtimeout s => exact ginv_wtimeout cfg st st' s h hs
  | wdone s => exact ginv_wdone cfg st st' s h hs
  | create => exact ginv_create cfg st st' h hs
  | delete =>
    simp only [step] at hs
    split at hs
    · cases hs
    · simp only [Option.some.injEq] at hs; subst hs
      exact ginv_frame cfg st _ h rfl rfl rfl rfl rfl rfl rfl
  | shutdown =>
    simp only [step] at hs
    split at hs
    · cases hs
    · simp only [Option.some.injEq] at hs; subst hs
      exact ginv_frame cfg st _ h rfl rfl rfl rfl rfl rfl rfl
  | halt => exact ginv_halt cfg st st' h hs
  | restart => exact ginv_restart cfg st st' h hs

theorem run_ginv (cfg : Cfg) (st : State) (ls : List Label) (h : GInv cfg st) : GInv cfg (run cfg st ls) := by
  induction ls generalizing st with
  | nil => simpa [run] using h
  | cons l ls ih =>
    simp only [run]
    cases hs : step cfg st l with
    | none => exact ih st h
    | some st' => exact ih st' (step_ginv cfg st st' l h hs)

/-! ### no stranded data -/

def NSd (closed : Bool) (d : Desc) : Prop :=
  closed = true ∨ d.charged = true ∨ ¬ d.pos < d.lastKnown ∨ d.stale = true

theorem ns_startWorker (closed : Bool) (σ : SrcSt) (d d' : Desc) (h : (startWorker closed σ d).desc = some d') :
    NSd closed d' := by
  unfold startWorker at h
  split at h
  · simp only [Option.some.injEq] at h; subst h
    exact Or.inr (Or.inl rfl)
  · rename_i hc
    simp only [Option.some.injEq] at h; subst h
    simp only [Bool.and_eq_true, Bool.not_eq_true', decide_eq_true_eq, not_and] at hc
    unfold NSd
    cases hcl : closed with
    | true => exact Or.inl rfl
    | false =>
      cases hch : d.charged with
      | true => exact Or.inr (Or.inl rfl)
      | false => exact Or.inr (Or.inr (Or.inl (hc ⟨hcl, hch⟩)))

theorem ns_onWriteEvent (closed : Bool) (σ : SrcSt) (we : WE) (d' : Desc) (h : (onWriteEvent closed σ we).desc = some d') :
    NSd closed d' := by
  unfold onWriteEvent at h
  split at h <;> exact ns_startWorker _ _ _ _ h

/-- a step that changes the descriptor of at most one source to a non-stranded one -/
theorem ns_upd (cfg : Cfg) (st : State) (s : Nat) (σ' : SrcSt) (h : NS cfg st)
    (hs : ∀ d, σ'.desc = some d → NSd (noStart cfg st) d) :
    ∀ s' d, (upd st.srcs s σ' s').desc = some d → NSd (noStart cfg st) d := by
  intro s' d hd
  by_cases e : s' = s
  · subst e; simp only [upd_self] at hd; exact hs d hd
  · rw [upd_ne _ _ _ _ e] at hd; exact h s' d hd

theorem nsd_mono (b b' : Bool) (d : Desc) (hb : b = true → b' = true) (h : NSd b d) : NSd b' d := by
  rcases h with h | h
  · exact Or.inl (hb h)
  · exact Or.inr h

theorem step_ns (cfg : Cfg) (hre : cfg.rearm = true) (st st' : State) (l : Label) (hg : GInv cfg st) (h : NS cfg st)
    (hs : step cfg st l = some st') : NS cfg st' := by
  have same : ∀ σ' : SrcSt, ∀ s, σ'.desc = (st.srcs s).desc → ∀ d, σ'.desc = some d → NSd (noStart cfg st) d := by
    intro σ' s e d hd; rw [e] at hd; exact h s d hd
  cases l with
  | write s b =>
    simp only [step] at hs
    split at hs
    · cases hs
    · simp only [Option.some.injEq] at hs; subst hs
      exact ns_upd cfg st s _ h (same _ s rfl)
  | enqueue i =>
    simp only [step] at hs
    split at hs
    · cases hs
    · split at hs
      · cases hs
      · simp only [Option.some.injEq] at hs; subst hs; exact h
  | notify =>
    simp only [step] at hs
    split at hs
    · cases hs
    · split at hs
      · cases hs
      · split at hs
        · simp only [Option.some.injEq] at hs; subst hs
          exact ns_upd cfg st _ _ h (fun d hd => ns_onWriteEvent _ _ _ d hd)
        · simp only [Option.some.injEq] at hs; subst hs; exact h
  | wopen s =>
    simp only [step] at hs
    split at hs
    · simp only [Option.some.injEq] at hs; subst hs
      exact ns_upd cfg st s _ h (same _ s rfl)
    · cases hs
  | wcopy s k =>
    simp only [step] at hs
    split at hs
    · split at hs
      · cases hs
      · simp only [Option.some.injEq] at hs; subst hs
        exact ns_upd cfg st s _ h (same _ s rfl)
    · cases hs
  | wsave s =>
    simp only [step] at hs
    split at hs
    · rename_i c d hwk hd
      simp only [Option.some.injEq] at hs; subst hs
      intro s' d' hd'
      simp only [] at hd'
      refine ns_upd cfg st s _ h ?_ s' d' hd'
      intro d2 hd2
      simp only [Option.some.injEq] at hd2; subst hd2
      have a4 := ((hg.1 s).2 d hd).2.2.2.1
      cases hch : d.charged with
      | true => exact Or.inr (Or.inl rfl)
      | false => have := a4.mp hch; simp [hwk] at this
    · cases hs
  | wtimeout s =>
    simp only [step] at hs
    split at hs
    · simp only [Option.some.injEq] at hs; subst hs
      exact ns_upd cfg st s _ h (same _ s rfl)
    · simp only [Option.some.injEq] at hs; subst hs
      exact ns_upd cfg st s _ h (same _ s rfl)
    · cases hs
  | wdone s =>
    simp only [step] at hs
    split at hs
    · simp only [Option.some.injEq, hre, if_true] at hs; subst hs
      exact ns_upd cfg st s _ h (fun d hd => ns_startWorker _ _ _ d hd)
    · cases hs
  | create =>
    simp only [step] at hs
    split at hs
    · cases hs
    · rename_i hg'
      simp only [Bool.or_eq_true, bne_iff_ne, ne_eq, not_or, Bool.not_eq_true, Decidable.not_not] at hg'
      simp only [Option.some.injEq] at hs; subst hs
      intro s d hd
      refine nsd_mono _ _ d ?_ (h s d hd)
      intro hb
      simp only [noStart, hg'.2] at hb ⊢
      simpa using hb
  | delete =>
    simp only [step] at hs
    split at hs
    · cases hs
    · simp only [Option.some.injEq] at hs; subst hs
      intro s d hd
      refine nsd_mono _ _ d ?_ (h s d hd)
      intro hb
      simp only [noStart, Bool.or_eq_true] at hb ⊢
      rcases hb with hb | hb
      · exact Or.inl hb
      · simp only [Bool.and_eq_true] at hb
        exact Or.inr (by simp [hb.1])
  | shutdown =>
    simp only [step] at hs
    split at hs
    · cases hs
    · simp only [Option.some.injEq] at hs; subst hs
      intro s d _; exact Or.inl (by simp [noStart])
  | halt =>
    simp only [step] at hs
    split at hs
    · simp only [Option.some.injEq] at hs; subst hs
      intro s d hd; exact h s d hd
    · cases hs
  | restart =>
    simp only [step] at hs
    split at hs
    · simp only [Option.some.injEq] at hs; subst hs
      intro s d hd
      simp only [] at hd
      cases hsv : (st.srcs s).saved with
      | none => simp [hsv] at hd
      | some sv =>
        simp only [hsv, Option.map_some, Option.some.injEq] at hd; subst hd
        by_cases hlt : sv.pos < sv.lastKnown
        · exact Or.inr (Or.inr (Or.inr (by simp [hlt])))
        · exact Or.inr (Or.inr (Or.inl hlt))
    · cases hs

theorem run_ns (cfg : Cfg) (hre : cfg.rearm = true) (st : State) (ls : List Label) (hg : GInv cfg st) (h : NS cfg st) :
    NS cfg (run cfg st ls) := by
  induction ls generalizing st with
  | nil => simpa [run] using h
  | cons l ls ih =>
    simp only [run]
    cases hs : step cfg st l with
    | none => exact ih st hg h
    | some st' => exact ih st' (step_ginv cfg st st' l hg hs) (step_ns cfg hre st st' l hg h hs)

end Logrange.PipeLts
