import Logrange.Model.Points
/-! Lemmas about the abstract sparse index (`Logrange.Points`): soundness of the two look-ups, completeness of the
window, preservation of `IndexSound` by `add`. -/
namespace Logrange.Points

theorem cntLE_cons_le {a : Pt} {r : List Pt} {t : Int} (h : a.ts ≤ t) : cntLE (a :: r) t = cntLE r t + 1 := by
  simp [cntLE, List.takeWhile, h]

theorem cntLE_cons_gt {a : Pt} {r : List Pt} {t : Int} (h : ¬ a.ts ≤ t) : cntLE (a :: r) t = 0 := by
  simp [cntLE, List.takeWhile, h]

theorem lastD_cons_cons (a b : Pt) (r : List Pt) : lastD (a :: b :: r) = lastD (b :: r) := by
  simp [lastD]

theorem lastD_single (a : Pt) : lastD [a] = a := by simp [lastD]

/-- every position after a point's index (inside the chunk) has a timestamp ≥ the point's -/
theorem after_ge (tsOf : Nat → Int) (n : Nat) : ∀ (r : List Pt) (a : Pt), SortedTs (a :: r) → Claims tsOf (a :: r) →
    TailAbove tsOf n (a :: r) → ∀ q, a.idx < q → q < n → a.ts ≤ tsOf q := by
  intro r
  induction r with
  | nil =>
    intro a _ _ ht q hq hqn
    have := ht q (by simpa [lastD_single] using hq) hqn
    simpa [lastD_single] using this
  | cons b r' ih =>
    intro a hs hc ht q hq hqn
    by_cases hb : q ≤ b.idx
    · exact (hc.1 q hq hb).1
    · have ht' : TailAbove tsOf n (b :: r') := by
        intro q' h1 h2
        have := ht q' (by rw [lastD_cons_cons]; exact h1) h2
        rw [lastD_cons_cons] at this; exact this
      have := ih b hs.2 hc.2 ht' q (by omega) hqn
      have := hs.1; omega

/-- `less`: a position beyond the answer cannot have `ts ≤ t` -/
theorem less_upper (tsOf : Nat → Int) (n : Nat) (t : Int) : ∀ (pts : List Pt), SortedTs pts → Claims tsOf pts →
    TailAbove tsOf n pts → ∀ m, lessPos pts t = some m → ∀ q, m < q → q < n → t < tsOf q := by
  intro pts
  induction pts with
  | nil => intro _ _ _ m hm; simp [lessPos, cntLE] at hm
  | cons a r ih =>
    intro hs hc ht m hm q hq hqn
    by_cases ha : a.ts ≤ t
    · have hm' : lessPos r t = some m := by
        simpa [lessPos, cntLE_cons_le ha] using hm
      cases r with
      | nil => simp [lessPos, cntLE] at hm'
      | cons b r' =>
        have ht' : TailAbove tsOf n (b :: r') := by
          intro q' h1 h2
          have := ht q' (by rw [lastD_cons_cons]; exact h1) h2
          rw [lastD_cons_cons] at this; exact this
        exact ih hs.2 hc.2 ht' m hm' q hq hqn
    · have : m = a.idx := by
        simp [lessPos, cntLE_cons_gt ha] at hm; exact hm.symm
      subst this
      have := after_ge tsOf n r a hs hc ht q hq hqn
      omega

theorem less_is_upper_bound {tsOf : Nat → Int} {n : Nat} {pts : List Pt} (hs : IndexSound tsOf n pts) (t : Int) (m : Nat)
    (hm : lessPos pts t = some m) (q : Nat) (hq : m < q) (hqn : q < n) : t < tsOf q := by
  have hne : pts ≠ [] := by intro h; subst h; simp [lessPos, cntLE] at hm
  exact less_upper tsOf n t pts hs.sortedTs hs.claims (hs.tail hne) m hm q hq hqn

theorem grEqPos_cons_cons_le {a b : Pt} {r : List Pt} {t : Int} (ha : a.ts ≤ t) (hb : b.ts ≤ t) :
    grEqPos (a :: b :: r) t = grEqPos (b :: r) t := by
  simp [grEqPos, cntLE_cons_le ha, cntLE_cons_le hb]

theorem grEqPos_cons_gt {a : Pt} {r : List Pt} {t : Int} (ha : ¬ a.ts ≤ t) : grEqPos (a :: r) t = 0 := by
  simp [grEqPos, cntLE_cons_gt ha]

theorem grEqPos_cons_le_gt {a b : Pt} {r : List Pt} {t : Int} (ha : a.ts ≤ t) (hb : ¬ b.ts ≤ t) :
    grEqPos (a :: b :: r) t = a.idx := by
  simp [grEqPos, cntLE_cons_le ha, cntLE_cons_gt hb]

theorem grEqPos_single_le {a : Pt} {t : Int} (ha : a.ts ≤ t) : grEqPos [a] t = a.idx := by
  simp [grEqPos, cntLE, List.takeWhile, ha]

/-- `grEq`: every position strictly before the answer has `ts ≤ t` (generalised over the head of the list) -/
theorem grEq_below_aux (tsOf : Nat → Int) (t : Int) : ∀ (r : List Pt) (a : Pt), SortedTs (a :: r) → Claims tsOf (a :: r) →
    a.ts ≤ t → (∀ q, q < a.idx → tsOf q ≤ t) → (∀ b r', r = b :: r' → b.ts ≤ t → tsOf a.idx ≤ t) →
    ∀ q, q < grEqPos (a :: r) t → tsOf q ≤ t := by
  intro r
  induction r with
  | nil =>
    intro a _ _ ha H _ q hq
    rw [grEqPos_single_le ha] at hq
    exact H q hq
  | cons b r' ih =>
    intro a hs hc ha H H2 q hq
    by_cases hb : b.ts ≤ t
    · rw [grEqPos_cons_cons_le ha hb] at hq
      have hA : tsOf a.idx ≤ t := H2 b r' rfl hb
      apply ih b hs.2 hc.2 hb
      · intro q' hq'
        by_cases h1 : q' < a.idx
        · exact H q' h1
        · by_cases h2 : q' = a.idx
          · subst h2; exact hA
          · have := (hc.1 q' (by omega) (by omega)).2
            omega
      · intro c r'' hr hcle
        by_cases h1 : b.idx < a.idx
        · exact H b.idx h1
        · by_cases h2 : b.idx = a.idx
          · rw [h2]; exact hA
          · have := (hc.1 b.idx (by omega) (Nat.le_refl _)).2
            omega
      · exact hq
    · rw [grEqPos_cons_le_gt ha hb] at hq
      exact H q hq

theorem grEq_below {tsOf : Nat → Int} {n : Nat} {pts : List Pt} (hs : IndexSound tsOf n pts) (t : Int) (q : Nat)
    (hq : q < grEqPos pts t) : tsOf q ≤ t := by
  match pts, hs with
  | [], _ => simp [grEqPos, cntLE] at hq
  | [a], hs => exact absurd rfl hs.len
  | a :: b :: r, hs =>
    by_cases ha : a.ts ≤ t
    · have hh := hs.head
      simp only [HeadOk] at hh
      apply grEq_below_aux tsOf t (b :: r) a hs.sortedTs hs.claims ha
      · intro q' hq'; omega
      · intro b' r' hr hb'
        cases hr
        rw [hh.1]; omega
      · exact hq
    · rw [grEqPos_cons_gt ha] at hq; omega

/-- the statement fix 94ffdf8 establishes: asked for `t − 1`, the index answers a position at or before every record
with `ts ≥ t` -/
theorem grEq_minus_one_is_lower_bound {tsOf : Nat → Int} {n : Nat} {pts : List Pt} (hs : IndexSound tsOf n pts) (t : Int)
    (q : Nat) (hq : t ≤ tsOf q) : grEqPos pts (t - 1) ≤ q := by
  apply Nat.le_of_not_lt
  intro h
  have := grEq_below hs (t - 1) q h
  omega

/-- **the index may only skip events outside the range** -/
theorem window_complete {tsOf : Nat → Int} {n : Nat} (h : Hull) (idx : Option (List Pt)) (r : TmRange)
    (hh : HullSound h tsOf n) (hi : ∀ pts, idx = some pts → IndexSound tsOf n pts) (hn : n ≤ maxU32)
    (hmin : minI64 ≤ h.minTs) (p : Nat) (hp : p < n) (hr : inRange r (tsOf p)) : inWindow (window h idx r) p := by
  have hfact : Generated.C02.lowerAskMinusOne = true := by decide
  obtain ⟨h1, h2⟩ := hh p hp
  obtain ⟨r1, r2⟩ := hr
  have hpm : p ≤ maxU32 := by omega
  unfold window
  have hc : ¬ (r.maxTs < h.minTs ∨ r.minTs > h.maxTs) := by omega
  simp only [hc, if_false]
  constructor
  · -- lower side
    show (if r.minTs ≥ h.minTs then ciGrEq h idx (lowerAsk r.minTs) else 0) ≤ p
    split
    · unfold ciGrEq
      split
      · omega
      · split
        · omega
        · cases idx with
          | none => simp
          | some pts =>
            simp only []
            have hs := hi pts rfl
            unfold lowerAsk lowerAskWith
            rw [hfact]
            by_cases hm : r.minTs > minI64
            · simp only [Bool.true_and, hm, decide_true, if_true]
              exact grEq_minus_one_is_lower_bound hs r.minTs p r1
            · -- r.minTs = minI64 ≤ h.minTs ≤ r.minTs: the hull short-cut has already fired
              rename_i hx hy
              unfold lowerAsk lowerAskWith at hy
              rw [hfact] at hy
              simp only [Bool.true_and, hm, decide_false] at hy
              omega
    · omega
  · -- upper side
    show p ≤ (if r.maxTs ≤ h.maxTs then ciLess h idx r.maxTs else maxU32)
    split
    · unfold ciLess
      split
      · exact hpm
      · split
        · exact hpm
        · cases idx with
          | none => exact hpm
          | some pts =>
            simp only []
            have hs := hi pts rfl
            cases hl : lessPos pts r.maxTs with
            | none => simpa using hpm
            | some m =>
              simp only [Option.getD_some]
              apply Nat.le_of_not_lt
              intro hlt
              have := less_is_upper_bound hs r.maxTs m hl p hlt hp
              omega
    · exact hpm

/-! ## preservation by `add` -/

theorem all_le_of_cntLE_eq_length (t : Int) : ∀ (pts : List Pt), cntLE pts t = pts.length → ∀ p ∈ pts, p.ts ≤ t := by
  intro pts
  induction pts with
  | nil => intro _ p hp; simp at hp
  | cons a r ih =>
    intro h p hp
    by_cases ha : a.ts ≤ t
    · rw [cntLE_cons_le ha] at h
      simp at h
      cases hp with
      | head => exact ha
      | tail _ hp' => exact ih h p hp'
    · rw [cntLE_cons_gt ha] at h; simp at h

theorem lastD_mem : ∀ (pts : List Pt), pts ≠ [] → lastD pts ∈ pts := by
  intro pts
  induction pts with
  | nil => intro h; exact absurd rfl h
  | cons a r ih =>
    intro _
    cases r with
    | nil => simp [lastD]
    | cons b r' =>
      rw [lastD_cons_cons]
      exact List.mem_cons_of_mem _ (ih (by simp))

theorem lastD_snoc (pts : List Pt) (x : Pt) : lastD (pts ++ [x]) = x := by
  simp [lastD]

theorem sortedTs_snoc (x : Pt) : ∀ (pts : List Pt), pts ≠ [] → SortedTs pts → (lastD pts).ts ≤ x.ts → SortedTs (pts ++ [x]) := by
  intro pts
  induction pts with
  | nil => intro h; exact absurd rfl h
  | cons a r ih =>
    intro _ hs hl
    cases r with
    | nil => simp [lastD] at hl; simp [SortedTs, hl]
    | cons b r' =>
      rw [lastD_cons_cons] at hl
      exact ⟨hs.1, ih (by simp) hs.2 hl⟩

theorem sortedIdx_snoc (x : Pt) : ∀ (pts : List Pt), pts ≠ [] → SortedIdx pts → (lastD pts).idx ≤ x.idx → SortedIdx (pts ++ [x]) := by
  intro pts
  induction pts with
  | nil => intro h; exact absurd rfl h
  | cons a r ih =>
    intro _ hs hl
    cases r with
    | nil => simp [lastD] at hl; simp [SortedIdx, hl]
    | cons b r' =>
      rw [lastD_cons_cons] at hl
      exact ⟨hs.1, ih (by simp) hs.2 hl⟩

theorem claims_snoc (tsOf : Nat → Int) (x : Pt) : ∀ (pts : List Pt), pts ≠ [] → Claims tsOf pts →
    (∀ q, (lastD pts).idx < q → q ≤ x.idx → (lastD pts).ts ≤ tsOf q ∧ tsOf q ≤ x.ts) → Claims tsOf (pts ++ [x]) := by
  intro pts
  induction pts with
  | nil => intro h; exact absurd rfl h
  | cons a r ih =>
    intro _ hc hl
    cases r with
    | nil => simp [lastD] at hl; exact ⟨hl, trivial⟩
    | cons b r' =>
      rw [lastD_cons_cons] at hl
      exact ⟨hc.1, ih (by simp) hc.2 hl⟩

/-- **append case** of `block.addInterval` (and the creation of the first interval): the new batch starts at or above
every indexed timestamp, so only `p1` is appended. -/
theorem add_preserves_append {tsOf : Nat → Int} {n n' : Nat} {pts : List Pt} (it : Iv) (hs : IndexSound tsOf n pts)
    (hcase : cntLE pts it.p0.ts = pts.length)
    (hn : it.p0.idx = n) (hle : it.p0.idx ≤ it.p1.idx) (hn' : n' = it.p1.idx + 1) (hb : BatchIn it tsOf)
    (hg : GapCovered pts it tsOf) (he : pts = [] → it.p0.idx = 0) : IndexSound tsOf n' (add pts it) := by
  have hb0 := hb it.p0.idx (Nat.le_refl _) hle
  have hts : it.p0.ts ≤ it.p1.ts := by omega
  match pts, hs, hcase, hg, he with
  | [], _, _, _, he =>
    have h0 := he rfl
    refine ⟨by simp [add], ?_, ?_, ?_, ?_, ?_, ?_⟩
    · simp [add, SortedTs, hts]
    · simp [add, SortedIdx, hle]
    · simp only [add, Claims, and_true]
      intro q h1 h2; exact hb q (by omega) h2
    · simp only [add, HeadOk]
      refine ⟨h0, ?_, ?_⟩
      · have := hb 0 (by omega) (by omega); exact this.1
      · have := hb 0 (by omega) (by omega); exact this.2
    · intro _ q h1 h2
      simp [add, lastD] at h1
      omega
    · intro p hp
      simp [add] at hp
      rcases hp with hp | hp <;> subst hp <;> omega
  | [a], hs, _, _, _ => exact absurd rfl hs.len
  | a :: b :: r, hs, hcase, hg, _ =>
    have hall := all_le_of_cntLE_eq_length it.p0.ts (a :: b :: r) hcase
    have hne : (a :: b :: r) ≠ [] := by simp
    have hlm := lastD_mem (a :: b :: r) hne
    have hl_ts : (lastD (a :: b :: r)).ts ≤ it.p0.ts := hall _ hlm
    have hl_idx : (lastD (a :: b :: r)).idx < n := hs.inChunk _ hlm
    have hadd : add (a :: b :: r) it = (a :: b :: r) ++ [it.p1] := by
      simp only [add]
      rw [if_pos hcase]
    rw [hadd]
    refine ⟨by simp, ?_, ?_, ?_, ?_, ?_, ?_⟩
    · exact sortedTs_snoc it.p1 _ hne hs.sortedTs (by omega)
    · exact sortedIdx_snoc it.p1 _ hne hs.sortedIdx (by omega)
    · apply claims_snoc tsOf it.p1 _ hne hs.claims
      intro q h1 h2
      by_cases hq : q < it.p0.idx
      · -- a position of a skipped batch
        constructor
        · exact hs.tail hne q h1 (by omega)
        · exact hg q h1 hq
      · have := hb q (by omega) h2
        omega
    · have := hs.head
      simpa [HeadOk] using this
    · intro _ q h1 h2
      rw [lastD_snoc] at h1
      omega
    · intro p hp
      rw [List.mem_append] at hp
      rcases hp with hp | hp
      · have := hs.inChunk p hp; omega
      · simp at hp; subst hp; omega

/-- a write the sparse index skips (fewer than `sparseSpace` records since the last point): the index is unchanged and
stays sound when the new records are not below the last point -/
theorem skip_preserves {tsOf : Nat → Int} {n n' : Nat} {pts : List Pt} (hs : IndexSound tsOf n pts) (hnn : n ≤ n')
    (hnew : ∀ q, n ≤ q → q < n' → (lastD pts).ts ≤ tsOf q) : IndexSound tsOf n' pts := by
  refine ⟨hs.len, hs.sortedTs, hs.sortedIdx, hs.claims, hs.head, ?_, ?_⟩
  · intro hne q h1 h2
    by_cases hq : q < n
    · exact hs.tail hne q h1 hq
    · exact hnew q (by omega) h2
  · intro p hp; have := hs.inChunk p hp; omega

theorem gapCovered_of_monotone {tsOf : Nat → Int} {n' : Nat} (pts : List Pt) (it : Iv) (hm : Monotone tsOf n')
    (hb : BatchIn it tsOf) (hle : it.p0.idx ≤ it.p1.idx) (hl : it.p1.idx < n') : GapCovered pts it tsOf := by
  intro q _ h2
  have h1 := hm q it.p0.idx (by omega) (by omega)
  have := hb it.p0.idx (Nat.le_refl _) hle
  omega

/-- on a monotone stream whose index is sound, a batch whose hull is exact always takes the append case -/
theorem append_case_of_monotone {tsOf : Nat → Int} {n : Nat} {pts : List Pt} (it : Iv) (hs : IndexSound tsOf n pts)
    (hm : Monotone tsOf (it.p0.idx + 1)) (hn : it.p0.idx = n) (hexact : it.p0.ts = tsOf it.p0.idx)
    (hatt : ∀ p ∈ pts, ∃ q, q < n ∧ p.ts ≤ tsOf q) : cntLE pts it.p0.ts = pts.length := by
  have hall : ∀ p ∈ pts, p.ts ≤ it.p0.ts := by
    intro p hp
    obtain ⟨q, hq, hle⟩ := hatt p hp
    have := hm q it.p0.idx (by omega) (by omega)
    omega
  clear hs hatt
  induction pts with
  | nil => simp [cntLE]
  | cons a r ih =>
    have ha := hall a (List.mem_cons_self)
    rw [cntLE_cons_le ha, ih (fun p hp => hall p (List.mem_cons_of_mem _ hp))]
    simp

end Logrange.Points
