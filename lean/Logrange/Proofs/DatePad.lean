import Logrange.Proofs.DateFirstMatch
/-! # Blank padding of an LQL literal: `strings.Trim(s, " ")` removes it (`parseLql_padded`) -/
namespace Logrange.Date

theorem dropWhile_blank_replicate (a : Nat) (r : Bytes) :
    (List.replicate a (32 : UInt8) ++ r).dropWhile (· == 32) = r.dropWhile (· == 32) := by
  induction a with
  | zero => simp
  | succ n ih => simp [List.replicate_succ, List.dropWhile_cons, ih]

/-- `strings.Trim(s, " ")` removes any blank padding -/
theorem trimBlanks_pad (a b : Nat) (t : Bytes) :
    trimBlanks (List.replicate a 32 ++ t ++ List.replicate b 32) = trimBlanks (t ++ List.replicate b 32) := by
  simp only [trimBlanks, List.append_assoc, dropWhile_blank_replicate]

theorem trimBlanks_pad_right (b : Nat) (t : Bytes) (hne : t ≠ []) (hlast : t.getLast? ≠ some 32) (hhead : t.head? ≠ some 32) :
    trimBlanks (t ++ List.replicate b 32) = t := by
  have h1 : (t ++ List.replicate b 32).dropWhile (· == 32) = t ++ List.replicate b 32 := by
    cases t with
    | nil => exact absurd rfl hne
    | cons x r =>
      have : (x == 32) = false := by
        simp only [List.head?_cons, ne_eq, Option.some.injEq] at hhead
        simpa using hhead
      simp [List.dropWhile_cons, this]
  have h2 : (t ++ List.replicate b 32).reverse.dropWhile (· == 32) = t.reverse := by
    rw [List.reverse_append, List.reverse_replicate, dropWhile_blank_replicate]
    cases hr : t.reverse with
    | nil => simp
    | cons y r =>
      have hy : t.getLast? = some y := by
        rw [← List.head?_reverse, hr]; rfl
      have : (y == 32) = false := by
        rw [hy] at hlast
        simp only [ne_eq, Option.some.injEq] at hlast
        simpa using hlast
      simp [List.dropWhile_cons, this]
  simp only [trimBlanks, h1, h2, List.reverse_reverse]

/-- `parseLqlDateTime` of a blank-padded literal is `parseLqlDateTime` of the literal (the switch `trim` read from the source) -/
theorem parseLql_padded (cfg : LqlCfg) (htrim : cfg.trim = true) (fmts : List CFormat) (now : Now) (a b : Nat) (t : Bytes)
    (hne : t ≠ []) (hlast : t.getLast? ≠ some 32) (hhead : t.head? ≠ some 32) :
    parseLql cfg fmts now (List.replicate a 32 ++ t ++ List.replicate b 32) = parseLql cfg fmts now t := by
  have e1 : trimBlanks (List.replicate a 32 ++ t ++ List.replicate b 32) = t := by
    rw [trimBlanks_pad, trimBlanks_pad_right b t hne hlast hhead]
  have e2 : trimBlanks t = t := by
    have := trimBlanks_pad_right 0 t hne hlast hhead
    simpa using this
  simp only [parseLql, htrim, if_true, e1, e2]

end Logrange.Date
