import Logrange.Proofs.RdRngPaging
import Logrange.Proofs.RdRngFwd
import Logrange.Proofs.RdRngWin
/-!
Appends between pages under RANGE (C03): the journal grows between pages (`Grows`), the chunk windows of every journal value
are sound for the range (`WinSound` — for the real index: `Props/C02Win.lean`, `rd_window_sound_pipeline`; that the windows
of the grown journal keep admitting what the old ones admitted is its `win_monotone_of_win_sound`, a consequence used here
only through `WinSound` of both values). Pages served after the journal changed are served by a NEW cursor built from the
position text (evicted cursor / request id zeroed / position only); a held cursor continues only while the journal is unchanged
(a held ranged cursor over a grown journal works with a partly stale status cache: tested, not proved).
-/
set_option linter.unusedSectionVars false
set_option linter.unusedVariables false
namespace Logrange.Rd

section
variable (lo hi : Option Int)

/-- the matching stored records from position `p` on -/
def FS (j : Journal) (w : Bool) (p : Pos) : List Rec := ((flat j).drop (flatIdx j p)).filter (passR lo hi w)

theorem rg_passR_inRange (w : Bool) : ∀ r, passR lo hi w r = true → inRange lo hi r = true := by
  intro r h; simp only [passR, Bool.and_eq_true] at h; exact h.2

theorem rg_FLR_FS {j : Journal} (hs : Sorted j) (hw : WinSound j lo hi) (w : Bool) (p : Pos) :
    FLR lo hi j w (wflatIdx j p) = FS lo hi j w p :=
  rwn_filter_from hs (hw.toF (rg_passR_inRange lo hi w)) p

/-- iterator part of the invariant: well formed, forward, in sync, and a cached event implies a settled position -/
def JS (j : Journal) (s : RIt) (v : Bool) : Prop :=
  RWF j s ∧ s.bkwd = false ∧ RSynced s ∧ (v = true → Settled j s.pos)
def JC (name : Nat) (j : Journal) (w : Bool) (c : Cur) : Prop :=
  ∃ s v l m, c = curR lo hi name j s w v l m ∧ JS j s v

theorem rg_fGetLoop {name j w} (hs : Sorted j) (hne : j ≠ []) : ∀ (fuel : Nat) (s : RIt) (v : Bool) (l : Option Rec)
    (m : Array MixSt), JS j s v → (wflat j).length - wIdx j s < fuel →
    ∃ s' v' l' m', (fGetLoop fuel (curR lo hi name j s w v l m)).1 = curR lo hi name j s' w v' l' m' ∧ JS j s' v' ∧
      Settled j s'.pos := by
  intro fuel
  induction fuel with
  | zero => intro s v l m _ hf; omega
  | succ f ih =>
    intro s v l m hj hf
    obtain ⟨hwf, hb, hsy, hv⟩ := hj
    rw [rp_fGetLoop_succ]
    cases v with
    | true =>
      simp only [if_true]
      exact ⟨s, true, l, m, rfl, ⟨hwf, hb, hsy, hv⟩, hv rfl⟩
    | false =>
      simp only [Bool.false_eq_true, if_false]
      obtain ⟨g1, g2, g3, g4, g5, g6, g7⟩ := rGetFwd j s hs hwf hb
      have hset := rf_get_settled hs hwf hb hsy hne
      cases hg : (rGet j s).2 with
      | none =>
        exact ⟨(rGet j s).1, false, l, m, rfl, ⟨g2, g3, g5 hsy, by intro h; cases h⟩, hset⟩
      | some x =>
        simp only []
        by_cases hk : passR lo hi w x = true
        · simp only [hk, if_true]
          exact ⟨(rGet j s).1, true, some x, m, rfl, ⟨g2, g3, g5 hsy, fun _ => hset⟩, hset⟩
        · simp only [hk, Bool.false_eq_true, if_false]
          obtain ⟨n1, n2, n3, n4⟩ := rNextFwd j (rGet j s).1 hs g2 g3
          rw [hg] at g1
          have hlt : wIdx j s < (wflat j).length := (List.getElem?_eq_some_iff.mp g1.symm).1
          exact ih (rNext j (rGet j s).1) false (some x) m ⟨n1, n2, n3, by intro h; cases h⟩ (by rw [n4, g4]; omega)

theorem rg_curGet {name j w c} (hs : Sorted j) (hne : j ≠ []) (h : JC lo hi name j w c) :
    ∃ s' v' l' m', (curGet c).1 = curR lo hi name j s' w v' l' m' ∧ JS j s' v' ∧ Settled j s'.pos := by
  obtain ⟨s, v, l, m, rfl, hj⟩ := h
  have : curGet (curR lo hi name j s w v l m) = fGetLoop ((flat j).length + 2) (curR lo hi name j s w v l m) := by
    simp [curGet, curR, Cur.size]
  rw [this]
  have := rp_wflat_length_le j
  exact rg_fGetLoop lo hi hs hne _ s v l m hj (by omega)

theorem rg_curNext {name j w c} (hs : Sorted j) (h : JC lo hi name j w c) : JC lo hi name j w (curNext c) := by
  obtain ⟨s, v, l, m, rfl, hwf, hb, hsy, _⟩ := h
  obtain ⟨n1, n2, n3, _⟩ := rNextFwd j s hs hwf hb
  exact ⟨rNext j s, false, l, m, rp_curNext .., n1, n2, n3, by intro h; cases h⟩

theorem rg_readLoop {name j w} (hs : Sorted j) (hne : j ≠ []) : ∀ (k : Nat) (c : Cur) (acc : List Rec),
    JC lo hi name j w c → JC lo hi name j w (readLoop k c acc).1 := by
  intro k
  induction k with
  | zero => intro c acc h; simpa [readLoop] using h
  | succ k ih =>
    intro c acc h
    obtain ⟨s', v', l', m', e, hj, _⟩ := rg_curGet lo hi hs hne h
    have h1 : JC lo hi name j w (curGet c).1 := ⟨s', v', l', m', e, hj⟩
    rw [readLoop]
    cases hg : (curGet c).2 with
    | none => simpa [hg] using h1
    | some r => simp only [hg]; exact ih _ _ (rg_curNext lo hi hs h1)

/-- the position a page exports is settled, and the committed cursor keeps the invariant -/
theorem rg_pageOn {name j w c} (hs : Sorted j) (hne : j ≠ []) (lim : Nat) (h : JC lo hi name j w c) :
    JC lo hi name j w (pageOn lim c).1 ∧ ∀ p, (pageOn lim c).2.2 = [(name, p)] → Settled j p := by
  have h1 := rg_readLoop lo hi hs hne lim c [] h
  obtain ⟨s', v', l', m', e, ⟨hwf, hb, hsy, hv⟩, hset⟩ := rg_curGet lo hi hs hne h1
  obtain ⟨r1, _, r3, r4, r5, _⟩ := rw_release_facts j s'
  have hc : commit (readLoop lim c []).1 = (curR lo hi name j (rRelease s') w v' l' m', [(name, s'.pos)]) := by
    simp only [commit, curState, e, rp_collectPos, rp_curRelease]
  constructor
  · show JC lo hi name j w (commit (readLoop lim c []).1).1
    rw [hc]
    exact ⟨rRelease s', v', l', m', rfl, r1 hwf, by rw [r3, hb], r4 hsy, by intro hh; rw [r5]; exact hv hh⟩
  · intro p hp
    have : (commit (readLoop lim c []).1).2 = [(name, p)] := hp
    rw [hc] at this
    simp only [List.cons.injEq, Prod.mk.injEq, and_true, true_and] at this
    rw [← this]; exact hset

theorem rg_fresh_JC (name : Nat) (j : Journal) (w : Bool) (p : Pos) :
    JC lo hi name j w (applyStatePos (mkR lo hi name j w) [(name, p)]) := by
  obtain ⟨h1, h2, h3, h4⟩ := rw_setPos_fresh j p
  refine ⟨rSetPos j {} p, false, none, #[{}], by rw [mkR, rp_mkCur, rp_applyStatePos], ?_, h3, ?_, by intro h; cases h⟩
  · unfold RWF; rw [h1]; exact Or.inl h4
  · unfold RSynced; rw [h1]; trivial

theorem rg_head_JC (name : Nat) (j : Journal) (w : Bool) :
    JC lo hi name j w (applyCorner (mkR lo hi name j w) false) := by
  have : applyCorner (mkR lo hi name j w) false = applyStatePos (mkR lo hi name j w) [(name, {})] := by
    rw [mkR, rp_mkCur, rp_applyStatePos, rp_applyCorner]; simp
  rw [this]; exact rg_fresh_JC lo hi name j w {}

/-- appends only, every journal value sorted with windows sound for the range; a held cursor (`same`) continues only over
an unchanged journal -/
def GrowsChainR : Journal → List PStep → Prop
  | _, [] => True
  | j, st :: rest => Grows j st.jrnl ∧ Sorted st.jrnl ∧ WinSound st.jrnl lo hi ∧ (st.choice = .same → st.jrnl = j) ∧
      GrowsChainR st.jrnl rest

theorem rg_chain_pos : ∀ (steps : List PStep) (j : Journal) (q : Pos), GrowsChainR lo hi j steps → Settled j q →
    flatIdx (lastJ j steps) q = flatIdx j q ∧ ∃ e, flat (lastJ j steps) = flat j ++ e := by
  intro steps
  induction steps with
  | nil => intro j q _ _; exact ⟨rfl, [], by simp [lastJ]⟩
  | cons st rest ih =>
    intro j q h hq
    obtain ⟨g, hs', _, _, hrest⟩ := h
    obtain ⟨⟨e1, he1⟩, hset, _⟩ := grows j st.jrnl g hs'
    obtain ⟨i1, e2, he2⟩ := ih st.jrnl q hrest (hset q hq).2
    exact ⟨by rw [lastJ, i1, (hset q hq).1], e1 ++ e2, by rw [lastJ, he2, ← he1, List.append_assoc]⟩

theorem rg_FS_grow {j J : Journal} {e : List Rec} (w : Bool) {q : Pos} (hi' : flatIdx J q = flatIdx j q)
    (he : flat J = flat j ++ e) : FS lo hi J w q = FS lo hi j w q ++ e.filter (passR lo hi w) := by
  unfold FS
  rw [hi', he, List.drop_append_of_le_length (pg_flatIdx_le j q), List.filter_append]

theorem rg_chain_grow {name w} : ∀ (steps : List PStep) (j : Journal) (c : Cur) (i : Nat) (p : Pos),
    PCR lo hi name j w c i p → JC lo hi name j w c → Settled j p → j ≠ [] → Sorted j → WinSound j lo hi →
    GrowsChainR lo hi j steps →
    ∃ R, FS lo hi (lastJ j steps) w p = (chainR lo hi name w c [(name, p)] steps).flatten ++ R ∧
      (∀ st evs, steps.getLast? = some st → (chainR lo hi name w c [(name, p)] steps).getLast? = some evs →
        evs.length < st.limit → R = []) := by
  intro steps
  induction steps with
  | nil =>
    intro j c i p _ _ _ _ _ _ _
    exact ⟨FS lo hi j w p, by simp [chainR, lastJ], by intro st evs h; simp at h⟩
  | cons st rest ih =>
    intro j c i p hpc hjc hsp hne hs hw hch
    obtain ⟨g, hs1, hw1, hsame, hrest⟩ := hch
    obtain ⟨_, hset, _⟩ := grows j st.jrnl g hs1
    have hne1 := pg_grows_ne g hne
    -- the cursor that serves the page: at an index whose remaining output is FS j1 p, with the invariant
    have hres : ∃ i1, AbsR lo hi name st.jrnl w true (resumeR lo hi name w c [(name, p)] st) i1 ∧
        FLR lo hi st.jrnl w i1 = FS lo hi st.jrnl w p ∧ JC lo hi name st.jrnl w (resumeR lo hi name w c [(name, p)] st) := by
      cases hc : st.choice with
      | same =>
        have hj := hsame hc
        refine ⟨i, ?_, ?_, ?_⟩
        · rw [hj]; exact rp_resume_fixed lo hi hpc st hj
        · rw [hj, ← rp_pc_idx lo hi hpc]; exact rg_FLR_FS lo hi hs hw w p
        · obtain ⟨s, v, l, m, e, hjs⟩ := hjc
          refine ⟨s, v, l, m, ?_, by rw [hj]; exact hjs⟩
          unfold resumeR; rw [hc]; simp only [hj, e, rp_setJournals]
      | fresh =>
        refine ⟨wflatIdx st.jrnl p, ?_, rg_FLR_FS lo hi hs1 hw1 w p, ?_⟩
        · unfold resumeR; rw [hc]; exact rp_fresh_abs lo hi name st.jrnl w p
        · unfold resumeR; rw [hc]; exact rg_fresh_JC lo hi name st.jrnl w p
    obtain ⟨i1, habs, hfl, hjc1⟩ := hres
    obtain ⟨e1, i', p', pc', f', pm', hidx'⟩ := rp_pageOn_abs lo hi rGetFwd rNextFwd hs1 st.limit habs
    obtain ⟨hjc', hsetp⟩ := rg_pageOn lo hi hs1 hne1 st.limit hjc1
    have hsp' : Settled st.jrnl p' := hsetp p' pm'
    obtain ⟨R, hR, hcomp⟩ := ih st.jrnl _ i' p' pc' hjc' hsp' hne1 hs1 hw1 hrest
    have hFS' : FS lo hi st.jrnl w p' = FLR lo hi st.jrnl w i' := by rw [← hidx']; exact (rg_FLR_FS lo hi hs1 hw1 w p').symm
    have hsplit : FS lo hi st.jrnl w p = (FLR lo hi st.jrnl w i1).take st.limit ++ FS lo hi st.jrnl w p' := by
      rw [hFS', f', List.take_append_drop, hfl]
    obtain ⟨q1, e, he⟩ := rg_chain_pos lo hi rest st.jrnl p hrest (hset p hsp).2
    obtain ⟨q2, e', he'⟩ := rg_chain_pos lo hi rest st.jrnl p' hrest hsp'
    have hee : e' = e := by rw [he] at he'; exact (List.append_cancel_left he').symm
    subst hee
    refine ⟨R, ?_, ?_⟩
    · rw [chainR, List.flatten_cons, pm', e1, lastJ, List.append_assoc, ← hR,
        rg_FS_grow lo hi w q1 he, rg_FS_grow lo hi w q2 he, ← List.append_assoc, ← hsplit]
    · intro st' evs hl hg hlen
      rw [chainR, pm'] at hg
      cases hrest' : rest with
      | nil =>
        subst hrest'
        simp only [List.getLast?_singleton, Option.some.injEq] at hl
        subst hl
        simp only [chainR, List.getLast?_singleton, Option.some.injEq] at hg
        rw [e1] at hg
        have hshort : (FLR lo hi st.jrnl w i1).length < st.limit := by
          rw [← hg] at hlen
          rw [List.length_take] at hlen
          omega
        have hnil : FS lo hi st.jrnl w p' = [] := by
          rw [hFS', f']; exact List.drop_eq_nil_of_le (by omega)
        have : R = FS lo hi st.jrnl w p' := by simpa [chainR, lastJ] using hR.symm
        rw [this, hnil]
      | cons r0 rs =>
        subst hrest'
        rw [List.getLast?_cons_cons] at hl
        have hg' : (chainR lo hi name w (pageOn st.limit (resumeR lo hi name w c [(name, p)] st)).1 [(name, p')] (r0 :: rs)).getLast? = some evs := by
          rw [chainR] at hg ⊢
          rw [List.getLast?_cons_cons] at hg
          exact hg
        exact hcomp st' evs hl hg' hlen

/-- **appends between pages under RANGE**, a whole paged read that starts at `head` -/
theorem rg_pages_grow {name w} (j0 : Journal) (l0 : Nat) (steps : List PStep) (hne : j0 ≠ []) (hs : Sorted j0)
    (hw : WinSound j0 lo hi) (hch : GrowsChainR lo hi j0 steps) :
    ∃ R, (flat (lastJ j0 steps)).filter (passR lo hi w) = (pagesR lo hi name w j0 l0 steps).flatten ++ R ∧
      (∀ st evs, steps.getLast? = some st → (pagesR lo hi name w j0 l0 steps).getLast? = some evs →
        evs.length < st.limit → R = []) := by
  have habs := rp_head_abs lo hi name j0 w
  obtain ⟨e1, i', p', pc', f', pm', hidx'⟩ := rp_pageOn_abs lo hi rGetFwd rNextFwd hs l0 habs
  obtain ⟨hjc', hsetp⟩ := rg_pageOn lo hi hs hne l0 (rg_head_JC lo hi name j0 w)
  have hsp' : Settled j0 p' := hsetp p' pm'
  obtain ⟨R, hR, hcomp⟩ := rg_chain_grow lo hi steps j0 _ i' p' pc' hjc' hsp' hne hs hw hch
  obtain ⟨q2, e, he⟩ := rg_chain_pos lo hi steps j0 p' hch hsp'
  have h0 : FLR lo hi j0 w 0 = (flat j0).filter (passR lo hi w) := by
    unfold FLR; rw [List.drop_zero]
    exact rwn_filter_wflat (hw.toF (rg_passR_inRange lo hi w))
  have hFS' : FS lo hi j0 w p' = FLR lo hi j0 w i' := by rw [← hidx']; exact (rg_FLR_FS lo hi hs hw w p').symm
  have hsplit : (flat j0).filter (passR lo hi w) = (FLR lo hi j0 w 0).take l0 ++ FS lo hi j0 w p' := by
    rw [hFS', f', List.take_append_drop, h0]
  refine ⟨R, ?_, ?_⟩
  · rw [pagesR, List.flatten_cons, pm', e1, List.append_assoc, ← hR, rg_FS_grow lo hi w q2 he, ← List.append_assoc,
      ← hsplit, he, List.filter_append]
  · intro st evs hl hg hlen
    rw [pagesR, pm'] at hg
    cases hsteps : steps with
    | nil => subst hsteps; simp at hl
    | cons s0 ss =>
      subst hsteps
      have hg' : (chainR lo hi name w (pageOn l0 (applyCorner (mkR lo hi name j0 w) false)).1 [(name, p')] (s0 :: ss)).getLast? = some evs := by
        rw [chainR] at hg ⊢
        rw [List.getLast?_cons_cons] at hg
        exact hg
      exact hcomp st evs hl hg' hlen

end
end Logrange.Rd
