import Logrange.Model.WriteReadRanged
import Logrange.Proofs.WriteReadE2E
import Logrange.Proofs.RdRngWin
import Logrange.Proofs.RdRngPaging
/-! # Lemmas for the ranged / backend.Querier forms of C01's end-to-end theorem (`Model/WriteReadRanged.lean`) -/
namespace Logrange.E2E
open Go Logrange.WireRT Logrange.JournalW Logrange.WriteLoopM

theorem rdViewWFrom_ids (win : Nat → Nat × Nat) (k cid off : Nat) (j : Journal) : ∀ c ∈ rdViewWFrom win k cid off j, cid ≤ c.id := by
  induction j generalizing k cid off with
  | nil => intro c hc; simp [rdViewWFrom] at hc
  | cons x xs ih =>
    intro c hc
    simp only [rdViewWFrom, List.mem_cons] at hc
    rcases hc with rfl | hc
    · exact Nat.le_refl _
    · have := ih (k + 1) (cid + 1) (off + x.recs.length) c hc
      omega

theorem rdViewWFrom_sorted (win : Nat → Nat × Nat) (k cid off : Nat) (j : Journal) : Rd.Sorted (rdViewWFrom win k cid off j) := by
  induction j generalizing k cid off with
  | nil => simp [rdViewWFrom, Rd.Sorted]
  | cons x xs ih =>
    simp only [rdViewWFrom, Rd.Sorted, List.pairwise_cons]
    refine ⟨?_, ih (k + 1) (cid + 1) (off + x.recs.length)⟩
    intro c hc
    have := rdViewWFrom_ids win (k + 1) (cid + 1) (off + x.recs.length) xs c hc
    show cid < c.id
    omega

/-- the flat record sequence of the view: global index and timestamp of every stored record -/
theorem rdViewWFrom_flat (win : Nat → Nat × Nat) : ∀ (j : Journal) (k cid : Nat) (pre : List Bytes),
    Rd.flat (rdViewWFrom win k cid pre.length j) =
      (List.range' pre.length (readAll j).length).map (fun g => ({ lbl := g, ts := tsOf ((pre ++ readAll j).getD g []) } : Rd.Rec)) := by
  intro j
  induction j with
  | nil => intro k cid pre; simp [rdViewWFrom, Rd.flat, readAll]
  | cons x xs ih =>
    intro k cid pre
    have e1 : Rd.flat (rdViewWFrom win k cid pre.length (x :: xs))
        = (List.range x.recs.length).map (fun i => ({ lbl := pre.length + i, ts := tsOf (x.recs.getD i []) } : Rd.Rec)) ++
          Rd.flat (rdViewWFrom win (k + 1) (cid + 1) (pre.length + x.recs.length) xs) := by
      simp [rdViewWFrom, Rd.flat]
    have e2 : readAll (x :: xs) = x.recs ++ readAll xs := by simp [readAll]
    have ih' := ih (k + 1) (cid + 1) (pre ++ x.recs)
    simp only [List.length_append, List.append_assoc] at ih'
    rw [e1, e2, ih', List.length_append, ← List.range'_append_1, List.map_append]
    congr 1
    rw [List.range'_eq_map_range, List.map_map]
    apply List.map_congr_left
    intro i hi
    have hi' : i < x.recs.length := by simpa using hi
    simp only [Function.comp]
    congr 2
    simp [List.getD_eq_getElem?_getD, List.getElem?_append_right, List.getElem?_append_left, hi']

theorem wflatIdx_head (j : Rd.Journal) : Rd.wflatIdx j {} = 0 := by
  induction j with
  | nil => rfl
  | cons c cs ih =>
    simp only [Rd.wflatIdx, ih]
    split
    · rename_i h; exact absurd h (Nat.not_lt_zero _)
    · split <;> simp [Rd.Chunk.wBefore]

/-- **C03's ranged iterator algebra, instantiated**: under window soundness (C02's contract) the ranged iterator drained from
the head, with the range re-check, delivers exactly the stored records whose timestamp is in the range, once, in stored order -/
theorem iterLabelsRanged_eq (win : Nat → Nat × Nat) (lo hi : Option Int) (j : Journal)
    (hw : Rd.WinSound (rdViewW win j) lo hi) :
    iterLabelsRanged win lo hi j =
      (List.range (readAll j).length).filter (fun g => tsInRange lo hi (tsOf ((readAll j).getD g []))) := by
  have hs : Rd.Sorted (rdViewW win j) := rdViewWFrom_sorted win 0 1 0 j
  have hflat := rdViewWFrom_flat win j 0 1 []
  simp only [List.length_nil, List.nil_append] at hflat
  have hlen : (Rd.flat (rdViewW win j)).length = (readAll j).length := by
    unfold rdViewW; rw [hflat]; simp
  obtain ⟨h1, h2, h3, h4⟩ := Rd.rw_setPos_fresh (rdViewW win j) {}
  have hwf : Rd.RWF (rdViewW win j) (Rd.rSetPos (rdViewW win j) {} {}) := by unfold Rd.RWF; rw [h1]; exact Or.inl h4
  have hidx : Rd.wIdx (rdViewW win j) (Rd.rSetPos (rdViewW win j) {} {}) = Rd.wflatIdx (rdViewW win j) {} := by
    unfold Rd.wIdx Rd.rEffPos; rw [h1]; simp [h2]
  have hd : Rd.rDrain (rdViewW win j) (readAll j).length (Rd.rSetPos (rdViewW win j) {} {})
      = (Rd.wflat (rdViewW win j)).drop (Rd.wflatIdx (rdViewW win j) {}) := by
    rw [Rd.rf_drain_eq _ _ _ hs hwf h3, hidx]
    apply List.take_of_length_le
    have := Rd.rp_wflat_length_le (rdViewW win j)
    simp only [List.length_drop]; omega
  have hf := Rd.rwn_filter_from hs (hw.toF (f := Rd.inRange lo hi) (fun _ h => h)) {}
  unfold iterLabelsRanged
  rw [hd, hf, flatIdx_head, List.drop_zero]
  unfold rdViewW
  rw [hflat, List.filter_map, List.map_map, ← List.range_eq_range']
  have : ((fun r : Rd.Rec => r.lbl) ∘ fun g => ({ lbl := g, ts := tsOf ((readAll j).getD g []) } : Rd.Rec)) = id := rfl
  rw [this, List.map_id]
  apply List.filter_congr
  intro g _
  cases lo <;> cases hi <;> simp [Rd.inRange, tsInRange]

/-! ## fetching an arbitrary list of labels -/

theorem decodeAll_get (m : Nat) : ∀ (store : List Bytes) (es : List Event), decodeAll m store = some es →
    es.length = store.length ∧ ∀ (g : Nat) (r : Bytes), store[g]? = some r →
      ∃ (e : Event) (k : Nat), es[g]? = some e ∧ r.length ≤ m ∧ Event.unmarshal [] r = .ok (k, e) := by
  intro store
  induction store with
  | nil => intro es h; simp [decodeAll] at h; subst h; simp
  | cons r rs ih =>
    intro es h
    simp only [decodeAll] at h
    split at h
    · simp at h
    · rename_i hl
      split at h
      · rename_i k e hu
        cases hd : decodeAll m rs with
        | none => simp [hd] at h
        | some tl =>
          simp only [hd, Option.map_some, Option.some.injEq] at h
          subst h
          obtain ⟨i1, i2⟩ := ih tl hd
          refine ⟨by simp [i1], ?_⟩
          intro g r' hg
          cases g with
          | zero =>
            simp only [List.getElem?_cons_zero, Option.some.injEq] at hg
            subst hg
            exact ⟨e, k, by simp, by omega, hu⟩
          | succ g =>
            simp only [List.getElem?_cons_succ] at hg
            obtain ⟨e', k', a, b, c⟩ := i2 g r' hg
            exact ⟨e', k', by simpa using a, b, c⟩
      · simp at h

theorem fetchDecode_labels (m : Nat) (store : List Bytes) (es : List Event) (h : decodeAll m store = some es) :
    ∀ (labels : List Nat), (∀ l ∈ labels, l < store.length) →
      fetchDecode m store labels = some (labels.map (fun l => es.getD l default)) := by
  obtain ⟨hl, hg⟩ := decodeAll_get m store es h
  intro labels
  induction labels with
  | nil => intro _; rfl
  | cons l ls ih =>
    intro hb
    have hlt : l < store.length := hb l (by simp)
    obtain ⟨e, k, h1, h2, h3⟩ := hg l store[l] (by simp [hlt])
    have hnot : ¬ store[l].length > m := by omega
    simp only [fetchDecode, List.getElem?_eq_getElem hlt, hnot, ↓reduceIte, h3, List.map_cons]
    rw [ih (fun x hx => hb x (by simp [hx]))]
    simp [List.getD_eq_getElem?_getD, h1]

theorem tsOf_decoded (m : Nat) (store : List Bytes) (es : List Event) (h : decodeAll m store = some es) (g : Nat)
    (hg : g < store.length) : tsOf (store.getD g []) = tsInt (es.getD g default).ts := by
  obtain ⟨_, hget⟩ := decodeAll_get m store es h
  obtain ⟨e, k, h1, _, h3⟩ := hget g store[g] (by simp [hg])
  simp [tsOf, List.getD_eq_getElem?_getD, List.getElem?_eq_getElem hg, h3, h1]

theorem map_getD_range (es : List Event) : (List.range es.length).map (fun i => es.getD i default) = es := by
  apply List.ext_getElem
  · simp
  · intro i h1 h2
    simp [List.getD_eq_getElem?_getD, List.getElem?_eq_getElem h2]

/-- the records the ranged read fetches and decodes: the stored events whose timestamp is in the range, in stored order -/
theorem fetchDecode_ranged (m : Nat) (lo hi : Option Int) (store : List Bytes) (es : List Event)
    (h : decodeAll m store = some es) :
    fetchDecode m store ((List.range store.length).filter (fun g => tsInRange lo hi (tsOf (store.getD g []))))
      = some (es.filter (fun e => tsInRange lo hi (tsInt e.ts))) := by
  obtain ⟨hl, _⟩ := decodeAll_get m store es h
  rw [fetchDecode_labels m store es h _ (fun l hl' => by
    have := (List.mem_filter.mp hl').1
    simpa using this)]
  congr 1
  have e1 : (List.range store.length).filter (fun g => tsInRange lo hi (tsOf (store.getD g [])))
      = (List.range store.length).filter (fun g => tsInRange lo hi (tsInt (es.getD g default).ts)) := by
    apply List.filter_congr
    intro g hg
    rw [tsOf_decoded m store es h g (by simpa using hg)]
  rw [e1]
  have e2 : (fun g => tsInRange lo hi (tsInt (es.getD g default).ts)) = ((fun e : Event => tsInRange lo hi (tsInt e.ts)) ∘ fun g => es.getD g default) := rfl
  rw [e2, ← List.filter_map, ← hl, map_getD_range]

end Logrange.E2E
