import Logrange.Proofs.RdPaging
/-! Lift of the cursor-level paging theorem to `Logrange.Rd.query` / `pages` (request ids, held cursors, `ApplyState`, limit clamp). -/
set_option linter.unusedSectionVars false
set_option linter.unusedVariables false
namespace Logrange.Rd

def qOne (w : Bool) : Qry := { text := 1, where_ := w }

theorem ql_newCur (j : Journal) (w : Bool) (p : PosText) :
    newCur [(0, j)] (qOne w) p = some (applyPosText (mk1 0 j w) p) := by
  simp [newCur, sortSrcs, insertSrc, resolve, qOne, mk1]

/-- the request is ready to be served from flat index `i` -/
def Ready (j : Journal) (w : Bool) (srv : Server) (req : Req) (i : Nat) : Prop :=
  req.query = some (qOne w) ∧ req.offset = 0 ∧ srv.store = [(0, j)] ∧
  ((req.pos = .empty ∧ i = 0) ∨ ∃ p, req.pos = .map [(0, p)] ∧ flatIdx j p = i) ∧
  (∀ h, req.id > 0 → srv.held.find? (·.id == req.id) = some h →
      h.qtext = 1 ∧ h.pos = req.pos ∧ ∃ p, PC 0 j w h.cur i p)

end Logrange.Rd
namespace Logrange.Rd

def limOf (M : Nat) (req : Req) : Nat := if req.limit > M then M else req.limit

theorem ql_query_held (M : Nat) (srv : Server) (req : Req) (q : Qry) (h0 h : Held)
    (hq : req.query = some q) (hid : req.id > 0) (hf : srv.held.find? (·.id == req.id) = some h0)
    (ha : applyState h0 q.text req.pos = some h) :
    query M srv req =
      let c := offset (setJournals h.cur srv.store) req.offset
      let pg := pageOn (limOf M req) c
      ({ srv with held := { id := h.id, qtext := q.text, pos := .map pg.2.2, cur := pg.1 } :: srv.held.filter (·.id != h.id) },
       { events := pg.2.1, next := { id := h.id, query := some q, pos := .map pg.2.2, limit := limOf M req, wait := req.wait } }) := by
  simp only [query, hq, hid, if_true, hf, Option.bind_some, ha, pageOn, limOf]

theorem ql_query_new (M : Nat) (srv : Server) (req : Req) (q : Qry) (c0 : Cur)
    (hq : req.query = some q)
    (hnf : (if req.id > 0 then srv.held.find? (·.id == req.id) else none) = none)
    (hc : newCur srv.store q req.pos = some c0) :
    let cache := req.wait || limOf M req ≠ req.limit
    let id := if req.id = 0 then srv.nextId else req.id
    let srv1 : Server := if req.id = 0 then { srv with nextId := srv.nextId + 1 } else srv
    let pg := pageOn (limOf M req) (offset c0 req.offset)
    query M srv req =
      if cache then
        ({ srv1 with held := { id := id, qtext := q.text, pos := .map pg.2.2, cur := pg.1 } :: srv1.held.filter (·.id != id) },
         { events := pg.2.1, next := { id := id, query := some q, pos := .map pg.2.2, limit := limOf M req, wait := req.wait } })
      else
        (srv1, { events := pg.2.1, next := { id := 0, query := some q, pos := .map pg.2.2, limit := limOf M req, wait := req.wait } }) := by
  simp only [query, hq, hnf, Option.bind_none, Option.isSome_none, Bool.false_eq_true, if_false, pageOn, limOf]
  by_cases h0 : req.id = 0
  · simp only [h0, if_true, hc]
    split <;> simp_all
  · simp only [h0, if_false, hc]
    split <;> simp_all
end Logrange.Rd
namespace Logrange.Rd

theorem ql_limOf (M : Nat) (req : Req) : limOf M req = min req.limit M := by
  unfold limOf; split <;> omega

section lift
variable (HG : GetFwdSpec) (HN : NextFwdSpec)
include HG HN

theorem ql_page {j : Journal} {w : Bool} (hs : Sorted j) (M : Nat) (srv : Server) (req : Req) (i : Nat)
    (hr : Ready j w srv req i) :
    ∃ i', (query M srv req).2.events = (FL j w i).take (limOf M req) ∧
      FL j w i' = (FL j w i).drop (limOf M req) ∧
      Ready j w (query M srv req).1 (query M srv req).2.next i' := by
  obtain ⟨hq, hoff, hstore, hpos, hheld⟩ := hr
  have hq1 : (qOne w).text = 1 := rfl
  by_cases hfound : req.id > 0 ∧ ∃ h0, srv.held.find? (·.id == req.id) = some h0
  · obtain ⟨hid, h0, hf⟩ := hfound
    obtain ⟨e1, e2, p, hpc⟩ := hheld h0 hid hf
    have ha : applyState h0 (qOne w).text req.pos = some h0 := by
      simp [applyState, hq1, e1, e2]
    rw [ql_query_held M srv req (qOne w) h0 h0 hq hid hf ha]
    simp only [hoff, hstore]
    have hcur : offset (setJournals h0.cur [(0, j)]) 0 = h0.cur := by
      obtain ⟨it, v, l, m, e, _⟩ := hpc
      rw [e, pg_setJournals]; simp [offset]
    rw [hcur]
    have habs : Abs 0 j w true h0.cur i := by
      obtain ⟨it, v, l, m, e, st, _, _⟩ := hpc; exact ⟨it, v, l, m, e, st⟩
    obtain ⟨ev, i', p', pc', f', pm', fi'⟩ := pg_pageOn_abs HG HN hs (limOf M req) habs
    refine ⟨i', ev, f', rfl, rfl, rfl, Or.inr ⟨p', by rw [pm'], fi'⟩, ?_⟩
    intro h _ hfind
    simp only [List.find?_cons, beq_self_eq_true] at hfind
    cases hfind
    exact ⟨rfl, rfl, p', pc'⟩
  · have hnf : (if req.id > 0 then srv.held.find? (·.id == req.id) else none) = none := by
      by_cases hid : req.id > 0
      · simp only [hid, if_true]
        cases hfd : srv.held.find? (·.id == req.id) with
        | none => rfl
        | some h0 => exact absurd ⟨hid, h0, hfd⟩ hfound
      · simp [hid]
    have hc : newCur srv.store (qOne w) req.pos = some (applyPosText (mk1 0 j w) req.pos) := by
      rw [hstore]; exact ql_newCur j w req.pos
    have habs : Abs 0 j w true (offset (applyPosText (mk1 0 j w) req.pos) req.offset) i := by
      rw [hoff]
      have : ∀ c, offset c 0 = c := by intro c; simp [offset]
      rw [this]
      rcases hpos with ⟨hp, hi⟩ | ⟨p, hp, hi⟩
      · rw [hp, hi]; exact pg_head_abs 0 j w
      · rw [hp, ← hi]; exact pg_fresh_abs 0 j w p
    obtain ⟨ev, i', p', pc', f', pm', fi'⟩ := pg_pageOn_abs HG HN hs (limOf M req) habs
    have hmain := ql_query_new M srv req (qOne w) _ hq hnf hc
    simp only at hmain
    rw [hmain]
    by_cases hcache : (req.wait || decide (limOf M req ≠ req.limit)) = true
    · rw [if_pos hcache]
      refine ⟨i', ev, f', rfl, rfl, ?_, Or.inr ⟨p', by rw [pm'], fi'⟩, ?_⟩
      · by_cases h0 : req.id = 0 <;> simp [h0, hstore]
      · intro h _ hfind
        simp only [List.find?_cons, beq_self_eq_true] at hfind
        cases hfind
        exact ⟨rfl, rfl, p', pc'⟩
    · rw [if_neg hcache]
      refine ⟨i', ev, f', rfl, rfl, ?_, Or.inr ⟨p', by rw [pm'], fi'⟩, ?_⟩
      · by_cases h0 : req.id = 0 <;> simp [h0, hstore]
      · intro h hid _; simp at hid

theorem ql_pagesFrom {j : Journal} {w : Bool} (hs : Sorted j) (M : Nat) (orig : Req) (ho : orig.query = some (qOne w)) :
    ∀ (steps : List Step) (srv : Server) (prev : Page) (i : Nat), Ready j w srv prev.next i →
    (∀ s ∈ steps, s.store' = none) →
    (pagesFrom M orig srv prev steps).flatten = (FL j w i).take ((steps.map (fun s => min s.limit M)).sum) := by
  intro steps
  induction steps with
  | nil => intro srv prev i _ _; simp [pagesFrom]
  | cons st rest ih =>
    intro srv prev i hr hall
    have hst := hall st (List.mem_cons_self ..)
    obtain ⟨hq, hoff, hstore, hpos, hheld⟩ := hr
    -- the request the client builds is ready, whatever it chose
    have hready : Ready j w (if st.resume = .evicted then { srv with held := [] } else srv) (nextReq orig prev st) i := by
      cases hres : st.resume with
      | follow =>
        simp only [nextReq, hres]
        refine ⟨hq, hoff, by simpa using hstore, hpos, ?_⟩
        intro h hid hf; exact hheld h hid (by simpa using hf)
      | evicted =>
        simp only [nextReq, hres]
        refine ⟨hq, hoff, by simpa using hstore, hpos, ?_⟩
        intro h _ hf; simp at hf
      | zeroId =>
        simp only [nextReq, hres]
        refine ⟨hq, hoff, by simpa using hstore, hpos, ?_⟩
        intro h hid _; simp at hid
      | posOnly =>
        simp only [nextReq, hres]
        refine ⟨ho, rfl, by simpa using hstore, hpos, ?_⟩
        intro h hid _; simp at hid
    have hlim : (nextReq orig prev st).limit = st.limit := by
      cases hres : st.resume <;> simp [nextReq, hres]
    obtain ⟨i', ev, f', hr'⟩ := ql_page HG HN hs M _ _ i hready
    rw [pagesFrom]
    simp only [hst]
    rw [List.flatten_cons, ih _ _ i' hr' (fun s hs' => hall s (List.mem_cons_of_mem _ hs')), ev, f',
      ql_limOf, hlim]
    simp only [List.map_cons, List.sum_cons]
    rw [List.take_add]

/-- **paging at the request level** (`Querier.Query` + provider): one partition, every limit list, every resume mode -/
theorem ql_pages {j : Journal} {w : Bool} (hs : Sorted j) (M : Nat) (l0 : Nat) (wait : Bool) (steps : List Step)
    (hall : ∀ s ∈ steps, s.store' = none) :
    (pages M { store := [(0, j)] } { query := some (qOne w), limit := l0, wait := wait } steps).flatten =
      ((flat j).filter (keepW w)).take (((l0 :: steps.map (·.limit)).map (fun l => min l M)).sum) := by
  have hr0 : Ready j w ({ store := [(0, j)] } : Server) { query := some (qOne w), limit := l0, wait := wait } 0 := by
    refine ⟨rfl, rfl, rfl, Or.inl ⟨rfl, rfl⟩, ?_⟩
    intro h hid _; simp at hid
  obtain ⟨i', ev, f', hr'⟩ := ql_page HG HN hs M _ _ 0 hr0
  rw [pages]
  simp only []
  rw [List.flatten_cons, ql_pagesFrom HG HN hs M _ rfl steps _ _ i' hr' hall, ev, f', ql_limOf]
  simp only [List.map_cons, List.sum_cons, List.map_map]
  rw [List.take_add]
  simp [FL, Function.comp_def]

end lift
end Logrange.Rd
