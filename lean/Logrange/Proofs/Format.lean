import Logrange.Model.Format
/-! `NewFormatParser` passes every bounds check, for all format strings and every behaviour of `strings.ToLower` (C13). -/
namespace Logrange.Format
open Go Logrange Outcome

theorem index_ok {α : Type} (l : List α) (i : Nat) (h : i < l.length) : ∃ x, Go.index l i = .ok x := by
  unfold Go.index
  have : l[i]? = some l[i] := by simp [h]
  rw [this]
  exact ⟨_, rfl⟩

theorem varsTail_noPanic (lower : Bytes → Bytes) (val : Bytes) :
    (if lower val = sVars then (.ok .vars : Outcome FF)
     else if sVarsColon.isPrefixOf (lower val) ∧ 5 < val.length then (Go.sliceFrom val 5).bind fun n => .ok (.var n)
     else .err).isPanic = false := by
  split
  · rfl
  · split
    · rename_i h
      rw [sliceFrom_ok_of (by omega), bind_ok]; rfl
    · rfl

theorem fieldOf_noPanic (lower : Bytes → Bytes) (val : Bytes) : (fieldOf lower val).isPanic = false := by
  unfold fieldOf
  simp only []
  split
  · rfl
  · split
    · rename_i h
      rw [h]
      rfl
    · split
      · rfl
      · split
        · rename_i h
          obtain ⟨x, hx⟩ := index_ok val (val.length - 1) (by omega)
          rw [hx, bind_ok]
          split
          · have hb : (0 : Int) ≤ 10 ∧ (10 : Int) ≤ (val.length : Int) - 1 ∧ (val.length : Int) - 1 ≤ (val.length : Int) := by omega
            rw [slice_ok_of hb, bind_ok]; rfl
          · exact varsTail_noPanic lower val
        · exact varsTail_noPanic lower val

/-- the loop invariant: `startIdx ≤ i` and `i` is the index of the first byte of `rest` -/
theorem scan_noPanic (lower : Bytes → Bytes) (fstr : Bytes) :
    ∀ (rest : Bytes) (i state startIdx : Nat) (fields : List FF), startIdx ≤ i → i + rest.length = fstr.length →
      (scan lower fstr rest i state startIdx fields).isPanic = false
  | [], i, state, startIdx, fields, h1, h2 => by
    unfold scan
    split
    · rfl
    · split
      · rw [sliceFrom_ok_of (by omega), bind_ok]; rfl
      · rfl
  | c :: rest, i, state, startIdx, fields, h1, h2 => by
    simp only [List.length_cons] at h2
    unfold scan
    split
    · split
      · split
        · have hb : (0 : Int) ≤ (startIdx : Int) ∧ (startIdx : Int) ≤ (i : Int) ∧ (i : Int) ≤ (fstr.length : Int) := by omega
          rw [slice_ok_of hb, bind_ok, bind_ok]
          exact scan_noPanic lower fstr rest (i + 1) 1 (i + 1) _ (by omega) (by omega)
        · rw [bind_ok]
          exact scan_noPanic lower fstr rest (i + 1) 1 (i + 1) _ (by omega) (by omega)
      · exact scan_noPanic lower fstr rest (i + 1) 0 startIdx _ (by omega) (by omega)
    · split
      · split
        · exact scan_noPanic lower fstr rest (i + 1) 0 startIdx _ (by omega) (by omega)
        · rfl
      · split
        · split
          · exact scan_noPanic lower fstr rest (i + 1) 0 startIdx _ (by omega) (by omega)
          · have hb : (0 : Int) ≤ (startIdx : Int) ∧ (startIdx : Int) ≤ (i : Int) ∧ (i : Int) ≤ (fstr.length : Int) := by omega
            rw [slice_ok_of hb, bind_ok]
            refine bind_isPanic_false (fieldOf_noPanic lower _) ?_
            intro f _
            exact scan_noPanic lower fstr rest (i + 1) 0 (i + 1) _ (by omega) (by omega)
        · exact scan_noPanic lower fstr rest (i + 1) state startIdx _ (by omega) (by omega)

theorem parse_noPanic (lower : Bytes → Bytes) (fstr : Bytes) : (parse lower fstr).isPanic = false :=
  scan_noPanic lower fstr fstr 0 0 0 [] (by omega) (by omega)

end Logrange.Format
