import Logrange.Props.C07Reach
import Logrange.Model.PersistJson
/-! C07: with the repairs of F-C07-901/902 every string a reachable state persists passes through `encoding/json` unchanged. -/
namespace Logrange.Persist
open Logrange.Generated.C07 Logrange.Props.C07Reach

/-- every stored string survives `encoding/json`, and the tag lines are distinct (no duplicate object key) -/
structure StableMem (m : Mem) : Prop where
  keys : ∀ e ∈ m.tmap, sanitize e.1 = e.1
  distinct : m.tmap.Pairwise (fun a b => a.1 ≠ b.1)
  pipes : ∀ p ∈ m.pipes, sanitizePipe p.cfg = p.cfg

theorem sanitize_of_unchanged {s : Bytes} (h : changedByJson s = false) : sanitize s = s := by
  simpa [changedByJson] using h

theorem aset_append_new {β : Type} : ∀ (acc : List (Bytes × β)) (k : Bytes) (v : β), (∀ e ∈ acc, e.1 ≠ k) → aset acc k v = acc ++ [(k, v)]
  | [], _, _, _ => rfl
  | x :: r, k, v, h => by
    have hx : ¬ (x.1 == k) = true := by simpa using h x (List.mem_cons_self ..)
    simp only [aset, hx, List.cons_append]
    rw [aset_append_new r k v (fun e he => h e (List.mem_cons_of_mem _ he))]
    rfl

theorem foldl_aset_distinct : ∀ (l acc : TMap), l.Pairwise (fun a b => a.1 ≠ b.1) → (∀ a ∈ acc, ∀ b ∈ l, a.1 ≠ b.1) →
    l.foldl (fun acc e => aset acc e.1 e.2) acc = acc ++ l
  | [], acc, _, _ => by simp
  | x :: l, acc, hp, hd => by
    simp only [List.foldl_cons]
    rw [aset_append_new acc x.1 x.2 (fun e he => hd e he x (List.mem_cons_self ..))]
    rw [foldl_aset_distinct l (acc ++ [(x.1, x.2)]) (List.pairwise_cons.mp hp).2 ?_]
    · simp
    · intro a ha b hb
      rcases List.mem_append.mp ha with h1 | h1
      · exact hd a h1 b (List.mem_cons_of_mem _ hb)
      · simp only [List.mem_singleton] at h1; subst h1
        exact (List.pairwise_cons.mp hp).1 b hb

theorem dedupLast_distinct (m : TMap) (h : m.Pairwise (fun a b => a.1 ≠ b.1)) : dedupLast m = m := by
  have := foldl_aset_distinct m [] h (by intro a ha; cases ha)
  simpa [dedupLast] using this

/-- **On stable values `encoding/json`'s string treatment is invisible**: the codec the server really uses (`jsonish K`, `K`
lawful) writes what `K` writes and reads back exactly the tag index and the pipe definitions -/
theorem codec_contract_on_stable (K : Codecs) (hK : K.Laws) (m : Mem) (hs : StableMem m) :
    (jsonish K).tidx.enc m.tmap = K.tidx.enc m.tmap ∧
    (jsonish K).tidx.dec ((jsonish K).tidx.enc m.tmap) = some m.tmap ∧
    (jsonish K).pipes.enc (m.pipes.map (·.cfg)) = K.pipes.enc (m.pipes.map (·.cfg)) ∧
    (jsonish K).pipes.dec ((jsonish K).pipes.enc (m.pipes.map (·.cfg))) = some (m.pipes.map (·.cfg)) := by
  have e1 : m.tmap.map (fun e => (sanitize e.1, e.2)) = m.tmap := by
    have : ∀ e ∈ m.tmap, (fun e : TagLine × Src => (sanitize e.1, e.2)) e = id e := by
      intro e he; simp [hs.keys e he]
    rw [List.map_congr_left this, List.map_id]
  have e2 : (m.pipes.map (·.cfg)).map sanitizePipe = m.pipes.map (·.cfg) := by
    rw [List.map_map]
    apply List.map_congr_left
    intro p hp; simp [hs.pipes p hp]
  refine ⟨?_, ?_, ?_, ?_⟩
  · simp only [jsonish, e1]
  · simp only [jsonish, e1, hK.tidx.rt, Option.map_some, dedupLast_distinct _ hs.distinct]
  · simp only [jsonish, e2]
  · simp only [jsonish, e2, hK.pipes.rt]

variable {K : Codecs} {parseOk : TagLine → Bool} {s : Srv}

theorem stable_of_parts (m m' : Mem) (hs : StableMem m) (ht : m'.tmap = m.tmap) (hp : m'.pipes.map (·.cfg) = m.pipes.map (·.cfg)) :
    StableMem m' := by
  refine ⟨by rw [ht]; exact hs.keys, by rw [ht]; exact hs.distinct, ?_⟩
  intro p hp'
  have : p.cfg ∈ m.pipes.map (·.cfg) := hp ▸ List.mem_map_of_mem hp'
  obtain ⟨q, hq, e⟩ := List.mem_map.mp this
  rw [← e]; exact hs.pipes q hq

/-- an enabled operation keeps the stored strings stable (the guards of the repairs are what makes CREATE do so) -/
theorem stable_step (h1 : getOrCreateJournalRefusesInvalidUtf8 = true) (h2 : newPPipeRefusesInvalidUtf8 = true)
    (hs : StableMem s.mem) (o : Op) (hen : enabled parseOk s o = true) : StableMem (step K s o).mem := by
  cases o with
  | newPartition tags src =>
    simp only [enabled, h1, Bool.true_and, Bool.and_eq_true, Bool.not_eq_true', List.any_eq_false] at hen
    obtain ⟨⟨_, habs⟩, hst⟩ := hen
    refine ⟨?_, ?_, hs.pipes⟩
    · intro e he
      simp only [step, List.mem_append, List.mem_singleton] at he
      rcases he with he | he
      · exact hs.keys e he
      · subst he; exact sanitize_of_unchanged hst
    · simp only [step]
      apply List.pairwise_append.mpr
      refine ⟨hs.distinct, by simp, ?_⟩
      intro a ha b hb
      simp only [List.mem_singleton] at hb; subst hb
      simpa using habs a ha
  | dropPartition src =>
    refine ⟨?_, ?_, hs.pipes⟩
    · intro e he; simp only [step] at he; exact hs.keys e (List.mem_filter.mp he).1
    · simp only [step]; exact hs.distinct.sublist List.filter_sublist
  | write src pieces => exact stable_of_parts s.mem _ hs (by simp only [step]) (by simp only [step])
  | dropChunks src n => exact hs
  | createPipe p =>
    simp only [enabled, h2, Bool.true_and, Bool.not_eq_true', Bool.or_eq_false_iff] at hen
    refine ⟨hs.keys, hs.distinct, ?_⟩
    intro q hq
    simp only [step, List.mem_append, List.mem_singleton] at hq
    rcases hq with hq | hq
    · exact hs.pipes q hq
    · subst hq
      simp [sanitizePipe, sanitize_of_unchanged hen.1.1, sanitize_of_unchanged hen.1.2, sanitize_of_unchanged hen.2]
  | deletePipe n =>
    refine ⟨hs.keys, hs.distinct, ?_⟩
    intro q hq; simp only [step] at hq; exact hs.pipes q (List.mem_filter.mp hq).1
  | savePipeInfo n pm => exact stable_of_parts s.mem _ hs rfl (setPoss_cfg _ _ _)

theorem stable_recovered (d : Disk) (m : TMap) (ps : List Pipe) (m0 : Mem) (hs : StableMem m0) (hm : m = m0.tmap)
    (hp : ps = m0.pipes.map (·.cfg)) : StableMem (recovered K d m ps).mem :=
  stable_of_parts m0 _ hs (by simp [recovered, hm]) (by simp [recovered, hp, List.map_map, Function.comp_def])

theorem stable_stepEv (hK : K.Laws) (h1 : getOrCreateJournalRefusesInvalidUtf8 = true) (h2 : newPPipeRefusesInvalidUtf8 = true)
    (h : Inv K parseOk s) (hs : StableMem s.mem) (ev : Ev) (hok : ev.ok = true) : StableMem (stepEv K parseOk s ev).mem := by
  have hg : ∀ o, StableMem (gstep K parseOk s o).mem := by
    intro o
    unfold gstep
    by_cases he : enabled parseOk s o = true
    · rw [if_pos he]; exact stable_step h1 h2 hs o he
    · rw [if_neg he]; exact hs
  cases ev with
  | op o => exact hg o
  | ensurePipe p => simp only [stepEv]; split; exact hs; exact hg _
  | restart =>
    have hr := restart_spec (parseOk := parseOk) hK h
    simp only [stepEv, startDisk, afterStart, hr.1]
    rw [hr.2.1]; exact hs
  | crash =>
    have hr := crash_spec (parseOk := parseOk) hK h
    simp only [stepEv, startDisk, afterStart, hr.1]
    exact stable_recovered _ _ _ s.mem hs rfl rfl
  | crashIn o c =>
    by_cases hen : enabled parseOk s o = true
    · obtain ⟨m, ps, hm, hps, hr, _⟩ := crash_in_update hK h o c hen (by simpa [Ev.ok] using hok)
      simp only [stepEv, startDisk, hen, if_true, afterStart, hr]
      have hn := stable_step (K := K) h1 h2 hs o hen
      rcases hm with hm | hm <;> rcases hps with hps | hps
      · exact stable_recovered _ _ _ s.mem hs hm hps
      · exact stable_of_parts ⟨s.mem.tmap, [], (step K s o).mem.pipes⟩ _ ⟨hs.keys, hs.distinct, hn.pipes⟩
          (by simp [recovered, hm]) (by simp [recovered, hps, List.map_map, Function.comp_def])
      · exact stable_of_parts ⟨(step K s o).mem.tmap, [], s.mem.pipes⟩ _ ⟨hn.keys, hn.distinct, hs.pipes⟩
          (by simp [recovered, hm]) (by simp [recovered, hps, List.map_map, Function.comp_def])
      · exact stable_recovered _ _ _ (step K s o).mem hn hm hps
    · have hr := crash_spec (parseOk := parseOk) hK h
      simp [stepEv, startDisk, hen, afterStart, hr.1]
      exact stable_recovered _ _ _ s.mem hs rfl rfl
  | crashInStop c =>
    have hr := crash_in_stop (parseOk := parseOk) hK h c
    simp only [stepEv, startDisk, afterStart, hr.1]
    exact stable_recovered _ _ _ s.mem hs rfl rfl

theorem stable_run (hK : K.Laws) (h1 : getOrCreateJournalRefusesInvalidUtf8 = true) (h2 : newPPipeRefusesInvalidUtf8 = true) :
    ∀ (evs : List Ev) (s : Srv), Inv K parseOk s → StableMem s.mem → evs.all Ev.ok = true →
      StableMem (runEv K parseOk s evs).mem
  | [], _, _, hs, _ => hs
  | ev :: evs, s, h, hs, hok => by
    simp only [List.all_cons, Bool.and_eq_true] at hok
    exact stable_run hK h1 h2 evs _ (wf_step hK h ev hok.1) (stable_stepEv hK h1 h2 h hs ev hok.1) hok.2

end Logrange.Persist
