import Logrange.Translated.Kvstring
import Logrange.Model.KV
/-!
# `kvstring.SplitString` as translated from the Go source = the hand-written model `KV.splitString`

`Kvstring.SplitString` (machine-generated, fuel loop over the `Int` index `endIdx`) never panics, never runs out of
fuel, and returns exactly what the structural model `KV.splitGo` computes.
-/
namespace Logrange.Proofs.TrKvSplit
open Go Go.Sem Logrange Logrange.Translated

/-- the Go-shaped result of the model -/
def out (o : Option (List Bytes)) : List Bytes × Error :=
  match o with
  | some l => (l, false)
  | none => ([], true)

theorem take_drop_succ (str : Bytes) (s e : Nat) (hse : s ≤ e) (hlt : e < str.length) :
    (str.drop s).take (e + 1 - s) = (str.drop s).take (e - s) ++ [str[e]] := by
  have h1 : e + 1 - s = (e - s) + 1 := by omega
  have h2 : s + (e - s) = e := by omega
  rw [h1, List.take_add_one, List.getElem?_drop, h2, List.getElem?_eq_getElem hlt]
  rfl

theorem natCast_succ (e : Nat) : (e : Int) + 1 = ((e + 1 : Nat) : Int) := by omega

theorem eq_ne_cm : (KV.CM == KV.EQ) = false := by decide

/-- one unfolding of the model on a non-empty rest -/
theorem splitGo_cons (c : UInt8) (rest : Bytes) (s : KV.SS) :
    KV.splitGo (c :: rest) s =
      if c == Quote.DQ then KV.splitGo rest { s with inStr := !s.inStr, cur := c :: s.cur }
      else if c == Quote.BS && s.inStr then
        match rest with
        | [] => none
        | d :: rest' => KV.splitGo rest' { s with cur := d :: c :: s.cur }
      else if (c == KV.EQ || c == KV.CM) && !s.inStr then
        if (c == KV.EQ) != s.expKV then none
        else KV.splitGo rest { s with expKV := !s.expKV, out := s.cur.reverse :: s.out, cur := [] }
      else KV.splitGo rest { s with cur := c :: s.cur } := by
  rw [KV.splitGo.eq_def]
  rfl

theorem splitGo_nil (s : KV.SS) :
    KV.splitGo [] s = if s.inStr then none else some ((s.cur.reverse :: s.out).reverse) := by
  rw [KV.splitGo.eq_def]

theorem loop_eq (str : Bytes) (fuel : Nat) :
    ∀ (e s : Nat) (st : KV.SS) (buf : List Bytes) (inStr : Bool) (expCC : UInt8),
      s ≤ e → e ≤ str.length → str.length - e < fuel →
      st.cur.reverse = (str.drop s).take (e - s) →
      buf = st.out.reverse → inStr = st.inStr → expCC = (if st.expKV then KV.EQ else KV.CM) →
      Kvstring.SplitString_loop1 str KV.EQ KV.CM fuel buf inStr expCC (s : Int) (e : Int)
        = .ok (out (KV.splitGo (str.drop e) st)) := by
  induction fuel with
  | zero => intro e s st buf inStr expCC _ _ hf; omega
  | succ f ih =>
    intro e s st buf inStr expCC hse hel hf hcur hbuf hin hexp
    rw [Kvstring.SplitString_loop1]
    by_cases hlt : e < str.length
    · have hg : decide ((e : Int) < len str) = true := by
        simp only [len, decide_eq_true_eq]; omega
      simp only [hg, if_true]
      rw [index_ok str e hlt]
      simp only [Sem.bind]
      rw [List.drop_eq_getElem_cons hlt, splitGo_cons]
      have hcur1 := take_drop_succ str s e hse hlt
      generalize str[e] = c at hcur1 ⊢
      simp only [Quote.DQ, Quote.BS]
      by_cases h1 : (c == (34 : UInt8)) = true
      · -- a quote toggles `inStr`
        simp only [h1, if_true]
        rw [natCast_succ]
        apply ih (e + 1) s _ _ _ _ (by omega) (by omega) (by omega)
        · simp only [List.reverse_cons, hcur, hcur1]
        · exact hbuf
        · simp only [hin]
        · exact hexp
      · simp only [h1, if_false, Bool.false_eq_true]
        by_cases h2 : ((c == (92 : UInt8)) && inStr) = true
        · -- backslash inside a string: two bytes
          have h2' : ((c == (92 : UInt8)) && st.inStr) = true := by rw [← hin]; exact h2
          simp only [h2, h2', if_true]
          by_cases hlt2 : e + 1 < str.length
          · rw [List.drop_eq_getElem_cons hlt2]
            simp only []
            rw [natCast_succ, natCast_succ]
            apply ih (e + 1 + 1) s _ _ _ _ (by omega) (by omega) (by omega)
            · have := take_drop_succ str s (e + 1) (by omega) hlt2
              simp only [List.reverse_cons, hcur, hcur1, this, List.append_assoc]
            · exact hbuf
            · exact hin
            · exact hexp
          · -- the backslash is the last byte: `endIdx = len+1`, the loop ends inside the string
            have hnil : List.drop (e + 1) str = [] := List.drop_eq_nil_of_le (by omega)
            rw [hnil]
            simp only [out]
            cases f with
            | zero => omega
            | succ f' =>
              rw [Kvstring.SplitString_loop1]
              have hg2 : decide ((e : Int) + 1 + 1 < len str) = false := by
                simp only [len, decide_eq_false_iff_not]; omega
              have hi : inStr = true := by
                simp only [Bool.and_eq_true] at h2; exact h2.2
              simp only [hg2, Kvstring.SplitString_after1, hi, if_true, Bool.false_eq_true, if_false]
        · have h2' : ¬ ((c == (92 : UInt8)) && st.inStr) = true := by rw [← hin]; exact h2
          simp only [h2, h2', Bool.false_eq_true, if_false]
          by_cases h3 : (((c == KV.EQ) || (c == KV.CM)) && !inStr) = true
          · -- a separator outside a string
            have h3' : (((c == KV.EQ) || (c == KV.CM)) && !st.inStr) = true := by rw [← hin]; exact h3
            simp only [h3, h3', if_true]
            simp only [Bool.and_eq_true, Bool.or_eq_true, beq_iff_eq] at h3
            by_cases h4 : (c != expCC) = true
            · have h4' : ((c == KV.EQ) != st.expKV) = true := by
                rcases h3.1 with hc | hc <;> cases hk : st.expKV <;>
                  simp only [hc, hexp, hk] at h4 ⊢ <;> revert h4 <;> decide
              simp only [h4, h4', if_true, out]
            · have h4' : ¬ ((c == KV.EQ) != st.expKV) = true := by
                rcases h3.1 with hc | hc <;> cases hk : st.expKV <;>
                  simp only [hc, hexp, hk] at h4 ⊢ <;> revert h4 <;> decide
              simp only [h4, h4', Bool.false_eq_true, if_false]
              rw [slice_ok str s e hse (by omega)]
              dsimp only [Sem.bind]
              rw [natCast_succ]
              apply ih (e + 1) (e + 1) _ _ _ _ (by omega) (by omega) (by omega)
              · simp
              · simp only [List.reverse_cons, hbuf, hcur]
              · exact hin
              · cases hk : st.expKV <;> simp [hexp, hk, eq_ne_cm]
          · have h3' : ¬ (((c == KV.EQ) || (c == KV.CM)) && !st.inStr) = true := by rw [← hin]; exact h3
            simp only [h3, h3', Bool.false_eq_true, if_false]
            rw [natCast_succ]
            apply ih (e + 1) s _ _ _ _ (by omega) (by omega) (by omega)
            · simp only [List.reverse_cons, hcur, hcur1]
            · exact hbuf
            · exact hin
            · exact hexp
    · have he : e = str.length := by omega
      have hg : decide ((e : Int) < len str) = false := by
        simp only [len, decide_eq_false_iff_not]; omega
      simp only [hg, Bool.false_eq_true, if_false]
      rw [List.drop_eq_nil_of_le (by omega), splitGo_nil, Kvstring.SplitString_after1]
      cases hk : st.inStr
      · rw [slice_ok str s e hse hel]
        simp only [hin, hk, Sem.bind, Bool.false_eq_true, if_false, out, hbuf, hcur, List.reverse_cons]
      · simp only [hin, hk, if_true, out]

theorem splitString_eq (str : Bytes) :
    Kvstring.SplitString str KV.EQ KV.CM [] =
      .ok (match KV.splitString str with | some l => (l, false) | none => ([], true)) := by
  have h := loop_eq str (dist 0 (len str)) 0 0 {} [] false KV.EQ (Nat.le_refl _) (Nat.zero_le _)
    (by simp only [dist, len]; omega) (by simp) rfl rfl rfl
  simpa only [Kvstring.SplitString, KV.splitString, out, List.drop_zero, Int.natCast_zero, Int.cast_ofNat_Int] using h

end Logrange.Proofs.TrKvSplit
