import Logrange.Model.Forwarder
/-! Invariant of the forwarder worker LTS (code configuration: position set after the sink accepted, rejected
batch retried). -/
namespace Logrange.Forwarder

def codeCfg : Cfg := { setAfterAccept := true, retryRejected := true }

structure FInv (s : S) : Prop where
  descPos : s.desc = s.pos
  startLe : s.sessionStart ≤ s.pos
  posLe : s.pos ≤ s.n
  sessEq : s.sess = List.range' s.sessionStart (s.pos - s.sessionStart)
  perLe : s.persisted ≤ s.pos
  cover : ∀ i, s.start0 ≤ i → i < s.high → i ∈ s.all
  posHigh : s.pos ≤ s.high
  highLe : s.high ≤ s.n
  s0Per : s.start0 ≤ s.persisted
  s0Sess : s.start0 ≤ s.sessionStart
  allLt : ∀ i ∈ s.all, s.start0 ≤ i ∧ i < s.high
  accEq : s.pos = s.persisted + s.accSince

theorem finv_init (n start : Nat) (h : start ≤ n) : FInv (init n start) := by
  constructor <;> simp [init, h]

theorem finv_restart (s : S) (h : FInv s) : FInv (restart s) := by
  obtain ⟨a1, a2, a3, a4, a5, a6, a7, a8, a9, a10, a11, a12⟩ := h
  constructor <;> simp only [restart]
  · exact Nat.le_refl _
  · omega
  · simp
  · exact Nat.le_refl _
  · exact a6
  · omega
  · exact a8
  · exact a9
  · exact a9
  · exact a11
  · rfl

theorem finv_step (s : S) (l : L) (h : FInv s) : FInv (step codeCfg s l) := by
  cases l with
  | qTransport => exact h
  | qServer => exact h
  | qEmpty => exact h
  | persist =>
    obtain ⟨a1, a2, a3, a4, a5, a6, a7, a8, a9, a10, a11, a12⟩ := h
    exact ⟨a1, a2, a3, a4, by simp only [step]; omega, a6, a7, a8, by simp only [step]; omega, a10, a11,
      by simp only [step]; omega⟩
  | stop =>
    simp only [step]
    apply finv_restart
    obtain ⟨a1, a2, a3, a4, a5, a6, a7, a8, a9, a10, a11, a12⟩ := h
    exact ⟨a1, a2, a3, a4, by simp only []; omega, a6, a7, a8, by simp only []; omega, a10, a11, by simp only []; omega⟩
  | graceful =>
    simp only [step]
    apply finv_restart
    obtain ⟨a1, a2, a3, a4, a5, a6, a7, a8, a9, a10, a11, a12⟩ := h
    exact ⟨a1, a2, a3, a4, by simp only []; omega, a6, a7, a8, by simp only []; omega, a10, a11, by simp only []; omega⟩
  | crash => simp only [step]; exact finv_restart s h
  | grow k =>
    obtain ⟨a1, a2, a3, a4, a5, a6, a7, a8, a9, a10, a11, a12⟩ := h
    exact ⟨a1, a2, by simp only [step]; omega, a4, a5, a6, a7, by simp only [step]; omega, a9, a10, a11, a12⟩
  | page k acc =>
    simp only [step]
    by_cases hk : min k (s.n - s.pos) = 0
    · simp only [hk, if_true]; exact h
    · simp only [hk, if_false]
      cases acc with
      | false => simp only [codeCfg, Bool.false_eq_true, if_false, if_true]; exact h
      | true =>
        simp only [if_true]
        obtain ⟨a1, a2, a3, a4, a5, a6, a7, a8, a9, a10, a11, a12⟩ := h
        have hk' : min k (s.n - s.pos) ≤ s.n - s.pos := Nat.min_le_right _ _
        constructor <;> simp only []
        · omega
        · omega
        · rw [a4]
          generalize min k (s.n - s.pos) = m
          obtain ⟨d, hd⟩ : ∃ d, s.pos = s.sessionStart + d := ⟨s.pos - s.sessionStart, by omega⟩
          rw [hd]
          have e1 : s.sessionStart + d - s.sessionStart = d := by omega
          have e2 : s.sessionStart + d + m - s.sessionStart = d + m := by omega
          rw [e1, e2, List.range'_append_1]
        · omega
        · intro i h1 h2
          simp only [List.mem_append, List.mem_range'_1]
          by_cases hi : i < s.high
          · exact Or.inl (a6 i h1 hi)
          · right; omega
        · omega
        · omega
        · exact a9
        · exact a10
        · intro i hi
          simp only [List.mem_append, List.mem_range'_1] at hi
          rcases hi with hi | hi
          · have := a11 i hi; omega
          · omega
        · omega
  | crashAfterAccept k =>
    simp only [step]
    apply finv_restart
    obtain ⟨a1, a2, a3, a4, a5, a6, a7, a8, a9, a10, a11, a12⟩ := h
    have hk' : min k (s.n - s.pos) ≤ s.n - s.pos := Nat.min_le_right _ _
    refine ⟨a1, a2, a3, a4, a5, ?_, by simp only []; omega, by simp only []; omega, a9, a10, ?_, a12⟩
    · intro i h1 h2
      simp only [List.mem_append, List.mem_range'_1]
      by_cases hi : i < s.high
      · exact Or.inl (a6 i h1 hi)
      · right; simp only [] at h2; omega
    · intro i hi
      simp only [List.mem_append, List.mem_range'_1] at hi
      rcases hi with hi | hi
      · have := a11 i hi; simp only []; omega
      · simp only []; omega

theorem finv_run : ∀ (tr : List L) (s : S), FInv s → FInv (run codeCfg s tr)
  | [], s, h => by simpa [run] using h
  | l :: ls, s, h => by simp only [run]; exact finv_run ls _ (finv_step s l h)

theorem step_start0 (c : Cfg) (s : S) (l : L) : (step c s l).start0 = s.start0 := by
  cases l <;> simp only [step, restart] <;> (repeat' split) <;> rfl

theorem run_start0 (c : Cfg) : ∀ (tr : List L) (s : S), (run c s tr).start0 = s.start0
  | [], s => rfl
  | l :: ls, s => by simp only [run]; rw [run_start0 c ls, step_start0]

/-! ## quiet periods: queries answer, the sink accepts -/

/-- `m` iterations in which the query answers a page of up to `k` events and the sink accepts it -/
theorem run_pages (c : Cfg) (k : Nat) : ∀ (m : Nat) (s : S), s.pos ≤ s.n →
    (run c s (List.replicate m (.page k true))).pos = min (s.pos + m * k) s.n ∧
    (run c s (List.replicate m (.page k true))).n = s.n
  | 0, s, h => by simp [run]; exact (Nat.min_eq_left h).symm
  | m+1, s, h => by
    simp only [List.replicate_succ, run]
    have hstep : (step c s (.page k true)).pos = min (s.pos + k) s.n ∧ (step c s (.page k true)).n = s.n := by
      obtain ⟨d, hd⟩ : ∃ d, s.n = s.pos + d := ⟨s.n - s.pos, by omega⟩
      simp only [step, hd, Nat.add_sub_cancel_left]
      by_cases hk : min k d = 0
      · rw [if_pos hk]
        refine ⟨?_, by first | rfl | exact hd | simp [hd]⟩
        have : k = 0 ∨ d = 0 := by
          rw [Nat.min_def] at hk; split at hk <;> omega
        rw [Nat.min_def]; split <;> omega
      · rw [if_neg hk]
        simp only [if_true]
        refine ⟨?_, by first | rfl | exact hd | simp [hd]⟩
        rw [Nat.min_def, Nat.min_def]
        split <;> split <;> omega
    have ih := run_pages c k m (step c s (.page k true)) (by rw [hstep.1, hstep.2]; omega)
    rw [ih.1, ih.2, hstep.1, hstep.2]
    refine ⟨?_, rfl⟩
    rw [Nat.add_mul, Nat.one_mul]
    simp only [Nat.min_def]
    repeat' split
    all_goals omega

end Logrange.Forwarder
