import Logrange.Model.Forwarder
/-! Invariant of the forwarder worker LTS (code configuration: position set after the sink accepted, rejected
batch retried). -/
namespace Logrange.Forwarder

def codeCfg : Cfg := { setAfterAccept := true, retryRejected := true }

structure FInv (s : S) : Prop where
  descPos : s.desc = s.pos
  startLe : s.sessionStart ≤ s.pos
  posLe : s.pos ≤ s.n
  sessEq : s.sess = List.range' s.sessionStart (s.pos - s.sessionStart)
  perLe : s.persisted ≤ s.pos
  cover : ∀ i, s.start0 ≤ i → i < s.high → i ∈ s.all
  posHigh : s.pos ≤ s.high
  highLe : s.high ≤ s.n
  s0Per : s.start0 ≤ s.persisted
  s0Sess : s.start0 ≤ s.sessionStart
  allLt : ∀ i ∈ s.all, s.start0 ≤ i ∧ i < s.high

theorem finv_init (n start : Nat) (h : start ≤ n) : FInv (init n start) := by
  constructor <;> simp [init, h]

theorem finv_restart (s : S) (h : FInv s) : FInv (restart s) := by
  obtain ⟨a1, a2, a3, a4, a5, a6, a7, a8, a9, a10, a11⟩ := h
  constructor <;> simp only [restart]
  · exact Nat.le_refl _
  · omega
  · simp
  · exact Nat.le_refl _
  · exact a6
  · omega
  · exact a8
  · exact a9
  · exact a9
  · exact a11

theorem finv_step (s : S) (l : L) (h : FInv s) : FInv (step codeCfg s l) := by
  cases l with
  | qTransport => exact h
  | qServer => exact h
  | qEmpty => exact h
  | persist =>
    obtain ⟨a1, a2, a3, a4, a5, a6, a7, a8, a9, a10, a11⟩ := h
    exact ⟨a1, a2, a3, a4, by simp only [step]; omega, a6, a7, a8, by simp only [step]; omega, a10, a11⟩
  | stop =>
    simp only [step]
    apply finv_restart
    obtain ⟨a1, a2, a3, a4, a5, a6, a7, a8, a9, a10, a11⟩ := h
    exact ⟨a1, a2, a3, a4, by simp only []; omega, a6, a7, a8, by simp only []; omega, a10, a11⟩
  | graceful =>
    simp only [step]
    apply finv_restart
    obtain ⟨a1, a2, a3, a4, a5, a6, a7, a8, a9, a10, a11⟩ := h
    exact ⟨a1, a2, a3, a4, by simp only []; omega, a6, a7, a8, by simp only []; omega, a10, a11⟩
  | crash => simp only [step]; exact finv_restart s h
  | grow k =>
    obtain ⟨a1, a2, a3, a4, a5, a6, a7, a8, a9, a10, a11⟩ := h
    exact ⟨a1, a2, by simp only [step]; omega, a4, a5, a6, a7, by simp only [step]; omega, a9, a10, a11⟩
  | page k acc =>
    simp only [step]
    by_cases hk : min k (s.n - s.pos) = 0
    · simp only [hk, if_true]; exact h
    · simp only [hk, if_false]
      cases acc with
      | false => simp only [codeCfg, Bool.false_eq_true, if_false, if_true]; exact h
      | true =>
        simp only [if_true]
        obtain ⟨a1, a2, a3, a4, a5, a6, a7, a8, a9, a10, a11⟩ := h
        have hk' : min k (s.n - s.pos) ≤ s.n - s.pos := Nat.min_le_right _ _
        constructor <;> simp only []
        · omega
        · omega
        · rw [a4]
          generalize min k (s.n - s.pos) = m
          obtain ⟨d, hd⟩ : ∃ d, s.pos = s.sessionStart + d := ⟨s.pos - s.sessionStart, by omega⟩
          rw [hd]
          have e1 : s.sessionStart + d - s.sessionStart = d := by omega
          have e2 : s.sessionStart + d + m - s.sessionStart = d + m := by omega
          rw [e1, e2, List.range'_append_1]
        · omega
        · intro i h1 h2
          simp only [List.mem_append, List.mem_range'_1]
          by_cases hi : i < s.high
          · exact Or.inl (a6 i h1 hi)
          · right; omega
        · omega
        · omega
        · exact a9
        · exact a10
        · intro i hi
          simp only [List.mem_append, List.mem_range'_1] at hi
          rcases hi with hi | hi
          · have := a11 i hi; omega
          · omega

theorem finv_run : ∀ (tr : List L) (s : S), FInv s → FInv (run codeCfg s tr)
  | [], s, h => by simpa [run] using h
  | l :: ls, s, h => by simp only [run]; exact finv_run ls _ (finv_step s l h)

theorem step_start0 (c : Cfg) (s : S) (l : L) : (step c s l).start0 = s.start0 := by
  cases l <;> simp only [step, restart] <;> (repeat' split) <;> rfl

theorem run_start0 (c : Cfg) : ∀ (tr : List L) (s : S), (run c s tr).start0 = s.start0
  | [], s => rfl
  | l :: ls, s => by simp only [run]; rw [run_start0 c ls, step_start0]

end Logrange.Forwarder
