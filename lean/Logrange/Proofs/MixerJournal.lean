import Logrange.Proofs.Mixer
import Logrange.Proofs.RdIterFwd
import Logrange.Proofs.RdIterBwd
/-!
# The journal iterator model is a lawful source of the mixer (C04 on real partitions)

`JSrc` is what `newCursor` makes of one partition: `LogEventIterator{tags, it}` over the library's `journal.JIterator`
(`Logrange.Rd.It`, model and proofs of C03/C16: `Model/RdJournal.lean`, `Model/RdJIter.lean`, `Proofs/RdIterFwd.lean`,
`Proofs/RdIterBwd.lean` — imported, not edited). The journal value `j` is part of the source: the store is quiescent while
the cursor reads (appends between calls are C03's `grows`).

`instLawfulJSrc` discharges the contract `LawfulSource` from `getFwd`/`nextFwd`/`release_keeps` (forward) and
`bw_getBwd_bounded`/`bw_nextBwd_bounded` (backward). The backward lemmas need `PosIds j` (chunk ids are positive: they are
time-derived) and the chunk-size bound `bw_ChunkBound j` (at most 2³² records in a chunk; the real counter is a `uint32`) —
without the bound the backward statements are false (`bw_getBwdSpec_false`). Because the contract is one for both
directions, the two hypotheses sit in `JSrc.wf`; the forward proofs do not use them.
-/
namespace Logrange.Mixer
open Logrange.Rd

/-- `LogEventIterator{tags, it}` over a `journal.JIterator` on journal `j` -/
structure JSrc where
  tags : Nat
  j : Journal
  it : Rd.It := {}

instance : Inhabited JSrc := ⟨⟨0, [], {}⟩⟩

namespace JSrc

/-- the `LogEvent` of a stored record, under the partition's tag line (`lbl` is the payload identity) -/
def ev (s : JSrc) (r : Rd.Rec) : Ev := ⟨r.ts, r.lbl, s.tags⟩

/-- `LogEventIterator.Get`: the record of the journal iterator, unmarshalled, with the tag line -/
def get (s : JSrc) : JSrc × Option Ev := ({ s with it := (Rd.get s.j s.it).1 }, (Rd.get s.j s.it).2.map s.ev)
def next (s : JSrc) : JSrc := { s with it := Rd.next s.j s.it }
def release (s : JSrc) : JSrc := { s with it := Rd.release s.it }
def setBackward (bk : Bool) (s : JSrc) : JSrc := { s with it := Rd.setBackward s.it bk }

instance : Source JSrc := ⟨get, next, release, setBackward⟩

/-- everything the partition holds, in stored order, as events under its tag line -/
def all (s : JSrc) : List Ev := (flat s.j).map s.ev

/-- what reading the partition alone delivers from where its iterator stands: forward the records from the flat index on,
backward the `bCount` records at or before the position, newest first -/
def view (s : JSrc) : List Ev :=
  if s.it.bkwd then (((flat s.j).take (bCount s.j s.it)).reverse).map s.ev
  else ((flat s.j).drop (fIdx s.j s.it)).map s.ev

def wf (s : JSrc) : Prop := Sorted s.j ∧ PosIds s.j ∧ bw_ChunkBound s.j ∧ WF s.j s.it

theorem head_rev_take {α : Type} (l : List α) (k : Nat) (hk : k < l.length) :
    ((l.take (k+1)).reverse).head? = l[k]? := by
  rw [List.head?_reverse, List.getLast?_eq_getElem?]
  simp [List.length_take, Nat.min_eq_left (Nat.succ_le_of_lt hk)]

theorem tail_rev_take {α : Type} (l : List α) (k : Nat) (hk : k < l.length) :
    ((l.take (k+1)).reverse).tail = (l.take k).reverse := by
  rw [List.tail_reverse, List.dropLast_eq_take, List.take_take, List.length_take]
  congr 2; omega

theorem bCount_release (j : Journal) (it : Rd.It) : bCount j (Rd.release it) = bCount j it := by
  obtain ⟨cid, idx, ci, bkwd⟩ := it
  cases ci <;> simp [Rd.release, bCount]

theorem bCount_le (j : Journal) (it : Rd.It) : bCount j it ≤ (flat j).length := by
  unfold bCount; split <;> exact flatIdx_le _ _

theorem WF_setBackward (j : Journal) (it : Rd.It) (b : Bool) (h : WF j it) : WF j (Rd.setBackward it b) := by
  obtain ⟨cid, idx, ci, bkwd⟩ := it
  cases ci <;> simpa [Rd.setBackward, WF] using h

theorem view_of (s : JSrc) (it' : Rd.It) :
    ({ s with it := it' } : JSrc).view =
      if it'.bkwd then (((flat s.j).take (bCount s.j it')).reverse).map s.ev
      else ((flat s.j).drop (fIdx s.j it')).map s.ev := rfl

theorem get_spec (s : JSrc) (h : s.wf) :
    s.get.2 = s.view.head? ∧ s.get.1.view = s.view ∧ s.get.1.wf ∧ s.get.1.it.bkwd = s.it.bkwd := by
  obtain ⟨hs, hp, hb, hw⟩ := h
  simp only [get, view_of]
  cases hbk : s.it.bkwd
  · obtain ⟨g1, g2, g3, g4, _⟩ := getFwd s.j s.it hs hw hbk
    refine ⟨?_, ?_, ⟨hs, hp, hb, g2⟩, g3⟩
    · simp only [view, hbk, Bool.false_eq_true, if_false, List.head?_map, List.head?_drop, g1]
    · simp only [view, hbk, g3, Bool.false_eq_true, if_false, g4]
  · obtain ⟨g1, g2, g3, g4, _⟩ := bw_getBwd_bounded s.j s.it hs hp hb hw hbk
    refine ⟨?_, ?_, ⟨hs, hp, hb, g2⟩, g3⟩
    · simp only [view, hbk, if_true, List.head?_map, g1]
      have hle := bCount_le s.j s.it
      cases hc : bCount s.j s.it with
      | zero => simp
      | succ k =>
        rw [hc] at hle
        rw [head_rev_take _ k (by omega)]
        simp
    · simp only [view, hbk, g3, if_true, g4]

theorem next_spec (s : JSrc) (h : s.wf) :
    s.next.view = s.view.tail ∧ s.next.wf ∧ s.next.it.bkwd = s.it.bkwd := by
  obtain ⟨hs, hp, hb, hw⟩ := h
  simp only [next, view_of]
  cases hbk : s.it.bkwd
  · obtain ⟨n1, n2, _, n4⟩ := nextFwd s.j s.it hs hw hbk
    refine ⟨?_, ⟨hs, hp, hb, n1⟩, n2⟩
    simp only [view, hbk, n2, Bool.false_eq_true, if_false, n4, ← List.map_tail, List.tail_drop]
    congr 1
    by_cases hlt : fIdx s.j s.it + 1 ≤ (flat s.j).length
    · rw [Nat.min_eq_left hlt]
    · rw [Nat.min_eq_right (by omega), List.drop_eq_nil_of_le (Nat.le_refl _), List.drop_eq_nil_of_le (by omega)]
  · obtain ⟨n1, n2, n3⟩ := bw_nextBwd_bounded s.j s.it hs hp hb hw hbk
    refine ⟨?_, ⟨hs, hp, hb, n1⟩, n2⟩
    simp only [view, hbk, n2, if_true, n3, ← List.map_tail]
    congr 1
    have hle := bCount_le s.j s.it
    cases hc : bCount s.j s.it with
    | zero => simp
    | succ k =>
      rw [hc] at hle
      rw [tail_rev_take _ k (by omega)]
      simp

theorem release_spec (s : JSrc) (h : s.wf) :
    s.release.view = s.view ∧ s.release.wf ∧ s.release.it.bkwd = s.it.bkwd := by
  obtain ⟨hs, hp, hb, hw⟩ := h
  obtain ⟨r1, _, r3, r4, _⟩ := release_keeps (j := s.j) s.it
  simp only [release, view_of]
  refine ⟨?_, ⟨hs, hp, hb, r4 hw⟩, r3⟩
  simp only [view, r3, fIdx, r1, bCount_release]

instance instLawfulJSrc : LawfulSource JSrc where
  view := view
  dir s := s.it.bkwd
  wf := wf
  settled _ := True          -- `JIterator.Next` starts with a `Get` of its own
  get_spec s h := by
    obtain ⟨a, b, c, d⟩ := get_spec s h
    exact ⟨a, b, c, d, trivial⟩
  next_spec s h _ := next_spec s h
  release_spec s h := by
    obtain ⟨a, b, c⟩ := release_spec s h
    exact ⟨a, b, c, fun _ => trivial⟩
  setBackward_spec bk s h := ⟨⟨h.1, h.2.1, h.2.2.1, WF_setBackward _ _ _ h.2.2.2⟩, rfl⟩

/-! ## fresh iterators: at the head, and at the tail switched backward -/

theorem flatIdx_zero (j : Journal) (hp : PosIds j) : flatIdx j ⟨0, 0⟩ = 0 := by
  induction j with
  | nil => rfl
  | cons c r ih =>
    have h0 : 0 < c.id := hp c (by simp)
    have : PosIds r := fun x hx => hp x (by simp [hx])
    simp only [flatIdx, ih this]
    have h1 : ¬ c.id < 0 := by omega
    have h2 : ¬ c.id = 0 := by omega
    simp [h1, h2]

theorem flatIdx_beyond (j : Journal) (cid idx : Nat) (h : ∀ c ∈ j, c.id < cid) : flatIdx j ⟨cid, idx⟩ = (flat j).length := by
  induction j with
  | nil => rfl
  | cons c r ih =>
    have h0 : c.id < cid := h c (by simp)
    simp only [flatIdx, ih (fun x hx => h x (by simp [hx])), h0, if_true, flat_length_cons]

/-- a new cursor's iterator (`SetPos` of the zero position: "head"): the whole partition is still to come -/
theorem view_head (tags : Nat) (j : Journal) (hp : PosIds j) : (⟨tags, j, {}⟩ : JSrc).view = (⟨tags, j, {}⟩ : JSrc).all := by
  simp [view, all, fIdx, effPos, Rd.It.pos, flatIdx_zero j hp]

/-- an iterator placed behind every chunk (`tail`: chunk id and index all ones) and switched backward: the whole partition,
newest first -/
theorem view_tail_backward (tags : Nat) (j : Journal) (cid idx : Nat) (h : ∀ c ∈ j, c.id < cid) :
    (setBackward true (⟨tags, j, { cid := cid, idx := idx }⟩ : JSrc)).view =
      (⟨tags, j, {}⟩ : JSrc).all.reverse := by
  have hb : bCount j { cid := cid, idx := idx, bkwd := true } = (flat j).length := by
    simp [bCount, flatIdx_beyond j cid (idx + 1) h]
  simp only [setBackward, Rd.setBackward, view, all, hb, if_true, List.take_length, List.map_reverse]
  rfl

theorem flatMap_congr' {α β : Type} {l : List α} {f g : α → List β} (h : ∀ a ∈ l, f a = g a) :
    l.flatMap f = l.flatMap g := by
  induction l with
  | nil => rfl
  | cons x xs ih =>
    simp only [List.flatMap_cons]
    rw [h x (by simp), ih (fun a ha => h a (by simp [ha]))]

end JSrc
end Logrange.Mixer
