import Logrange.Proofs.Truncate
/-! TRUNCATE of one partition under a concurrent writer: whatever the writer did between the snapshot and the
deletion, exactly the chosen number of OLDEST WHOLE chunks of the journal as it is then go. -/
namespace Logrange.Truncate

theorem grown_length {snap now : List Chunk} (h : GrownFrom snap now) : snap.length ≤ now.length := by
  induction h with
  | nil extra => simp
  | cons c c' rest now' _ _ _ _ ih => simp only [List.length_cons]; omega

theorem grown_id {snap now : List Chunk} (h : GrownFrom snap now) :
    ∀ i, i < snap.length → (now.getD i default).id = (snap.getD i default).id := by
  induction h with
  | nil extra => intro i hi; simp at hi
  | cons c c' rest now' hid _ _ _ ih =>
    intro i hi
    cases i with
    | zero => simpa using hid
    | succ j =>
      simp only [List.getD_cons_succ]
      exact ih j (by simp only [List.length_cons] at hi; omega)

/-- sizes only grow, position by position from the old end: what is left behind any cut is at least what the
snapshot showed -/
theorem grown_psize_drop {snap now : List Chunk} (h : GrownFrom snap now) :
    ∀ i, psize (snap.drop i) ≤ psize (now.drop i) := by
  induction h with
  | nil extra => intro i; simp [psize]
  | cons c c' rest now' _ hsz _ _ ih =>
    intro i
    cases i with
    | zero =>
      simp only [List.drop_zero, psize_cons]
      have := ih 0
      simp only [List.drop_zero] at this
      omega
    | succ j => simpa using ih j

/-- the chunks of the snapshot other than its last one are unchanged -/
theorem grown_take {snap now : List Chunk} (h : GrownFrom snap now) :
    ∀ i, i < snap.length → now.take i = snap.take i := by
  induction h with
  | nil extra => intro i hi; simp at hi
  | cons c c' rest now' _ _ hlast _ ih =>
    intro i hi
    cases i with
    | zero => simp
    | succ j =>
      simp only [List.length_cons] at hi
      have hne : rest ≠ [] := by intro e; subst e; simp at hi
      rw [hlast hne]
      simp only [List.take_succ_cons]
      rw [ih j (by omega)]

theorem truncateAt_eq (strict : Bool) (p : Params) (snap now : List Chunk) (hg : GrownFrom snap now) (hs : Ascending now) :
    truncateAt strict p snap now = if p.dryRun = true then now else now.drop (choose strict p snap).n := by
  unfold truncateAt
  have hle := choose_n_le strict p snap
  have hlen := grown_length hg
  by_cases h : (choose strict p snap).n = 0 ∨ p.dryRun = true
  · simp only [h, if_true]
    by_cases hd : p.dryRun = true
    · simp [hd]
    · rcases h with h | h
      · simp [hd, h]
      · exact absurd h hd
  · simp only [h, if_false]
    have hn : 0 < (choose strict p snap).n := by omega
    have hd : ¬ p.dryRun = true := fun e => h (Or.inr e)
    simp only [hd, if_false]
    rw [← grown_id hg ((choose strict p snap).n - 1) (by omega)]
    exact deleteUpTo_sorted now _ hs hn (by omega)

end Logrange.Truncate
