import Logrange.Model.RdQueryLoop
/-!
Lemmas for C03: position text round trip (`Pos.String` / `ParsePos`), generic in the widths.
-/
namespace Logrange.Rd

theorem hexVal_hexDigit : ∀ d : Fin 16, hexVal? (hexDigit d.val) = some d.val := by decide

theorem hexN_length (w n : Nat) : (hexN w n).length = w := by
  induction w generalizing n with
  | zero => rfl
  | succ w ih => simp [hexN, ih]

/-- the fold of `parseHex` started at `some a` -/
def parseHexFrom (a : Option Nat) (s : List Char) : Option Nat := s.foldl hexStep a

theorem parseHexFrom_hexN (w n a : Nat) :
    parseHexFrom (some a) (hexN w n) = some (a * 16 ^ w + n % 16 ^ w) := by
  induction w generalizing n a with
  | zero => simp [hexN, parseHexFrom, Nat.mod_one]
  | succ w ih =>
    have hd : hexVal? (hexDigit (n % 16)) = some (n % 16) := by
      have := hexVal_hexDigit ⟨n % 16, Nat.mod_lt _ (by decide)⟩
      simpa using this
    unfold parseHexFrom at ih ⊢
    rw [hexN, List.foldl_append, ih (n / 16) a]
    simp only [List.foldl_cons, List.foldl_nil, hexStep, hd]
    congr 1
    have h1 : n % 16 ^ (w + 1) = 16 * (n / 16 % 16 ^ w) + n % 16 := by
      rw [Nat.pow_succ, Nat.mul_comm (16 ^ w) 16, Nat.mod_mul]
      omega
    rw [h1, Nat.pow_succ]
    have : a * (16 ^ w * 16) = a * 16 ^ w * 16 := by rw [Nat.mul_assoc]
    omega

theorem parseHex_hexN (w n : Nat) (h : n < 16 ^ w) : parseHex (hexN w n) = some n := by
  have := parseHexFrom_hexN w n 0
  unfold parseHexFrom at this
  unfold parseHex
  rw [this, Nat.mod_eq_of_lt h]; simp

theorem parsePosW_showPosW (wc wi : Nat) (p : Pos) (hw : 0 < wc + wi) (hc : p.cid < 16 ^ wc) (hi : p.idx < 16 ^ wi) :
    parsePosW wc wi (showPosW wc wi p) = some p := by
  unfold parsePosW showPosW
  have hl : (hexN wc p.cid ++ hexN wi p.idx).length = wc + wi := by simp [hexN_length]
  have h0 : ¬ (hexN wc p.cid ++ hexN wi p.idx).length = 0 := by omega
  simp only [h0, hl, if_false, ne_eq, not_true_eq_false]
  have ht : (hexN wc p.cid ++ hexN wi p.idx).take wc = hexN wc p.cid := by
    rw [List.take_append_of_le_length (by simp [hexN_length])]
    rw [List.take_of_length_le (by simp [hexN_length])]
  have hd : (hexN wc p.cid ++ hexN wi p.idx).drop wc = hexN wi p.idx := by
    rw [List.drop_append_of_le_length (by simp [hexN_length])]
    rw [List.drop_of_length_le (by simp [hexN_length])]; simp
  rw [ht, hd, parseHex_hexN wc p.cid hc, parseHex_hexN wi p.idx hi]
  simp
  intro h1 h2; omega

end Logrange.Rd
