import Logrange.Model.FieldsEmit
import Logrange.Proofs.FieldsRT
namespace Logrange.Proofs.FieldsEmit
open Go Logrange.FieldsKV Logrange.FieldsEmit

theorem asKV_nil : asKV [] = .ok [] := by decide

/-- invariant of the loop: the cached text is the text of the cached fields -/
theorem emitLoop_map (evs : List Bytes) : ∀ flds, emitLoop flds (asKV flds) evs = evs.map asKV := by
  induction evs with
  | nil => intro _; rfl
  | cons f r ih =>
    intro flds
    unfold emitLoop
    by_cases h : f = flds
    · subst h; simp [ih]
    · simp [h, ih]

theorem emit_map (evs : List Bytes) : emit evs = evs.map asKV := by
  unfold emit; rw [← asKV_nil]; exact emitLoop_map evs []

end Logrange.Proofs.FieldsEmit
