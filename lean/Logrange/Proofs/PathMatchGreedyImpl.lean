import Logrange.Proofs.PathMatchErr
import Logrange.Proofs.PathMatchGreedy
/-!
# Go's `path.Match` = the leftmost-commit matcher `greedyMatch` on the pattern's items

For a well-formed pattern all of whose `*` bytes are star terms (`plainStars`: no `\*`, no `*` inside a class):
`pathMatch p n = some (greedyMatch its n)` (`pathMatch_eq_greedy`).

Route: `sl` = `scanLoop` with canonical fuel and its step equations; `decodeRune_valid` (a valid rune = lead byte +
continuation bytes >= 0x80, decoding is local); `bound_pre` / `ranges_pre` (the bytes a class bound / class body
consumes, locality of `bound` / `ranges`, and the scanner leaves the class with `inrange = false`); `IsTerm` /
`parsePat_inv` (one non-star term: text, item, parser and scanner behaviour); `parsePat_mono`, `parsePat_count`;
`seg_lemma` + `lead_lemma` = `scanChunk_eq` (what `scanChunk` cuts is star run ++ star-free chunk ++ rest, in step
with `splitSeg` on the items: `splitSeg_shape`); `mc_eq` (via `matchChunk_spec`), `starLoop_eq`; `matchGo_greedy`.
-/
namespace Logrange.PathSpec
open Logrange.PathMatch

/-! ## `scanLoop` with canonical fuel -/

theorem scanLoop_fuel2 : ∀ (g g' : Nat) (r : Bytes) (i : Nat) (b : Bool), r.length < g → r.length < g' →
    scanLoop g r i b = scanLoop g' r i b := by
  intro g
  induction g with
  | zero => intro g' r i b h; omega
  | succ g ih =>
    intro g' r i b h h'
    obtain ⟨g2, rfl⟩ : ∃ g2, g' = g2 + 1 := ⟨g' - 1, by omega⟩
    cases r with
    | nil => simp [scanLoop]
    | cons c r' =>
      simp only [List.length_cons] at h h'
      simp only [scanLoop]
      split
      · cases r' with
        | nil => rfl
        | cons x r'' =>
          simp only [List.length_cons] at h h'
          exact ih g2 r'' _ _ (by omega) (by omega)
      · split
        · exact ih g2 r' _ _ (by omega) (by omega)
        · split
          · exact ih g2 r' _ _ (by omega) (by omega)
          · split
            · rfl
            · exact ih g2 r' _ _ (by omega) (by omega)

theorem scanLoop_fuel (g : Nat) (r : Bytes) (i : Nat) (b : Bool) (h : r.length < g) :
    scanLoop g r i b = scanLoop (r.length + 1) r i b := scanLoop_fuel2 g _ r i b h (by omega)

/-- `scanLoop` with exactly enough fuel -/
def sl (r : Bytes) (i : Nat) (b : Bool) : Nat := scanLoop (r.length + 1) r i b

theorem sl_nil (i : Nat) (b : Bool) : sl [] i b = i := by simp [sl, scanLoop]

theorem sl_step (c : UInt8) (r : Bytes) (i : Nat) (b : Bool) :
    sl (c :: r) i b = scanLoop (r.length + 1 + 1) (c :: r) i b := rfl

theorem sl_bs (x : UInt8) (r : Bytes) (i : Nat) (b : Bool) : sl (BS :: x :: r) i b = sl r (i + 2) b := by
  show scanLoop ((r.length + 1 + 1) + 1) (BS :: x :: r) i b = scanLoop (r.length + 1) r (i + 2) b
  rw [scanLoop]
  simp only [beq_self_eq_true, if_true]
  exact scanLoop_fuel _ _ _ _ (by omega)

theorem sl_rbr (r : Bytes) (i : Nat) (b : Bool) : sl (RBR :: r) i b = sl r (i + 1) false := by
  simp [sl, scanLoop, RBR, BS, LBR]

theorem sl_lbr (r : Bytes) (i : Nat) (b : Bool) : sl (LBR :: r) i b = sl r (i + 1) true := by
  simp [sl, scanLoop, BS, LBR]

theorem sl_star (r : Bytes) (i : Nat) : sl (STAR :: r) i false = i := by
  simp [sl, scanLoop, BS, LBR, RBR, STAR]

/-- inside a class every byte but `\` and `]` is stepped over -/
theorem sl_in (c : UInt8) (r : Bytes) (i : Nat) (h1 : (c == BS) = false) (h2 : (c == RBR) = false) :
    sl (c :: r) i true = sl r (i + 1) true := by
  simp only [sl, List.length_cons, scanLoop, h1, h2, Bool.false_eq_true, if_false, Bool.not_true, Bool.and_false]
  split <;> rfl

/-- outside a class every byte but `\`, `[`, `*` is stepped over -/
theorem sl_out (c : UInt8) (r : Bytes) (i : Nat) (h1 : (c == BS) = false) (h2 : (c == LBR) = false)
    (h3 : (c == STAR) = false) : sl (c :: r) i false = sl r (i + 1) false := by
  simp only [sl, List.length_cons, scanLoop, h1, h2, h3, Bool.false_eq_true, if_false, Bool.false_and]
  split <;> rfl

theorem hi_not (c : UInt8) (h : 128 ≤ c.toNat) :
    (c == BS) = false ∧ (c == RBR) = false ∧ (c == LBR) = false ∧ (c == STAR) = false := by
  refine ⟨?_, ?_, ?_, ?_⟩ <;>
  · simp only [beq_eq_false_iff_ne, ne_eq]
    intro e; subst e; revert h; decide

/-- continuation bytes are stepped over in either mode -/
theorem sl_conts : ∀ (conts : Bytes) (tail : Bytes) (i : Nat) (b : Bool), (∀ c ∈ conts, 128 ≤ c.toNat) →
    sl (conts ++ tail) i b = sl tail (i + conts.length) b
  | [], tail, i, b, _ => by simp
  | c :: cs, tail, i, b, h => by
    obtain ⟨h1, h2, h3, h4⟩ := hi_not c (h c (by simp))
    have ih := sl_conts cs tail (i + 1) b (fun x hx => h x (by simp [hx]))
    simp only [List.cons_append, List.length_cons]
    cases b with
    | true => rw [sl_in _ _ _ h1 h2, ih]; congr 1; omega
    | false => rw [sl_out _ _ _ h1 h3 h4, ih]; congr 1; omega

/-! ## a valid rune: its bytes, and decoding is local -/

theorem ite_pair_cases {c : Bool} {A B X : Nat × Nat} (h : (if c = true then A else B) = X) :
    (c = true ∧ A = X) ∨ (c = false ∧ B = X) := by
  cases c <;> simp_all

theorem decodeRune_valid (b0 : UInt8) (rest : Bytes) (r n : Nat) (h : decodeRune (b0 :: rest) = (r, n))
    (hv : (r == runeError && n == 1) = false) :
    ∃ conts q, rest = conts ++ q ∧ n = conts.length + 1 ∧ (∀ c ∈ conts, 128 ≤ c.toNat) ∧
      ∀ q', decodeRune (b0 :: (conts ++ q')) = (r, n) := by
  have bad : (runeError, 1) = (r, n) → False := by
    intro e
    simp only [Prod.mk.injEq] at e
    rw [← e.1, ← e.2] at hv
    simp at hv
  have horig := h
  simp only [decodeRune] at h
  by_cases h0 : b0.toNat < 128
  · simp only [h0, if_true, Prod.mk.injEq] at h
    refine ⟨[], rest, rfl, by simp [← h.2], by simp, ?_⟩
    intro q'; rw [← horig]; simp only [decodeRune, h0, if_true]
  simp only [h0, if_false] at h
  by_cases h1 : b0.toNat < 194
  · simp only [h1, if_true] at h; exact (bad h).elim
  simp only [h1, if_false] at h
  by_cases h2 : b0.toNat < 224
  · simp only [h2, if_true] at h
    cases rest with
    | nil => exact (bad h).elim
    | cons b1 t =>
      simp only [] at h
      rcases ite_pair_cases h with ⟨hc, h⟩ | ⟨_, h⟩
      · simp only [Bool.and_eq_true, decide_eq_true_eq] at hc
        simp only [Prod.mk.injEq] at h
        refine ⟨[b1], t, rfl, by simp [← h.2], ?_, ?_⟩
        · intro c hc'
          simp only [List.mem_singleton] at hc'; subst hc'; exact hc.1
        · intro q'; rw [← horig]; simp only [decodeRune, List.cons_append, List.nil_append, h0, h1, h2, if_true, if_false]
      · exact (bad h).elim
  simp only [h2, if_false] at h
  by_cases h3 : b0.toNat < 240
  · simp only [h3, if_true] at h
    cases rest with
    | nil => exact (bad h).elim
    | cons b1 t =>
      cases t with
      | nil => exact (bad h).elim
      | cons b2 t =>
        simp only [] at h
        rcases ite_pair_cases h with ⟨hc, h⟩ | ⟨_, h⟩
        · simp only [Bool.and_eq_true, decide_eq_true_eq] at hc
          simp only [Prod.mk.injEq] at h
          refine ⟨[b1, b2], t, rfl, by simp [← h.2], ?_, ?_⟩
          · intro c hc'
            simp only [List.mem_cons, List.not_mem_nil, or_false] at hc'
            rcases hc' with rfl | rfl
            · have := hc.1.1.1; split at this <;> omega
            · exact hc.1.2
          · intro q'; rw [← horig]; simp only [decodeRune, List.cons_append, List.nil_append, h0, h1, h2, h3, if_true, if_false]
        · exact (bad h).elim
  simp only [h3, if_false] at h
  by_cases h4 : b0.toNat < 245
  · simp only [h4, if_true] at h
    cases rest with
    | nil => exact (bad h).elim
    | cons b1 t =>
      cases t with
      | nil => exact (bad h).elim
      | cons b2 t =>
        cases t with
        | nil => exact (bad h).elim
        | cons b3 t =>
          simp only [] at h
          rcases ite_pair_cases h with ⟨hc, h⟩ | ⟨_, h⟩
          · simp only [Bool.and_eq_true, decide_eq_true_eq] at hc
            simp only [Prod.mk.injEq] at h
            refine ⟨[b1, b2, b3], t, rfl, by simp [← h.2], ?_, ?_⟩
            · intro c hc'
              simp only [List.mem_cons, List.not_mem_nil, or_false] at hc'
              rcases hc' with rfl | rfl | rfl
              · have := hc.1.1.1.1.1; split at this <;> omega
              · exact hc.1.1.1.2
              · exact hc.1.2
            · intro q'; rw [← horig]; simp only [decodeRune, List.cons_append, List.nil_append, h0, h1, h2, h3, h4, if_true, if_false]
          · exact (bad h).elim
  · simp only [h4, if_false] at h; exact (bad h).elim

/-! ## class bounds and class bodies: the bytes they consume -/

theorem bound_pre (p : Bytes) (r : Nat) (q : Bytes) (h : bound p = some (r, q)) :
    ∃ c pre, p = (c :: pre) ++ q ∧ q ≠ [] ∧ (c == RBR) = false ∧
      (∀ q', q' ≠ [] → bound ((c :: pre) ++ q') = some (r, q')) ∧
      (∀ tail i, sl ((c :: pre) ++ tail) i true = sl tail (i + (c :: pre).length) true) := by
  cases p with
  | nil => simp [bound] at h
  | cons c rest =>
    simp only [bound] at h
    by_cases h1 : (c == DASH || c == RBR) = true
    · simp [h1] at h
    simp only [h1, Bool.false_eq_true, if_false] at h
    have hcd : (c == DASH) = false ∧ (c == RBR) = false := by
      simpa [Bool.or_eq_false_iff] using h1
    by_cases hb : (c == BS) = true
    · have hcb : c = BS := by simpa using hb
      subst hcb
      simp only [beq_self_eq_true, if_true] at h
      cases rest with
      | nil => simp at h
      | cons b0 rest' =>
        simp only [List.isEmpty_cons, Bool.false_eq_true, if_false] at h
        rcases hdr0 : decodeRune (b0 :: rest') with ⟨r0, n0⟩
        simp only [hdr0] at h
        by_cases h3 : (r0 == runeError && n0 == 1) = true
        · simp [h3] at h
        have h3' : (r0 == runeError && n0 == 1) = false := by simpa using h3
        simp only [h3', Bool.false_eq_true, if_false] at h
        by_cases h4 : ((b0 :: rest').drop n0).isEmpty = true
        · simp [h4] at h
        simp only [h4, Bool.false_eq_true, if_false, Option.some.injEq, Prod.mk.injEq] at h
        obtain ⟨hr, hq⟩ := h
        obtain ⟨conts, q0, e, hn, hcs, hloc⟩ := decodeRune_valid b0 rest' _ _ hdr0 h3'
        have hq0 : q = q0 := by
          rw [← hq, hn, e]; simp
        subst hq0
        refine ⟨BS, b0 :: conts, by simp [e], ?_, by decide, ?_, ?_⟩
        · intro e0; subst e0; rw [hn, e] at h4; simp at h4
        · intro q' hq'
          have hd := hloc q'
          simp only [bound, List.cons_append, beq_self_eq_true, if_true, List.isEmpty_cons, Bool.false_eq_true,
            if_false, hd]
          have hdash : (BS == DASH || BS == RBR) = false := by decide
          simp only [hdash, Bool.false_eq_true, if_false]
          rw [← hr]
          simp only [h3', Bool.false_eq_true, if_false]
          have hdr : List.drop n0 (b0 :: (conts ++ q')) = q' := by
            rw [hn]; simp
          rw [hdr]
          have : q'.isEmpty = false := by cases q' <;> simp at hq' ⊢
          simp [this]
        · intro tail i
          simp only [List.cons_append]
          rw [sl_bs, sl_conts _ _ _ _ hcs]
          congr 1; simp only [List.length_cons]; omega
    · have hb' : (c == BS) = false := by simpa using hb
      simp only [hb', Bool.false_eq_true, if_false, List.isEmpty_cons] at h
      rcases hdr0 : decodeRune (c :: rest) with ⟨r0, n0⟩
      simp only [hdr0] at h
      by_cases h3 : (r0 == runeError && n0 == 1) = true
      · simp [h3] at h
      have h3' : (r0 == runeError && n0 == 1) = false := by simpa using h3
      simp only [h3', Bool.false_eq_true, if_false] at h
      by_cases h4 : ((c :: rest).drop n0).isEmpty = true
      · simp [h4] at h
      simp only [h4, Bool.false_eq_true, if_false, Option.some.injEq, Prod.mk.injEq] at h
      obtain ⟨hr, hq⟩ := h
      obtain ⟨conts, q0, e, hn, hcs, hloc⟩ := decodeRune_valid c rest _ _ hdr0 h3'
      have hq0 : q = q0 := by
        rw [← hq, hn, e]; simp
      subst hq0
      refine ⟨c, conts, by simp [e], ?_, hcd.2, ?_, ?_⟩
      · intro e0; subst e0; rw [hn, e] at h4; simp at h4
      · intro q' hq'
        have hd := hloc q'
        simp only [bound, List.cons_append, h1, hb', Bool.false_eq_true, if_false, List.isEmpty_cons, hd]
        rw [← hr]
        simp only [h3', Bool.false_eq_true, if_false]
        have hdr : List.drop n0 (c :: (conts ++ q')) = q' := by
          rw [hn]; simp
        rw [hdr]
        have : q'.isEmpty = false := by cases q' <;> simp at hq' ⊢
        simp [this]
      · intro tail i
        simp only [List.cons_append]
        rw [sl_in _ _ _ hb' hcd.2, sl_conts _ _ _ _ hcs]
        congr 1; simp only [List.length_cons]; omega

theorem ranges_pre : ∀ (f : Nat) (body : Bytes) (k : Nat) (rs : List (Nat × Nat)) (q : Bytes),
    ranges f body k = some (rs, q) →
    ∃ c cons, body = (c :: cons) ++ q ∧
      (∀ q' g, ((c :: cons) ++ q').length < g → ranges g ((c :: cons) ++ q') k = some (rs, q')) ∧
      (∀ tail i, sl ((c :: cons) ++ tail) i true = sl tail (i + (c :: cons).length) false) := by
  intro f
  induction f with
  | zero => intro body k rs q h; simp [ranges] at h
  | succ f ih =>
    intro body k rs q h
    cases body with
    | nil => simp [ranges] at h
    | cons c rest =>
      simp only [ranges] at h
      by_cases hc : (c == RBR && decide (k > 0)) = true
      · simp only [hc, if_true, Option.some.injEq, Prod.mk.injEq] at h
        obtain ⟨rfl, rfl⟩ := h
        refine ⟨c, [], rfl, ?_, ?_⟩
        · intro q' g hg
          obtain ⟨g', rfl⟩ : ∃ g', g = g' + 1 := ⟨g - 1, by simp at hg; omega⟩
          simp [ranges, hc]
        · intro tail i
          have : c = RBR := by simp only [Bool.and_eq_true, beq_iff_eq] at hc; exact hc.1
          subst this
          simp only [List.cons_append, List.nil_append]
          rw [sl_rbr]; rfl
      · simp only [hc, Bool.false_eq_true, if_false] at h
        cases hb : bound (c :: rest) with
        | none => simp [hb] at h
        | some lp =>
          obtain ⟨lo, p1⟩ := lp
          obtain ⟨c1, pre1, e1, hne1, hc1, hloc1, hsl1⟩ := bound_pre _ _ _ hb
          have hcc : c1 = c := by simp only [List.cons_append, List.cons.injEq] at e1; exact e1.1.symm
          subst hcc
          simp only [hb] at h
          cases p1 with
          | nil => simp at h
          | cons d p2 =>
            simp only [] at h
            by_cases hd : (d == DASH) = true
            · have hdd : d = DASH := by simpa using hd
              subst hdd
              simp only [beq_self_eq_true, if_true] at h
              cases hb2 : bound p2 with
              | none => simp [hb2] at h
              | some hp =>
                obtain ⟨hi, p3⟩ := hp
                obtain ⟨c2, pre2, e2, hne2, hc2, hloc2, hsl2⟩ := bound_pre _ _ _ hb2
                simp only [hb2] at h
                cases hr : ranges f p3 (k + 1) with
                | none => simp [hr] at h
                | some rq =>
                  obtain ⟨rs', q0⟩ := rq
                  simp only [hr, Option.map_some, Option.some.injEq, Prod.mk.injEq] at h
                  obtain ⟨rfl, rfl⟩ := h
                  obtain ⟨c3, cons3, e3, hrg3, hsl3⟩ := ih _ _ _ _ hr
                  refine ⟨c1, pre1 ++ DASH :: ((c2 :: pre2) ++ (c3 :: cons3)), ?_, ?_, ?_⟩
                  · rw [e1, e2, e3]; simp
                  · intro q' g hg
                    obtain ⟨g', rfl⟩ : ∃ g', g = g' + 1 := ⟨g - 1, by simp at hg; omega⟩
                    have eX : (c1 :: (pre1 ++ DASH :: ((c2 :: pre2) ++ (c3 :: cons3)))) ++ q' =
                        (c1 :: pre1) ++ (DASH :: ((c2 :: pre2) ++ ((c3 :: cons3) ++ q'))) := by simp
                    rw [eX] at hg ⊢
                    have hbX := hloc1 (DASH :: ((c2 :: pre2) ++ ((c3 :: cons3) ++ q'))) (by simp)
                    have hbY := hloc2 ((c3 :: cons3) ++ q') (by simp)
                    have hrZ := hrg3 q' g' (by simp at hg ⊢; omega)
                    rw [List.cons_append] at hbX ⊢
                    simp only [ranges, hc, Bool.false_eq_true, if_false, hbX, beq_self_eq_true, if_true, hbY, hrZ,
                      Option.map_some]
                  · intro tail i
                    have eX : (c1 :: (pre1 ++ DASH :: ((c2 :: pre2) ++ (c3 :: cons3)))) ++ tail =
                        (c1 :: pre1) ++ (DASH :: ((c2 :: pre2) ++ ((c3 :: cons3) ++ tail))) := by simp
                    rw [eX, hsl1, sl_in _ _ _ (by decide) (by decide), hsl2, hsl3]
                    congr 1
                    simp only [List.length_cons, List.length_append]; omega
            · have hd' : (d == DASH) = false := by simpa using hd
              simp only [hd', Bool.false_eq_true, if_false] at h
              cases hr : ranges f (d :: p2) (k + 1) with
              | none => simp [hr] at h
              | some rq =>
                obtain ⟨rs', q0⟩ := rq
                simp only [hr, Option.map_some, Option.some.injEq, Prod.mk.injEq] at h
                obtain ⟨rfl, rfl⟩ := h
                obtain ⟨c3, cons3, e3, hrg3, hsl3⟩ := ih _ _ _ _ hr
                have hcd3 : c3 = d := by simp only [List.cons_append, List.cons.injEq] at e3; exact e3.1.symm
                subst hcd3
                refine ⟨c1, pre1 ++ (c3 :: cons3), ?_, ?_, ?_⟩
                · rw [e1, e3]; simp
                · intro q' g hg
                  obtain ⟨g', rfl⟩ : ∃ g', g = g' + 1 := ⟨g - 1, by simp at hg; omega⟩
                  have eX : (c1 :: (pre1 ++ (c3 :: cons3))) ++ q' = (c1 :: pre1) ++ (c3 :: (cons3 ++ q')) := by simp
                  rw [eX] at hg ⊢
                  have hbX := hloc1 (c3 :: (cons3 ++ q')) (by simp)
                  have hrZ := hrg3 q' g' (by simp at hg ⊢; omega)
                  rw [List.cons_append] at hbX hrZ ⊢
                  simp only [ranges, hc, Bool.false_eq_true, if_false, hbX, hd', hrZ, Option.map_some]
                · intro tail i
                  have eX : (c1 :: (pre1 ++ (c3 :: cons3))) ++ tail = (c1 :: pre1) ++ ((c3 :: cons3) ++ tail) := by simp
                  rw [eX, hsl1, hsl3]
                  congr 1
                  simp only [List.length_cons, List.length_append]; omega

/-! ## counting stars -/

def cB (p : Bytes) : Nat := (p.filter (· == STAR)).length
def cI (its : List Item) : Nat := (its.filter Item.isStar).length

theorem cB_cons (c : UInt8) (r : Bytes) : cB (c :: r) = (if (c == STAR) = true then 1 else 0) + cB r := by
  simp only [cB, List.filter_cons]
  split <;> simp <;> omega

theorem cB_append (a b : Bytes) : cB (a ++ b) = cB a + cB b := by
  simp only [cB, List.filter_append, List.length_append]

theorem cI_cons (i : Item) (r : List Item) : cI (i :: r) = (if i.isStar = true then 1 else 0) + cI r := by
  simp only [cI, List.filter_cons]
  split <;> simp <;> omega

theorem cI_append (a b : List Item) : cI (a ++ b) = cI a + cI b := by
  simp only [cI, List.filter_append, List.length_append]

theorem noStar_of_cB : ∀ p : Bytes, cB p = 0 → noStar p = true
  | [], _ => rfl
  | c :: r, h => by
    rw [cB_cons] at h
    have hc : (c == STAR) = false := by
      cases hcs : (c == STAR) with
      | false => rfl
      | true => rw [hcs] at h; simp at h
    have ih := noStar_of_cB r (by omega)
    simp only [noStar, List.all_cons, Bool.and_eq_true] at ih ⊢
    exact ⟨by simp [bne, hc], ih⟩

theorem noStar_append (a b : Bytes) : noStar (a ++ b) = (noStar a && noStar b) := by
  simp [noStar]

/-! ## one non-star term of the pattern: its text, its item, what the parser and the scanner do on it -/

def IsTerm (t : Bytes) (i : Item) : Prop :=
  i.isStar = false ∧
  (∀ f x, parsePat (f+1) (t ++ x) = (parsePat f x).map (i :: ·)) ∧
  (∀ x j, sl (t ++ x) j false = sl x (j + t.length) false)

theorem map_cons_some {o : Option (List Item)} {i : Item} {its : List Item} (h : o.map (i :: ·) = some its) :
    ∃ its1, o = some its1 ∧ its = i :: its1 := by
  cases o with
  | none => simp at h
  | some x => exact ⟨x, rfl, by simpa using h.symm⟩

theorem clsSplit_cases (crest : Bytes) :
    (∃ b, crest = CARET :: b ∧ clsSplit crest = (true, b)) ∨
    (clsSplit crest = (false, crest) ∧ ∀ x b, crest = x :: b → (x == CARET) = false) := by
  cases crest with
  | nil => right; exact ⟨rfl, by intro x b h; cases h⟩
  | cons x b =>
    by_cases hx : (x == CARET) = true
    · left
      have : x = CARET := by simpa using hx
      subst this
      exact ⟨b, rfl, by simp [clsSplit]⟩
    · right
      refine ⟨by simp [clsSplit, hx], ?_⟩
      intro x' b' h
      simp only [List.cons.injEq] at h
      rw [← h.1]; simpa using hx

theorem cls_term (f : Nat) (crest : Bytes) (its : List Item)
    (h : parsePat (f+1) (LBR :: crest) = some its) :
    ∃ t q i its1, LBR :: crest = t ++ q ∧ IsTerm t i ∧ parsePat f q = some its1 ∧ its = i :: its1 := by
  rw [pp_cls] at h
  cases hrg : ranges ((clsSplit crest).2.length + 1) (clsSplit crest).2 0 with
  | none => rw [hrg] at h; simp [afterRanges] at h
  | some rq =>
    obtain ⟨rs, q⟩ := rq
    rw [hrg] at h
    simp only [afterRanges] at h
    by_cases hl : q.length < crest.length + 1
    · simp only [hl, if_true] at h
      obtain ⟨its1, hq, hits⟩ := map_cons_some h
      obtain ⟨c0, cons, e, hloc, hsl⟩ := ranges_pre _ _ _ _ _ hrg
      rcases clsSplit_cases crest with ⟨b, hb, hcs⟩ | ⟨hcs, hnc⟩
      · -- `[^`
        rw [hcs] at e hits
        simp only [] at e hits
        refine ⟨LBR :: CARET :: c0 :: cons, q, _, its1, by rw [hb, e]; simp, ⟨rfl, ?_, ?_⟩, hq, hits⟩
        · intro f' x
          have e1 : (LBR :: CARET :: c0 :: cons) ++ x = LBR :: (CARET :: ((c0 :: cons) ++ x)) := by simp
          have e2 : clsSplit (CARET :: ((c0 :: cons) ++ x)) = (true, (c0 :: cons) ++ x) := by simp [clsSplit]
          rw [e1, pp_cls, e2]
          simp only []
          rw [hloc x _ (Nat.lt_succ_self _)]
          simp only [afterRanges]
          have : x.length < (CARET :: ((c0 :: cons) ++ x)).length + 1 := by
            simp only [List.length_cons, List.length_append]; omega
          simp only [this, if_true]
        · intro x j
          have e1 : (LBR :: CARET :: c0 :: cons) ++ x = LBR :: (CARET :: ((c0 :: cons) ++ x)) := by simp
          rw [e1, sl_lbr, sl_in _ _ _ (by decide) (by decide), hsl]
          congr 1; simp only [List.length_cons]; omega
      · -- `[`
        rw [hcs] at e hits
        simp only [] at e hits
        have hc0 : (c0 == CARET) = false := hnc c0 (cons ++ q) (by rw [e]; simp)
        refine ⟨LBR :: c0 :: cons, q, _, its1, by rw [e]; simp, ⟨rfl, ?_, ?_⟩, hq, hits⟩
        · intro f' x
          have e1 : (LBR :: c0 :: cons) ++ x = LBR :: ((c0 :: cons) ++ x) := by simp
          have e2 : clsSplit ((c0 :: cons) ++ x) = (false, (c0 :: cons) ++ x) := by simp [clsSplit, hc0]
          rw [e1, pp_cls, e2]
          simp only []
          rw [hloc x _ (Nat.lt_succ_self _)]
          simp only [afterRanges]
          have : x.length < ((c0 :: cons) ++ x).length + 1 := by
            simp only [List.length_cons, List.length_append]; omega
          simp only [this, if_true]
        · intro x j
          have e1 : (LBR :: c0 :: cons) ++ x = LBR :: ((c0 :: cons) ++ x) := by simp
          rw [e1, sl_lbr, hsl]
          congr 1; simp only [List.length_cons]; omega
    · simp [hl] at h

/-- a successful parse of a pattern that does not start with `*` starts with one non-star term -/
theorem parsePat_inv (f : Nat) (c : UInt8) (rest : Bytes) (its : List Item)
    (h : parsePat (f+1) (c :: rest) = some its) (hs : (c == STAR) = false) :
    ∃ t q i its1, c :: rest = t ++ q ∧ IsTerm t i ∧ parsePat f q = some its1 ∧ its = i :: its1 := by
  by_cases hq : c = QM
  · subst hq
    have hp : ∀ f x, parsePat (f+1) (QM :: x) = (parsePat f x).map (Item.any :: ·) := by
      intro f x; simp [parsePat, QM, STAR]
    rw [hp] at h
    obtain ⟨its1, h1, h2⟩ := map_cons_some h
    exact ⟨[QM], rest, .any, its1, rfl, ⟨rfl, fun f x => hp f x,
      fun x j => sl_out QM x j (by decide) (by decide) (by decide)⟩, h1, h2⟩
  by_cases hb : c = BS
  · subst hb
    cases rest with
    | nil => simp [parsePat, BS, STAR, QM] at h
    | cons x rest' =>
      have hp : ∀ f y, parsePat (f+1) (BS :: x :: y) = (parsePat f y).map (Item.lit x :: ·) := by
        intro f y; simp [parsePat, BS, STAR, QM]
      rw [hp] at h
      obtain ⟨its1, h1, h2⟩ := map_cons_some h
      exact ⟨[BS, x], rest', .lit x, its1, rfl, ⟨rfl, fun f y => hp f y, fun y j => sl_bs x y j false⟩, h1, h2⟩
  by_cases hl : c = LBR
  · subst hl; exact cls_term f rest its h
  · have h1' : (c == LBR) = false := by simpa using hl
    have h2' : (c == QM) = false := by simpa using hq
    have h3' : (c == BS) = false := by simpa using hb
    have hp : ∀ f x, parsePat (f+1) (c :: x) = (parsePat f x).map (Item.lit c :: ·) := by
      intro f x; simp [parsePat, hs, h1', h2', h3']
    rw [hp] at h
    obtain ⟨its1, h1, h2⟩ := map_cons_some h
    exact ⟨[c], rest, .lit c, its1, rfl, ⟨rfl, fun f x => hp f x, fun x j => sl_out c x j h3' h1' hs⟩, h1, h2⟩

theorem parsePat_star (f : Nat) (rest : Bytes) :
    parsePat (f+1) (STAR :: rest) = (parsePat f rest).map (Item.star :: ·) := by
  simp [parsePat]

theorem parsePat_mono : ∀ (f f' : Nat) (p : Bytes) (its : List Item), parsePat f p = some its → f ≤ f' →
    parsePat f' p = some its := by
  intro f
  induction f with
  | zero => intro f' p its h; simp [parsePat] at h
  | succ f ih =>
    intro f' p its h hle
    obtain ⟨f2, rfl⟩ : ∃ f2, f' = f2 + 1 := ⟨f' - 1, by omega⟩
    cases p with
    | nil => simp only [parsePat] at h ⊢; exact h
    | cons c rest =>
      by_cases hs : (c == STAR) = true
      · have : c = STAR := by simpa using hs
        subst this
        rw [parsePat_star] at h ⊢
        obtain ⟨its1, h1, h2⟩ := map_cons_some h
        rw [ih f2 rest its1 h1 (by omega), h2]; rfl
      · have hs' : (c == STAR) = false := by simpa using hs
        obtain ⟨t, q, i, its1, e, ht, hq, hits⟩ := parsePat_inv f c rest its h hs'
        rw [e, ht.2.1 f2 q, ih f2 q its1 hq (by omega), hits]; rfl

theorem parsePat_count : ∀ (f : Nat) (p : Bytes) (its : List Item), parsePat f p = some its → cI its ≤ cB p := by
  intro f
  induction f with
  | zero => intro p its h; simp [parsePat] at h
  | succ f ih =>
    intro p its h
    cases p with
    | nil =>
      simp only [parsePat, Option.some.injEq] at h
      subst h; exact Nat.le_refl _
    | cons c rest =>
      by_cases hs : (c == STAR) = true
      · have : c = STAR := by simpa using hs
        subst this
        rw [parsePat_star] at h
        obtain ⟨its1, h1, h2⟩ := map_cons_some h
        have := ih rest its1 h1
        rw [h2, cI_cons, cB_cons]
        simp only [Item.isStar, if_true, beq_self_eq_true]; omega
      · have hs' : (c == STAR) = false := by simpa using hs
        obtain ⟨t, q, i, its1, e, ht, hq, hits⟩ := parsePat_inv f c rest its h hs'
        have := ih q its1 hq
        rw [hits, e, cI_cons, cB_append, ht.1]
        simp only [Bool.false_eq_true, if_false]; omega

/-! ## the decomposition `scanChunk` computes, on the parse -/

theorem seg_lemma : ∀ (f : Nat) (p : Bytes) (its : List Item), parsePat f p = some its → cI its = cB p →
    ∃ chunk rest ci ri, p = chunk ++ rest ∧ noStar chunk = true ∧ (rest = [] ∨ ∃ r', rest = STAR :: r') ∧
      parsePat f chunk = some ci ∧ parsePat f rest = some ri ∧ its = ci ++ ri ∧ cI ri = cB rest ∧ cI ci = 0 ∧
      (∀ j, sl p j false = j + chunk.length) := by
  intro f
  induction f with
  | zero => intro p its h; simp [parsePat] at h
  | succ f ih =>
    intro p its h hc
    cases p with
    | nil =>
      simp only [parsePat, Option.some.injEq] at h
      subst h
      exact ⟨[], [], [], [], rfl, rfl, Or.inl rfl, by simp [parsePat], by simp [parsePat], rfl, rfl, rfl,
        fun j => by simp [sl_nil]⟩
    | cons c rest =>
      by_cases hs : (c == STAR) = true
      · have : c = STAR := by simpa using hs
        subst this
        exact ⟨[], STAR :: rest, [], its, rfl, rfl, Or.inr ⟨rest, rfl⟩, by simp [parsePat], h, rfl, hc, rfl,
          fun j => by simp [sl_star]⟩
      · have hs' : (c == STAR) = false := by simpa using hs
        obtain ⟨t, q, i, its1, e, ht, hq, hits⟩ := parsePat_inv f c rest its h hs'
        have hle := parsePat_count f q its1 hq
        have hc' := hc
        rw [hits, e, cI_cons, cB_append, ht.1] at hc'
        simp only [Bool.false_eq_true, if_false] at hc'
        have hct : cB t = 0 := by omega
        have hcq : cI its1 = cB q := by omega
        obtain ⟨chunk1, rest1, ci1, ri1, e1, hn1, hr1, hpc1, hpr1, hi1, hcr1, hci1, hsl1⟩ := ih q its1 hq hcq
        refine ⟨t ++ chunk1, rest1, i :: ci1, ri1, ?_, ?_, hr1, ?_, ?_, ?_, hcr1, ?_, ?_⟩
        · rw [e, e1]; simp
        · rw [noStar_append, noStar_of_cB t hct, hn1]; rfl
        · rw [ht.2.1 f chunk1, hpc1]; rfl
        · exact parsePat_mono f (f+1) rest1 ri1 hpr1 (by omega)
        · rw [hits, hi1]; rfl
        · rw [cI_cons, ht.1, hci1]; rfl
        · intro j
          rw [e, ht.2.2 q j, hsl1, List.length_append]; omega

/-- number of leading `*` bytes -/
def K (p : Bytes) : Nat := (p.takeWhile (· == STAR)).length

theorem K_star (r : Bytes) : K (STAR :: r) = K r + 1 := by simp [K]
theorem K_non (c : UInt8) (r : Bytes) (h : (c == STAR) = false) : K (c :: r) = 0 := by
  simp [K, h]

theorem lead_lemma : ∀ (f : Nat) (p : Bytes) (its : List Item), parsePat f p = some its →
    ∃ its', its = List.replicate (K p) Item.star ++ its' ∧ parsePat f (p.drop (K p)) = some its' ∧
      (cI its = cB p → cI its' = cB (p.drop (K p))) := by
  intro f
  induction f with
  | zero => intro p its h; simp [parsePat] at h
  | succ f ih =>
    intro p its h
    cases p with
    | nil => exact ⟨its, by simp [K], by simpa [K] using h, by simp [K]⟩
    | cons c rest =>
      by_cases hs : (c == STAR) = true
      · have : c = STAR := by simpa using hs
        subst this
        rw [parsePat_star] at h
        obtain ⟨its1, h1, h2⟩ := map_cons_some h
        obtain ⟨its', e, hp', hc'⟩ := ih rest its1 h1
        refine ⟨its', ?_, ?_, ?_⟩
        · rw [h2, K_star, List.replicate_succ, e]; rfl
        · rw [K_star, List.drop_succ_cons]; exact parsePat_mono f (f+1) _ _ hp' (by omega)
        · intro hc
          rw [K_star, List.drop_succ_cons]
          apply hc'
          rw [h2, cI_cons, cB_cons] at hc
          simp only [Item.isStar, if_true, beq_self_eq_true] at hc; omega
      · have hs' : (c == STAR) = false := by simpa using hs
        rw [K_non c rest hs']
        exact ⟨its, by simp, by simpa using h, by simp⟩

/-! ## `splitSeg` of the item list -/

theorem dropWhile_replicate : ∀ (k : Nat) (X : List Item),
    (List.replicate k Item.star ++ X).dropWhile Item.isStar = X.dropWhile Item.isStar
  | 0, X => by simp
  | k+1, X => by
    rw [List.replicate_succ, List.cons_append, List.dropWhile_cons]
    simp only [Item.isStar, if_true]
    exact dropWhile_replicate k X

theorem seg_take : ∀ (ci ri : List Item), cI ci = 0 → (ri = [] ∨ ∃ r', ri = Item.star :: r') →
    (ci ++ ri).takeWhile (fun i => !i.isStar) = ci ∧ (ci ++ ri).dropWhile (fun i => !i.isStar) = ri
  | [], ri, _, h => by
    rcases h with rfl | ⟨r', rfl⟩
    · simp
    · simp [Item.isStar]
  | i :: ci, ri, hc, h => by
    rw [cI_cons] at hc
    have hi : i.isStar = false := by
      cases his : i.isStar with
      | false => rfl
      | true => rw [his] at hc; simp at hc
    rw [hi] at hc
    obtain ⟨h1, h2⟩ := seg_take ci ri (by simpa using hc) h
    simp [hi, h1, h2]

theorem splitSeg_shape (k : Nat) (ci ri : List Item) (hci : cI ci = 0) (h0 : ci = [] → ri = [])
    (hri : ri = [] ∨ ∃ r', ri = Item.star :: r') :
    splitSeg (List.replicate k Item.star ++ (ci ++ ri)) = (decide (k > 0), ci, ri) := by
  obtain ⟨h1, h2⟩ := seg_take ci ri hci hri
  have hX : (ci ++ ri).dropWhile Item.isStar = ci ++ ri := by
    cases ci with
    | nil => rw [h0 rfl]; rfl
    | cons i ci' =>
      rw [cI_cons] at hci
      have hi : i.isStar = false := by
        cases his : i.isStar with
        | false => rfl
        | true => rw [his] at hci; simp at hci
      simp [hi]
  simp only [splitSeg, dropWhile_replicate, hX, h1, h2]
  congr 1
  cases k with
  | zero =>
    simp only [List.replicate_zero, List.nil_append]
    cases ci with
    | nil => rw [h0 rfl]; simp
    | cons i ci' =>
      rw [cI_cons] at hci
      have hi : i.isStar = false := by
        cases his : i.isStar with
        | false => rfl
        | true => rw [his] at hci; simp at hci
      simp [hi]
  | succ k => simp [List.replicate_succ, Item.isStar]

/-! ## `scanChunk` on a well-formed pattern with plain stars -/

theorem parsePat_of_nil (f : Nat) (its : List Item) (h : parsePat f [] = some its) : its = [] := by
  cases f with
  | zero => simp [parsePat] at h
  | succ f => simp only [parsePat, Option.some.injEq] at h; exact h.symm

theorem parsePat_star_head (f : Nat) (r : Bytes) (its : List Item) (h : parsePat f (STAR :: r) = some its) :
    ∃ r', its = Item.star :: r' := by
  cases f with
  | zero => simp [parsePat] at h
  | succ f =>
    rw [parsePat_star] at h
    obtain ⟨its1, _, h2⟩ := map_cons_some h
    exact ⟨its1, h2⟩

theorem parsePat_cons_ne (f : Nat) (c : UInt8) (r : Bytes) (its : List Item) (h : parsePat f (c :: r) = some its) :
    its ≠ [] := by
  cases f with
  | zero => simp [parsePat] at h
  | succ f =>
    by_cases hs : (c == STAR) = true
    · have : c = STAR := by simpa using hs
      subst this
      obtain ⟨r', e⟩ := parsePat_star_head _ _ _ h
      rw [e]; simp
    · obtain ⟨t, q, i, its1, _, _, _, e⟩ := parsePat_inv f c r its h (by simpa using hs)
      rw [e]; simp

theorem scanChunk_eq (f : Nat) (p : Bytes) (its : List Item) (hp : parsePat f p = some its) (hc : cI its = cB p) :
    ∃ chunk rest ci ri, scanChunk p = (decide (K p > 0), chunk, rest) ∧ noStar chunk = true ∧
      parsePat f chunk = some ci ∧ parsePat f rest = some ri ∧
      its = List.replicate (K p) Item.star ++ (ci ++ ri) ∧ cI ri = cB rest ∧ cI ci = 0 ∧
      (rest = [] ∨ ∃ r', rest = STAR :: r') ∧ (chunk = [] → rest = []) := by
  obtain ⟨its', e, hp', hc'⟩ := lead_lemma f p its hp
  obtain ⟨chunk, rest, ci, ri, e1, hn, hr, hpc, hpr, hi, hcr, hci, hsl⟩ := seg_lemma f _ its' hp' (hc' hc)
  refine ⟨chunk, rest, ci, ri, ?_, hn, hpc, hpr, by rw [e, hi], hcr, hci, hr, ?_⟩
  · have hK : (p.takeWhile (· == STAR)).length = K p := rfl
    simp only [scanChunk, hK]
    have h0 : scanLoop ((p.drop (K p)).length + 1) (p.drop (K p)) 0 false = chunk.length := by
      have := hsl 0
      simp only [sl, Nat.zero_add] at this
      exact this
    rw [h0, e1]
    simp
  · intro hce
    rcases hr with h | ⟨r', h⟩
    · exact h
    · exfalso
      rw [hce, h, List.nil_append] at e1
      have := drop_takeWhile_head (· == STAR) p STAR r' e1
      simp at this

/-! ## one chunk and the star loop -/

theorem mc_eq (f : Nat) (chunk : Bytes) (ci : List Item) (hp : parsePat f chunk = some ci) (hn : noStar chunk = true) :
    hasStar ci = false ∧
    ∀ s, mc chunk s = (match consume ci s with | some t => some (t, true) | none => some ([], false)) := by
  have hp2 := parsePat_mono f (f + (chunk.length + 1)) chunk ci hp (by omega)
  have := matchChunk_spec (f + (chunk.length + 1)) chunk (chunk.length + 2) (by omega) (by omega) hn
  rw [hp2] at this
  simp only [ChunkSpec] at this
  exact ⟨this.1, fun s => (this.2 s).2⟩

theorem starLoop_eq (chunk : Bytes) (ci : List Item)
    (hmc : ∀ s, mc chunk s = (match consume ci s with | some t => some (t, true) | none => some ([], false))) :
    ∀ (n : Bytes) (f : Nat) (b : Bool), n.length < f → starLoop f chunk n b = some (starLoopI ci n b)
  | [], f, b, h => by
    obtain ⟨f', rfl⟩ : ∃ f', f = f' + 1 := ⟨f - 1, by omega⟩
    simp [starLoop, starLoopI]
  | c :: rest, f, b, h => by
    obtain ⟨f', rfl⟩ : ∃ f', f = f' + 1 := ⟨f - 1, by omega⟩
    simp only [List.length_cons] at h
    have ih := starLoop_eq chunk ci hmc rest f' b (by omega)
    simp only [starLoop, starLoopI, hmc rest]
    by_cases hc : (c == SL) = true
    · simp [hc]
    · simp only [hc, Bool.false_eq_true, if_false]
      cases consume ci rest with
      | none => simp only []; exact ih
      | some t =>
        simp only []
        split
        · exact ih
        · rfl

/-! ## the main induction -/

theorem matchGo_greedy : ∀ (fuel : Nat) (p n : Bytes) (its : List Item) (fi f : Nat), p.length < fuel →
    its.length < fi → parsePat f p = some its → cI its = cB p → matchGo fuel p n = some (greedy fi its n) := by
  intro fuel
  induction fuel with
  | zero => intro p n its fi f h; omega
  | succ fuel ih =>
    intro p n its fi f hfu hfi hp hc
    obtain ⟨fi', rfl⟩ : ∃ fi', fi = fi' + 1 := ⟨fi - 1, by omega⟩
    by_cases hpe : p = []
    · subst hpe
      have := parsePat_of_nil f its hp
      subst this
      rw [greedy_nil]; simp [matchGo]
    obtain ⟨chunk, rest, ci, ri, hsc, hn, hpc, hpr, hits, hcr, hci, hr, hce⟩ := scanChunk_eq f p its hp hc
    obtain ⟨hlt, hemp⟩ := scanChunk_facts p hpe _ chunk rest hsc
    obtain ⟨hhs, hmc⟩ := mc_eq f chunk ci hpc hn
    have hne : its ≠ [] := by
      cases p with
      | nil => exact absurd rfl hpe
      | cons c r => exact parsePat_cons_ne f c r its hp
    -- the item-side shapes
    have hci0 : ci = [] → chunk = [] := by
      intro h
      cases chunk with
      | nil => rfl
      | cons c r => exact absurd h (parsePat_cons_ne f c r ci hpc)
    have hc0i : chunk = [] → ci = [] := by
      intro h; rw [h] at hpc; exact parsePat_of_nil f ci hpc
    have hri : ri = [] ∨ ∃ r', ri = Item.star :: r' := by
      rcases hr with h | ⟨r', h⟩
      · left; rw [h] at hpr; exact parsePat_of_nil f ri hpr
      · right; rw [h] at hpr; exact parsePat_star_head f r' ri hpr
    have hre : rest.isEmpty = ri.isEmpty := by
      rcases hr with h | ⟨r', h⟩
      · have : ri = [] := by rw [h] at hpr; exact parsePat_of_nil f ri hpr
        rw [h, this]; rfl
      · obtain ⟨r'', h2⟩ : ∃ r', ri = Item.star :: r' := by rw [h] at hpr; exact parsePat_star_head f r' ri hpr
        rw [h, h2]; rfl
    have hcie : chunk.isEmpty = ci.isEmpty := by
      cases chunk with
      | nil => rw [hc0i rfl]; rfl
      | cons c r =>
        cases ci with
        | nil => exact absurd (hci0 rfl) (by simp)
        | cons i r' => rfl
    have hsp : splitSeg its = (decide (K p > 0), ci, ri) := by
      rw [hits]
      exact splitSeg_shape (K p) ci ri hci (fun h => by
        have := hce (hci0 h)
        rw [this] at hpr; exact parsePat_of_nil f ri hpr) hri
    have hrl : ri.length < fi' := by
      have hl : its.length = K p + (ci.length + ri.length) := by
        rw [hits]; simp
      have : 0 < K p + ci.length := by
        cases ci with
        | nil =>
          have := (hemp (by rw [hci0 rfl]; rfl)).2
          simp only [decide_eq_true_eq] at this
          omega
        | cons i r' => simp only [List.length_cons]; omega
      omega
    have hrec : ∀ t, matchGo fuel rest t = some (greedy fi' ri t) :=
      fun t => ih rest t ri fi' f (by omega) hrl hpr hcr
    have hv : validateRest (rest.length + 1) rest = true := by
      have := matchGo_isSome fuel rest [] (by omega)
      rw [hrec []] at this
      simpa using this.symm
    have hsl := starLoop_eq chunk ci hmc n (n.length + 1) rest.isEmpty (by omega)
    have hpe' : p.isEmpty = false := by cases p <;> simp at hpe ⊢
    rw [greedy_succ fi' its n _ ci ri hne hsp, matchGo]
    simp only [hpe', Bool.false_eq_true, if_false, hsc]
    generalize decide (K p > 0) = star
    rw [hmc n, hsl, hv, hcie, hre]
    simp only [hrec]
    cases consume ci n <;> cases starLoopI ci n ri.isEmpty <;> cases star <;> simp <;> (repeat' split) <;> simp_all

/-- on a well-formed pattern whose `*` bytes are all star terms, Go's path.Match is the leftmost-commit matcher on the pattern's items -/
theorem pathMatch_eq_greedy (p n : Bytes) (its : List Item) (hp : items? p = some its) (hs : plainStars p its = true) :
    PathMatch.pathMatch p n = some (greedyMatch its n) := by
  unfold pathMatch greedyMatch
  refine matchGo_greedy _ p n its _ (p.length + 1) (by omega) (by omega) hp ?_
  simpa [plainStars, cI, cB] using hs

end Logrange.PathSpec
