import Logrange.Model.RegistryJson
import Logrange.Proofs.Registry
/-!
# The JSON codec of `pipes.dat` is the identity on UTF-8 definitions, and the byte-level machine simulates the abstract one
-/
namespace Logrange.Registry
open Go

theorem forall_byte' (P : UInt8 → Bool) (h : (List.range 256).all (fun n => P (UInt8.ofNat n)) = true) (c : UInt8) :
    P c = true := by
  have hc : c = UInt8.ofNat c.toNat := by simp
  rw [hc]
  exact (List.all_eq_true.mp h) c.toNat (List.mem_range.mpr c.toNat_lt)

/-! ## utf8.DecodeRune: a valid sequence is decoded from its own bytes only -/

theorem jBad_err : jBad (jRuneError, 1) = true := by decide

/-- a valid multi-byte sequence at the head: its bytes `b0 :: pre`, what follows does not matter -/
theorem jDecodeRune_inv (b0 : UInt8) (rest : Bytes) (h0 : ¬ b0.toNat < 0x80)
    (hv : jBad (jDecodeRune (b0 :: rest)) = false) :
    ∃ pre t, rest = pre ++ t ∧ (jDecodeRune (b0 :: rest)).2 = pre.length + 1 ∧
      ∀ t', jDecodeRune (b0 :: (pre ++ t')) = jDecodeRune (b0 :: rest) := by
  by_cases h1 : b0.toNat < 0xC2
  · simp [jDecodeRune, h0, h1, jBad_err] at hv
  by_cases h2 : b0.toNat < 0xE0
  · cases rest with
    | nil => simp [jDecodeRune, h0, h1, h2, jBad_err] at hv
    | cons b1 t =>
      by_cases hc : (0x80 ≤ b1.toNat && b1.toNat ≤ 0xBF) = true
      · refine ⟨[b1], t, rfl, ?_, ?_⟩
        · simp only [jDecodeRune, h0, h1, h2, hc, if_true, if_false]; rfl
        · intro t'
          simp only [jDecodeRune, h0, h1, h2, hc, if_true, if_false, List.cons_append, List.nil_append]
      · simp only [jDecodeRune, h0, h1, h2, hc, if_true, if_false] at hv
        cases hv
  by_cases h3 : b0.toNat < 0xF0
  · match rest with
    | [] => simp [jDecodeRune, h0, h1, h2, h3, jBad_err] at hv
    | [_] => simp [jDecodeRune, h0, h1, h2, h3, jBad_err] at hv
    | b1 :: b2 :: t =>
      by_cases hc : ((if (b0.toNat == 0xE0) = true then 0xA0 else 0x80) ≤ b1.toNat &&
          b1.toNat ≤ (if (b0.toNat == 0xED) = true then 0x9F else 0xBF) && 0x80 ≤ b2.toNat && b2.toNat ≤ 0xBF) = true
      · refine ⟨[b1, b2], t, rfl, ?_, ?_⟩
        · simp only [jDecodeRune, h0, h1, h2, h3, hc, if_true, if_false]; rfl
        · intro t'
          simp only [jDecodeRune, h0, h1, h2, h3, hc, if_true, if_false, List.cons_append, List.nil_append]
      · simp only [jDecodeRune, h0, h1, h2, h3, hc, if_true, if_false] at hv
        cases hv
  by_cases h4 : b0.toNat < 0xF5
  · match rest with
    | [] => simp [jDecodeRune, h0, h1, h2, h3, h4, jBad_err] at hv
    | [_] => simp [jDecodeRune, h0, h1, h2, h3, h4, jBad_err] at hv
    | [_, _] => simp [jDecodeRune, h0, h1, h2, h3, h4, jBad_err] at hv
    | b1 :: b2 :: b3 :: t =>
      by_cases hc : ((if (b0.toNat == 0xF0) = true then 0x90 else 0x80) ≤ b1.toNat &&
          b1.toNat ≤ (if (b0.toNat == 0xF4) = true then 0x8F else 0xBF) && 0x80 ≤ b2.toNat && b2.toNat ≤ 0xBF &&
          0x80 ≤ b3.toNat && b3.toNat ≤ 0xBF) = true
      · refine ⟨[b1, b2, b3], t, rfl, ?_, ?_⟩
        · simp only [jDecodeRune, h0, h1, h2, h3, h4, hc, if_true, if_false]; rfl
        · intro t'
          simp only [jDecodeRune, h0, h1, h2, h3, h4, hc, if_true, if_false, List.cons_append, List.nil_append]
      · simp only [jDecodeRune, h0, h1, h2, h3, h4, hc, if_true, if_false] at hv
        cases hv
  · simp [jDecodeRune, h0, h1, h2, h3, h4, jBad_err] at hv

/-- U+2028 / U+2029 have exactly one encoding: E2 80 A8 / E2 80 A9 -/
theorem jDecodeRune_ls (b0 : UInt8) (rest : Bytes) (h0 : ¬ b0.toNat < 0x80)
    (hv : jBad (jDecodeRune (b0 :: rest)) = false) (v : Nat) (hv1 : (jDecodeRune (b0 :: rest)).1 = v)
    (hr : v = 0x2028 ∨ v = 0x2029) :
    ∃ x t, b0.toNat = 0xE2 ∧ rest = 0x80 :: x :: t ∧ x.toNat = v - 0x2028 + 0xA8 ∧ (jDecodeRune (b0 :: rest)).2 = 3 := by
  by_cases h1 : b0.toNat < 0xC2
  · simp [jDecodeRune, h0, h1, jBad_err] at hv
  by_cases h2 : b0.toNat < 0xE0
  · cases rest with
    | nil => simp [jDecodeRune, h0, h1, h2, jBad_err] at hv
    | cons b1 t =>
      by_cases hc : (0x80 ≤ b1.toNat && b1.toNat ≤ 0xBF) = true
      · simp only [jDecodeRune, h0, h1, h2, hc, if_true, if_false] at hv1
        simp only [Bool.and_eq_true, decide_eq_true_eq] at hc
        omega
      · simp only [jDecodeRune, h0, h1, h2, hc, if_true, if_false] at hv
        cases hv
  by_cases h3 : b0.toNat < 0xF0
  · match rest with
    | [] => simp [jDecodeRune, h0, h1, h2, h3, jBad_err] at hv
    | [_] => simp [jDecodeRune, h0, h1, h2, h3, jBad_err] at hv
    | b1 :: b2 :: t =>
      by_cases hc : ((if (b0.toNat == 0xE0) = true then 0xA0 else 0x80) ≤ b1.toNat &&
          b1.toNat ≤ (if (b0.toNat == 0xED) = true then 0x9F else 0xBF) && 0x80 ≤ b2.toNat && b2.toNat ≤ 0xBF) = true
      · have hsz : (jDecodeRune (b0 :: b1 :: b2 :: t)).2 = 3 := by
          simp only [jDecodeRune, h0, h1, h2, h3, hc, if_true, if_false]
        simp only [jDecodeRune, h0, h1, h2, h3, hc, if_true, if_false] at hv1
        simp only [Bool.and_eq_true, decide_eq_true_eq] at hc
        obtain ⟨⟨⟨c1, c2⟩, c3⟩, c4⟩ := hc
        have g1 : 0x80 ≤ (if (b0.toNat == 0xE0) = true then 0xA0 else 0x80) := by split <;> omega
        have g2 : (if (b0.toNat == 0xED) = true then 0x9F else 0xBF) ≤ 0xBF := by split <;> omega
        have e0 : b0.toNat = 0xE2 := by omega
        have e1 : b1.toNat = 0x80 := by omega
        have e2 : b2.toNat = v - 0x2028 + 0xA8 := by omega
        have e1' : b1 = 0x80 := UInt8.toNat_inj.mp e1
        exact ⟨b2, t, e0, by rw [e1'], e2, hsz⟩
      · simp only [jDecodeRune, h0, h1, h2, h3, hc, if_true, if_false] at hv
        cases hv
  by_cases h4 : b0.toNat < 0xF5
  · match rest with
    | [] => simp [jDecodeRune, h0, h1, h2, h3, h4, jBad_err] at hv
    | [_] => simp [jDecodeRune, h0, h1, h2, h3, h4, jBad_err] at hv
    | [_, _] => simp [jDecodeRune, h0, h1, h2, h3, h4, jBad_err] at hv
    | b1 :: b2 :: b3 :: t =>
      by_cases hc : ((if (b0.toNat == 0xF0) = true then 0x90 else 0x80) ≤ b1.toNat &&
          b1.toNat ≤ (if (b0.toNat == 0xF4) = true then 0x8F else 0xBF) && 0x80 ≤ b2.toNat && b2.toNat ≤ 0xBF &&
          0x80 ≤ b3.toNat && b3.toNat ≤ 0xBF) = true
      · simp only [jDecodeRune, h0, h1, h2, h3, h4, hc, if_true, if_false] at hv1
        simp only [Bool.and_eq_true, decide_eq_true_eq] at hc
        obtain ⟨⟨⟨⟨⟨c1, c2⟩, c3⟩, c4⟩, c5⟩, c6⟩ := hc
        by_cases hf0 : b0.toNat = 0xF0
        · simp [hf0] at c1
          omega
        · omega
      · simp only [jDecodeRune, h0, h1, h2, h3, h4, hc, if_true, if_false] at hv
        cases hv
  · simp [jDecodeRune, h0, h1, h2, h3, h4, jBad_err] at hv

/-! ## one step of the three walkers -/

theorem jsanGo_nil (f : Nat) : jsanGo f [] = [] := by cases f <;> rfl
theorem jsonBodyGo_nil (f : Nat) : jsonBodyGo f [] = [] := by cases f <;> rfl
theorem validGo_nil (f : Nat) : validGo f [] = true := by cases f <;> rfl

theorem jsanGo_lo (f : Nat) (c : UInt8) (rest : Bytes) (h : c.toNat < 0x80) :
    jsanGo (f + 1) (c :: rest) = c :: jsanGo f rest := by
  simp only [jsanGo, h, if_true]

theorem jsanGo_hi (f : Nat) (c : UInt8) (rest : Bytes) (h : ¬ c.toNat < 0x80) :
    jsanGo (f + 1) (c :: rest) =
      if jBad (jDecodeRune (c :: rest)) then [0xEF, 0xBF, 0xBD] ++ jsanGo f rest
      else (c :: rest).take (jDecodeRune (c :: rest)).2 ++ jsanGo f ((c :: rest).drop (jDecodeRune (c :: rest)).2) := by
  simp only [jsanGo, h, if_false]

theorem jsonBodyGo_lo (f : Nat) (c : UInt8) (rest : Bytes) (h : c.toNat < 0x80) :
    jsonBodyGo (f + 1) (c :: rest) = encAscii c ++ jsonBodyGo f rest := by
  simp only [jsonBodyGo, h, if_true]

theorem jsonBodyGo_hi (f : Nat) (c : UInt8) (rest : Bytes) (h : ¬ c.toNat < 0x80) :
    jsonBodyGo (f + 1) (c :: rest) =
      if jBad (jDecodeRune (c :: rest)) then [0x5c, 0x75, 0x66, 0x66, 0x66, 0x64] ++ jsonBodyGo f rest
      else if (jDecodeRune (c :: rest)).1 == 0x2028 || (jDecodeRune (c :: rest)).1 == 0x2029 then
        [0x5c, 0x75, 0x32, 0x30, 0x32, hexDigit ((jDecodeRune (c :: rest)).1 % 16)] ++
          jsonBodyGo f ((c :: rest).drop (jDecodeRune (c :: rest)).2)
      else (c :: rest).take (jDecodeRune (c :: rest)).2 ++ jsonBodyGo f ((c :: rest).drop (jDecodeRune (c :: rest)).2) := by
  simp only [jsonBodyGo, h, if_false]

theorem hi_facts (c : UInt8) (h : ¬ c.toNat < 0x80) : (c == 0x22) = false ∧ (c == 0x5c) = false ∧ ¬ c.toNat < 0x20 := by
  have := forall_byte' (fun c => decide (c.toNat < 0x80) || (!(c == 0x22) && !(c == 0x5c) && !decide (c.toNat < 0x20)))
    (by decide +kernel) c
  simp only [h, decide_false, Bool.false_or, Bool.and_eq_true, Bool.not_eq_true', decide_eq_false_iff_not] at this
  exact ⟨this.1.1, this.1.2, this.2⟩

theorem junqGo_hi (f : Nat) (c : UInt8) (rest : Bytes) (h : ¬ c.toNat < 0x80) :
    junqGo (f + 1) (c :: rest) =
      if jBad (jDecodeRune (c :: rest)) then jpre [0xEF, 0xBF, 0xBD] (junqGo f rest)
      else jpre ((c :: rest).take (jDecodeRune (c :: rest)).2) (junqGo f ((c :: rest).drop (jDecodeRune (c :: rest)).2)) := by
  obtain ⟨a, b, d⟩ := hi_facts c h
  simp only [junqGo, a, b, d, h, if_false, Bool.false_eq_true]

/-- a valid multi-byte sequence, copied by the encoder, is copied by the decoder -/
theorem junqGo_multi (f : Nat) (c : UInt8) (rest tail : Bytes) (h : ¬ c.toNat < 0x80)
    (hv : jBad (jDecodeRune (c :: rest)) = false) :
    junqGo (f + 1) ((c :: rest).take (jDecodeRune (c :: rest)).2 ++ tail) =
      jpre ((c :: rest).take (jDecodeRune (c :: rest)).2) (junqGo f tail) := by
  obtain ⟨pre, t, rfl, hk, hpre⟩ := jDecodeRune_inv c rest h hv
  have e : (c :: (pre ++ t)).take (jDecodeRune (c :: (pre ++ t))).2 = c :: pre := by
    rw [hk]; simp
  rw [e]
  show junqGo (f + 1) (c :: (pre ++ tail)) = _
  rw [junqGo_hi f c (pre ++ tail) h, hpre tail, hv, hk]
  simp

/-- a byte that starts no valid sequence, written as backslash `ufffd`, is read as EF BF BD -/
theorem junqGo_fffd (f : Nat) (tail : Bytes) :
    junqGo (f + 1) ([0x5c, 0x75, 0x66, 0x66, 0x66, 0x64] ++ tail) = jpre [0xEF, 0xBF, 0xBD] (junqGo f tail) := by
  have e1 : hex4 0x66 0x66 0x66 0x64 = some 0xFFFD := by decide +kernel
  have e2 : isSurrogate 0xFFFD = false := by decide +kernel
  have e3 : encodeRune 0xFFFD = [0xEF, 0xBF, 0xBD] := by decide +kernel
  simp [junqGo, e1, e2, e3]

theorem junqGo_ls (f : Nat) (tail : Bytes) (v : Nat) (hr : v = 0x2028 ∨ v = 0x2029) :
    junqGo (f + 1) ([0x5c, 0x75, 0x32, 0x30, 0x32, hexDigit (v % 16)] ++ tail) =
      jpre [0xE2, 0x80, UInt8.ofNat (v - 0x2028 + 0xA8)] (junqGo f tail) := by
  rcases hr with rfl | rfl
  · have e0 : hexDigit (0x2028 % 16) = 0x38 := by decide +kernel
    have e1 : hex4 0x32 0x30 0x32 0x38 = some 0x2028 := by decide +kernel
    have e2 : isSurrogate 0x2028 = false := by decide +kernel
    have e3 : encodeRune 0x2028 = [0xE2, 0x80, 0xA8] := by decide +kernel
    simp [junqGo, e0, e1, e2, e3]
  · have e0 : hexDigit (0x2029 % 16) = 0x39 := by decide +kernel
    have e1 : hex4 0x32 0x30 0x32 0x39 = some 0x2029 := by decide +kernel
    have e2 : isSurrogate 0x2029 = false := by decide +kernel
    have e3 : encodeRune 0x2029 = [0xE2, 0x80, 0xA9] := by decide +kernel
    simp [junqGo, e0, e1, e2, e3]

theorem encAscii_length_pos (c : UInt8) : 1 ≤ (encAscii c).length := by
  unfold encAscii
  repeat' split
  all_goals simp

theorem junqGo_ascii (f : Nat) (c : UInt8) (tail : Bytes) (h : c.toNat < 0x80) :
    junqGo (f + 1) (encAscii c ++ tail) = jpre [c] (junqGo f tail) := by
  have F1 := forall_byte' (fun c => hex4 0x30 0x30 (hexDigit (c.toNat / 16)) (hexDigit (c.toNat % 16)) == some c.toNat)
    (by decide +kernel) c
  have F2 := forall_byte' (fun c => !decide (c.toNat < 0x80) || (encodeRune c.toNat == [c] && !isSurrogate c.toNat))
    (by decide +kernel) c
  have F3 := forall_byte' (fun c => !htmlSafe c || (!(c == 0x22) && !(c == 0x5c) && !decide (c.toNat < 0x20)))
    (by decide +kernel) c
  simp only [h, decide_true, Bool.not_true, Bool.false_or, Bool.and_eq_true, beq_iff_eq, Bool.not_eq_true'] at F1 F2
  unfold encAscii
  by_cases hs : htmlSafe c = true
  · simp only [hs, Bool.not_true, Bool.false_or, Bool.and_eq_true, Bool.not_eq_true', decide_eq_false_iff_not] at F3
    simp only [hs, if_true, List.cons_append, List.nil_append, junqGo, F3.1.1, F3.1.2, F3.2, h, if_false,
      Bool.false_eq_true]
  simp only [hs]
  by_cases h1 : (c == 0x5c || c == 0x22) = true
  · simp only [h1, if_true]
    simp only [Bool.or_eq_true, beq_iff_eq] at h1
    rcases h1 with rfl | rfl <;> simp [junqGo, simpleEsc]
  simp only [h1]
  by_cases h2 : (c == 0x08) = true
  · simp only [beq_iff_eq] at h2; subst h2; simp [junqGo, simpleEsc]
  simp only [h2]
  by_cases h3 : (c == 0x0c) = true
  · simp only [beq_iff_eq] at h3; subst h3; simp [junqGo, simpleEsc]
  simp only [h3]
  by_cases h4 : (c == 0x0a) = true
  · simp only [beq_iff_eq] at h4; subst h4; simp [junqGo, simpleEsc]
  simp only [h4]
  by_cases h5 : (c == 0x0d) = true
  · simp only [beq_iff_eq] at h5; subst h5; simp [junqGo, simpleEsc]
  simp only [h5]
  by_cases h6 : (c == 0x09) = true
  · simp only [beq_iff_eq] at h6; subst h6; simp [junqGo, simpleEsc]
  simp only [h6]
  simp [junqGo, F1, F2.1, F2.2]

/-! ## 1. the decoder reads what the encoder wrote: `Unmarshal(Marshal(s)) = jsanitize s` -/

theorem junq_body : ∀ (n : Nat) (s : Bytes), s.length ≤ n → ∀ (f1 f2 f3 : Nat) (rest : Bytes),
    s.length < f1 → s.length < f2 → (jsonBodyGo f1 s).length < f3 →
    junqGo f3 (jsonBodyGo f1 s ++ 0x22 :: rest) = some (jsanGo f2 s, rest) := by
  intro n
  induction n with
  | zero =>
    intro s hs f1 f2 f3 rest h1 h2 h3
    have : s = [] := List.length_eq_zero_iff.mp (by omega)
    subst this
    obtain ⟨g3, rfl⟩ : ∃ g, f3 = g + 1 := ⟨f3 - 1, by omega⟩
    simp [jsonBodyGo_nil, jsanGo_nil, junqGo]
  | succ n ih =>
    intro s hs f1 f2 f3 rest h1 h2 h3
    cases s with
    | nil =>
      obtain ⟨g3, rfl⟩ : ∃ g, f3 = g + 1 := ⟨f3 - 1, by omega⟩
      simp [jsonBodyGo_nil, jsanGo_nil, junqGo]
    | cons c r =>
      simp only [List.length_cons] at hs h1 h2
      obtain ⟨g1, rfl⟩ : ∃ g, f1 = g + 1 := ⟨f1 - 1, by omega⟩
      obtain ⟨g2, rfl⟩ : ∃ g, f2 = g + 1 := ⟨f2 - 1, by omega⟩
      obtain ⟨g3, rfl⟩ : ∃ g, f3 = g + 1 := ⟨f3 - 1, by omega⟩
      by_cases hc : c.toNat < 0x80
      · rw [jsonBodyGo_lo g1 c r hc] at h3 ⊢
        rw [jsanGo_lo g2 c r hc, List.append_assoc, junqGo_ascii g3 c _ hc]
        have hl := encAscii_length_pos c
        rw [List.length_append] at h3
        rw [ih r (by omega) g1 g2 g3 rest (by omega) (by omega) (by omega)]
        simp [jpre]
      · rw [jsonBodyGo_hi g1 c r hc] at h3 ⊢
        rw [jsanGo_hi g2 c r hc]
        by_cases hb : jBad (jDecodeRune (c :: r)) = true
        · simp only [hb, if_true] at h3 ⊢
          rw [List.append_assoc, junqGo_fffd]
          rw [List.length_append] at h3
          simp only [List.length_cons, List.length_nil] at h3
          rw [ih r (by omega) g1 g2 g3 rest (by omega) (by omega) (by omega)]
          simp [jpre]
        · have hb' : jBad (jDecodeRune (c :: r)) = false := by simpa using hb
          simp only [hb', Bool.false_eq_true, if_false] at h3 ⊢
          obtain ⟨pre, t, hrt, hk, _⟩ := jDecodeRune_inv c r hc hb'
          have hdrop : (c :: r).drop (jDecodeRune (c :: r)).2 = t := by
            rw [hk, hrt]; simp
          have htl : t.length ≤ n := by
            have : r.length = pre.length + t.length := by rw [hrt]; simp
            omega
          have htl' : t.length ≤ r.length := by rw [hrt]; simp
          rw [hdrop] at h3 ⊢
          by_cases hls : ((jDecodeRune (c :: r)).1 == 0x2028 || (jDecodeRune (c :: r)).1 == 0x2029) = true
          · simp only [hls, if_true] at h3 ⊢
            have hr : (jDecodeRune (c :: r)).1 = 0x2028 ∨ (jDecodeRune (c :: r)).1 = 0x2029 := by
              simpa using hls
            obtain ⟨x, t2, e0, er, ex, ek⟩ := jDecodeRune_ls c r hc hb' _ rfl hr
            rw [List.append_assoc, junqGo_ls g3 _ _ hr]
            rw [List.length_append] at h3
            simp only [List.length_cons, List.length_nil] at h3
            rw [ih t htl g1 g2 g3 rest (by omega) (by omega) (by omega)]
            have ec : c = 0xE2 := UInt8.toNat_inj.mp e0
            have ex' : x = UInt8.ofNat ((jDecodeRune (c :: r)).1 - 0x2028 + 0xA8) := by
              apply UInt8.toNat_inj.mp
              rw [ex]
              rcases hr with h | h <;> rw [h] <;> rfl
            rw [ek, ← ex', er, ec]
            simp [jpre]
          · simp only [hls, Bool.false_eq_true, if_false] at h3 ⊢
            rw [List.append_assoc, junqGo_multi g3 c r _ hc hb']
            rw [List.length_append] at h3
            have hpos : 1 ≤ (List.take (jDecodeRune (c :: r)).2 (c :: r)).length := by
              rw [hk]; simp
            rw [ih t htl g1 g2 g3 rest (by omega) (by omega) (by omega)]
            simp [jpre]

theorem junquote_jsonString (s rest : Bytes) : junquote (jsonString s ++ rest) = some (jsanitize s, rest) := by
  unfold jsonString junquote jsanitize
  simp only [List.cons_append, beq_self_eq_true, if_true, List.append_assoc, List.nil_append]
  exact junq_body s.length s (Nat.le_refl _) _ _ _ rest (by omega) (by omega) (by simp; omega)

/-! ## 2. the array of objects -/

theorem expect_append (l t : Bytes) : expect l (l ++ t) = some t := by
  induction l with
  | nil => cases t <;> rfl
  | cons a l ih => simp [expect, ih]

theorem decPipe_encPipe (p : Pipe) (rest : Bytes) : decPipe (encPipe p ++ rest) = some (sanitizePipe p, rest) := by
  have e : encPipe p ++ rest = keyName ++ (jsonString p.name ++ (keyTags ++ (jsonString p.tagsCond ++
      (keyFlt ++ (jsonString p.fltCond ++ ([0x7d] ++ rest)))))) := by
    simp [encPipe, List.append_assoc]
  rw [e]
  unfold decPipe
  simp only [expect_append, junquote_jsonString]
  rfl

theorem decList_enc : ∀ (ps : List Pipe) (p : Pipe) (f : Nat), ps.length < f →
    decList f (encPipe p ++ encTail ps) = some (sanitizePipe p :: ps.map sanitizePipe) := by
  intro ps
  induction ps with
  | nil =>
    intro p f hf
    obtain ⟨g, rfl⟩ : ∃ g, f = g + 1 := ⟨f - 1, by omega⟩
    simp [decList, encTail, decPipe_encPipe]
  | cons q qs ih =>
    intro p f hf
    simp only [List.length_cons] at hf
    obtain ⟨g, rfl⟩ : ∃ g, f = g + 1 := ⟨f - 1, by omega⟩
    simp only [decList, encTail, decPipe_encPipe]
    rw [ih q g (by omega)]
    simp

theorem encTail_length (ps : List Pipe) : ps.length < (encTail ps).length := by
  induction ps with
  | nil => simp [encTail]
  | cons p ps ih => simp only [encTail, List.length_cons, List.length_append]; omega

theorem decPipes_encPipes (ps : List Pipe) : decPipes (encPipes ps) = some (ps.map sanitizePipe) := by
  cases ps with
  | nil => decide
  | cons p ps =>
    obtain ⟨X, hX⟩ : ∃ X, encPipe p = 0x7b :: X := ⟨_, rfl⟩
    have hr : encPipe p ++ encTail ps = 0x7b :: (X ++ encTail ps) := by rw [hX]; rfl
    have hl := encTail_length ps
    have h := decList_enc ps p ((encPipe p ++ encTail ps).length + 1) (by rw [List.length_append]; omega)
    rw [hr] at h
    simp only [encPipes, hr, decPipes, List.map_cons]
    exact h

/-! ## 3. the codec is the identity on valid UTF-8 -/

theorem validGo_lo (f : Nat) (c : UInt8) (rest : Bytes) (h : c.toNat < 0x80) :
    validGo (f + 1) (c :: rest) = validGo f rest := by
  simp only [validGo, h, if_true]

theorem validGo_hi (f : Nat) (c : UInt8) (rest : Bytes) (h : ¬ c.toNat < 0x80) :
    validGo (f + 1) (c :: rest) =
      if jBad (jDecodeRune (c :: rest)) then false else validGo f ((c :: rest).drop (jDecodeRune (c :: rest)).2) := by
  simp only [validGo, h, if_false]

theorem jsan_valid : ∀ (n : Nat) (s : Bytes), s.length ≤ n → ∀ (f1 f2 : Nat), s.length < f1 → s.length < f2 →
    validGo f1 s = true → jsanGo f2 s = s := by
  intro n
  induction n with
  | zero =>
    intro s hs f1 f2 _ _ _
    have : s = [] := List.length_eq_zero_iff.mp (by omega)
    subst this
    exact jsanGo_nil f2
  | succ n ih =>
    intro s hs f1 f2 h1 h2 hv
    cases s with
    | nil => exact jsanGo_nil f2
    | cons c r =>
      simp only [List.length_cons] at hs h1 h2
      obtain ⟨g1, rfl⟩ : ∃ g, f1 = g + 1 := ⟨f1 - 1, by omega⟩
      obtain ⟨g2, rfl⟩ : ∃ g, f2 = g + 1 := ⟨f2 - 1, by omega⟩
      by_cases hc : c.toNat < 0x80
      · rw [validGo_lo g1 c r hc] at hv
        rw [jsanGo_lo g2 c r hc, ih r (by omega) g1 g2 (by omega) (by omega) hv]
      · rw [validGo_hi g1 c r hc] at hv
        rw [jsanGo_hi g2 c r hc]
        by_cases hb : jBad (jDecodeRune (c :: r)) = true
        · simp [hb] at hv
        · have hb' : jBad (jDecodeRune (c :: r)) = false := by simpa using hb
          simp only [hb', Bool.false_eq_true, if_false] at hv ⊢
          obtain ⟨pre, t, hrt, hk, _⟩ := jDecodeRune_inv c r hc hb'
          have hdrop : (c :: r).drop (jDecodeRune (c :: r)).2 = t := by
            rw [hk, hrt]; simp
          have hlen : r.length = pre.length + t.length := by rw [hrt]; simp
          rw [hdrop] at hv
          have := ih t (by omega) g1 g2 (by omega) (by omega) hv
          rw [hdrop, this, ← hdrop]
          exact List.take_append_drop _ _

theorem jsanitize_valid (s : Bytes) (h : validUtf8 s = true) : jsanitize s = s :=
  jsan_valid s.length s (Nat.le_refl _) _ _ (by omega) (by omega) h

theorem sanitizePipe_valid (p : Pipe) (h : pipeUtf8 p = true) : sanitizePipe p = p := by
  simp only [pipeUtf8, Bool.and_eq_true] at h
  obtain ⟨⟨h1, h2⟩, h3⟩ := h
  cases p
  simp only [sanitizePipe] at *
  rw [jsanitize_valid _ h1, jsanitize_valid _ h2, jsanitize_valid _ h3]

theorem codec_round_trip_utf8 (ps : List Pipe) (h : ps.all pipeUtf8 = true) : decPipes (encPipes ps) = some ps := by
  rw [decPipes_encPipes]
  congr 1
  have h' := List.all_eq_true.mp h
  induction ps with
  | nil => rfl
  | cons p ps ih =>
    simp only [List.map_cons]
    rw [sanitizePipe_valid p (h' p (by simp)), ih]
    · simp only [List.all_cons, Bool.and_eq_true] at h; exact h.2
    · intro x hx; exact h' x (by simp [hx])

/-! ## 4. `Init`'s loop over distinct names rebuilds the list -/

theorem loadMap_foldl : ∀ (l : List Pipe) (r : Reg), ((r ++ l).map (·.name)).Nodup →
    l.foldl (fun (r : Reg) (p : Pipe) => if (r.find p.name).isSome then r.map (fun q => if q.name == p.name then p else q) else r ++ [p]) r
      = r ++ l := by
  intro l
  induction l with
  | nil => intro r _; simp
  | cons p l ih =>
    intro r h
    have hfind : r.find p.name = none := by
      unfold Reg.find
      rw [List.find?_eq_none]
      intro x hx hxe
      rw [List.map_append, List.nodup_append] at h
      have := h.2.2 x.name (List.mem_map.mpr ⟨x, hx, rfl⟩) p.name (by simp)
      simp only [beq_iff_eq] at hxe
      exact this hxe
    simp only [List.foldl_cons, hfind, Option.isSome_none, Bool.false_eq_true, if_false]
    rw [ih (r ++ [p]) (by simpa [List.append_assoc] using h)]
    simp [List.append_assoc]

theorem loadMap_nodup (l : List Pipe) (h : (l.map (·.name)).Nodup) : loadMap l = l := by
  unfold loadMap
  rw [loadMap_foldl l [] (by simpa using h)]
  rfl

/-! ## 3b. `jsanitize` produces valid UTF-8 and is idempotent -/

theorem jBad_fffd (t : Bytes) : jDecodeRune (0xEF :: 0xBF :: 0xBD :: t) = (0xFFFD, 3) := by
  simp [jDecodeRune]

theorem valid_jsan : ∀ (n : Nat) (s : Bytes), s.length ≤ n → ∀ (f1 f2 : Nat), s.length < f1 →
    (jsanGo f1 s).length < f2 → validGo f2 (jsanGo f1 s) = true := by
  intro n
  induction n with
  | zero =>
    intro s hs f1 f2 _ _
    have : s = [] := List.length_eq_zero_iff.mp (by omega)
    subst this
    rw [jsanGo_nil]; exact validGo_nil f2
  | succ n ih =>
    intro s hs f1 f2 h1 h2
    cases s with
    | nil => rw [jsanGo_nil]; exact validGo_nil f2
    | cons c r =>
      simp only [List.length_cons] at hs h1
      obtain ⟨g1, rfl⟩ : ∃ g, f1 = g + 1 := ⟨f1 - 1, by omega⟩
      obtain ⟨g2, rfl⟩ : ∃ g, f2 = g + 1 := ⟨f2 - 1, by omega⟩
      by_cases hc : c.toNat < 0x80
      · rw [jsanGo_lo g1 c r hc] at h2 ⊢
        simp only [List.length_cons] at h2
        rw [validGo_lo g2 c _ hc]
        exact ih r (by omega) g1 g2 (by omega) (by omega)
      · rw [jsanGo_hi g1 c r hc] at h2 ⊢
        by_cases hb : jBad (jDecodeRune (c :: r)) = true
        · simp only [hb, if_true] at h2 ⊢
          simp only [List.cons_append, List.nil_append, List.length_cons] at h2 ⊢
          rw [validGo_hi g2 _ _ (by decide), jBad_fffd]
          simp only [jBad, List.drop_succ_cons, List.drop_zero]
          have := ih r (by omega) g1 g2 (by omega) (by omega)
          simpa [jRuneError] using this
        · have hb' : jBad (jDecodeRune (c :: r)) = false := by simpa using hb
          simp only [hb', Bool.false_eq_true, if_false] at h2 ⊢
          obtain ⟨pre, t, hrt, hk, hpre⟩ := jDecodeRune_inv c r hc hb'
          have hdrop : (c :: r).drop (jDecodeRune (c :: r)).2 = t := by
            rw [hk, hrt]; simp
          have htake : (c :: r).take (jDecodeRune (c :: r)).2 = c :: pre := by
            rw [hk, hrt]; simp
          have hlen : r.length = pre.length + t.length := by rw [hrt]; simp
          rw [hdrop, htake] at h2 ⊢
          simp only [List.cons_append, List.length_cons, List.length_append] at h2 ⊢
          rw [validGo_hi g2 c _ hc, hpre, hb', hk]
          simp only [Bool.false_eq_true, if_false]
          have e : List.drop (pre.length + 1) (c :: (pre ++ jsanGo g1 t)) = jsanGo g1 t := by simp
          rw [e]
          exact ih t (by omega) g1 g2 (by omega) (by omega)

theorem validUtf8_jsanitize (s : Bytes) : validUtf8 (jsanitize s) = true := by
  show validGo ((jsanGo (s.length + 1) s).length + 1) (jsanGo (s.length + 1) s) = true
  exact valid_jsan s.length s (Nat.le_refl _) _ _ (by omega) (by omega)

theorem jsanitize_idem (s : Bytes) : jsanitize (jsanitize s) = jsanitize s :=
  jsanitize_valid _ (validUtf8_jsanitize s)

/-! ## 5. the machine on bytes simulates the machine on lists, for UTF-8 definitions -/

def opU : Op → Bool
  | .create p _ => pipeUtf8 p
  | .ensure p _ => pipeUtf8 p
  | _ => true

/-- the definition a create / ensure carries is valid UTF-8 -/
def opUtf8 : POp → Bool
  | .op o => opU o
  | _ => true

theorem opU_withAcc (acc : Pipe → Bool) (o : Op) : opU (withAcc acc o) = opU o := by
  cases o <;> rfl

theorem step_utf8 (r : Reg) (o : Op) (hr : ∀ q ∈ r, pipeUtf8 q = true) (ho : opU o = true) :
    ∀ q ∈ (step r o).1, pipeUtf8 q = true := by
  cases o with
  | create p ok =>
    simp only [step, create]
    cases hf : r.find p.name with
    | some _ => exact hr
    | none =>
      cases ok with
      | false => exact hr
      | true =>
        intro q hq
        simp only [if_true, List.mem_cons] at hq
        rcases hq with rfl | hq
        · exact ho
        · exact hr q hq
  | ensure p ok =>
    simp only [step, ensure]
    cases hf : r.find p.name with
    | some _ => simp only []; split <;> exact hr
    | none =>
      cases ok with
      | false => exact hr
      | true =>
        intro q hq
        simp only [if_true, List.mem_cons] at hq
        rcases hq with rfl | hq
        · exact ho
        · exact hr q hq
  | delete n =>
    simp only [step]
    cases hf : r.find n with
    | some _ => intro q hq; exact hr q (List.mem_filter.mp hq).1
    | none => exact hr
  | get n =>
    simp only [step]
    cases hf : r.find n <;> exact hr

def DiskGood (d : Option (List Pipe)) : Prop :=
  ∀ l, d = some l → (l.map (·.name)).Nodup ∧ l.all pipeUtf8 = true

def JSim (j : JState) (p : PState) : Prop :=
  j.mem = p.mem ∧ j.file = p.disk.map encPipes ∧ (p.mem.map (·.name)).Nodup ∧ (∀ q ∈ p.mem, pipeUtf8 q = true) ∧
    DiskGood p.disk

theorem jload_sim (acc : Pipe → Bool) (d : Option (List Pipe)) (hd : DiskGood d) :
    jload acc (d.map encPipes) = pload acc d := by
  cases d with
  | none => simp [jload, pload]
  | some l =>
    obtain ⟨h1, h2⟩ := hd l rfl
    simp only [Option.map_some, jload, codec_round_trip_utf8 l h2, loadMap_nodup l h1, pload, Option.getD_some]

theorem pload_good (acc : Pipe → Bool) (d : Option (List Pipe)) (hd : DiskGood d) (m : Reg) (h : pload acc d = some m) :
    (m.map (·.name)).Nodup ∧ ∀ q ∈ m, pipeUtf8 q = true := by
  unfold pload at h
  simp only [] at h
  split at h
  · cases h
    cases d with
    | none => simp
    | some l =>
      obtain ⟨h1, h2⟩ := hd l rfl
      exact ⟨h1, List.all_eq_true.mp h2⟩
  · cases h

/-- `Init` on the file / on the list -/
def jstart (acc : Pipe → Bool) (file : Option Bytes) : JState × Option Res :=
  match jload acc file with
  | some m => (⟨m, file⟩, none)
  | none => (⟨[], file⟩, some .failed)

def pstart (acc : Pipe → Bool) (disk : Option (List Pipe)) : PState × Option Res :=
  match pload acc disk with
  | some m => (⟨m, disk⟩, none)
  | none => (⟨[], disk⟩, some .failed)

theorem start_sim (acc : Pipe → Bool) (d : Option (List Pipe)) (hd : DiskGood d) :
    JSim (jstart acc (d.map encPipes)).1 (pstart acc d).1 ∧ (jstart acc (d.map encPipes)).2 = (pstart acc d).2 := by
  unfold jstart pstart
  rw [jload_sim acc d hd]
  cases h : pload acc d with
  | some m =>
    obtain ⟨g1, g2⟩ := pload_good acc d hd m h
    exact ⟨⟨rfl, rfl, g1, g2, hd⟩, rfl⟩
  | none => exact ⟨⟨rfl, rfl, List.nodup_nil, by simp, hd⟩, rfl⟩

theorem jstep_sim (cfg : PCfg) (acc : Pipe → Bool) (j : JState) (p : PState) (o : POp)
    (h : JSim j p) (ho : opUtf8 o = true) :
    JSim (jstep cfg acc j o).1 (pstep cfg acc p o).1 ∧ (jstep cfg acc j o).2 = (pstep cfg acc p o).2 := by
  obtain ⟨hm, hf, hn, hu, hd⟩ := h
  cases o with
  | op o =>
    have ho' : opU (withAcc acc o) = true := by rw [opU_withAcc]; exact ho
    have hn' := step_nodup p.mem (withAcc acc o) hn
    have hu' := step_utf8 p.mem (withAcc acc o) hu ho'
    simp only [jstep, pstep, jopStep, opStep, hm]
    refine ⟨⟨rfl, ?_, hn', hu', ?_⟩, trivial⟩
    · by_cases hs : savesAfter cfg p.mem (withAcc acc o) = true
      · simp [hs]
      · simp [hs, hf]
    · intro l hl
      by_cases hs : savesAfter cfg p.mem (withAcc acc o) = true
      · simp only [hs, if_true, Option.some.injEq] at hl
        subst hl
        exact ⟨hn', List.all_eq_true.mpr hu'⟩
      · simp only [hs, Bool.false_eq_true, if_false] at hl
        exact hd l hl
  | restart =>
    have e1 : jstep cfg acc j .restart = jstart acc (if cfg.shutdownSaves then some (encPipes j.mem) else j.file) := rfl
    have e2 : pstep cfg acc p .restart = pstart acc (if cfg.shutdownSaves then some p.mem else p.disk) := rfl
    have e3 : (if cfg.shutdownSaves then some (encPipes j.mem) else j.file) =
        (if cfg.shutdownSaves then some p.mem else p.disk).map encPipes := by
      cases cfg.shutdownSaves <;> simp [hm, hf]
    rw [e1, e2, e3]
    apply start_sim
    intro l hl
    by_cases hs : cfg.shutdownSaves = true
    · simp only [hs, if_true, Option.some.injEq] at hl
      subst hl
      exact ⟨hn, List.all_eq_true.mpr hu⟩
    · simp only [hs, Bool.false_eq_true, if_false] at hl
      exact hd l hl
  | crash =>
    have e1 : jstep cfg acc j .crash = jstart acc j.file := rfl
    have e2 : pstep cfg acc p .crash = pstart acc p.disk := rfl
    rw [e1, e2, hf]
    exact start_sim acc p.disk hd

theorem jrun_sim (cfg : PCfg) (acc : Pipe → Bool) : ∀ (ops : List POp) (j : JState) (p : PState), JSim j p →
    ops.all opUtf8 = true → JSim (jrun cfg acc j ops) (prun cfg acc p ops) := by
  intro ops
  induction ops with
  | nil => intro j p h _; exact h
  | cons o os ih =>
    intro j p h ho
    simp only [List.all_cons, Bool.and_eq_true] at ho
    simp only [jrun, prun]
    exact ih _ _ (jstep_sim cfg acc j p o h ho.1).1 ho.2

theorem jrun_simulates (cfg : PCfg) (acc : Pipe → Bool) (ops : List POp) (h : ops.all opUtf8 = true) :
    (jrun cfg acc ⟨[], none⟩ ops).mem = (prun cfg acc ⟨[], none⟩ ops).mem ∧
    (jrun cfg acc ⟨[], none⟩ ops).file = (prun cfg acc ⟨[], none⟩ ops).disk.map encPipes := by
  have h0 : JSim ⟨[], none⟩ ⟨[], none⟩ := ⟨rfl, rfl, List.nodup_nil, by simp, by intro l hl; cases hl⟩
  have := jrun_sim cfg acc ops _ _ h0 h
  exact ⟨this.1, this.2.1⟩

/-! ## 6. outside UTF-8 (kernel-evaluated) -/

/-- a pipe name that is not valid UTF-8 comes back as another name -/
theorem cex_json_changes_name :
    decPipes (encPipes [⟨[0xff], [], []⟩]) = some [⟨[0xEF, 0xBF, 0xBD], [], []⟩] := by decide +kernel

/-- two registered pipes with different (non-UTF-8) names are one pipe after the restart -/
theorem cex_json_merges_names :
    (decPipes (encPipes [⟨[0xff], [97], []⟩, ⟨[0xfe], [98], []⟩])).map loadMap = some [⟨[0xEF, 0xBF, 0xBD], [98], []⟩] := by
  decide +kernel

/-- the text of `pipes.dat` for the name `a"\<` newline `é` U+2028 (bytes 61 22 5c 3c 0a c3a9 e280a8):
`[{"Name":"a\"\\` + backslash `u003c\n` + c3 a9 + backslash `u2028","TagsCond":"","FltCond":""}]` -/
theorem ex_encPipes_text :
    encPipes [⟨[0x61, 0x22, 0x5c, 0x3c, 0x0a, 0xc3, 0xa9, 0xe2, 0x80, 0xa8], [], []⟩] =
      [0x5b, 0x7b, 0x22, 0x4e, 0x61, 0x6d, 0x65, 0x22, 0x3a,
       0x22, 0x61, 0x5c, 0x22, 0x5c, 0x5c, 0x5c, 0x75, 0x30, 0x30, 0x33, 0x63, 0x5c, 0x6e, 0xc3, 0xa9,
       0x5c, 0x75, 0x32, 0x30, 0x32, 0x38, 0x22,
       0x2c, 0x22, 0x54, 0x61, 0x67, 0x73, 0x43, 0x6f, 0x6e, 0x64, 0x22, 0x3a, 0x22, 0x22,
       0x2c, 0x22, 0x46, 0x6c, 0x74, 0x43, 0x6f, 0x6e, 0x64, 0x22, 0x3a, 0x22, 0x22, 0x7d, 0x5d] := by decide +kernel

/-- … and it is read back unchanged (the name is valid UTF-8) -/
theorem ex_decPipes_text :
    decPipes (encPipes [⟨[0x61, 0x22, 0x5c, 0x3c, 0x0a, 0xc3, 0xa9, 0xe2, 0x80, 0xa8], [], []⟩]) =
      some [⟨[0x61, 0x22, 0x5c, 0x3c, 0x0a, 0xc3, 0xa9, 0xe2, 0x80, 0xa8], [], []⟩] := by decide +kernel

/-- the whole machine: create `ff`, create `fe`, restart — the abstract machine keeps two pipes, the real file gives one -/
theorem cex_restart_loses_a_pipe :
    ((jrun ⟨true, true, true⟩ (fun _ => true) ⟨[], none⟩
        [.op (.create ⟨[0xff], [97], []⟩ true), .op (.create ⟨[0xfe], [98], []⟩ true), .restart]).mem,
     (prun ⟨true, true, true⟩ (fun _ => true) ⟨[], none⟩
        [.op (.create ⟨[0xff], [97], []⟩ true), .op (.create ⟨[0xfe], [98], []⟩ true), .restart]).mem) =
    ([⟨[0xEF, 0xBF, 0xBD], [97], []⟩], [⟨[0xfe], [98], []⟩, ⟨[0xff], [97], []⟩]) := by decide +kernel


end Logrange.Registry
