import Logrange.Proofs.LqlEngine
/-!
# C12: engine on the regenerated grammar simulates the direct parsers (part 2: `Condition`, `XCondition`, `OrCondition`,
`Expression`)

`simCond`, `simAlt`/`simX_step`, `simAndTail`/`simOr_step`, `simOrTail`/`simExpr_step`, `simExpr`: for every cursor, every
engine fuel ≥ 60·(remaining tokens)+58 and every direct-parser fuel ≥ 4·(remaining tokens)+5 the engine's result on the struct
and the direct parser's result on the remaining tokens are related by `Sim…` (same acceptance, same consumed tokens, values
related by `RExpr`; on rejection the engine's result is an error or a match that stops before an `AND`/`OR` it cannot continue).
-/
namespace Logrange.Lql
open Logrange.Generated.C12

/-- a disjunction of literals: first match, the token's text whichever literal matched -/
theorem disj_lits (c : Ctx) (cur : Nat) (o : Tok) (ho : c.toks[cur]? = some o) :
    ∀ (ls : List Bytes) (f : Nat), ls.length + 1 < f →
      parseDisj c f (ls.map Node.lit) cur none = if ls.any (fun l => litMatch o l) then .ok [.str o.v] [] (cur+1) else .noMatch
  | [], f, hf => by
    obtain ⟨g, rfl⟩ : ∃ g, f = g + 1 := ⟨f - 1, by omega⟩
    simp [parseDisj_nil]
  | l :: ls, f, hf => by
    obtain ⟨g, rfl⟩ : ∃ g, f = g + 2 := ⟨f - 2, by simp at hf; omega⟩
    have ih := disj_lits c cur o ho ls (g+1) (by simp at hf; omega)
    simp only [List.map_cons, parseDisj_cons, parse_lit, peek, ho, List.any_cons]
    by_cases h : litMatch o l = true
    · simp [h]
    · simp [h, ih]

theorem disj_lits_none (c : Ctx) (cur : Nat) (ho : c.toks[cur]? = none) :
    ∀ (ls : List Bytes) (f : Nat), ls.length + 1 < f → parseDisj c f (ls.map Node.lit) cur none = .noMatch
  | [], f, hf => by
    obtain ⟨g, rfl⟩ : ∃ g, f = g + 1 := ⟨f - 1, by omega⟩
    simp [parseDisj_nil]
  | l :: ls, f, hf => by
    obtain ⟨g, rfl⟩ : ∃ g, f = g + 2 := ⟨f - 2, by simp at hf; omega⟩
    have ih := disj_lits_none c cur ho ls (g+1) (by simp at hf; omega)
    simp only [List.map_cons, parseDisj_cons, parse_lit, peek, ho, ih]

/-- the operator literals of `Condition.Op` as the REGENERATED grammar lists them — in whatever order: only the set matters
(first match over literals that exclude each other), so a re-ordering of the alternatives in the struct tag does not break the proof,
whereas an added, removed or changed literal breaks `grammarOps_perm` -/
def grammarOps : List Bytes :=
  match grammar "Condition" with
  | some (.seq [_, .group (.capture _ (.group (.disj ns) _)) _, _]) =>
    ns.filterMap (fun n => match n with | .lit s => some s | _ => none)
  | _ => []
def opGroup : Node := .group (.capture "Op" (.group (.disj (grammarOps.map .lit)) .once)) .once
def valGroup : Node := .group (.disj [(.capture "Value" (.ref .string)), (.capture "Value" (.ref .ident)), (.capture "Value" (.ref .number))]) .once
def condBody : Node := .seq [(.capture "Ident" (.strct "Identifier")), opGroup, valGroup]
theorem g_cond : grammar "Condition" = some condBody := rfl
theorem grammarOps_perm : grammarOps.Perm condOps := by decide +kernel
theorem grammarOps_any (o : Tok) : grammarOps.any (fun l => litMatch o l) = isOpTok o := grammarOps_perm.any_eq
theorem grammarOps_len : grammarOps.length = 10 := by rw [grammarOps_perm.length_eq]; rfl

theorem opGroup_none (c : Ctx) (f cur : Nat) (hn : c.toks[cur]? = none) : parse c (f+16) opGroup cur = .noMatch := by
  have := disj_lits_none c cur hn grammarOps (f+12) (by rw [grammarOps_len]; omega)
  simp only [opGroup, parse_once, parse_capture, parse_disj, this]
theorem opGroup_some (c : Ctx) (f cur : Nat) (o : Tok) (ho : c.toks[cur]? = some o) :
    parse c (f+16) opGroup cur = if isOpTok o then .ok [.str []] [("Op", [.str o.v])] (cur+1) else .noMatch := by
  have := disj_lits c cur o ho grammarOps (f+12) (by rw [grammarOps_len]; omega)
  rw [grammarOps_any] at this
  simp only [opGroup, parse_once, parse_capture, parse_disj, this]
  cases isOpTok o <;> simp
theorem valGroup_none (c : Ctx) (f cur : Nat) (hn : c.toks[cur]? = none) : parse c (f+7) valGroup cur = .noMatch := by
  simp only [valGroup, parse_once, parse_capture, parse_disj, parseDisj_cons, parseDisj_nil, parse_ref, peek, hn]
theorem valGroup_some (c : Ctx) (f cur : Nat) (v : Tok) (hv : c.toks[cur]? = some v) :
    parse c (f+7) valGroup cur = if isValueTok v then .ok [.str []] [("Value", [.str v.v])] (cur+1) else .noMatch := by
  simp only [valGroup, parse_once, parse_capture, parse_disj, parseDisj_cons, parseDisj_nil, parse_ref, peek, hv, isValueTok]
  rcases v with ⟨t, x⟩
  cases t <;> simp

def valCond (cd : Cond) : Val := .node "Condition" [("Ident", [valIdent cd.ident]), ("Op", [.str cd.op]), ("Value", [.str cd.value])]

def SimCond (c : Ctx) (cur : Nat) (r : Res) (d : PR Cond) : Prop :=
  match d with
  | some (cd, rest) => ∃ cur', r = .ok [valCond cd] [] cur' ∧ rest = c.toks.drop cur' ∧ cur < cur' ∧ cur' ≤ c.toks.length
  | none => (r = .noMatch ∧ ¬ operandAt c cur) ∨ (∃ k, r = .err k true ∧ cur + 1 ≤ k ∧ operandAt c cur)

theorem LP_not_op (p : Tok) (h : litMatch p LP = true) : isOpTok p = false := by
  simp only [isOpTok, condOps, List.any_cons, List.any_nil, Bool.or_false, Bool.or_eq_false_iff]
  refine ⟨?_, ?_, ?_, ?_, ?_, ?_, ?_, ?_, ?_, ?_⟩ <;> exact litMatch_excl p _ _ (by decide) (by decide) h

theorem simCond (c : Ctx) (hg : c.grammar = grammar) (cur : Nat) (fe fd : Nat) (hcl : cur ≤ c.toks.length)
    (hfe : 60 * (c.toks.length - cur) + 40 ≤ fe) (hfd : 4 * (c.toks.length - cur) + 1 ≤ fd) :
    SimCond c cur (parse c fe (.strct "Condition") cur) (dCond fd (c.toks.drop cur)) := by
  obtain ⟨g, rfl⟩ : ∃ g, fe = g + 40 := ⟨fe - 40, by omega⟩
  have hin := simIdent c hg _ cur (Nat.le_refl _) (g+36) fd hcl (by omega) hfd
  rw [parse_strct c _ "Condition" condBody cur (by rw [hg]; rfl)]
  simp only [condBody, parse_seq, parseSeq_cons, parse_capture, dCond]
  generalize hr : parse c (g+36) (.strct "Identifier") cur = r at hin ⊢
  cases hd : dIdent fd (c.toks.drop cur) with
  | none =>
    rw [hd] at hin
    simp only [SimCond]
    rcases hin with ⟨rfl, hno⟩ | ⟨k', rfl, hk', hop⟩ | ⟨v, rfl, hop, p, hp, hpl⟩
    · left; exact ⟨by simp, hno⟩
    · right; exact ⟨k', by simp, by omega, hop⟩
    · right
      refine ⟨cur+1, ?_, by omega, hop⟩
      simp [opGroup_some c _ _ p hp, LP_not_op p hpl]
  | some res =>
    obtain ⟨i, rest1⟩ := res
    rw [hd] at hin
    obtain ⟨cur1, rfl, hrest, h1, h2, hopAt⟩ := hin
    subst hrest
    simp only []
    cases ho : c.toks[cur1]? with
    | none =>
      rw [drop_of_none ho]
      simp only [SimCond]
      right; exact ⟨cur1, by simp [show parse c (g+36) opGroup cur1 = .noMatch from opGroup_none c (g+20) cur1 ho], by omega, hopAt⟩
    | some o =>
      rw [drop_of_get ho]
      have hlo := lt_of_get ho
      cases hio : isOpTok o with
      | false =>
        have e : parse c (g + 36) opGroup cur1 = .noMatch := by
          have h := opGroup_some c (g+20) cur1 o ho; simp [hio] at h; exact h
        cases hv : c.toks[cur1+1]? with
        | none =>
          rw [drop_of_none hv]; simp only [SimCond]
          right; exact ⟨cur1, by simp [e], by omega, hopAt⟩
        | some v =>
          rw [drop_of_get hv]; simp only [SimCond, hio, Bool.false_and, Bool.false_eq_true, if_false]
          right; exact ⟨cur1, by simp [e], by omega, hopAt⟩
      | true =>
        have e : parse c (g + 36) opGroup cur1 = .ok [.str []] [("Op", [.str o.v])] (cur1+1) := by
          have h := opGroup_some c (g+20) cur1 o ho; simp [hio] at h; exact h
        cases hv : c.toks[cur1+1]? with
        | none =>
          rw [drop_of_none hv]; simp only [SimCond]
          right; exact ⟨cur1+1, by simp [e, show parse c (g+35) valGroup (cur1+1) = .noMatch from valGroup_none c (g+28) _ hv], by omega, hopAt⟩
        | some v =>
          have hlv := lt_of_get hv
          rw [drop_of_get hv]
          cases hiv : isValueTok v with
          | false =>
            simp only [SimCond, hio, hiv, Bool.and_false, Bool.false_eq_true, if_false]
            right; exact ⟨cur1+1, by simp [e, show parse c (g+35) valGroup (cur1+1) = _ from valGroup_some c (g+28) _ v hv, hiv], by omega, hopAt⟩
          | true =>
            simp only [SimCond, hio, hiv, Bool.and_true, if_true]
            exact ⟨cur1+1+1, by simp [e, show parse c (g+35) valGroup (cur1+1) = _ from valGroup_some c (g+28) _ v hv, hiv, parseSeq_nil, valCond], rfl, by omega, by omega⟩


/-! ## generic `{ "KW" @@ }` loop body: one evaluation step -/
def loopNode (kw : Bytes) (fl S : String) : Node := .seq [(.lit kw), (.capture fl (.strct S))]

theorem loop_step_none (c : Ctx) (kw : Bytes) (fl S : String) (f cur : Nat) (hn : c.toks[cur]? = none) :
    parse c (f+3) (loopNode kw fl S) cur = .noMatch := by
  simp only [loopNode, parse_seq, parseSeq_cons, parse_lit, peek, hn, if_true]
theorem loop_step_nolit (c : Ctx) (kw : Bytes) (fl S : String) (f cur : Nat) (t : Tok) (hn : c.toks[cur]? = some t)
    (hc : litMatch t kw = false) : parse c (f+3) (loopNode kw fl S) cur = .noMatch := by
  simp only [loopNode, parse_seq, parseSeq_cons, parse_lit, peek, hn, hc, if_true, Bool.false_eq_true, if_false]
theorem loop_step_lit (c : Ctx) (kw : Bytes) (fl S : String) (f cur : Nat) (t : Tok) (hn : c.toks[cur]? = some t)
    (hc : litMatch t kw = true) :
    parse c (f+5) (loopNode kw fl S) cur =
      (match parse c (f+1) (.strct S) (cur+1) with
       | .ok v cp cur' => .ok [.str t.v, .str []] (cp ++ [(fl, v)]) cur'
       | .noMatch => .err (cur+1) true
       | .err k _ => .err k true) := by
  simp only [loopNode, parse_seq, parseSeq_cons, parse_lit, parse_capture, peek, hn, hc, if_true]
  cases parse c (f+1) (.strct S) (cur+1) <;> simp [parseSeq_nil]

/-! ## value relations (the engine's generic values vs the typed AST) -/
def NotCaps (neg : Bool) (pre : Caps) : Prop := if neg then ∃ t, pre = [("Not", [.str t])] else pre = []

mutual
def RExpr : Expr → Val → Prop
  | .mk ors, v => ∃ caps, v = .node "Expression" caps ∧ ROrs ors caps
def ROrs : OrList → Caps → Prop
  | .nil, caps => caps = []
  | .cons h t, caps => ∃ vh ct, caps = ("Or", [vh]) :: ct ∧ ROr h vh ∧ ROrs t ct
def ROr : OrCond → Val → Prop
  | .mk xs, v => ∃ caps, v = .node "OrCondition" caps ∧ RXs xs caps
def RXs : XList → Caps → Prop
  | .nil, caps => caps = []
  | .cons h t, caps => ∃ vh ct, caps = ("And", [vh]) :: ct ∧ RX h vh ∧ RXs t ct
def RX : XCond → Val → Prop
  | .cond neg cd, v => ∃ pre, v = .node "XCondition" (pre ++ [("Cond", [valCond cd])]) ∧ NotCaps neg pre
  | .paren neg e, v => ∃ pre ve, v = .node "XCondition" (pre ++ [("Expr", [ve])]) ∧ NotCaps neg pre ∧ RExpr e ve
end

def SimX (c : Ctx) (cur : Nat) (r : Res) (d : PR XCond) : Prop :=
  match d with
  | some (x, rest) => ∃ v cur', r = .ok [v] [] cur' ∧ RX x v ∧ rest = c.toks.drop cur' ∧ cur < cur' ∧ cur' ≤ c.toks.length
  | none => ∃ k, r = .err k true ∧ cur ≤ k
def SimOr (c : Ctx) (cur : Nat) (r : Res) (d : PR OrCond) : Prop :=
  match d with
  | some (x, rest) => ∃ v cur', r = .ok [v] [] cur' ∧ ROr x v ∧ rest = c.toks.drop cur' ∧ cur < cur' ∧ cur' ≤ c.toks.length
  | none => (∃ k, r = .err k true ∧ cur ≤ k) ∨ (∃ v cur', r = .ok [v] [] cur' ∧ cur < cur' ∧ litAt c cur' kwAND)
def SimExpr (c : Ctx) (cur : Nat) (r : Res) (d : PR Expr) : Prop :=
  match d with
  | some (x, rest) => ∃ v cur', r = .ok [v] [] cur' ∧ RExpr x v ∧ rest = c.toks.drop cur' ∧ cur < cur' ∧ cur' ≤ c.toks.length
  | none => (∃ k, r = .err k true ∧ cur ≤ k) ∨ (∃ v cur', r = .ok [v] [] cur' ∧ cur < cur' ∧ (litAt c cur' kwAND ∨ litAt c cur' kwOR))

def SimXAt (c : Ctx) (cur : Nat) : Prop :=
  ∀ fe fd, 60 * (c.toks.length - cur) + 50 ≤ fe → 4 * (c.toks.length - cur) + 3 ≤ fd →
    SimX c cur (parse c fe (.strct "XCondition") cur) (dX fd (c.toks.drop cur))
def SimOrAt (c : Ctx) (cur : Nat) : Prop :=
  ∀ fe fd, 60 * (c.toks.length - cur) + 54 ≤ fe → 4 * (c.toks.length - cur) + 4 ≤ fd →
    SimOr c cur (parse c fe (.strct "OrCondition") cur) (dOr fd (c.toks.drop cur))
def SimExprAt (c : Ctx) (cur : Nat) : Prop :=
  ∀ fe fd, 60 * (c.toks.length - cur) + 58 ≤ fe → 4 * (c.toks.length - cur) + 5 ≤ fd →
    SimExpr c cur (parse c fe (.strct "Expression") cur) (dExpr fd (c.toks.drop cur))

/-- the hypothesis on token lists under which the direct parser's commitment "an operand token starts a condition" is
what the engine does too: no Ident / Keyword token has the text `(` (true of every token list the lexer produces) -/
def OperandNotParen (toks : List Tok) : Prop := ∀ t ∈ toks, isOperandTok t = true → litMatch t LP = false

theorem AND_not_OR (tk : Tok) (h : litMatch tk kwAND = true) : litMatch tk kwOR = false := litMatch_excl tk _ _ (by decide) (by decide) h
theorem AND_not_RP (tk : Tok) (h : litMatch tk kwAND = true) : litMatch tk RP = false := litMatch_excl tk _ _ (by decide) (by decide) h
theorem OR_not_RP (tk : Tok) (h : litMatch tk kwOR = true) : litMatch tk RP = false := litMatch_excl tk _ _ (by decide) (by decide) h


def SimAndTail (c : Ctx) (cur : Nat) (caps : Caps) (r : Res) (d : PR XList) : Prop :=
  match d with
  | some (xs, rest) => ∃ vals' caps' cur', r = .ok vals' (caps ++ caps') cur' ∧ RXs xs caps' ∧ rest = c.toks.drop cur' ∧ cur ≤ cur' ∧ cur' ≤ c.toks.length
  | none => (∃ k hv, r = .err k hv ∧ cur ≤ k) ∨ (∃ vals' caps' cur', r = .ok vals' caps' cur' ∧ cur ≤ cur' ∧ litAt c cur' kwAND)

theorem simAndTail (c : Ctx) (base : Nat) (hX : ∀ cur', base ≤ cur' → cur' ≤ c.toks.length → SimXAt c cur') :
    ∀ (k cur : Nat), c.toks.length - cur ≤ k → base ≤ cur → cur ≤ c.toks.length → ∀ (vals : List Val) (caps : Caps) (fe fd : Nat),
      60 * (c.toks.length - cur) + 30 ≤ fe → 4 * (c.toks.length - cur) + 1 ≤ fd →
      SimAndTail c cur caps (parseRep c fe (loopNode kwAND "And" "XCondition") cur vals caps) (dAndTail fd (c.toks.drop cur)) := by
  intro k
  induction k with
  | zero =>
    intro cur hk _ hcl vals caps fe fd hfe hfd
    obtain ⟨g, rfl⟩ : ∃ g, fe = g + 10 := ⟨fe - 10, by omega⟩
    obtain ⟨fd', rfl⟩ : ∃ g, fd = g + 1 := ⟨fd - 1, by omega⟩
    have hn : c.toks[cur]? = none := by simp; omega
    rw [drop_of_none hn, parseRep_succ, loop_step_none c _ _ _ _ cur hn]
    simp only [dAndTail, SimAndTail]
    exact ⟨vals, [], cur, by simp, by simp [RXs], (drop_of_none hn).symm, Nat.le_refl _, hcl⟩
  | succ k ih =>
    intro cur hk hb hcl vals caps fe fd hfe hfd
    obtain ⟨g, rfl⟩ : ∃ g, fe = g + 10 := ⟨fe - 10, by omega⟩
    obtain ⟨fd', rfl⟩ : ∃ g, fd = g + 1 := ⟨fd - 1, by omega⟩
    cases hn : c.toks[cur]? with
    | none =>
      rw [drop_of_none hn, parseRep_succ, loop_step_none c _ _ _ _ cur hn]
      simp only [dAndTail, SimAndTail]
      exact ⟨vals, [], cur, by simp, by simp [RXs], (drop_of_none hn).symm, Nat.le_refl _, hcl⟩
    | some t =>
      have hlt := lt_of_get hn
      rw [drop_of_get hn, parseRep_succ]
      cases hc : litMatch t kwAND with
      | false =>
        rw [loop_step_nolit c _ _ _ _ cur t hn hc]
        simp only [dAndTail, hc, SimAndTail, Bool.false_eq_true, if_false]
        exact ⟨vals, [], cur, by simp, by simp [RXs], (drop_of_get hn).symm, Nat.le_refl _, hcl⟩
      | true =>
        have hin := hX (cur+1) (by omega) (by omega) (g+5) fd' (by omega) (by omega)
        rw [loop_step_lit c _ _ _ _ cur t hn hc]
        simp only [dAndTail, hc, if_true]
        generalize hr : parse c (g+4+1) (.strct "XCondition") (cur+1) = r at hin ⊢
        cases hd : dX fd' (c.toks.drop (cur+1)) with
        | none =>
          rw [hd] at hin
          simp only [SimAndTail]
          obtain ⟨k', rfl, hk'⟩ := hin
          by_cases hgt : k' > cur + lookahead
          · left; exact ⟨k', true, by simp [hgt], by omega⟩
          · right; exact ⟨vals ++ [.str []], caps, cur, by simp [hgt], Nat.le_refl _, ⟨t, hn, hc⟩⟩
        | some res =>
          obtain ⟨x, rest1⟩ := res
          rw [hd] at hin
          obtain ⟨vx, cur2, rfl, hrx, hrest, hlt2, hle2⟩ := hin
          subst hrest
          have hloop := ih cur2 (by omega) (by omega) hle2 (vals ++ [.str t.v, .str []]) (caps ++ ([] ++ [("And", [vx])])) (g+9) fd' (by omega) (by omega)
          simp only [beq_iff_eq]
          rw [if_neg (by omega)]
          cases hd2 : dAndTail fd' (c.toks.drop cur2) with
          | none =>
            rw [hd2] at hloop
            simp only [SimAndTail] at hloop ⊢
            rcases hloop with ⟨k', hv, h1, h2⟩ | ⟨vals', caps', cur', h1, h2, h3⟩
            · left; exact ⟨k', hv, h1, by omega⟩
            · right; exact ⟨vals', caps', cur', h1, by omega, h3⟩
          | some res2 =>
            obtain ⟨xs, rest2⟩ := res2
            rw [hd2] at hloop
            simp only [SimAndTail] at hloop ⊢
            obtain ⟨vals', caps', cur', h1, hrxs, h2, h3, h4⟩ := hloop
            refine ⟨vals', ("And", [vx]) :: caps', cur', ?_, ?_, h2, by omega, h4⟩
            · rw [h1]; simp
            · simp only [RXs]; exact ⟨vx, caps', rfl, hrx, hrxs⟩


def SimOrTail (c : Ctx) (cur : Nat) (caps : Caps) (r : Res) (d : PR OrList) : Prop :=
  match d with
  | some (xs, rest) => ∃ vals' caps' cur', r = .ok vals' (caps ++ caps') cur' ∧ ROrs xs caps' ∧ rest = c.toks.drop cur' ∧ cur ≤ cur' ∧ cur' ≤ c.toks.length
  | none => (∃ k hv, r = .err k hv ∧ cur ≤ k)
      ∨ (∃ vals' caps' cur', r = .ok vals' caps' cur' ∧ cur ≤ cur' ∧ (litAt c cur' kwAND ∨ litAt c cur' kwOR))

theorem simOrTail (c : Ctx) (base : Nat) (hO : ∀ cur', base ≤ cur' → cur' ≤ c.toks.length → SimOrAt c cur') :
    ∀ (k cur : Nat), c.toks.length - cur ≤ k → base ≤ cur → cur ≤ c.toks.length → ∀ (vals : List Val) (caps : Caps) (fe fd : Nat),
      60 * (c.toks.length - cur) + 30 ≤ fe → 4 * (c.toks.length - cur) + 1 ≤ fd →
      SimOrTail c cur caps (parseRep c fe (loopNode kwOR "Or" "OrCondition") cur vals caps) (dOrTail fd (c.toks.drop cur)) := by
  intro k
  induction k with
  | zero =>
    intro cur hk _ hcl vals caps fe fd hfe hfd
    obtain ⟨g, rfl⟩ : ∃ g, fe = g + 10 := ⟨fe - 10, by omega⟩
    obtain ⟨fd', rfl⟩ : ∃ g, fd = g + 1 := ⟨fd - 1, by omega⟩
    have hn : c.toks[cur]? = none := by simp; omega
    rw [drop_of_none hn, parseRep_succ, loop_step_none c _ _ _ _ cur hn]
    simp only [dOrTail, SimOrTail]
    exact ⟨vals, [], cur, by simp, by simp [ROrs], (drop_of_none hn).symm, Nat.le_refl _, hcl⟩
  | succ k ih =>
    intro cur hk hb hcl vals caps fe fd hfe hfd
    obtain ⟨g, rfl⟩ : ∃ g, fe = g + 10 := ⟨fe - 10, by omega⟩
    obtain ⟨fd', rfl⟩ : ∃ g, fd = g + 1 := ⟨fd - 1, by omega⟩
    cases hn : c.toks[cur]? with
    | none =>
      rw [drop_of_none hn, parseRep_succ, loop_step_none c _ _ _ _ cur hn]
      simp only [dOrTail, SimOrTail]
      exact ⟨vals, [], cur, by simp, by simp [ROrs], (drop_of_none hn).symm, Nat.le_refl _, hcl⟩
    | some t =>
      have hlt := lt_of_get hn
      rw [drop_of_get hn, parseRep_succ]
      cases hc : litMatch t kwOR with
      | false =>
        rw [loop_step_nolit c _ _ _ _ cur t hn hc]
        simp only [dOrTail, hc, SimOrTail, Bool.false_eq_true, if_false]
        exact ⟨vals, [], cur, by simp, by simp [ROrs], (drop_of_get hn).symm, Nat.le_refl _, hcl⟩
      | true =>
        have hin := hO (cur+1) (by omega) (by omega) (g+5) fd' (by omega) (by omega)
        rw [loop_step_lit c _ _ _ _ cur t hn hc]
        simp only [dOrTail, hc, if_true]
        generalize hr : parse c (g+4+1) (.strct "OrCondition") (cur+1) = r at hin ⊢
        cases hd : dOr fd' (c.toks.drop (cur+1)) with
        | none =>
          rw [hd] at hin
          simp only [SimOrTail]
          rcases hin with ⟨k', rfl, hk'⟩ | ⟨v, cur', rfl, hlt', q, hq, hqa⟩
          · by_cases hgt : k' > cur + lookahead
            · left; exact ⟨k', true, by simp [hgt], by omega⟩
            · right; exact ⟨vals ++ [.str []], caps, cur, by simp [hgt], Nat.le_refl _, Or.inr ⟨t, hn, hc⟩⟩
          · right
            have hqo : litMatch q kwOR = false := AND_not_OR q hqa
            simp only [beq_iff_eq]
            rw [if_neg (by omega), parseRep_succ, loop_step_nolit c _ _ _ _ _ q hq hqo]
            exact ⟨_, _, cur', rfl, by omega, Or.inl ⟨q, hq, hqa⟩⟩
        | some res =>
          obtain ⟨x, rest1⟩ := res
          rw [hd] at hin
          obtain ⟨vx, cur2, rfl, hrx, hrest, hlt2, hle2⟩ := hin
          subst hrest
          have hloop := ih cur2 (by omega) (by omega) hle2 (vals ++ [.str t.v, .str []]) (caps ++ ([] ++ [("Or", [vx])])) (g+9) fd' (by omega) (by omega)
          simp only [beq_iff_eq]
          rw [if_neg (by omega)]
          cases hd2 : dOrTail fd' (c.toks.drop cur2) with
          | none =>
            rw [hd2] at hloop
            simp only [SimOrTail] at hloop ⊢
            rcases hloop with ⟨k', hv, h1, h2⟩ | ⟨vals', caps', cur', h1, h2, h3⟩
            · left; exact ⟨k', hv, h1, by omega⟩
            · right; exact ⟨vals', caps', cur', h1, by omega, h3⟩
          | some res2 =>
            obtain ⟨xs, rest2⟩ := res2
            rw [hd2] at hloop
            simp only [SimOrTail] at hloop ⊢
            obtain ⟨vals', caps', cur', h1, hrxs, h2, h3, h4⟩ := hloop
            refine ⟨vals', ("Or", [vx]) :: caps', cur', ?_, ?_, h2, by omega, h4⟩
            · rw [h1]; simp
            · simp only [ROrs]; exact ⟨vx, caps', rfl, hrx, hrxs⟩


def orBody : Node := .seq [(.capture "And" (.strct "XCondition")), (.group (loopNode kwAND "And" "XCondition") .zeroOrMore)]
theorem g_or : grammar "OrCondition" = some orBody := rfl
def exprBody : Node := .seq [(.capture "Or" (.strct "OrCondition")), (.group (loopNode kwOR "Or" "OrCondition") .zeroOrMore)]
theorem g_expr : grammar "Expression" = some exprBody := rfl

theorem simOr_step (c : Ctx) (hg : c.grammar = grammar) (cur : Nat) (hcl : cur ≤ c.toks.length)
    (hX : ∀ cur', cur ≤ cur' → cur' ≤ c.toks.length → SimXAt c cur') : SimOrAt c cur := by
  intro fe fd hfe hfd
  obtain ⟨g, rfl⟩ : ∃ g, fe = g + 54 := ⟨fe - 54, by omega⟩
  obtain ⟨fd', rfl⟩ : ∃ g, fd = g + 1 := ⟨fd - 1, by omega⟩
  have hin := hX cur (Nat.le_refl _) hcl (g+50) fd' (by omega) (by omega)
  rw [parse_strct c _ "OrCondition" orBody cur (by rw [hg]; rfl)]
  simp only [orBody, parse_seq, parseSeq_cons, parse_capture, parse_rep, dOr]
  generalize hr : parse c (g+50) (.strct "XCondition") cur = r at hin ⊢
  cases hd : dX fd' (c.toks.drop cur) with
  | none =>
    rw [hd] at hin
    obtain ⟨k, rfl, hk⟩ := hin
    simp only [SimOr]
    left; exact ⟨k, by simp, hk⟩
  | some res =>
    obtain ⟨x, rest1⟩ := res
    rw [hd] at hin
    obtain ⟨vx, cur1, rfl, hrx, hrest, h1, h2⟩ := hin
    subst hrest
    have hloop := simAndTail c cur hX _ cur1 (Nat.le_refl _) (by omega) h2 [] [] (g+49) fd' (by omega) (by omega)
    simp only []
    generalize hrep : parseRep c (g+49) (loopNode kwAND "And" "XCondition") cur1 [] [] = rr at hloop ⊢
    cases hd2 : dAndTail fd' (c.toks.drop cur1) with
    | none =>
      rw [hd2] at hloop
      simp only [SimAndTail] at hloop
      simp only [SimOr]
      rcases hloop with ⟨k', hv, rfl, hk'⟩ | ⟨vals', caps', cur2, rfl, hc2, hst⟩
      · left; exact ⟨k', by simp, by omega⟩
      · right; exact ⟨.node "OrCondition" (("And", [vx]) :: caps'), cur2, by simp [parseSeq_nil], by omega, hst⟩
    | some res2 =>
      obtain ⟨xs, rest2⟩ := res2
      rw [hd2] at hloop
      simp only [SimAndTail] at hloop
      obtain ⟨vals', caps', cur2, rfl, hrxs, hrest2, hc2, hl2⟩ := hloop
      subst hrest2
      simp only [SimOr]
      refine ⟨.node "OrCondition" (("And", [vx]) :: caps'), cur2, by simp [parseSeq_nil], ?_, rfl, by omega, hl2⟩
      simp only [ROr]; exact ⟨_, rfl, by simp only [RXs]; exact ⟨vx, caps', rfl, hrx, hrxs⟩⟩

theorem simExpr_step (c : Ctx) (hg : c.grammar = grammar) (cur : Nat) (hcl : cur ≤ c.toks.length)
    (hO : ∀ cur', cur ≤ cur' → cur' ≤ c.toks.length → SimOrAt c cur') : SimExprAt c cur := by
  intro fe fd hfe hfd
  obtain ⟨g, rfl⟩ : ∃ g, fe = g + 58 := ⟨fe - 58, by omega⟩
  obtain ⟨fd', rfl⟩ : ∃ g, fd = g + 1 := ⟨fd - 1, by omega⟩
  have hin := hO cur (Nat.le_refl _) hcl (g+54) fd' (by omega) (by omega)
  rw [parse_strct c _ "Expression" exprBody cur (by rw [hg]; rfl)]
  simp only [exprBody, parse_seq, parseSeq_cons, parse_capture, parse_rep, dExpr]
  generalize hr : parse c (g+54) (.strct "OrCondition") cur = r at hin ⊢
  cases hd : dOr fd' (c.toks.drop cur) with
  | none =>
    rw [hd] at hin
    simp only [SimExpr]
    rcases hin with ⟨k, rfl, hk⟩ | ⟨v, cur1, rfl, hlt1, q, hq, hqa⟩
    · left; exact ⟨k, by simp, hk⟩
    · right
      have hqo : litMatch q kwOR = false := AND_not_OR q hqa
      simp only []
      rw [parseRep_succ, loop_step_nolit c _ _ _ _ _ q hq hqo]
      exact ⟨.node "Expression" [("Or", [v])], cur1, by simp [parseSeq_nil], hlt1, Or.inl ⟨q, hq, hqa⟩⟩
  | some res =>
    obtain ⟨x, rest1⟩ := res
    rw [hd] at hin
    obtain ⟨vx, cur1, rfl, hrx, hrest, h1, h2⟩ := hin
    subst hrest
    have hloop := simOrTail c cur hO _ cur1 (Nat.le_refl _) (by omega) h2 [] [] (g+53) fd' (by omega) (by omega)
    simp only []
    generalize hrep : parseRep c (g+53) (loopNode kwOR "Or" "OrCondition") cur1 [] [] = rr at hloop ⊢
    cases hd2 : dOrTail fd' (c.toks.drop cur1) with
    | none =>
      rw [hd2] at hloop
      simp only [SimOrTail] at hloop
      simp only [SimExpr]
      rcases hloop with ⟨k', hv, rfl, hk'⟩ | ⟨vals', caps', cur2, rfl, hc2, hst⟩
      · left; exact ⟨k', by simp, by omega⟩
      · right; exact ⟨.node "Expression" (("Or", [vx]) :: caps'), cur2, by simp [parseSeq_nil], by omega, hst⟩
    | some res2 =>
      obtain ⟨xs, rest2⟩ := res2
      rw [hd2] at hloop
      simp only [SimOrTail] at hloop
      obtain ⟨vals', caps', cur2, rfl, hrxs, hrest2, hc2, hl2⟩ := hloop
      subst hrest2
      simp only [SimExpr]
      refine ⟨.node "Expression" (("Or", [vx]) :: caps'), cur2, by simp [parseSeq_nil], ?_, rfl, by omega, hl2⟩
      simp only [RExpr]; exact ⟨_, rfl, by simp only [ROrs]; exact ⟨vx, caps', rfl, hrx, hrxs⟩⟩


def notGroup : Node := .group (.capture "Not" (.lit [78, 79, 84])) .zeroOrOne
def parenSeq : Node := .seq [(.lit [40]), (.capture "Expr" (.strct "Expression")), (.lit [41])]
def altGroup : Node := .group (.disj [(.capture "Cond" (.strct "Condition")), parenSeq]) .once
def xBody : Node := .seq [notGroup, altGroup]
theorem g_x : grammar "XCondition" = some xBody := rfl

theorem paren_none (c : Ctx) (f cur : Nat) (hn : c.toks[cur]? = none) : parse c (f+3) parenSeq cur = .noMatch := by
  simp only [parenSeq, parse_seq, parseSeq_cons, parse_lit, peek, hn, if_true]
theorem paren_nolit (c : Ctx) (f cur : Nat) (t : Tok) (hn : c.toks[cur]? = some t) (hc : litMatch t [40] = false) :
    parse c (f+3) parenSeq cur = .noMatch := by
  simp only [parenSeq, parse_seq, parseSeq_cons, parse_lit, peek, hn, hc, if_true, Bool.false_eq_true, if_false]
theorem paren_lit (c : Ctx) (f cur : Nat) (t : Tok) (hn : c.toks[cur]? = some t) (hc : litMatch t [40] = true) :
    parse c (f+5) parenSeq cur =
      (match parse c (f+1) (.strct "Expression") (cur+1) with
       | .ok v cp cur2 =>
         (match c.toks[cur2]? with
          | some q => if litMatch q [41] then .ok [.str t.v, .str [], .str q.v] (cp ++ [("Expr", v)]) (cur2+1) else .err cur2 true
          | none => .err cur2 true)
       | .noMatch => .err (cur+1) true
       | .err k _ => .err k true) := by
  simp only [parenSeq, parse_seq, parseSeq_cons, parse_lit, parse_capture, peek, hn, hc, if_true]
  cases parse c (f+1) (.strct "Expression") (cur+1) with
  | ok v cp cur2 =>
    simp only []
    cases c.toks[cur2]? with
    | none => simp
    | some q => cases hq : litMatch q [41] <;> simp [parseSeq_nil, hq]
  | noMatch => simp
  | err k hv => simp

def SimAlt (c : Ctx) (cur0 : Nat) (neg : Bool) (r : Res) (d : PR XCond) : Prop :=
  match d with
  | some (x, rest) => ∃ vals cp cur', r = .ok vals cp cur' ∧ vals ≠ [] ∧ (∀ pre, NotCaps neg pre → RX x (.node "XCondition" (pre ++ cp)))
      ∧ rest = c.toks.drop cur' ∧ cur0 < cur' ∧ cur' ≤ c.toks.length
  | none => r = .noMatch ∨ ∃ k hv, r = .err k hv ∧ cur0 + 1 ≤ k

theorem dCond_nil (f : Nat) : dCond f [] = none := by cases f <;> simp [dCond, dIdent]
theorem dCond_nonoperand (f : Nat) (t : Tok) (r : List Tok) (h : isOperandTok t = false) : dCond f (t :: r) = none := by
  cases f <;> simp [dCond, dIdent, h]

theorem simAlt (c : Ctx) (hg : c.grammar = grammar) (hH : OperandNotParen c.toks) (cur0 : Nat) (hcl0 : cur0 ≤ c.toks.length)
    (hE : ∀ cur', cur0 < cur' → cur' ≤ c.toks.length → SimExprAt c cur') (neg : Bool) (fe fd : Nat)
    (hfe : 60 * (c.toks.length - cur0) + 46 ≤ fe) (hfd : 4 * (c.toks.length - cur0) + 2 ≤ fd) :
    SimAlt c cur0 neg (parse c fe altGroup cur0) (dXBody fd neg (c.toks.drop cur0)) := by
  obtain ⟨g, rfl⟩ : ∃ g, fe = g + 46 := ⟨fe - 46, by omega⟩
  obtain ⟨fd', rfl⟩ : ∃ g, fd = g + 1 := ⟨fd - 1, by omega⟩
  have hc := simCond c hg cur0 (g+42) fd' hcl0 (by omega) (by omega)
  simp only [altGroup, parse_once, parse_disj, parseDisj_cons, parse_capture]
  generalize hr : parse c (g+42) (.strct "Condition") cur0 = rc at hc ⊢
  cases hn : c.toks[cur0]? with
  | none =>
    rw [drop_of_none hn] at hc ⊢
    rw [dCond_nil] at hc
    simp only [SimCond] at hc
    rcases hc with ⟨rfl, _⟩ | ⟨k, rfl, _, ⟨tk, h, _⟩⟩
    · simp [show parse c (g+42) parenSeq cur0 = .noMatch from paren_none c (g+39) cur0 hn, parseDisj_nil, dXBody, SimAlt]
    · rw [hn] at h; cases h
  | some t =>
    have hlt := lt_of_get hn
    have hmem : t ∈ c.toks := List.mem_of_getElem? hn
    rw [drop_of_get hn] at hc ⊢
    cases hop : isOperandTok t with
    | true =>
      simp only [dXBody, hop, if_true]
      cases hd : dCond fd' (t :: c.toks.drop (cur0+1)) with
      | none =>
        rw [hd] at hc
        simp only [SimCond] at hc
        rcases hc with ⟨rfl, hno⟩ | ⟨k, rfl, hk, _⟩
        · exact absurd ⟨t, hn, hop⟩ hno
        · simp only [SimAlt]
          right
          by_cases hgt : k > cur0 + lookahead
          · exact ⟨k, true, by simp [hgt], hk⟩
          · have hlp : litMatch t [40] = false := hH t hmem hop
            exact ⟨k, true, by simp [hgt, show parse c (g+42) parenSeq cur0 = .noMatch from paren_nolit c (g+39) cur0 t hn hlp, parseDisj_nil], hk⟩
      | some res =>
        obtain ⟨cd, rest⟩ := res
        rw [hd] at hc
        obtain ⟨cur', rfl, hrest, h1, h2⟩ := hc
        subst hrest
        simp only [SimAlt]
        exact ⟨[.str []], [("Cond", [valCond cd])], cur', by simp, by simp, (fun pre hp => by simp only [RX]; exact ⟨pre, rfl, hp⟩), rfl, h1, h2⟩
    | false =>
      rw [dCond_nonoperand _ _ _ hop] at hc
      simp only [SimCond] at hc
      rcases hc with ⟨rfl, _⟩ | ⟨k, rfl, _, ⟨tk, h, h'⟩⟩
      · cases hlp : litMatch t [40] with
        | false =>
          have hlp' : litMatch t LP = false := hlp
          simp [show parse c (g+42) parenSeq cur0 = .noMatch from paren_nolit c (g+39) cur0 t hn hlp, parseDisj_nil, dXBody, hop, hlp', SimAlt]
        | true =>
          have hlp' : litMatch t LP = true := hlp
          have he := hE (cur0+1) (by omega) (by omega) (g+38) fd' (by omega) (by omega)
          simp only [dXBody, hop, hlp', Bool.false_eq_true, if_false, if_true]
          rw [show parse c (g+42) parenSeq cur0 = _ from paren_lit c (g+37) cur0 t hn hlp]
          generalize hre : parse c (g+37+1) (.strct "Expression") (cur0+1) = re at he ⊢
          cases hde : dExpr fd' (c.toks.drop (cur0+1)) with
          | none =>
            rw [hde] at he
            simp only [SimExpr] at he
            simp only [SimAlt]
            right
            rcases he with ⟨k, rfl, hk⟩ | ⟨v, cur2, rfl, hlt2, hst⟩
            · exact ⟨k, true, by by_cases hgt : k > cur0 + lookahead <;> simp [hgt, parseDisj_nil], hk⟩
            · have hgt : cur2 > cur0 + lookahead := by simp only [lookahead]; omega
              rcases hst with ⟨q, hq, hqa⟩ | ⟨q, hq, hqo⟩
              · have hqr : litMatch q [41] = false := AND_not_RP q hqa
                exact ⟨cur2, true, by simp [hq, hqr, hgt], by omega⟩
              · have hqr : litMatch q [41] = false := OR_not_RP q hqo
                exact ⟨cur2, true, by simp [hq, hqr, hgt], by omega⟩
          | some res =>
            obtain ⟨e, rest2⟩ := res
            rw [hde] at he
            obtain ⟨ve, cur2, rfl, hrel, hrest, hlt2, hle2⟩ := he
            subst hrest
            have hgt : cur2 > cur0 + lookahead := by simp only [lookahead]; omega
            cases hq : c.toks[cur2]? with
            | none =>
              rw [drop_of_none hq]
              simp only [SimAlt]
              right; exact ⟨cur2, true, by simp [hq, hgt], by omega⟩
            | some q =>
              rw [drop_of_get hq]
              have hlq := lt_of_get hq
              cases hqr : litMatch q [41] with
              | false =>
                have hqr' : litMatch q RP = false := hqr
                simp only [SimAlt, hqr', Bool.false_eq_true, if_false]
                right; exact ⟨cur2, true, by simp [hq, hqr, hgt], by omega⟩
              | true =>
                have hqr' : litMatch q RP = true := hqr
                simp only [SimAlt, hqr', if_true]
                exact ⟨[.str t.v, .str [], .str q.v], [("Expr", [ve])], cur2+1, by simp [hq, hqr], by simp,
                  (fun pre hp => by simp only [RX]; exact ⟨pre, ve, rfl, hp, hrel⟩), rfl, by omega, by omega⟩
      · rw [hn] at h; cases h; rw [hop] at h'; cases h'


theorem isEmpty_false_of_ne {α : Type} {l : List α} (h : l ≠ []) : l.isEmpty = false := by
  cases l with
  | nil => exact absurd rfl h
  | cons _ _ => rfl

theorem simX_step (c : Ctx) (hg : c.grammar = grammar) (hH : OperandNotParen c.toks) (cur : Nat) (hcl : cur ≤ c.toks.length)
    (hE : ∀ cur', cur < cur' → cur' ≤ c.toks.length → SimExprAt c cur') : SimXAt c cur := by
  intro fe fd hfe hfd
  obtain ⟨g, rfl⟩ : ∃ g, fe = g + 50 := ⟨fe - 50, by omega⟩
  obtain ⟨fd', rfl⟩ : ∃ g, fd = g + 1 := ⟨fd - 1, by omega⟩
  rw [parse_strct c _ "XCondition" xBody cur (by rw [hg]; rfl)]
  simp only [xBody, parse_seq, parseSeq_cons, notGroup, parse_opt, parse_capture, parse_lit, peek]
  cases hn : c.toks[cur]? with
  | none =>
    have ha := simAlt c hg hH cur hcl hE false (g+46) fd' (by omega) (by omega)
    rw [drop_of_none hn] at ha ⊢
    have hd : dXBody fd' false [] = none := by cases fd' <;> simp [dXBody]
    rw [hd] at ha
    simp only [SimAlt] at ha
    simp only [dX, SimX]
    rcases ha with h | ⟨k, hv, h, hk⟩
    · exact ⟨cur, by simp [h], Nat.le_refl _⟩
    · exact ⟨k, by simp [h], by omega⟩
  | some t =>
    have hlt := lt_of_get hn
    rw [drop_of_get hn]
    cases hnot : litMatch t [78, 79, 84] with
    | true =>
      have hnot' : litMatch t kwNOT = true := hnot
      have ha := simAlt c hg hH (cur+1) (by omega) (fun cur' h1 h2 => hE cur' (by omega) h2) true (g+46) fd' (by omega) (by omega)
      simp only [dX, hnot', if_true]
      cases hd : dXBody fd' true (c.toks.drop (cur+1)) with
      | none =>
        rw [hd] at ha
        simp only [SimAlt] at ha
        simp only [SimX]
        rcases ha with h | ⟨k, hv, h, hk⟩
        · exact ⟨cur+1, by simp [h, hnot], by omega⟩
        · exact ⟨k, by simp [h, hnot], by omega⟩
      | some res =>
        obtain ⟨x, rest⟩ := res
        rw [hd] at ha
        obtain ⟨vals, cp, cur', h, hne, hrel, hrest, h1, h2⟩ := ha
        subst hrest
        simp only [SimX]
        refine ⟨.node "XCondition" ([("Not", [.str t.v])] ++ cp), cur', ?_, hrel _ ⟨t.v, rfl⟩, rfl, by omega, h2⟩
        simp [h, hnot, parseSeq_nil]
    | false =>
      have hnot' : litMatch t kwNOT = false := hnot
      have ha := simAlt c hg hH cur hcl hE false (g+46) fd' (by omega) (by omega)
      rw [drop_of_get hn] at ha
      simp only [dX, hnot', Bool.false_eq_true, if_false]
      cases hd : dXBody fd' false (t :: c.toks.drop (cur+1)) with
      | none =>
        rw [hd] at ha
        simp only [SimAlt] at ha
        simp only [SimX]
        rcases ha with h | ⟨k, hv, h, hk⟩
        · exact ⟨cur, by simp [h, hnot], Nat.le_refl _⟩
        · exact ⟨k, by simp [h, hnot], by omega⟩
      | some res =>
        obtain ⟨x, rest⟩ := res
        rw [hd] at ha
        obtain ⟨vals, cp, cur', h, hne, hrel, hrest, h1, h2⟩ := ha
        subst hrest
        simp only [SimX]
        refine ⟨.node "XCondition" ([] ++ cp), cur', ?_, hrel [] rfl, rfl, h1, h2⟩
        simp [h, hnot, parseSeq_nil, isEmpty_false_of_ne hne]

/-- **the engine on the regenerated grammar simulates the direct expression parser at every cursor** -/
theorem simExpr (c : Ctx) (hg : c.grammar = grammar) (hH : OperandNotParen c.toks) :
    ∀ (n cur : Nat), c.toks.length - cur ≤ n → cur ≤ c.toks.length → SimExprAt c cur := by
  intro n
  induction n with
  | zero =>
    intro cur hn hcl
    have hE : ∀ cur', cur < cur' → cur' ≤ c.toks.length → SimExprAt c cur' := fun cur' h1 h2 => by omega
    have hX : ∀ cur', cur ≤ cur' → cur' ≤ c.toks.length → SimXAt c cur' :=
      fun cur' h1 h2 => simX_step c hg hH cur' h2 (fun cur'' h3 h4 => hE cur'' (by omega) h4)
    have hO : ∀ cur', cur ≤ cur' → cur' ≤ c.toks.length → SimOrAt c cur' :=
      fun cur' h1 h2 => simOr_step c hg cur' h2 (fun cur'' h3 h4 => hX cur'' (by omega) h4)
    exact simExpr_step c hg cur hcl hO
  | succ n ih =>
    intro cur hn hcl
    have hE : ∀ cur', cur < cur' → cur' ≤ c.toks.length → SimExprAt c cur' := fun cur' h1 h2 => ih cur' (by omega) h2
    have hX : ∀ cur', cur ≤ cur' → cur' ≤ c.toks.length → SimXAt c cur' :=
      fun cur' h1 h2 => simX_step c hg hH cur' h2 (fun cur'' h3 h4 => hE cur'' (by omega) h4)
    have hO : ∀ cur', cur ≤ cur' → cur' ≤ c.toks.length → SimOrAt c cur' :=
      fun cur' h1 h2 => simOr_step c hg cur' h2 (fun cur'' h3 h4 => hX cur'' (by omega) h4)
    exact simExpr_step c hg cur hcl hO

end Logrange.Lql
