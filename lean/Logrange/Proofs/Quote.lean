import Logrange.Proofs.KV
/-!
# `strconv.Quote` / `strconv.Unquote` on the byte-level model: the `QuoteContract` of `Proofs.KV`, proved

`quote_shape`: the quoted text is `"` body `"` and `SplitString`'s automaton, started inside a string, walks the
body without ever leaving the string. `unquote_quote`: `Unquote (Quote v) = v` for every byte string (valid UTF-8 or
not). `quoteContract` packs both. `isPrint` is never unfolded: the only fact used about it is the ground evaluation
`isPrint 10 = false` (a printable newline would be emitted raw and rejected by `Unquote`).

Structure of Part 2: `chunk_spec` cuts `quoteBody` into chunks, each `Good` for the source bytes it stands for
(`good_hexbyte`, `good_escaped`; UTF-8 round trip in `decode_valid` / `encode_decode`); `loop_quoteBody` replays the
chunks through `Unquote`'s slow loop; the fast path is covered by `first_DQ` + `quoteBody_noBS` (no backslash before
the first `"` means the body is the source text verbatim).
-/
namespace Logrange.Proofs.Quote
open Go Logrange.Quote Logrange.KV Logrange.Tags Logrange.Proofs.KV

/-! ## Part 1: shape -/

theorem ne_of_toNat_ne {x y : UInt8} (h : x.toNat ≠ y.toNat) : x ≠ y := fun e => h (by rw [e])

theorem scan_plain : ∀ (l : Bytes), (∀ x ∈ l, x ≠ DQ ∧ x ≠ BS) → scan l true = some true
  | [], _ => by simp [scan]
  | c :: rest, h => by
    have hc := h c (by simp)
    have ih := scan_plain rest (fun x hx => h x (by simp [hx]))
    rw [scan.eq_def]
    simp [hc.1, hc.2, ih]

theorem scan_BS_cons (x : UInt8) (rest : Bytes) : scan (BS :: x :: rest) true = scan rest true := by
  rw [scan.eq_def]; simp [BS, DQ]

theorem hexDigit_ne (n : Nat) (h : n < 16) : hexDigit n ≠ DQ ∧ hexDigit n ≠ BS :=
  (by decide : ∀ n : Fin 16, hexDigit n.val ≠ DQ ∧ hexDigit n.val ≠ BS) ⟨n, h⟩

theorem hexN_ne (r d : Nat) : ∀ x ∈ hexN r d, x ≠ DQ ∧ x ≠ BS := by
  intro x hx
  simp only [hexN, List.mem_map] at hx
  obtain ⟨i, _, rfl⟩ := hx
  exact hexDigit_ne _ (Nat.mod_lt _ (by decide))

theorem encodeRune_ne (r : Nat) (h1 : r ≠ 34) (h2 : r ≠ 92) : ∀ x ∈ encodeRune r, x ≠ DQ ∧ x ≠ BS := by
  intro x hx
  have key : x.toNat ≠ 34 ∧ x.toNat ≠ 92 := by
    unfold encodeRune at hx
    simp only [] at hx
    by_cases hv : validRune r = true
    · simp only [hv, if_true] at hx
      simp [validRune] at hv
      split at hx
      · simp only [List.mem_cons, List.not_mem_nil, or_false] at hx
        subst hx; simp only [b, UInt8.toNat_ofNat']; omega
      · split at hx
        · simp only [List.mem_cons, List.not_mem_nil, or_false] at hx
          rcases hx with rfl | rfl <;> (simp only [b, UInt8.toNat_ofNat']; omega)
        · split at hx
          · simp only [List.mem_cons, List.not_mem_nil, or_false] at hx
            rcases hx with rfl | rfl | rfl <;> (simp only [b, UInt8.toNat_ofNat']; omega)
          · simp only [List.mem_cons, List.not_mem_nil, or_false] at hx
            rcases hx with rfl | rfl | rfl | rfl <;> (simp only [b, UInt8.toNat_ofNat']; omega)
    · have hE : (if validRune r = true then r else runeError) = 0xFFFD := by simp only [hv]; rfl
      rw [hE] at hx
      have hE2 : (if 0xFFFD < 0x80 then [b 0xFFFD]
        else if 0xFFFD < 0x800 then [b (0xC0 + 0xFFFD / 64), b (0x80 + 0xFFFD % 64)]
        else if 0xFFFD < 0x10000 then [b (0xE0 + 0xFFFD / 4096), b (0x80 + (0xFFFD / 64) % 64), b (0x80 + 0xFFFD % 64)]
        else [b (0xF0 + 0xFFFD / 262144), b (0x80 + (0xFFFD / 4096) % 64), b (0x80 + (0xFFFD / 64) % 64), b (0x80 + 0xFFFD % 64)])
        = [239, 191, 189] := by decide
      rw [hE2] at hx
      simp only [List.mem_cons, List.not_mem_nil, or_false] at hx
      rcases hx with rfl | rfl | rfl <;> decide
  exact ⟨ne_of_toNat_ne key.1, ne_of_toNat_ne key.2⟩

theorem scan_BS_hexN (x : UInt8) (r d : Nat) : scan ([BS, x] ++ hexN r d) true = some true := by
  rw [List.cons_append, List.cons_append, List.nil_append, scan_BS_cons]; exact scan_plain _ (hexN_ne _ _)

theorem scan_BS_pair (x : UInt8) : scan [BS, x] true = some true := by
  rw [scan_BS_cons]; simp [scan]

theorem scan_appendEscapedRune (r : Nat) : scan (appendEscapedRune r DQ) true = some true := by
  unfold appendEscapedRune
  by_cases h0 : (r == DQ.toNat || r == 92) = true
  · rw [if_pos h0]; exact scan_BS_pair _
  rw [if_neg h0]
  have h' : r ≠ 34 ∧ r ≠ 92 := by simpa [DQ] using h0
  by_cases h1 : isPrint r = true
  · rw [if_pos h1]; exact scan_plain _ (encodeRune_ne r h'.1 h'.2)
  rw [if_neg h1]
  by_cases h : (r == 7) = true
  · rw [if_pos h]; exact scan_BS_pair _
  rw [if_neg h]; clear h
  by_cases h : (r == 8) = true
  · rw [if_pos h]; exact scan_BS_pair _
  rw [if_neg h]; clear h
  by_cases h : (r == 12) = true
  · rw [if_pos h]; exact scan_BS_pair _
  rw [if_neg h]; clear h
  by_cases h : (r == 10) = true
  · rw [if_pos h]; exact scan_BS_pair _
  rw [if_neg h]; clear h
  by_cases h : (r == 13) = true
  · rw [if_pos h]; exact scan_BS_pair _
  rw [if_neg h]; clear h
  by_cases h : (r == 9) = true
  · rw [if_pos h]; exact scan_BS_pair _
  rw [if_neg h]; clear h
  by_cases h : (r == 11) = true
  · rw [if_pos h]; exact scan_BS_pair _
  rw [if_neg h]; clear h
  by_cases h : (decide (r < 32) || r == 0x7f) = true
  · rw [if_pos h]; exact scan_BS_hexN _ _ _
  rw [if_neg h]; clear h
  by_cases h : (!validRune r) = true
  · rw [if_pos h]; exact scan_BS_hexN _ _ _
  rw [if_neg h]; clear h
  by_cases h : r < 0x10000
  · rw [if_pos h]; exact scan_BS_hexN _ _ _
  rw [if_neg h]; exact scan_BS_hexN _ _ _

theorem quoteBody_cons (fuel : Nat) (c : UInt8) (rest : Bytes) (q : UInt8) :
    quoteBody (fuel+1) (c :: rest) q =
      let p := if c.toNat ≥ 0x80 then decodeRune (c :: rest) else (c.toNat, 1)
      if p.2 == 1 && p.1 == runeError then
        [BS, 120, hexDigit (c.toNat / 16), hexDigit (c.toNat % 16)] ++ quoteBody fuel ((c :: rest).drop 1) q
      else appendEscapedRune p.1 q ++ quoteBody fuel ((c :: rest).drop p.2) q := by
  rfl

theorem scan_quoteBody : ∀ (fuel : Nat) (s : Bytes), scan (quoteBody fuel s DQ) true = some true := by
  intro fuel
  induction fuel with
  | zero => intro s; simp [quoteBody, scan]
  | succ n ih =>
    intro s
    cases s with
    | nil => simp [quoteBody, scan]
    | cons c rest =>
      rw [quoteBody_cons]
      generalize (if c.toNat ≥ 0x80 then decodeRune (c :: rest) else (c.toNat, 1)) = p
      simp only []
      split
      · have hc : c.toNat < 256 := c.toNat_lt
        rw [List.cons_append, List.cons_append, scan_BS_cons]
        rw [List.cons_append, List.cons_append, List.nil_append]
        have h1 := hexDigit_ne (c.toNat / 16) (by omega)
        have h2 := hexDigit_ne (c.toNat % 16) (by omega)
        have : scan [hexDigit (c.toNat / 16), hexDigit (c.toNat % 16)] true = some true :=
          scan_plain _ (by intro x hx; simp at hx; rcases hx with rfl | rfl <;> assumption)
        have e : hexDigit (c.toNat / 16) :: hexDigit (c.toNat % 16) :: quoteBody n (List.drop 1 (c :: rest)) DQ
            = [hexDigit (c.toNat / 16), hexDigit (c.toNat % 16)] ++ quoteBody n (List.drop 1 (c :: rest)) DQ := by simp
        rw [e, scan_append _ _ _ _ this]; exact ih _
      · rw [scan_append _ _ _ _ (scan_appendEscapedRune _)]; exact ih _

/-- PART 1: the quoted text is `"` body `"`, and the body never leaves the in-string state -/
theorem quote_shape (v : Bytes) : ∃ body, quote v = DQ :: body ++ [DQ] ∧ scan body true = some true :=
  ⟨quoteBody (v.length + 1) v DQ, rfl, scan_quoteBody _ _⟩

/-! ## Part 2: `unquote ∘ quote = id` -/

theorem unhex_hexDigit (n : Nat) (h : n < 16) : unhex (hexDigit n) = some n :=
  (by decide : ∀ n : Fin 16, unhex (hexDigit n.val) = some n.val) ⟨n, h⟩

theorem hexN2 (r : Nat) : hexN r 2 = [hexDigit (r / 16 % 16), hexDigit (r % 16)] := by
  simp [hexN, List.range_succ]
theorem hexN4 (r : Nat) : hexN r 4 = [hexDigit (r / 4096 % 16), hexDigit (r / 256 % 16), hexDigit (r / 16 % 16), hexDigit (r % 16)] := by
  simp [hexN, List.range_succ]
theorem hexN8 (r : Nat) : hexN r 8 = [hexDigit (r / 268435456 % 16), hexDigit (r / 16777216 % 16), hexDigit (r / 1048576 % 16), hexDigit (r / 65536 % 16), hexDigit (r / 4096 % 16), hexDigit (r / 256 % 16), hexDigit (r / 16 % 16), hexDigit (r % 16)] := by
  simp [hexN, List.range_succ]

theorem readHex_hexN2 (r : Nat) (t : Bytes) (h : r < 256) : readHex (hexN r 2 ++ t) 2 = some r := by
  rw [hexN2]
  simp [readHex, List.foldlM, unhex_hexDigit, Nat.mod_lt]
  omega

theorem readHex_hexN4 (r : Nat) (t : Bytes) (h : r < 65536) : readHex (hexN r 4 ++ t) 4 = some r := by
  rw [hexN4]
  simp [readHex, List.foldlM, unhex_hexDigit, Nat.mod_lt]
  omega

theorem readHex_hexN8 (r : Nat) (t : Bytes) (h : r < 4294967296) : readHex (hexN r 8 ++ t) 8 = some r := by
  rw [hexN8]
  simp [readHex, List.foldlM, unhex_hexDigit, Nat.mod_lt]
  omega

theorem b_toNat (x : UInt8) : b x.toNat = x := by simp [b]
theorem b_eq (x : UInt8) (n : Nat) (h : n = x.toNat) : b n = x := by subst h; simp [b]
theorem toNat_b (n : Nat) (h : n < 256) : (b n).toNat = n := by simp [b, UInt8.toNat_ofNat']; omega

theorem encodeRune_1 (r : Nat) (h : r < 0x80) : encodeRune r = [b r] := by
  have hv : validRune r = true := by simp [validRune]; omega
  unfold encodeRune; simp only [hv, if_true]; rw [if_pos h]
theorem encodeRune_2 (r : Nat) (h0 : 0x80 ≤ r) (h : r < 0x800) : encodeRune r = [b (0xC0 + r / 64), b (0x80 + r % 64)] := by
  have hv : validRune r = true := by simp [validRune]; omega
  unfold encodeRune; simp only [hv, if_true]; rw [if_neg (by omega), if_pos h]
theorem encodeRune_3 (r : Nat) (hv : validRune r = true) (h0 : 0x800 ≤ r) (h : r < 0x10000) :
    encodeRune r = [b (0xE0 + r / 4096), b (0x80 + (r / 64) % 64), b (0x80 + r % 64)] := by
  unfold encodeRune; simp only [hv, if_true]; rw [if_neg (by omega), if_neg (by omega), if_pos h]
theorem encodeRune_4 (r : Nat) (hv : validRune r = true) (h0 : 0x10000 ≤ r) :
    encodeRune r = [b (0xF0 + r / 262144), b (0x80 + (r / 4096) % 64), b (0x80 + (r / 64) % 64), b (0x80 + r % 64)] := by
  unfold encodeRune; simp only [hv, if_true]; rw [if_neg (by omega), if_neg (by omega), if_neg (by omega)]



theorem decode_valid (c : UInt8) (rest : Bytes) (hc : c.toNat ≥ 0x80) (r w : Nat)
    (hd : decodeRune (c :: rest) = (r, w)) (hne : ¬ (w = 1 ∧ r = runeError)) :
    0x80 ≤ r ∧ validRune r = true ∧ encodeRune r = (c :: rest).take w ∧ 1 ≤ w ∧ w ≤ (c :: rest).length := by
  unfold decodeRune at hd
  simp only [] at hd
  rw [if_neg (by omega)] at hd
  by_cases h1 : c.toNat < 0xC2
  · rw [if_pos h1] at hd; simp only [Prod.mk.injEq] at hd; exact absurd ⟨hd.2.symm, hd.1.symm⟩ hne
  rw [if_neg h1] at hd
  by_cases h2 : c.toNat < 0xE0
  · rw [if_pos h2] at hd
    cases rest with
    | nil => simp only [Prod.mk.injEq] at hd; exact absurd ⟨hd.2.symm, hd.1.symm⟩ hne
    | cons b1 rest1 =>
      try simp only [] at hd
      by_cases hb : (0x80 ≤ b1.toNat && b1.toNat ≤ 0xBF) = true
      · rw [if_pos hb] at hd
        simp only [Bool.and_eq_true, decide_eq_true_eq] at hb
        simp only [Prod.mk.injEq] at hd
        obtain ⟨rfl, rfl⟩ := hd
        refine ⟨by omega, by simp [validRune]; omega, ?_, by omega, by simp⟩
        rw [encodeRune_2 _ (by omega) (by omega)]
        simp only [List.take_succ_cons, List.take_zero]
        rw [b_eq c _ (by omega), b_eq b1 _ (by omega)]
      · rw [if_neg hb] at hd; simp only [Prod.mk.injEq] at hd; exact absurd ⟨hd.2.symm, hd.1.symm⟩ hne
  rw [if_neg h2] at hd
  by_cases h3 : c.toNat < 0xF0
  · rw [if_pos h3] at hd
    match rest, hd with
    | [], hd => simp only [Prod.mk.injEq] at hd; exact absurd ⟨hd.2.symm, hd.1.symm⟩ hne
    | [_], hd => simp only [Prod.mk.injEq] at hd; exact absurd ⟨hd.2.symm, hd.1.symm⟩ hne
    | b1 :: b2 :: rest2, hd =>
      try simp only [] at hd
      generalize hlo : (if (c.toNat == 0xE0) = true then 0xA0 else 0x80) = lo at hd
      generalize hhi : (if (c.toNat == 0xED) = true then 0x9F else 0xBF) = hi at hd
      have hlo1 : c.toNat = 0xE0 → lo = 0xA0 := by intro e; simp [e] at hlo; omega
      have hlo2 : c.toNat ≠ 0xE0 → lo = 0x80 := by intro e; simp [e] at hlo; omega
      have hhi1 : c.toNat = 0xED → hi = 0x9F := by intro e; simp [e] at hhi; omega
      have hhi2 : c.toNat ≠ 0xED → hi = 0xBF := by intro e; simp [e] at hhi; omega
      split at hd
      · rename_i hb
        simp only [Bool.and_eq_true, decide_eq_true_eq] at hb
        simp only [Prod.mk.injEq] at hd
        obtain ⟨rfl, rfl⟩ := hd
        have hv : validRune ((c.toNat - 0xE0) * 4096 + (b1.toNat - 0x80) * 64 + (b2.toNat - 0x80)) = true := by
          simp [validRune]; omega
        refine ⟨by omega, hv, ?_, by omega, by simp⟩
        rw [encodeRune_3 _ hv (by omega) (by omega)]
        simp only [List.take_succ_cons, List.take_zero]
        rw [b_eq c _ (by omega), b_eq b1 _ (by omega), b_eq b2 _ (by omega)]
      · simp only [Prod.mk.injEq] at hd; exact absurd ⟨hd.2.symm, hd.1.symm⟩ hne
  rw [if_neg h3] at hd
  by_cases h4 : c.toNat < 0xF5
  · rw [if_pos h4] at hd
    match rest, hd with
    | [], hd => simp only [Prod.mk.injEq] at hd; exact absurd ⟨hd.2.symm, hd.1.symm⟩ hne
    | [_], hd => simp only [Prod.mk.injEq] at hd; exact absurd ⟨hd.2.symm, hd.1.symm⟩ hne
    | [_, _], hd => simp only [Prod.mk.injEq] at hd; exact absurd ⟨hd.2.symm, hd.1.symm⟩ hne
    | b1 :: b2 :: b3 :: rest3, hd =>
      try simp only [] at hd
      generalize hlo : (if (c.toNat == 0xF0) = true then 0x90 else 0x80) = lo at hd
      generalize hhi : (if (c.toNat == 0xF4) = true then 0x8F else 0xBF) = hi at hd
      have hlo1 : c.toNat = 0xF0 → lo = 0x90 := by intro e; simp [e] at hlo; omega
      have hlo2 : c.toNat ≠ 0xF0 → lo = 0x80 := by intro e; simp [e] at hlo; omega
      have hhi1 : c.toNat = 0xF4 → hi = 0x8F := by intro e; simp [e] at hhi; omega
      have hhi2 : c.toNat ≠ 0xF4 → hi = 0xBF := by intro e; simp [e] at hhi; omega
      split at hd
      · rename_i hb
        simp only [Bool.and_eq_true, decide_eq_true_eq] at hb
        simp only [Prod.mk.injEq] at hd
        obtain ⟨rfl, rfl⟩ := hd
        have hv : validRune ((c.toNat - 0xF0) * 262144 + (b1.toNat - 0x80) * 4096 + (b2.toNat - 0x80) * 64 + (b3.toNat - 0x80)) = true := by
          simp [validRune]; omega
        refine ⟨by omega, hv, ?_, by omega, by simp⟩
        rw [encodeRune_4 _ hv (by omega)]
        simp only [List.take_succ_cons, List.take_zero]
        rw [b_eq c _ (by omega), b_eq b1 _ (by omega), b_eq b2 _ (by omega), b_eq b3 _ (by omega)]
      · simp only [Prod.mk.injEq] at hd; exact absurd ⟨hd.2.symm, hd.1.symm⟩ hne
  rw [if_neg h4] at hd
  simp only [Prod.mk.injEq] at hd; exact absurd ⟨hd.2.symm, hd.1.symm⟩ hne



theorem encode_decode (r : Nat) (hv : validRune r = true) (h0 : 0x80 ≤ r) (t : Bytes) :
    decodeRune (encodeRune r ++ t) = (r, (encodeRune r).length) ∧
      ∃ h tl, encodeRune r = h :: tl ∧ h.toNat ≥ 0x80 ∧ h ≠ DQ := by
  have hv' : r < 0xD800 ∨ (0xE000 ≤ r ∧ r ≤ 0x10FFFF) := by simpa [validRune] using hv
  by_cases h2 : r < 0x800
  · rw [encodeRune_2 r h0 h2]
    have e0 := toNat_b (0xC0 + r / 64) (by omega)
    have e1 := toNat_b (0x80 + r % 64) (by omega)
    refine ⟨?_, _, _, rfl, by omega, ne_of_toNat_ne (by rw [e0]; simp [DQ]; omega)⟩
    simp only [List.cons_append, List.nil_append, decodeRune, e0, e1]
    rw [if_neg (by omega), if_neg (by omega), if_pos (by omega), if_pos (by simp; omega)]
    simp only [List.length_cons, List.length_nil, Prod.mk.injEq]; exact ⟨by omega, trivial⟩
  by_cases h3 : r < 0x10000
  · rw [encodeRune_3 r hv (by omega) h3]
    have e0 := toNat_b (0xE0 + r / 4096) (by omega)
    have e1 := toNat_b (0x80 + r / 64 % 64) (by omega)
    have e2 := toNat_b (0x80 + r % 64) (by omega)
    refine ⟨?_, _, _, rfl, by omega, ne_of_toNat_ne (by rw [e0]; simp [DQ]; omega)⟩
    simp only [List.cons_append, List.nil_append, decodeRune, e0, e1, e2]
    rw [if_neg (by omega), if_neg (by omega), if_neg (by omega), if_pos (by omega)]
    generalize hlo : (if (0xE0 + r / 4096 == 0xE0) = true then 0xA0 else 0x80) = lo
    generalize hhi : (if (0xE0 + r / 4096 == 0xED) = true then 0x9F else 0xBF) = hi
    have hlo1 : r / 4096 = 0 → lo = 0xA0 := by intro e; simp [e] at hlo; omega
    have hlo2 : r / 4096 ≠ 0 → lo = 0x80 := by intro e; simp [e] at hlo; omega
    have hhi1 : r / 4096 = 13 → hi = 0x9F := by intro e; simp [e] at hhi; omega
    have hhi2 : r / 4096 ≠ 13 → hi = 0xBF := by
      intro e
      have : ¬ (0xE0 + r / 4096 = 0xED) := by omega
      simp [this] at hhi; omega
    rw [if_pos (by simp only [Bool.and_eq_true, decide_eq_true_eq]; omega)]
    simp only [List.length_cons, List.length_nil, Prod.mk.injEq]; exact ⟨by omega, trivial⟩
  · rw [encodeRune_4 r hv (by omega)]
    have e0 := toNat_b (0xF0 + r / 262144) (by omega)
    have e1 := toNat_b (0x80 + r / 4096 % 64) (by omega)
    have e2 := toNat_b (0x80 + r / 64 % 64) (by omega)
    have e3 := toNat_b (0x80 + r % 64) (by omega)
    refine ⟨?_, _, _, rfl, by omega, ne_of_toNat_ne (by rw [e0]; simp [DQ]; omega)⟩
    simp only [List.cons_append, List.nil_append, decodeRune, e0, e1, e2, e3]
    rw [if_neg (by omega), if_neg (by omega), if_neg (by omega), if_neg (by omega), if_pos (by omega)]
    generalize hlo : (if (0xF0 + r / 262144 == 0xF0) = true then 0x90 else 0x80) = lo
    generalize hhi : (if (0xF0 + r / 262144 == 0xF4) = true then 0x8F else 0xBF) = hi
    have hlo1 : r / 262144 = 0 → lo = 0x90 := by intro e; simp [e] at hlo; omega
    have hlo2 : r / 262144 ≠ 0 → lo = 0x80 := by intro e; simp [e] at hlo; omega
    have hhi1 : r / 262144 = 4 → hi = 0x8F := by intro e; simp [e] at hhi; omega
    have hhi2 : r / 262144 ≠ 4 → hi = 0xBF := by
      intro e
      have : ¬ (0xF0 + r / 262144 = 0xF4) := by omega
      simp [this] at hhi; omega
    rw [if_pos (by simp only [Bool.and_eq_true, decide_eq_true_eq]; omega)]
    simp only [List.length_cons, List.length_nil, Prod.mk.injEq]; exact ⟨by omega, trivial⟩


theorem uq_x (s2 : Bytes) : unquoteChar (BS :: 120 :: s2) DQ = (readHex s2 2).map (fun v => (v, false, s2.drop 2)) := by
  rfl
theorem uq_u (s2 : Bytes) : unquoteChar (BS :: 117 :: s2) DQ =
    (readHex s2 4).bind (fun v => if validRune v then some (v, true, s2.drop 4) else none) := by
  rfl
theorem uq_U (s2 : Bytes) : unquoteChar (BS :: 85 :: s2) DQ =
    (readHex s2 8).bind (fun v => if validRune v then some (v, true, s2.drop 8) else none) := by
  rfl

theorem uq_plain (c : UInt8) (t : Bytes) (h1 : c ≠ DQ) (h2 : c ≠ BS) (h3 : c.toNat < 0x80) :
    unquoteChar (c :: t) DQ = some (c.toNat, false, t) := by
  unfold unquoteChar
  simp [h1, h2]
  omega

/-- the bytes `Unquote`'s loop appends for one decoded character -/
def outBytes (r : Nat) (mb : Bool) : Bytes := if (decide (r < 0x80) || !mb) = true then [b r] else encodeRune r

/-- what the decoder needs from one emitted chunk standing for the source bytes `orig` -/
structure Good (chunk orig : Bytes) : Prop where
  plain : (chunk = orig ∧ ∀ x ∈ chunk, x ≠ DQ ∧ x ≠ BS) ∨ (∃ t, chunk = BS :: t)
  head : ∃ h tl, chunk = h :: tl ∧ h ≠ DQ ∧ h ≠ 10
  unq : ∀ t, ∃ r mb, unquoteChar (chunk ++ t) DQ = some (r, mb, t) ∧ outBytes r mb = orig

theorem readHex_2 (a c : Nat) (ha : a < 16) (hc : c < 16) (t : Bytes) :
    readHex (hexDigit a :: hexDigit c :: t) 2 = some (a * 16 + c) := by
  simp [readHex, List.foldlM, unhex_hexDigit, ha, hc]

theorem good_hexbyte (c : UInt8) : Good [BS, 120, hexDigit (c.toNat / 16), hexDigit (c.toNat % 16)] [c] := by
  have hc : c.toNat < 256 := c.toNat_lt
  refine ⟨Or.inr ⟨_, rfl⟩, ⟨_, _, rfl, by decide, by decide⟩, ?_⟩
  intro t
  refine ⟨c.toNat, false, ?_, ?_⟩
  · simp only [List.cons_append, List.nil_append]
    rw [uq_x, readHex_2 _ _ (by omega) (by omega)]
    simp only [Option.map_some, List.drop_succ_cons, List.drop_zero]
    have : c.toNat / 16 * 16 + c.toNat % 16 = c.toNat := by omega
    rw [this]
  · simp [outBytes, b_toNat]

set_option maxRecDepth 100000 in
theorem isPrint_10 : isPrint 10 = false := by decide

theorem good_BS_pair (x : UInt8) (r : Nat) (orig : Bytes)
    (hu : ∀ t, unquoteChar (BS :: x :: t) DQ = some (r, false, t)) (ho : [b r] = orig) : Good [BS, x] orig := by
  refine ⟨Or.inr ⟨_, rfl⟩, ⟨_, _, rfl, by decide, by decide⟩, ?_⟩
  intro t
  exact ⟨r, false, hu t, by simpa [outBytes] using ho⟩

theorem good_escaped (r : Nat) (hv : validRune r = true) : Good (appendEscapedRune r DQ) (encodeRune r) := by
  have hv' : r < 0xD800 ∨ (0xE000 ≤ r ∧ r ≤ 0x10FFFF) := by simpa [validRune] using hv
  unfold appendEscapedRune
  by_cases h0 : (r == DQ.toNat || r == 92) = true
  · rw [if_pos h0]
    have h0' : r = 34 ∨ r = 92 := by simpa [DQ] using h0
    rcases h0' with rfl | rfl
    · exact good_BS_pair _ 34 _ (fun t => rfl) (by decide)
    · exact good_BS_pair _ 92 _ (fun t => rfl) (by decide)
  rw [if_neg h0]
  have h' : r ≠ 34 ∧ r ≠ 92 := by simpa [DQ] using h0
  by_cases h1 : isPrint r = true
  · rw [if_pos h1]
    have h10 : r ≠ 10 := by intro e; rw [e, isPrint_10] at h1; exact absurd h1 (by decide)
    have hne := encodeRune_ne r h'.1 h'.2
    by_cases hs : r < 0x80
    · rw [encodeRune_1 r hs] at hne ⊢
      have e0 := toNat_b r (by omega)
      have hq := hne (b r) (by simp)
      refine ⟨Or.inl ⟨rfl, hne⟩, ⟨_, _, rfl, hq.1, ne_of_toNat_ne (by rw [e0]; simpa using h10)⟩, ?_⟩
      intro t
      refine ⟨r, false, ?_, by simp [outBytes]⟩
      rw [List.cons_append, List.nil_append, uq_plain _ _ hq.1 hq.2 (by omega), e0]
    · obtain ⟨_, h, tl, he, hh, hdq⟩ := encode_decode r hv (by omega) []
      refine ⟨Or.inl ⟨rfl, hne⟩, ⟨h, tl, he, hdq, ne_of_toNat_ne (by simp; omega)⟩, ?_⟩
      intro t
      have hdec := (encode_decode r hv (by omega) t).1
      refine ⟨r, true, ?_, by simp [outBytes, hs]⟩
      have hu : unquoteChar (h :: (tl ++ t)) DQ
          = some ((decodeRune (h :: (tl ++ t))).1, true, (h :: (tl ++ t)).drop (decodeRune (h :: (tl ++ t))).2) := by
        unfold unquoteChar
        simp [hdq]
        intro hlt; omega
      rw [he] at hdec ⊢
      rw [List.cons_append] at hdec ⊢
      rw [hu, hdec]
      simp
  rw [if_neg h1]
  by_cases h : (r == 7) = true
  · rw [if_pos h]; have e : r = 7 := by simpa using h
    subst e; exact good_BS_pair _ 7 _ (fun t => rfl) (by decide)
  rw [if_neg h]; clear h
  by_cases h : (r == 8) = true
  · rw [if_pos h]; have e : r = 8 := by simpa using h
    subst e; exact good_BS_pair _ 8 _ (fun t => rfl) (by decide)
  rw [if_neg h]; clear h
  by_cases h : (r == 12) = true
  · rw [if_pos h]; have e : r = 12 := by simpa using h
    subst e; exact good_BS_pair _ 12 _ (fun t => rfl) (by decide)
  rw [if_neg h]; clear h
  by_cases h : (r == 10) = true
  · rw [if_pos h]; have e : r = 10 := by simpa using h
    subst e; exact good_BS_pair _ 10 _ (fun t => rfl) (by decide)
  rw [if_neg h]; clear h
  by_cases h : (r == 13) = true
  · rw [if_pos h]; have e : r = 13 := by simpa using h
    subst e; exact good_BS_pair _ 13 _ (fun t => rfl) (by decide)
  rw [if_neg h]; clear h
  by_cases h : (r == 9) = true
  · rw [if_pos h]; have e : r = 9 := by simpa using h
    subst e; exact good_BS_pair _ 9 _ (fun t => rfl) (by decide)
  rw [if_neg h]; clear h
  by_cases h : (r == 11) = true
  · rw [if_pos h]; have e : r = 11 := by simpa using h
    subst e; exact good_BS_pair _ 11 _ (fun t => rfl) (by decide)
  rw [if_neg h]; clear h
  by_cases h : (decide (r < 32) || r == 0x7f) = true
  · rw [if_pos h]
    have hr : r < 0x80 := by
      have : r < 32 ∨ r = 0x7f := by simpa using h
      omega
    refine ⟨Or.inr ⟨_, rfl⟩, ⟨_, _, rfl, by decide, by decide⟩, ?_⟩
    intro t
    refine ⟨r, false, ?_, by simp [outBytes, encodeRune_1 r hr]⟩
    have e : [BS, 120] ++ hexN r 2 ++ t = BS :: 120 :: (hexN r 2 ++ t) := by simp
    rw [e, uq_x, readHex_hexN2 r _ (by omega), hexN2]
    simp
  rw [if_neg h]; clear h
  by_cases h : (!validRune r) = true
  · rw [hv] at h; exact absurd h (by decide)
  rw [if_neg h]; clear h
  by_cases h : r < 0x10000
  · rw [if_pos h]
    refine ⟨Or.inr ⟨_, rfl⟩, ⟨_, _, rfl, by decide, by decide⟩, ?_⟩
    intro t
    refine ⟨r, true, ?_, ?_⟩
    · have e : [BS, 117] ++ hexN r 4 ++ t = BS :: 117 :: (hexN r 4 ++ t) := by simp
      rw [e, uq_u, readHex_hexN4 r _ (by omega), hexN4]
      simp [hv]
    · by_cases hs : r < 0x80
      · simp [outBytes, hs, encodeRune_1 r hs]
      · simp [outBytes, hs]
  rw [if_neg h]
  refine ⟨Or.inr ⟨_, rfl⟩, ⟨_, _, rfl, by decide, by decide⟩, ?_⟩
  intro t
  refine ⟨r, true, ?_, ?_⟩
  · have e : [BS, 85] ++ hexN r 8 ++ t = BS :: 85 :: (hexN r 8 ++ t) := by simp
    rw [e, uq_U, readHex_hexN8 r _ (by omega), hexN8]
    simp [hv]
  · have hs : ¬ r < 0x80 := by omega
    simp [outBytes, hs]


theorem chunk_spec (c : UInt8) (rest : Bytes) :
    ∃ chunk w, 1 ≤ w ∧ w ≤ (c :: rest).length ∧
      (∀ fuel, quoteBody (fuel + 1) (c :: rest) DQ = chunk ++ quoteBody fuel ((c :: rest).drop w) DQ) ∧
      Good chunk ((c :: rest).take w) := by
  by_cases hc : c.toNat ≥ 0x80
  · generalize hd : decodeRune (c :: rest) = p
    obtain ⟨r, w⟩ := p
    by_cases hbad : (w == 1 && r == runeError) = true
    · refine ⟨_, 1, by omega, by simp, ?_, by simpa using good_hexbyte c⟩
      intro fuel
      rw [quoteBody_cons]; simp only []; rw [if_pos hc, hd]; simp only []; rw [if_pos hbad]
    · have hne : ¬ (w = 1 ∧ r = runeError) := by simpa using hbad
      obtain ⟨h80, hv, henc, hw1, hw2⟩ := decode_valid c rest hc r w hd hne
      refine ⟨appendEscapedRune r DQ, w, hw1, hw2, ?_, henc ▸ good_escaped r hv⟩
      intro fuel
      rw [quoteBody_cons]; simp only []; rw [if_pos hc, hd]; simp only []; rw [if_neg hbad]
  · have hlt : c.toNat < 0x80 := by omega
    refine ⟨appendEscapedRune c.toNat DQ, 1, by omega, by simp, ?_, ?_⟩
    · intro fuel
      rw [quoteBody_cons]; simp only []; rw [if_neg hc]; simp only []
      rw [if_neg (by simp [runeError]; omega)]
    · have := good_escaped c.toNat (by simp [validRune]; omega)
      rw [encodeRune_1 _ hlt, b_toNat] at this; simpa using this

/-- the first byte among `"` and `\` (if any) is a `\` -/
def fsOK : Bytes → Bool
  | [] => true
  | x :: l => if x == BS then true else if x == DQ then false else fsOK l

theorem fsOK_plain_append (c r : Bytes) (h : ∀ x ∈ c, x ≠ DQ ∧ x ≠ BS) : fsOK (c ++ r) = fsOK r := by
  induction c with
  | nil => rfl
  | cons x c ih =>
    have hx := h x (by simp)
    simp only [List.cons_append, fsOK]
    rw [if_neg (by simpa using hx.2), if_neg (by simpa using hx.1)]
    exact ih (fun y hy => h y (by simp [hy]))

theorem fsOK_quoteBody : ∀ (fuel : Nat) (s : Bytes), fsOK (quoteBody fuel s DQ) = true := by
  intro fuel
  induction fuel with
  | zero => intro s; simp [quoteBody, fsOK]
  | succ n ih =>
    intro s
    cases s with
    | nil => simp [quoteBody, fsOK]
    | cons c rest =>
      obtain ⟨chunk, w, _, _, hq, good⟩ := chunk_spec c rest
      rw [hq]
      rcases good.plain with ⟨_, hp⟩ | ⟨t, rfl⟩
      · rw [fsOK_plain_append _ _ hp]; exact ih _
      · simp [fsOK]

theorem first_DQ (l tail : Bytes) (hok : fsOK l = true)
    (hno : BS ∉ (l ++ DQ :: tail).take (List.findIdx (· == DQ) (l ++ DQ :: tail) + 1)) :
    List.findIdx (· == DQ) (l ++ DQ :: tail) = l.length ∧ BS ∉ l := by
  induction l with
  | nil => simp [List.findIdx_cons]
  | cons x l ih =>
    by_cases hx : x = BS
    · exfalso; apply hno; simp [hx]
    by_cases hd : x = DQ
    · simp [fsOK, hd] at hok; exact absurd hok (by decide)
    have hok' : fsOK l = true := by simpa [fsOK, hx, hd] using hok
    have hf : List.findIdx (· == DQ) (x :: l ++ DQ :: tail) = List.findIdx (· == DQ) (l ++ DQ :: tail) + 1 := by
      have hbeq : (x == DQ) = false := by simpa using hd
      simp [List.findIdx_cons, hbeq]
    rw [hf] at hno ⊢
    have hno' : BS ∉ (l ++ DQ :: tail).take (List.findIdx (· == DQ) (l ++ DQ :: tail) + 1) := by
      intro hm; apply hno
      simp only [List.cons_append, List.take_succ_cons]
      exact List.mem_cons_of_mem _ hm
    obtain ⟨h1, h2⟩ := ih hok' hno'
    refine ⟨by simp [h1], ?_⟩
    intro hm
    rcases List.mem_cons.mp hm with e | e
    · exact hx e.symm
    · exact h2 e

theorem quoteBody_noBS : ∀ (fuel : Nat) (s : Bytes), s.length ≤ fuel → BS ∉ quoteBody fuel s DQ →
    quoteBody fuel s DQ = s := by
  intro fuel
  induction fuel with
  | zero =>
    intro s hs _
    have : s = [] := List.eq_nil_of_length_eq_zero (by omega)
    subst this; simp [quoteBody]
  | succ n ih =>
    intro s hs hno
    cases s with
    | nil => simp [quoteBody]
    | cons c rest =>
      obtain ⟨chunk, w, hw1, hw2, hq, good⟩ := chunk_spec c rest
      rw [hq] at hno ⊢
      rcases good.plain with ⟨he, _⟩ | ⟨t, rfl⟩
      · have hl : ((c :: rest).drop w).length ≤ n := by
          simp only [List.length_drop, List.length_cons] at hs ⊢; omega
        rw [ih _ hl (fun hm => hno (List.mem_append_right _ hm)), he, List.take_append_drop]
      · exfalso; apply hno; simp

theorem loop_step (k : Nat) (h : UInt8) (tl t acc : Bytes) (r : Nat) (mb : Bool) (h1 : h ≠ DQ) (h2 : h ≠ 10)
    (hu : unquoteChar (h :: tl) DQ = some (r, mb, t)) :
    unquote.loop DQ (k+1) (h :: tl) acc = unquote.loop DQ k t (acc ++ outBytes r mb) := by
  rw [unquote.loop.eq_3, if_neg (by simpa using h1), hu]
  simp only []
  rw [if_neg (by simpa using h2), if_neg (by decide)]
  unfold outBytes; split <;> rfl

theorem loop_quoteBody : ∀ (fuel : Nat) (s : Bytes), s.length ≤ fuel → ∀ (lfuel : Nat) (acc : Bytes),
    (quoteBody fuel s DQ).length < lfuel →
    unquote.loop DQ lfuel (quoteBody fuel s DQ ++ [DQ]) acc = some (acc ++ s, []) := by
  intro fuel
  induction fuel with
  | zero =>
    intro s hs lfuel acc hl
    have : s = [] := List.eq_nil_of_length_eq_zero (by omega)
    subst this
    obtain ⟨k, rfl⟩ : ∃ k, lfuel = k + 1 := ⟨lfuel - 1, by omega⟩
    simp [quoteBody, unquote.loop.eq_3]
  | succ n ih =>
    intro s hs lfuel acc hl
    obtain ⟨k, rfl⟩ : ∃ k, lfuel = k + 1 := ⟨lfuel - 1, by omega⟩
    cases s with
    | nil => simp [quoteBody, unquote.loop.eq_3]
    | cons c rest =>
      obtain ⟨chunk, w, hw1, hw2, hq, good⟩ := chunk_spec c rest
      rw [hq] at hl ⊢
      obtain ⟨h, tl, rfl, hDQ, h10⟩ := good.head
      obtain ⟨r, mb, hu, ho⟩ := good.unq (quoteBody n ((c :: rest).drop w) DQ ++ [DQ])
      rw [List.append_assoc]
      rw [List.cons_append] at hu ⊢
      rw [loop_step k h _ _ acc r mb hDQ h10 hu, ho]
      have hl' : ((c :: rest).drop w).length ≤ n := by
        simp only [List.length_drop, List.length_cons] at hs ⊢; omega
      rw [ih _ hl' k _ (by simp only [List.length_append, List.length_cons] at hl; omega)]
      rw [List.append_assoc, List.take_append_drop]


/-- PART 2: `strconv.Unquote(strconv.Quote(v)) = v` on the byte-level model, for every byte string -/
theorem unquote_quote (v : Bytes) : unquote (quote v) = some v := by
  generalize hb : quoteBody (v.length + 1) v DQ = body
  have hq : quote v = DQ :: (body ++ [DQ]) := by rw [← hb]; rfl
  have hok : fsOK body = true := hb ▸ fsOK_quoteBody _ _
  have hloop : unquote.loop DQ ((DQ :: (body ++ [DQ])).length + 1) (body ++ [DQ]) [] = some (v, []) := by
    have := loop_quoteBody (v.length+1) v (by omega) ((DQ :: (body ++ [DQ])).length + 1) []
      (by rw [hb]; simp only [List.length_cons, List.length_append]; omega)
    rw [hb] at this; simpa using this
  have hA : BS ∉ body → body = v := by rw [← hb]; exact quoteBody_noBS _ _ (by omega)
  rw [hq]
  unfold unquote
  simp only []
  rw [if_neg (by simp)]
  have hlt : List.findIdx (· == DQ) (body ++ [DQ]) < (body ++ [DQ]).length :=
    List.findIdx_lt_length_of_exists ⟨DQ, by simp, by simp⟩
  have hidx : indexOf (body ++ [DQ]) DQ = some (List.findIdx (· == DQ) (body ++ [DQ])) := by
    unfold indexOf; simp only []; rw [if_pos hlt]
  rw [hidx]; simp only []
  rw [if_neg (by decide), if_pos (by decide)]
  simp only [List.drop_succ_cons, List.drop_zero]
  rw [hloop]; simp only [List.isEmpty_nil, if_true]
  split
  · rename_i hfast
    have hnoBS : BS ∉ List.take (List.findIdx (· == DQ) (body ++ [DQ]) + 2) (DQ :: (body ++ [DQ])) := by
      intro hm
      have hc : (List.take (List.findIdx (· == DQ) (body ++ [DQ]) + 2) (DQ :: (body ++ [DQ]))).contains BS = true := by
        simpa using hm
      rw [hc] at hfast
      simp at hfast
    obtain ⟨h1, h2⟩ := first_DQ body [] hok (by
      intro hm; apply hnoBS
      simp only [List.take_succ_cons]
      exact List.mem_cons_of_mem _ hm)
    rw [h1, hA h2]
    simp
  · rfl

/-- the hypothesis of `Proofs.KV` / `Proofs.Tags`, discharged -/
theorem quoteContract : QuoteContract := ⟨quote_shape, unquote_quote⟩


end Logrange.Proofs.Quote
