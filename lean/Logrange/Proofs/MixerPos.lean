import Logrange.Proofs.Mixer
import Logrange.Model.MixerErr
/-!
# Positions in the leaf contract (an ADDED structure: nothing of `LawfulSource` changes)

`LawfulSource` (Proofs/Mixer.lean) speaks about streams of events only. `crsr.Offset`/`iterateToPos` remember `CurrentPos()` of the
merged cursor and walk until it shows up again, so laws about them need to know *which position the cursor reports while it shows
which event*. `LawfulSourcePos` adds that to the contract of a leaf — `pview s`: the positions of the events of `view s`, in stream
order — and this file lifts it to trees of mixers:

* `It.curPosS` — `Mixer.CurrentPos` over plain sources (the selected source's position, `none` = `IteratorPosUnknown`);
* `It.headPos` — SPEC: the position of the head event of the tree's stream (the head of the source the merge selects);
* `It.get_placed` — after a `Get` the tree reports exactly the position of the event it shows (`Placed`), in every reachable state
  (`WFP`: the invariant "a selected child is placed", kept by `Get`, `Next`, `Release`, `SetBackward`).
-/
namespace Logrange.Mixer
open LawfulSource

/-- the added part of the leaf contract. `pview s` = the positions `CurrentPos` reports for the events of `view s`, in order. -/
class LawfulSourcePos (σ : Type) [Source σ] [LawfulSource σ] [SourcePos σ] where
  pview : σ → List (Int × Int)
  pview_length : ∀ s : σ, wf s → (pview s).length = (view s).length
  /-- after a `Get` the source stands on the head event -/
  pos_get : ∀ s : σ, wf s → ∀ p, (pview s).head? = some p → SourcePos.pos (Source.get s).1 = p
  pview_get : ∀ s : σ, wf s → pview (Source.get s).1 = pview s
  pview_next : ∀ s : σ, wf s → settled s → pview (Source.next s) = (pview s).tail
  /-- `Release` gives resources back; it moves nothing and the reported position stays -/
  pview_release : ∀ s : σ, wf s → pview (Source.release s) = pview s ∧ SourcePos.pos (Source.release s) = SourcePos.pos s

namespace It
variable {σ : Type} [Source σ] [LawfulSource σ] [SourcePos σ]

/-- `Mixer.CurrentPos` (and `LogEventIterator.CurrentPos` at a leaf) -/
def curPosS : It σ → Option (Int × Int)
  | .leaf s => some (SourcePos.pos s)
  | .mix m a b => if m.st = 1 then a.curPosS else if m.st = 2 then b.curPosS else none

variable [LawfulSourcePos σ]

/-- SPEC: the position of the head event of the tree's stream -/
def headPos : It σ → Option (Int × Int)
  | .leaf s => (LawfulSourcePos.pview s).head?
  | .mix m a b => if sel m.bkwd a.view b.view = 1 then a.headPos else if sel m.bkwd a.view b.view = 2 then b.headPos else none

/-- the tree reports the position of the event it shows -/
def Placed (t : It σ) : Prop := ∀ p, t.headPos = some p → t.curPosS = some p

/-- every selected child is placed -/
def WFP : It σ → Prop
  | .leaf _ => True
  | .mix m a b => a.WFP ∧ b.WFP ∧ (m.st = 1 → a.Placed) ∧ (m.st = 2 → b.Placed)

theorem headPos_none_of_empty (t : It σ) (h : t.WF) (he : t.view = []) : t.headPos = none := by
  cases t with
  | leaf s =>
    have := LawfulSourcePos.pview_length s h
    have hv : LawfulSource.view s = [] := he
    rw [hv] at this
    simp only [headPos]
    rw [List.eq_nil_of_length_eq_zero this]; rfl
  | mix m a b =>
    simp only [view] at he
    have hl : (mergeSpec m.bkwd a.view b.view).length = 0 := by rw [he]; rfl
    rw [(mergeSpec_perm _ _ _).length_eq, List.length_append] at hl
    have ea : a.view = [] := List.eq_nil_of_length_eq_zero (by omega)
    have eb : b.view = [] := List.eq_nil_of_length_eq_zero (by omega)
    simp [headPos, ea, eb, sel]

/-- `Get` does not change the position of the head -/
theorem headPos_get (t : It σ) (h : t.WF) : t.get.1.headPos = t.headPos := by
  induction t with
  | leaf s => simp only [get, headPos]; rw [LawfulSourcePos.pview_get s h]
  | mix m a b iha ihb =>
    have G := get_spec (It.mix m a b) h
    obtain ⟨wa, wb, _, _, _, _, _⟩ := h
    have hc := selectState_cases m a b a.get b.get
    simp only [get] at G ⊢
    generalize m.selectState a b a.get b.get = r at *
    obtain ⟨m', a', b'⟩ := r
    simp only at hc G ⊢
    have va : a'.view = a.view := by rcases hc.1 with r | r <;> rw [r]; exact (get_spec a wa).2.1
    have vb : b'.view = b.view := by rcases hc.2 with r | r <;> rw [r]; exact (get_spec b wb).2.1
    have ha : a'.headPos = a.headPos := by rcases hc.1 with r | r <;> rw [r]; exact iha wa
    have hb : b'.headPos = b.headPos := by rcases hc.2 with r | r <;> rw [r]; exact ihb wb
    have hbk : m'.bkwd = m.bkwd := G.2.2.2.1
    simp only [headPos, va, vb, ha, hb, hbk]

/-- **after a `Get` the merged cursor reports the position of the event it shows**, in every reachable state; and the invariant
is kept -/
theorem get_placed (t : It σ) (h : t.WF) (hp : t.WFP) : t.get.1.WFP ∧ t.get.1.Placed := by
  induction t with
  | leaf s =>
    refine ⟨trivial, ?_⟩
    intro p hp'
    simp only [get, headPos, curPosS] at hp' ⊢
    rw [LawfulSourcePos.pview_get s h] at hp'
    rw [LawfulSourcePos.pos_get s h p hp']
  | mix m a b iha ihb =>
    have G := get_spec (It.mix m a b) h
    obtain ⟨wa, wb, da, db, e1, e2, hst⟩ := h
    obtain ⟨pa, pb, p1, p2⟩ := hp
    have ga := get_spec a wa
    have gb := get_spec b wb
    have hc := selectState_cases m a b a.get b.get
    by_cases h0 : m.st = 0
    · have S := selectState_sound m a b a.get b.get a.view b.view h0 e1 e2 ga.1 gb.1 _ rfl
      simp only [get] at G ⊢
      generalize m.selectState a b a.get b.get = r at *
      obtain ⟨m', a', b'⟩ := r
      simp only at hc G S ⊢
      obtain ⟨s1, s2, _, _, s5, s6, _, _⟩ := S
      have va : a'.view = a.view := by rcases hc.1 with r | r <;> rw [r]; exact ga.2.1
      have vb : b'.view = b.view := by rcases hc.2 with r | r <;> rw [r]; exact gb.2.1
      have wpa : a'.WFP := by rcases hc.1 with r | r <;> rw [r]; exact pa; exact (iha wa pa).1
      have wpb : b'.WFP := by rcases hc.2 with r | r <;> rw [r]; exact pb; exact (ihb wb pb).1
      have pl1 : m'.st = 1 → a'.Placed := by intro h1; rw [(s5 h1).2]; exact (iha wa pa).2
      have pl2 : m'.st = 2 → b'.Placed := by intro h2; rw [(s6 h2).2]; exact (ihb wb pb).2
      refine ⟨⟨wpa, wpb, pl1, pl2⟩, ?_⟩
      intro p hp'
      simp only [headPos, curPosS, va, vb, s2] at hp' ⊢
      rw [← s1] at hp'
      by_cases c1 : m'.st = 1
      · simp only [c1, if_true] at hp' ⊢; exact pl1 c1 p hp'
      · by_cases c2 : m'.st = 2
        · simp only [c2, if_true, show ¬ (2 = 1) by decide, if_false] at hp' ⊢; exact pl2 c2 p hp'
        · simp [c1, c2] at hp'
    · have hs : m.selectState a b a.get b.get = (m, a, b) := by simp [MixSt.selectState, h0]
      simp only [get, hs]
      refine ⟨⟨pa, pb, p1, p2⟩, ?_⟩
      intro p hp'
      rcases hst with hst | ⟨hs1, _, _⟩
      · exact absurd hst h0
      · simp only [headPos, curPosS] at hp' ⊢
        rw [← hs1] at hp'
        by_cases c1 : m.st = 1
        · simp only [c1, if_true] at hp' ⊢; exact p1 c1 p hp'
        · by_cases c2 : m.st = 2
          · simp only [c2, if_true, show ¬ (2 = 1) by decide, if_false] at hp' ⊢; exact p2 c2 p hp'
          · simp [c1, c2] at hp'

/-- a fresh mixer satisfies the invariant -/
theorem init_WFP (a b : It σ) (ha : a.WFP) (hb : b.WFP) : (init a b).WFP := by
  simp [init, WFP, ha, hb]

theorem release_curPosS (t : It σ) (h : t.WF) : t.release.curPosS = t.curPosS := by
  induction t with
  | leaf s => simp only [release, curPosS]; rw [(LawfulSourcePos.pview_release s h).2]
  | mix m a b iha ihb =>
    obtain ⟨wa, wb, _⟩ := h
    simp only [release, curPosS]
    by_cases c1 : m.st = 1
    · simp [c1, iha wa]
    · by_cases c2 : m.st = 2
      · simp [c2, ihb wb]
      · by_cases c3 : m.st = 3 <;> simp [c1, c2, c3]

theorem release_headPos (t : It σ) (h : t.WF) : t.release.headPos = t.headPos := by
  induction t with
  | leaf s => simp only [release, headPos]; rw [(LawfulSourcePos.pview_release s h).1]
  | mix m a b iha ihb =>
    obtain ⟨wa, wb, _⟩ := h
    simp only [release, headPos, (release_spec a wa).1, (release_spec b wb).1, iha wa, ihb wb]

/-- `Release` keeps the invariant and the reported position -/
theorem release_WFP (t : It σ) (h : t.WF) (hp : t.WFP) : t.release.WFP := by
  induction t with
  | leaf s => trivial
  | mix m a b iha ihb =>
    obtain ⟨pa, pb, p1, p2⟩ := hp
    have wa := h.1
    have wb := h.2.1
    simp only [release, WFP]
    refine ⟨iha wa pa, ihb wb pb, ?_, ?_⟩
    · intro h1
      have : m.st = 1 := by by_cases c3 : m.st = 3 <;> simp [c3] at h1 <;> exact h1
      intro p hp'
      rw [release_headPos a wa] at hp'
      rw [release_curPosS a wa]; exact p1 this p hp'
    · intro h2
      have : m.st = 2 := by by_cases c3 : m.st = 3 <;> simp [c3] at h2 <;> exact h2
      intro p hp'
      rw [release_headPos b wb] at hp'
      rw [release_curPosS b wb]; exact p2 this p hp'

/-- `SetBackward` leaves every mixer it switches unselected: the invariant holds trivially there -/
theorem setBackward_WFP (bk : Bool) (t : It σ) (h : t.WF) (hp : t.WFP) : (t.setBackward bk).WFP := by
  induction t with
  | leaf s => trivial
  | mix m a b iha ihb =>
    obtain ⟨pa, pb, p1, p2⟩ := hp
    have wa := h.1
    have wb := h.2.1
    simp only [setBackward]
    split
    · exact ⟨pa, pb, p1, p2⟩
    · simp only [release, WFP]
      refine ⟨release_WFP _ (setBackward_spec bk a wa).1 (iha wa pa), release_WFP _ (setBackward_spec bk b wb).1 (ihb wb pb), ?_, ?_⟩ <;>
        (intro hc; simp at hc)

theorem next_WFP_aux (n : Nat) : ∀ t : It σ, t.size ≤ n → t.WF → t.WFP → t.next.WFP := by
  induction n with
  | zero => intro t hn; cases t <;> simp [size] at hn
  | succ n ih =>
    intro t hn h hp
    cases t with
    | leaf s => simp [next, WFP]
    | mix m a b =>
      have G := get_spec (It.mix m a b) h
      have P := (get_placed (It.mix m a b) h hp).1
      have hc := selectState_cases m a b a.get b.get
      rw [next]
      simp only [get] at G P
      split
      rename_i m' a' b' heq
      rw [heq] at G hc P
      simp only at G hc P
      have sza : a'.size ≤ n := by
        have := get_size a; simp only [size] at hn
        rcases hc.1 with r | r <;> rw [r] <;> omega
      have szb : b'.size ≤ n := by
        have := get_size b; simp only [size] at hn
        rcases hc.2 with r | r <;> rw [r] <;> omega
      obtain ⟨_, _, gw, _, _⟩ := G
      obtain ⟨wa, wb, _⟩ := gw
      obtain ⟨pa, pb, _, _⟩ := P
      split
      · exact ⟨ih a' sza wa pa, pb, by simp, by simp⟩
      · exact ⟨pa, ih b' szb wb pb, by simp, by simp⟩
      · exact ⟨pa, pb, by simp, by simp⟩

/-- `Next` keeps the invariant (the mixer it passes is left unselected) -/
theorem next_WFP (t : It σ) (h : t.WF) (hp : t.WFP) : t.next.WFP := next_WFP_aux t.size t (Nat.le_refl _) h hp

/-- the position of the head event is the position of the head of one of the sources -/
theorem headPos_mem_leaves (t : It σ) (p : Int × Int) (h : t.headPos = some p) :
    ∃ s ∈ t.leaves, (LawfulSourcePos.pview s).head? = some p := by
  induction t with
  | leaf s => exact ⟨s, by simp [leaves], h⟩
  | mix m a b iha ihb =>
    simp only [headPos] at h
    split at h
    · obtain ⟨s, hs, e⟩ := iha h
      exact ⟨s, by simp only [leaves, List.mem_append]; exact Or.inl hs, e⟩
    · split at h
      · obtain ⟨s, hs, e⟩ := ihb h
        exact ⟨s, by simp only [leaves, List.mem_append]; exact Or.inr hs, e⟩
      · simp at h

end It
end Logrange.Mixer
