import Logrange.Model.MixerErr
/-!
# The mixer never treats a failing source as an ended one

* `selectStateE_noerr` — without errors `selectStateE` is `selectState` (the error model extends the proved model).
* `selectStateE_err1/2` — a source that answers a non-EOF error: the error is returned, `st` stays 0, the source's `eof` flag is
  not set (and the other source's flag is what it was).
* `getE_blocked` — tree level: while some source that the mixers would ask keeps failing, every `Get` of the tree fails; nothing
  is marked as ended on the way, so the next `Get` fails again — the tree never goes on to merge the remaining sources.
-/
namespace Logrange.Mixer

theorem selectStateE_noerr {α : Type} (m : MixSt) (a b : α) (a' b' : α) (oa ob : Option Ev) :
    m.selectStateE a b (a', Res.ofOption oa) (b', Res.ofOption ob) =
      ((m.selectState a b (a', oa) (b', ob)).1, (m.selectState a b (a', oa) (b', ob)).2.1,
       (m.selectState a b (a', oa) (b', ob)).2.2, false) := by
  unfold MixSt.selectStateE MixSt.selectState
  by_cases h : m.st ≠ 0
  · simp [h]
  · simp only [h, if_false]
    cases oa <;> cases ob <;> cases h1 : m.eof1 <;> cases h2 : m.eof2 <;>
      simp [Res.ofOption, MixSt.fetch1, MixSt.fetch2, h1, h2]

theorem selectStateE_err1 {α : Type} (m : MixSt) (a b : α) (ga gb : α × Res)
    (h0 : m.st = 0) (he : m.eof1 = false) (hg : ga.2 = .err) :
    let t := m.selectStateE a b ga gb
    t.2.2.2 = true ∧ t.1.st = 0 ∧ t.1.eof1 = false ∧ t.1.eof2 = m.eof2 ∧ t.1.bkwd = m.bkwd ∧
    t.2.1 = ga.1 ∧ t.2.2.1 = b := by
  simp [MixSt.selectStateE, h0, he, hg]

theorem selectStateE_err2 {α : Type} (m : MixSt) (a b : α) (ga gb : α × Res)
    (h0 : m.st = 0) (h1 : m.eof1 = true ∨ ga.2 ≠ .err) (he : m.eof2 = false) (hg : gb.2 = .err) :
    let t := m.selectStateE a b ga gb
    t.2.2.2 = true ∧ t.1.st = 0 ∧ t.1.eof2 = false ∧ t.1.bkwd = m.bkwd ∧ t.2.2.1 = gb.1 ∧
    (t.1.eof1 = true → m.eof1 = true ∨ ga.2 = .eof) := by
  unfold MixSt.selectStateE
  cases hm : m.eof1 <;> cases hga : ga.2 <;> simp_all

namespace It
variable {σ : Type} [SourceE σ]

/-- some source that the mixers would ask (every mixer above it has `st = 0` and has not marked it as ended) is in the set `P` -/
def Blocked (P : σ → Prop) : It σ → Prop
  | .leaf s => P s
  | .mix m a b => m.st = 0 ∧ ((m.eof1 = false ∧ a.Blocked P) ∨ (m.eof2 = false ∧ b.Blocked P))

/-- **a failing source blocks the tree and stays asked.** `P`: a set of source states in which `Get` fails with a non-EOF error
and leaves the source in the set (a record that cannot be read). If a source in `P` would be asked, `Get` of the tree answers
the error, and afterwards a source in `P` would still be asked: no mixer has marked anything as ended because of the error. -/
theorem getE_blocked (P : σ → Prop)
    (hP : ∀ s, P s → (SourceE.getE s).2 = .err ∧ P (SourceE.getE s).1)
    (it : It σ) (h : it.Blocked P) : it.getE.2 = .err ∧ it.getE.1.Blocked P := by
  induction it with
  | leaf s => exact hP s h
  | mix m a b iha ihb =>
    obtain ⟨h0, hb⟩ := h
    simp only [getE, Blocked]
    by_cases hea : m.eof1 = false ∧ a.getE.2 = .err
    · -- the first source is asked and fails
      obtain ⟨e1, e2, e3, e4, _, e6, e7⟩ := selectStateE_err1 m a b a.getE b.getE h0 hea.1 hea.2
      rw [e1, e6, e7]
      refine ⟨by simp, e2, ?_⟩
      rcases hb with ⟨_, ba⟩ | ⟨f2, bb⟩
      · exact Or.inl ⟨e3, (iha ba).2⟩
      · exact Or.inr ⟨by rw [e4]; exact f2, bb⟩
    · -- the first source is not asked or does not fail: then it is not the blocked one, the second is
      have hb2 : m.eof2 = false ∧ b.Blocked P := by
        rcases hb with ⟨f1, ba⟩ | hb2
        · exact absurd ⟨f1, (iha ba).1⟩ hea
        · exact hb2
      have h1 : m.eof1 = true ∨ a.getE.2 ≠ .err := by
        cases hm : m.eof1
        · right; intro he; exact hea ⟨hm, he⟩
        · left; rfl
      obtain ⟨e1, e2, e3, _, e5, _⟩ := selectStateE_err2 m a b a.getE b.getE h0 h1 hb2.1 (ihb hb2.2).1
      rw [e1, e5]
      exact ⟨by simp, e2, Or.inr ⟨e3, (ihb hb2.2).2⟩⟩

end It

/-- an unreadable record of the in-memory leaf that stays unreadable: the leaf stands on it and keeps failing -/
def LeafE.Stuck (s : LeafE) : Prop :=
  s.sticky = true ∧ s.l.clamp < s.l.les.length ∧ s.l.clamp ≥ 0 ∧ s.bad.contains s.l.clamp.toNat = true

theorem LeafE.clamp_idem (l : Leaf) : ({ l with idx := l.clamp } : Leaf).clamp = l.clamp := by
  unfold Leaf.clamp
  cases hb : l.bkwd <;> simp [hb] <;> split <;> (try split) <;> omega

theorem LeafE.stuck_getE (s : LeafE) (h : s.Stuck) : (SourceE.getE s).2 = .err ∧ (SourceE.getE s).1.Stuck := by
  obtain ⟨h1, h2, h3, h4⟩ := h
  have hc : s.l.clamp < (s.l.les.length : Int) ∧ s.l.clamp ≥ 0 ∧ s.bad.contains s.l.clamp.toNat = true := ⟨h2, h3, h4⟩
  have e : LeafE.getE s = ({ s with l := { s.l with idx := s.l.clamp }, bad := s.bad }, .err) := by
    unfold LeafE.getE
    simp only [hc, and_self, if_true, h1]
  show (LeafE.getE s).2 = .err ∧ (LeafE.getE s).1.Stuck
  rw [e]
  refine ⟨rfl, h1, ?_, ?_, ?_⟩
  · show ({ s.l with idx := s.l.clamp } : Leaf).clamp < _
    rw [LeafE.clamp_idem]; exact h2
  · show ({ s.l with idx := s.l.clamp } : Leaf).clamp ≥ 0
    rw [LeafE.clamp_idem]; exact h3
  · show s.bad.contains ({ s.l with idx := s.l.clamp } : Leaf).clamp.toNat = true
    rw [LeafE.clamp_idem]; exact h4

end Logrange.Mixer
