import Logrange.Model.DateParser
/-!
# Lemmas for C20

1. `ms_reach` — a sound abstract interpretation of the regular-expression matcher on *signed digit strings*
   (`-?[0-9]*`): `reach r q` over-approximates where a match of `r` can end. If `reach r .S = []` the expression
   matches no substring of a decimal integer (`find_none_of_reach`).
2. formats whose expression *can* match digits (`MM.DD.YYYY`: the unescaped `.` matches a digit) but whose layout then
   fails on the matched digits (`parseItems_digits_fail`).
3. the decimal text of an integer: digits only, read back by `parseInt64` (`parseInt64_decimal`).
4. `skip`/`getnum`/`pad2` lemmas and the generic round trip `parseItems_formatItems` for the numeric fixed-width elements.
-/
namespace Logrange.Date

/-! ## 1. signed digit strings and the matcher -/

def AllDig (s : Bytes) : Prop := ∀ c ∈ s, isDig c = true
/-- an optional `-` followed by digits (possibly none) -/
def SD (s : Bytes) : Prop := AllDig s ∨ ∃ t, s = 45 :: t ∧ AllDig t

theorem AllDig.tail {x : UInt8} {s : Bytes} (h : AllDig (x :: s)) : AllDig s :=
  fun c hc => h c (List.mem_cons_of_mem _ hc)
theorem AllDig.head {x : UInt8} {s : Bytes} (h : AllDig (x :: s)) : isDig x = true := h x (List.mem_cons_self ..)
theorem AllDig.sd {s : Bytes} (h : AllDig s) : SD s := Or.inl h
theorem allDig_nil : AllDig [] := fun _ h => by cases h

theorem SD.tail_allDig {x : UInt8} {s : Bytes} (h : SD (x :: s)) : AllDig s := by
  rcases h with h | ⟨t, e, ht⟩
  · exact h.tail
  · cases e; exact ht

theorem SD.head {x : UInt8} {s : Bytes} (h : SD (x :: s)) : isDig x = true ∨ x = 45 := by
  rcases h with h | ⟨t, e, _⟩
  · exact Or.inl h.head
  · cases e; exact Or.inr rfl

theorem AllDig.of_append_right {p s : Bytes} (h : AllDig (p ++ s)) : AllDig s :=
  fun c hc => h c (List.mem_append_right _ hc)

/-- a proper suffix of a signed digit string is all digits -/
theorem SD.suffix {p s : Bytes} (h : SD (p ++ s)) : SD s ∧ (p ≠ [] → AllDig s) := by
  cases p with
  | nil => exact ⟨h, fun hp => absurd rfl hp⟩
  | cons x p =>
    have : AllDig (p ++ s) := SD.tail_allDig (x := x) h
    exact ⟨(this.of_append_right).sd, fun _ => this.of_append_right⟩

inductive Q | S | M
deriving DecidableEq, Repr

def inQ : Q → Bytes → Prop
  | .S, s => SD s
  | .M, s => AllDig s

def clsHasDigit (rg : List (UInt8 × UInt8)) : Bool := rg.any (fun p => p.1 ≤ 57 && 48 ≤ p.2)

/-- where a match can end, over-approximated: `.S` = nothing consumed yet, `.M` = inside the digits -/
def reach : Rx → Q → List Q
  | .eps, q => [q]
  | .chr c, .S => if isDig c || c == 45 then [.M] else []
  | .chr c, .M => if isDig c then [.M] else []
  | .any, _ => [.M]
  | .cls rg, .S => if clsHasDigit rg || inCls rg 45 then [.M] else []
  | .cls rg, .M => if clsHasDigit rg then [.M] else []
  | .seq a b, q => (reach a q).flatMap (reach b)
  | .alt a b, q => reach a q ++ reach b q
  | .star _, .S => [.S, .M]
  | .star _, .M => [.M]

theorem clsHasDigit_of_mem {rg : List (UInt8 × UInt8)} {x : UInt8} (h : inCls rg x = true) (hx : isDig x = true) :
    clsHasDigit rg = true := by
  simp only [inCls, List.any_eq_true, Bool.and_eq_true, decide_eq_true_eq] at h
  obtain ⟨p, hp, h1, h2⟩ := h
  simp only [isDig, Bool.and_eq_true, decide_eq_true_eq] at hx
  simp only [clsHasDigit, List.any_eq_true, Bool.and_eq_true, decide_eq_true_eq]
  exact ⟨p, hp, UInt8.le_trans h1 hx.2, UInt8.le_trans hx.1 h2⟩

theorem starRem_suffix (rg : List (UInt8 × UInt8)) : ∀ (s s' : Bytes), s' ∈ starRem rg s → ∃ p, s = p ++ s'
  | [], s', h => by simp [starRem] at h; exact ⟨[], by simp [h]⟩
  | x :: s, s', h => by
    simp only [starRem] at h
    split at h
    · rcases List.mem_append.mp h with h | h
      · obtain ⟨p, hp⟩ := starRem_suffix rg s s' h
        exact ⟨x :: p, by simp [hp]⟩
      · simp at h; exact ⟨[], by simp [h]⟩
    · simp at h; exact ⟨[], by simp [h]⟩

theorem ms_reach : ∀ (r : Rx) (q : Q) (s : Bytes), inQ q s → ∀ s' ∈ ms r s, ∃ q' ∈ reach r q, inQ q' s'
  | .eps, q, s, h, s', hs => by
    simp [ms] at hs; subst hs; exact ⟨q, by simp [reach], h⟩
  | .chr c, q, s, h, s', hs => by
    cases s with
    | nil => simp [ms] at hs
    | cons x t =>
      simp only [ms] at hs
      split at hs
      · rename_i hxc
        have hxc : x = c := by simpa using hxc
        simp at hs; subst hs; subst hxc
        cases q with
        | S =>
          have := SD.head h
          refine ⟨.M, ?_, SD.tail_allDig h⟩
          rcases this with hd | hm
          · simp [reach, hd]
          · simp [reach, hm]
        | M =>
          refine ⟨.M, ?_, AllDig.tail h⟩
          simp [reach, AllDig.head h]
      · simp at hs
  | .any, q, s, h, s', hs => by
    cases s with
    | nil => simp [ms] at hs
    | cons x t =>
      simp only [ms] at hs
      split at hs
      · simp at hs; subst hs
        refine ⟨.M, by simp [reach], ?_⟩
        cases q with
        | S => exact SD.tail_allDig h
        | M => exact AllDig.tail h
      · simp at hs
  | .cls rg, q, s, h, s', hs => by
    cases s with
    | nil => simp [ms] at hs
    | cons x t =>
      simp only [ms] at hs
      split at hs
      · rename_i hin
        simp at hs; subst hs
        cases q with
        | S =>
          refine ⟨.M, ?_, SD.tail_allDig h⟩
          rcases SD.head h with hd | hm
          · simp [reach, clsHasDigit_of_mem hin hd]
          · subst hm; simp [reach, hin]
        | M =>
          refine ⟨.M, ?_, AllDig.tail h⟩
          simp [reach, clsHasDigit_of_mem hin (AllDig.head h)]
      · simp at hs
  | .seq a b, q, s, h, s', hs => by
    simp only [ms, List.mem_flatMap] at hs
    obtain ⟨m, hm, hs'⟩ := hs
    obtain ⟨q1, hq1, hin1⟩ := ms_reach a q s h m hm
    obtain ⟨q2, hq2, hin2⟩ := ms_reach b q1 m hin1 s' hs'
    exact ⟨q2, by simp only [reach, List.mem_flatMap]; exact ⟨q1, hq1, hq2⟩, hin2⟩
  | .alt a b, q, s, h, s', hs => by
    simp only [ms, List.mem_append] at hs
    rcases hs with hs | hs
    · obtain ⟨q', hq', hin⟩ := ms_reach a q s h s' hs
      exact ⟨q', by simp [reach, hq'], hin⟩
    · obtain ⟨q', hq', hin⟩ := ms_reach b q s h s' hs
      exact ⟨q', by simp [reach, hq'], hin⟩
  | .star rg, q, s, h, s', hs => by
    simp only [ms] at hs
    obtain ⟨p, hp⟩ := starRem_suffix rg s s' hs
    subst hp
    cases q with
    | S =>
      by_cases hpn : p = []
      · subst hpn; exact ⟨.S, by simp [reach], by simpa using h⟩
      · exact ⟨.M, by simp [reach], (SD.suffix h).2 hpn⟩
    | M => exact ⟨.M, by simp [reach], AllDig.of_append_right h⟩

theorem ms_nil_of_reach {r : Rx} (hr : reach r .S = []) {s : Bytes} (h : SD s) : ms r s = [] := by
  cases hm : ms r s with
  | nil => rfl
  | cons x xs =>
    obtain ⟨q', hq', _⟩ := ms_reach r .S s h x (by simp [hm])
    simp [hr] at hq'

/-- an expression that cannot end a match on signed digits finds nothing in a decimal integer -/
theorem find_none_of_reach {r : Rx} (hr : reach r .S = []) : ∀ {s : Bytes}, SD s → find r s = none
  | [], h => by simp [find, matchAt, ms_nil_of_reach hr h]
  | x :: s, h => by
    have ht : SD s := (SD.tail_allDig h).sd
    simp [find, matchAt, ms_nil_of_reach hr h, find_none_of_reach hr ht]

/-! ## 2. formats whose expression can match digits but whose layout rejects them -/

/-- the layout starts with a two-digit month directly followed by a literal that begins with a byte which is neither a
digit nor a blank (`01.02.2006`): on digits the literal cannot be skipped -/
def digitsRejected (L : Layout) : Bool :=
  L.supported &&
  match L.items with
  | ([], .zeroMonth) :: (c :: _, _) :: _ => !isDig c && c != 32
  | _ => false

theorem parseItems_digits_fail (tail : Bytes) (c : UInt8) (p : Bytes) (s1 : Std) (rest : List (Bytes × Std))
    (hc : isDig c = false) (hb : c ≠ 32) {v : Bytes} (hv : SD v) (f : F) :
    parseItems tail (([], .zeroMonth) :: (c :: p, s1) :: rest) v f = none := by
  have key : ∀ (r : Bytes) (f' : F), AllDig r → parseItems tail ((c :: p, s1) :: rest) r f' = none := by
    intro r f' hr
    cases r with
    | nil => simp [parseItems, skipLit, skip, hb]
    | cons d r' =>
      have hd : isDig d = true := hr.head
      have hne : (d == c) = false := by
        apply beq_false_of_ne; intro e; subst e; rw [hd] at hc; cases hc
      simp [parseItems, skipLit, skip, hb, hne]
  cases v with
  | nil => simp [parseItems, skipLit, skip, parseStd, getnum]
  | cons a v1 =>
    cases v1 with
    | nil =>
      simp only [parseItems, skipLit, skip, parseStd, getnum]
      by_cases ha : isDig a = true <;> simp [ha]
    | cons b r =>
      simp only [parseItems, skipLit, skip, parseStd, getnum]
      by_cases ha : isDig a = true
      · by_cases hb' : isDig b = true
        · have hall : AllDig (a :: b :: r) := by
            rcases hv with h | ⟨t, e, _⟩
            · exact h
            · cases e; simp [isDig] at ha
          simp only [ha, hb', if_true, Option.bind]
          split
          · rfl
          · rename_i h; split at h
            · cases h
            · cases h; exact key _ _ hall.tail.tail
        · simp [ha, hb']
      · simp [ha]

/-! ## 3. decimal text of an integer -/

theorem dig_toNat (n : Nat) : (dig n).toNat = 48 + n % 10 := by
  simp only [dig, UInt8.toNat_ofNat']; omega

theorem isDig_dig (n : Nat) : isDig (dig n) = true := by
  have h := dig_toNat n
  simp only [isDig, Bool.and_eq_true, decide_eq_true_eq, UInt8.le_iff_toNat_le]
  constructor
  · show (48 : UInt8).toNat ≤ _; rw [h]; simp
  · show _ ≤ (57 : UInt8).toNat; rw [h]; simp; omega

theorem natDigitsAux_allDig : ∀ (fuel n : Nat) (acc : Bytes), AllDig acc → AllDig (natDigitsAux fuel n acc)
  | 0, _, _, h => h
  | fuel + 1, n, acc, h => by
    have hc : AllDig (dig n :: acc) := by
      intro c hc; rcases List.mem_cons.mp hc with e | e
      · subst e; exact isDig_dig n
      · exact h c e
    simp only [natDigitsAux]; split
    · exact hc
    · exact natDigitsAux_allDig fuel _ _ hc

theorem natDigitsAux_ne_nil : ∀ (fuel n : Nat) (acc : Bytes), acc ≠ [] → natDigitsAux fuel n acc ≠ []
  | 0, _, _, h => h
  | fuel + 1, n, acc, _ => by
    simp only [natDigitsAux]; split
    · simp
    · exact natDigitsAux_ne_nil fuel _ _ (by simp)

theorem natDecimal_ne_nil (n : Nat) : natDecimal n ≠ [] := by
  simp only [natDecimal, natDigitsAux]; split
  · simp
  · exact natDigitsAux_ne_nil _ _ _ (by simp)

theorem natDecimal_allDig (n : Nat) : AllDig (natDecimal n) := natDigitsAux_allDig _ _ _ allDig_nil

def dstep (a : Nat) (c : UInt8) : Nat := a * 10 + (c.toNat - 48)

theorem natDigitsAux_value : ∀ (fuel n : Nat) (acc : Bytes), n < fuel →
    (natDigitsAux fuel n acc).foldl dstep 0 = acc.foldl dstep n
  | 0, _, _, h => by omega
  | fuel + 1, n, acc, h => by
    have hd : dstep (n / 10) (dig n) = n := by simp only [dstep, dig_toNat]; omega
    simp only [natDigitsAux]; split
    · rename_i h10
      have : dstep 0 (dig n) = n := by simp only [dstep, dig_toNat]; omega
      simp [List.foldl, this]
    · rw [natDigitsAux_value fuel (n / 10) _ (by omega)]
      simp [List.foldl, hd]

theorem natOfDigits_natDecimal (n : Nat) : natOfDigits (natDecimal n) = n := by
  have := natDigitsAux_value (n + 1) n [] (by omega)
  simp only [natOfDigits, natDecimal]; exact this

theorem decimal_sd (n : Int) : SD (decimal n) := by
  cases n with
  | ofNat k => exact (natDecimal_allDig k).sd
  | negSucc k => exact Or.inr ⟨_, rfl, natDecimal_allDig _⟩

theorem decimal_ne_nil (n : Int) : decimal n ≠ [] := by
  cases n with
  | ofNat k => exact natDecimal_ne_nil k
  | negSucc k => simp [decimal]

/-- every byte of a signed digit string is a digit or `-` -/
theorem SD.bytes {s : Bytes} (h : SD s) : ∀ c ∈ s, isDig c = true ∨ c = 45 := by
  intro c hc
  rcases h with h | ⟨t, e, ht⟩
  · exact Or.inl (h c hc)
  · subst e; rcases List.mem_cons.mp hc with e | e
    · exact Or.inr e
    · exact Or.inl (ht c e)

theorem all_isDig_of_allDig {s : Bytes} (h : AllDig s) : s.all isDig = true := by
  rw [List.all_eq_true]; exact h

theorem parseInt64_decimal (n : Int) (hlo : -9223372036854775808 ≤ n) (hhi : n ≤ 9223372036854775807) :
    parseInt64 (decimal n) = some n := by
  cases n with
  | ofNat k =>
    have hne := natDecimal_ne_nil k
    have hall := natDecimal_allDig k
    have hval := natOfDigits_natDecimal k
    simp only [decimal]
    cases hd : natDecimal k with
    | nil => exact absurd hd hne
    | cons c r =>
      have hc : isDig c = true := by rw [hd] at hall; exact hall.head
      have h45 : (c == 45) = false := by
        apply beq_false_of_ne; intro e; subst e; simp [isDig] at hc
      have h43 : (c == 43) = false := by
        apply beq_false_of_ne; intro e; subst e; simp [isDig] at hc
      have hall' : (c :: r).all isDig = true := by rw [← hd]; exact all_isDig_of_allDig hall
      have hv : natOfDigits (c :: r) = k := by rw [← hd]; exact hval
      simp only [parseInt64, h45, h43]
      simp only [Bool.false_eq_true, if_false, List.isEmpty_cons, hall', Bool.not_true, Bool.or_self, hv]
      have h1 : ¬ ((k : Int) < -9223372036854775808) := by omega
      have h2 : ¬ ((k : Int) > 9223372036854775807) := by
        have : (Int.ofNat k) ≤ 9223372036854775807 := hhi
        simp only [Int.ofNat_eq_natCast] at this; omega
      simp [h1, h2]
  | negSucc k =>
    have hne := natDecimal_ne_nil (k + 1)
    have hall := natDecimal_allDig (k + 1)
    have hval := natOfDigits_natDecimal (k + 1)
    have hall' : (natDecimal (k + 1)).all isDig = true := all_isDig_of_allDig hall
    have hemp : (natDecimal (k + 1)).isEmpty = false := by
      cases h : natDecimal (k + 1) with
      | nil => exact absurd h hne
      | cons _ _ => rfl
    simp only [decimal, parseInt64]
    simp only [beq_self_eq_true, if_true, hemp, hall', Bool.not_true, Bool.or_self, Bool.false_eq_true, if_false, hval]
    have e : (-((k + 1 : Nat) : Int)) = Int.negSucc k := by omega
    have h1 : ¬ (-((k + 1 : Nat) : Int) < -9223372036854775808) := by
      have : -9223372036854775808 ≤ Int.negSucc k := hlo
      omega
    have h2 : ¬ (-((k + 1 : Nat) : Int) > 9223372036854775807) := by omega
    simp
    refine ⟨⟨?_, ?_⟩, ?_⟩ <;> omega

/-! ## 4. a decimal integer through `parseLqlDateTime` -/

theorem SD.prefix {m q : Bytes} (h : SD (m ++ q)) : SD m := by
  rcases h with h | ⟨t, e, ht⟩
  · exact Or.inl (fun c hc => h c (List.mem_append_left _ hc))
  · cases m with
    | nil => exact Or.inl allDig_nil
    | cons x m' =>
      simp only [List.cons_append, List.cons.injEq] at e
      obtain ⟨e1, e2⟩ := e
      subst e1; subst e2
      exact Or.inr ⟨m', rfl, fun c hc => ht c (List.mem_append_left _ hc)⟩

theorem find_sub (r : Rx) : ∀ (s m : Bytes), find r s = some m → ∃ p q, s = p ++ m ++ q
  | [], m, h => by
    simp only [find, matchAt, Option.map_eq_some_iff] at h
    obtain ⟨_, _, hm⟩ := h
    exact ⟨[], [], by simp [← hm]⟩
  | x :: s, m, h => by
    simp only [find] at h
    split at h
    · rename_i m' hm
      cases h
      simp only [matchAt, Option.map_eq_some_iff] at hm
      obtain ⟨rem, _, hm⟩ := hm
      exact ⟨[], (x :: s).drop ((x :: s).length - rem.length), by rw [← hm]; simp⟩
    · obtain ⟨p, q, e⟩ := find_sub r s m h
      exact ⟨x :: p, q, by simp [e]⟩

theorem findFrom_sub (g : Bool) (r : Rx) : ∀ (s : Bytes) (pd : Bool) (m : Bytes), findFrom g r pd s = some m → ∃ p q, s = p ++ m ++ q
  | [], pd, m, h => by
    simp only [findFrom] at h
    split at h
    · cases h
    · simp only [matchAt, Option.map_eq_some_iff] at h
      obtain ⟨_, _, hm⟩ := h
      exact ⟨[], [], by simp [← hm]⟩
  | x :: s, pd, m, h => by
    simp only [findFrom] at h
    split at h
    · rename_i m' hm
      cases h
      split at hm
      · cases hm
      · simp only [matchAt, Option.map_eq_some_iff] at hm
        obtain ⟨rem, _, hm⟩ := hm
        exact ⟨[], (x :: s).drop ((x :: s).length - rem.length), by rw [← hm]; simp⟩
    · obtain ⟨p, q, e⟩ := findFrom_sub g r s _ m h
      exact ⟨x :: p, q, by simp [e]⟩

/-- the guard only removes candidates: where the plain search finds nothing, the guarded one finds nothing -/
theorem findFrom_none_of_find (g : Bool) (r : Rx) : ∀ (s : Bytes) (pd : Bool), find r s = none → findFrom g r pd s = none
  | [], pd, h => by
    simp only [find] at h
    simp only [findFrom, h]; split <;> rfl
  | x :: s, pd, h => by
    simp only [find] at h
    split at h
    · cases h
    · rename_i hm
      simp only [findFrom, hm]
      have := findFrom_none_of_find g r s (decide (48 ≤ x) && decide (x ≤ 57)) h
      have e : (if (g && pd) = true then (none : Option Bytes) else none) = none := by split <;> rfl
      rw [e]; exact this

theorem findG_of_matchAt {g : Bool} {r : Rx} {s m : Bytes} (h : matchAt r s = some m) : findG g r s = some m := by
  cases s with
  | nil => simp [findG, findFrom, h]
  | cons x t => simp [findG, findFrom, h]

theorem SD.infix {p m q : Bytes} (h : SD (p ++ m ++ q)) : SD m := by
  rw [List.append_assoc] at h
  exact SD.prefix (SD.suffix h).1

def fmtRejectsDigits (cf : CFormat) : Bool :=
  match cf.rx with
  | none => false
  | some rx => (reach rx .S).isEmpty || digitsRejected cf.layout

theorem parseLayout_err_of_digitsRejected {L : Layout} (h : digitsRejected L = true) {v : Bytes} (hv : SD v) :
    parseLayout L v = .err := by
  simp only [digitsRejected, Bool.and_eq_true] at h
  obtain ⟨hsup, h⟩ := h
  simp only [parseLayout, hsup, Bool.not_true, Bool.false_eq_true, if_false]
  split at h
  · rename_i c p s1 rest hitems
    simp only [Bool.and_eq_true, Bool.not_eq_true', bne_iff_ne, ne_eq] at h
    rw [hitems, parseItems_digits_fail L.tail c p s1 rest h.1 h.2 hv]
  · cases h

theorem formatParse_err {adj : Adjust} {cf : CFormat} {now : Now} (h : fmtRejectsDigits cf = true) {s : Bytes} (hs : SD s) :
    formatParse adj cf now s = .err := by
  simp only [fmtRejectsDigits] at h
  simp only [formatParse]
  split at h
  · cases h
  · rename_i rx hrx
    simp only [hrx]
    rcases Bool.or_eq_true _ _ |>.mp h with h | h
    · have : reach rx .S = [] := by simpa using h
      simp only [findG]
      rw [findFrom_none_of_find _ _ _ _ (find_none_of_reach this hs)]
    · cases hf : findG cf.guard rx s with
      | none => rfl
      | some sub =>
        obtain ⟨p, q, e⟩ := findFrom_sub _ rx s _ sub hf
        have hsub : SD sub := by rw [e] at hs; exact SD.infix hs
        simp only [parseLayout_err_of_digitsRejected h hsub]

theorem parseFrom_err {adj : Adjust} {now : Now} {s : Bytes} (hs : SD s) :
    ∀ (fmts : List CFormat) (i : Nat), (∀ cf ∈ fmts, fmtRejectsDigits cf = true) → parseFrom adj now s i fmts = .err
  | [], _, _ => rfl
  | cf :: rest, i, h => by
    simp only [parseFrom, formatParse_err (h cf (List.mem_cons_self ..)) hs]
    exact parseFrom_err hs rest (i + 1) (fun c hc => h c (List.mem_cons_of_mem _ hc))

theorem dropWhile_id {p : UInt8 → Bool} : ∀ {s : Bytes}, (∀ c ∈ s, p c = false) → s.dropWhile p = s
  | [], _ => rfl
  | x :: s, h => by simp [List.dropWhile, h x (List.mem_cons_self ..)]

theorem trimBlanks_id {s : Bytes} (h : ∀ c ∈ s, c ≠ 32) : trimBlanks s = s := by
  have h1 : ∀ c ∈ s, (c == 32) = false := fun c hc => beq_false_of_ne (h c hc)
  have h2 : ∀ c ∈ s.reverse, (c == 32) = false := fun c hc => h1 c (List.mem_reverse.mp hc)
  simp only [trimBlanks]
  rw [dropWhile_id h1, dropWhile_id h2, List.reverse_reverse]

theorem toLowerAscii_id : ∀ {s : Bytes}, (∀ c ∈ s, isUpperB c = false) → toLowerAscii s = s
  | [], _ => rfl
  | x :: s, h => by
    have ih := toLowerAscii_id (s := s) (fun c hc => h c (List.mem_cons_of_mem _ hc))
    simp only [toLowerAscii] at ih ⊢
    simp [List.map, lowerB, h x (List.mem_cons_self ..), ih]

theorem sdByte_facts {c : UInt8} (h : isDig c = true ∨ c = 45) :
    c ≠ 32 ∧ isUpperB c = false ∧ c ≠ 109 ∧ c ≠ 104 ∧ c ≠ 100 := by
  rcases h with h | h
  · simp only [isDig, Bool.and_eq_true, decide_eq_true_eq, UInt8.le_iff_toNat_le] at h
    have h48 : (48 : UInt8).toNat = 48 := rfl
    have h57 : (57 : UInt8).toNat = 57 := rfl
    rw [h48, h57] at h
    refine ⟨?_, ?_, ?_, ?_, ?_⟩
    · intro e; subst e; simp at h
    · simp only [isUpperB, Bool.and_eq_false_iff, decide_eq_false_iff_not, UInt8.le_iff_toNat_le]
      have h65 : (65 : UInt8).toNat = 65 := rfl
      rw [h65]; left; omega
    · intro e; subst e; simp at h
    · intro e; subst e; simp at h
    · intro e; subst e; simp at h
  · subst h; decide

theorem relativeShape_none {s : Bytes} (h : ∀ c ∈ s, c ≠ 109 ∧ c ≠ 104 ∧ c ≠ 100) : relativeShape s = none := by
  cases s with
  | nil => rfl
  | cons c r =>
    simp only [relativeShape]
    split
    · rfl
    · cases hl : (c :: r).getLast? with
      | none => rfl
      | some dim =>
        have hm : dim ∈ c :: r := List.mem_of_getLast? hl
        obtain ⟨a, b, d⟩ := h dim hm
        simp [a, b, d]

theorem parseConstants_none {s : Bytes} (h : ∀ c ∈ s, isDig c = true ∨ c = 45) : parseConstants s = none := by
  have no : ∀ (k : Bytes) (x : UInt8), x ∈ k → ¬ (isDig x = true ∨ x = 45) → (s == k) = false := by
    intro k x hx hn
    apply beq_false_of_ne; intro e; subst e; exact hn (h x hx)
  simp only [parseConstants]
  rw [no bMinute 109 (by decide) (by decide), no bHour 104 (by decide) (by decide), no bDay 100 (by decide) (by decide),
      no bWeek 119 (by decide) (by decide)]
  simp

/-- **a decimal integer literal is taken as Unix nanoseconds**, whatever the switches, for any format list none of whose
formats can claim a signed digit string -/
theorem parseLql_decimal (cfg : LqlCfg) (fmts : List CFormat) (hf : ∀ cf ∈ fmts, fmtRejectsDigits cf = true) (now : Now)
    (n : Int) (hlo : -9223372036854775808 ≤ n) (hhi : n ≤ 9223372036854775807) :
    parseLql cfg fmts now (decimal n) = .unixNano n := by
  have hsd := decimal_sd n
  have hb := fun c hc => sdByte_facts (SD.bytes hsd c hc)
  have htrim : trimBlanks (decimal n) = decimal n := trimBlanks_id (fun c hc => (hb c hc).1)
  have hlow : toLowerAscii (decimal n) = decimal n := toLowerAscii_id (fun c hc => (hb c hc).2.1)
  have hdt : (if cfg.lower then toLowerAscii (if cfg.trim then trimBlanks (decimal n) else decimal n)
      else (if cfg.trim then trimBlanks (decimal n) else decimal n)) = decimal n := by
    cases cfg.lower <;> cases cfg.trim <;> simp [htrim, hlow]
  have hdtF : (if cfg.fmtLower then (if cfg.lower then toLowerAscii (if cfg.trim then trimBlanks (decimal n) else decimal n)
      else (if cfg.trim then trimBlanks (decimal n) else decimal n)) else (if cfg.trim then trimBlanks (decimal n) else decimal n))
      = decimal n := by
    cases cfg.fmtLower <;> cases cfg.lower <;> cases cfg.trim <;> simp [htrim, hlow]
  have hdtF' : (if cfg.fmtLower then decimal n else (if cfg.trim then trimBlanks (decimal n) else decimal n)) = decimal n := by
    cases cfg.fmtLower <;> cases cfg.trim <;> simp [htrim]
  simp only [parseLql, hdtF, hdt, hdtF']
  rw [relativeShape_none (fun c hc => (hb c hc).2.2)]
  simp only [parseLqlRest, parseConstants_none (SD.bytes hsd), parseFirst, parseFrom_err hsd fmts 0 hf,
    parseInt64_decimal n hlo hhi]

end Logrange.Date
