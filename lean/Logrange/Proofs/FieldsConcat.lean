import Logrange.Proofs.FieldsRT
/-!
# `Fields.Concat` and the fields of a stored event

`api/rpc/ingestor.go` stores, for every event of a write, `wpi.flds.Concat(field.Parse(le.Fields))`: the write-level
fields followed by the event's own fields. `Concat` is byte concatenation; on well-formed operands it denotes the
concatenation of the pieces, so the `Fields` text of a query result is `kvText` of the write-level pairs followed by the
event's pairs, and it parses back to the stored bytes when those pairs are in the class `safeFields`.
-/
namespace Logrange.Proofs.FieldsConcat
open Go Logrange.Quote Logrange.KV Logrange.Tags Logrange.FieldsKV Logrange.Proofs.KV Logrange.Proofs.Tags
  Logrange.Proofs.FieldsKV Logrange.Proofs.FieldsRT

/-- every piece the reference decoder returns fits one length byte -/
theorem decode_items_le : ∀ (fuel : Nat) (f : Bytes) (items : List Bytes),
    decodeItems fuel f = some items → ∀ p ∈ items, p.length ≤ 255 := by
  intro fuel
  induction fuel with
  | zero =>
    intro f items h
    cases f with
    | nil => simp [decodeItems] at h; subst h; simp
    | cons _ _ => simp [decodeItems] at h
  | succ n ih =>
    intro f items h
    cases f with
    | nil => simp [decodeItems] at h; subst h; simp
    | cons c rest =>
      simp only [decodeItems] at h
      split at h
      · simp at h
      · rename_i hlen
        cases hr : decodeItems n (rest.drop c.toNat) with
        | none => simp [hr] at h
        | some xs =>
          simp [hr] at h; subst h
          intro p hp
          rcases List.mem_cons.mp hp with rfl | hp
          · have : c.toNat < 256 := c.toNat_lt
            simp only [List.length_take]; omega
          · exact ih _ _ hr p hp

theorem encodeItems_append (a b : List Bytes) : encodeItems (a ++ b) = encodeItems a ++ encodeItems b := by
  simp [encodeItems]

/-- **`Concat` of well-formed fields denotes the concatenation of their pieces** -/
theorem concat_decodes (f g : Bytes) (a b : List Bytes) (ha : decodeItems f.length f = some a)
    (hb : decodeItems g.length g = some b) :
    decodeItems (concat f g).length (concat f g) = some (a ++ b) := by
  have hf := decode_eq_encode _ _ _ ha
  have hg := decode_eq_encode _ _ _ hb
  have hle : ∀ p ∈ a ++ b, p.length ≤ 255 := by
    intro p hp
    rcases List.mem_append.mp hp with h | h
    · exact decode_items_le _ _ _ ha p h
    · exact decode_items_le _ _ _ hb p h
  unfold concat
  rw [hf, hg, ← encodeItems_append]
  exact decode_encode (a ++ b) hle _ (encodeItems_length _)

/-- **`Concat` preserves well-formedness** -/
theorem concat_WF (f g : Bytes) (hf : WF f) (hg : WF g) : WF (concat f g) := by
  obtain ⟨a, ha, hae⟩ := hf
  obtain ⟨b, hb, hbe⟩ := hg
  refine ⟨a ++ b, concat_decodes f g a b ha hb, ?_⟩
  simp only [List.length_append]; omega

theorem pairsOf_append : ∀ (a b : List Bytes), a.length % 2 = 0 → pairsOf (a ++ b) = pairsOf a ++ pairsOf b
  | [], _, _ => rfl
  | [_], _, h => by simp at h
  | x :: y :: r, b, h => by
    have h' : r.length % 2 = 0 := by simp only [List.length_cons] at h; omega
    simp only [List.cons_append, pairsOf, pairsOf_append r b h']

/-- **The `Fields` text of a stored event**: for a write whose write-level field text `tf` and event field text `te` are
accepted, the stored field list is the encoding of the write-level pieces followed by the event's pieces; when those
pairs are in the class `safeFields`, `AsKVString` prints `kvText` of the write-level pairs followed by the event's pairs
and `NewFieldsFromKVString` reads that text back as exactly the stored bytes. -/
theorem stored_event_fields_roundtrip (tf te : Bytes) (a b : List Bytes) (ha : fromKVItems tf = some a)
    (hb : fromKVItems te = some b) (hs : safeFields (pairsOf a ++ pairsOf b) = true) :
    ∃ fa fb, fromKV tf = some fa ∧ fromKV te = some fb ∧
      asKV (concat fa fb) = .ok (kvText (pairsOf a ++ pairsOf b)) ∧
      fromKV (kvText (pairsOf a ++ pairsOf b)) = some (concat fa fb) := by
  have hea := fromKVItems_even tf a ha
  have heb := fromKVItems_even te b hb
  refine ⟨encodeItems a, encodeItems b, by simp [fromKV, ha], by simp [fromKV, hb], ?_⟩
  have hev : (a ++ b).length % 2 = 0 := by simp only [List.length_append]; omega
  have hp := pairsOf_append a b hea
  have := fields_roundtrip_core (a ++ b) hev (by rw [hp]; exact hs)
  rw [hp, encodeItems_append] at this
  exact this

end Logrange.Proofs.FieldsConcat
