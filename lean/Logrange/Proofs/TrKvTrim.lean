import Logrange.Translated.Kvstring
import Logrange.Model.KV
/-!
# The translated `kvstring.TrimSpaces` computes the hand-written model `KV.trimSpaces`

`Kvstring.TrimSpaces` is generated from the Go source; `KV.trimSpaces` is the `dropWhile`-based model. The translated
function never panics and never runs out of fuel.
-/
set_option linter.unusedSimpArgs false
namespace Logrange.Proofs.TrKvTrim
open Go Go.Sem Logrange Logrange.Translated

/-- the blank test of the model -/
def isSP (x : UInt8) : Bool := x == KV.SP

theorem trimSpaces_def (s : Bytes) :
    KV.trimSpaces s = ((s.dropWhile isSP).reverse.dropWhile isSP).reverse := rfl

/-! ## facts about `dropWhile` -/

theorem dropWhile_suffix (p : UInt8 → Bool) (l : Bytes) : ∃ pre, l = pre ++ l.dropWhile p :=
  ⟨l.takeWhile p, (List.takeWhile_append_dropWhile).symm⟩

theorem dropWhile_head (p : UInt8 → Bool) : ∀ (l : Bytes) (c : UInt8) (tl : Bytes),
    l.dropWhile p = c :: tl → p c = false
  | [], c, tl, h => by simp at h
  | x :: r, c, tl, h => by
    by_cases hx : p x = true
    · rw [List.dropWhile_cons_of_pos hx] at h
      exact dropWhile_head p r c tl h
    · rw [List.dropWhile_cons_of_neg hx] at h
      have hxc : x = c := (List.cons.inj h).1
      rw [← hxc]
      simpa using hx

theorem dropWhile_snoc (p : UInt8 → Bool) (c : UInt8) (hc : p c = false) : ∀ (l : Bytes),
    (l ++ [c]).dropWhile p = l.dropWhile p ++ [c]
  | [] => by simp [hc]
  | x :: r => by
    by_cases hx : p x = true
    · rw [List.cons_append, List.dropWhile_cons_of_pos hx, List.dropWhile_cons_of_pos hx]
      exact dropWhile_snoc p c hc r
    · rw [List.cons_append, List.dropWhile_cons_of_neg hx, List.dropWhile_cons_of_neg hx]
      rfl

/-! ## first loop -/

theorem loop1_eq (str : Bytes) : ∀ (fuel i : Nat), i ≤ str.length → str.length - i < fuel →
    Kvstring.TrimSpaces_loop1 str fuel (i : Int) =
      Kvstring.TrimSpaces_after1 str
        ((str.length - ((str.drop i).dropWhile isSP).length : Nat) : Int) := by
  intro fuel
  induction fuel with
  | zero => intro i _ h; omega
  | succ fuel ih =>
    intro i hi hf
    unfold Kvstring.TrimSpaces_loop1
    by_cases hlt : i < str.length
    · have hg : ((i : Int) < len str) := by simp only [len]; omega
      have hd : str.drop i = str[i] :: str.drop (i + 1) := List.drop_eq_getElem_cons hlt
      have e1 : ((i : Int) + 1) = ((i + 1 : Nat) : Int) := by omega
      rw [hd]
      simp only [hg, decide_true, if_true, index_ok str i hlt, Go.Sem.bind]
      by_cases h1 : (str[i] == (32 : UInt8)) = true
      · have h1' : isSP str[i] = true := h1
        rw [List.dropWhile_cons_of_pos h1']
        -- `bne`, `Bool.not_*`: the same script covers the source spelled `if str[i] != ' ' { break }`
        simp only [h1, bne, Bool.not_true, Bool.false_eq_true, ↓reduceIte]
        rw [e1]
        exact ih (i + 1) (by omega) (by omega)
      · have h1' : ¬ isSP str[i] = true := h1
        rw [List.dropWhile_cons_of_neg h1']
        have h1f : (str[i] == (32 : UInt8)) = false := by simpa using h1
        simp only [h1f, bne, Bool.not_false, ↓reduceIte, Bool.false_eq_true]
        have : str.length - (str[i] :: str.drop (i + 1)).length = i := by
          simp only [List.length_cons, List.length_drop]; omega
        rw [this]
    · have hi' : i = str.length := by omega
      have hg : ¬ ((i : Int) < len str) := by simp only [len]; omega
      subst hi'
      simp [hg]

/-! ## second loop -/

theorem loop2_eq (str : Bytes) (i : Nat) : ∀ (m fuel : Nat),
    (m ≠ 0 → i + m < str.length) → m < fuel →
    Kvstring.TrimSpaces_loop2 str (i : Int) fuel ((i : Int) + (m : Int)) =
      Kvstring.TrimSpaces_after2 str (i : Int)
        ((i : Int) + ((((str.drop (i + 1)).take m).reverse.dropWhile isSP).length : Int)) := by
  intro m
  induction m with
  | zero =>
    intro fuel _ hf
    obtain ⟨fuel, rfl⟩ : ∃ f, fuel = f + 1 := ⟨fuel - 1, by omega⟩
    unfold Kvstring.TrimSpaces_loop2
    simp
  | succ m ih =>
    intro fuel hb hf
    obtain ⟨fuel, rfl⟩ : ∃ f, fuel = f + 1 := ⟨fuel - 1, by omega⟩
    have hb' : i + (m + 1) < str.length := hb (by omega)
    have hlt : i + 1 + m < str.length := by omega
    have hrev : ((str.drop (i + 1)).take (m + 1)).reverse
        = str[i + 1 + m] :: ((str.drop (i + 1)).take m).reverse := by
      rw [List.take_add_one, List.getElem?_drop, List.getElem?_eq_getElem hlt]
      simp
    have et : (i : Int) + ((m + 1 : Nat) : Int) = ((i + 1 + m : Nat) : Int) := by omega
    have et' : ((i + 1 + m : Nat) : Int) - 1 = (i : Int) + (m : Int) := by omega
    rw [hrev]
    unfold Kvstring.TrimSpaces_loop2
    rw [et]
    have hgt : ((i + 1 + m : Nat) : Int) > (i : Int) := by omega
    simp only [hgt, decide_true, if_true, index_ok str _ hlt, Go.Sem.bind]
    by_cases h1 : (str[i + 1 + m] == (32 : UInt8)) = true
    · have h1' : isSP str[i + 1 + m] = true := h1
      rw [List.dropWhile_cons_of_pos h1']
      simp only [h1, ↓reduceIte]
      rw [et']
      exact ih fuel (by omega) (by omega)
    · have h1' : ¬ isSP str[i + 1 + m] = true := h1
      rw [List.dropWhile_cons_of_neg h1']
      simp only [h1, ↓reduceIte, Bool.false_eq_true]
      congr 1
      simp only [List.length_cons, List.length_reverse, List.length_take, List.length_drop]
      omega

/-! ## the whole function -/

theorem trimSpaces_eq (str : Bytes) : Kvstring.TrimSpaces str = .ok (KV.trimSpaces str) := by
  have h1 := loop1_eq str (dist 0 (len str)) 0 (by omega) (by simp only [dist, len]; omega)
  simp only [Int.natCast_zero, List.drop_zero] at h1
  simp only [Kvstring.TrimSpaces, h1]
  clear h1
  rw [trimSpaces_def]
  obtain ⟨pre, hpre⟩ := dropWhile_suffix isSP str
  have hhead := dropWhile_head isSP str
  generalize str.dropWhile isSP = rest at hpre hhead
  subst hpre
  have hidx : (pre ++ rest).length - rest.length = pre.length := by
    simp only [List.length_append]; omega
  rw [hidx]
  simp only [Kvstring.TrimSpaces_after1]
  cases rest with
  | nil =>
    simp only [List.append_nil]
    have hfuel : dist (pre.length : Int) (len pre - 1) = 1 := by
      simp only [dist, len]; omega
    rw [hfuel]
    unfold Kvstring.TrimSpaces_loop2
    have hg : ¬ (len pre - 1 > (pre.length : Int)) := by simp only [len]; omega
    simp only [hg, decide_false, Bool.false_eq_true, ↓reduceIte]
    unfold Kvstring.TrimSpaces_after2
    have hsl : slice pre (pre.length : Int) (len pre - 1 + 1) = .ok [] := by
      have : len pre - 1 + 1 = (pre.length : Int) := by simp only [len]; omega
      rw [this, slice_ok _ _ _ (Nat.le_refl _) (Nat.le_refl _)]
      simp
    rw [hsl]
    simp
  | cons c tl =>
    have hc : isSP c = false := hhead c tl rfl
    have hfuel : dist (pre.length : Int) (len (pre ++ c :: tl) - 1) = tl.length + 1 := by
      simp only [dist, len, List.length_append, List.length_cons]; omega
    have htidx : len (pre ++ c :: tl) - 1 = (pre.length : Int) + (tl.length : Int) := by
      simp only [len, List.length_append, List.length_cons]; omega
    have hdrop : ((pre ++ c :: tl).drop (pre.length + 1)).take tl.length = tl := by
      simp
    have h2 := loop2_eq (pre ++ c :: tl) pre.length tl.length (tl.length + 1)
      (by intro _; simp only [List.length_append, List.length_cons]; omega) (by omega)
    rw [hdrop] at h2
    rw [hfuel, htidx, h2]
    clear h2
    rw [List.reverse_cons, dropWhile_snoc isSP c hc, List.reverse_append]
    obtain ⟨pre2, hpre2⟩ := dropWhile_suffix isSP tl.reverse
    generalize tl.reverse.dropWhile isSP = rem at hpre2
    have htl : tl = rem.reverse ++ pre2.reverse := by
      have := congrArg List.reverse hpre2
      simpa using this
    unfold Kvstring.TrimSpaces_after2
    have hsl : slice (pre ++ c :: tl) (pre.length : Int) ((pre.length : Int) + (rem.length : Int) + 1)
        = .ok (c :: rem.reverse) := by
      have : (pre.length : Int) + (rem.length : Int) + 1 = ((pre.length + rem.length + 1 : Nat) : Int) := by
        omega
      rw [this, slice_ok _ _ _ (by omega)
        (by subst htl; simp only [List.length_append, List.length_cons, List.length_reverse]; omega)]
      subst htl
      have hk : pre.length + rem.length + 1 - pre.length = rem.length + 1 := by omega
      rw [hk]
      simp
    rw [hsl]
    simp

end Logrange.Proofs.TrKvTrim
