import Logrange.Proofs.DateLineParser
/-!
# `lineParser.parse` at and beyond the skip threshold (`maxFailCnt`)

What the property demands of a line that starts with a timestamp — its own date — the parser delivers **exactly when it is not in
state `skipping`**:

* `lp_parsing_dates`: in state `parsing` (any counters, any remembered format) a line some format dates gets its own date;
* `lp_skipping_carries`: in state `skipping` NO line gets its own date, whatever it starts with (the remembered format was
  forgotten on the way in, the full parser is not asked): every time-stamped line inside a skip window carries the stale date;
* `lp_skip_window_ends`: a skip window ends after exactly `maxSkip − cnt` lines (whatever they are), and its length is bounded
  (`LPWf.bound`: `maxSkip ≤ max(maxSkip0, maxSkipOnDetect, 2·skipCap)`), an invariant of every run from the initial state
  (`lpWf_run`).
-/
namespace Logrange.Date

/-- the parser's state after the lines -/
def lpState (cfg : LPCfg) : LP → List LineAns → LP
  | lp, [] => lp
  | lp, a :: rest => lpState cfg (lpStepA cfg lp a).1 rest

def skipBound (cfg : LPCfg) : Nat := max (max cfg.maxSkip0 cfg.maxSkipOnDetect) (2 * cfg.skipCap)

structure LPWf (cfg : LPCfg) (lp : LP) : Prop where
  skipCur : lp.skipping = true → lp.cur = none
  skipCnt : lp.skipping = true → lp.cnt < lp.maxSkip
  pos : 0 < lp.maxSkip
  bound : lp.maxSkip ≤ skipBound cfg

theorem lpWf_init (cfg : LPCfg) (h0 : 0 < cfg.maxSkip0) : LPWf cfg (LP.init cfg) :=
  ⟨fun h => by simp [LP.init] at h, fun h => by simp [LP.init] at h, by simpa [LP.init] using h0,
   by simp only [LP.init, skipBound]; omega⟩

/-- **in state `parsing` a line that some format dates gets its own date** — whatever the counters and the remembered format -/
theorem lp_parsing_dates (cfg : LPCfg) (lp : LP) (a : LineAns) (hpar : lp.skipping = false) (hfind : a.findable = true) :
    (lpStepA cfg lp a).2.isDated = true := by
  simp only [lpStepA]
  cases hfast : lp.cur.bind (fun i => (a.fast i).map (fun c => (i, c))) with
  | some ic => simp [LRec.isDated]
  | none =>
    simp only [hpar, Bool.false_eq_true, if_false]
    cases hfull : a.full () with
    | none => simp [LineAns.findable, hfull] at hfind
    | some ic => simp [lpSlow, hpar, LRec.isDated]

/-- **in state `skipping` no line gets its own date**: the record carries `lastDate`, whatever the line starts with -/
theorem lp_skipping_carries (cfg : LPCfg) (lp : LP) (a : LineAns) (hwf : LPWf cfg lp) (hsk : lp.skipping = true) :
    (lpStepA cfg lp a).2 = .carried lp.last := by
  simp [lpStepA, hwf.skipCur hsk, lpSlow, hsk]

theorem lpWf_step (cfg : LPCfg) (lp : LP) (a : LineAns) (hwf : LPWf cfg lp) : LPWf cfg (lpStepA cfg lp a).1 := by
  obtain ⟨hcur, hcnt, hpos, hb⟩ := hwf
  simp only [lpStepA]
  cases hfast : lp.cur.bind (fun i => (a.fast i).map (fun c => (i, c))) with
  | some ic =>
    have hns : lp.skipping = false := by
      cases hs : lp.skipping with
      | false => rfl
      | true => rw [hcur hs] at hfast; simp at hfast
    exact ⟨fun h => by simp [lpFast, hns] at h, fun h => by simp [lpFast, hns] at h, by simpa [lpFast] using hpos,
      by simpa [lpFast] using hb⟩
  | none =>
    simp only
    cases hs : lp.skipping with
    | false =>
      simp only [Bool.false_eq_true, if_false]
      cases hfull : a.full () with
      | some ic =>
        simp only [lpSlow, hs, Bool.not_false, if_true]
        refine ⟨fun h => by simp [hs] at h, fun h => by simp [hs] at h, ?_, ?_⟩
        · simp only; split
          · exact hpos
          · rename_i hne; simp only [beq_iff_eq] at hne; omega
        · simp only; split
          · exact hb
          · simp only [skipBound]; omega
      | none =>
        simp only [lpSlow, hs, Bool.not_false, if_true]
        split
        · exact ⟨fun _ => rfl, fun _ => by simpa using hpos, hpos, hb⟩
        · exact ⟨fun h => by simp [hs] at h, fun h => by simp [hs] at h, hpos, hb⟩
    | true =>
      simp only [if_true, lpSlow, hs, Bool.not_true, Bool.false_eq_true, if_false]
      split
      · refine ⟨fun h => by simp at h, fun h => by simp at h, ?_, ?_⟩
        · simp only; split <;> omega
        · simp only; split
          · simp only [skipBound]; omega
          · exact hb
      · rename_i hlt
        exact ⟨fun _ => hcur hs, fun _ => by simp only; omega, hpos, hb⟩

theorem lpWf_run (cfg : LPCfg) : ∀ (as : List LineAns) (lp : LP), LPWf cfg lp → LPWf cfg (lpState cfg lp as)
  | [], _, h => h
  | a :: rest, lp, h => lpWf_run cfg rest _ (lpWf_step cfg lp a h)

/-- one line inside a skip window: the window goes on (counter + 1) or ends -/
theorem lp_skip_step (cfg : LPCfg) (lp : LP) (a : LineAns) (hwf : LPWf cfg lp) (hsk : lp.skipping = true) :
    (lp.cnt + 1 < lp.maxSkip → (lpStepA cfg lp a).1.skipping = true ∧ (lpStepA cfg lp a).1.cnt = lp.cnt + 1 ∧
        (lpStepA cfg lp a).1.maxSkip = lp.maxSkip) ∧
    (lp.cnt + 1 = lp.maxSkip → (lpStepA cfg lp a).1.skipping = false) := by
  have hstep : lpStepA cfg lp a = lpSlow cfg lp none := by simp [lpStepA, hwf.skipCur hsk, hsk]
  rw [hstep]
  constructor
  · intro hlt
    have : ¬ (lp.cnt + 1 ≥ lp.maxSkip) := by omega
    simp [lpSlow, hsk, this]
  · intro heq
    have : lp.cnt + 1 ≥ lp.maxSkip := by omega
    simp [lpSlow, hsk, this]

/-- **a skip window ends**: from a state in `skipping`, after exactly `maxSkip − cnt` further lines — whatever they are — the
parser is back in state `parsing`; before that it is still skipping -/
theorem lp_skip_window_ends (cfg : LPCfg) : ∀ (d : Nat) (lp : LP), LPWf cfg lp → lp.skipping = true → lp.maxSkip - lp.cnt = d →
    ∀ (as : List LineAns), as.length = d → (lpState cfg lp as).skipping = false
  | 0, lp, hwf, hsk, hd, _, _ => by have := hwf.skipCnt hsk; omega
  | d + 1, lp, hwf, hsk, hd, as, hlen => by
    cases as with
    | nil => simp at hlen
    | cons a rest =>
      have hstep := lp_skip_step cfg lp a hwf hsk
      simp only [lpState]
      by_cases h1 : lp.cnt + 1 = lp.maxSkip
      · have hd0 : d = 0 := by omega
        have hr : rest = [] := by
          cases rest with
          | nil => rfl
          | cons _ _ => simp at hlen; omega
        subst hr
        simpa [lpState] using hstep.2 h1
      · have hlt : lp.cnt + 1 < lp.maxSkip := by have := hwf.skipCnt hsk; omega
        obtain ⟨hs', hc', hm'⟩ := hstep.1 hlt
        exact lp_skip_window_ends cfg d _ (lpWf_step cfg lp a hwf) hs' (by rw [hc', hm']; omega) rest (by simpa using hlen)

/-- so a skip window is never longer than `skipBound` lines -/
theorem lp_skip_window_bounded (cfg : LPCfg) (lp : LP) (hwf : LPWf cfg lp) : lp.maxSkip - lp.cnt ≤ skipBound cfg :=
  Nat.le_trans (Nat.sub_le _ _) hwf.bound

end Logrange.Date
