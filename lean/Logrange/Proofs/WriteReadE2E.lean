import Logrange.Model.WriteReadE2E
import Logrange.Proofs.WireRT
import Logrange.Proofs.RdIterFwd
/-! # Lemmas for the end-to-end theorem of C01 (`Model/WriteReadE2E.lean`) -/
namespace Logrange.E2E
open Go Logrange.WireRT Logrange.JournalW Logrange.WriteLoopM

/-! ## the byte journal as C03's journal value -/

theorem rdViewFrom_ids (cid off : Nat) (j : Journal) : ∀ c ∈ rdViewFrom cid off j, cid ≤ c.id := by
  induction j generalizing cid off with
  | nil => intro c hc; simp [rdViewFrom] at hc
  | cons x xs ih =>
    intro c hc
    simp only [rdViewFrom, List.mem_cons] at hc
    rcases hc with rfl | hc
    · exact Nat.le_refl _
    · have := ih (cid + 1) (off + x.recs.length) c hc
      omega

theorem rdViewFrom_sorted (cid off : Nat) (j : Journal) : Rd.Sorted (rdViewFrom cid off j) := by
  induction j generalizing cid off with
  | nil => simp [rdViewFrom, Rd.Sorted]
  | cons x xs ih =>
    simp only [rdViewFrom, Rd.Sorted, List.pairwise_cons]
    refine ⟨?_, ih (cid + 1) (off + x.recs.length)⟩
    intro c hc
    have := rdViewFrom_ids (cid + 1) (off + x.recs.length) xs c hc
    show cid < c.id
    omega

theorem rdViewFrom_labels (cid off : Nat) (j : Journal) :
    (Rd.flat (rdViewFrom cid off j)).map (·.lbl) = List.range' off (readAll j).length := by
  induction j generalizing cid off with
  | nil => simp [rdViewFrom, Rd.flat, readAll]
  | cons x xs ih =>
    have e1 : Rd.flat (rdViewFrom cid off (x :: xs))
        = (List.range x.recs.length).map (fun i => ({ lbl := off + i } : Rd.Rec)) ++
          Rd.flat (rdViewFrom (cid + 1) (off + x.recs.length) xs) := by
      simp [rdViewFrom, Rd.flat]
    have e2 : readAll (x :: xs) = x.recs ++ readAll xs := by simp [readAll]
    rw [e1, e2, List.map_append, ih, List.length_append, ← List.range'_append_1]
    congr 1
    rw [List.map_map, List.range'_eq_map_range]
    rfl

theorem flatIdx_head (j : Rd.Journal) : Rd.flatIdx j {} = 0 := by
  induction j with
  | nil => rfl
  | cons c cs ih =>
    simp only [Rd.flatIdx, ih]
    split
    · rename_i h; exact absurd h (Nat.not_lt_zero _)
    · split <;> simp

/-- **C03's iterator algebra, instantiated**: the un-ranged iterator drained from the head delivers every stored record of the
byte journal exactly once, in stored order -/
theorem iterLabels_eq (j : Journal) : iterLabels j = List.range (readAll j).length := by
  unfold iterLabels
  have hs := rdViewFrom_sorted 1 0 j
  have hlab := rdViewFrom_labels 1 0 j
  have hlen : (Rd.flat (rdView j)).length = (readAll j).length := by
    have := congrArg List.length hlab
    simpa [rdView] using this
  have hsp : Rd.setPos (rdView j) {} {} = {} := by simp [Rd.setPos]
  rw [hsp]
  have hw : Rd.WF (rdView j) {} := by simp [Rd.WF]
  rw [Rd.iter_enumerates (rdView j) {} (readAll j).length hs hw rfl (by omega)]
  have he : Rd.effPos ({} : Rd.It) = {} := by simp [Rd.effPos, Rd.It.pos]
  rw [he, Rd.recordsFrom, flatIdx_head, List.drop_zero]
  unfold rdView
  rw [hlab, List.range_eq_range']

/-! ## fetching and decoding -/

theorem fetchDecode_range' (maxRec : Nat) : ∀ (rest pre : List Bytes),
    fetchDecode maxRec (pre ++ rest) (List.range' pre.length rest.length) = decodeAll maxRec rest := by
  intro rest
  induction rest with
  | nil => intro pre; simp [fetchDecode, decodeAll]
  | cons r rs ih =>
    intro pre
    have hget : (pre ++ r :: rs)[pre.length]? = some r := by simp
    have hstep := ih (pre ++ [r])
    simp only [List.append_assoc, List.cons_append, List.nil_append, List.length_append, List.length_cons,
      List.length_nil, Nat.zero_add] at hstep
    simp only [List.length_cons, List.range'_succ, fetchDecode, hget, decodeAll]
    by_cases hl : r.length > maxRec
    · simp [hl]
    · simp only [hl, ↓reduceIte]
      cases hu : Event.unmarshal [] r with
      | ok p => obtain ⟨k, e⟩ := p; simp only [hstep]
      | err => rfl
      | panic => rfl

theorem fetchDecode_all (maxRec : Nat) (store : List Bytes) :
    fetchDecode maxRec store (List.range store.length) = decodeAll maxRec store := by
  have := fetchDecode_range' maxRec store []
  simpa [List.range_eq_range'] using this

/-! ## the query loop -/

theorem queryLoop_eq (asKV : Bytes → Bytes) (tagLine : Bytes)
    (h1 : Generated.C01.queryCacheRefreshOnAnyDifference = true) (h2 : Generated.C01.queryCacheKeepsCopy = true) :
    ∀ (es : List Event) (st : QCache),
    st.kvs = asKV st.flds → queryLoop asKV tagLine st es = es.map (returned asKV tagLine) := by
  intro es
  induction es with
  | nil => intro _ _; rfl
  | cons e es ih =>
    intro st hst
    have hc : cacheRefresh e st = decide (e.fields ≠ st.flds) := by simp [cacheRefresh, cacheDiffers, h1, h2]
    simp only [queryLoop, List.map_cons, hc]
    by_cases h : e.fields = st.flds
    · simp only [h, ne_eq, not_true_eq_false, decide_false, Bool.false_eq_true, ↓reduceIte]
      rw [ih st hst]
      simp [returned, hst, h]
    · simp only [ne_eq, h, not_false_eq_true, decide_true, ↓reduceIte]
      rw [ih ⟨e.fields, asKV e.fields⟩ rfl]
      simp [returned]

/-! ## result pages -/

theorem decodeEvents_encode : ∀ (evs : List WEvent) (rest : Bytes), (∀ e ∈ evs, e.WF) →
    decodeEvents evs.length (encodeEvents evs ++ rest) = .ok evs := by
  intro evs
  induction evs with
  | nil => intro _ _; rfl
  | cons e es ih =>
    intro rest h
    simp only [List.length_cons, encodeEvents, decodeEvents, List.append_assoc]
    rw [decodeEvent_encode e _ (h e (by simp)), ]
    simp only [drop_encodeEvent]
    rw [ih rest (fun x hx => h x (by simp [hx]))]

theorem decodePage_encode (evs : List WEvent) (next : Bytes) (hn : evs.length < two32) (h : ∀ e ∈ evs, e.WF) :
    decodePage (encodePage evs next) = .ok evs := by
  unfold decodePage encodePage
  rw [Nat.mod_eq_of_lt hn, u32_be _ _ hn]
  simp only [drop_be]
  exact decodeEvents_encode evs next h

theorem pagesOf_flatten {α : Type} (lim : Nat) (hl : 1 ≤ lim) : ∀ (fuel : Nat) (l : List α), l.length ≤ fuel →
    (pagesOf lim fuel l).flatten = l := by
  intro fuel
  induction fuel with
  | zero => intro l h; cases l <;> simp_all [pagesOf]
  | succ f ih =>
    intro l h
    cases l with
    | nil => simp [pagesOf]
    | cons x xs =>
      simp only [pagesOf, List.flatten_cons]
      rw [ih ((x :: xs).drop lim) (by simp only [List.length_drop, List.length_cons] at h ⊢; omega)]
      exact List.take_append_drop lim (x :: xs)

theorem pagesOf_pages {α : Type} (lim : Nat) : ∀ (fuel : Nat) (l : List α), ∀ p ∈ pagesOf lim fuel l,
    p.length ≤ lim ∧ ∀ x ∈ p, x ∈ l := by
  intro fuel
  induction fuel with
  | zero => intro l p hp; simp [pagesOf] at hp
  | succ f ih =>
    intro l p hp
    cases l with
    | nil => simp [pagesOf] at hp
    | cons x xs =>
      simp only [pagesOf, List.mem_cons] at hp
      rcases hp with rfl | hp
      · exact ⟨by simp only [List.length_take]; omega, fun y hy => List.mem_of_mem_take hy⟩
      · obtain ⟨h1, h2⟩ := ih _ p hp
        exact ⟨h1, fun y hy => List.mem_of_mem_drop (h2 y hy)⟩

theorem clientPages_ok (next : Bytes) (env : Bytes → Bytes)
    (hfact : Generated.C01.pooledBuffersReleasedAfterLastUse = true) : ∀ (ps : List (List WEvent)),
    (∀ p ∈ ps, p.length < two32 ∧ ∀ e ∈ p, e.WF) → clientPages next env ps = some ps.flatten := by
  intro ps
  induction ps with
  | nil => intro _; rfl
  | cons p ps ih =>
    intro h
    obtain ⟨h1, h2⟩ := h p (by simp)
    simp only [clientPages, responseOnWire, hfact, ↓reduceIte, decodePage_encode p next h1 h2]
    rw [ih (fun q hq => h q (by simp [hq]))]
    simp

theorem clientRead_ok (lim : Nat) (next : Bytes) (env : Bytes → Bytes) (evs : List WEvent)
    (hfact : Generated.C01.pooledBuffersReleasedAfterLastUse = true)
    (hl : 1 ≤ lim) (hl2 : lim < two32) (h : ∀ e ∈ evs, e.WF) : clientRead lim next env evs = some evs := by
  unfold clientRead
  rw [clientPages_ok next env hfact]
  · rw [pagesOf_flatten lim hl evs.length evs (Nat.le_refl _)]
  · intro p hp
    obtain ⟨h1, h2⟩ := pagesOf_pages lim evs.length evs p hp
    exact ⟨by omega, fun e he => h e (h2 e he)⟩

/-! ## the strict decoder puts the write-level fields first -/

theorem strictLoop_shape (parseKV : Bytes → Option Bytes) (wf : Bytes) : ∀ (n : Nat) (rest : Bytes) (es : List Event),
    strictLoop parseKV wf n rest = some es →
    ∀ e ∈ es, ∃ (we : WEvent) (ef : Bytes), parseKV we.fields = some ef ∧ e = ⟨we.ts, we.msg, wf ++ ef⟩ := by
  intro n
  induction n with
  | zero => intro rest es h e he; simp [strictLoop] at h; subst h; simp at he
  | succ n ih =>
    intro rest es h e he
    simp only [strictLoop] at h
    split at h
    · rename_i k we hd
      split at h
      · rename_i ef hp
        cases hs : strictLoop parseKV wf n (rest.drop k) with
        | none => simp [hs] at h
        | some tl =>
          simp only [hs, Option.map_some, Option.some.injEq] at h
          subst h
          simp only [List.mem_cons] at he
          rcases he with rfl | he
          · exact ⟨we, ef, hp, rfl⟩
          · exact ih (rest.drop k) tl hs e he
      · simp at h
    · simp at h

/-! ## the LogEventIterator keeps nothing across calls -/

theorem leiGet_fresh (h : Generated.C01.leiKeepsNoEventAcrossCalls = true) (maxRec : Nat) (store : List Bytes) (l : Nat) :
    (leiGet maxRec store l {}).1 = {} := by
  unfold leiGet
  simp only [h, ↓reduceIte]
  split <;> rfl

end Logrange.E2E
