import Logrange.Proofs.LqlStmt
/-!
# Character level: the lexer model on printed text (towards `lex (print a) = tokensOf a` without the `Lexable` hypothesis)
-/
namespace Logrange.Lql
open GoLib

theorem forall_byte (P : UInt8 → Bool) (h : (List.range 256).all (fun n => P (UInt8.ofNat n)) = true) (c : UInt8) :
    P c = true := by
  have hc : c = UInt8.ofNat c.toNat := by simp
  rw [hc]
  exact (List.all_eq_true.mp h) c.toNat (List.mem_range.mpr c.toNat_lt)

def leadKw (c : UInt8) : Bool := keywords.any (fun k => match k with | k0 :: _ => lower c == lower k0 | [] => false)
def leadStr (c : UInt8) : Bool := c == 34 || c == 39
def leadOp (c : UInt8) : Bool := opChars.contains c || c == 33
def leadNum (c : UInt8) : Bool := isDigit c || c == 43 || c == 45 || c == 46

theorem mSpace_nolead (c : UInt8) (r : Bytes) (h : isSpace c = false) : mSpace (c :: r) = 0 := by
  simp [mSpace, List.takeWhile_cons, h]

theorem hasPrefixFold_nolead (c : UInt8) (r : Bytes) (k : Bytes) (hk : k ∈ keywords) (h : leadKw c = false) :
    hasPrefixFold (c :: r) k = false := by
  cases k with
  | nil => exact absurd hk (by decide)
  | cons k0 ks =>
    have : (lower c == lower k0) = false := by
      simp only [leadKw, List.any_eq_false] at h
      have := h (k0 :: ks) hk
      simpa using this
    simp [hasPrefixFold, this]

theorem foldl_kw_zero (s : Bytes) (l : List Bytes) (h : ∀ k ∈ l, hasPrefixFold s k = false) :
    l.foldl (fun best k => if hasPrefixFold s k && k.length > best then k.length else best) 0 = 0 := by
  induction l with
  | nil => rfl
  | cons k ks ih =>
    simp only [List.foldl_cons, h k (List.mem_cons_self), Bool.false_and, Bool.false_eq_true, if_false]
    exact ih (fun k' hk' => h k' (List.mem_cons_of_mem _ hk'))

theorem mKeyword_nolead (c : UInt8) (r : Bytes) (h : leadKw c = false) : mKeyword (c :: r) = 0 :=
  foldl_kw_zero _ _ (fun k hk => hasPrefixFold_nolead c r k hk h)

theorem mIdent_nolead (c : UInt8) (r : Bytes) (h : isIdentStart c = false) : mIdent (c :: r) = 0 := by
  simp [mIdent, h]

theorem mString_nolead (c : UInt8) (r : Bytes) (h : leadStr c = false) : mString (c :: r) = 0 := by
  simp only [leadStr, Bool.or_eq_false_iff] at h
  simp [mString, DQ, h.1, h.2]

theorem mOperator_nolead (c : UInt8) (r : Bytes) (h : leadOp c = false) : mOperator (c :: r) = 0 := by
  simp only [leadOp, Bool.or_eq_false_iff] at h
  obtain ⟨h1, h2⟩ := h
  have h60 : (c == 60) = false := by
    cases hx : c == 60 with
    | false => rfl
    | true => have : c = 60 := by simpa using hx
              subst this; exact absurd h1 (by decide)
  have h62 : (c == 62) = false := by
    cases hx : c == 62 with
    | false => rfl
    | true => have : c = 62 := by simpa using hx
              subst this; exact absurd h1 (by decide)
  have h1' : c ∉ opChars := by simpa using h1
  cases r with
  | nil => simp [mOperator, h1']
  | cons b r' => simp [mOperator, h1', h2, h60, h62]

theorem mNumber_nolead (c : UInt8) (r : Bytes) (h : leadNum c = false) : mNumber (c :: r) = 0 := by
  simp only [leadNum, Bool.or_eq_false_iff] at h
  obtain ⟨⟨⟨hd, h43⟩, h45⟩, h46⟩ := h
  simp [mNumber, h43, h45, h46, List.takeWhile_cons, hd]

theorem mTags_nolead (c : UInt8) (r : Bytes) (h : (c == 123) = false) : mTags (c :: r) = 0 := by
  unfold mTags; split <;> simp [mTagsQuoteAware, mTagsGreedy, bne, h]


/-- the winner among the seven candidates when everything but candidate `j` is 0 (or ties behind it) -/
theorem lexOne_of_cands (s : Bytes) (n : Nat) (o : Option TT) (hn : 0 < n)
    (h : pickBest (cands s) = (n, o)) :
    lexOne s = (match o with | none => some (none, n) | some t => some (some ⟨t, s.take n⟩, n)) := by
  have : (n == 0) = false := by simp; omega
  simp only [lexOne, h, this, Bool.false_eq_true, if_false]
  cases o <;> rfl


/-! ### operands and keywords: the general identifier-shaped token -/

def identShaped : Bytes → Bool
  | [] => false
  | c :: tl => isIdentStart c && tl.all isIdentRest

/-- a byte of some keyword (up to letter case) -/
def kwByte (f : UInt8) : Bool := keywords.any (fun k => k.any (fun x => lower f == lower x))
/-- bytes that may follow an identifier-shaped token in printed text: they end the identifier and cannot continue a keyword -/
def followOK (f : UInt8) : Bool := !isIdentRest f && !kwByte f

theorem takeWhile_all_append (p : UInt8 → Bool) (a : Bytes) (f : UInt8) (r : Bytes) (ha : a.all p = true) (hf : p f = false) :
    (List.takeWhile p (a ++ f :: r)).length = a.length := by
  induction a with
  | nil => simp [List.takeWhile_cons, hf]
  | cons x xs ih =>
    simp only [List.all_cons, Bool.and_eq_true] at ha
    simp [List.takeWhile_cons, ha.1, ih ha.2]

theorem takeWhile_all_nil (p : UInt8 → Bool) (a : Bytes) (ha : a.all p = true) : (List.takeWhile p a).length = a.length := by
  induction a with
  | nil => rfl
  | cons x xs ih =>
    simp only [List.all_cons, Bool.and_eq_true] at ha
    simp [List.takeWhile_cons, ha.1, ih ha.2]

/-- what follows a token: nothing, or a byte satisfying `q` -/
def nextIs (q : UInt8 → Bool) (rest : Bytes) : Prop := rest = [] ∨ ∃ f r, rest = f :: r ∧ q f = true

theorem hpf_len (a : Bytes) (rest : Bytes) (hr : nextIs followOK rest) : ∀ (k : Bytes), k ∈ keywords → ∀ (a' : Bytes) (k' : Bytes),
    (∀ x ∈ k', x ∈ k) → hasPrefixFold (a' ++ rest) k' = true → k'.length ≤ a'.length := by
  intro k hk a'
  induction a' with
  | nil =>
    intro k' hsub h
    cases k' with
    | nil => simp
    | cons x ks =>
      rcases hr with rfl | ⟨f, r, rfl, hf⟩
      · simp [hasPrefixFold] at h
      · simp only [List.nil_append, hasPrefixFold, Bool.and_eq_true] at h
        simp only [followOK, Bool.and_eq_true, Bool.not_eq_true'] at hf
        have hk2 : kwByte f = false := hf.2
        have h3 : (k.any (fun x' => lower f == lower x')) = false := by
          simp only [kwByte, List.any_eq_false] at hk2; simpa using hk2 k hk
        have h4 : (lower f == lower x) = false := by
          simp only [List.any_eq_false] at h3; simpa using h3 x (hsub x List.mem_cons_self)
        simp [h.1] at h4
  | cons y ys ih =>
    intro k' hsub h
    cases k' with
    | nil => simp
    | cons x ks =>
      simp only [List.cons_append, hasPrefixFold, Bool.and_eq_true] at h
      have := ih ks (fun z hz => hsub z (List.mem_cons_of_mem _ hz)) h.2
      simp; omega

theorem hpf_eqFold (a rest k : Bytes) (h : hasPrefixFold (a ++ rest) k = true) (hl : k.length = a.length) : eqFold a k = true := by
  induction a generalizing k with
  | nil => cases k with
    | nil => rfl
    | cons x ks => simp at hl
  | cons y ys ih =>
    cases k with
    | nil => simp at hl
    | cons x ks =>
      simp only [List.cons_append, hasPrefixFold, Bool.and_eq_true] at h
      simp only [List.length_cons, Nat.add_right_cancel_iff] at hl
      simp [eqFold, h.1, ih ks h.2 hl]

theorem eqFold_hpf (a rest k : Bytes) (h : eqFold a k = true) : hasPrefixFold (a ++ rest) k = true ∧ k.length = a.length := by
  induction a generalizing k with
  | nil => cases k with
    | nil => simp [hasPrefixFold]
    | cons x ks => simp [eqFold] at h
  | cons y ys ih =>
    cases k with
    | nil => simp [eqFold] at h
    | cons x ks =>
      simp only [eqFold, Bool.and_eq_true] at h
      have := ih ks h.2
      simp [hasPrefixFold, h.1, this.1, this.2]

/-- the fold of `mKeyword`: bounded by `n` when every matching keyword is, at least the length of any matching one,
and 0 or the length of a matching keyword -/
theorem foldl_kw_spec (s : Bytes) (l : List Bytes) (b : Nat) :
    let r := l.foldl (fun best k => if hasPrefixFold s k && k.length > best then k.length else best) b
    b ≤ r ∧ (∀ k ∈ l, hasPrefixFold s k = true → k.length ≤ r) ∧ (r = b ∨ ∃ k ∈ l, hasPrefixFold s k = true ∧ k.length = r) := by
  induction l generalizing b with
  | nil => simp
  | cons k ks ih =>
    simp only [List.foldl_cons]
    by_cases hc : (hasPrefixFold s k && decide (k.length > b)) = true
    · rw [if_pos hc]
      obtain ⟨h1, h2, h3⟩ := ih k.length
      simp only [Bool.and_eq_true, decide_eq_true_eq] at hc
      refine ⟨by omega, ?_, ?_⟩
      · intro k' hk' hm
        rcases List.mem_cons.mp hk' with rfl | hk'
        · exact h1
        · exact h2 k' hk' hm
      · rcases h3 with h3 | ⟨k', hk', hm, hl⟩
        · right; exact ⟨k, List.mem_cons_self, hc.1, h3.symm⟩
        · right; exact ⟨k', List.mem_cons_of_mem _ hk', hm, hl⟩
    · rw [if_neg hc]
      obtain ⟨h1, h2, h3⟩ := ih b
      refine ⟨h1, ?_, ?_⟩
      · intro k' hk' hm
        rcases List.mem_cons.mp hk' with rfl | hk'
        · simp only [Bool.and_eq_true, decide_eq_true_eq, not_and, hm, true_implies] at hc
          omega
        · exact h2 k' hk' hm
      · rcases h3 with h3 | ⟨k', hk', hm, hl⟩
        · left; exact h3
        · right; exact ⟨k', List.mem_cons_of_mem _ hk', hm, hl⟩

theorem mKeyword_operand (op rest : Bytes) (hne : op ≠ []) (hr : nextIs followOK rest) :
    mKeyword (op ++ rest) = (if isKeyword op then op.length else mKeyword (op ++ rest)) ∧ mKeyword (op ++ rest) ≤ op.length
    ∧ (isKeyword op = false → mKeyword (op ++ rest) < op.length) := by
  obtain ⟨_, h2, h3⟩ := foldl_kw_spec (op ++ rest) keywords 0
  have hle : mKeyword (op ++ rest) ≤ op.length := by
    rcases h3 with h3 | ⟨k, hk, hm, hl⟩
    · unfold mKeyword; omega
    · have := hpf_len op rest hr k hk op k (fun _ h => h) hm
      unfold mKeyword; omega
  refine ⟨?_, hle, ?_⟩
  · by_cases hk : isKeyword op = true
    · rw [if_pos hk]
      simp only [isKeyword, List.any_eq_true] at hk
      obtain ⟨k, hkm, he⟩ := hk
      have := eqFold_hpf op rest k he
      have := h2 k hkm this.1
      unfold mKeyword at hle ⊢; omega
    · rw [if_neg hk]
  · intro hk
    rcases h3 with h3 | ⟨k, hkm, hm, hl⟩
    · have : 0 < op.length := by
        cases op with
        | nil => exact absurd rfl hne
        | cons _ _ => simp
      unfold mKeyword; omega
    · by_cases hlen : k.length = op.length
      · have := hpf_eqFold op rest k hm hlen
        have : isKeyword op = true := by simp only [isKeyword, List.any_eq_true]; exact ⟨k, hkm, this⟩
        simp [this] at hk
      · unfold mKeyword at hle ⊢; omega


theorem identStart_class (c : UInt8) (h : isIdentStart c = true) :
    isSpace c = false ∧ leadStr c = false ∧ leadOp c = false ∧ leadNum c = false ∧ (c == 123) = false := by
  have := forall_byte (fun c => !isIdentStart c || (!isSpace c && !leadStr c && !leadOp c && !leadNum c && !(c == 123)))
    (by decide +kernel) c
  simp only [h, Bool.not_true, Bool.false_or, Bool.and_eq_true, Bool.not_eq_true'] at this
  exact ⟨this.1.1.1.1, this.1.1.1.2, this.1.1.2, this.1.2, this.2⟩

theorem mIdent_operand (c0 : UInt8) (tl rest : Bytes) (h0 : isIdentStart c0 = true) (ht : tl.all isIdentRest = true)
    (hr : nextIs followOK rest) : mIdent (c0 :: tl ++ rest) = (c0 :: tl).length := by
  rcases hr with rfl | ⟨f, r, rfl, hf⟩
  · simp [mIdent, h0, takeWhile_all_nil isIdentRest tl ht]; omega
  · have hf' : isIdentRest f = false := by
      simp only [followOK, Bool.and_eq_true, Bool.not_eq_true'] at hf; exact hf.1
    simp [mIdent, h0, takeWhile_all_append isIdentRest tl f r ht hf']; omega

/-- an identifier-shaped text followed by the end or a `followOK` byte is ONE token: a Keyword token exactly when the
text is a keyword (tie between the Keyword and Ident groups goes to the earlier group), an Ident token otherwise —
the choice `operandTok` makes -/
theorem lexOne_operand (op rest : Bytes) (hs : identShaped op = true) (hr : nextIs followOK rest) :
    lexOne (op ++ rest) = some (some (operandTok op), op.length) := by
  cases op with
  | nil => simp [identShaped] at hs
  | cons c0 tl =>
    simp only [identShaped, Bool.and_eq_true] at hs
    obtain ⟨hc0, htl⟩ := hs
    obtain ⟨k0, k3, k4, k5, k6⟩ := identStart_class c0 hc0
    have e0 := mSpace_nolead c0 (tl ++ rest) k0
    have e2 := mIdent_operand c0 tl rest hc0 htl hr
    have e3 := mString_nolead c0 (tl ++ rest) k3
    have e4 := mOperator_nolead c0 (tl ++ rest) k4
    have e5 := mNumber_nolead c0 (tl ++ rest) k5
    have e6 := mTags_nolead c0 (tl ++ rest) k6
    obtain ⟨_, hle, hlt⟩ := mKeyword_operand (c0 :: tl) rest (by simp) hr
    have hk1 := (mKeyword_operand (c0 :: tl) rest (by simp) hr).1
    have hpick : pickBest (cands (c0 :: tl ++ rest)) = ((c0 :: tl).length, some (if isKeyword (c0 :: tl) then TT.keyword else TT.ident)) := by
      simp only [cands, List.cons_append] at *
      rw [e0, e2, e3, e4, e5, e6]
      by_cases hk : isKeyword (c0 :: tl) = true
      · rw [if_pos hk] at hk1
        rw [hk1]
        simp [pickBest, hk]
      · have hk' : isKeyword (c0 :: tl) = false := by simpa using hk
        have := hlt hk'
        simp only [pickBest, List.foldl_cons, List.foldl_nil, hk']
        by_cases hz : mKeyword (c0 :: (tl ++ rest)) > 0
        · simp [hz, this]; omega
        · simp [hz]
    have := lexOne_of_cands (c0 :: tl ++ rest) _ _ (by simp) hpick
    rw [this]
    simp [operandTok]


theorem isSpace_32 : isSpace 32 = true := by decide

theorem pick_single (n : Nat) (hn : 0 < n) :
    pickBest [(0, none), (0, some .keyword), (0, some .ident), (0, some .string), (n, some .operator), (0, some .number), (0, some .tags)] = (n, some .operator)
    ∧ pickBest [(0, none), (0, some .keyword), (0, some .ident), (n, some .string), (0, some .operator), (0, some .number), (0, some .tags)] = (n, some .string)
    ∧ pickBest [(n, none), (0, some .keyword), (0, some .ident), (0, some .string), (0, some .operator), (0, some .number), (0, some .tags)] = (n, none) := by
  simp [pickBest, hn]

theorem class32 : leadKw 32 = false ∧ isIdentStart 32 = false ∧ leadStr 32 = false ∧ leadOp 32 = false ∧ leadNum 32 = false ∧ ((32 : UInt8) == 123) = false := by
  decide
theorem class34 : isSpace 34 = false ∧ leadKw 34 = false ∧ isIdentStart 34 = false ∧ leadOp 34 = false ∧ leadNum 34 = false ∧ ((34 : UInt8) == 123) = false := by
  decide

/-- a blank (or two) in front of a non-blank byte is skipped -/
theorem lexOne_blank1 (c : UInt8) (r : Bytes) (hc : isSpace c = false) : lexOne (32 :: c :: r) = some (none, 1) := by
  obtain ⟨k1, k2, k3, k4, k5, k6⟩ := class32
  have e0 : mSpace (32 :: c :: r) = 1 := by simp [mSpace, List.takeWhile_cons, isSpace_32, hc]
  have hp : pickBest (cands (32 :: c :: r)) = (1, none) := by
    simp only [cands]
    rw [e0, mKeyword_nolead _ _ k1, mIdent_nolead _ _ k2, mString_nolead _ _ k3, mOperator_nolead _ _ k4, mNumber_nolead _ _ k5, mTags_nolead _ _ k6]
    exact (pick_single 1 (by omega)).2.2
  simpa using lexOne_of_cands _ _ _ (by omega) hp

theorem lexOne_blank2 (c : UInt8) (r : Bytes) (hc : isSpace c = false) : lexOne (32 :: 32 :: c :: r) = some (none, 2) := by
  obtain ⟨k1, k2, k3, k4, k5, k6⟩ := class32
  have e0 : mSpace (32 :: 32 :: c :: r) = 2 := by simp [mSpace, List.takeWhile_cons, isSpace_32, hc]
  have hp : pickBest (cands (32 :: 32 :: c :: r)) = (2, none) := by
    simp only [cands]
    rw [e0, mKeyword_nolead _ _ k1, mIdent_nolead _ _ k2, mString_nolead _ _ k3, mOperator_nolead _ _ k4, mNumber_nolead _ _ k5, mTags_nolead _ _ k6]
    exact (pick_single 2 (by omega)).2.2
  simpa using lexOne_of_cands _ _ _ (by omega) hp

/-- `(`, `)`, `,` are Operator tokens whatever follows -/
theorem lexOne_punct (c : UInt8) (rest : Bytes) (hc : c = 40 ∨ c = 41 ∨ c = 44) :
    lexOne (c :: rest) = some (some ⟨.operator, [c]⟩, 1) := by
  have hcl : isSpace c = false ∧ leadKw c = false ∧ isIdentStart c = false ∧ leadStr c = false ∧ leadNum c = false ∧ (c == 123) = false := by
    rcases hc with rfl | rfl | rfl <;> decide
  obtain ⟨k0, k1, k2, k3, k5, k6⟩ := hcl
  have e4 : mOperator (c :: rest) = 1 := by
    rcases hc with rfl | rfl | rfl <;> cases rest <;> simp [mOperator, opChars]
  have hp : pickBest (cands (c :: rest)) = (1, some .operator) := by
    simp only [cands]
    rw [e4, mSpace_nolead _ _ k0, mKeyword_nolead _ _ k1, mIdent_nolead _ _ k2, mString_nolead _ _ k3, mNumber_nolead _ _ k5, mTags_nolead _ _ k6]
    exact (pick_single 1 (by omega)).1
  simpa using lexOne_of_cands _ _ _ (by omega) hp

/-- the six symbolic comparison operators followed by a blank -/
theorem lexOne_symop (op r : Bytes) (ho : op ∈ symOps) : lexOne (op ++ 32 :: r) = some (some ⟨.operator, op⟩, op.length) := by
  simp only [symOps, List.mem_cons, List.not_mem_nil, or_false] at ho
  have key : ∀ (c : UInt8) (tl : Bytes), (isSpace c = false ∧ leadKw c = false ∧ isIdentStart c = false ∧ leadStr c = false ∧ leadNum c = false ∧ (c == 123) = false) →
      mOperator (c :: tl ++ 32 :: r) = (c :: tl).length → lexOne (c :: tl ++ 32 :: r) = some (some ⟨.operator, c :: tl⟩, (c :: tl).length) := by
    intro c tl ⟨k0, k1, k2, k3, k5, k6⟩ e4
    have hp : pickBest (cands (c :: tl ++ 32 :: r)) = ((c :: tl).length, some .operator) := by
      simp only [cands, List.cons_append] at *
      rw [e4, mSpace_nolead _ _ k0, mKeyword_nolead _ _ k1, mIdent_nolead _ _ k2, mString_nolead _ _ k3, mNumber_nolead _ _ k5, mTags_nolead _ _ k6]
      exact (pick_single _ (by simp)).1
    have := lexOne_of_cands _ _ _ (by simp) hp
    rw [this]; simp
  rcases ho with rfl | rfl | rfl | rfl | rfl | rfl
  · exact key 60 [] (by decide) (by simp [mOperator, opChars])
  · exact key 62 [] (by decide) (by simp [mOperator, opChars])
  · exact key 62 [61] (by decide) (by simp [mOperator, opChars])
  · exact key 60 [61] (by decide) (by simp [mOperator, opChars])
  · exact key 33 [61] (by decide) (by simp [mOperator, opChars])
  · exact key 61 [] (by decide) (by simp [mOperator, opChars])

/-! ### quoted strings -/

/-- the body of a `"…"` literal as the String pattern needs it: no bare `"`, every `\` followed by a byte other than a
line break -/
def strOK : Bytes → Bool
  | [] => true
  | [c] => c != 34 && c != 92
  | c :: e :: r' => if c == 34 then false else if c == 92 then e != 10 && strOK r' else strOK (e :: r')

theorem mStrBody_ok : ∀ (k : Nat) (body : Bytes), body.length ≤ k → strOK body = true →
    ∀ (fuel n : Nat) (rest : Bytes), body.length < fuel → mStrBody fuel (body ++ DQ :: rest) n = n + body.length + 1 := by
  intro k
  induction k with
  | zero =>
    intro body hl _ fuel n rest hf
    have : body = [] := by cases body <;> simp_all
    subst this
    cases fuel with
    | zero => omega
    | succ f => simp [mStrBody, DQ]
  | succ k ih =>
    intro body hl hok fuel n rest hf
    cases fuel with
    | zero => omega
    | succ f =>
      cases body with
      | nil => simp [mStrBody, DQ]
      | cons c tl =>
        cases tl with
        | nil =>
          simp only [strOK, Bool.and_eq_true, bne_iff_ne, ne_eq] at hok
          have h1 : (c == DQ) = false := by simp [DQ, hok.1]
          have h2 : (c == BS) = false := by simp [BS, hok.2]
          have := ih [] (by simp) (by simp [strOK]) f (n + 1) rest (by simp at hf ⊢; omega)
          simp only [List.nil_append] at this
          simp [mStrBody, h1, h2, this] <;> omega
        | cons e r' =>
          simp only [strOK] at hok
          by_cases hq : (c == 34) = true
          · simp [hq] at hok
          · have hq' : (c == 34) = false := by simpa using hq
            have h1 : (c == DQ) = false := by simpa [DQ] using hq'
            simp only [hq', Bool.false_eq_true, if_false] at hok
            by_cases hb : (c == 92) = true
            · simp only [hb, if_true, Bool.and_eq_true, bne_iff_ne, ne_eq] at hok
              have h2 : (c == BS) = true := by simpa [BS] using hb
              have he : (e == 10) = false := by simp [hok.1]
              have := ih r' (by simp at hl; omega) hok.2 f (n + 2) rest (by simp at hf; omega)
              simp [mStrBody, h1, h2, he, this] <;> omega
            · have hb' : (c == 92) = false := by simpa using hb
              have h2 : (c == BS) = false := by simpa [BS] using hb'
              simp only [hb', Bool.false_eq_true, if_false] at hok
              have := ih (e :: r') (by simp at hl ⊢; omega) hok f (n + 1) rest (by simp at hf ⊢; omega)
              simp only [List.cons_append] at this
              simp [mStrBody, h1, h2, this] <;> omega

/-- a value the printer's quoting turns into one String token that participle's unquote reads back (decidable per value;
`strconv.Quote` guarantees the first half for every byte string, the second holds for every valid UTF-8 value) -/
def strAtomOK (v : Bytes) : Bool := strOK (quoteBody (v.length + 1) v DQ) && unquoteTok (quote v) == some v

theorem lexOne_quoted (v rest : Bytes) (h : strAtomOK v = true) :
    lexOne (quote v ++ rest) = some (some ⟨.string, quote v⟩, (quote v).length) := by
  simp only [strAtomOK, Bool.and_eq_true] at h
  obtain ⟨k0, k1, k2, k4, k5, k6⟩ := class34
  generalize hb : quoteBody (v.length + 1) v DQ = body at h
  have hq : quote v = 34 :: (body ++ [34]) := by simp [quote, DQ, ← hb]
  have hlen : (quote v).length = body.length + 2 := by rw [hq]; simp
  have hs : quote v ++ rest = 34 :: (body ++ 34 :: rest) := by rw [hq]; simp
  have e3 : mString (34 :: (body ++ 34 :: rest)) = body.length + 2 := by
    have := mStrBody_ok _ body (Nat.le_refl _) h.1 ((body ++ 34 :: rest).length + 1) 1 rest (by simp; omega)
    simp only [DQ] at this
    simp only [mString, DQ, beq_self_eq_true, if_true]
    rw [this]; omega
  have hp : pickBest (cands (34 :: (body ++ 34 :: rest))) = (body.length + 2, some .string) := by
    simp only [cands]
    rw [e3, mSpace_nolead _ _ k0, mKeyword_nolead _ _ k1, mIdent_nolead _ _ k2, mOperator_nolead _ _ k4, mNumber_nolead _ _ k5, mTags_nolead _ _ k6]
    exact (pick_single _ (by omega)).2.1
  rw [hs, hlen]
  have := lexOne_of_cands _ _ _ (by omega) hp
  rw [this, hq]
  have : List.take (body.length + 2) (34 :: (body ++ 34 :: rest)) = 34 :: (body ++ [34]) := by
    have h1 : (34 :: (body ++ 34 :: rest) : Bytes) = (34 :: (body ++ [34])) ++ rest := by simp
    rw [h1]; exact List.take_left' (by simp)
  simp [this]


/-! ### composing token steps along a printed text -/

def tokStart (s : Bytes) : Prop := ∃ c r, s = c :: r ∧ isSpace c = false

/-- lexing `piece ++ rest` (with enough fuel) produces `toks` and goes on with `rest` (with enough fuel), whenever
`rest` satisfies `ok` -/
def LexesTo (piece : Bytes) (toks : List Tok) (ok : Bytes → Prop) : Prop :=
  ∀ rest acc fuel, ok rest → (piece ++ rest).length < fuel →
    ∃ fuel', rest.length < fuel' ∧ lexAll fuel (piece ++ rest) acc = lexAll fuel' rest (toks.reverse ++ acc)

theorem LexesTo.nil (ok : Bytes → Prop) : LexesTo [] [] ok := by
  intro rest acc fuel _ hf
  exact ⟨fuel, by simpa using hf, by simp⟩

theorem LexesTo.append {p1 p2 : Bytes} {t1 t2 : List Tok} {ok1 ok2 : Bytes → Prop}
    (h1 : LexesTo p1 t1 ok1) (h2 : LexesTo p2 t2 ok2) (hok : ∀ rest, ok2 rest → ok1 (p2 ++ rest)) :
    LexesTo (p1 ++ p2) (t1 ++ t2) ok2 := by
  intro rest acc fuel hr hf
  obtain ⟨f1, hf1, e1⟩ := h1 (p2 ++ rest) acc fuel (hok rest hr) (by simpa [List.append_assoc] using hf)
  obtain ⟨f2, hf2, e2⟩ := h2 rest (t1.reverse ++ acc) f1 hr hf1
  exact ⟨f2, hf2, by rw [List.append_assoc, e1, e2]; simp [List.append_assoc]⟩

theorem LexesTo.weaken {p : Bytes} {t : List Tok} {ok ok' : Bytes → Prop} (h : LexesTo p t ok) (hw : ∀ r, ok' r → ok r) :
    LexesTo p t ok' := fun rest acc fuel hr hf => h rest acc fuel (hw rest hr) hf

/-- one non-String token -/
theorem lexesTo_tok (text : Bytes) (t : Tok) (ok : Bytes → Prop) (hne : text ≠ []) (ht : (t.t == TT.string) = false)
    (h : ∀ rest, ok rest → lexOne (text ++ rest) = some (some t, text.length)) : LexesTo text [t] ok := by
  intro rest acc fuel hr hf
  cases fuel with
  | zero => omega
  | succ f =>
    refine ⟨f, by simp at hf; have : 0 < text.length := List.length_pos_iff.mpr hne; omega, ?_⟩
    have hne' : (text ++ rest).isEmpty = false := by cases text <;> simp_all
    rw [lexAll]
    simp [hne', h rest hr, ht]

theorem lexesTo_quoted (v : Bytes) (h : strAtomOK v = true) : LexesTo (quote v) [⟨.string, v⟩] (fun _ => True) := by
  intro rest acc fuel _ hf
  have hu : unquoteTok (quote v) = some v := by
    simp only [strAtomOK, Bool.and_eq_true, beq_iff_eq] at h; exact h.2
  cases fuel with
  | zero => omega
  | succ f =>
    have hl : 0 < (quote v).length := by simp [quote]
    refine ⟨f, by simp at hf; omega, ?_⟩
    have hne' : (quote v ++ rest).isEmpty = false := by simp [quote]
    rw [lexAll]
    simp [hne', lexOne_quoted v rest h, hu]

/-- a single blank in front of a token, or in front of one more blank and a token (`" AND " ++ " x"`) -/
theorem lexesTo_blank : LexesTo [32] [] (fun rest => tokStart rest ∨ ∃ s, rest = 32 :: s ∧ tokStart s) := by
  intro rest acc fuel hr hf
  cases fuel with
  | zero => omega
  | succ f =>
    rcases hr with ⟨c, r, rfl, hc⟩ | ⟨s, rfl, c, r, rfl, hc⟩
    · refine ⟨f, by simp at hf ⊢; omega, ?_⟩
      rw [lexAll]
      simp [lexOne_blank1 c r hc]
    · refine ⟨f + 1, by simp at hf ⊢; omega, ?_⟩
      cases f with
      | zero => simp at hf
      | succ f' =>
        have e1 : lexAll (f' + 1 + 1) (32 :: 32 :: c :: r) acc = lexAll (f' + 1) (c :: r) acc := by
          rw [lexAll]; simp [lexOne_blank2 c r hc]
        have e2 : lexAll (f' + 1 + 1) (32 :: c :: r) acc = lexAll (f' + 1) (c :: r) acc := by
          rw [lexAll]; simp [lexOne_blank1 c r hc]
        simp only [List.cons_append, List.nil_append, List.reverse_nil]
        rw [e1, e2]


/-! ### the decidable "lexable atoms" image predicate for expressions -/
mutual
def laIdent : Ident → Bool
  | .mk op ps => identShaped op && laIdents ps
def laIdents : IdentList → Bool
  | .nil => true
  | .cons h t => laIdent h && laIdents t
end

/-- operands identifier-shaped; the operator one of the six symbols or an identifier-shaped keyword; the value quotable
into one String token that unquotes back -/
def laCond (c : Cond) : Bool :=
  laIdent c.ident && (symOps.contains c.op || (identShaped c.op && isKeyword c.op && !symOps.contains c.op)) && strAtomOK c.value

abbrev okEnd : Bytes → Prop := nextIs followOK
abbrev okAny : Bytes → Prop := fun _ => True

theorem lexesTo_punct (c : UInt8) (hc : c = 40 ∨ c = 41 ∨ c = 44) : LexesTo [c] [⟨.operator, [c]⟩] okAny :=
  lexesTo_tok [c] _ _ (by simp) (by simp) (fun rest _ => by simpa using lexOne_punct c rest hc)

theorem lexesTo_operand (op : Bytes) (h : identShaped op = true) : LexesTo op [operandTok op] okEnd :=
  lexesTo_tok op _ _ (by cases op <;> simp_all [identShaped]) (by unfold operandTok; split <;> simp)
    (fun rest hr => lexOne_operand op rest h hr)

theorem okEnd_cons (f : UInt8) (r : Bytes) (h : followOK f = true) : okEnd (f :: r) := Or.inr ⟨f, r, rfl, h⟩
theorem follow40 : followOK 40 = true := by decide
theorem follow41 : followOK 41 = true := by decide
theorem follow44 : followOK 44 = true := by decide
theorem follow32 : followOK 32 = true := by decide

theorem tail_next (t : IdentList) (r : Bytes) : okEnd (printIdentsTail t ++ 41 :: r) := by
  cases t with
  | nil => exact okEnd_cons 41 _ follow41
  | cons h t => exact okEnd_cons 44 _ follow44

mutual
theorem lex_ident : ∀ (i : Ident), laIdent i = true → LexesTo (printIdent i) (toksIdent i) okEnd
  | .mk op .nil, h => by
    have hs : identShaped op = true := by simpa [laIdent, laIdents] using h
    simpa [printIdent, toksIdent] using lexesTo_operand op hs
  | .mk op (.cons hd t), h => by
    have h' : identShaped op = true ∧ laIdent hd = true ∧ laIdents t = true := by
      simpa [laIdent, laIdents, Bool.and_assoc] using h
    have A := lexesTo_operand op h'.1
    have B := lexesTo_punct 40 (Or.inl rfl)
    have C := lex_ident hd h'.2.1
    have D := lex_identsTail t h'.2.2
    have E := lexesTo_punct 41 (Or.inr (Or.inl rfl))
    have DE := D.append E (fun rest _ => ⟨rest, rfl⟩)
    have CDE := C.append DE (fun rest _ => by simpa [List.append_assoc] using tail_next t rest)
    have BCDE := B.append CDE (fun _ _ => trivial)
    have ALL := A.append BCDE (fun rest _ => okEnd_cons 40 _ follow40)
    have e1 : printIdent (.mk op (.cons hd t)) = op ++ ([40] ++ (printIdent hd ++ (printIdentsTail t ++ [41]))) := by
      simp [printIdent]
    have e2 : toksIdent (.mk op (.cons hd t)) = [operandTok op] ++ ([⟨.operator, [40]⟩] ++ (toksIdent hd ++ (toksIdentsTail t ++ [⟨.operator, [41]⟩]))) := by
      simp [toksIdent, tLP, tRP, LP, RP]
    rw [e1, e2]
    exact ALL.weaken (fun _ _ => trivial)
theorem lex_identsTail : ∀ (t : IdentList), laIdents t = true →
    LexesTo (printIdentsTail t) (toksIdentsTail t) (fun rest => ∃ r, rest = 41 :: r)
  | .nil, _ => by simpa [printIdentsTail, toksIdentsTail] using LexesTo.nil _
  | .cons hd t, h => by
    have h' : laIdent hd = true ∧ laIdents t = true := by simpa [laIdents] using h
    have B := lexesTo_punct 44 (Or.inr (Or.inr rfl))
    have C := lex_ident hd h'.1
    have D := lex_identsTail t h'.2
    have CD := C.append D (fun rest ⟨r, hr⟩ => by subst hr; exact tail_next t r)
    have ALL := B.append CD (fun _ _ => trivial)
    have e1 : printIdentsTail (.cons hd t) = [44] ++ (printIdent hd ++ printIdentsTail t) := by simp [printIdentsTail]
    have e2 : toksIdentsTail (.cons hd t) = [⟨.operator, [44]⟩] ++ (toksIdent hd ++ toksIdentsTail t) := by
      simp [toksIdentsTail, tCOMMA, COMMA]
    rw [e1, e2]
    exact ALL
end


theorem identStart_nospace (c : UInt8) (h : isIdentStart c = true) : isSpace c = false := (identStart_class c h).1

theorem printIdent_head (i : Ident) (h : laIdent i = true) : ∃ c tl, printIdent i = c :: tl ∧ isSpace c = false := by
  cases i with
  | mk op ps =>
    have hs : identShaped op = true := by
      cases ps <;> simp_all [laIdent, laIdents]
    cases op with
    | nil => simp [identShaped] at hs
    | cons c tl =>
      simp only [identShaped, Bool.and_eq_true] at hs
      cases ps with
      | nil => exact ⟨c, tl, by simp [printIdent], identStart_nospace c hs.1⟩
      | cons hd t => exact ⟨c, _, by simp [printIdent]; rfl, identStart_nospace c hs.1⟩

def laOp (op : Bytes) : Bool := symOps.contains op || (identShaped op && isKeyword op && !symOps.contains op)

theorem op_head (op : Bytes) (h : laOp op = true) : ∃ c tl, op = c :: tl ∧ isSpace c = false := by
  simp only [laOp, Bool.or_eq_true, Bool.and_eq_true] at h
  rcases h with h | h
  · have : op ∈ symOps := by simpa using h
    simp only [symOps, List.mem_cons, List.not_mem_nil, or_false] at this
    rcases this with rfl | rfl | rfl | rfl | rfl | rfl <;> exact ⟨_, _, rfl, by decide⟩
  · cases op with
    | nil => simp [identShaped] at h
    | cons c tl =>
      have := h.1.1
      simp only [identShaped, Bool.and_eq_true] at this
      exact ⟨c, tl, rfl, identStart_nospace c this.1⟩

theorem lexesTo_op (op : Bytes) (h : laOp op = true) : LexesTo op [opTok op] (fun rest => ∃ r, rest = 32 :: r) := by
  simp only [laOp, Bool.or_eq_true, Bool.and_eq_true, Bool.not_eq_true'] at h
  by_cases hs : symOps.contains op = true
  · have hm : op ∈ symOps := by simpa using hs
    have hne : op ≠ [] := by
      intro e; subst e; simp [symOps] at hm
    have : opTok op = ⟨.operator, op⟩ := by simp [opTok, hm]
    rw [this]
    exact lexesTo_tok op _ _ hne (by simp) (fun rest ⟨r, hr⟩ => by subst hr; exact lexOne_symop op r hm)
  · have hs' : symOps.contains op = false := by simpa using hs
    rcases h with h | h
    · exact absurd (by simpa using h) hs
    · have hk : isKeyword op = true := h.1.2
      have hnm : op ∉ symOps := by simpa using hs'
      have : opTok op = operandTok op := by simp [opTok, operandTok, hnm, hk]
      rw [this]
      exact (lexesTo_operand op h.1.1).weaken (fun rest ⟨r, hr⟩ => by subst hr; exact okEnd_cons 32 r follow32)

def laCond' (c : Cond) : Bool := laIdent c.ident && laOp c.op && strAtomOK c.value

theorem blankOk_of_head {s : Bytes} (h : ∃ c tl, s = c :: tl ∧ isSpace c = false) (rest : Bytes) :
    tokStart (s ++ rest) ∨ ∃ s', s ++ rest = 32 :: s' ∧ tokStart s' := by
  obtain ⟨c, tl, rfl, hc⟩ := h
  exact Or.inl ⟨c, tl ++ rest, by simp, hc⟩

theorem quote_head (v rest : Bytes) : tokStart (quote v ++ rest) :=
  ⟨34, quoteBody (v.length + 1) v DQ ++ (DQ :: rest), by simp [quote, DQ], by decide⟩

theorem lex_cond (c : Cond) (h : laCond' c = true) : LexesTo (printCond c) (toksCond c) okAny := by
  simp only [laCond', Bool.and_eq_true] at h
  obtain ⟨⟨hi, ho⟩, hv⟩ := h
  have S := lexesTo_blank
  have I := lex_ident c.ident hi
  have O := lexesTo_op c.op ho
  have Q := lexesTo_quoted c.value hv
  have SQ := S.append Q (fun rest _ => Or.inl (quote_head c.value rest))
  have OSQ := O.append SQ (fun rest _ => ⟨quote c.value ++ rest, by simp⟩)
  have SOSQ := S.append OSQ (fun rest _ => by simpa [List.append_assoc] using blankOk_of_head (op_head c.op ho) _)
  have ISOSQ := I.append SOSQ (fun rest _ => by simpa using okEnd_cons 32 _ follow32)
  have ALL := S.append ISOSQ (fun rest _ => by simpa [List.append_assoc] using blankOk_of_head (printIdent_head c.ident hi) _)
  have e1 : printCond c = [32] ++ (printIdent c.ident ++ ([32] ++ (c.op ++ ([32] ++ quote c.value)))) := by
    simp [printCond]
  have e2 : toksCond c = [] ++ (toksIdent c.ident ++ ([] ++ ([opTok c.op] ++ ([] ++ [⟨.string, c.value⟩])))) := by
    simp [toksCond]
  rw [e1, e2]
  exact ALL


mutual
def laExpr : Expr → Bool
  | .mk .nil => false
  | .mk (.cons h t) => laOr h && laOrs t
def laOrs : OrList → Bool
  | .nil => true
  | .cons h t => laOr h && laOrs t
def laOr : OrCond → Bool
  | .mk .nil => false
  | .mk (.cons h t) => laX h && laXs t
def laXs : XList → Bool
  | .nil => true
  | .cons h t => laX h && laXs t
def laX : XCond → Bool
  | .cond _ c => laCond' c
  | .paren _ e => laExpr e
end

/-- a piece that starts with one blank and a non-blank byte -/
def blankTok (s : Bytes) : Prop := ∃ c tl, s = 32 :: c :: tl ∧ isSpace c = false

theorem printCond_head (c : Cond) (h : laCond' c = true) : blankTok (printCond c) := by
  simp only [laCond', Bool.and_eq_true] at h
  obtain ⟨c0, tl, e, hc⟩ := printIdent_head c.ident h.1.1
  exact ⟨c0, tl ++ ([32] ++ c.op ++ [32] ++ quote c.value), by simp [printCond, e], hc⟩

theorem printX_head (x : XCond) (h : laX x = true) : blankTok (printX x) := by
  cases x with
  | cond neg c =>
    cases neg with
    | true => exact ⟨78, _, by simp [printX, bs, Go.ofAscii]; rfl, by decide⟩
    | false =>
      obtain ⟨c0, tl, e, hc⟩ := printCond_head c (by simpa [laX] using h)
      exact ⟨c0, tl, by simp [printX, e], hc⟩
  | paren neg e =>
    cases neg with
    | true => exact ⟨78, _, by simp [printX, bs, Go.ofAscii]; rfl, by decide⟩
    | false => exact ⟨40, _, by simp [printX, bs, Go.ofAscii]; rfl, by decide⟩

theorem printOr_head (o : OrCond) (h : laOr o = true) : blankTok (printOr o) := by
  cases o with
  | mk xs => cases xs with
    | nil => simp [laOr] at h
    | cons x t =>
      have hx : laX x = true := by simp only [laOr, Bool.and_eq_true] at h; exact h.1
      obtain ⟨c, tl, e, hc⟩ := printX_head x hx
      exact ⟨c, tl ++ printXsTail t, by simp [printOr, e], hc⟩

theorem printExpr_head (e : Expr) (h : laExpr e = true) : blankTok (printExpr e) := by
  cases e with
  | mk os => cases os with
    | nil => simp [laExpr] at h
    | cons o t =>
      have ho : laOr o = true := by simp only [laExpr, Bool.and_eq_true] at h; exact h.1
      obtain ⟨c, tl, e, hc⟩ := printOr_head o ho
      exact ⟨c, tl ++ printOrsTail t, by simp [printExpr, e], hc⟩

theorem blankOk1 {s : Bytes} (h : blankTok s) (rest : Bytes) : okEnd (s ++ rest) := by
  obtain ⟨c, tl, rfl, _⟩ := h
  exact okEnd_cons 32 _ follow32

/-- after a trailing blank (`" AND "`) comes a piece that itself starts with a blank -/
theorem blankOk2 {s : Bytes} (h : blankTok s) (rest : Bytes) :
    tokStart (s ++ rest) ∨ ∃ s', s ++ rest = 32 :: s' ∧ tokStart s' := by
  obtain ⟨c, tl, rfl, hc⟩ := h
  exact Or.inr ⟨c :: (tl ++ rest), by simp, c, tl ++ rest, rfl, hc⟩

theorem lexesTo_kw (k : Bytes) (hs : identShaped k = true) (hk : isKeyword k = true) : LexesTo k [tKw k] okEnd := by
  have := lexesTo_operand k hs
  have e : operandTok k = tKw k := by simp [operandTok, hk, tKw]
  rwa [e] at this

/-- `" KW"`: a blank and a keyword, followed by something that starts with a blank -/
theorem lexesTo_blank_kw (k : Bytes) (hs : identShaped k = true) (hk : isKeyword k = true) : LexesTo ([32] ++ k) [tKw k] okEnd := by
  have := lexesTo_blank.append (lexesTo_kw k hs hk) (fun rest _ => by
    cases k with
    | nil => simp [identShaped] at hs
    | cons c tl =>
      simp only [identShaped, Bool.and_eq_true] at hs
      exact Or.inl ⟨c, tl ++ rest, by simp, identStart_nospace c hs.1⟩)
  simpa using this

theorem sNOT : bs " NOT" = [32] ++ kwNOT := by decide
theorem sAND : bs " AND " = ([32] ++ kwAND) ++ [32] := by decide
theorem sOR : bs " OR " = ([32] ++ kwOR) ++ [32] := by decide
theorem sLP : bs " (" = [32] ++ [40] := by decide
theorem sRP : bs " )" = [32] ++ [41] := by decide

theorem lexesTo_not (neg : Bool) : LexesTo (if neg then bs " NOT" else []) (if neg then [tNOT] else []) okEnd := by
  cases neg with
  | false => simpa using LexesTo.nil okEnd
  | true => simpa [sNOT, tNOT, tKw] using lexesTo_blank_kw kwNOT (by decide) (by decide)

mutual
theorem lex_expr : ∀ (e : Expr), laExpr e = true → LexesTo (printExpr e) (toksExpr e) okAny
  | .mk .nil, h => by simp [laExpr] at h
  | .mk (.cons o t), h => by
    have h' : laOr o = true ∧ laOrs t = true := by simpa [laExpr] using h
    have := (lex_or o h'.1).append (lex_orsTail t h'.2) (fun _ _ => trivial)
    simpa [printExpr, toksExpr] using this
theorem lex_orsTail : ∀ (t : OrList), laOrs t = true → LexesTo (printOrsTail t) (toksOrsTail t) okAny
  | .nil, _ => by simpa [printOrsTail, toksOrsTail] using LexesTo.nil okAny
  | .cons o t, h => by
    have h' : laOr o = true ∧ laOrs t = true := by simpa [laOrs] using h
    have K := lexesTo_blank_kw kwOR (by decide) (by decide)
    have OT := (lex_or o h'.1).append (lex_orsTail t h'.2) (fun _ _ => trivial)
    have SOT := lexesTo_blank.append OT (fun rest _ => by simpa [List.append_assoc] using blankOk2 (printOr_head o h'.1) _)
    have ALL := K.append SOT (fun rest _ => okEnd_cons 32 _ follow32)
    have e1 : printOrsTail (.cons o t) = ([32] ++ kwOR) ++ ([32] ++ (printOr o ++ printOrsTail t)) := by
      simp [printOrsTail, sOR, List.append_assoc]
    have e2 : toksOrsTail (.cons o t) = [tKw kwOR] ++ ([] ++ (toksOr o ++ toksOrsTail t)) := by
      simp [toksOrsTail, tOR, tKw]
    rw [e1, e2]; exact ALL
theorem lex_or : ∀ (o : OrCond), laOr o = true → LexesTo (printOr o) (toksOr o) okAny
  | .mk .nil, h => by simp [laOr] at h
  | .mk (.cons x t), h => by
    have h' : laX x = true ∧ laXs t = true := by simpa [laOr] using h
    have := (lex_x x h'.1).append (lex_xsTail t h'.2) (fun _ _ => trivial)
    simpa [printOr, toksOr] using this
theorem lex_xsTail : ∀ (t : XList), laXs t = true → LexesTo (printXsTail t) (toksXsTail t) okAny
  | .nil, _ => by simpa [printXsTail, toksXsTail] using LexesTo.nil okAny
  | .cons x t, h => by
    have h' : laX x = true ∧ laXs t = true := by simpa [laXs] using h
    have K := lexesTo_blank_kw kwAND (by decide) (by decide)
    have XT := (lex_x x h'.1).append (lex_xsTail t h'.2) (fun _ _ => trivial)
    have SXT := lexesTo_blank.append XT (fun rest _ => by simpa [List.append_assoc] using blankOk2 (printX_head x h'.1) _)
    have ALL := K.append SXT (fun rest _ => okEnd_cons 32 _ follow32)
    have e1 : printXsTail (.cons x t) = ([32] ++ kwAND) ++ ([32] ++ (printX x ++ printXsTail t)) := by
      simp [printXsTail, sAND, List.append_assoc]
    have e2 : toksXsTail (.cons x t) = [tKw kwAND] ++ ([] ++ (toksX x ++ toksXsTail t)) := by
      simp [toksXsTail, tAND, tKw]
    rw [e1, e2]; exact ALL
theorem lex_x : ∀ (x : XCond), laX x = true → LexesTo (printX x) (toksX x) okAny
  | .cond neg c, h => by
    have hc : laCond' c = true := by simpa [laX] using h
    have := (lexesTo_not neg).append (lex_cond c hc) (fun rest _ => blankOk1 (printCond_head c hc) rest)
    simpa [printX, toksX] using this
  | .paren neg e, h => by
    have he : laExpr e = true := by simpa [laX] using h
    have L := lexesTo_blank.append (lexesTo_punct 40 (Or.inl rfl)) (fun rest _ => Or.inl ⟨40, rest, rfl, by decide⟩)
    have R := lexesTo_blank.append (lexesTo_punct 41 (Or.inr (Or.inl rfl))) (fun rest _ => Or.inl ⟨41, rest, rfl, by decide⟩)
    have ER := (lex_expr e he).append R (fun _ _ => trivial)
    have LER := L.append ER (fun _ _ => trivial)
    have ALL := (lexesTo_not neg).append LER (fun rest _ => okEnd_cons 32 _ follow32)
    have e1 : printX (.paren neg e) = (if neg then bs " NOT" else []) ++ (([32] ++ [40]) ++ (printExpr e ++ ([32] ++ [41]))) := by
      simp [printX, sLP, sRP, List.append_assoc]
    have e2 : toksX (.paren neg e) = (if neg then [tNOT] else []) ++ (([] ++ [⟨.operator, [40]⟩]) ++ (toksExpr e ++ ([] ++ [⟨.operator, [41]⟩]))) := by
      simp [toksX, tLP, tRP, LP, RP]
    rw [e1, e2]; exact ALL
end

/-- **`lex (print e) = tokensOf e`** for every expression whose atoms are lexable (decidable `laExpr`: operands
identifier-shaped, operators symbolic or identifier-shaped keywords, values `strAtomOK`), any nesting depth — the
`Lexable` hypothesis of `print_parse_partial`, proved from the lexer model -/
theorem lex_printExpr (e : Expr) (h : laExpr e = true) : lex (printExpr e) = some (toksExpr e) := by
  obtain ⟨f, hf, he⟩ := lex_expr e h [] [] ((printExpr e).length + 1) trivial (by simp)
  simp only [List.append_nil] at he
  unfold lex
  rw [he]
  cases f with
  | zero => omega
  | succ f => simp [lexAll]

end Logrange.Lql
