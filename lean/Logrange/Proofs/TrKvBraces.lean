import Logrange.Translated.Kvstring
import Logrange.Model.KV
/-!
# The translated `kvstring.RemoveCurlyBraces` computes the hand-written model `KV.removeCurlyBraces`

`Kvstring.RemoveCurlyBraces` is generated from the Go source; `KV.removeCurlyBraces` is the model the C08/C13
properties are stated over. The translated function never panics and never runs out of fuel.
-/
set_option linter.unusedSimpArgs false
namespace Logrange.Proofs.TrKvBraces
open Go Go.Sem Logrange Logrange.Translated

/-! ## the two scans return a suffix of their input -/

theorem leadScan_suffix : ∀ (l : Bytes) (c : Nat), ∃ pre, l = pre ++ (KV.leadScan l c).1
  | [], c => ⟨[], by simp [KV.leadScan]⟩
  | x :: r, c => by
    unfold KV.leadScan
    by_cases h1 : (x == KV.SP) = true
    · obtain ⟨pre, hp⟩ := leadScan_suffix r c
      refine ⟨x :: pre, ?_⟩
      simp only [h1, if_true, List.cons_append]
      exact congrArg _ hp
    · by_cases h2 : (x == KV.LB) = true
      · obtain ⟨pre, hp⟩ := leadScan_suffix r (c + 1)
        refine ⟨x :: pre, ?_⟩
        simp only [h1, h2, ↓reduceIte, List.cons_append]
        exact congrArg _ hp
      · exact ⟨[], by simp [h1, h2]⟩

theorem trailScan_suffix : ∀ (l : Bytes) (c : Int), ∃ pre, l = pre ++ (KV.trailScan l c).1
  | [], c => ⟨[], by simp [KV.trailScan]⟩
  | x :: r, c => by
    unfold KV.trailScan
    by_cases h0 : c ≥ 0
    · by_cases h1 : (x == KV.SP) = true
      · obtain ⟨pre, hp⟩ := trailScan_suffix r c
        refine ⟨x :: pre, ?_⟩
        simp only [h0, h1, if_true, List.cons_append]
        exact congrArg _ hp
      · by_cases h2 : (x == KV.RB) = true
        · obtain ⟨pre, hp⟩ := trailScan_suffix r (c - 1)
          refine ⟨x :: pre, ?_⟩
          simp only [h0, h1, h2, ↓reduceIte, List.cons_append]
          exact congrArg _ hp
        · exact ⟨[], by simp [h0, h1, h2]⟩
    · exact ⟨[], by simp [h0]⟩

/-! ## first loop -/

/-- a byte that equals `a` does not equal a different `b` (used to give every byte test of a loop body a value, whatever
order the source tests them in) -/
theorem beq_other {x a b : UInt8} (h : (x == a) = true) (hab : a ≠ b) : (x == b) = false := by
  have : x = a := by simpa using h
  subst this
  simpa using hab

theorem loop1_eq (str : Bytes) : ∀ (fuel i c : Nat), i ≤ str.length → str.length - i < fuel →
    Kvstring.RemoveCurlyBraces_loop1 str fuel (i : Int) (c : Int) =
      Kvstring.RemoveCurlyBraces_after1 str
        ((str.length - (KV.leadScan (str.drop i) c).1.length : Nat) : Int)
        ((KV.leadScan (str.drop i) c).2 : Int) := by
  intro fuel
  induction fuel with
  | zero => intro i c _ h; omega
  | succ fuel ih =>
    intro i c hi hf
    unfold Kvstring.RemoveCurlyBraces_loop1
    by_cases hlt : i < str.length
    · have hg : ((i : Int) < len str) := by simp [len]; omega
      have hd : str.drop i = str[i] :: str.drop (i + 1) := List.drop_eq_getElem_cons hlt
      have e1 : ((i : Int) + 1) = ((i + 1 : Nat) : Int) := by omega
      have e2 : ((c : Int) + 1) = ((c + 1 : Nat) : Int) := by omega
      rw [hd]
      unfold KV.leadScan
      simp only [hg, decide_true, if_true, index_ok str i hlt, Go.Sem.bind]
      by_cases h1 : (str[i] == (32 : UInt8)) = true
      · have h1' : (str[i] == KV.SP) = true := h1
        have h2f : (str[i] == (123 : UInt8)) = false := beq_other h1 (by decide)
        simp only [h1, h1', h2f, bne, Bool.not_true, Bool.not_false, ↓reduceIte, Bool.false_eq_true]
        rw [e1]
        exact ih (i + 1) c (by omega) (by omega)
      · have h1' : ¬ (str[i] == KV.SP) = true := h1
        have h1f : (str[i] == (32 : UInt8)) = false := by simpa using h1
        by_cases h2 : (str[i] == (123 : UInt8)) = true
        · have h2' : (str[i] == KV.LB) = true := h2
          simp only [h1f, h1', h2, h2', bne, Bool.not_true, Bool.not_false, ↓reduceIte, Bool.false_eq_true]
          rw [e1, e2]
          exact ih (i + 1) (c + 1) (by omega) (by omega)
        · have h2' : ¬ (str[i] == KV.LB) = true := h2
          have h2f : (str[i] == (123 : UInt8)) = false := by simpa using h2
          simp only [h1f, h1', h2f, h2', bne, Bool.not_true, Bool.not_false, ↓reduceIte, Bool.false_eq_true]
          have : str.length - ((str.drop (i + 1)).length + 1) = i := by
            simp only [List.length_drop]; omega
          simp only [List.length_cons, this]
    · have hi' : i = str.length := by omega
      have hg : ¬ ((i : Int) < len str) := by simp [len]; omega
      subst hi'
      simp [hg, KV.leadScan]

/-! ## second loop -/

theorem loop2_eq (str : Bytes) (idx : Nat) : ∀ (m fuel : Nat) (cnt : Int),
    (m ≠ 0 → idx + m < str.length) → m < fuel →
    Kvstring.RemoveCurlyBraces_loop2 str (idx : Int) fuel cnt ((idx : Int) + (m : Int)) =
      Kvstring.RemoveCurlyBraces_after2 str (idx : Int)
        (KV.trailScan ((str.drop (idx + 1)).take m).reverse cnt).2
        ((idx : Int) + ((KV.trailScan ((str.drop (idx + 1)).take m).reverse cnt).1.length : Int)) := by
  intro m
  induction m with
  | zero =>
    intro fuel cnt _ hf
    obtain ⟨fuel, rfl⟩ : ∃ f, fuel = f + 1 := ⟨fuel - 1, by omega⟩
    unfold Kvstring.RemoveCurlyBraces_loop2
    simp [KV.trailScan]
  | succ m ih =>
    intro fuel cnt hb hf
    obtain ⟨fuel, rfl⟩ : ∃ f, fuel = f + 1 := ⟨fuel - 1, by omega⟩
    have hb' : idx + (m + 1) < str.length := hb (by omega)
    have hlt : idx + 1 + m < str.length := by omega
    have hrev : ((str.drop (idx + 1)).take (m + 1)).reverse
        = str[idx + 1 + m] :: ((str.drop (idx + 1)).take m).reverse := by
      rw [List.take_add_one, List.getElem?_drop, List.getElem?_eq_getElem hlt]
      simp
    have et : (idx : Int) + ((m + 1 : Nat) : Int) = ((idx + 1 + m : Nat) : Int) := by omega
    have et' : ((idx + 1 + m : Nat) : Int) - 1 = (idx : Int) + (m : Int) := by omega
    rw [hrev]
    unfold Kvstring.RemoveCurlyBraces_loop2
    unfold KV.trailScan
    rw [et]
    have hgt : ((idx + 1 + m : Nat) : Int) > (idx : Int) := by omega
    by_cases h0 : cnt ≥ 0
    · simp only [hgt, h0, decide_true, Bool.and_self, if_true, index_ok str _ hlt, Go.Sem.bind]
      by_cases h1 : (str[idx + 1 + m] == (32 : UInt8)) = true
      · have h1' : (str[idx + 1 + m] == KV.SP) = true := h1
        have h2f : (str[idx + 1 + m] == (125 : UInt8)) = false := beq_other h1 (by decide)
        simp only [h1, h1', h2f, bne, Bool.not_true, Bool.not_false, ↓reduceIte, Bool.false_eq_true]
        rw [et']
        exact ih fuel cnt (by omega) (by omega)
      · have h1' : ¬ (str[idx + 1 + m] == KV.SP) = true := h1
        have h1f : (str[idx + 1 + m] == (32 : UInt8)) = false := by simpa using h1
        by_cases h2 : (str[idx + 1 + m] == (125 : UInt8)) = true
        · have h2' : (str[idx + 1 + m] == KV.RB) = true := h2
          simp only [h1f, h1', h2, h2', bne, Bool.not_true, Bool.not_false, ↓reduceIte, Bool.false_eq_true]
          rw [et']
          exact ih fuel (cnt - 1) (by omega) (by omega)
        · have h2' : ¬ (str[idx + 1 + m] == KV.RB) = true := h2
          have h2f : (str[idx + 1 + m] == (125 : UInt8)) = false := by simpa using h2
          simp only [h1f, h1', h2f, h2', bne, Bool.not_true, Bool.not_false, ↓reduceIte, Bool.false_eq_true]
          congr 1
          simp [List.length_take, List.length_drop]
          omega
    · simp only [hgt, h0, decide_true, decide_false, Bool.and_false, if_false, Bool.false_eq_true]
      congr 1
      simp [List.length_take, List.length_drop]
      omega

/-! ## the whole function -/

theorem removeCurlyBraces_eq (str : Bytes) :
    Kvstring.RemoveCurlyBraces str =
      .ok (match KV.removeCurlyBraces str with | some r => (r, false) | none => (str, true)) := by
  have h1 := loop1_eq str (dist 0 (len str)) 0 0 (by omega) (by simp only [dist, len]; omega)
  simp only [Int.natCast_zero, List.drop_zero] at h1
  simp only [Kvstring.RemoveCurlyBraces, h1]
  clear h1
  obtain ⟨pre, hpre⟩ := leadScan_suffix str 0
  unfold KV.removeCurlyBraces
  generalize KV.leadScan str 0 = ls at hpre
  obtain ⟨rest, cnt0⟩ := ls
  simp only at hpre ⊢
  subst hpre
  have hidx : (pre ++ rest).length - rest.length = pre.length := by
    simp only [List.length_append]; omega
  rw [hidx]
  simp only [Kvstring.RemoveCurlyBraces_after1]
  cases rest with
  | nil =>
    simp only [List.append_nil]
    have hfuel : dist (pre.length : Int) (len pre - 1) = 1 := by
      simp only [dist, len]; omega
    rw [hfuel]
    unfold Kvstring.RemoveCurlyBraces_loop2
    have hg : ¬ (len pre - 1 > (pre.length : Int)) := by simp only [len]; omega
    simp only [hg, decide_false, Bool.false_and, Bool.false_eq_true, ↓reduceIte]
    unfold Kvstring.RemoveCurlyBraces_after2
    have hne : ¬ (len pre - 1 = (pre.length : Int)) := by simp only [len]; omega
    have hsl : slice pre (pre.length : Int) (len pre - 1 + 1) = .ok [] := by
      have : len pre - 1 + 1 = (pre.length : Int) := by simp only [len]; omega
      rw [this, slice_ok _ _ _ (Nat.le_refl _) (Nat.le_refl _)]
      simp
    rw [hsl]
    by_cases hc : cnt0 = 0
    · subst hc
      simp [hne]
    · simp [hne, hc]
  | cons c tl =>
    have hfuel : dist (pre.length : Int) (len (pre ++ c :: tl) - 1) = tl.length + 1 := by
      simp only [dist, len, List.length_append, List.length_cons]; omega
    have htidx : len (pre ++ c :: tl) - 1 = (pre.length : Int) + (tl.length : Int) := by
      simp only [len, List.length_append, List.length_cons]; omega
    have hdrop : ((pre ++ c :: tl).drop (pre.length + 1)).take tl.length = tl := by
      simp
    have h2 := loop2_eq (pre ++ c :: tl) pre.length tl.length (tl.length + 1) (cnt0 : Int)
      (by intro _; simp only [List.length_append, List.length_cons]; omega) (by omega)
    rw [hdrop] at h2
    rw [hfuel, htidx, h2]
    clear h2
    obtain ⟨pre2, hpre2⟩ := trailScan_suffix tl.reverse (cnt0 : Int)
    simp only []
    generalize KV.trailScan tl.reverse (cnt0 : Int) = ts at hpre2
    obtain ⟨rem, cnt⟩ := ts
    simp only at hpre2 ⊢
    have htl : tl = rem.reverse ++ pre2.reverse := by
      have := congrArg List.reverse hpre2
      simpa using this
    unfold Kvstring.RemoveCurlyBraces_after2
    by_cases hrem : rem = []
    · subst hrem
      simp
    · have hlen : rem.length ≠ 0 := by
        intro h; exact hrem (List.eq_nil_of_length_eq_zero h)
      have hne : ¬ ((pre.length : Int) + (rem.length : Int) = (pre.length : Int)) := by omega
      have hemp : rem.isEmpty = false := by
        cases rem with
        | nil => exact absurd rfl hrem
        | cons _ _ => rfl
      have hsl : slice (pre ++ c :: tl) (pre.length : Int) ((pre.length : Int) + (rem.length : Int) + 1)
          = .ok (c :: rem.reverse) := by
        have : (pre.length : Int) + (rem.length : Int) + 1 = ((pre.length + rem.length + 1 : Nat) : Int) := by
          omega
        rw [this, slice_ok _ _ _ (by omega)
          (by subst htl; simp only [List.length_append, List.length_cons, List.length_reverse]; omega)]
        subst htl
        have hk : pre.length + rem.length + 1 - pre.length = rem.length + 1 := by omega
        rw [hk]
        simp
      rw [hsl]
      by_cases hc : cnt = 0
      · subst hc
        simp [hne, hemp]
      · simp [hne, hemp, hc]

end Logrange.Proofs.TrKvBraces
