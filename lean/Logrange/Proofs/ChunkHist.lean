import Logrange.Model.ChunkHist
import Logrange.Proofs.Points
/-!
# End-to-end soundness of one chunk's time index over a monotone write history

`Sound` is preserved by every `onWrite` (`onWrite_preserves`) when the timestamps are non-decreasing in stored order and
every notification carries the exact hull of its batch; hence it holds after any such history (`run_sound`), and the
selector's window offers every position whose timestamp lies in the asked range (`window_complete_monotone`).
-/
namespace Logrange.ChunkHist
open Logrange.Points

/-- the invariant of one chunk's index state w.r.t. the records `tsOf 0 … tsOf (c.n - 1)` -/
structure Sound (tsOf : Nat → Int) (c : ChunkIdx) : Prop where
  hullNone : c.n = 0 → c.hull = none
  hull : c.n > 0 → ∃ h, c.hull = some h ∧ HullSound h tsOf c.n ∧ ∃ q, q < c.n ∧ h.minTs = tsOf q
  index : c.corrupted = false → IndexSound tsOf c.n c.pts
  attained : c.corrupted = false → ∀ p ∈ c.pts, ∃ q, q < c.n ∧ p.ts ≤ tsOf q
  emptyStart : c.corrupted = false → c.pts = [] → c.n = 0
  lastRecPts : c.corrupted = false → c.lastRec > 0 → c.pts ≠ []

theorem sound_init (tsOf : Nat → Int) : Sound tsOf {} := by
  refine ⟨fun _ => rfl, ?_, ?_, ?_, fun _ _ => rfl, ?_⟩
  · intro h; exact absurd h (by decide)
  · intro _
    exact ⟨by simp, trivial, trivial, trivial, trivial, fun h => absurd rfl h, fun p hp => by simp at hp⟩
  · intro _ p hp; simp at hp
  · intro _ h; exact absurd h (by decide)

theorem monotone_mono {tsOf : Nat → Int} {m m' : Nat} (hm : Monotone tsOf m) (h : m' ≤ m) : Monotone tsOf m' :=
  fun i j hij hj => hm i j hij (by omega)

theorem cntLE_eq_length_of_all_le (t : Int) : ∀ (pts : List Pt), (∀ p ∈ pts, p.ts ≤ t) → cntLE pts t = pts.length := by
  intro pts
  induction pts with
  | nil => intro _; simp [cntLE]
  | cons a r ih =>
    intro hall
    have ha := hall a (List.mem_cons_self)
    rw [cntLE_cons_le ha, ih (fun p hp => hall p (List.mem_cons_of_mem _ hp))]
    simp

theorem add_ne_nil (pts : List Pt) (it : Iv) : add pts it ≠ [] := by
  cases pts with
  | nil => simp [add]
  | cons a r =>
    simp only [add]
    split
    · simp
    · split
      · simp
      · simp

theorem mem_add_append {pts : List Pt} {it : Iv} (hcase : cntLE pts it.p0.ts = pts.length) {p : Pt}
    (hp : p ∈ add pts it) : p ∈ pts ∨ p = it.p0 ∨ p = it.p1 := by
  cases pts with
  | nil => simp [add] at hp; exact Or.inr hp
  | cons a r =>
    simp only [add] at hp
    rw [if_pos hcase] at hp
    rw [List.mem_append] at hp
    rcases hp with hp | hp
    · exact Or.inl hp
    · simp at hp; exact Or.inr (Or.inr hp)

/-- the hull part of one step: the widened hull contains all `c.n + k` records and its minimum is attained -/
theorem hull_step {tsOf : Nat → Int} {c : ChunkIdx} {k : Nat} {mn mx : Int} (hs : Sound tsOf c)
    (he : ExactHull tsOf c.n k mn mx) :
    HullSound (newHull c.hull mn mx) tsOf (c.n + k) ∧
      ∃ q, q < c.n + k ∧ (newHull c.hull mn mx).minTs = tsOf q := by
  obtain ⟨hin, _, ⟨qn, hqn1, hqn2, hqn3⟩⟩ := he
  by_cases hn : c.n > 0
  · obtain ⟨h, hh, hsound, q0, hq0, hmin⟩ := hs.hull hn
    rw [hh]
    simp only [newHull]
    constructor
    · intro p hp
      show min h.minTs mn ≤ tsOf p ∧ tsOf p ≤ max h.maxTs mx
      by_cases hpn : p < c.n
      · have := hsound p hpn
        omega
      · have := hin p (by omega) hp
        omega
    · show ∃ q, q < c.n + k ∧ min h.minTs mn = tsOf q
      by_cases hle : h.minTs ≤ mn
      · exact ⟨q0, by omega, by omega⟩
      · exact ⟨qn, hqn2, by omega⟩
  · have h0 : c.n = 0 := by omega
    rw [hs.hullNone h0]
    simp only [newHull]
    constructor
    · intro p hp
      exact hin p (by omega) hp
    · exact ⟨qn, hqn2, hqn3.symm⟩

theorem onWrite_n (sparse bigGap : Nat) (c : ChunkIdx) (k : Nat) (mn mx : Int) :
    (onWrite sparse bigGap c k mn mx).n = c.n + k := by
  unfold onWrite
  dsimp only
  split
  · rfl
  · split
    · rfl
    · split
      · rfl
      · rfl

/-- **one `onWrite` preserves the invariant** on a monotone stream when the notification carries the exact batch hull -/
theorem onWrite_preserves {tsOf : Nat → Int} {c : ChunkIdx} (sparse bigGap k : Nat) (mn mx : Int) (hs : Sound tsOf c)
    (hk : 0 < k) (hm : Monotone tsOf (c.n + k)) (he : ExactHull tsOf c.n k mn mx) :
    Sound tsOf (onWrite sparse bigGap c k mn mx) := by
  have hh := hull_step hs he
  have hhull : ∃ h, some (newHull c.hull mn mx) = some h ∧ HullSound h tsOf (c.n + k) ∧
      ∃ q, q < c.n + k ∧ h.minTs = tsOf q := ⟨_, rfl, hh.1, hh.2⟩
  obtain ⟨hin, ⟨qx, hqx1, hqx2, hqx3⟩, ⟨qn, hqn1, hqn2, hqn3⟩⟩ := he
  unfold onWrite
  dsimp only
  split
  · -- already corrupted: only the hull and the record count change
    rename_i hc
    refine ⟨?_, ?_, ?_, ?_, ?_, ?_⟩
    · intro h; dsimp only at h; omega
    · intro _; exact hhull
    all_goals (intro h; dsimp only at h; rw [hc] at h; exact absurd h (by decide))
  · rename_i hc
    have hc' : c.corrupted = false := by simpa using hc
    split
    · -- skipped batch
      rename_i hskip
      have hne : c.pts ≠ [] := hs.lastRecPts hc' hskip.1
      have hlast : ∀ q, c.n ≤ q → q < c.n + k → (lastD c.pts).ts ≤ tsOf q := by
        intro q h1 h2
        obtain ⟨q0, hq0, hle⟩ := hs.attained hc' _ (lastD_mem c.pts hne)
        have := hm q0 q (by omega) h2
        omega
      refine ⟨?_, ?_, ?_, ?_, ?_, ?_⟩
      · intro h; dsimp only at h; omega
      · intro _; exact hhull
      · intro _
        exact skip_preserves (n' := c.n + k) (hs.index hc') (by omega) hlast
      · intro _ p hp
        obtain ⟨q, hq, hle⟩ := hs.attained hc' p hp
        refine ⟨q, ?_, hle⟩
        show q < c.n + k
        omega
      · intro _ h; exact absurd h hne
      · intro _ _; exact hne
    · split
      · -- first notification arrives too late: the index is dropped
        refine ⟨?_, ?_, ?_, ?_, ?_, ?_⟩
        · intro h; dsimp only at h; omega
        · intro _; exact hhull
        all_goals (intro h; exact Bool.noConfusion h)
      · -- the interval of the batch is appended
        have hall : ∀ p ∈ c.pts, p.ts ≤ mn := by
          intro p hp
          obtain ⟨q, hq, hle⟩ := hs.attained hc' p hp
          have := hm q qn (by omega) hqn2
          omega
        have hcase : cntLE c.pts (Iv.mk ⟨mn, c.n⟩ ⟨mx, c.n + k - 1⟩).p0.ts = c.pts.length :=
          cntLE_eq_length_of_all_le mn c.pts hall
        have hb : BatchIn (Iv.mk ⟨mn, c.n⟩ ⟨mx, c.n + k - 1⟩) tsOf := by
          intro q h1 h2
          dsimp only at h1 h2 ⊢
          exact hin q h1 (by omega)
        have hg : GapCovered c.pts (Iv.mk ⟨mn, c.n⟩ ⟨mx, c.n + k - 1⟩) tsOf := by
          intro q _ h2
          dsimp only at h2 ⊢
          have := hm q qx (by omega) hqx2
          omega
        have hidx : IndexSound tsOf (c.n + k) (add c.pts (Iv.mk ⟨mn, c.n⟩ ⟨mx, c.n + k - 1⟩)) :=
          add_preserves_append (n := c.n) _ (hs.index hc') hcase rfl (by dsimp only; omega) (by dsimp only; omega)
            hb hg (fun h => hs.emptyStart hc' h)
        refine ⟨?_, ?_, ?_, ?_, ?_, ?_⟩
        · intro h; dsimp only at h; omega
        · intro _; exact hhull
        · intro _; exact hidx
        · intro _ p hp
          dsimp only at hp ⊢
          rcases mem_add_append hcase hp with hp | hp | hp
          · obtain ⟨q, hq, hle⟩ := hs.attained hc' p hp
            exact ⟨q, by omega, hle⟩
          · subst hp; exact ⟨qn, hqn2, by dsimp only; omega⟩
          · subst hp; exact ⟨qx, hqx2, by dsimp only; omega⟩
        · intro _ h; exact absurd h (add_ne_nil _ _)
        · intro _ _; exact add_ne_nil _ _

/-! ## histories -/

theorem total_nil : total [] = 0 := rfl
theorem total_cons (b : Batch) (r : List Batch) : total (b :: r) = b.k + total r := by
  simp [total]

theorem runFrom_sound {tsOf : Nat → Int} (sparse bigGap : Nat) : ∀ (bs : List Batch) (c : ChunkIdx),
    Sound tsOf c → Monotone tsOf (c.n + total bs) → BatchesExact tsOf c.n bs →
    Sound tsOf (runFrom sparse bigGap c bs) ∧ (runFrom sparse bigGap c bs).n = c.n + total bs := by
  intro bs
  induction bs with
  | nil => intro c hs _ _; exact ⟨hs, by simp [runFrom, total_nil]⟩
  | cons b r ih =>
    intro c hs hm he
    obtain ⟨hk, hex, hrest⟩ := he
    rw [total_cons] at hm
    have hstep := onWrite_preserves sparse bigGap b.k b.mn b.mx hs hk (monotone_mono hm (by omega)) hex
    have hn := onWrite_n sparse bigGap c b.k b.mn b.mx
    have := ih (onWrite sparse bigGap c b.k b.mn b.mx) hstep (by rw [hn]; exact monotone_mono hm (by omega))
      (by rw [hn]; exact hrest)
    refine ⟨this.1, ?_⟩
    show (runFrom sparse bigGap (onWrite sparse bigGap c b.k b.mn b.mx) r).n = _
    rw [this.2, hn, total_cons]
    omega

/-- **a monotone history with exact batch hulls leaves a sound chunk index** -/
theorem run_sound {tsOf : Nat → Int} (sparse bigGap : Nat) (bs : List Batch) (hm : Monotone tsOf (total bs))
    (he : BatchesExact tsOf 0 bs) :
    Sound tsOf (run sparse bigGap bs) ∧ (run sparse bigGap bs).n = total bs := by
  have := runFrom_sound (tsOf := tsOf) sparse bigGap bs {} (sound_init tsOf)
    (by show Monotone tsOf (0 + total bs); rw [Nat.zero_add]; exact hm) he
  refine ⟨this.1, ?_⟩
  show (runFrom sparse bigGap {} bs).n = total bs
  rw [this.2]
  show 0 + total bs = total bs
  omega

/-- **the payoff**: after a monotone history the selector's window of the chunk offers every position whose timestamp
lies in the asked range -/
theorem window_complete_monotone {tsOf : Nat → Int} (sparse bigGap : Nat) (bs : List Batch)
    (hm : Monotone tsOf (total bs)) (he : BatchesExact tsOf 0 bs) (hn : total bs ≤ maxU32)
    (hlow : ∀ q, q < total bs → minI64 ≤ tsOf q) (r : TmRange) (p : Nat) (hp : p < total bs)
    (hr : inRange r (tsOf p)) :
    ∃ h, (run sparse bigGap bs).hull = some h ∧ inWindow (window h (idxOf (run sparse bigGap bs)) r) p := by
  obtain ⟨hs, hnn⟩ := run_sound (tsOf := tsOf) sparse bigGap bs hm he
  obtain ⟨h, hh, hsound, q, hq, hmin⟩ := hs.hull (by omega)
  rw [hnn] at hsound hq
  refine ⟨h, hh, ?_⟩
  apply window_complete (tsOf := tsOf) (n := total bs) h _ r hsound ?_ hn ?_ p hp hr
  · intro pts hpts
    unfold idxOf at hpts
    by_cases hc : (run sparse bigGap bs).corrupted = true
    · rw [if_pos hc] at hpts; exact absurd hpts (by simp)
    · rw [if_neg hc] at hpts
      have hc' : (run sparse bigGap bs).corrupted = false := by simpa using hc
      have := hs.index hc'
      rw [hnn] at this
      simp only [Option.some.injEq] at hpts
      rw [← hpts]; exact this
  · rw [hmin]; exact hlow q hq

/-! ## non-vacuity: append, skip, append on a concrete history -/

example : (run 250 5000 [⟨300, 100, 200⟩, ⟨10, 200, 205⟩, ⟨300, 205, 300⟩]).pts =
    [⟨100, 0⟩, ⟨200, 299⟩, ⟨300, 609⟩] := by decide

example : (run 250 5000 [⟨300, 100, 200⟩, ⟨10, 200, 205⟩]).pts = [⟨100, 0⟩, ⟨200, 299⟩] ∧
    (run 250 5000 [⟨300, 100, 200⟩, ⟨10, 200, 205⟩]).lastRec = 299 ∧
    (run 250 5000 [⟨300, 100, 200⟩, ⟨10, 200, 205⟩]).n = 310 := by decide

example : (run 250 5000 [⟨300, 100, 200⟩, ⟨10, 200, 205⟩, ⟨300, 205, 300⟩]).lastRec = 609 ∧
    (run 250 5000 [⟨300, 100, 200⟩, ⟨10, 200, 205⟩, ⟨300, 205, 300⟩]).hull = some ⟨100, 300⟩ ∧
    (run 250 5000 [⟨300, 100, 200⟩, ⟨10, 200, 205⟩, ⟨300, 205, 300⟩]).corrupted = false := by decide

/-- a first notification that arrives more than `bigGap` records late drops the index -/
example : idxOf (run 250 5000 [⟨6000, 1, 2⟩]) = none := by decide

end Logrange.ChunkHist
