import Logrange.Model.WriteLoop
/-! `iwrapper`'s running minimum / maximum with the "seen" flag (fix 6624754): the hull of a batch is its true
minimum and maximum, for every batch — including timestamps 0 and negative ones. -/
namespace Logrange.WriteLoop

theorem see_flags (w : IW) (t : Int) : (w.see t).sMin = w.sMin ∧ (w.see t).sMax = w.sMax ∧ (w.see t).seen = true := by
  simp [IW.see]

theorem see_unseen (w : IW) (t : Int) (h1 : w.sMin = false) (h2 : w.sMax = false) (hs : w.seen = false) :
    (w.see t).minTs = t ∧ (w.see t).maxTs = t := by
  simp [IW.see, h1, h2, hs]

theorem see_seen (w : IW) (t : Int) (h1 : w.sMin = false) (h2 : w.sMax = false) (hs : w.seen = true) :
    (w.see t).minTs = min w.minTs t ∧ (w.see t).maxTs = max w.maxTs t := by
  simp only [IW.see, h1, h2, hs]
  constructor
  · by_cases h : w.minTs > t
    · simp [h]; omega
    · simp [h]; omega
  · by_cases h : w.maxTs < t
    · simp [h]; omega
    · simp [h]; omega

/-- folding `see` over further records from a state that has seen something -/
theorem fold_seen (l : List Int) : ∀ (w : IW), w.sMin = false → w.sMax = false → w.seen = true →
    let r := l.foldl IW.see w
    r.minTs ≤ w.minTs ∧ w.maxTs ≤ r.maxTs ∧ (∀ t ∈ l, r.minTs ≤ t ∧ t ≤ r.maxTs) ∧
    (r.minTs = w.minTs ∨ r.minTs ∈ l) ∧ (r.maxTs = w.maxTs ∨ r.maxTs ∈ l) := by
  induction l with
  | nil => intro w _ _ _; simp
  | cons t rest ih =>
    intro w h1 h2 hs
    have hf := see_flags w t
    have hv := see_seen w t h1 h2 hs
    have := ih (w.see t) (by rw [hf.1]; exact h1) (by rw [hf.2.1]; exact h2) hf.2.2
    simp only [List.foldl_cons]
    obtain ⟨a, b, c, d, e⟩ := this
    refine ⟨by omega, by omega, ?_, ?_, ?_⟩
    · intro x hx
      cases hx with
      | head => constructor <;> omega
      | tail _ hx' => exact c x hx'
    · rcases d with d | d
      · rw [d, hv.1]
        by_cases hlt : w.minTs ≤ t
        · left; omega
        · right; simp; left; omega
      · right; exact List.mem_cons_of_mem _ d
    · rcases e with e | e
      · rw [e, hv.2]
        by_cases hlt : t ≤ w.maxTs
        · left; omega
        · right; simp; left; omega
      · right; exact List.mem_cons_of_mem _ e

/-- **the hull of a batch is exact**: starting from an `iwrapper` without sentinels that has seen nothing, after the
records `t :: rest` the running minimum / maximum are the true minimum / maximum of the batch. -/
theorem hull_exact_of_flags (w : IW) (h1 : w.sMin = false) (h2 : w.sMax = false) (hs : w.seen = false) (t : Int) (rest : List Int) :
    let r := (t :: rest).foldl IW.see w
    (∀ x ∈ t :: rest, r.minTs ≤ x ∧ x ≤ r.maxTs) ∧ r.minTs ∈ t :: rest ∧ r.maxTs ∈ t :: rest := by
  have hf := see_flags w t
  have hu := see_unseen w t h1 h2 hs
  have := fold_seen rest (w.see t) (by rw [hf.1]; exact h1) (by rw [hf.2.1]; exact h2) hf.2.2
  simp only [List.foldl_cons]
  obtain ⟨a, b, c, d, e⟩ := this
  rw [hu.1] at a d
  rw [hu.2] at b e
  refine ⟨?_, ?_, ?_⟩
  · intro x hx
    cases hx with
    | head => constructor <;> omega
    | tail _ hx' => exact c x hx'
  · rcases d with d | d
    · rw [d]; exact List.mem_cons_self
    · exact List.mem_cons_of_mem _ d
  · rcases e with e | e
    · rw [e]; exact List.mem_cons_self
    · exact List.mem_cons_of_mem _ e

end Logrange.WriteLoop
