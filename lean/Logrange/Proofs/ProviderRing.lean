import Logrange.Proofs.Provider
import Logrange.Proofs.RingPtr
/-!
# The provider's two rings at pointer level

`Model/Provider.lean` keeps `p.busy` / `p.free` as lists (`Model/Ring.lean`); `Model/RingPtr.lean` models
`container.CLElement` at pointer level (two pointer fields per cell, the Go statements in order) and
`Proofs/RingPtr.lean` shows that every sequence of the four ring manipulations provider.go performs (`toHead`,
`insertNew`, `insertFree`, `evict`), each under its side condition, is simulated by the list level (`sim_run`).

Here: every step of the provider model changes its two rings by such a sequence, and the side conditions hold
(`Evolves`), for all well-formed traces — so the pointer-level heap obtained by executing the real pointer
manipulations represents the model's rings in every reachable state.
-/
namespace Logrange.Provider
open Logrange.Ring Logrange.RingPtr

/-- the two rings of a provider state -/
def lst (s : St) : LSt := ⟨s.ring, s.free⟩

/-- the rings of `s'` are what a sequence of provider-shaped ring operations, each under its side condition, makes of
the rings of `s` -/
def Evolves (s s' : St) : Prop := ∃ ops, OkRun (lst s) ops ∧ lrun (lst s) ops = lst s'

theorem okRun_append : ∀ (a b : List Op) (l : LSt), OkRun l a → OkRun (lrun l a) b → OkRun l (a ++ b)
  | [], _, _, _, hb => hb
  | _ :: a, b, _, ha, hb => ⟨ha.1, okRun_append a b _ ha.2 hb⟩

theorem lrun_append : ∀ (a b : List Op) (l : LSt), lrun l (a ++ b) = lrun (lrun l a) b
  | [], _, _ => rfl
  | _ :: a, b, _ => lrun_append a b _

theorem Evolves.refl (s : St) : Evolves s s := ⟨[], trivial, rfl⟩

theorem Evolves.trans {s1 s2 s3 : St} (h1 : Evolves s1 s2) (h2 : Evolves s2 s3) : Evolves s1 s3 := by
  obtain ⟨a, oa, ra⟩ := h1
  obtain ⟨b, ob, rb⟩ := h2
  refine ⟨a ++ b, okRun_append a b _ oa (by rw [ra]; exact ob), ?_⟩
  rw [lrun_append, ra, rb]

theorem Evolves.of_eq {s s' : St} (h1 : s'.ring = s.ring) (h2 : s'.free = s.free) : Evolves s s' :=
  ⟨[], trivial, by simp [lrun, lst, h1, h2]⟩

theorem Evolves.one {s s' : St} (op : Op) (ok : okOp (lst s) op) (h : lstep (lst s) op = lst s') : Evolves s s' :=
  ⟨[op], ⟨ok, trivial⟩, h⟩

theorem evolves_lookup {s : St} (id q p : Nat) (ok : Bool) (j : J s) : Evolves s (lookup s id q p ok).1 := by
  unfold lookup
  split
  · split
    · rename_i e he
      simp only []
      split
      · exact Evolves.refl s
      · split
        · exact Evolves.of_eq rfl rfl
        · split
          · exact Evolves.refl s
          · exact Evolves.one (.toHead e) (j.f id e he).1 rfl
    · exact Evolves.refl s
  · exact Evolves.refl s

theorem evolves_create {s : St} (id q p : Nat) (k : CreateKind) (c n : Nat) : Evolves s (create s id q p k c n).1 := by
  unfold create
  cases k <;> exact Evolves.of_eq rfl rfl

theorem evolves_insert {s : St} (chk : Bool) (c : Nat) (j : J s) : Evolves s (insert chk s c).1 := by
  unfold insert
  simp only []
  split
  · exact Evolves.of_eq rfl rfl
  · cases hf : s.free with
    | nil =>
      refine Evolves.one (.insertNew s.nextElem) ⟨?_, ?_⟩ ?_
      · intro hm; exact absurd (j.c _ (Or.inl hm)) (Nat.lt_irrefl _)
      · intro hm; exact absurd (j.c _ (Or.inr hm)) (Nat.lt_irrefl _)
      · simp [lstep, lst, hset, hf]
    | cons f rest =>
      refine Evolves.one .insertFree (by simp [okOp, lst, hf]) ?_
      simp [lstep, lst, hset, hf, Ring.tearOff]

theorem evolves_release {s : St} (byId : Bool) (c cp : Nat) (j : J s) : Evolves s (release byId s c cp).1 := by
  unfold release
  simp only []
  split
  · exact Evolves.of_eq rfl rfl
  · rename_i e he
    split
    · exact Evolves.of_eq rfl rfl
    · split
      · exact Evolves.of_eq rfl rfl
      · exact Evolves.one (.toHead e) (j.f _ e he).1 rfl

theorem evolves_evict {s : St} (e : Nat) (rc : Bool) (j : J s) (he : e ∈ s.ring) : Evolves s (evict s e rc) := by
  obtain ⟨c, hc, _⟩ := j.e e he
  unfold evict
  simp only [hc]
  by_cases hr : (rc && decide (s.freeSz < freePoolCap)) = true
  · refine Evolves.one (.evict e true) he ?_
    simp only [hset, closeCur, setCur] at hr ⊢
    split <;> simp [lstep, lst, hr]
  · refine Evolves.one (.evict e false) he ?_
    simp only [hset, closeCur, setCur] at hr ⊢
    split <;> simp [lstep, lst, hr]

theorem evolves_sweepBySizeLoop (fuel : Nat) : ∀ {s : St}, K s → Evolves s (sweepBySizeLoop fuel s) := by
  induction fuel with
  | zero => intro s _; exact Evolves.refl s
  | succ n ih =>
    intro s k
    unfold sweepBySizeLoop
    split
    · split
      · exact Evolves.of_eq rfl rfl
      · rename_i e hl
        have he : e ∈ s.ring := List.mem_of_getLast? hl
        simp only []
        split
        · exact evolves_evict e false k.j he
        · exact (evolves_evict e false k.j he).trans (ih (K_evict e false k he))
    · exact Evolves.refl s

theorem evolves_sweepByTimeLoop (cnt : Nat) : ∀ {s : St} (e : Nat), K s → cnt ≤ s.ring.length → (0 < cnt → e ∈ s.ring) →
    Evolves s (sweepByTimeLoop cnt s e) := by
  induction cnt with
  | zero => intro s e _ _ _; exact Evolves.refl s
  | succ n ih =>
    intro s e h hlen hmem
    have he : e ∈ s.ring := hmem (Nat.succ_pos n)
    have he' : prev s.ring e ∈ s.ring := prev_mem he
    unfold sweepByTimeLoop
    simp only []
    split
    · have hk := K_evict (prev s.ring e) true h he'
      have hring := (Rest_evict (prev s.ring e) true h.j h.r he').2
      have hev := evolves_evict (prev s.ring e) true h.j he'
      split
      · exact hev
      · refine hev.trans (ih _ hk ?_ ?_)
        · rw [hring, List.length_erase_of_mem he']; omega
        · intro hpos
          rw [hring]
          have h2 : 2 ≤ s.ring.length := by omega
          have hne : prev s.ring (prev s.ring e) ≠ prev s.ring e := prev_ne he' h.j.a h2
          exact (List.Nodup.mem_erase_iff h.j.a).2 ⟨hne, prev_mem he'⟩
    · split
      · exact Evolves.refl s
      · exact ih _ h (by omega) (fun _ => he')

theorem evolves_sweepByTime {s : St} (k : K s) : Evolves s (sweepByTime s) := by
  unfold sweepByTime
  split
  · exact Evolves.refl s
  · rename_i head tl hr
    apply evolves_sweepByTimeLoop _ _ k
    · rw [k.r.sz]; exact Nat.le_refl _
    · intro _; rw [hr]; exact List.mem_cons_self ..

theorem evolves_step_split {s : St} (l : Label) (hs : l.isSplit = true) (k : K s) :
    Evolves s (stepL true false s l) := by
  cases l with
  | lookup id q p ok => exact evolves_lookup id q p ok k.j
  | create id q p kd c n => exact evolves_create id q p kd c n
  | insert c => exact evolves_insert true c k.j
  | get id q p ok kd cache c n => simp [Label.isSplit] at hs
  | release c cp => exact evolves_release false c cp k.j
  | age d => exact Evolves.of_eq rfl rfl
  | sweepT => exact evolves_sweepByTime k
  | sweepS => exact evolves_sweepBySizeLoop _ k

theorem evolves_run_split (tr : List Label) : ∀ {s : St}, K s → (∀ l ∈ tr, l.isSplit = true) → WF s tr →
    Evolves s (run true false s tr) := by
  induction tr with
  | nil => intro s _ _ _; exact Evolves.refl s
  | cons l tr ih =>
    intro s k hs wf
    have h1 := hs l (List.mem_cons_self ..)
    exact (evolves_step_split l h1 k).trans
      (ih (K_step_split l h1 k wf.1) (fun x hx => hs x (List.mem_cons_of_mem _ hx)) wf.2)

theorem evolves_step {s : St} (l : Label) (k : K s) (wf : wfLabel s l) : Evolves s (stepL true false s l) := by
  cases hl : l.isSplit
  · cases l with
    | get id q p ok kd cache c n =>
      rw [← get_refines_split]
      exact evolves_run_split _ k (getParts_split s id q p ok kd cache c n) (get_parts_wf k.j id q p ok kd cache c n wf)
    | _ => simp [Label.isSplit] at hl
  · exact evolves_step_split l hl k

/-- along every well-formed trace the two rings change by provider-shaped ring operations under their side conditions -/
theorem evolves_run (tr : List Label) : ∀ {s : St}, K s → WF s tr → Evolves s (run true false s tr) := by
  induction tr with
  | nil => intro s _ _; exact Evolves.refl s
  | cons l tr ih => intro s k wf; exact (evolves_step l k wf.1).trans (ih (K_step l k wf.1) wf.2)

/-- every reachable provider state has a pointer-level twin: the heap obtained by executing the real pointer
manipulations of `clist.go` for the ring operations the trace performed represents both rings of the model -/
theorem pointer_twin (m : Nat) (i b : Int) (tr : List Label) (wf : WF (init m i b) tr) :
    ∃ ops, OkRun LSt.init ops ∧
      Sim (prun PSt.init ops) (lst (run true false (init m i b) tr)) := by
  obtain ⟨ops, ok, r⟩ := evolves_run tr (K_init m i b) wf
  have e : lst (init m i b) = LSt.init := rfl
  rw [e] at ok r
  exact ⟨ops, ok, by rw [← r]; exact sim_run_init ops ok⟩

end Logrange.Provider
