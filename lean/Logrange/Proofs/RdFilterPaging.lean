import Logrange.Proofs.RdFilterSrc
import Logrange.Proofs.RdMergeNJournal
/-!
# Paging over a FILTERED merged cursor of any number of partitions (WHERE / range re-check above the mixer tree)

`pagesS`: chains of pages over any single lawful source `τ` (page = read loop + commit; per page the held object continues
or `refresh` makes a new one from what the old one exports). Instantiated with `τ = FSrc (It σ)` — the `fiterator` above the
mixer tree `newCursor` builds — and `refresh` = a new `fiterator` (nothing cached) over a new tree over fresh leaves at the
exported positions: the concatenated pages are the first Σ limits events of the FILTERED merged stream.
-/
set_option linter.unusedSectionVars false
set_option linter.unusedVariables false
namespace Logrange.MergeN
open Logrange.Mixer Logrange.MixTree LawfulSource

section srcchain
variable {τ : Type} [Source τ] [LawfulSource τ] (Q : τ → Prop) (refresh : τ → τ)

def afterS : Nat → τ → τ
  | 0, s => s
  | k + 1, s =>
    match Source.get s with
    | (s', some _) => afterS k (Source.next s')
    | (s', none) => s'

def drainS : Nat → τ → List Ev
  | 0, _ => []
  | k + 1, s =>
    match Source.get s with
    | (s', some e) => e :: drainS k (Source.next s')
    | (_, none) => []

def pageS (lim : Nat) (s : τ) : τ × List Ev := (Source.release (Source.get (afterS lim s)).1, drainS lim s)
def resumeS (fresh : Bool) (s : τ) : τ := if fresh then refresh s else s
def pagesS : τ → List (Bool × Nat) → List (List Ev)
  | _, [] => []
  | s, (f, lim) :: rest => (pageS lim (resumeS refresh f s)).2 :: pagesS (pageS lim (resumeS refresh f s)).1 rest

variable (hq : ∀ s, Q s → wf s) (hg : ∀ s, Q s → Q (Source.get s).1)
  (hn : ∀ s, Q s → settled s → Q (Source.next s)) (hr : ∀ s, Q s → Q (Source.release s))
  (hre : ∀ s, Q s → Q (refresh s) ∧ view (refresh s) = view s)
include hq hg hn hr hre

theorem readS : ∀ (k : Nat) (s : τ), Q s →
    drainS k s = (view s).take k ∧ Q (afterS k s) ∧ view (afterS k s) = (view s).drop k := by
  intro k
  induction k with
  | zero => intro s h; exact ⟨by simp [drainS], h, by simp [afterS]⟩
  | succ k ih =>
    intro s h
    obtain ⟨g1, g2, g3, _, g5⟩ := LawfulSource.get_spec s (hq s h)
    have gq := hg s h
    rw [drainS, afterS]
    generalize Source.get s = res at g1 g2 g3 g5 gq
    obtain ⟨s', r⟩ := res
    simp only at g1 g2 g3 g5 gq
    cases r with
    | none =>
      simp only
      have hnil : view s = [] := List.head?_eq_none_iff.mp g1.symm
      exact ⟨by simp [hnil], gq, by rw [g2, hnil]; simp⟩
    | some e =>
      simp only
      obtain ⟨nv, _, _⟩ := LawfulSource.next_spec s' g3 g5
      obtain ⟨i1, i2, i3⟩ := ih (Source.next s') (hn s' gq g5)
      have hcons : view s = e :: (view s).tail := by
        cases hv : view s with
        | nil => rw [hv] at g1; cases g1
        | cons x xs => rw [hv] at g1; simp at g1; simp [g1]
      refine ⟨?_, i2, ?_⟩
      · rw [i1, nv, g2]; conv => rhs; rw [hcons]
        simp
      · rw [i3, nv, g2]; conv => rhs; rw [hcons]
        simp

theorem pagesS_spec : ∀ (steps : List (Bool × Nat)) (s : τ), Q s →
    (pagesS refresh s steps).flatten = (view s).take (steps.map (·.2)).sum := by
  intro steps
  induction steps with
  | nil => intro s _; simp [pagesS]
  | cons st rest ih =>
    intro s h
    obtain ⟨f, lim⟩ := st
    have hres : Q (resumeS refresh f s) ∧ view (resumeS refresh f s) = view s := by
      cases f with
      | false => exact ⟨by simpa [resumeS] using h, by simp [resumeS]⟩
      | true => simpa [resumeS] using hre s h
    obtain ⟨r1, r2, r3⟩ := readS Q refresh hq hg hn hr hre lim _ hres.1
    obtain ⟨_, gv, _, _, _⟩ := LawfulSource.get_spec _ (hq _ r2)
    have gq := hg _ r2
    obtain ⟨rv, _, _, _⟩ := LawfulSource.release_spec _ (hq _ gq)
    have hrq := hr _ gq
    rw [pagesS, List.flatten_cons]
    have e1 : (pageS lim (resumeS refresh f s)).2 = (view s).take lim := by rw [← hres.2]; exact r1
    have e2 : view (pageS lim (resumeS refresh f s)).1 = (view s).drop lim := by
      show view (Source.release (Source.get (afterS lim (resumeS refresh f s))).1) = _
      rw [rv, gv, r3, hres.2]
    have hrq' : Q (pageS lim (resumeS refresh f s)).1 := hrq
    rw [ih _ hrq', e1, e2]
    simp only [List.map_cons, List.sum_cons]
    rw [List.take_add]

end srcchain

/-! ## the `fiterator` above a mixer tree -/
section filtered
variable {σ : Type} [Source σ] [LawfulSource σ] [Inhabited σ] (P : σ → Prop) (refresh : σ → σ)
variable (hg : ∀ s, P s → P (Source.get s).1) (hn : ∀ s, P s → P (Source.next s))
  (hr : ∀ s, P s → P (Source.release s))
  (hre : ∀ s, P s → P (refresh s) ∧ wf (refresh s) ∧ dir (refresh s) = false ∧ view (refresh s) = view s)

/-- invariant of a filtered merged cursor -/
def QF (f : FSrc (It σ)) : Prop := InvN P f.inner ∧ FSrc.fwf f
/-- a new `fiterator` over a new tree over fresh leaves at the exported positions -/
def refreshF (f : FSrc (It σ)) : FSrc (It σ) := ⟨resumeN refresh true f.inner, f.p, false, none⟩

include hg hn hr hre

theorem invN_get (t : It σ) (h : InvN P t) : InvN P t.get.1 ∧ t.get.1.settled := by
  obtain ⟨hw, hd, hp, l, t0, hb, hsh⟩ := h
  obtain ⟨_, _, gw, gd, gs⟩ := It.get_spec t hw
  have gk := get_keeps P hg hn hr t
  exact ⟨⟨gw, by rw [gd, hd], gk.2 hp, l, t0, hb, gk.1.trans hsh⟩, gs⟩

theorem invN_next (t : It σ) (h : InvN P t) (hs : t.settled) : InvN P t.next := by
  obtain ⟨hw, hd, hp, l, t0, hb, hsh⟩ := h
  obtain ⟨_, nw, nd⟩ := It.next_spec t hw hs
  have nk := next_keeps P hg hn hr t
  exact ⟨nw, by rw [nd, hd], nk.2 hp, l, t0, hb, nk.1.trans hsh⟩

theorem invN_release (t : It σ) (h : InvN P t) : InvN P t.release := by
  obtain ⟨hw, hd, hp, l, t0, hb, hsh⟩ := h
  obtain ⟨_, rw', rd, _⟩ := It.release_spec t hw
  have rk := release_keeps P hg hn hr t
  exact ⟨rw', by rw [rd, hd], rk.2 hp, l, t0, hb, rk.1.trans hsh⟩

theorem qf_getLoop : ∀ (n : Nat) (f : FSrc (It σ)), InvN P f.inner → InvN P (FSrc.getLoop n f).1.inner := by
  intro n
  induction n with
  | zero => intro f h; simpa [FSrc.getLoop] using h
  | succ n ih =>
    intro f h
    rw [FSrc.getLoop]
    by_cases hv : f.valid = true
    · simp only [hv, if_true]; exact h
    · simp only [hv, Bool.false_eq_true, if_false]
      obtain ⟨gi, gs⟩ := invN_get P refresh hg hn hr hre f.inner h
      have e : Source.get f.inner = f.inner.get := rfl
      rw [e]
      generalize f.inner.get = res at gi gs
      obtain ⟨i', r⟩ := res
      simp only at gi gs
      cases r with
      | none => exact gi
      | some ev =>
        simp only
        by_cases hp : f.p ev = true
        · simp only [hp, if_true]; exact gi
        · simp only [hp, Bool.false_eq_true, if_false]
          exact ih _ (invN_next P refresh hg hn hr hre i' gi gs)

/-- **paging over a filtered merged cursor of any number of sources**: the concatenated pages are the first Σ limits events
of the FILTER of the merged stream -/
theorem pagesF_spec (steps : List (Bool × Nat)) (f : FSrc (It σ)) (h : QF P f) :
    (pagesS (refreshF refresh) f steps).flatten = ((f.inner.view).filter f.p).take (steps.map (·.2)).sum := by
  have := pagesS_spec (QF P) (refreshF refresh) (fun s hs => hs.2)
    (fun s hs => ⟨qf_getLoop P refresh hg hn hr hre _ s hs.1, (LawfulSource.get_spec s hs.2).2.2.1⟩)
    (fun s hs hset => ⟨invN_next P refresh hg hn hr hre s.inner hs.1 hset.1, (LawfulSource.next_spec s hs.2 hset).2.1⟩)
    (fun s hs => ⟨invN_release P refresh hg hn hr hre s.inner hs.1, (LawfulSource.release_spec s hs.2).2.1⟩)
    (fun s hs => by
      obtain ⟨ri, rv⟩ := resumeN_keeps P refresh hg hn hr hre true s.inner hs.1
      refine ⟨⟨ri, ⟨ri.1, by intro h; cases h⟩⟩, ?_⟩
      show (It.view (resumeN refresh true s.inner)).filter s.p = (It.view s.inner).filter s.p
      rw [rv]) steps f h
  exact this

end filtered
end Logrange.MergeN
