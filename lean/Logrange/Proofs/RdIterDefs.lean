import Logrange.Model.RdQueryLoop
/-!
Shared definitions for the iterator proofs (C03/C16): effective position, well-formedness, the flat-index
abstraction in both directions, and the exact statements (`…Spec : Prop`) the lemma files prove.

`flatIdx j p` = number of records stored strictly before position `p` (RdJournal.lean). Forward, an iterator
stands at index `fIdx j it`; backward it stands *after* `bCount j it` records (it delivers record
`bCount - 1`, EOF when `bCount = 0`).
-/
namespace Logrange.Rd

/-- the position the iterator really stands at: the open chunk iterator wins over `pos` -/
def effPos (it : It) : Pos :=
  match it.ci with
  | some c => ⟨c.chunk, c.pos.toNat⟩
  | none => it.pos

/-- well-formed iterator state over journal `j` (either direction) -/
def WF (j : Journal) (it : It) : Prop :=
  match it.ci with
  | none => True
  | some c => c.chunk = it.cid ∧ (∃ ch ∈ j, ch.id = c.chunk) ∧ -1 ≤ c.pos ∧ c.pos ≤ (cntOf j c.chunk : Int) ∧
      (c.cached = true → 0 ≤ c.pos ∧ c.pos < (cntOf j c.chunk : Int))

/-- `pos` reports where the open chunk iterator stands (true after forward `ensure`/`next`; NOT after a
backward walk entered a chunk from the following one) -/
def Synced (it : It) : Prop :=
  match it.ci with
  | none => True
  | some c => 0 ≤ c.pos ∧ it.idx = c.pos.toNat

def fIdx (j : Journal) (it : It) : Nat := flatIdx j (effPos it)

/-- backward: number of records at or before the iterator's position -/
def bCount (j : Journal) (it : It) : Nat :=
  match it.ci with
  | some c => flatIdx j ⟨c.chunk, (c.pos + 1).toNat⟩
  | none => flatIdx j ⟨it.cid, it.idx + 1⟩

/-- the iterator sits on a record: chunk iterator open inside the chunk -/
def OnRecord (j : Journal) (it : It) : Prop :=
  ∃ c, it.ci = some c ∧ 0 ≤ c.pos ∧ c.pos < (cntOf j c.chunk : Int)

def PosIds (j : Journal) : Prop := ∀ c ∈ j, 0 < c.id

/-- `p` names an existing chunk and an index inside it or at its end -/
def Settled (j : Journal) (p : Pos) : Prop := ∃ c ∈ j, c.id = p.cid ∧ p.idx ≤ c.cnt

/-- drain forward: `get`, emit, `next`, until EOF or out of fuel -/
def drain (j : Journal) : Nat → It → List Rec
  | 0, _ => []
  | n + 1, it =>
    match get j it with
    | (it', some r) => r :: drain j n (next j it')
    | (_, none) => []

/-- the iterator after `k` rounds of `get; next` -/
def stepK (j : Journal) : Nat → It → It
  | 0, it => it
  | k + 1, it => stepK j k (next j (get j it).1)

/-! ## statements -/

def GetFwdSpec : Prop :=
  ∀ (j : Journal) (it : It), Sorted j → WF j it → it.bkwd = false →
    (get j it).2 = (flat j)[fIdx j it]? ∧
    WF j (get j it).1 ∧ (get j it).1.bkwd = false ∧
    fIdx j (get j it).1 = fIdx j it ∧
    (Synced it → Synced (get j it).1) ∧
    ((get j it).2.isSome → OnRecord j (get j it).1) ∧
    ((get j it).2 = none → (get j it).1.ci = none ∧ (j ≠ [] → Settled j (get j it).1.pos))

def NextFwdSpec : Prop :=
  ∀ (j : Journal) (it : It), Sorted j → WF j it → it.bkwd = false →
    WF j (next j it) ∧ (next j it).bkwd = false ∧ Synced (next j it) ∧
    fIdx j (next j it) = min (fIdx j it + 1) (flat j).length

def GetBwdSpec : Prop :=
  ∀ (j : Journal) (it : It), Sorted j → PosIds j → WF j it → it.bkwd = true →
    (get j it).2 = (if bCount j it = 0 then none else (flat j)[bCount j it - 1]?) ∧
    WF j (get j it).1 ∧ (get j it).1.bkwd = true ∧
    bCount j (get j it).1 = bCount j it ∧
    ((get j it).2.isSome → OnRecord j (get j it).1) ∧
    ((get j it).2 = none → (get j it).1.ci = none)

def NextBwdSpec : Prop :=
  ∀ (j : Journal) (it : It), Sorted j → PosIds j → WF j it → it.bkwd = true →
    WF j (next j it) ∧ (next j it).bkwd = true ∧
    bCount j (next j it) = bCount j it - 1

def GrowsSpec : Prop :=
  ∀ (j j' : Journal), Grows j j' → Sorted j' →
    (flat j) <+: (flat j') ∧
    (∀ p, Settled j p → flatIdx j' p = flatIdx j p ∧ Settled j' p) ∧
    (∀ it, WF j it → WF j' it)

end Logrange.Rd
