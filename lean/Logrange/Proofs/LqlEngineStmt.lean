import Logrange.Proofs.LqlLexNP
import Logrange.Proofs.LqlFuel
/-!
# C12: engine = direct parser at statement level — shared pieces

`optG`, `kwSeq`, `clause_none/nolit/lit` (guarded optional clause `("KW" @…)?`), `kwAlt`, `lqlBody` + `disj_skip`/`disj_hit`/`altRes`
(the dispatcher struct `Lql`), `run_lql`/`topRes`, `simSource` (struct `Source` at any cursor, with the third failure class
"a Tags token whose text tag.Parse rejects: matched, but the capture conversion fails"), and the worked example DELETE
(`lql_delete_eval`, `engine_direct_delete`). The other statement kinds are in `LqlEngineSelect.lean`, `LqlEngineTrunc.lean`, `LqlEngineMisc.lean`.
-/
namespace Logrange.Lql
open Logrange.Generated.C12

/-! ## generic pieces of the statement-level structs -/

/-- `( … )?` as grammar.go builds it from `[ … ]` / `( … )?`: an optional group around a once-group -/
def optG (n : Node) : Node := .group (.group n .once) .zeroOrOne

theorem parse_optG (c : Ctx) (f : Nat) (n : Node) (cur : Nat) : parse c (f+2) (optG n) cur =
    (match parse c f n cur with
     | .ok vals caps cur' => .ok vals caps cur'
     | .noMatch => .ok [] [] cur
     | .err k hv => if k > cur + lookahead then .err k hv else .ok (if hv then [.str []] else []) [] cur) := by
  simp only [optG, parse_opt, parse_once]; rfl

/-- `"KW" @…` -/
def kwSeq (kw : Bytes) (fl : String) (n : Node) : Node := .seq [(.lit kw), (.capture fl n)]

theorem kwSeq_none (c : Ctx) (kw : Bytes) (fl : String) (n : Node) (f cur : Nat) (hn : c.toks[cur]? = none) :
    parse c (f+3) (kwSeq kw fl n) cur = .noMatch := by
  simp only [kwSeq, parse_seq, parseSeq_cons, parse_lit, peek, hn, if_true]
theorem kwSeq_nolit (c : Ctx) (kw : Bytes) (fl : String) (n : Node) (f cur : Nat) (t : Tok) (hn : c.toks[cur]? = some t)
    (hc : litMatch t kw = false) : parse c (f+3) (kwSeq kw fl n) cur = .noMatch := by
  simp only [kwSeq, parse_seq, parseSeq_cons, parse_lit, peek, hn, hc, if_true, Bool.false_eq_true, if_false]
theorem kwSeq_lit (c : Ctx) (kw : Bytes) (fl : String) (n : Node) (f cur : Nat) (t : Tok) (hn : c.toks[cur]? = some t)
    (hc : litMatch t kw = true) :
    parse c (f+5) (kwSeq kw fl n) cur =
      (match parse c (f+1) n (cur+1) with
       | .ok v cp cur' => .ok [.str t.v, .str []] (cp ++ [(fl, v)]) cur'
       | .noMatch => .err (cur+1) true
       | .err k _ => .err k true) := by
  simp only [kwSeq, parse_seq, parseSeq_cons, parse_lit, parse_capture, peek, hn, hc, if_true]
  cases parse c (f+1) n (cur+1) <;> simp [parseSeq_nil]

/-- a guarded optional clause `("KW" @…)?`: skipped when the keyword is not there; once the keyword matched a soft failure
of the body is swallowed (the cursor stays in front of the keyword), a hard one propagates -/
theorem clause_none (c : Ctx) (kw : Bytes) (fl : String) (n : Node) (f cur : Nat) (hn : c.toks[cur]? = none) :
    parse c (f+5) (optG (kwSeq kw fl n)) cur = .ok [] [] cur := by
  rw [parse_optG, kwSeq_none c kw fl n f cur hn]
theorem clause_nolit (c : Ctx) (kw : Bytes) (fl : String) (n : Node) (f cur : Nat) (t : Tok) (hn : c.toks[cur]? = some t)
    (hc : litMatch t kw = false) : parse c (f+5) (optG (kwSeq kw fl n)) cur = .ok [] [] cur := by
  rw [parse_optG, kwSeq_nolit c kw fl n f cur t hn hc]
theorem clause_lit (c : Ctx) (kw : Bytes) (fl : String) (n : Node) (f cur : Nat) (t : Tok) (hn : c.toks[cur]? = some t)
    (hc : litMatch t kw = true) :
    parse c (f+7) (optG (kwSeq kw fl n)) cur =
      (match parse c (f+1) n (cur+1) with
       | .ok v cp cur' => .ok [.str t.v, .str []] (cp ++ [(fl, v)]) cur'
       | .noMatch => .ok [.str []] [] cur
       | .err k _ => if k > cur + lookahead then .err k true else .ok [.str []] [] cur) := by
  rw [parse_optG, kwSeq_lit c kw fl n f cur t hn hc]
  cases parse c (f+1) n (cur+1) <;> simp [lookahead]

/-- one alternative of `Lql`: `"KW" (@@)?` -/
def kwAlt (kw : Bytes) (fl S : String) : Node := .seq [(.lit kw), optG (.capture fl (.strct S))]

theorem kwAlt_nolit (c : Ctx) (kw : Bytes) (fl S : String) (f cur : Nat) (t : Tok) (hn : c.toks[cur]? = some t)
    (hc : litMatch t kw = false) : parse c (f+3) (kwAlt kw fl S) cur = .noMatch := by
  simp only [kwAlt, parse_seq, parseSeq_cons, parse_lit, peek, hn, hc, if_true, Bool.false_eq_true, if_false]
theorem kwAlt_lit (c : Ctx) (kw : Bytes) (fl S : String) (f cur : Nat) (t : Tok) (hn : c.toks[cur]? = some t)
    (hc : litMatch t kw = true) :
    parse c (f+7) (kwAlt kw fl S) cur =
      (match parse c (f+1) (.strct S) (cur+1) with
       | .ok v cp cur' => .ok [.str t.v, .str []] (cp ++ [(fl, v)]) cur'
       | .noMatch => .ok [.str t.v] [] (cur+1)
       | .err k _ => if k > cur + 1 + lookahead then .err k true else .ok [.str t.v, .str []] [] (cur+1)) := by
  simp only [kwAlt, parse_seq, parseSeq_cons, parse_lit, peek, hn, hc, if_true, parse_optG, parse_capture]
  cases parse c (f+1) (.strct S) (cur+1) with
  | ok v cp cur' => simp [parseSeq_nil]
  | noMatch => simp [parseSeq_nil]
  | err k hv => by_cases hk : k > cur + 1 + lookahead <;> simp [hk, parseSeq_nil]


/-! ## the statement dispatcher `Lql` -/
def lqlBody : Node := .group (.disj [kwAlt kwSELECT "Select" "Select", kwAlt kwDESCRIBE "Describe" "Describe",
  kwAlt kwTRUNCATE "Truncate" "Truncate", kwAlt kwSHOW "Show" "Show", kwAlt kwCREATE "Create" "Create",
  kwAlt kwDELETE "Delete" "Delete"]) .once
theorem g_lql : grammar "Lql" = some lqlBody := rfl

theorem disj_skip (c : Ctx) (cur : Nat) (t : Tok) (hn : c.toks[cur]? = some t) (kw : Bytes) (fl S : String) (rest : List Node)
    (f : Nat) (d : Option (Nat × Bool)) (hc : litMatch t kw = false) :
    parseDisj c (f+4) (kwAlt kw fl S :: rest) cur d = parseDisj c (f+3) rest cur d := by
  rw [parseDisj_cons, kwAlt_nolit c kw fl S f cur t hn hc]

/-- what the matching alternative `"KW" (@@)?` of `Lql` makes of the body struct's result -/
def altRes (name fl : String) (cur : Nat) (r : Res) : Res :=
  match r with
  | .ok v cp cur' => .ok [.node name (cp ++ [(fl, v)])] [] cur'
  | .noMatch => .ok [.node name []] [] (cur+1)
  | .err k _ => if k > cur + 1 + lookahead then .err k true else .ok [.node name []] [] (cur+1)

theorem disj_hit (c : Ctx) (cur : Nat) (t : Tok) (hn : c.toks[cur]? = some t) (kw : Bytes) (fl S : String) (rest : List Node)
    (f : Nat) (hc : litMatch t kw = true) :
    (match parseDisj c (f+8) (kwAlt kw fl S :: rest) cur none with
     | .ok _ caps cur' => Res.ok [.node "Lql" caps] [] cur'
     | .noMatch => .noMatch
     | .err k _ => .err k true) = altRes "Lql" fl cur (parse c (f+1) (.strct S) (cur+1)) := by
  rw [parseDisj_cons, kwAlt_lit c kw fl S f cur t hn hc]
  cases parse c (f+1) (.strct S) (cur+1) with
  | ok v cp cur' => simp [altRes]
  | noMatch => simp [altRes]
  | err k hv =>
    by_cases hk : k > cur + 1 + lookahead
    · have hk2 : k > cur + lookahead := by omega
      simp [altRes, hk, hk2]
    · simp [altRes, hk]


/-- `runEngine` on a statement whose first token matches exactly the DELETE alternative -/
def topRes (toks : List Tok) (r : Res) : Option Val :=
  match r with
  | .ok [v] _ cur => if cur == toks.length then some v else none
  | _ => none

theorem run_lql (toks : List Tok) : runEngine grammar "Lql" toks = topRes toks (parse ⟨toks, grammar⟩ (60 * toks.length + 200) (.strct "Lql") 0) := by
  unfold runEngine topRes
  rfl

theorem lql_delete_eval (t : Tok) (r : List Tok) (g : Nat)
    (h1 : litMatch t kwSELECT = false) (h2 : litMatch t kwDESCRIBE = false) (h3 : litMatch t kwTRUNCATE = false)
    (h4 : litMatch t kwSHOW = false) (h5 : litMatch t kwCREATE = false) (h6 : litMatch t kwDELETE = true) :
    parse ⟨t :: r, grammar⟩ (g + 30) (.strct "Lql") 0 = altRes "Lql" "Delete" 0 (parse ⟨t :: r, grammar⟩ (g+15) (.strct "Delete") 1) := by
  have hn : (⟨t :: r, grammar⟩ : Ctx).toks[0]? = some t := rfl
  rw [parse_strct _ _ "Lql" lqlBody 0 rfl]
  simp only [lqlBody, parse_once, parse_disj]
  rw [disj_skip _ 0 t hn _ _ _ _ (g+23) _ h1, disj_skip _ 0 t hn _ _ _ _ (g+22) _ h2, disj_skip _ 0 t hn _ _ _ _ (g+21) _ h3,
    disj_skip _ 0 t hn _ _ _ _ (g+20) _ h4, disj_skip _ 0 t hn _ _ _ _ (g+19) _ h5]
  exact disj_hit _ 0 t hn _ _ _ _ (g+14) h6


/-! ## DELETE -/
def deleteBody : Node := optG (kwSeq kwPIPE "PipeName" (.ref .ident))
theorem g_delete : grammar "Delete" = some deleteBody := rfl

theorem engine_direct_delete (dp : Bytes → Option Int) (ft : Nat) (t : Tok) (r : List Tok)
    (h1 : litMatch t kwSELECT = false) (h2 : litMatch t kwDESCRIBE = false) (h3 : litMatch t kwTRUNCATE = false)
    (h4 : litMatch t kwSHOW = false) (h5 : litMatch t kwCREATE = false) (h6 : litMatch t kwDELETE = true) :
    (runEngine grammar "Lql" (t :: r)).bind (toLqlChecked dp ft) = dDeleteRest r := by
  rw [run_lql]
  obtain ⟨g, hg⟩ : ∃ g, 60 * (t :: r).length + 200 = g + 30 := ⟨60 * (t :: r).length + 170, rfl⟩
  rw [hg, lql_delete_eval t r g h1 h2 h3 h4 h5 h6]
  rw [show g + 15 = (g + 14) + 1 from rfl, parse_strct _ _ "Delete" deleteBody 1 rfl, deleteBody]
  cases r with
  | nil =>
    have hn : (⟨[t], grammar⟩ : Ctx).toks[1]? = none := rfl
    rw [show g + 14 = (g + 9) + 5 from rfl, clause_none _ _ _ _ _ 1 hn]
    simp [altRes, topRes, dDeleteRest, toLqlChecked, toLql, optNode, optStr, fv, fieldVals, postCheck, hasEmptyRange]
  | cons p r1 =>
    have hn : (⟨t :: p :: r1, grammar⟩ : Ctx).toks[1]? = some p := rfl
    cases hp : litMatch p kwPIPE with
    | false =>
      rw [show g + 14 = (g + 9) + 5 from rfl, clause_nolit _ _ _ _ _ 1 p hn hp]
      cases r1 with
      | nil => simp [altRes, topRes, dDeleteRest]
      | cons n r2 => cases r2 <;> simp [altRes, topRes, dDeleteRest, hp]
    | true =>
      rw [show g + 14 = (g + 7) + 7 from rfl, clause_lit _ _ _ _ _ 1 p hn hp, parse_ref]
      cases r1 with
      | nil => simp [altRes, topRes, dDeleteRest, peek, lookahead]
      | cons n r2 =>
        have hn2 : (⟨t :: p :: n :: r2, grammar⟩ : Ctx).toks[1+1]? = some n := rfl
        simp only [peek, hn2]
        by_cases hi : n.t = TT.ident
        · cases r2 with
          | nil => simp [hi, altRes, topRes, dDeleteRest, hp, toLqlChecked, toLql, optNode, optStr, fv, fieldVals, strs, postCheck, hasEmptyRange]
          | cons x r3 => simp [hi, altRes, topRes, dDeleteRest, hp]
        · cases r2 with
          | nil => simp [hi, altRes, topRes, dDeleteRest, hp, lookahead]
          | cons x r3 => simp [hi, altRes, topRes, dDeleteRest, hp, lookahead]


/-! ## struct `Source` at any cursor -/
def RSource : Source → Val → Prop
  | .tags m, v => ∃ t, v = .node "Source" [("Tags", [.str t])] ∧ KV.tagParse t = some m
  | .expr e, v => ∃ ve, v = .node "Source" [("Expr", [ve])] ∧ RExpr e ve

def SimSource (c : Ctx) (cur : Nat) (r : Res) (d : PR Source) : Prop :=
  match d with
  | some (s, rest) => ∃ v cur', r = .ok [v] [] cur' ∧ RSource s v ∧ rest = c.toks.drop cur' ∧ cur < cur' ∧ cur' ≤ c.toks.length
  | none => (∃ k, r = .err k true ∧ cur ≤ k)
      ∨ (∃ v cur', r = .ok [v] [] cur' ∧ cur < cur' ∧ (litAt c cur' kwAND ∨ litAt c cur' kwOR))
      ∨ (∃ v, r = .ok [v] [] (cur+1) ∧ cur < c.toks.length ∧ ∀ ft, toSource ft v = none)

theorem convSource (s : Source) (v : Val) (ft : Nat) (hr : RSource s v) (hf : cvSource s ≤ ft) : toSource ft v = some s := by
  cases s with
  | tags m =>
    obtain ⟨t, rfl, ht⟩ := hr
    simp [toSource, fv, fieldVals, strs, ht]
  | expr e =>
    obtain ⟨ve, rfl, hre⟩ := hr
    simp [toSource, fv, fieldVals, convExpr e ve ft hre hf]

theorem simSource (c : Ctx) (hg : c.grammar = grammar) (hH : OperandNotParen c.toks) (cur : Nat) (hcl : cur ≤ c.toks.length)
    (fe fd : Nat) (hfe : 60 * (c.toks.length - cur) + 63 ≤ fe) (hfd : 4 * (c.toks.length - cur) + 5 ≤ fd) :
    SimSource c cur (parse c fe (.strct "Source") cur) (dSource fd (c.toks.drop cur)) := by
  obtain ⟨g, rfl⟩ : ∃ g, fe = g + 63 := ⟨fe - 63, by omega⟩
  have he := simExpr c hg hH _ cur (Nat.le_refl _) hcl (g+58) fd (by omega) hfd
  rw [parse_strct c _ "Source" sourceBody cur (by rw [hg]; rfl)]
  simp only [sourceBody, parse_disj, parseDisj_cons, parseDisj_nil, parse_capture, parse_ref, peek]
  cases hn : c.toks[cur]? with
  | none =>
    rw [drop_of_none hn] at he ⊢
    have hd : dExpr fd [] = none := by
      obtain ⟨f1, rfl⟩ : ∃ f, fd = f + 3 := ⟨fd - 3, by omega⟩
      simp [dExpr, dOr, dX]
    rw [hd] at he
    simp only [SimExpr] at he
    simp only [dSource, SimSource]
    rcases he with ⟨k, h, hk⟩ | ⟨v, cur', h, hlt, hst⟩
    · left; exact ⟨k, by by_cases hgt : k > cur + lookahead <;> simp [h, hgt], hk⟩
    · right; left; exact ⟨.node "Source" [("Expr", [v])], cur', by simp [h], hlt, hst⟩
  | some t =>
    have hlt := lt_of_get hn
    rw [drop_of_get hn] at he ⊢
    by_cases ht : t.t = TT.tags
    · simp only [dSource, ht, beq_self_eq_true, if_true]
      cases hp : KV.tagParse t.v with
      | none =>
        simp only [Option.map_none, SimSource]
        right; right
        exact ⟨.node "Source" [("Tags", [.str t.v])], by simp, hlt, fun ft => by simp [toSource, fv, fieldVals, strs, hp]⟩
      | some m =>
        simp only [Option.map_some, SimSource]
        exact ⟨.node "Source" [("Tags", [.str t.v])], cur+1, by simp, ⟨t.v, rfl, hp⟩, rfl, by omega, by omega⟩
    · have ht' : (t.t == TT.tags) = false := by simpa using ht
      simp only [dSource, ht', Bool.false_eq_true, if_false, ht]
      cases hd : dExpr fd (t :: c.toks.drop (cur+1)) with
      | none =>
        rw [hd] at he
        simp only [SimExpr] at he
        simp only [Option.map_none, SimSource]
        rcases he with ⟨k, h, hk⟩ | ⟨v, cur', h, hlt', hst⟩
        · left; exact ⟨k, by by_cases hgt : k > cur + lookahead <;> simp [h, hgt], hk⟩
        · right; left; exact ⟨.node "Source" [("Expr", [v])], cur', by simp [h], hlt', hst⟩
      | some res =>
        obtain ⟨e, rest⟩ := res
        rw [hd] at he
        obtain ⟨v, cur', h, hrel, hrest, h1, h2⟩ := he
        simp only [Option.map_some, SimSource]
        exact ⟨.node "Source" [("Expr", [v])], cur', by simp [h], ⟨v, rfl, hrel⟩, hrest, h1, h2⟩

end Logrange.Lql
