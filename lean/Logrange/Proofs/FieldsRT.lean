import Logrange.Proofs.Tags
import Logrange.Proofs.Quote
import Logrange.Proofs.FieldsKV
/-!
# The `Fields` round trips: `AsKVString` / `NewFieldsFromKVString` and pipe provenance (`field.Parse ∘ line`)
-/
namespace Logrange.Proofs.FieldsRT
open Go Logrange.Quote Logrange.KV Logrange.Tags Logrange.FieldsKV Logrange.Proofs.KV Logrange.Proofs.Tags
  Logrange.Proofs.Quote Logrange.Proofs.FieldsKV

/-! ## B. the loop of `NewFieldsFromKVString` on the pieces of a printed list -/

/-- one successful step of the loop -/
theorem fromKVLoop_step (v v' : Bytes) (rest r : List Bytes) (even : Bool)
    (hl : v.length ≤ maxLen) (ht : trimSpaces v = v) (hne : v ≠ [] ∨ even = false)
    (hd : decodeValue v = some v') (hl' : v'.length ≤ maxLen)
    (hr : fromKVLoop rest (!even) = some r) :
    fromKVLoop (v :: rest) even = some (v' :: r) := by
  have h1 : ¬ (v.length > maxLen) := Nat.not_lt.mpr hl
  have h2 : ¬ (v'.length > maxLen) := Nat.not_lt.mpr hl'
  have h3 : (v.isEmpty && even) = false := by
    rcases hne with h | h
    · cases v with
      | nil => exact absurd rfl h
      | cons c t => rfl
    · simp [h]
  simp only [fromKVLoop, ht, hd, hr, h1, h2, h3, decide_false, Bool.and_false, Bool.false_eq_true, if_false]

theorem fromKVLoop_items (enc : Bytes → Bytes) : ∀ (ps : List (Bytes × Bytes)),
    (∀ p ∈ ps, p.1 ≠ [] ∧ p.1.length ≤ maxLen ∧ (enc p.2).length ≤ maxLen ∧ p.2.length ≤ maxLen ∧
      trimSpaces p.1 = p.1 ∧ trimSpaces (enc p.2) = enc p.2 ∧ decodeValue p.1 = some p.1 ∧
      decodeValue (enc p.2) = some p.2) →
    fromKVLoop (ps.flatMap (fun p => [p.1, enc p.2])) true = some (ps.flatMap (fun p => [p.1, p.2])) := by
  intro ps
  induction ps with
  | nil => intro _; rfl
  | cons p r ih =>
    intro h
    obtain ⟨h1, h2, h3, h4, h5, h6, h7, h8⟩ := h p List.mem_cons_self
    have ih' := ih (fun x hx => h x (List.mem_cons_of_mem _ hx))
    simp only [List.flatMap_cons, List.cons_append, List.nil_append]
    apply fromKVLoop_step _ _ _ _ _ h2 h5 (Or.inl h1) h7 h2
    apply fromKVLoop_step _ _ _ _ _ h3 h6 (Or.inr rfl) h8 h4
    exact ih'

/-! ## the common core of C and E: `fromKVItems` on a printed list of pairs -/

theorem flat_length (enc : Bytes → Bytes) (m : List (Bytes × Bytes)) :
    (m.flatMap (fun p => [p.1, enc p.2])).length = 2 * m.length := by
  induction m with
  | nil => rfl
  | cons p r ih =>
    simp only [List.flatMap_cons, List.length_append, List.length_cons, List.length_nil, ih]
    omega

/-- variant of `joinItems_getLast` that allows an empty printed value (the item then ends with `=`) -/
theorem joinItems_getLast' (enc : Bytes → Bytes) (P : UInt8 → Prop) (hEQ : P EQ) :
    ∀ (m : List (Bytes × Bytes)), m ≠ [] →
    (∀ p ∈ m, enc p.2 = [] ∨ ∃ y, (enc p.2).getLast? = some y ∧ P y) →
    ∃ y, (joinItems (m.map (item enc))).getLast? = some y ∧ P y := by
  intro m
  induction m with
  | nil => intro h; exact absurd rfl h
  | cons p r ih =>
    intro _ hin
    cases r with
    | nil =>
      rcases hin p List.mem_cons_self with he | ⟨y, hy, hP⟩
      · refine ⟨EQ, ?_, hEQ⟩
        simp [joinItems, item, he]
      · refine ⟨y, ?_, hP⟩
        simp [joinItems, item, List.getLast?_cons, hy]
    | cons q r' =>
      obtain ⟨y, hy, hP⟩ := ih (by simp) (fun x hx => hin x (List.mem_cons_of_mem _ hx))
      refine ⟨y, ?_, hP⟩
      have e : joinItems ((p :: q :: r').map (item enc)) =
          item enc p ++ CM :: joinItems ((q :: r').map (item enc)) := by
        simp [joinItems]
      rw [e, List.getLast?_append, List.getLast?_cons, hy]
      simp

/-- `NewFieldsFromKVString` on a printed non-empty list of pairs whose names and printed values are readable -/
theorem fromKVItems_join (enc : Bytes → Bytes) (p : Bytes × Bytes) (r : List (Bytes × Bytes))
    (hfirst : p.1.head? ≠ some LB)
    (hkey : ∀ x ∈ p :: r, x.1 ≠ [] ∧ trimmed x.1 = true ∧ scan x.1 false = some false ∧
      decodeValue x.1 = some x.1 ∧ x.1.length ≤ maxLen)
    (hval : ∀ x ∈ p :: r, trimSpaces (enc x.2) = enc x.2 ∧ scan (enc x.2) false = some false ∧
      (enc x.2 = [] ∨ ∃ y, (enc x.2).getLast? = some y ∧ (y ≠ SP ∧ y ≠ RB)) ∧
      decodeValue (enc x.2) = some x.2 ∧ (enc x.2).length ≤ maxLen ∧ x.2.length ≤ maxLen) :
    fromKVItems (joinItems ((p :: r).map (item enc))) = some ((p :: r).flatMap (fun p => [p.1, p.2])) := by
  have hsplit := split_items enc (p :: r) [] (by simp)
    (fun x hx => ⟨(hkey x hx).2.2.1, (hval x hx).2.1⟩)
  have hloop := fromKVLoop_items enc (p :: r)
    (fun x hx => ⟨(hkey x hx).1, (hkey x hx).2.2.2.2, (hval x hx).2.2.2.2.1, (hval x hx).2.2.2.2.2,
      trimSpaces_of_trimmed _ (hkey x hx).2.1, (hval x hx).1, (hkey x hx).2.2.2.1, (hval x hx).2.2.2.1⟩)
  obtain ⟨y, hy, hy1, hy2⟩ := joinItems_getLast' enc (fun y => y ≠ SP ∧ y ≠ RB) (by decide) (p :: r) (by simp)
    (fun x hx => (hval x hx).2.2.1)
  obtain ⟨Y, hY⟩ := joinItems_cons_shape enc p r
  obtain ⟨hk1, hk2, _, _⟩ := hkey p List.mem_cons_self
  obtain ⟨c, k', hck⟩ : ∃ c k', p.1 = c :: k' := by
    cases h : p.1 with
    | nil => exact absurd h hk1
    | cons c k' => exact ⟨c, k', rfl⟩
  have hL : joinItems ((p :: r).map (item enc)) = c :: (k' ++ EQ :: Y) := by rw [hY, hck]; rfl
  have hc1 : c ≠ SP := by
    unfold trimmed at hk2; rw [hck] at hk2
    simp only [Bool.and_eq_true, bne_iff_ne, ne_eq] at hk2
    simpa using hk2.1
  have hc2 : c ≠ LB := by rw [hck] at hfirst; simpa using hfirst
  have hlen := flat_length enc (p :: r)
  generalize joinItems ((p :: r).map (item enc)) = L at *
  subst hL
  have hlast : (k' ++ EQ :: Y).getLast? = some y := by
    have e : (c :: (k' ++ EQ :: Y)).getLast? = (k' ++ EQ :: Y).getLast? := by
      cases k' <;> simp
    rw [← e]; exact hy
  have hrcb := removeCurlyBraces_id c (k' ++ EQ :: Y) y hc1 hc2 hlast hy1 hy2
  have hodd : ((List.flatMap (fun p => [p.1, enc p.2]) (p :: r)).length % 2 == 1) = false := by
    rw [hlen]; simp
  simp only [fromKVItems, splitString, hrcb, hsplit, List.reverse_nil, List.nil_append, hloop, hodd,
    List.isEmpty_cons, Bool.false_eq_true, if_false]

theorem decodeValue_raw (v : Bytes) (h1 : v.head? ≠ some DQ) (h2 : v.head? ≠ some BQ) :
    decodeValue v = some v := by
  cases v with
  | nil => rfl
  | cons c r =>
    have c1 : c ≠ DQ := by simpa using h1
    have c2 : c ≠ BQ := by simpa using h2
    simp [decodeValue, c1, c2]

/-! ## E. pipe provenance: `field.Parse` of a safe tag set's canonical line lists the set's pairs -/

theorem provenance_core (m : Map) (hwf : Map.WF m) (hs : safe m = true) (hf : fitsFields m = true) :
    fromKVItems (line m) = some (m.flatMap (fun p => [p.1, p.2])) := by
  rw [line_of_WF m hwf]
  cases m with
  | nil => rfl
  | cons p r =>
    have hall : ∀ x ∈ p :: r, safeKey x.1 = true ∧ (needsQuote x.2 || safeRaw x.2) = true := by
      intro x hx
      have := List.all_eq_true.mp hs x hx
      simpa [safePair] using this
    have hfit : ∀ x ∈ p :: r, x.1.length ≤ maxLen ∧ x.2.length ≤ maxLen ∧ (encTag x.2).length ≤ maxLen ∧
        x.1.head? ≠ some DQ ∧ x.1.head? ≠ some BQ := by
      intro x hx
      have := List.all_eq_true.mp hf x hx
      simp only [Bool.and_eq_true, bne_iff_ne, ne_eq, decide_eq_true_eq] at this
      obtain ⟨⟨⟨⟨h1, h2⟩, h3⟩, h4⟩, h5⟩ := this
      exact ⟨h1, h2, h3, h4, h5⟩
    have hkey : ∀ x ∈ p :: r, x.1 ≠ [] ∧ trimmed x.1 = true ∧ scan x.1 false = some false ∧
        x.1.head? ≠ some LB := by
      intro x hx
      have := (hall x hx).1
      unfold safeKey at this
      simp only [Bool.and_eq_true, bne_iff_ne, ne_eq, Bool.not_eq_true'] at this
      obtain ⟨⟨⟨h1, h2⟩, h3⟩, h4⟩ := this
      exact ⟨by intro e; simp [e] at h1, h2, by simpa [inert] using h3, h4⟩
    have hval := fun x hx => encTag_good quoteContract x.2 (hall x hx).2
    refine fromKVItems_join encTag p r (hkey p List.mem_cons_self).2.2.2 ?_ ?_
    · intro x hx
      obtain ⟨k1, k2, k3, _⟩ := hkey x hx
      obtain ⟨f1, _, _, f4, f5⟩ := hfit x hx
      exact ⟨k1, k2, k3, decodeValue_raw _ f4 f5, f1⟩
    · intro x hx
      obtain ⟨v1, v2, v3, v4⟩ := hval x hx
      obtain ⟨_, f2, f3, _, _⟩ := hfit x hx
      exact ⟨trimSpaces_of_trimmed _ v1, v2, Or.inr v3, v4, f3, f2⟩

/-! ## C. the `Fields` round trip on pairs -/

theorem encField_good (v : Bytes) (h : (needsQuoteF v || v.isEmpty || safeRaw v) = true) :
    trimSpaces (encField v) = encField v ∧ scan (encField v) false = some false ∧
      (encField v = [] ∨ ∃ y, (encField v).getLast? = some y ∧ (y ≠ SP ∧ y ≠ RB)) ∧
      decodeValue (encField v) = some v := by
  unfold encField
  by_cases hn : needsQuoteF v = true
  · simp only [hn, if_true]
    obtain ⟨body, hshape, _⟩ := quote_shape v
    have hin := inert_quote quoteContract v
    have hu := unquote_quote v
    unfold inert at hin
    rw [hshape] at hin hu ⊢
    simp only [List.cons_append] at hin hu ⊢
    refine ⟨trimSpaces_of_trimmed _ ?_, by simpa using hin, Or.inr ⟨DQ, ?_, by decide, by decide⟩, ?_⟩
    · simp [trimmed, List.getLast?_cons]
      decide
    · simp [List.getLast?_cons]
    · simp [decodeValue, hu]
  · simp only [hn, Bool.false_eq_true, if_false]
    by_cases he : v = []
    · subst he
      exact ⟨rfl, rfl, Or.inl rfl, rfl⟩
    · have hs : safeRaw v = true := by
        have : v.isEmpty = false := by cases v with
          | nil => exact absurd rfl he
          | cons _ _ => rfl
        simpa [hn, this] using h
      unfold safeRaw at hs
      simp only [Bool.and_eq_true, bne_iff_ne, ne_eq, Bool.not_eq_true'] at hs
      obtain ⟨⟨⟨⟨⟨h1, h2⟩, h3⟩, h4⟩, h5⟩, h6⟩ := hs
      refine ⟨trimSpaces_of_trimmed _ h2, by simpa [inert] using h3, Or.inr ?_, decodeValue_raw _ h4 h5⟩
      cases hl : v.getLast? with
      | none => simp at hl; exact absurd hl he
      | some y =>
        refine ⟨y, rfl, ?_, ?_⟩
        · intro e; subst e
          simp [trimmed, hl] at h2
        · intro e; subst e; exact h6 hl

theorem qsafeFieldPair_facts (first : Bool) (x : Bytes × Bytes)
    (h : qsafeFieldPairWith needsQuoteF first x = true) :
    x.1 ≠ [] ∧ trimmed x.1 = true ∧ scan x.1 false = some false ∧ (first = true → x.1.head? ≠ some LB) ∧
      decodeValue x.1 = some x.1 ∧ (needsQuoteF x.2 || x.2.isEmpty || safeRaw x.2) = true := by
  unfold qsafeFieldPairWith at h
  simp only [Bool.and_eq_true, bne_iff_ne, ne_eq, Bool.not_eq_true', Bool.or_eq_true] at h
  obtain ⟨⟨⟨⟨⟨⟨h1, h2⟩, h3⟩, h4⟩, h5⟩, h6⟩, h7⟩ := h
  refine ⟨by intro e; simp [e] at h1, h2, by simpa [inert] using h3, ?_, decodeValue_raw _ h5 h6, ?_⟩
  · intro hf
    rcases h4 with h4 | h4
    · rw [hf] at h4; cases h4
    · exact h4
  · simpa [Bool.or_eq_true] using h7

theorem fields_roundtrip_pairs (ps : List (Bytes × Bytes)) (hs : safeFields ps = true) :
    fromKVItems (kvText ps) = some (ps.flatMap (fun p => [p.1, p.2])) := by
  unfold kvText
  cases ps with
  | nil => rfl
  | cons p r =>
    unfold safeFields at hs
    rw [Bool.and_eq_true] at hs
    obtain ⟨hq, hl⟩ := hs
    have hq' : qsafeFieldPairWith needsQuoteF true p = true ∧
        ∀ x ∈ r, qsafeFieldPairWith needsQuoteF false x = true := by
      simp only [qsafeFields, qsafeFieldsWith, Bool.and_eq_true, List.all_eq_true] at hq
      exact hq
    have hfacts : ∀ x ∈ p :: r, ∃ first, qsafeFieldPairWith needsQuoteF first x = true := by
      intro x hx
      rcases List.mem_cons.mp hx with rfl | hx
      · exact ⟨true, hq'.1⟩
      · exact ⟨false, hq'.2 x hx⟩
    have hlen : ∀ x ∈ p :: r, x.1.length ≤ maxLen ∧ x.2.length ≤ maxLen ∧ (encField x.2).length ≤ maxLen := by
      intro x hx
      have := List.all_eq_true.mp hl x hx
      simp only [lenOK, Bool.and_eq_true, decide_eq_true_eq] at this
      exact ⟨this.1.1, this.1.2, this.2⟩
    refine fromKVItems_join encField p r ((qsafeFieldPair_facts true p hq'.1).2.2.2.1 rfl) ?_ ?_
    · intro x hx
      obtain ⟨first, hf⟩ := hfacts x hx
      obtain ⟨k1, k2, k3, _, k5, _⟩ := qsafeFieldPair_facts first x hf
      exact ⟨k1, k2, k3, k5, (hlen x hx).1⟩
    · intro x hx
      obtain ⟨first, hf⟩ := hfacts x hx
      obtain ⟨_, _, _, _, _, k6⟩ := qsafeFieldPair_facts first x hf
      obtain ⟨v1, v2, v3, v4⟩ := encField_good x.2 k6
      exact ⟨v1, v2, v3, v4, (hlen x hx).2.2, (hlen x hx).2.1⟩

/-! ## A. `AsKVString` on the encoding of a list of pairs -/

/-- one piece of the loop of `AsKVString` -/
theorem asKVLoop_piece (fuel : Nat) (k rest : Bytes) (even first : Bool) (acc : Bytes) (hk : k.length ≤ 255) :
    asKVLoop (fuel + 1) (UInt8.ofNat k.length :: (k ++ rest)) even first acc =
      asKVLoop fuel rest (!even) false
        (if even then (if first then acc else acc ++ [CM]) ++ k ++ [EQ] else acc ++ encField k) := by
  have h1 : ¬ ((k ++ rest).length < (UInt8.ofNat k.length).toNat) := by
    rw [toNat_ofNat_le _ hk, List.length_append]; omega
  have h2 : (k ++ rest).take (UInt8.ofNat k.length).toNat = k := by
    rw [toNat_ofNat_le _ hk]; exact List.take_left' rfl
  have h3 : (k ++ rest).drop (UInt8.ofNat k.length).toNat = rest := by
    rw [toNat_ofNat_le _ hk]; exact List.drop_left' rfl
  simp only [asKVLoop, h1, h2, h3, if_false]

theorem encodeItems_pair (p : Bytes × Bytes) (r : List (Bytes × Bytes)) :
    encodeItems ((p :: r).flatMap (fun p => [p.1, p.2])) =
      UInt8.ofNat p.1.length :: (p.1 ++ (UInt8.ofNat p.2.length ::
        (p.2 ++ encodeItems (r.flatMap (fun p => [p.1, p.2]))))) := by
  simp [encodeItems, encPiece]

/-- the text after the first pair: every further pair is preceded by the separator -/
def tailText (ps : List (Bytes × Bytes)) : Bytes := ps.flatMap (fun p => CM :: item encField p)

theorem kvText_cons (p : Bytes × Bytes) (r : List (Bytes × Bytes)) :
    kvText (p :: r) = item encField p ++ tailText r := by
  induction r generalizing p with
  | nil => simp [kvText, tailText, joinItems]
  | cons q r' ih =>
    have := ih q
    simp only [kvText, tailText, List.map_cons, joinItems, List.flatMap_cons] at this ⊢
    rw [this]
    simp

theorem asKVLoop_tail : ∀ (ps : List (Bytes × Bytes)) (fuel : Nat) (acc : Bytes),
    (∀ p ∈ ps, p.1.length ≤ 255 ∧ p.2.length ≤ 255) → 2 * ps.length ≤ fuel →
    asKVLoop fuel (encodeItems (ps.flatMap (fun p => [p.1, p.2]))) true false acc = .ok (acc ++ tailText ps) := by
  intro ps
  induction ps with
  | nil =>
    intro fuel acc _ _
    cases fuel <;> simp [encodeItems, asKVLoop, tailText]
  | cons p r ih =>
    intro fuel acc hlen hf
    obtain ⟨h1, h2⟩ := hlen p List.mem_cons_self
    match fuel, hf with
    | fuel + 2, hf =>
      rw [encodeItems_pair, asKVLoop_piece _ _ _ _ _ _ h1, Bool.not_true, asKVLoop_piece _ _ _ _ _ _ h2,
        Bool.not_false, ih fuel _ (fun x hx => hlen x (List.mem_cons_of_mem _ hx))
          (by simp only [List.length_cons] at hf; omega)]
      simp [tailText, item]

theorem asKV_encode (ps : List (Bytes × Bytes)) (hlen : ∀ p ∈ ps, p.1.length ≤ 255 ∧ p.2.length ≤ 255) :
    asKV (encodeItems (ps.flatMap (fun p => [p.1, p.2]))) = .ok (kvText ps) := by
  cases ps with
  | nil => rfl
  | cons p r =>
    obtain ⟨h1, h2⟩ := hlen p List.mem_cons_self
    have hfl : 2 * (p :: r).length ≤ (encodeItems ((p :: r).flatMap (fun p => [p.1, p.2]))).length := by
      refine Nat.le_trans ?_ (encodeItems_length _)
      exact Nat.le_of_eq (flat_length id (p :: r)).symm
    unfold asKV
    generalize hF : (encodeItems ((p :: r).flatMap (fun p => [p.1, p.2]))).length = F at hfl
    simp only [List.length_cons] at hfl
    match F, hfl with
    | F + 1, hfl =>
      rw [encodeItems_pair, asKVLoop_piece _ _ _ _ _ _ h1, Bool.not_true, asKVLoop_piece _ _ _ _ _ _ h2,
        Bool.not_false, asKVLoop_tail r F _ (fun x hx => hlen x (List.mem_cons_of_mem _ hx)) (by omega),
        kvText_cons]
      simp [item]

/-! ## D. the round trip on the binary encoding -/

theorem pairsOf_flat : ∀ (items : List Bytes), items.length % 2 = 0 →
    (pairsOf items).flatMap (fun p => [p.1, p.2]) = items
  | [], _ => rfl
  | [_], h => by simp at h
  | a :: b :: r, h => by
    have hr : r.length % 2 = 0 := by simp only [List.length_cons] at h; omega
    simp [pairsOf, pairsOf_flat r hr]

theorem maxLen_le : maxLen ≤ 255 := by decide

theorem safeFields_len (ps : List (Bytes × Bytes)) (hs : safeFields ps = true) :
    ∀ p ∈ ps, p.1.length ≤ 255 ∧ p.2.length ≤ 255 := by
  intro x hx
  unfold safeFields at hs
  rw [Bool.and_eq_true] at hs
  have := List.all_eq_true.mp hs.2 x hx
  simp only [lenOK, Bool.and_eq_true, decide_eq_true_eq] at this
  exact ⟨Nat.le_trans this.1.1 maxLen_le, Nat.le_trans this.1.2 maxLen_le⟩

theorem fields_roundtrip_core (items : List Bytes) (hev : items.length % 2 = 0)
    (hs : safeFields (pairsOf items) = true) :
    asKV (encodeItems items) = .ok (kvText (pairsOf items)) ∧
      fromKV (kvText (pairsOf items)) = some (encodeItems items) := by
  have hflat := pairsOf_flat items hev
  constructor
  · have := asKV_encode (pairsOf items) (safeFields_len _ hs)
    rw [hflat] at this
    exact this
  · unfold fromKV
    rw [fields_roundtrip_pairs _ hs, hflat]
    rfl

theorem decode_eq_encode : ∀ (fuel : Nat) (f : Bytes) (items : List Bytes),
    decodeItems fuel f = some items → f = encodeItems items := by
  intro fuel
  induction fuel with
  | zero =>
    intro f items h
    cases f with
    | nil => simp [decodeItems] at h; subst h; rfl
    | cons c t => simp [decodeItems] at h
  | succ fuel ih =>
    intro f items h
    cases f with
    | nil => simp [decodeItems] at h; subst h; rfl
    | cons n rest =>
      simp only [decodeItems] at h
      split at h
      · cases h
      · rename_i hlt
        cases hd : decodeItems fuel (rest.drop n.toNat) with
        | none => simp [hd] at h
        | some xs =>
          simp only [hd, Option.map_some, Option.some.injEq] at h
          subst h
          have e := ih _ _ hd
          have hl : (rest.take n.toNat).length = n.toNat := by
            rw [List.length_take]; omega
          simp only [encodeItems, List.flatMap_cons, encPiece, hl, UInt8.ofNat_toNat, List.cons_append]
          have e' : List.drop n.toNat rest = List.flatMap encPiece xs := e
          rw [← e', List.take_append_drop]

theorem fields_roundtrip_safeF (f : Bytes) (h : safeF f = true) : ∃ kv, asKV f = .ok kv ∧ fromKV kv = some f := by
  unfold safeF at h
  split at h
  · rename_i items hd
    rw [Bool.and_eq_true] at h
    have hev : items.length % 2 = 0 := by simpa using h.1
    have he := decode_eq_encode _ _ _ hd
    subst he
    exact ⟨kvText (pairsOf items), fields_roundtrip_core items hev h.2⟩
  · cases h

end Logrange.Proofs.FieldsRT
