import Logrange.Proofs.TagsTight
import Logrange.Proofs.ParsedKeys
import Logrange.Proofs.UnquoteFix
/-! Necessity of `safe` for one-pair sets: if the line of `{k: v}` reads back as `{k: v}` then the set is Safe -/
namespace Logrange.Proofs.TagsNecessity
open Go Logrange.Quote Logrange.KV Logrange.Tags Logrange.Proofs.KV Logrange.Proofs.Tags Logrange.Proofs.ParsedKeys
  Logrange.Proofs.UnquoteFix

/-! ### RemoveCurlyBraces -/

theorem leadScan_head : ∀ (s : Bytes) (cnt : Nat) (x : UInt8) (tl : Bytes) (c : Nat),
    leadScan s cnt = (x :: tl, c) → x ≠ SP ∧ x ≠ LB := by
  intro s
  induction s with
  | nil => intro cnt x tl c h; simp [leadScan] at h
  | cons a r ih =>
    intro cnt x tl c h
    unfold leadScan at h
    by_cases h1 : (a == SP) = true
    · rw [if_pos h1] at h; exact ih _ _ _ _ h
    · rw [if_neg h1] at h
      by_cases h2 : (a == LB) = true
      · rw [if_pos h2] at h; exact ih _ _ _ _ h
      · rw [if_neg h2] at h
        simp only [Prod.mk.injEq, List.cons.injEq] at h
        obtain ⟨⟨rfl, _⟩, _⟩ := h
        exact ⟨by simpa using h1, by simpa using h2⟩

theorem leadScan_id (x : UInt8) (tl : Bytes) (cnt : Nat) (h1 : x ≠ SP) (h2 : x ≠ LB) :
    leadScan (x :: tl) cnt = (x :: tl, cnt) := by
  simp [leadScan, h1, h2]

theorem rcb_head (t fine : Bytes) (h : removeCurlyBraces t = some fine) :
    fine = [] ∨ ∃ x tl, fine = x :: tl ∧ x ≠ SP ∧ x ≠ LB := by
  unfold removeCurlyBraces at h
  cases hl : leadScan t 0 with
  | mk r c =>
    rw [hl] at h
    cases r with
    | nil =>
      simp only [] at h
      split at h
      · cases h
      · cases h; exact Or.inl rfl
    | cons x tl =>
      simp only [] at h
      split at h
      · cases h
      · cases h
        exact Or.inr ⟨x, _, rfl, leadScan_head t 0 x tl c hl⟩

theorem trailScan_neg (r : Bytes) (n : Int) (h : n < 0) : trailScan r n = (r, n) := by
  cases r with
  | nil => rfl
  | cons c r => unfold trailScan; rw [if_neg (by omega)]

theorem trailScan_zero : ∀ (r rem : Bytes), trailScan r 0 = (rem, 0) →
    rem = r.dropWhile (· == SP) ∧ rem.head? ≠ some RB := by
  intro r
  induction r with
  | nil => intro rem h; simp [trailScan] at h; subst h; simp
  | cons c r ih =>
    intro rem h
    unfold trailScan at h
    rw [if_pos (by omega)] at h
    by_cases h1 : (c == SP) = true
    · rw [if_pos h1] at h
      obtain ⟨a, b⟩ := ih rem h
      refine ⟨?_, b⟩
      simp only [List.dropWhile_cons, h1, if_true]; exact a
    · rw [if_neg h1] at h
      by_cases h2 : (c == RB) = true
      · rw [if_pos h2, trailScan_neg r (0 - 1) (by omega)] at h
        simp only [Prod.mk.injEq] at h
        omega
      · rw [if_neg h2] at h
        simp only [Prod.mk.injEq, and_true] at h
        subst h
        refine ⟨?_, ?_⟩
        · simp only [List.dropWhile_cons, h1, Bool.false_eq_true, if_false]
        · simpa using h2

theorem dropWhile_append_stop (p : UInt8 → Bool) (y : UInt8) (b : Bytes) (hy : p y = false) :
    ∀ a : Bytes, (a ++ y :: b).dropWhile p = a.dropWhile p ++ y :: b := by
  intro a
  induction a with
  | nil => simp [List.dropWhile_cons_of_neg, hy]
  | cons c a ih =>
    by_cases hc : p c = true
    · simp [List.dropWhile_cons_of_pos, hc, ih]
    · simp [List.dropWhile_cons_of_neg, hc]

/-- the text without trailing blanks -/
def stripR (e : Bytes) : Bytes := (e.reverse.dropWhile (· == SP)).reverse

/-- `RemoveCurlyBraces` on `k=e` when `k` starts with neither a blank nor `{`: the trailing blanks of `e` go, nothing else;
it fails when the last non-blank byte of `e` is `}` -/
theorem rcb_key_eq (x : UInt8) (k' e fine : Bytes) (h1 : x ≠ SP) (h2 : x ≠ LB)
    (h : removeCurlyBraces (x :: k' ++ EQ :: e) = some fine) :
    fine = x :: k' ++ EQ :: stripR e ∧ (stripR e).getLast? ≠ some RB := by
  unfold removeCurlyBraces at h
  rw [List.cons_append, leadScan_id x _ 0 h1 h2] at h
  simp only [] at h
  cases ht : trailScan (k' ++ EQ :: e).reverse ((0 : Nat) : Int) with
  | mk rem cnt =>
    rw [ht] at h
    simp only [] at h
    split at h
    · cases h
    · rename_i hc
      cases h
      simp only [Bool.or_eq_true, bne_iff_ne, ne_eq, not_or, Decidable.not_not] at hc
      obtain ⟨_, hcnt⟩ := hc
      subst hcnt
      obtain ⟨hrem, hhd⟩ := trailScan_zero _ _ ht
      have hrev : (k' ++ EQ :: e).reverse = e.reverse ++ EQ :: k'.reverse := by simp
      rw [hrev, dropWhile_append_stop (· == SP) EQ k'.reverse (by decide)] at hrem
      subst hrem
      refine ⟨by simp [stripR], ?_⟩
      unfold stripR
      rw [List.getLast?_reverse]
      intro hl
      apply hhd
      cases hd : List.dropWhile (· == SP) e.reverse with
      | nil => rw [hd] at hl; cases hl
      | cons a r => rw [hd] at hl; simpa using hl

/-! ### SplitString -/

/-- the piece under construction starts with what is in `cur`, continued by a prefix of the input -/
theorem splitGo_cur_prefix : ∀ (n : Nat) (rest : Bytes), rest.length ≤ n → ∀ (s : SS) (parts : List Bytes),
    splitGo rest s = some parts →
    ∃ z more, parts = s.out.reverse ++ (s.cur.reverse ++ z) :: more ∧ z <+: rest := by
  intro n
  induction n with
  | zero =>
    intro rest hl s parts h
    have : rest = [] := List.eq_nil_of_length_eq_zero (by omega)
    subst this
    unfold splitGo at h
    split at h
    · cases h
    · cases h; exact ⟨[], [], by simp, List.prefix_refl _⟩
  | succ n ih =>
    intro rest hl s parts h
    match rest, hl, h with
    | [], _, h =>
      unfold splitGo at h
      split at h
      · cases h
      · cases h; exact ⟨[], [], by simp, List.prefix_refl _⟩
    | c :: r, hl, h =>
      simp only [List.length_cons] at hl
      rw [splitGo.eq_def] at h
      simp only [] at h
      by_cases hq : (c == DQ) = true
      · simp only [hq, if_true] at h
        obtain ⟨z, more, hp, hz⟩ := ih r (by omega) _ parts h
        exact ⟨c :: z, more, by simpa [List.append_assoc] using hp, List.cons_prefix_cons.mpr ⟨rfl, hz⟩⟩
      · simp only [hq, Bool.false_eq_true, if_false] at h
        by_cases hb : (c == BS && s.inStr) = true
        · simp only [hb, if_true] at h
          match r, hl, h with
          | [], _, h => cases h
          | d :: r', hl, h =>
            simp only [List.length_cons] at hl
            simp only [] at h
            obtain ⟨z, more, hp, hz⟩ := ih r' (by omega) _ parts h
            exact ⟨c :: d :: z, more, by simpa [List.append_assoc] using hp,
              List.cons_prefix_cons.mpr ⟨rfl, List.cons_prefix_cons.mpr ⟨rfl, hz⟩⟩⟩
        · simp only [hb, Bool.false_eq_true, if_false] at h
          by_cases hs : ((c == EQ || c == CM) && !s.inStr) = true
          · simp only [hs, if_true] at h
            split at h
            · cases h
            · obtain ⟨z, more, hp, _⟩ := ih r (by omega) _ parts h
              exact ⟨[], z :: more, by simpa [List.append_assoc] using hp, List.nil_prefix⟩
          · simp only [hs, Bool.false_eq_true, if_false] at h
            obtain ⟨z, more, hp, hz⟩ := ih r (by omega) _ parts h
            exact ⟨c :: z, more, by simpa [List.append_assoc] using hp, List.cons_prefix_cons.mpr ⟨rfl, hz⟩⟩

/-- a piece without separators on which `scan` fails makes the whole split fail -/
theorem split_scan_none : ∀ (n : Nat) (p : Bytes), p.length ≤ n → ∀ (b : Bool) (s : SS),
    (∀ x ∈ p, x ≠ EQ ∧ x ≠ CM) → scan p b = none → splitGo p { s with inStr := b } = none := by
  intro n
  induction n with
  | zero =>
    intro p hp b s _ h
    have : p = [] := List.eq_nil_of_length_eq_zero (by omega)
    subst this; simp [scan] at h
  | succ n ih =>
    intro p hp b s hns h
    match p, hp, hns, h with
    | [], _, _, h => simp [scan] at h
    | c :: p', hp, hns, h =>
      simp only [List.length_cons] at hp
      have hc := hns c List.mem_cons_self
      have hns' : ∀ x ∈ p', x ≠ EQ ∧ x ≠ CM := fun x hx => hns x (List.mem_cons_of_mem _ hx)
      unfold scan at h
      rw [splitGo.eq_def]
      simp only []
      by_cases hq : (c == DQ) = true
      · simp only [hq, if_true] at h ⊢
        exact ih p' (by omega) (!b) { s with cur := c :: s.cur } hns' h
      · simp only [hq, Bool.false_eq_true, if_false] at h ⊢
        by_cases hb : (c == BS && b) = true
        · simp only [hb, if_true] at h ⊢
          match p', hp, hns', h with
          | [], _, _, _ => rfl
          | d :: p'', hp, hns', h =>
            simp only [List.length_cons] at hp
            simp only [] at h ⊢
            have hbt : b = true := by simp at hb; exact hb.2
            subst hbt
            exact ih p'' (by omega) true { s with cur := d :: c :: s.cur }
              (fun x hx => hns' x (List.mem_cons_of_mem _ hx)) h
        · simp only [hb, Bool.false_eq_true, if_false] at h ⊢
          have hsep : ((c == EQ || c == CM) && !b) = false := by
            have h1 : (c == EQ) = false := by simpa using hc.1
            have h2 : (c == CM) = false := by simpa using hc.2
            simp [h1, h2]
          simp only [hsep, Bool.false_eq_true, if_false] at h ⊢
          exact ih p' (by omega) b { s with cur := c :: s.cur } hns' h

/-- the value piece of `k=e'` when `e'` holds no separator: the split succeeds only if `e'` is inert, and then the pieces
are `k` and `e'` -/
theorem split_key_nosep (k e' : Bytes) (parts : List Bytes) (hk : scan k false = some false)
    (hns : ∀ x ∈ e', x ≠ EQ ∧ x ≠ CM) (h : splitString (k ++ EQ :: e') = some parts) :
    scan e' false = some false ∧ parts = [k, e'] := by
  unfold splitString at h
  have hk' := split_key k e' [] hk
  have e0 : ({} : SS) = { inStr := false, expKV := true, cur := [], out := [] } := rfl
  rw [e0, hk'] at h
  cases hs : scan e' false with
  | none =>
    have := split_scan_none e'.length e' (Nat.le_refl _) false
      { inStr := false, expKV := false, cur := [], out := [k] } hns hs
    rw [this] at h; cases h
  | some b =>
    cases b with
    | true =>
      have := split_inert e' false true [] { inStr := false, expKV := false, cur := [], out := [k] } hs
      simp only [List.append_nil] at this
      rw [this, splitGo.eq_def] at h
      simp at h
    | false =>
      rw [split_end e' false [k] hs] at h
      cases h
      exact ⟨rfl, by simp⟩

/-! ### names of the result -/

theorem insert_has_key (k v : Bytes) : ∀ m : Map, ∃ v', (k, v') ∈ Map.insert k v m := by
  intro m
  induction m with
  | nil => exact ⟨v, by simp [Map.insert]⟩
  | cons q r ih =>
    obtain ⟨k', x⟩ := q
    unfold Map.insert
    by_cases h1 : bytesLt k k' = true
    · exact ⟨v, by simp [h1]⟩
    · by_cases h2 : k = k'
      · subst h2; exact ⟨v, by simp [h1]⟩
      · obtain ⟨v', hv⟩ := ih
        exact ⟨v', by simp [h1, h2, hv]⟩

theorem insert_keeps_key (k v k0 : Bytes) : ∀ m : Map, (∃ x, (k0, x) ∈ m) → ∃ x, (k0, x) ∈ Map.insert k v m := by
  intro m
  induction m with
  | nil => intro ⟨x, hx⟩; cases hx
  | cons q r ih =>
    intro ⟨x, hx⟩
    obtain ⟨k', y⟩ := q
    unfold Map.insert
    by_cases h1 : bytesLt k k' = true
    · exact ⟨x, by simp only [h1, if_true]; exact List.mem_cons_of_mem _ hx⟩
    · by_cases h2 : k = k'
      · subst h2
        simp only [h1, Bool.false_eq_true, if_false, if_true]
        rcases List.mem_cons.mp hx with hx | hx
        · simp only [Prod.mk.injEq] at hx
          exact ⟨v, by rw [hx.1]; exact List.mem_cons_self⟩
        · exact ⟨x, List.mem_cons_of_mem _ hx⟩
      · simp only [h1, h2, Bool.false_eq_true, if_false]
        rcases List.mem_cons.mp hx with hx | hx
        · exact ⟨x, by rw [hx]; exact List.mem_cons_self⟩
        · obtain ⟨x', hx'⟩ := ih ⟨x, hx⟩
          exact ⟨x', List.mem_cons_of_mem _ hx'⟩

theorem foldl_insert_keys (ps : List (Bytes × Bytes)) : ∀ (acc : Map) (k0 : Bytes),
    ((∃ x, (k0, x) ∈ acc) ∨ ∃ p ∈ ps, p.1 = k0) →
    ∃ x, (k0, x) ∈ ps.foldl (fun m p => Map.insert p.1 p.2 m) acc := by
  induction ps with
  | nil =>
    intro acc k0 h
    rcases h with h | ⟨p, hp, _⟩
    · exact h
    · cases hp
  | cons p ps ih =>
    intro acc k0 h
    simp only [List.foldl_cons]
    apply ih
    rcases h with h | ⟨q, hq, hk⟩
    · exact Or.inl (insert_keeps_key p.1 p.2 k0 acc h)
    · rcases List.mem_cons.mp hq with hq | hq
      · subst hq; subst hk; exact Or.inl (insert_has_key q.1 q.2 acc)
      · exact Or.inr ⟨q, hq, hk⟩

/-- every name of `ps` is a name of `Map.ofPairs ps` -/
theorem ofPairs_has_key (ps : List (Bytes × Bytes)) (p : Bytes × Bytes) (hp : p ∈ ps) :
    ∃ x, (p.1, x) ∈ Map.ofPairs ps :=
  foldl_insert_keys ps [] p.1 (Or.inr ⟨p, hp, rfl⟩)

theorem dropWhile_snoc_stop (p : UInt8 → Bool) (x : UInt8) (hx : p x = false) :
    ∀ l : Bytes, ∃ l', (l ++ [x]).dropWhile p = l' ++ [x] := by
  intro l
  induction l with
  | nil => exact ⟨[], by simp [hx]⟩
  | cons c l ih =>
    by_cases hc : p c = true
    · obtain ⟨l', h⟩ := ih
      exact ⟨l', by simp only [List.cons_append, List.dropWhile_cons, hc, if_true]; exact h⟩
    · exact ⟨c :: l, by simp only [List.cons_append, List.dropWhile_cons, hc, Bool.false_eq_true, if_false]⟩

theorem trimSpaces_head (x : UInt8) (z : Bytes) (hx : x ≠ SP) : (trimSpaces (x :: z)).head? = some x := by
  unfold trimSpaces
  have h1 : (x == SP) = false := by simpa using hx
  simp only [List.dropWhile_cons, h1, Bool.false_eq_true, if_false, List.reverse_cons]
  obtain ⟨l', h⟩ := dropWhile_snoc_stop (· == SP) x h1 z.reverse
  rw [h]; simp

/-- the first name of a parsed non-empty text starts with neither a blank nor `{` -/
theorem toMap_first_name (t : Bytes) (k v : Bytes) (h : toMap t = some [(k, v)]) : k.head? ≠ some LB := by
  unfold toMap at h
  cases hr : removeCurlyBraces t with
  | none => rw [hr] at h; cases h
  | some fine =>
    rw [hr] at h
    simp only [] at h
    split at h
    · cases h
    · cases hs : splitString fine with
      | none => rw [hs] at h; cases h
      | some parts =>
        rw [hs] at h
        simp only [] at h
        cases hp : toPairs parts with
        | none => rw [hp] at h; cases h
        | some ps =>
          rw [hp] at h
          simp only [Option.some.injEq] at h
          rcases rcb_head t fine hr with hf | ⟨x, tl, hf, hx1, hx2⟩
          · subst hf; rename_i hne; simp at hne
          · subst hf
            obtain ⟨z, more, hparts, hz⟩ := splitGo_cur_prefix _ (x :: tl) (Nat.le_refl _) {} parts hs
            simp only [List.reverse_nil, List.nil_append] at hparts
            subst hparts
            -- the first name is `trimSpaces z`
            match more, hp with
            | [], hp => simp [toPairs] at hp
            | q2 :: rest, hp =>
              simp only [toPairs] at hp
              split at hp
              · cases hp
              · rename_i hke
                cases hd : decodeValue (trimSpaces q2) with
                | none => rw [hd] at hp; cases hp
                | some v' =>
                  rw [hd] at hp
                  simp only [] at hp
                  cases hr2 : toPairs rest with
                  | none => rw [hr2] at hp; cases hp
                  | some r =>
                    rw [hr2] at hp
                    simp only [Option.some.injEq] at hp
                    subst hp
                    obtain ⟨xv, hmem⟩ := ofPairs_has_key ((trimSpaces z, v') :: r) (trimSpaces z, v') List.mem_cons_self
                    rw [h] at hmem
                    simp only [List.mem_singleton, Prod.mk.injEq] at hmem
                    have hk : trimSpaces z = k := hmem.1
                    cases z with
                    | nil => rw [← hk] at *; simp [trimSpaces] at hke
                    | cons y z' =>
                      have hy : y = x := by
                        have := List.cons_prefix_cons.mp hz
                        exact this.1
                      subst hy
                      rw [← hk, trimSpaces_head y z' hx1]
                      simpa using hx2

/-! ### the one-pair set -/

theorem line_singleton (k v : Bytes) : line [(k, v)] = k ++ EQ :: encTag v := by
  rw [line_of_WF _ (by simp [Map.WF])]; simp [joinItems, item]

theorem needsQuote_false (v : Bytes) (h : needsQuote v = false) : v ≠ [] ∧ ∀ x ∈ v, x ≠ EQ ∧ x ≠ CM := by
  unfold needsQuote at h
  simp only [Logrange.Generated.C08.tagQuoteEmpty, Logrange.Generated.C08.tagQuoteBytes, Bool.true_and, List.any_cons,
    List.any_nil, Bool.or_false, Bool.or_eq_false_iff] at h
  obtain ⟨h1, h2, h3⟩ := h
  refine ⟨by intro e; simp [e] at h1, ?_⟩
  intro x hx
  refine ⟨?_, ?_⟩
  · intro e; subst e
    have : v.contains EQ = true := by simpa using hx
    have e61 : (EQ : UInt8) = 61 := by decide
    rw [e61] at this; rw [this] at h3; cases h3
  · intro e; subst e
    have : v.contains CM = true := by simpa using hx
    have e44 : (CM : UInt8) = 44 := by decide
    rw [e44] at this; rw [this] at h2; cases h2

theorem stripR_subset (v : Bytes) : ∀ x ∈ stripR v, x ∈ v := by
  intro x hx
  unfold stripR at hx
  rw [List.mem_reverse] at hx
  have := (List.dropWhile_suffix (l := v.reverse) (· == SP)).subset hx
  simpa using this

theorem stripR_special_le (v : Bytes) : special (stripR v) ≤ special v := by
  unfold stripR
  rw [special_reverse]
  have := special_dropWhile_le (· == SP) v.reverse
  rw [special_reverse] at this
  exact this

theorem stripR_length_le (v : Bytes) : (stripR v).length ≤ v.length := by
  unfold stripR
  rw [List.length_reverse]
  have := (List.dropWhile_suffix (l := v.reverse) (· == SP)).length_le
  rw [List.length_reverse] at this
  exact this

theorem stripR_of_trimmed (v : Bytes) (h : trimmed v = true) : stripR v = v := by
  unfold trimmed at h
  simp only [Bool.and_eq_true, bne_iff_ne, ne_eq] at h
  unfold stripR
  rw [dropWhile_SP_of_head v.reverse (by rw [List.head?_reverse]; exact h.2), List.reverse_reverse]

/-- `Unquote w` is never `v` when `w` is no richer than `v` in backslashes/quotes and no longer -/
theorem unquote_shrunk_ne (w v : Bytes) (hs : special w ≤ special v) (hl : w.length ≤ v.length)
    (h : w.head? = some DQ ∨ w.head? = some BQ) : unquote w ≠ some v := by
  intro hu
  cases w with
  | nil => rcases h with h | h <;> cases h
  | cons c r =>
    rcases h with h | h
    · simp only [List.head?_cons, Option.some.injEq] at h
      subst h
      have := unquote_DQ_special r v hu
      omega
    · simp only [List.head?_cons, Option.some.injEq] at h
      subst h
      have := unquote_BQ_length r v hu
      omega

/-- **Necessity on one-pair sets**: if the line of `{k: v}` reads back as `{k: v}`, the set is Safe -/
theorem singleton_necessity (k v : Bytes) (h : parse (line [(k, v)]) = some [(k, v)]) : safe [(k, v)] = true := by
  obtain ⟨hk1, hk2, hk3⟩ := parsed_names_readable _ _ h (k, v) List.mem_cons_self
  simp only at hk1 hk2 hk3
  rw [line_singleton] at h
  obtain ⟨x, k', rfl⟩ : ∃ x k', k = x :: k' := by
    cases k with
    | nil => exact absurd rfl hk1
    | cons x k' => exact ⟨x, k', rfl⟩
  have ht : toMap (x :: k' ++ EQ :: encTag v) = some [(x :: k', v)] := by
    unfold parse at h
    simpa using h
  have hLB := toMap_first_name _ _ _ ht
  have hx2 : x ≠ LB := by simpa using hLB
  have hx1 : x ≠ SP := by
    unfold trimmed at hk2
    simp only [Bool.and_eq_true, bne_iff_ne, ne_eq, List.head?_cons, Option.some.injEq] at hk2
    exact hk2.1
  have hkey : safeKey (x :: k') = true := by
    unfold safeKey
    simp only [Bool.and_eq_true, bne_iff_ne, ne_eq, Bool.not_eq_true']
    exact ⟨⟨⟨rfl, hk2⟩, hk3⟩, hLB⟩
  by_cases hn : needsQuote v = true
  · simp [safe, safePair, hkey, hn]
  · have hn' : needsQuote v = false := by simpa using hn
    obtain ⟨hvne, hns⟩ := needsQuote_false v hn'
    have henc : encTag v = v := by unfold encTag; simp [hn']
    rw [henc] at ht
    unfold toMap at ht
    cases hr : removeCurlyBraces (x :: k' ++ EQ :: v) with
    | none => rw [hr] at ht; cases ht
    | some fine =>
      rw [hr] at ht
      obtain ⟨hfine, hlast⟩ := rcb_key_eq x k' v fine hx1 hx2 hr
      subst hfine
      simp only [List.cons_append, List.isEmpty_cons, Bool.false_eq_true, if_false] at ht
      cases hs : splitString (x :: (k' ++ EQ :: stripR v)) with
      | none => rw [hs] at ht; cases ht
      | some parts =>
        rw [hs] at ht
        simp only [] at ht
        have hk3' : scan (x :: k') false = some false := by simpa [inert] using hk3
        obtain ⟨hscan, hparts⟩ := split_key_nosep (x :: k') (stripR v) parts hk3'
          (fun y hy => hns y (stripR_subset v y hy)) (by simpa using hs)
        subst hparts
        simp only [toPairs, trimSpaces_of_trimmed _ hk2, List.isEmpty_cons, Bool.false_eq_true, if_false] at ht
        cases hd : decodeValue (trimSpaces (stripR v)) with
        | none => rw [hd] at ht; cases ht
        | some v' =>
          rw [hd] at ht
          simp only [Option.some.injEq] at ht
          have hv' : v' = v := by
            have : Map.ofPairs [(x :: k', v')] = [(x :: k', v')] := by simp [Map.ofPairs, Map.insert]
            rw [this] at ht
            simpa using ht
          subst hv'
          -- w = the trimmed value piece
          have hsw : special (trimSpaces (stripR v')) ≤ special v' :=
            Nat.le_trans (special_trimSpaces_le _) (stripR_special_le _)
          have hlw : (trimSpaces (stripR v')).length ≤ v'.length :=
            Nat.le_trans (length_trimSpaces_le _) (stripR_length_le _)
          have hw : trimSpaces (stripR v') = v' ∧ v'.head? ≠ some DQ ∧ v'.head? ≠ some BQ := by
            cases hwc : trimSpaces (stripR v') with
            | nil =>
              rw [hwc] at hd
              simp only [decodeValue, Option.some.injEq] at hd
              exact absurd hd.symm hvne
            | cons c r =>
              rw [hwc] at hd hsw hlw
              unfold decodeValue at hd
              simp only [] at hd
              split at hd
              · rename_i hq
                exfalso
                refine unquote_shrunk_ne (c :: r) v' hsw hlw ?_ hd
                simp only [Bool.or_eq_true, beq_iff_eq] at hq
                rcases hq with hq | hq
                · exact Or.inl (by simp [hq])
                · exact Or.inr (by simp [hq])
              · rename_i hq
                simp only [Option.some.injEq] at hd
                simp only [Bool.or_eq_true, beq_iff_eq, not_or] at hq
                refine ⟨hd, ?_, ?_⟩
                · rw [← hd]; simpa using hq.1
                · rw [← hd]; simpa using hq.2
          obtain ⟨hw1, hw2, hw3⟩ := hw
          have htr : trimmed v' = true := by rw [← hw1]; exact trimmed_trimSpaces _
          have hst : stripR v' = v' := stripR_of_trimmed v' htr
          rw [hst] at hscan hlast
          have hraw : safeRaw v' = true := by
            unfold safeRaw
            simp only [Bool.and_eq_true, bne_iff_ne, ne_eq, Bool.not_eq_true']
            refine ⟨⟨⟨⟨⟨?_, htr⟩, ?_⟩, hw2⟩, hw3⟩, hlast⟩
            · cases v' with
              | nil => exact absurd rfl hvne
              | cons _ _ => rfl
            · simp [inert, hscan]
          simp [safe, safePair, hkey, hraw]

end Logrange.Proofs.TagsNecessity
