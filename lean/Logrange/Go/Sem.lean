import Logrange.Go.Basic
/-!
# Go semantics prelude for the definitions emitted by `tools/go2lean`

Everything a *translated* definition (`Logrange/Translated/*.lean`, regenerated from `/repo` on every run) refers to
lives here; this file is the translator's trusted reading of Go (design-notes/translator.md, "trusted base"):

* `Res α` — how a Go function body can end: it returns (`ok`), it panics on a failed bounds check (`panic`), or the
  emitted loop ran out of its fuel (`outOfFuel`; the fuel expression is a guess of the translator, so running out is an
  explicit outcome and never silently truncates a loop).
* `string`, `[]byte` and named types over them are `Bytes = List UInt8`, `[]T` is `List T` (value semantics: aliasing of
  backing arrays is not modelled; the translator refuses element assignment and re-slicing of slices).
* `int` is `Int` (unbounded): sound as long as no intermediate `int` value leaves the int64 range — the equivalence
  theorems say for which inputs that is guaranteed. Sized integers are Lean's fixed-width types (`UInt8`, `UInt32`,
  `UInt64`, `Int64`, …), whose `+ - *` wrap exactly like Go's.
* `s[i]`, `s[lo:hi]` on strings are bounds-checked (`index`, `slice`) and give `panic` exactly when Go's run-time check
  fails (for strings the upper limit of a slice expression is `len`, there is no capacity).
* `error` is `Bool` (`true` = non-nil): error texts are not modelled.
-/
namespace Go.Sem

inductive Res (α : Type) where
  | ok (a : α)
  | panic
  | outOfFuel
  deriving Repr, DecidableEq

/-- sequencing of a sub-expression that can panic -/
@[simp] def bind {α β : Type} (x : Res α) (f : α → Res β) : Res β :=
  match x with
  | .ok a => f a
  | .panic => .panic
  | .outOfFuel => .outOfFuel

/-- Go's `error` as far as the translation keeps it: `true` = non-nil -/
abbrev Error := Bool

/-- `len(s)` as a Go `int` -/
@[reducible] def len {α : Type} (s : List α) : Int := (s.length : Int)

/-- `s[i]` with Go's bounds check -/
def index {α : Type} (s : List α) (i : Int) : Res α :=
  if 0 ≤ i then
    match s[i.toNat]? with
    | some x => .ok x
    | none => .panic
  else .panic

/-- `s[lo:hi]` on a string with Go's bounds check (`0 ≤ lo ≤ hi ≤ len(s)`) -/
def slice {α : Type} (s : List α) (lo hi : Int) : Res (List α) :=
  if 0 ≤ lo ∧ lo ≤ hi ∧ hi ≤ len s then .ok ((s.drop lo.toNat).take (hi.toNat - lo.toNat)) else .panic

/-- fuel for a loop whose guard compares two `int`s that move towards each other: their distance plus one -/
def dist (a b : Int) : Nat := (b - a).toNat + 1

/-! ## the two facts every equivalence proof starts from -/

theorem index_ok {α : Type} (s : List α) (i : Nat) (h : i < s.length) : index s (i : Int) = .ok s[i] := by
  simp [index, List.getElem?_eq_getElem h]

theorem index_panic_of_ge {α : Type} (s : List α) (i : Int) (h : len s ≤ i) : index s i = .panic := by
  unfold index
  split
  · have : s.length ≤ i.toNat := by simp [len] at h; omega
    simp [List.getElem?_eq_none this]
  · rfl

theorem index_panic_of_neg {α : Type} (s : List α) (i : Int) (h : i < 0) : index s i = .panic := by
  unfold index; simp; omega

theorem slice_ok {α : Type} (s : List α) (lo hi : Nat) (h1 : lo ≤ hi) (h2 : hi ≤ s.length) :
    slice s (lo : Int) (hi : Int) = .ok ((s.drop lo).take (hi - lo)) := by
  unfold slice len
  have : (0 : Int) ≤ lo ∧ (lo : Int) ≤ hi ∧ (hi : Int) ≤ s.length := by omega
  simp [this]

theorem slice_panic_of_gt {α : Type} (s : List α) (lo hi : Int) (h : len s < hi) : slice s lo hi = .panic := by
  unfold slice; simp; intro _ _; simp [len] at h ⊢; omega

end Go.Sem
