/-!
# Go basics shared by every model

`Bytes` is a Go `string` / `[]byte`: arbitrary bytes, not necessarily UTF-8. String comparison in Go
(`<`, `>=` on `string`) is byte-wise lexicographic: `bytesLt`.
-/

abbrev Bytes := List UInt8

namespace Go

/-- Go's `a < b` on strings. -/
def bytesLt : Bytes → Bytes → Bool
  | [], [] => false
  | [], _ :: _ => true
  | _ :: _, [] => false
  | a :: as, b :: bs => if a < b then true else if b < a then false else bytesLt as bs

/-- Go's `a <= b` on strings. -/
def bytesLe (a b : Bytes) : Bool := !bytesLt b a

theorem bytesLt_irrefl (a : Bytes) : bytesLt a a = false := by
  induction a with
  | nil => rfl
  | cons x xs ih => simp [bytesLt, ih]

theorem bytesLt_asymm : ∀ (a b : Bytes), bytesLt a b = true → bytesLt b a = false
  | [], [], h => by simp [bytesLt] at h
  | [], _ :: _, _ => by simp [bytesLt]
  | _ :: _, [], h => by simp [bytesLt] at h
  | x :: xs, y :: ys, h => by
    simp only [bytesLt] at h ⊢
    by_cases h1 : x < y
    · have : ¬ y < x := by
        intro h2; exact absurd (UInt8.lt_trans h1 h2) (UInt8.lt_irrefl x)
      simp [this, h1]
    · by_cases h2 : y < x
      · simp [h1, h2] at h
      · simp [h1, h2] at h ⊢
        exact bytesLt_asymm xs ys h

/-- trichotomy-style totality: one of `a < b`, `b < a`, or neither (then they are equal). -/
theorem bytesLt_connex : ∀ (a b : Bytes), bytesLt a b = false → bytesLt b a = false → a = b
  | [], [], _, _ => rfl
  | [], _ :: _, h, _ => by simp [bytesLt] at h
  | _ :: _, [], _, h => by simp [bytesLt] at h
  | x :: xs, y :: ys, h1, h2 => by
    simp only [bytesLt] at h1 h2
    by_cases hxy : x < y
    · simp [hxy] at h1
    · by_cases hyx : y < x
      · simp [hyx] at h2
      · simp [hxy, hyx] at h1 h2
        have : x = y := by
          have h3 : ¬ x.toNat < y.toNat := by simpa [UInt8.lt_iff_toNat_lt] using hxy
          have h4 : ¬ y.toNat < x.toNat := by simpa [UInt8.lt_iff_toNat_lt] using hyx
          apply UInt8.toNat_inj.mp; omega
        rw [this, bytesLt_connex xs ys h1 h2]

theorem bytesLt_trans : ∀ (a b c : Bytes), bytesLt a b = true → bytesLt b c = true → bytesLt a c = true
  | [], [], _, h, _ => by simp [bytesLt] at h
  | [], _ :: _, [], _, h => by simp [bytesLt] at h
  | [], _ :: _, _ :: _, _, _ => by simp [bytesLt]
  | _ :: _, [], _, h, _ => by simp [bytesLt] at h
  | _ :: _, _ :: _, [], _, h => by simp [bytesLt] at h
  | x :: xs, y :: ys, z :: zs, h1, h2 => by
    simp only [bytesLt] at h1 h2 ⊢
    have hx := @UInt8.lt_iff_toNat_lt x y
    have hy := @UInt8.lt_iff_toNat_lt y z
    have hz := @UInt8.lt_iff_toNat_lt x z
    have hx' := @UInt8.lt_iff_toNat_lt y x
    have hy' := @UInt8.lt_iff_toNat_lt z y
    have hz' := @UInt8.lt_iff_toNat_lt z x
    by_cases a1 : x < y
    · by_cases a2 : y < z
      · have : x < z := UInt8.lt_trans a1 a2
        simp [this]
      · by_cases a3 : z < y
        · simp [a2, a3] at h2
        · have : x < z := by rw [hz]; rw [hx] at a1; rw [hy] at a2; rw [hy'] at a3; omega
          simp [this]
    · by_cases a1' : y < x
      · simp [a1, a1'] at h1
      · simp [a1, a1'] at h1
        by_cases a2 : y < z
        · have : x < z := by rw [hz]; rw [hx] at a1; rw [hx'] at a1'; rw [hy] at a2; omega
          simp [this]
        · by_cases a3 : z < y
          · simp [a2, a3] at h2
          · simp [a2, a3] at h2
            have n1 : ¬ x < z := by rw [hz]; rw [hx] at a1; rw [hx'] at a1'; rw [hy] at a2; rw [hy'] at a3; omega
            have n2 : ¬ z < x := by rw [hz']; rw [hx] at a1; rw [hx'] at a1'; rw [hy] at a2; rw [hy'] at a3; omega
            simp [n1, n2]
            exact bytesLt_trans xs ys zs h1 h2

theorem bytesLe_refl (a : Bytes) : bytesLe a a = true := by simp [bytesLe, bytesLt_irrefl]

theorem bytesLe_total (a b : Bytes) : bytesLe a b = true ∨ bytesLe b a = true := by
  unfold bytesLe
  cases h : bytesLt b a with
  | false => simp
  | true => simp [bytesLt_asymm b a h]

theorem bytesLe_trans (a b c : Bytes) (h1 : bytesLe a b = true) (h2 : bytesLe b c = true) : bytesLe a c = true := by
  unfold bytesLe at *
  cases h : bytesLt c a with
  | false => rfl
  | true =>
    -- c < a, ¬ b < a, ¬ c < b
    simp at h1 h2
    cases hab : bytesLt a b with
    | true =>
      have := bytesLt_trans c a b h hab
      simp [this] at h2
    | false =>
      have e : a = b := bytesLt_connex a b hab h1
      subst e; simp [h] at h2

theorem bytesLe_antisymm (a b : Bytes) (h1 : bytesLe a b = true) (h2 : bytesLe b a = true) : a = b := by
  unfold bytesLe at *
  simp at h1 h2
  exact bytesLt_connex a b h2 h1

/-! ## hex transport used by the drivers ("-" = empty) -/

def hexDigitChar (n : Nat) : Char := if n < 10 then Char.ofNat (48 + n) else Char.ofNat (87 + n)

def hexVal (c : Char) : Nat :=
  if c.isDigit then c.toNat - 48 else if 'a' ≤ c ∧ c ≤ 'f' then c.toNat - 87
  else if 'A' ≤ c ∧ c ≤ 'F' then c.toNat - 55 else 0

def unhex (s : String) : Bytes :=
  let rec go : List Char → Bytes
    | a :: b :: r => UInt8.ofNat (hexVal a * 16 + hexVal b) :: go r
    | _ => []
  if s == "-" then [] else go s.toList

def hex (b : Bytes) : String :=
  if b.isEmpty then "-" else
  String.ofList (b.flatMap (fun x => [hexDigitChar (x.toNat / 16), hexDigitChar (x.toNat % 16)]))

def ofAscii (s : String) : Bytes := s.toList.map (fun c => UInt8.ofNat c.toNat)

end Go
