import Lean
/-!
`#audit_namespace Foo.Bar` prints, for every theorem declared directly in namespace `Foo.Bar` (programmatically
enumerated from the environment, so none can be forgotten), one line

  AUDIT <name> axioms=[a,b,…]

The check compares the axiom sets with {propext, Classical.choice, Quot.sound} and the names with the
list of obligations it expects.
-/
open Lean Elab Command

elab "#audit_namespace " ns:ident : command => do
  let env ← getEnv
  let nsName := ns.getId
  let mut names : Array Name := #[]
  for (n, ci) in env.constants.map₁.toList do
    if n.getPrefix == nsName && !n.isInternal then
      match ci with
      | .thmInfo _ => names := names.push n
      | _ => pure ()
  for (n, ci) in env.constants.map₂.toList do
    if n.getPrefix == nsName && !n.isInternal then
      match ci with
      | .thmInfo _ => names := names.push n
      | _ => pure ()
  let sorted := names.qsort (fun a b => a.toString < b.toString)
  for n in sorted do
    let axs ← Lean.collectAxioms n
    let axs := (axs.map (·.toString)).qsort (· < ·)
    logInfo m!"AUDIT {n} axioms=[{",".intercalate axs.toList}]"
