import Driver.Common
import Logrange.Model.Provider
import Logrange.Model.RingPtr
import Logrange.Generated.C15
/-! Model driver for C15 (cursor provider cache + CLElement ring). Requests:

* `reset <maxCurs> <idleTo> <busyTo>`          — empty provider with these knobs, clock 0
* `get <id> <query> <pos> <posOk 0|1> <kind ok|poserr|nosrc> <cache 0|1> <newCur> <newId>` — `GetOrCreate`, not interleaved
      → `refused` | `old <c>` | `new <c>` | `empty` | `error` | `nilderef`
* `lookup <id> <query> <pos> <posOk>`          → `refused|hit <c>|applyfail|miss|noid|nilderef` + ` id=<id to go on with>`
* `create <id> <query> <pos> <kind> <newCur> <newId>` → `cur <c>|empty|error`
* `insert <c>`                                 → `cached|laterefused`
* `release <c>`                                → `closed|idle|panic`
* `age <d>`, `sweept`, `sweeps`                → `ok` | `panic`
* `dump`                                       — the ring head first, map size, free pool
* `closed <c>`                                 → `<acquired> <closed> <closeCalls> <held 0|1>`
* `consts`                                     — the regenerated constants of NewProvider
* `ring.append <cle> <chain>`, `ring.tearoff <r> <e|nil>`, `ring.prev <r> <e>`, `ring.next <r> <e>`,
  `ring.nextfield <r> <e>`, `ring.len <r>`     — rings as comma lists, `-` = nil
* `pring <N> <op,op,…>`                        — POINTER level (`Model/RingPtr.lean`): `N` cells made by `NewCLElement`, then
      `A<x>:<y>` = `cell x .Append(cell y)`, `T<x>:<y>` = `cell x .TearOff(cell y)` (`y` = `-` is nil), any cells (misuse included:
      the model follows the statements of clist.go); answer: after every op `r=<returned cell|->` and every cell's
      `<next>.<prev>` fields, ops separated by `;`
-/
open Logrange Logrange.Provider Driver


def parseRing (s : String) : List Nat :=
  if s == "-" then [] else (s.splitOn ",").filterMap (·.toNat?)
def showRing (r : List Nat) : String :=
  if r.isEmpty then "-" else ",".intercalate (r.map toString)

def parseKind (s : String) : CreateKind :=
  if s == "poserr" then .posErr else if s == "nosrc" then .noSrc else .ok

def showLookup : LookupRes → String
  | .refused => "refused" | .hit c => s!"hit {c}" | .applyFail => "applyfail" | .miss => "miss" | .noId => "noid"
  | .nilDeref => "nilderef"
def showOutcome : Outcome → String
  | .refused => "refused" | .old c => s!"old {c}" | .new c => s!"new {c}" | .empty => "empty" | .error => "error"
  | .nilDeref => "nilderef"

def n (s : String) : Nat := s.toNat?.getD 0

def showPtr : RingPtr.Ptr → String
  | none => "-"
  | some e => toString e

/-- the pointer-level run of `pring` -/
def pringRun (cells : Nat) (ops : List String) : String :=
  let h0 := (List.range cells).foldl (fun h e => RingPtr.newElem h e) RingPtr.Heap.init
  let dumpH := fun (h : RingPtr.Heap) => " ".intercalate ((List.range cells).map (fun e => s!"{h.next e}.{h.prev e}"))
  let r := ops.foldl (fun (acc : RingPtr.Heap × List String) (op : String) =>
    let body := (op.drop 1).toString
    match body.splitOn ":" with
    | [x, y] =>
      let px : RingPtr.Ptr := some (n x)
      let py : RingPtr.Ptr := if y == "-" then none else some (n y)
      let res := if op.startsWith "A" then RingPtr.append acc.1 px py else RingPtr.tearOff acc.1 px py
      (res.1, s!"r={showPtr res.2} {dumpH res.1}" :: acc.2)
    | _ => (acc.1, "bad-op" :: acc.2)) (h0, [])
  ";".intercalate r.2.reverse

def step (s : St) (toks : List String) : St × String :=
  let chk := Logrange.Generated.C15.insertChecksExisting
  let byId := Logrange.Generated.C15.releaseLooksUpById
  match toks with
  | ["reset", m, i, b] => (init (n m) (Int.ofNat (n i)) (Int.ofNat (n b)), "ok")
  | ["get", id, q, pos, posOk, kind, cache, newCur, newId] =>
    let (s', o) := getOrCreate chk s (n id) (n q) (n pos) (posOk == "1") (parseKind kind) (cache == "1") (n newCur) (n newId)
    (s', showOutcome o)
  | ["lookup", id, q, pos, posOk] =>
    let (s', r, id') := lookup s (n id) (n q) (n pos) (posOk == "1")
    (s', s!"{showLookup r} id={id'}")
  | ["create", id, q, pos, kind, newCur, newId] =>
    let (s', r) := create s (n id) (n q) (n pos) (parseKind kind) (n newCur) (n newId)
    (s', match r with | .cur c => s!"cur {c}" | .empty => "empty" | .error => "error")
  | ["insert", c] =>
    let (s', r) := insert chk s (n c)
    (s', match r with | .cached => "cached" | .lateRefused => "laterefused")
  | ["release", c] =>
    let (s', r) := release byId s (n c)
    (s', match r with | .closed => "closed" | .idle => "idle" | .panic => "panic")
  | ["age", d] => (age s (Int.ofNat (n d)), "ok")
  | ["sweept"] =>
    let s' := sweepByTime { s with panicked := false }
    (s', if s'.panicked then "panic" else "ok")
  | ["sweeps"] =>
    let s' := sweepBySize { s with panicked := false }
    (s', if s'.panicked then "panic" else "ok")
  | ["dump"] => (s, dump s)
  | ["closed", c] =>
    let i := s.cursors (n c)
    (s, s!"{i.acquired} {i.closed} {i.closeCalls} {if i.held then 1 else 0}")
  | ["consts"] =>
    (s, s!"maxCurs={Logrange.Generated.C15.maxCurs} idleTo={Logrange.Generated.C15.idleToSec} busyTo={Logrange.Generated.C15.busyToSec} freeCap={Logrange.Generated.C15.freePoolCap} modelFreeCap={freePoolCap}")
  | ["ring.append", a, b] => (s, showRing (Ring.append (parseRing a) (parseRing b)))
  | ["ring.tearoff", r, e] => (s, showRing (Ring.tearOff (parseRing r) (if e == "nil" then none else some (n e))))
  | ["ring.prev", r, e] => (s, toString (Ring.prev (parseRing r) (n e)))
  | ["ring.next", r, e] => (s, toString (Ring.next (parseRing r) (n e)))
  | ["ring.nextfield", r, e] => (s, toString (Ring.nextField (parseRing r) (n e)))
  | ["ring.len", r] => (s, toString (Ring.len (parseRing r)))
  | ["pring", cells, ops] => (s, pringRun (n cells) (ops.splitOn ","))
  | _ => (s, "bad-op")

def main (args : List String) : IO Unit := Driver.run step (init 3 60 300) args
