import Driver.Common
import Logrange.Model.LineReader
import Logrange.Model.ScanWorker
import Logrange.Model.Descs
import Logrange.Model.ScanSync
import Logrange.Generated.C17
/-! Model driver for C17 (collector: line reader, parser offsets, scanner worker LTS, mergeDescs). Requests:

* `lr <B> <start> <piece>*`  — pieces: hex bytes (a chunk the source will return), `E` (the source reports EOF once),
  `X` (the context is cancelled while a Read runs). `readLine` is called until it answers "closed"; every `eof`
  is printed and the calls go on (the caller polls again; a partial line stays in the reader).
  Answer: `<hex line | eof>* closed:<pending hex> pos=<n>`.
* `sw <recsPerEvent> <0|1|code> <start> <label>*` — the worker LTS; labels `step r<hex> eof err send conf set wake
  stop cancel persist fpersist`. Answer: the observable fields of the final state.
* `merge2 <nOld> (<id> <offset> <size> <missed01>)* <nNew> (<id> <offset> <size> <restat|->)*` — `mergeDescs` with the
  one-scan grace as the code has it (regenerated `mergeKeepsMissedOneScan`); answers `id:offset:size:kept:missed` for the
  ids of the new scan, then for the old descriptors kept although the scan did not find them.
* `sync <r|s|m|o|c>*` — the scan / merge / open / check system of `Model/ScanSync.lean` from a fresh session (`init`) with
  the id check as the code has it (regenerated `workerOpenChecksFileId`); labels replace, scan, merge, open, check; answers
  `cur=<inode> hit=<01> workers=<key>:<opened|->:<offset0>,…` (descs then retired).
* `merge <nOld> (<id> <offset> <size>)* <nNew> (<id> <offset> <size> <restat|->)*` — `mergeDescs`; `restat` is what a
  second stat of the file answers (`-` = it fails or yields another id); answer per new descriptor
  `<id>:<offset>:<size>:<kept 0|1>`.
-/
open Go Driver Logrange.LineReader Logrange.ScanWorker Logrange.Descs

def parsePiece (t : String) : Piece :=
  if t == "E" then .eof else if t == "X" then .cancel else .data (unhex t)

def lrLoop (B : Nat) : Nat → Parser → List String → List String × Parser
  | 0, p, acc => (("oof" :: acc).reverse, p)
  | fuel+1, p, acc =>
    match readLine B p.lr with
    | (s', .line l) => lrLoop B fuel { lr := s', pos := p.pos + l.length } (hex l :: acc)
    | (s', .eof) => lrLoop B fuel { p with lr := s' } ("eof" :: acc)
    | (s', .closed) => ((s!"closed:{hex s'.pend}" :: acc).reverse, { p with lr := s' })
    | (s', .oof) => ((s!"oof:{hex s'.pend}" :: acc).reverse, { p with lr := s' })

def runLr (B start : Nat) (pieces : List Piece) : String :=
  let p := setStreamPos start pieces
  let fuel := measure pieces + pieces.length + 8
  let (outs, p') := lrLoop B fuel p []
  " ".intercalate outs ++ s!" pos={p'.pos}"

def parseLabel (t : String) : Option L :=
  if t == "step" then some .step
  else if t == "eof" then some (.next .eof)
  else if t == "err" then some (.next .err)
  else if t == "send" then some .send
  else if t == "conf" then some .confirm
  else if t == "set" then some .setOffset
  else if t == "wake" then some .wake
  else if t == "stop" then some .stopOnEOF
  else if t == "cancel" then some .cancel
  else if t == "persist" then some .persist
  else if t == "fpersist" then some .finalPersist
  else if t.startsWith "r" then some (.next (.record (unhex (t.drop 1).toString)))
  else none

def showPc : Pc → String
  | .top => "top" | .sampled _ => "sampled" | .got _ _ _ => "got" | .sending _ _ => "sending"
  | .confirming _ _ => "confirming" | .setting _ _ => "setting" | .sleeping _ _ => "sleeping"
  | .tail _ _ _ => "tail" | .done => "done"

def b01 (b : Bool) : String := if b then "1" else "0"

def showS (s : S) : String :=
  s!"pc={showPc s.pc} offset={s.offset} persisted={s.persisted} pos={s.pos} confirmed={bytesOf s.confirmed} " ++
  s!"events={s.ends.length} stoppedByEof={b01 s.stoppedByEof} eofSeen={b01 s.eofSeen} dropped={b01 s.dropped}"

def parseDescs : Nat → List String → List Desc × List String
  | 0, r => ([], r)
  | n+1, id :: off :: sz :: r =>
    let (ds, r') := parseDescs n r
    (⟨unhex id, off.toNat!, sz.toNat!, false⟩ :: ds, r')
  | _, r => ([], r)

/-- old descriptors with their `missed` flag (request `merge2`) -/
def parseDescsM : Nat → List String → List Desc × List String
  | 0, r => ([], r)
  | n+1, id :: off :: sz :: ms :: r =>
    let (ds, r') := parseDescsM n r
    (⟨unhex id, off.toNat!, sz.toNat!, ms == "1"⟩ :: ds, r')
  | _, r => ([], r)

/-- new descriptors carry what a second stat of the file would answer (`-` = it fails / another id) -/
def parseNewDescs : Nat → List String → List (Desc × Option Nat) × List String
  | 0, r => ([], r)
  | n+1, id :: off :: sz :: rs :: r =>
    let (ds, r') := parseNewDescs n r
    ((⟨unhex id, off.toNat!, sz.toNat!, false⟩, rs.toNat?) :: ds, r')
  | _, r => ([], r)

def step (_ : Unit) (toks : List String) : Unit × String :=
  match toks with
  | "lr" :: b :: start :: pieces => ((), runLr b.toNat! start.toNat! (pieces.map parsePiece))
  | "sw" :: k :: sb :: start :: labels =>
    let sample := if sb == "code" then Logrange.Generated.C17.stateSampledBeforeNextRecord else sb == "1"
    match labels.mapM parseLabel with
    | some ls =>
      ((), showS (run ⟨k.toNat!, sample, Logrange.Generated.C17.finalPersistAfterWorkersWait⟩ (init start.toNat!) ls))
    | none => ((), "bad-op")
  | "merge" :: nOld :: rest =>
    let (old, r1) := parseDescs nOld.toNat! rest
    match r1 with
    | nNew :: r2 =>
      let (new, _) := parseNewDescs nNew.toNat! r2
      let outs := (mergeDescs Logrange.Generated.C17.mergeRestatsAfterOffset old new).map (fun (d, k) => s!"{hex d.id}:{d.offset}:{d.lastSeenSize}:{b01 k}")
      ((), if outs.isEmpty then "-" else " ".intercalate outs)
    | [] => ((), "bad-op")
  | "sync" :: labels =>
    let ls : List Logrange.ScanSync.L := labels.filterMap (fun l =>
      if l == "r" then some .replace else if l == "s" then some .scan else if l == "m" then some .merge
      else if l == "o" then some .open else if l == "c" then some .check else none)
    let w := Logrange.ScanSync.run ⟨Logrange.Generated.C17.workerOpenChecksFileId⟩ Logrange.ScanSync.init ls
    let showD := fun (d : Logrange.ScanSync.D) =>
      s!"{d.key}:{match d.opened with | some o => toString o | none => "-"}:{d.offset0}"
    let ws := (Logrange.ScanSync.workers w).map showD
    ((), s!"cur={w.cur} hit={b01 w.hit} workers={",".intercalate ws}")
  | "merge2" :: nOld :: rest =>
    let (old, r1) := parseDescsM nOld.toNat! rest
    match r1 with
    | nNew :: r2 =>
      let (new, _) := parseNewDescs nNew.toNat! r2
      let outs := (mergeDescs Logrange.Generated.C17.mergeRestatsAfterOffset old new Logrange.Generated.C17.mergeKeepsMissedOneScan).map
        (fun (d, k) => s!"{hex d.id}:{d.offset}:{d.lastSeenSize}:{b01 k}:{b01 d.missed}")
      ((), if outs.isEmpty then "-" else " ".intercalate outs)
    | [] => ((), "bad-op")
  | _ => ((), "bad-op")

def main (args : List String) : IO Unit := Driver.run step () args
