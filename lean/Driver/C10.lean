import Driver.Common
import Logrange.Model.PipeLtsInc
import Logrange.Model.PipeLtsRep
import Logrange.Generated.C10
/-! Model driver for C10 (pipe LTS). Requests (byte strings hex, `-` = empty; an event is `<ts>:<msg>:<fields>`):

* `reset <n> <others 0|1> <flt>`   — `flt` = `true` | `contains:<hex>` | `ncontains:<hex>` | `tsgt:<int>` | `tslt:<int>` | `fldeq:<k>:<v>` | `fldne:<k>:<v>` (on the event's OWN fields, rendered k=v,k=v)
* `src <s> <listens 0|1> <prov>`   — tags of source `s` satisfy the source condition; its provenance fields
* `write <s> <ev>*`, `enqueue <i>`, `notify`, `wopen <s>`, `wcopy <s> <k>`, `wsave <s>`, `wtimeout <s>`, `wdone <s>`,
  `create`, `delete`, `shutdown`, `halt`, `restart`  → `ok` | `disabled`
* `cycle <s>`                      — `enqueue 0; notify; wopen; wcopy all; wsave; wtimeout; wdone` as far as enabled → `ok`
* `desc <s>`                       → `none` | `<pos> <lastKnown> <charged> <start> <stale> <wk>`
* `proj <s>` / `spec <s>`          → MODEL / SPEC content of the pipe partition copied from `s` (events)
* `dest`                           → `<s>=<ev>` list in stored order
* `recsize <msgLen> <ownFieldsLen> <provLen>` → `<size of the source record> <size of its copy>` (`recSize`, `addProv`)
* `quiescent`                      → `0|1`
* `pipe`                           → `absent|live|deleted reg=<0|1>` (the registry and the registry file)
* `cfg`                            → the configuration regenerated from the source
* `recreate`, `oldexit`            — the incarnation LTS (`Model/PipeLtsInc.lean`; every request above acts on the current
                                     incarnation): `CreatePipe` under the name of a deleted pipe; a leftover worker of a deleted
                                     incarnation goes away → `ok` | `disabled`
* `partition`                      → the pipe's partition over all incarnations (`base ++ cur.dest`), `<s>=<ev>` list
* `inc`                            → `gen=<recreations> old=<leftover workers>`
-/
open Go Logrange.PipeLts Logrange.PipeLts.Inc Driver

def cfgNow : Cfg :=
  { chanCap := Logrange.Generated.C10.weChanCap
    dropOnCreate := Logrange.Generated.C10.createDropsCache
    dropOnDelete := Logrange.Generated.C10.deleteDropsCache
    applyFilter := Logrange.Generated.C10.filterAppliedBySourceIterator
    rearm := Logrange.Generated.C10.workerDoneRearms
    saveOnCreate := Logrange.Generated.C10.createSavesRegistry
    saveOnDelete := Logrange.Generated.C10.deleteSavesRegistry
    saveOnShutdown := Logrange.Generated.C10.shutdownSavesRegistry
    startChecksPipe := Logrange.Generated.C10.startWorkerChecksPipeAlive }

def isInfix (needle : Bytes) : Bytes → Bool
  | [] => needle.isEmpty
  | x :: xs => needle.isPrefixOf (x :: xs) || isInfix needle xs

def splitOnByte (sep : UInt8) (b : Bytes) : List Bytes :=
  (b.foldr (fun x acc => if x == sep then [] :: acc else match acc with
    | [] => [[x]]
    | h :: t => (x :: h) :: t) [[]])

/-- value of the first pair named `k` in a field list rendered as `k=v,k=v` (the harness' values need no quoting) -/
def kvValue (fields k : Bytes) : Bytes :=
  let pairs := (splitOnByte 44 fields).filterMap (fun p =>
    match p.span (· != 61) with
    | (key, _ :: v) => some (key, v)
    | _ => none)
  match pairs.find? (fun kv => kv.1 == k) with
  | some kv => kv.2
  | none => []

def parseFlt (s : String) : Ev → Bool :=
  match s.splitOn ":" with
  | ["nand", h, v] => fun e => !(isInfix (unhex h) e.msg && decide (e.ts > v.toInt?.getD 0))
  | ["fldeq", k, v] => fun e => kvValue e.fields (unhex k) == unhex v
  | ["fldne", k, v] => fun e => kvValue e.fields (unhex k) != unhex v
  | ["contains", h] => fun e => isInfix (unhex h) e.msg
  | ["ncontains", h] => fun e => !isInfix (unhex h) e.msg
  | ["tsgt", v] => fun e => decide (e.ts > v.toInt?.getD 0)
  | ["tslt", v] => fun e => decide (e.ts < v.toInt?.getD 0)
  | _ => fun _ => true

def parseEv (s : String) : Ev :=
  match s.splitOn ":" with
  | [t, m, f] => ⟨t.toInt?.getD 0, unhex m, unhex f⟩
  | _ => default

def showEv (e : Ev) : String := s!"{e.ts}:{hex e.msg}:{hex e.fields}"
def showEvs (l : List Ev) : String := if l.isEmpty then "-" else " ".intercalate (l.map showEv)

def showWk : Wk → String
  | .none => "none"
  | .starting => "starting"
  | .opened c => s!"opened:{c}"
  | .written c => s!"written:{c}"
  | .finishing => "finishing"

def b01 (b : Bool) : String := if b then "1" else "0"

/-- the repairs of F79 / F10 as the extractor finds them in the source now: the driver runs the repaired LTS `stepR`, which
is the plain LTS on a tree without them -/
def rcNow : RCfg :=
  ⟨Logrange.Generated.C10.initCatchesUpLoadedPipes, Logrange.Generated.C10.firstNotificationPersistsDescriptor,
   Logrange.Generated.C10.writePublishesUnderPartitionLock⟩

def doStep (st : State) (l : Label) : State × String :=
  match stepR cfgNow rcNow st l with
  | some st' => (st', "ok")
  | none => (st, "disabled")

def tryStep (st : State) (l : Label) : State := (stepR cfgNow rcNow st l).getD st

def nat (s : String) : Nat := s.toNat?.getD 0

def icfgNow : ICfg :=
  ⟨Logrange.Generated.C10.deleteCleansUpBeforeAcknowledging, Logrange.Generated.C10.saveStateRefusesDeletedPipe⟩

def handleCur (st : State) (toks : List String) : State × String :=
  match toks with
  | ["reset", n, o, f] => (init (nat n) (fun _ => false) (fun _ => []) (parseFlt f) (o == "1"), "ok")
  | ["src", s, l, p] =>
    let σ := st.srcs (nat s)
    ({ st with srcs := upd st.srcs (nat s) { σ with listens := l == "1", prov := unhex p } }, "ok")
  | "write" :: s :: evs => doStep st (.write (nat s) (evs.map parseEv))
  | ["enqueue", i] => doStep st (.enqueue (nat i))
  | ["notify"] => doStep st .notify
  | ["wopen", s] => doStep st (.wopen (nat s))
  | ["wcopy", s, k] => doStep st (.wcopy (nat s) (nat k))
  | ["wsave", s] => doStep st (.wsave (nat s))
  | ["wtimeout", s] => doStep st (.wtimeout (nat s))
  | ["wdone", s] => doStep st (.wdone (nat s))
  | ["create"] => doStep st .create
  | ["delete"] => doStep st .delete
  | ["shutdown"] => doStep st .shutdown
  | ["halt"] => doStep st .halt
  | ["restart"] => doStep st .restart
  | ["cycle", s] =>
    let s := nat s
    let big := 1000000000
    let st := [Label.enqueue 0, .notify, .wopen s, .wcopy s big, .wsave s, .wtimeout s, .wdone s,
               -- a re-armed worker (data notified while the first one was finishing)
               .wopen s, .wcopy s big, .wsave s, .wtimeout s, .wdone s].foldl tryStep st
    (st, "ok")
  | ["desc", s] =>
    let σ := st.srcs (nat s)
    match σ.desc with
    | none => (st, "none")
    | some d => (st, s!"{d.pos} {d.lastKnown} {b01 d.charged} {d.start} {b01 d.stale} {showWk σ.wk}")
  | ["proj", s] => (st, showEvs (proj (nat s) st.dest))
  | ["spec", s] => (st, showEvs (specProj st (nat s)))
  | ["dest"] => (st, if st.dest.isEmpty then "-" else " ".intercalate (st.dest.map (fun x => s!"{x.1}={showEv x.2}")))
  | ["recsize", msgLen, ownLen, provLen] =>
    -- record size of a source event (message of msgLen bytes, own binary fields of ownLen bytes) and of its copy
    let e : Ev := ⟨0, List.replicate (nat msgLen) 120, List.replicate (nat ownLen) 1⟩
    let p : Bytes := List.replicate (nat provLen) 2
    (st, s!"{recSize e} {recSize (addProv p e)}")
  | ["quiescent"] => (st, b01 (quiescent st))
  | ["pipe"] => (st, (match st.pipe with | .absent => "absent" | .live => "live" | .deleted => "deleted") ++ " reg=" ++ b01 st.reg)
  | ["cfg"] => (st, s!"chanCap={cfgNow.chanCap} dropOnCreate={b01 cfgNow.dropOnCreate} dropOnDelete={b01 cfgNow.dropOnDelete} applyFilter={b01 cfgNow.applyFilter} rearm={b01 cfgNow.rearm} catchUpAtInit={b01 rcNow.catchUpAtInit} persistFirst={b01 rcNow.persistFirst} writeLock={b01 rcNow.writeLock}")
  | _ => (st, "bad-op")

def showDest (d : List (Nat × Ev)) : String :=
  if d.isEmpty then "-" else " ".intercalate (d.map (fun x => s!"{x.1}={showEv x.2}"))

def handle (ist : IState) (toks : List String) : IState × String :=
  match toks with
  | ["reset", _, _, _] =>
    let r := handleCur ist.cur toks
    ({ cur := r.1, base := [], old := 0, gen := 0 }, r.2)
  | ["recreate"] =>
    match istep cfgNow icfgNow ist .recreate with
    | some i => (i, "ok")
    | none => (ist, "disabled")
  | ["oldexit"] =>
    match istep cfgNow icfgNow ist .oldExit with
    | some i => (i, "ok")
    | none => (ist, "disabled")
  | ["halt"] =>
    match istep cfgNow icfgNow ist (.plain .halt) with
    | some i => (i, "ok")
    | none => (ist, "disabled")
  | ["partition"] => (ist, showDest (partition ist))
  | ["inc"] => (ist, s!"gen={ist.gen} old={ist.old}")
  | _ =>
    let r := handleCur ist.cur toks
    ({ ist with cur := r.1 }, r.2)

def main (args : List String) : IO Unit :=
  Driver.run handle (iinit 0 (fun _ => false) (fun _ => []) (fun _ => true) false) args
