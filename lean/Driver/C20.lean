import Driver.Common
/-! Model driver for C20 — not built yet. -/
def main (_args : List String) : IO Unit := pure ()
