import Driver.Common
import Logrange.Model.DateParser
import Logrange.Model.DateLineParser
import Logrange.Model.DateText
import Logrange.Model.DateFloat
import Logrange.Generated.C20
/-! Model driver for C20 (timestamp text → instant). Requests (byte strings hex, `-` = empty):

* `col <nowY> <nowM> <nowD> <text>`      — the collector's default parser (`date.KnownFormats`, regenerated)
* `lql <nowY> <nowM> <nowD> <text>`      — `parseLqlDateTime` (LQL list and switches regenerated)
* `lqlnl <nowY> <nowM> <nowD> <text>`    — the same with the format list seeing the text as written (the proposed repair F19a)
* `one <fmt> <nowY> <nowM> <nowD> <text>` — `date.NewParser(fmt).Parse(text)`
* `fmt <fmt>`                            — what `NewParser` derives from a format: layout, regexp text, flags
* `tparse <layout> <value>`              — `time.Parse(layout, value)` (Local = UTC)
* `tformat <layout> Y M D h m s ns wd`   — `time.Format` for the covered elements
* `find <regexp> <text>`                 — unanchored leftmost-first search, the matched substring
* `render col|lql <idx> Y M D h m s ns wd <fracDigits> <offMin> <zname>` — `renderLayout` of the list's format: the text the
  round-trip / first-match theorems are about (compared with Go's `time.Format` of the layout the format denotes)
* `reldur <numText> <unitNanos>`          — the IEEE model of `time.Duration(ParseFloat(num) * float64(unit))`: the nanoseconds subtracted from
  now (amd64 conversion), `err` = ParseFloat range error, `unsupported` = not `digits[.digits]`
* `lp.reset` / `lp.line <nowY> <nowM> <nowD> <line>` — a fresh collector line parser (default list) / its next line:
  `dated <idx> <civil>` | `carried <civil>` | `carried zero`, then ` | skip=<0|1> cnt=<n> maxskip=<n> cur=<i|->`

Answers: `ok <fmtIndex> Y M D h m s ns <instOff> <dispOff>` (instant = `time.Date(Y..ns, UTC)` − instOff seconds, shown at
dispOff), `err`, `unsupported <idx> <what>`; for lql also `rel <unit> <num> ELSE <answer>`, `const <k>`, `nano <n>`.
-/
open Go Logrange.Date Driver
namespace C20Driver

def gterms : List Term := Logrange.Generated.C20.terms
def colFmts : List CFormat := Logrange.Generated.C20.collectorFormats.map (compile gterms Logrange.Generated.C20.regexpLeftGuard)
def lqlFmts : List CFormat := Logrange.Generated.C20.lqlFormats.map (compile gterms Logrange.Generated.C20.regexpLeftGuard)
def gadj : Adjust := { year := Logrange.Generated.C20.formatParseAdjustsYear, date := Logrange.Generated.C20.formatParseAdjustsDate }
def gcfg : LqlCfg :=
  { lower := Logrange.Generated.C20.lqlLowerCases, trim := Logrange.Generated.C20.lqlTrimsBlanks,
    fmtLower := Logrange.Generated.C20.lqlLowerCases && Logrange.Generated.C20.lqlFormatsSeeLowerCased, adj := gadj }

def showCivil (c : Civil) : String :=
  let (io, d) : Int × Int := match c.zone with
    | .utc => (0, 0) | .dflt => (0, 0) | .offset o => (o, o) | .named _ d => (0, d)
  s!"{c.year} {c.month} {c.day} {c.hour} {c.min} {c.sec} {c.nsec} {io} {d}"

def showP : PRes → String
  | .ok i c => s!"ok {i} {showCivil c}"
  | .err => "err"
  | .unsupported i w => s!"unsupported {i} {w}"

def showL : LqlRes → String
  | .rel u num e =>
    -- NONNEG: the code takes the relative reading only when the number is not negative (and not NaN); the number itself is
    -- resolved by the harness with the real strconv.ParseFloat (the float contract's instance)
    s!"rel {u.toNat} {hex num} {if Logrange.Generated.C20.lqlRelativeRejectsNegative then "NONNEG " else ""}ELSE {showL e}"
  | .const k => s!"const {k}"
  | .abs i c => s!"ok {i} {showCivil c}"
  | .unixNano n => s!"nano {n}"
  | .err => "err"
  | .unsupported i w => s!"unsupported {i} {w}"

def nowOf (y m d : String) : Option Now :=
  match y.toInt?, m.toInt?, d.toInt? with
  | some y, some m, some d => some ⟨y, m, d⟩
  | _, _, _ => none

def b2s (b : Bool) : String := if b then "1" else "0"

def lpcfg : LPCfg :=
  { maxFail := Logrange.Generated.C20.lpMaxFailCnt, maxSkip0 := Logrange.Generated.C20.lpMaxSkipCnt,
    maxSkipOnDetect := Logrange.Generated.C20.lpMaxSkipCntOnDetect, skipCap := Logrange.Generated.C20.lpSkipCap,
    resetOnFast := Logrange.Generated.C20.lpResetsCountOnFastPath, resetOnDetect := Logrange.Generated.C20.lpResetsCountOnDetect,
    lastOnFast := Logrange.Generated.C20.lpSetsLastDateOnFastPath, lastOnDetect := Logrange.Generated.C20.lpSetsLastDateOnDetect }

def showLP (lp : LP) : String :=
  s!" | skip={b2s lp.skipping} cnt={lp.cnt} maxskip={lp.maxSkip} cur={match lp.cur with | some i => toString i | none => "-"}"

def showRec : LRec → String
  | .dated i c => s!"dated {i} {showCivil c}"
  | .carried (some c) => s!"carried {showCivil c}"
  | .carried none => "carried zero"

def stepU (toks : List String) : String :=
  match toks with
  | ["col", y, m, d, t] =>
    (match nowOf y m d with
     | some now => (showP (parseFirst gadj colFmts now (unhex t)))
     | none => ("bad-op"))
  | ["lql", y, m, d, t] =>
    (match nowOf y m d with
     | some now => (showL (parseLql gcfg lqlFmts now (unhex t)))
     | none => ("bad-op"))
  | ["lqlnl", y, m, d, t] =>
    (match nowOf y m d with
     | some now => (showL (parseLql { gcfg with fmtLower := false } lqlFmts now (unhex t)))
     | none => ("bad-op"))
  | ["one", f, y, m, d, t] =>
    (match nowOf y m d with
     | some now => (showP (parseFirst gadj [compile gterms Logrange.Generated.C20.regexpLeftGuard (unhex f)] now (unhex t)))
     | none => ("bad-op"))
  | ["fmt", f] =>
    let cf := compile gterms Logrange.Generated.C20.regexpLeftGuard (unhex f)
    (s!"layout={hex (dateMap gterms (unhex f))} rx={hex cf.rxText} loc={b2s cf.hasLocation} year={b2s cf.hasYear} nodate={b2s cf.noDate} guard={b2s cf.guard} rxok={b2s cf.rx.isSome} layok={b2s cf.layout.supported}")
  | ["tparse", l, v] =>
    (match timeParse (unhex l) (unhex v) with
     | .ok c => (s!"ok 0 {showCivil c}")
     | .err => ("err")
     | .unsupported => ("unsupported 0 2"))
  | ["tformat", l, y, mo, d, h, mi, s, ns, wd] =>
    (match y.toNat?, mo.toNat?, d.toNat?, h.toNat?, mi.toNat?, s.toNat?, ns.toNat?, wd.toNat? with
     | some y, some mo, some d, some h, some mi, some s, some ns, some wd =>
       (match formatLayout (Layout.ofBytes (unhex l)) ⟨y, mo, d, h, mi, s, ns, wd⟩ with
        | some b => (s!"text {hex b}")
        | none => ("none"))
     | _, _, _, _, _, _, _, _ => ("bad-op"))
  | ["render", lst, idx, y, mo, d, h, mi, s, ns, wd, fd, off, zn] =>
    (match idx.toNat?, y.toNat?, mo.toNat?, d.toNat?, h.toNat?, mi.toNat?, s.toNat?, ns.toNat?, wd.toNat?, fd.toNat?, off.toInt? with
     | some idx, some y, some mo, some d, some h, some mi, some s, some ns, some wd, some fd, some off =>
       (match (if lst == "col" then colFmts else lqlFmts)[idx]? with
        | some cf =>
          (match renderLayout cf.layout { year := y, month := mo, day := d, hour := h, min := mi, sec := s, nsec := ns, wd := wd,
                                          fracDigits := fd, offMin := off, zname := unhex zn } with
           | some b => s!"text {hex b}"
           | none => "none")
        | none => "none")
     | _, _, _, _, _, _, _, _, _, _, _ => "bad-op")
  | ["find", r, t] =>
    (match parseRegexp (unhex r) with
     | none => ("unsupported 0 1")
     | some rx =>
       match find rx (unhex t) with
       | some m => (s!"m {hex m}")
       | none => ("nomatch"))
  | ["reldur", t, m] =>
    (match m.toNat? with
     | some mult => relDurText (unhex t) mult
     | none => "bad-op")
  | _ => ("bad-op")

def step (lp : LP) (toks : List String) : LP × String :=
  match toks with
  | ["lp.reset"] => (LP.init lpcfg, "ok")
  | ["lp.line", y, m, d, t] =>
    (match nowOf y m d with
     | some now =>
       let (lp', r) := lpStep lpcfg gadj colFmts now lp (unhex t)
       (lp', showRec r ++ showLP lp')
     | none => (lp, "bad-op"))
  | _ => (lp, stepU toks)

end C20Driver

def main (args : List String) : IO Unit := Driver.run C20Driver.step (Logrange.Date.LP.init C20Driver.lpcfg) args
