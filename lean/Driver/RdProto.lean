import Driver.Common
import Logrange.Model.RdQueryLoop
import Logrange.Model.RdWindow
import Logrange.Generated.C03
/-!
Line protocol of the reading models (C03 paging, C16 offsets); shared by `lrmodel_c03` and `lrmodel_c16`.

Journals (the store): one partition = one `src` line.
* `reset`
* `src <name> <chunk>*`         chunk = `<cid>;<minPos>;<maxPos>;<rec>,<rec>…`, rec = `<lbl>/<ts>/<keep 0|1>`
                                 (replaces the journal of partition `name`; also refreshes it inside the open
                                 cursor, the stand-alone iterator and the server's held cursors)
Stand-alone journal iterator (library `journal.JIterator` or `partition.JIterator`):
* `it.new <name> lib|rng` · `it.get` → `<lbl>|eof` · `it.next` · `it.bkwd 0|1` · `it.release` ·
  `it.setpos <cid> <idx>` · `it.pos` → `<cid>:<idx>`
* `it.spec` → SPEC: labels of `recordsFrom journal pos` (what a forward drain must still deliver); for `rng`:
  `f|b <labels of rSpecDrain>` (what a drain in the iterator's direction must deliver) or `n/a` outside `RWF`
Cursor:
* `c.new <where 0|1> <min|none> <max|none> <ranged 0|1> <head|tail> <name>*`   (names in leaf order)
* `c.get` → `<lbl>|eof` · `c.next` · `c.offset <k>` · `c.bkwd 0|1` · `c.release` ·
  `c.state` → `<name>:<cid>:<idx>,…` (sorted by name) · `c.apply <name>:<cid>:<idx>,…` · `c.read <n>` → labels
Query loop / provider:
* `q.reset` · `q.sweep`
* `q.page <id> <qtext|none> <from all|n,n> <where> <min> <max> <ranged> <pos> <limit> <offset> <wait> <perm n,n|->`
     pos = `empty|head|tail|<name>:<cid>:<idx>,…` → `id=<id> q=<qtext|none> pos=<…> ev=<lbl,…|->`
Position text:
* `pos.show <cid> <idx>` → text · `pos.parse <text|->` → `<cid> <idx>` | `err`
-/
namespace Driver.Rd
open Logrange.Rd

structure DSt where
  store : List (Nat × Journal) := []
  itName : Nat := 0
  it : SrcIt := .lib {}
  cur : Cur := default
  srv : Server := {}

def parseRec (s : String) : Rec :=
  match s.splitOn "/" with
  | [l, t, k] => { lbl := l.toNat?.getD 0, ts := t.toInt?.getD 0, keep := k == "1" }
  | _ => { lbl := 0 }

def parseChunk (s : String) : Chunk :=
  match s.splitOn ";" with
  | [c, mn, mx, rs] =>
    { id := c.toNat?.getD 0, minPos := mn.toNat?.getD 0, maxPos := mx.toNat?.getD maxU32,
      recs := if rs == "" then [] else (rs.splitOn ",").map parseRec }
  | _ => { id := 0, recs := [] }

def setStore (st : List (Nat × Journal)) (n : Nat) (j : Journal) : List (Nat × Journal) :=
  if st.any (·.1 == n) then st.map (fun p => if p.1 == n then (n, j) else p) else st ++ [(n, j)]

def jOf (d : DSt) (n : Nat) : Journal := ((d.store.find? (·.1 == n)).map (·.2)).getD []

def labels (l : List Rec) : String := if l.isEmpty then "-" else ",".intercalate (l.map (fun r => toString r.lbl))
def optRec : Option Rec → String | some r => toString r.lbl | none => "eof"
def optI (s : String) : Option Int := if s == "none" then none else s.toInt?

def insertBy (x : Nat × Pos) : List (Nat × Pos) → List (Nat × Pos)
  | [] => [x]
  | y :: ys => if x.1 ≤ y.1 then x :: y :: ys else y :: insertBy x ys
def showPosMap (m : List (Nat × Pos)) : String :=
  ",".intercalate ((m.foldr insertBy []).map (fun p => s!"{p.1}:{p.2.cid}:{p.2.idx}"))
def parsePosMap (s : String) : List (Nat × Pos) :=
  (s.splitOn ",").filterMap (fun x => match x.splitOn ":" with
    | [n, c, i] => some (n.toNat?.getD 0, ⟨c.toNat?.getD 0, i.toNat?.getD 0⟩)
    | _ => none)
def parsePosText (s : String) : PosText :=
  if s == "empty" then .empty else if s == "head" then .head else if s == "tail" then .tail else .map (parsePosMap s)
def showPosText : PosText → String
  | .empty => "empty" | .head => "head" | .tail => "tail" | .map m => showPosMap m
def natList (s : String) : List Nat := if s == "-" || s == "" then [] else (s.splitOn ",").filterMap (·.toNat?)

def itGet (d : DSt) : DSt × Option Rec :=
  match d.it with
  | .lib it => let (it', r) := get (jOf d d.itName) it; ({ d with it := .lib it' }, r)
  | .rng it => let (it', r) := rGet (jOf d d.itName) it; ({ d with it := .rng it' }, r)

def itPos (d : DSt) : Pos := match d.it with | .lib it => it.pos | .rng it => it.pos

/-- effective position of the stand-alone library iterator (open chunk iterator wins over `pos`) -/
def effPos (it : It) : Pos :=
  match it.ci with
  | some c => ⟨c.chunk, c.pos.toNat⟩
  | none => it.pos

def step (d : DSt) (toks : List String) : DSt × String :=
  match toks with
  | ["reset"] => ({}, "ok")
  | "src" :: n :: chunks =>
    let name := n.toNat?.getD 0
    let j := chunks.map parseChunk
    let store := setStore d.store name j
    ({ d with store := store, cur := setJournals d.cur store,
              srv := { d.srv with store := store } }, "ok")
  | ["it.new", n, kind] =>
    ({ d with itName := n.toNat?.getD 0, it := if kind == "rng" then .rng {} else .lib {} }, "ok")
  | ["it.get"] => let (d, r) := itGet d; (d, optRec r)
  | ["it.next"] =>
    let j := jOf d d.itName
    ({ d with it := match d.it with | .lib it => .lib (next j it) | .rng it => .rng (rNext j it) }, "ok")
  | ["it.bkwd", b] =>
    ({ d with it := match d.it with | .lib it => .lib (setBackward it (b == "1")) | .rng it => .rng (rSetBackward it (b == "1")) }, "ok")
  | ["it.release"] =>
    ({ d with it := match d.it with | .lib it => .lib (release it) | .rng it => .rng (rRelease it) }, "ok")
  | ["it.setpos", c, i] =>
    let p : Pos := ⟨c.toNat?.getD 0, i.toNat?.getD 0⟩
    let j := jOf d d.itName
    ({ d with it := match d.it with | .lib it => .lib (setPos j it p) | .rng it => .rng (rSetPos j it p) }, "ok")
  | ["it.pos"] => let p := itPos d; (d, s!"{p.cid}:{p.idx}")
  | ["it.spec"] =>
    (match d.it with
     | .lib it => (d, labels (recordsFrom (jOf d d.itName) (effPos it)))
     | .rng it =>
       -- ranged: the abstraction-level prediction of the theorems (`ranged_drain_is_spec`): the admitted records from
       -- the iterator's index on (forward) / at or before its position in reverse (backward); `n/a` when the state
       -- is outside `RWF` (status cache stale after the journal grew, chunk iterator moved out of its window by SetPos)
       let j := jOf d d.itName
       (d, if rwfB j it then (if it.bkwd then "b " else "f ") ++ labels (rSpecDrain j it) else "n/a"))
  | "c.new" :: w :: mn :: mx :: rg :: corner :: names =>
    let ranged := rg == "1"
    let srcs : List Src := names.map (fun n =>
      let name := n.toNat?.getD 0
      { name := name, jrnl := jOf d name, it := if ranged then .rng {} else .lib {} })
    let c := mkCur srcs (w == "1") (optI mn) (optI mx) ranged
    ({ d with cur := applyCorner c (corner == "tail") }, "ok")
  | ["c.get"] => let (c, r) := curGet d.cur; ({ d with cur := c }, optRec r)
  | ["c.next"] => ({ d with cur := curNext d.cur }, "ok")
  | ["c.offset", k] => ({ d with cur := offset d.cur (k.toInt?.getD 0) }, "ok")
  | ["c.bkwd", b] => ({ d with cur := curSetBackward d.cur (b == "1") }, "ok")
  | ["c.release"] => ({ d with cur := curRelease d.cur }, "ok")
  | ["c.state"] => let (c, m) := curState d.cur; ({ d with cur := c }, showPosMap m)
  | ["c.apply", m] => ({ d with cur := applyStatePos d.cur (parsePosMap m) }, "ok")
  | ["c.read", n] =>
    let (c, evs) := readLoop (n.toNat?.getD 0) d.cur []
    ({ d with cur := c }, labels evs)
  | ["q.reset"] => ({ d with srv := { store := d.store } }, "ok")
  | ["q.sweep"] => ({ d with srv := { d.srv with held := [] } }, "ok")
  | ["q.page", id, qt, from_, w, mn, mx, rg, pos, lim, off, wait, perm] =>
    let q : Option Qry := if qt == "none" then none else
      some { text := qt.toNat?.getD 0, from_ := if from_ == "all" then none else some (natList from_),
             where_ := w == "1", minTs := optI mn, maxTs := optI mx, ranged := rg == "1" }
    let req : Req := { id := id.toNat?.getD 0, query := q, pos := parsePosText pos, limit := lim.toNat?.getD 0,
                       offset := off.toInt?.getD 0, wait := wait == "1" }
    -- `perm` (the leaf order the harness observed) is no longer an input: `newCursor` sorts its sources
    let (srv, pg) := query Logrange.Generated.C03.queryMaxLimit { d.srv with store := d.store } req
    let qs := match pg.next.query with | some q => toString q.text | none => "none"
    ({ d with srv := srv }, s!"id={pg.next.id} q={qs} pos={showPosText pg.next.pos} limit={pg.next.limit} ev={labels pg.events}")
  | ["pos.show", c, i] =>
    (d, String.ofList (showPosW Logrange.Generated.C03.posCidWidth Logrange.Generated.C03.posIdxWidth
          ⟨c.toNat?.getD 0, i.toNat?.getD 0⟩))
  | ["pos.parse", t] =>
    let s := if t == "-" then [] else t.toList
    (match parsePosW Logrange.Generated.C03.posParseCut
            (Logrange.Generated.C03.posParseLen - Logrange.Generated.C03.posParseCut) s with
     | some p => (d, s!"{p.cid} {p.idx}")
     | none => (d, "err"))
  | _ => (d, "bad-op")

end Driver.Rd
