import Driver.Common
import Logrange.Model.FieldsKV
import Logrange.Model.TagsW
/-! Model driver for C08 (tag lines and field lists). Stateless; one request per line (`safe`/`qsafe` bits are the
class predicates of the open findings, evaluated with the PINNED quoting triggers):

* `quote <s>` → `<hex>`; `unquote <s>` → `ok <hex>` | `err`
* `rcb <s>` / `split <s>` → `ok <hex>*` | `err`; `trim <s>` → `<hex>`
* `parse <text>` → `ok <k> <v> …` (sorted by key) | `err`          (`tag.Parse`, the map)
* `line <k> <v> …` → `<hex>`                                        (`tagMap.line()` over this iteration order)
* `rt <text>` → `<rej|same|err|diff> safe=<0|1> line=<hex> line2=<hex> safew=<0|1>` (safew = the position-aware class `Tags.safeW`, regenerated trigger) (line2 = line of the re-read set)       (`Parse`, `Line`, `Parse` again)
* `maprt <k> <v> …` → `<same|err|diff> safe=<0|1> line=<hex>`       (`MapToSet(m).Line()` parsed back)
* `fromkv <text>` → `ok <hex>` | `err`; `askv <fields>` → `ok <hex>` | `panic`; `check <fields>` → `0|1`
* `frt <text>` → `<rej|same|err|diff|panic> wf=<0|1> safe=<0|1> qsafe=<0|1> long=<0|1> kv=<hex>`; `fsafe <fields>` → `0|1`
     (`NewFieldsFromKVString`, `AsKVString`, `NewFieldsFromKVString` again; `long` = some decoded piece > 255 bytes)
* `prov <k> <v> …` → `<same|diff|err> qkey=<0|1> long=<0|1> [items=<fields>]`       (`field.Parse(MapToSet(m).Line())` vs the pairs; `qkey` = a name starts with a quote)
* `safe <k> <v> …` → `0|1`
-/
open Go Logrange Logrange.Quote Logrange.KV Logrange.Tags Logrange.FieldsKV Driver

def okList : Option (List Bytes) → String
  | none => "err"
  | some l => if l.isEmpty then "ok" else "ok " ++ hexList l

def pairsOfToks : List String → List (Bytes × Bytes)
  | k :: v :: r => (unhex k, unhex v) :: pairsOfToks r
  | _ => []

def flat (m : List (Bytes × Bytes)) : List Bytes := m.flatMap (fun p => [p.1, p.2])

def b01 (b : Bool) : String := if b then "1" else "0"

def rtOf (m : Map) (rejOnNone : Bool := false) : String :=
  let _ := rejOnNone
  let l := line m
  let (oc, l2) := match parse l with
    | none => ("err", [])
    | some m2 => (if m2 = m then "same" else "diff", line m2)
  s!"{oc} safe={b01 (safePinned m)} line={hex l} line2={hex l2} safew={b01 (safeW m)}"

def step (_ : Unit) (toks : List String) : Unit × String :=
  ((), match toks with
  | ["quote", s] => hex (quote (unhex s))
  | ["unquote", s] => (match unquote (unhex s) with | some r => "ok " ++ hex r | none => "err")
  | ["rcb", s] => (match removeCurlyBraces (unhex s) with | some r => "ok " ++ hex r | none => "err")
  | ["trim", s] => hex (trimSpaces (unhex s))
  | ["split", s] => okList (splitString (unhex s))
  | ["parse", s] => okList ((parse (unhex s)).map flat)
  | "line" :: kvs => hex (lineOf (pairsOfToks kvs))
  | ["rt", s] =>
    (match parse (unhex s) with
     | none => "rej safe=1 line=- line2=-"
     | some m => rtOf m)
  | "maprt" :: kvs => rtOf (Map.ofPairs (pairsOfToks kvs))
  | "prov" :: kvs =>
    -- pipe provenance: `field.Parse(srcTags)` must list the pairs of the set
    let m := Map.ofPairs (pairsOfToks kvs)
    let qkey := m.any (fun p => p.1.head? == some DQ || p.1.head? == some BQ)
    -- a name, a value or a printed value that does not fit a field (tags have no length limit, fields have)
    let long := m.any (fun p => p.1.length > maxLen || p.2.length > maxLen || (encTag p.2).length > maxLen)
    (match fromKVItems (line m) with
     | none => s!"err qkey={b01 qkey} long={b01 long}"
     | some items => s!"{if items = flat m then "same" else "diff"} qkey={b01 qkey} long={b01 long} items={hex (encodeItems items)}")
  | "safe" :: kvs => b01 (safePinned (Map.ofPairs (pairsOfToks kvs)))
  | ["fromkv", s] => (match fromKV (unhex s) with | some r => "ok " ++ hex r | none => "err")
  | ["askv", s] => (match asKV (unhex s) with | .ok r => "ok " ++ hex r | .panic => "panic")
  | ["check", s] => let f := unhex s; b01 (check (f.length + 1) f)
  | ["frt", s] =>
    (match fromKVItems (unhex s) with
     | none => "rej wf=1 safe=1 qsafe=1 long=0 kv=-"
     | some items =>
       let f := encodeItems items
       let long := items.any (fun x => x.length > maxLen)
       let wf := match decodeItems f.length f with | some it => it.length % 2 == 0 | none => false
       let sf := safeFieldsPinned (pairsOf items)
       let qs := qsafeFieldsPinned (pairsOf items)
       match asKV f with
       | .panic => s!"panic wf={b01 wf} safe={b01 sf} qsafe={b01 qs} long={b01 long} kv=-"
       | .ok kv =>
         let oc := match fromKV kv with
           | none => "err"
           | some f2 => if f2 = f then "same" else "diff"
         s!"{oc} wf={b01 wf} safe={b01 sf} qsafe={b01 qs} long={b01 long} kv={hex kv}")
  | ["fsafe", s] =>
    let f := unhex s
    (match decodeItems f.length f with
     | some items => b01 (safeFieldsPinned (pairsOf items))
     | none => "0")
  | _ => "bad-op")

def main (args : List String) : IO Unit := Driver.run step () args
