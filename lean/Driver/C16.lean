import Driver.RdProto
/-! Model driver for C16 (backward navigation and offsets): protocol in `Driver/RdProto.lean`. -/
def main (args : List String) : IO Unit := Driver.run Driver.Rd.step ({} : Driver.Rd.DSt) args
