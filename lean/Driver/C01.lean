import Driver.Common
import Logrange.Model.WireRT
import Logrange.Model.JournalW
import Logrange.Model.WriteLoopM
import Logrange.Model.JIterObs
import Logrange.Model.WriteReadE2E
import Logrange.Model.WritersPos
/-! Model driver for C01 (acknowledged writes are read back intact, once, in order). Requests
(byte strings hex, `-` = empty; timestamps as the decimal uint64 image of the int64):

* `ev.marshal <ts> <msg> <fields>`                → `<record> <writableSize>`
* `ev.unmarshal <prevFields> <buf>`               → `ok <n> <ts> <msg> <fields>` | `err` | `panic`
* `wp.encode <tags> <flds> <n> (<ts> <msg> <etags> <efields>)*` → `<packet>`
* `wp.decode <packet> <k> (<text> <parsed|!>)*`    → `ok <tags> <n> (<ts>/<msg>/<fields>)*` | `err` | `panic` | `unknown-text`
      the table is `field.NewFieldsFromKVString` on the texts of this packet (`!` = error), computed by the real code
* `wp.spec <flds> <n> (<ts> <msg> <etags> <efields>)* <k> (<text> <parsed|!>)*` → SPEC: `ok <n> (<ts>/<msg>/<fields>)*` | `reject`
* `w.reset <maxChunkSize>`                        → `ok`           (all partitions empty)
* `w.write <part> <n> (<ts> <msg> <fields>)*`     → `calls=[first last cid min max; …] start=c:i end=c:i err=0|1`
* `w.wp <part> <maxRec> <packet> <k> (<text> <parsed|!>)*`  → (maxRec: the record-size limit the ingestor knows, 0 = none) server side of one RPC write: `rejected` | `panic` | `n=<events> calls=… err=…`
* `w.writef <part> <cancel c|nonew 0|none 0> <n> (<ts> <msg> <fields>)*` → the same under a fault pattern (`serviceWriteF`)
* `w.restart <part> <durable>`                      → `ok`: graceful stop and restart (`gracefulRestart`)
* `w.read <part> <maxRecordSize>`                 → `ok <n> (<ts>/<msg>/<fields>)*` | `toosmall <k>` (the k-th record, 0-based, exceeds the read buffer)
      evaluated through the COMPOSED read path of the end-to-end theorem (`Model/WriteReadE2E.lean`): C03's journal iterator model
      drained from the head over the labelled view of the journal, fetch + unmarshal, the query loop with its fields cache
      (identity printer), result pages of 3 events encoded and decoded — for journals with records x chunks <= 60000; larger ones
      are answered by the flat form `readBack` (same answers: `E2E.iterLabels_eq`, `fetchDecode_all`)
* `w.layout <part>`                               → `<count of chunk 1> <count of chunk 2> …`
* `wpos.locked <noEvent 0|1>`                      → `1` | `0`: does a caller of `Service.Write` with this `noEvent` hold the per-partition write
      lock (`WritersLts.takesLock`, regenerated fact `writeLockScope`)? `0` = the late count read can shift its positions (F-C01-901)
* `tail.probe <old> <fuel> <polls> <count script…>` → `jobs=<probe> tail=<probe>`: the library journal iterator's observation model and
      the tail model on the scripted two-chunk journal; probe = `eof=<0|1>,pos=<cid>:<idx>,got=<indices joined by .|->,grew=<0|1>`
-/
open Go Driver Logrange Logrange.WireRT Logrange.JournalW Logrange.WriteLoopM

structure St where
  maxSize : Nat := 1
  parts : List (Nat × Journal) := []

def St.get (s : St) (p : Nat) : Journal := ((s.parts.find? (·.1 == p)).map (·.2)).getD []
def St.set (s : St) (p : Nat) (j : Journal) : St :=
  { s with parts := (p, j) :: s.parts.filter (·.1 != p) }

def showEv (e : Event) : String := s!"{e.ts}/{hex e.msg}/{hex e.fields}"
def showEvs (es : List Event) : String :=
  if es.isEmpty then s!"{es.length}" else s!"{es.length} " ++ " ".intercalate (es.map showEv)

def unknownMark : Bytes := ofAscii "\x01?unknown-text?\x01"

def hasMark (b : Bytes) : Bool :=
  let n := unknownMark.length
  b.length ≥ n && ((List.range (b.length - n + 1)).any (fun i => (b.drop i).take n == unknownMark))

/-- parse table: `(text, some parsed | none)`; a text that is not in the table parses to the unknown mark -/
def mkParse (tbl : List (Bytes × Option Bytes)) (t : Bytes) : Option Bytes :=
  if t.isEmpty then some [] else
  match tbl.find? (·.1 == t) with
  | some (_, r) => r
  | none => some unknownMark

partial def readTable : Nat → List String → List (Bytes × Option Bytes)
  | 0, _ => []
  | k+1, t :: p :: r => (unhex t, if p == "!" then none else some (unhex p)) :: readTable k r
  | _, _ => []

partial def readWEvents : Nat → List String → List WEvent × List String
  | 0, r => ([], r)
  | k+1, ts :: m :: t :: f :: r =>
    let (es, r') := readWEvents k r
    (⟨ts.toNat!, unhex m, unhex t, unhex f⟩ :: es, r')
  | _, r => ([], r)

partial def readEvents : Nat → List String → List Event
  | 0, _ => []
  | k+1, ts :: m :: f :: r => ⟨ts.toNat!, unhex m, unhex f⟩ :: readEvents k r
  | _, _ => []

def showPos : Option (Nat × Nat) → String
  | some (a, b) => s!"{a}:{b}"
  | none => "-"

def showOut (o : WOut) : String :=
  "calls=[" ++ "; ".intercalate (o.calls.map (fun c => s!"{c.first} {c.last} {c.cid} {c.minTs} {c.maxTs}")) ++
    "] start=" ++ showPos o.start ++ " end=" ++ showPos o.endp ++ " err=" ++ (if o.err then "1" else "0")

/-- unfiltered read of a partition: every record through `LogEvent.Unmarshal` on a released event (`prev = ""`);
a record longer than the chunk iterator's buffer (`MaxRecordSize`) ends the read with `ErrBufferTooSmall`. -/
def readBack (j : Journal) (maxRec : Nat) : String :=
  let recs := readAll j
  match recs.findIdx? (fun r => r.length > maxRec) with
  | some k => s!"toosmall {k}"
  | none =>
    let evs := recs.map (fun r => match Event.unmarshal [] r with | .ok (_, e) => some e | _ => none)
    if evs.any (·.isNone) then "undecodable" else "ok " ++ showEvs (evs.filterMap id)

/-- the same read through the composed model of the end-to-end theorem -/
def readBackE2E (j : Journal) (maxRec : Nat) : String :=
  let store := readAll j
  let labels := E2E.iterLabels j
  match labels.findIdx? (fun l => match store[l]? with | some r => r.length > maxRec | none => true) with
  | some k => s!"toosmall {k}"
  | none =>
    match E2E.fetchDecode maxRec store labels with
    | none => "undecodable"
    | some es =>
      match E2E.clientRead 3 [] id (E2E.queryLoop id [] {} es) with
      | some wes => "ok " ++ showEvs (wes.map (fun w => ⟨w.ts, w.msg, w.fields⟩))
      | none => "page-codec-failed"

def showProbe (p : JIterObs.Probe) : String :=
  let b (x : Bool) := if x then "1" else "0"
  let got := if p.delivered.isEmpty then "-" else ".".intercalate (p.delivered.map toString)
  s!"eof={b p.firstEof},pos={p.pos.1}:{p.pos.2},got={got},grew={b p.grew}"

def step (s : St) (toks : List String) : St × String :=
  match toks with
  | "tail.probe" :: old :: fuel :: polls :: script =>
    let sc := script.map String.toNat!
    (s, s!"jobs={showProbe (JIterObs.probe old.toNat! sc fuel.toNat! polls.toNat!)} tail={showProbe (JIterObs.Tail.probe sc fuel.toNat! polls.toNat!)}")
  | ["wpos.locked", ne] => (s, if WritersLts.takesLock (ne == "1") then "1" else "0")
  | ["ev.marshal", ts, m, f] =>
    let e : Event := ⟨ts.toNat!, unhex m, unhex f⟩
    (s, s!"{hex e.marshal} {e.writableSize}")
  | ["ev.unmarshal", prev, b] =>
    (s, match Event.unmarshal (unhex prev) (unhex b) with
        | .ok (n, e) => s!"ok {n} {e.ts} {hex e.msg} {hex e.fields}"
        | .err => "err"
        | .panic => "panic")
  | "wp.encode" :: tags :: flds :: n :: rest =>
    let (evs, _) := readWEvents n.toNat! rest
    (s, hex (wpEncode (unhex tags) (unhex flds) evs))
  | "wp.decode" :: b :: k :: rest =>
    let parse := mkParse (readTable k.toNat! rest)
    (s, match wpDrain parse (unhex b) with
        | .ok (tags, es) =>
          if es.any (fun e => hasMark e.fields) then "unknown-text" else s!"ok {hex tags} " ++ showEvs es
        | .err => "err"
        | .panic => "panic")
  | "wp.spec" :: flds :: n :: rest =>
    let (evs, r') := readWEvents n.toNat! rest
    match r' with
    | k :: tbl =>
      let parse := mkParse (readTable k.toNat! tbl)
      (match parse (unhex flds) with
       | none => (s, "reject")
       | some wf =>
         let sp := evs.map (storedSpec parse wf)
         if sp.any (·.isNone) then (s, "reject") else (s, "ok " ++ showEvs (sp.filterMap id)))
    | [] => (s, "bad-op")
  | ["w.reset", m] => ({ maxSize := m.toNat!, parts := [] }, "ok")
  | "w.write" :: p :: n :: rest =>
    let evs := readEvents n.toNat! rest
    let (j', o) := serviceWrite s.maxSize (s.get p.toNat!) (evs.map recOf)
    (s.set p.toNat! j', showOut o)
  | "w.wp" :: p :: mr :: b :: k :: rest =>
    let parse := mkParse (readTable k.toNat! rest)
    if sizeRejected parse mr.toNat! (unhex b) then (s, "rejected") else
    (match wpDrain parse (unhex b) with
     | .ok (_, es) =>
       if es.any (fun e => hasMark e.fields) then (s, "unknown-text") else
       let (j', o) := serviceWrite s.maxSize (s.get p.toNat!) (es.map recOf)
       (s.set p.toNat! j', s!"n={es.length} " ++ showOut o)
     | .err => (s, "rejected")
     | .panic => (s, "panic"))
  | "w.writef" :: p :: mode :: param :: n :: rest =>
    -- a direct write in an environment with faults: mode `cancel <c>` (the context is cancelled when record c is fetched),
    -- `nonew 0` (no new chunk can be created), `none 0`
    let evs := readEvents n.toNat! rest
    let fa : Nat → Journal → Bool :=
      if mode == "cancel" then faultCancelAt param.toNat! else if mode == "nonew" then faultNoNewChunk s.maxSize else fun _ _ => false
    let (j', o) := serviceWriteF fa s.maxSize (s.get p.toNat!) (evs.map recOf)
    (s.set p.toNat! j', showOut o)
  | ["w.restart", p, durable] =>
    -- graceful stop + restart: `durable` records were confirmed when the stop began
    (s.set p.toNat! (gracefulRestart (s.get p.toNat!) durable.toNat!), "ok")
  | ["w.read", p, mr] =>
    -- the iterator model looks a chunk up by id at every step (cost: records x chunks): beyond a budget the flat form answers
    let j := s.get p.toNat!
    if (readAll j).length * j.length ≤ 60000 then (s, readBackE2E j mr.toNat!) else (s, readBack j mr.toNat!)
  | ["w.readflat", p, mr] => (s, readBack (s.get p.toNat!) mr.toNat!)
  | ["w.layout", p] => (s, " ".intercalate ((s.get p.toNat!).map (fun c => toString c.recs.length)))
  | _ => (s, "bad-op")

def main (args : List String) : IO Unit := Driver.run step ({} : St) args
