import Driver.Common
/-! Model driver for C01 — not built yet. -/
def main (_args : List String) : IO Unit := pure ()
